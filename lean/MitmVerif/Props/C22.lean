/-
  C22 — property theorems.

  Decision theorems (all peer texts, all modes, all option pairs):
  * `global_refused`, `private_refused`, `loopback_and_localmode_exempt`, `others_not_refused`,
    `unparseable_not_refused`, `refused_before_processing`
  Notation theorems:
  * `mapped_equal_plain_addr`, `scope_irrelevant_addr`, `zone_stripped`, `mapped_scoped_equal_plain`
  Class facts, decided on the generated tables and lifted to every address by the interval lemma
  (`Lemmas.C22.allIn_sound`):
  * `classes_exclusive4/6`, `loopback_exact4/6`, `rfc1918_private`, `shared_space_neither`,
    `public_samples_global4`, `ula_linklocal_private6`, `public_sample_global6`
  End-to-end corollaries: `rfc1918_refused`, `public_v4_refused`, `loopback_v4_never_refused`.
-/
import MitmVerif.Model.C22
import MitmVerif.Lemmas.C22
import MitmVerif.Lemmas.C22Parse
import MitmVerif.Lemmas.C22Render
namespace MitmVerif.Props.C22
open MitmVerif MitmVerif.C22 MitmVerif.Gen.C22 MitmVerif.Lemmas.C22

/-- the class `Block` acts on: that of the IPv4-mapped view of the parsed address -/
abbrev classOf (a : Addr) : Cls := classify (effective a)

/-! ### the mode exemption (class hierarchy regenerated from `mode_specs` on every run) -/

/-- **only local-redirect mode is exempt.** Among all registered proxy mode classes exactly
    `LocalMode` passes `isinstance(client.proxy_mode, LocalMode)` — no other mode class inherits
    from it. -/
theorem only_local_mode_exempt (m : Mode) : m.isLocal = true ↔ m = Mode.local := by
  cases m <;> decide

private theorem not_local (m : Mode) (hm : m ≠ Mode.local) : m.isLocal = false := by
  cases h : m.isLocal
  · rfl
  · exact absurd ((only_local_mode_exempt m).1 h) hm

/-! ### decision theorems -/

/-- **block_global.** Whatever the notation of the peer text: if it denotes a globally routable,
    non-loopback address and the mode is not local-redirect, the connection is refused. -/
theorem global_refused (peer : Text) (a : Addr) (m : Mode) (bp : Bool)
    (hp : parseIp (peerHost peer) = some a) (hg : (classOf a).glob = true)
    (hl : (classOf a).loop = false) (hm : m ≠ Mode.local) :
    verdict peer m true bp = Verdict.killedGlobal ∧ (verdict peer m true bp).refused = true := by
  have hm' : m.isLocal = false := not_local m hm
  simp only [classOf] at hg hl
  simp [verdict, hp, decideAddr, hg, hl, hm', Verdict.refused]

/-- **block_private.** The same for private source addresses. -/
theorem private_refused (peer : Text) (a : Addr) (m : Mode) (bg : Bool)
    (hp : parseIp (peerHost peer) = some a) (hv : (classOf a).priv = true)
    (hl : (classOf a).loop = false) (hm : m ≠ Mode.local) :
    (verdict peer m bg true).refused = true := by
  have hm' : m.isLocal = false := not_local m hm
  simp only [classOf] at hv hl
  simp only [verdict, hp, decideAddr, hv, hl, hm']
  cases bg <;> cases (classify (effective a)).glob <;> simp [Verdict.refused]

/-- **exemptions.** Loopback sources and local-redirect mode are never refused, whatever the options. -/
theorem loopback_and_localmode_exempt (peer : Text) (a : Addr) (m : Mode) (bg bp : Bool)
    (hp : parseIp (peerHost peer) = some a) (h : (classOf a).loop = true ∨ m = Mode.local) :
    verdict peer m bg bp = Verdict.pass := by
  simp only [classOf] at h
  rcases h with h | h
  · simp [verdict, hp, decideAddr, h]
  · have hl : m.isLocal = true := (only_local_mode_exempt m).2 h
    simp [verdict, hp, decideAddr, hl]

/-- **nothing else is refused.** A refusal happens only for a parseable, non-loopback source outside
    local mode that is global with block_global on, or private with block_private on. -/
theorem others_not_refused (peer : Text) (m : Mode) (bg bp : Bool)
    (h : (verdict peer m bg bp).refused = true) :
    ∃ a, parseIp (peerHost peer) = some a ∧ (classOf a).loop = false ∧ m ≠ Mode.local ∧
      ((bg = true ∧ (classOf a).glob = true) ∨ (bp = true ∧ (classOf a).priv = true)) := by
  unfold verdict at h
  cases hp : parseIp (peerHost peer) with
  | none => simp [hp, Verdict.refused] at h
  | some a =>
    refine ⟨a, rfl, ?_⟩
    simp only [hp, decideAddr] at h
    simp only [classOf]
    cases hloop : (classify (effective a)).loop
    · cases hml : m.isLocal
      · have hne : m ≠ Mode.local := fun e => by
          rw [(only_local_mode_exempt m).2 e] at hml; exact Bool.noConfusion hml
        cases bg <;> cases bp <;>
          cases hg : (classify (effective a)).glob <;> cases hv : (classify (effective a)).priv <;>
          simp_all [Verdict.refused]
      · simp [hloop, hml, Verdict.refused] at h
    · simp [hloop, Verdict.refused] at h

/-- the error branch: a peer text `ipaddress` rejects makes the hook raise; `client.error` stays
    unset, i.e. the options do not refuse it -/
theorem unparseable_not_refused (peer : Text) (m : Mode) (bg bp : Bool)
    (hp : parseIp (peerHost peer) = none) :
    verdict peer m bg bp = Verdict.raised ∧ (verdict peer m bg bp).refused = false := by
  simp [verdict, hp, Verdict.refused]

/-- **refused before any protocol processing.** When the verdict is a refusal, `handle_client`
    closes the client writer and neither starts the layer stack nor reads from the client. -/
theorem refused_before_processing (peer : Text) (m : Mode) (bg bp : Bool)
    (h : (verdict peer m bg bp).refused = true) :
    clientTrace peer m bg bp = [Ev.hookClientConnected, Ev.closeWriter, Ev.hookClientDisconnected] ∧
    Ev.startLayer ∉ clientTrace peer m bg bp ∧ Ev.handleConnection ∉ clientTrace peer m bg bp := by
  simp [clientTrace, handleClient, h]

/-! ### notation theorems -/

/-- the IPv4-mapped IPv6 form of an IPv4 address is decided exactly like the IPv4 address,
    with or without a scope -/
theorem mapped_equal_plain_addr (n : Nat) (hn : n < 4294967296) (sc : Option Text)
    (m : Mode) (bg bp : Bool) :
    decideAddr (Addr.v6 (0xFFFF * 4294967296 + n) sc) m bg bp = decideAddr (Addr.v4 n) m bg bp := by
  have h1 : (0xFFFF * 4294967296 + n) / 4294967296 = 0xFFFF := by omega
  have h2 : (0xFFFF * 4294967296 + n) % 4294967296 = n := by omega
  simp [decideAddr, effective, h1, h2]

/-- the scope of an IPv6 address never influences the decision -/
theorem scope_irrelevant_addr (n : Nat) (sc : Option Text) (m : Mode) (bg bp : Bool) :
    decideAddr (Addr.v6 n sc) m bg bp = decideAddr (Addr.v6 n none) m bg bp := by
  simp only [decideAddr, effective]
  split <;> simp [classify]

private theorem beforeLastPct_none (t : Text) (h : (0x25 : UInt8) ∉ t) : beforeLastPct t = none := by
  induction t with
  | nil => rfl
  | cons c cs ih =>
    simp only [List.mem_cons, not_or] at h
    have hc : c ≠ 0x25 := fun e => h.1 e.symm
    simp [beforeLastPct, ih h.2, hc]

private theorem beforeLastPct_append (t z : Text) (hz : (0x25 : UInt8) ∉ z) :
    beforeLastPct (t ++ 0x25 :: z) = some t := by
  induction t with
  | nil => simp [beforeLastPct, beforeLastPct_none z hz]
  | cons c cs ih => simp [beforeLastPct, ih]

/-- `rsplit("%", 1)`: a `%zone` suffix is stripped; a text without `%` is left alone -/
theorem zone_stripped (t z : Text) (hz : (0x25 : UInt8) ∉ z) :
    peerHost (t ++ 0x25 :: z) = t ∧ ((0x25 : UInt8) ∉ t → peerHost t = t) := by
  constructor
  · simp [peerHost, beforeLastPct_append t z hz]
  · intro ht; simp [peerHost, beforeLastPct_none t ht]

/-- **IPv4-mapped and zone-scoped forms are decided like the plain form.** For every plain IPv4
    text `t4` (denoting `n`), every text `t6` that denotes its IPv4-mapped IPv6 address (with any
    or no scope of its own) and every zone `z`: the peers `t4`, `t4%z`, `t6`, `t6%z` all get the
    same verdict, for all modes and options. -/
theorem mapped_scoped_equal_plain (t4 t6 z : Text) (n : Nat) (sc : Option Text)
    (m : Mode) (bg bp : Bool)
    (hn : n < 4294967296) (h4 : parseIp t4 = some (Addr.v4 n))
    (h6 : parseIp t6 = some (Addr.v6 (0xFFFF * 4294967296 + n) sc))
    (hp4 : (0x25 : UInt8) ∉ t4) (hp6 : (0x25 : UInt8) ∉ t6) (hz : (0x25 : UInt8) ∉ z) :
    verdict (t4 ++ 0x25 :: z) m bg bp = verdict t4 m bg bp ∧
    verdict t6 m bg bp = verdict t4 m bg bp ∧
    verdict (t6 ++ 0x25 :: z) m bg bp = verdict t4 m bg bp := by
  have e1 := (zone_stripped t4 z hz).1
  have e2 := (zone_stripped t4 z hz).2 hp4
  have e3 := (zone_stripped t6 z hz).1
  have e4 := (zone_stripped t6 z hz).2 hp6
  have hm := mapped_equal_plain_addr n hn sc m bg bp
  simp only [verdict, e1, e2, e3, e4, h4, h6, hm, and_self]

-- the parser does produce these shapes (non-vacuity of the hypotheses above):
--   "8.8.8.8", "::ffff:8.8.8.8", "::FFFF:808:808", "0:0:0:0:0:ffff:8.8.8.8"
example : parseIp [0x38,0x2e,0x38,0x2e,0x38,0x2e,0x38] = some (Addr.v4 134744072) := by decide +kernel
example : parseIp [0x3a,0x3a,0x66,0x66,0x66,0x66,0x3a,0x38,0x2e,0x38,0x2e,0x38,0x2e,0x38]
    = some (Addr.v6 (0xFFFF * 4294967296 + 134744072) none) := by decide +kernel
example : parseIp [0x3a,0x3a,0x46,0x46,0x46,0x46,0x3a,0x38,0x30,0x38,0x3a,0x38,0x30,0x38]
    = some (Addr.v6 (0xFFFF * 4294967296 + 134744072) none) := by decide +kernel
--   "fe80::1%eth0" keeps its scope when it reaches the parser; "1.2.3.256", "1::2::3" are rejected
example : parseIp [0x66,0x65,0x38,0x30,0x3a,0x3a,0x31,0x25,0x65,0x74,0x68,0x30]
    = some (Addr.v6 338288524927261089654018896841347694593 (some [0x65,0x74,0x68,0x30])) := by decide +kernel
example : parseIp [0x31,0x2e,0x32,0x2e,0x33,0x2e,0x32,0x35,0x36] = none := by decide +kernel
example : parseIp [0x31,0x3a,0x3a,0x32,0x3a,0x3a,0x33] = none := by decide +kernel
--   the decision is not constant: 8.8.8.8 is refused by block_global, 10.0.0.1 only by block_private,
--   127.0.0.1 and local mode never
example : verdict [0x38,0x2e,0x38,0x2e,0x38,0x2e,0x38] .regular true false = .killedGlobal := by decide +kernel
example : verdict [0x31,0x30,0x2e,0x30,0x2e,0x30,0x2e,0x31] .regular true false = .pass := by decide +kernel
example : verdict [0x31,0x30,0x2e,0x30,0x2e,0x30,0x2e,0x31] .regular true true = .killedPrivate := by decide +kernel
example : verdict [0x38,0x2e,0x38,0x2e,0x38,0x2e,0x38] .local true true = .pass := by decide +kernel
example : verdict [0x31,0x32,0x37,0x2e,0x30,0x2e,0x30,0x2e,0x31] .regular true true = .pass := by decide +kernel

/-! ### class facts (generated tables + interval lemma) -/

private abbrev max4 : Nat := 4294967295
private abbrev max6 : Nat := 340282366920938463463374607431768211455

private def exclusive (c : Cls) : Bool :=
  !(c.glob && c.priv) && (!c.loop || (c.priv && !c.glob))

/-- no IPv4 address is both global and private; loopback addresses are private and not global -/
theorem classes_exclusive4 (n : Nat) (hn : n ≤ 4294967295) :
    let c := classify (Addr.v4 n)
    ¬(c.glob = true ∧ c.priv = true) ∧ (c.loop = true → c.priv = true ∧ c.glob = false) := by
  have h := all_rows exclusive v4Table max4 (by decide +kernel) n hn
  simp only [classify]
  generalize lookup v4Table n = c at h
  cases c with | mk l p g => cases l <;> cases p <;> cases g <;> simp_all [exclusive]

theorem classes_exclusive6 (n : Nat) (sc : Option Text)
    (hn : n ≤ 340282366920938463463374607431768211455) :
    let c := classify (Addr.v6 n sc)
    ¬(c.glob = true ∧ c.priv = true) ∧ (c.loop = true → c.priv = true ∧ c.glob = false) := by
  have h := all_rows exclusive v6Table max6 (by decide +kernel) n hn
  simp only [classify]
  generalize lookup v6Table n = c at h
  cases c with | mk l p g => cases l <;> cases p <;> cases g <;> simp_all [exclusive]

/-- the loopback class of IPv4 is exactly 127.0.0.0/8 -/
theorem loopback_exact4 (n : Nat) (hn : n ≤ 4294967295) :
    (classify (Addr.v4 n)).loop = true ↔ (2130706432 ≤ n ∧ n ≤ 2147483647) := by
  simp only [classify]
  constructor
  · intro h
    by_cases h1 : n ≤ 2130706431
    · have := allIn_sound (fun c => !c.loop) v4Table 0 2130706431 n (by decide +kernel) (Nat.zero_le _) h1
      simp [h] at this
    · by_cases h2 : 2147483648 ≤ n
      · have := allIn_sound (fun c => !c.loop) v4Table 2147483648 max4 n (by decide +kernel) h2 hn
        simp [h] at this
      · omega
  · intro ⟨h1, h2⟩
    exact allIn_sound (fun c => c.loop) v4Table 2130706432 2147483647 n (by decide +kernel) h1 h2

/-- the loopback class of IPv6 is exactly ::1 (IPv4-mapped loopback is handled by the mapped view) -/
theorem loopback_exact6 (n : Nat) (sc : Option Text)
    (hn : n ≤ 340282366920938463463374607431768211455) :
    (classify (Addr.v6 n sc)).loop = true ↔ n = 1 := by
  simp only [classify]
  constructor
  · intro h
    by_cases h0 : n = 0
    · subst h0; revert h; decide +kernel
    · by_cases h2 : 2 ≤ n
      · have := allIn_sound (fun c => !c.loop) v6Table 2 max6 n (by decide +kernel) h2 hn
        simp [h] at this
      · omega
  · intro h; subst h; decide +kernel

private def privOnly (c : Cls) : Bool := c.priv && !c.glob && !c.loop
private def globOnly (c : Cls) : Bool := c.glob && !c.priv && !c.loop
private def neither (c : Cls) : Bool := !c.glob && !c.priv && !c.loop

private theorem privOnly_iff (c : Cls) (h : privOnly c = true) :
    c.priv = true ∧ c.glob = false ∧ c.loop = false := by
  cases c with | mk l p g => cases l <;> cases p <;> cases g <;> simp_all [privOnly]
private theorem globOnly_iff (c : Cls) (h : globOnly c = true) :
    c.glob = true ∧ c.priv = false ∧ c.loop = false := by
  cases c with | mk l p g => cases l <;> cases p <;> cases g <;> simp_all [globOnly]
private theorem neither_iff (c : Cls) (h : neither c = true) :
    c.glob = false ∧ c.priv = false ∧ c.loop = false := by
  cases c with | mk l p g => cases l <;> cases p <;> cases g <;> simp_all [neither]

/-- 10/8, 172.16/12 and 192.168/16 are private, not global, not loopback -/
theorem rfc1918_private (n : Nat)
    (h : (167772160 ≤ n ∧ n ≤ 184549375) ∨ (2886729728 ≤ n ∧ n ≤ 2887778303) ∨
         (3232235520 ≤ n ∧ n ≤ 3232301055)) :
    let c := classify (Addr.v4 n)
    c.priv = true ∧ c.glob = false ∧ c.loop = false := by
  simp only [classify]
  apply privOnly_iff
  rcases h with ⟨a, b⟩ | ⟨a, b⟩ | ⟨a, b⟩
  · exact allIn_sound privOnly v4Table 167772160 184549375 n (by decide +kernel) a b
  · exact allIn_sound privOnly v4Table 2886729728 2887778303 n (by decide +kernel) a b
  · exact allIn_sound privOnly v4Table 3232235520 3232301055 n (by decide +kernel) a b

/-- 100.64.0.0/10 (shared address space) is neither global nor private for this interpreter:
    such clients are refused by neither option -/
theorem shared_space_neither (n : Nat) (h1 : 1681915904 ≤ n) (h2 : n ≤ 1686110207) :
    let c := classify (Addr.v4 n)
    c.glob = false ∧ c.priv = false ∧ c.loop = false := by
  simp only [classify]
  exact neither_iff _ (allIn_sound neither v4Table 1681915904 1686110207 n (by decide +kernel) h1 h2)

/-- ordinary public unicast ranges are global: 1.0.0.0–9.255.255.255, 11.0.0.0–100.63.255.255,
    128.0.0.0–169.253.255.255 -/
theorem public_samples_global4 (n : Nat)
    (h : (16777216 ≤ n ∧ n ≤ 167772159) ∨ (184549376 ≤ n ∧ n ≤ 1681915903) ∨
         (2147483648 ≤ n ∧ n ≤ 2851995647)) :
    let c := classify (Addr.v4 n)
    c.glob = true ∧ c.priv = false ∧ c.loop = false := by
  simp only [classify]
  apply globOnly_iff
  rcases h with ⟨a, b⟩ | ⟨a, b⟩ | ⟨a, b⟩
  · exact allIn_sound globOnly v4Table 16777216 167772159 n (by decide +kernel) a b
  · exact allIn_sound globOnly v4Table 184549376 1681915903 n (by decide +kernel) a b
  · exact allIn_sound globOnly v4Table 2147483648 2851995647 n (by decide +kernel) a b

/-- fc00::/7 (unique local) and fe80::/10 (link local) are private -/
theorem ula_linklocal_private6 (n : Nat) (sc : Option Text)
    (h : (334965454937798799971759379190646833152 ≤ n ∧ n ≤ 337623910929368631717566993311207522303) ∨
         (338288524927261089654018896841347694592 ≤ n ∧ n ≤ 338620831926207318622244848606417780735)) :
    let c := classify (Addr.v6 n sc)
    c.priv = true ∧ c.glob = false ∧ c.loop = false := by
  simp only [classify]
  apply privOnly_iff
  rcases h with ⟨a, b⟩ | ⟨a, b⟩
  · exact allIn_sound privOnly v6Table _ _ n (by decide +kernel) a b
  · exact allIn_sound privOnly v6Table _ _ n (by decide +kernel) a b

/-- everything between the end of the 2001:db8::/32 documentation block and fc00::/7, i.e.
    2001:db9:: … fbff:ffff:ffff:ffff:ffff:ffff:ffff:ffff (this contains 2002::/16 and all of 2400::/6 … 3ffe::),
    is global -/
theorem public_sample_global6 (n : Nat) (sc : Option Text)
    (h1 : 42540766490510755371168322545197776896 ≤ n)
    (h2 : n ≤ 334965454937798799971759379190646833151) :
    let c := classify (Addr.v6 n sc)
    c.glob = true ∧ c.priv = false ∧ c.loop = false := by
  simp only [classify]
  exact globOnly_iff _ (allIn_sound globOnly v6Table _ _ n (by decide +kernel) h1 h2)

/-! ### the interval tables ARE `ipaddress`' network membership (no constancy assumption) -/

/-- every network constant of the interpreter has a network address without host bits -/
theorem networks_aligned :
    (private4.all (aligned 32) && public4.all (aligned 32) && loopback4.all (aligned 32)) = true ∧
    (private6.all (aligned 128) && loopback6.all (aligned 128)) = true := by
  constructor <;> decide +kernel

/-- **IPv4 table = membership.** For EVERY IPv4 address the class looked up in the generated interval
    table is the class computed by membership in the interpreter's `_loopback_network`,
    `_private_networks`, `_public_network` (the 3.12.1 definitions of is_loopback / is_private / is_global). -/
theorem table_eq_membership4 (n : Nat) (hn : n ≤ 4294967295) :
    classify (Addr.v4 n) = memberCls (Addr.v4 n) := by
  simp only [classify, memberCls]
  exact rowsMatch_sound memberCls4 uniform4 (memberCls4_const networks_aligned.1) v4Table 0 max4 n
    (by decide +kernel) (Nat.zero_le _) hn

/-- **IPv6 table = membership**, for every IPv6 address outside the IPv4-mapped block (mapped
    addresses reach the classification as IPv4 addresses, `effective_not_mapped`). -/
theorem table_eq_membership6 (n : Nat) (sc : Option Text)
    (hn : n ≤ 340282366920938463463374607431768211455) (hm : n / 4294967296 ≠ 0xFFFF) :
    classify (Addr.v6 n sc) = memberCls (Addr.v6 n sc) := by
  simp only [classify, memberCls]
  by_cases h : n ≤ 281470681743359
  · exact rowsMatch_sound memberCls6 uniform6 (memberCls6_const networks_aligned.2) v6Table 0 281470681743359 n
      (by decide +kernel) (Nat.zero_le _) h
  · exact rowsMatch_sound memberCls6 uniform6 (memberCls6_const networks_aligned.2) v6Table 281474976710656 max6 n
      (by decide +kernel) (by omega) hn

/-- what `address.ipv4_mapped or address` hands to the classification is never an IPv4-mapped IPv6 address -/
theorem effective_not_mapped (a : Addr) (n : Nat) (sc : Option Text) (h : effective a = Addr.v6 n sc) :
    n / 4294967296 ≠ 0xFFFF := by
  cases a with
  | v4 k => simp [effective] at h
  | v6 k s =>
    simp only [effective] at h
    split at h
    · exact Addr.noConfusion h
    · injection h with h1 _; subst h1; assumption

/-- an address value as `ipaddress` can hold it -/
def wf : Addr → Prop
  | .v4 n => n ≤ 4294967295
  | .v6 n _ => n ≤ 340282366920938463463374607431768211455

/-- the class `Block` acts on is the membership class of the IPv4-mapped view, for every address -/
theorem classOf_eq_membership (a : Addr) (hw : wf a) : classOf a = memberCls (effective a) := by
  simp only [classOf]
  cases a with
  | v4 n => exact table_eq_membership4 n hw
  | v6 n sc =>
    simp only [effective]
    split
    · exact table_eq_membership4 _ (by omega)
    · exact table_eq_membership6 n sc hw (by assumption)

/-- **the decision in terms of `ipaddress`' own networks**: refused iff not loopback-network member, not
    local mode, and (block_global and not private and not in the shared-space network, resp.
    block_private and member of a private network) -/
theorem refused_iff_membership (peer : Text) (a : Addr) (m : Mode) (bg bp : Bool)
    (hp : parseIp (peerHost peer) = some a) (hw : wf a) :
    (verdict peer m bg bp).refused = true ↔
      ((memberCls (effective a)).loop = false ∧ m ≠ Mode.local ∧
        ((bg = true ∧ (memberCls (effective a)).glob = true) ∨
         (bp = true ∧ (memberCls (effective a)).priv = true))) := by
  have hc := classOf_eq_membership a hw
  simp only [classOf] at hc
  constructor
  · intro h
    obtain ⟨a', hp', h1, h2, h3⟩ := others_not_refused peer m bg bp h
    rw [hp] at hp'; injection hp' with e; subst e
    simp only [classOf, hc] at h1 h3
    exact ⟨h1, h2, h3⟩
  · intro ⟨h1, h2, h3⟩
    rcases h3 with ⟨hb, hg⟩ | ⟨hb, hv⟩
    · subst hb
      exact (global_refused peer a m bp hp (by simp only [classOf, hc]; exact hg)
        (by simp only [classOf, hc]; exact h1) h2).2
    · subst hb
      exact private_refused peer a m bg hp (by simp only [classOf, hc]; exact hv)
        (by simp only [classOf, hc]; exact h1) h2

private theorem parseOctet_le (s : Text) (v : Nat) (h : parseOctet s = some v) : v ≤ 255 := by
  unfold parseOctet at h
  split at h; · cases h
  split at h; · cases h
  split at h; · cases h
  split at h; · cases h
  simp only at h
  split at h
  · cases h
  · injection h with h; omega

/-- the IPv4 parser only produces 32-bit values -/
theorem parseV4_wf (s : Text) (n : Nat) (h : parseV4 s = some n) : wf (Addr.v4 n) := by
  unfold parseV4 at h
  split at h; · cases h
  split at h; · cases h
  split at h
  · rename_i a b c d _
    cases ha : parseOctet a <;> cases hb : parseOctet b <;> cases hc : parseOctet c <;>
      cases hd : parseOctet d <;> simp [ha, hb, hc, hd] at h
    have := parseOctet_le _ _ ha; have := parseOctet_le _ _ hb
    have := parseOctet_le _ _ hc; have := parseOctet_le _ _ hd
    simp only [wf]; omega
  · cases h

/-! ### every parse result is an address value `ipaddress` can hold (the `wf` side condition, derived) -/

private theorem v6Parts_ok (s : Text) (parts : List Part) (h : v6Parts s = some parts) :
    ∀ p ∈ parts, PartOk p := by
  unfold v6Parts at h
  split at h; · cases h
  simp only at h
  split at h; · cases h
  split at h
  · cases hv : parseV4 ((splitOn 0x3a s).getLast?.getD []) with
    | none => simp [hv] at h
    | some v =>
      simp only [hv, Option.some.injEq] at h
      subst h
      have hw := parseV4_wf _ v hv
      simp only [wf] at hw
      intro p hp
      simp only [List.mem_append, List.mem_map, List.mem_cons, List.not_mem_nil, or_false] at hp
      rcases hp with ⟨t, _, rfl⟩ | rfl | rfl
      · exact partOk_txt t
      · exact partOk_num _ (by omega)
      · exact partOk_num _ (by omega)
  · simp only [Option.some.injEq] at h
    subst h
    intro p hp
    simp only [List.mem_map] at hp
    obtain ⟨t, _, rfl⟩ := hp
    exact partOk_txt t

/-- the IPv6 parser only produces 128-bit values -/
theorem parseV6Int_lt (s : Text) (n : Nat) (h : parseV6Int s = some n) :
    n ≤ 340282366920938463463374607431768211455 := by
  unfold parseV6Int at h
  cases hp : v6Parts s with
  | none => simp [hp] at h
  | some parts =>
    simp only [hp] at h
    have := assembleV6_lt parts n (v6Parts_ok s parts hp) h
    omega

theorem parseV6_wf (s : Text) (a : Addr) (h : parseV6 s = some a) : wf a := by
  unfold parseV6 at h
  split at h; · cases h
  split at h
  · cases hn : parseV6Int s with
    | none => simp [hn] at h
    | some n =>
      simp only [hn, Option.map_some, Option.some.injEq] at h
      subst h; exact parseV6Int_lt s n hn
  · split at h; · cases h
    rename_i a' sc _ _
    cases hn : parseV6Int a' with
    | none => simp [hn] at h
    | some n =>
      simp only [hn, Option.map_some, Option.some.injEq] at h
      subst h; exact parseV6Int_lt a' n hn

/-- **`wf` is a theorem of the parser**: whatever text `ipaddress.ip_address` accepts, the value is
    below 2^32 (IPv4) resp. 2^128 (IPv6) -/
theorem parseIp_wf (s : Text) (a : Addr) (h : parseIp s = some a) : wf a := by
  unfold parseIp at h
  cases h4 : parseV4 s with
  | some n =>
    simp only [h4, Option.some.injEq] at h
    subst h; exact parseV4_wf s n h4
  | none =>
    simp only [h4] at h
    exact parseV6_wf s a h

/-- `classOf_eq_membership` without side condition: for the address any peer text denotes -/
theorem classOf_eq_membership_parsed (peer : Text) (a : Addr) (hp : parseIp (peerHost peer) = some a) :
    classOf a = memberCls (effective a) :=
  classOf_eq_membership a (parseIp_wf _ a hp)

/-- `refused_iff_membership` without side condition: for EVERY peer text that denotes an address the
    connection is refused iff the address (IPv4-mapped view) is outside the interpreter's loopback
    network, the mode is not local-redirect, and it is global with block_global on or a member of a
    private network with block_private on -/
theorem refused_iff_membership_parsed (peer : Text) (a : Addr) (m : Mode) (bg bp : Bool)
    (hp : parseIp (peerHost peer) = some a) :
    (verdict peer m bg bp).refused = true ↔
      ((memberCls (effective a)).loop = false ∧ m ≠ Mode.local ∧
        ((bg = true ∧ (memberCls (effective a)).glob = true) ∨
         (bp = true ∧ (memberCls (effective a)).priv = true))) :=
  refused_iff_membership peer a m bg bp hp (parseIp_wf _ a hp)

/-- the complete decision as one statement over all peer texts: unparseable ⇒ the hook raises and
    nothing is refused; parseable ⇒ refused exactly by the membership rule above -/
theorem verdict_total (peer : Text) (m : Mode) (bg bp : Bool) :
    (parseIp (peerHost peer) = none ∧ verdict peer m bg bp = Verdict.raised) ∨
    (∃ a, parseIp (peerHost peer) = some a ∧ wf a ∧
      ((verdict peer m bg bp).refused = true ↔
        ((memberCls (effective a)).loop = false ∧ m ≠ Mode.local ∧
          ((bg = true ∧ (memberCls (effective a)).glob = true) ∨
           (bp = true ∧ (memberCls (effective a)).priv = true))))) := by
  cases hp : parseIp (peerHost peer) with
  | none => exact Or.inl ⟨rfl, (unparseable_not_refused peer m bg bp hp).1⟩
  | some a => exact Or.inr ⟨a, rfl, parseIp_wf _ a hp, refused_iff_membership_parsed peer a m bg bp hp⟩

-- membership and table agree on concrete addresses, and membership is not constant
example : memberCls (Addr.v4 134744072) = ⟨false, false, true⟩ := by decide +kernel      -- 8.8.8.8
example : memberCls (Addr.v4 167772161) = ⟨false, true, false⟩ := by decide +kernel      -- 10.0.0.1
example : memberCls (Addr.v4 1681915905) = ⟨false, false, false⟩ := by decide +kernel    -- 100.64.0.1
example : memberCls (Addr.v6 1 none) = ⟨true, true, false⟩ := by decide +kernel           -- ::1

/-! ### the operating system's text forms, without parse hypotheses -/

private theorem mapped_no_pct (a b c d : Nat) (ha : a < 256) (hb : b < 256) (hc : c < 256) (hd : d < 256) :
    (0x25 : UInt8) ∉ mappedText a b c d := by
  have := dotted_no a b c d ha hb hc hd 0x25 (Or.inr (Or.inr rfl))
  simp only [mappedText, List.mem_append, not_or]
  exact ⟨by decide, this⟩

/-- the parser model reads the dotted quad back (IPv4 read-back) -/
theorem parseIp_dotted (a b c d : Nat) (ha : a < 256) (hb : b < 256) (hc : c < 256) (hd : d < 256) :
    parseIp (dotted a b c d) = some (Addr.v4 (((a * 256 + b) * 256 + c) * 256 + d)) := by
  simp [parseIp, parseV4_dotted a b c d ha hb hc hd]

/-- **IPv4-mapped and zone-scoped forms are decided like the plain form — for the text forms
    themselves.** For every IPv4 address `a.b.c.d` and every zone `z`: the peers `a.b.c.d`,
    `a.b.c.d%z`, `::ffff:a.b.c.d` and `::ffff:a.b.c.d%z` get the same verdict in every mode under all
    options.  (`mapped_scoped_equal_plain` with its parse hypotheses discharged by the read-back
    theorems `parseIp_dotted` / `parseIp_mapped`.) -/
theorem canonical_forms_equal_plain (a b c d : Nat) (ha : a < 256) (hb : b < 256) (hc : c < 256)
    (hd : d < 256) (z : Text) (hz : (0x25 : UInt8) ∉ z) (m : Mode) (bg bp : Bool) :
    verdict (dotted a b c d ++ 0x25 :: z) m bg bp = verdict (dotted a b c d) m bg bp ∧
    verdict (mappedText a b c d) m bg bp = verdict (dotted a b c d) m bg bp ∧
    verdict (mappedText a b c d ++ 0x25 :: z) m bg bp = verdict (dotted a b c d) m bg bp :=
  mapped_scoped_equal_plain (dotted a b c d) (mappedText a b c d) z
    (((a * 256 + b) * 256 + c) * 256 + d) none m bg bp (by omega)
    (parseIp_dotted a b c d ha hb hc hd) (parseIp_mapped a b c d ha hb hc hd)
    (dotted_no a b c d ha hb hc hd 0x25 (Or.inr (Or.inr rfl))) (mapped_no_pct a b c d ha hb hc hd) hz

/-- the verdict for the plain text form of an IPv4 address, in closed form over the interpreter's networks -/
theorem dotted_refused_iff (a b c d : Nat) (ha : a < 256) (hb : b < 256) (hc : c < 256) (hd : d < 256)
    (m : Mode) (bg bp : Bool) :
    (verdict (dotted a b c d) m bg bp).refused = true ↔
      ((memberCls4 (((a * 256 + b) * 256 + c) * 256 + d)).loop = false ∧ m ≠ Mode.local ∧
        ((bg = true ∧ (memberCls4 (((a * 256 + b) * 256 + c) * 256 + d)).glob = true) ∨
         (bp = true ∧ (memberCls4 (((a * 256 + b) * 256 + c) * 256 + d)).priv = true))) := by
  have hph : peerHost (dotted a b c d) = dotted a b c d :=
    (zone_stripped (dotted a b c d) [] (by simp)).2 (dotted_no a b c d ha hb hc hd 0x25 (Or.inr (Or.inr rfl)))
  have hp : parseIp (peerHost (dotted a b c d)) = some (Addr.v4 (((a * 256 + b) * 256 + c) * 256 + d)) := by
    rw [hph]; exact parseIp_dotted a b c d ha hb hc hd
  have := refused_iff_membership_parsed (dotted a b c d) _ m bg bp hp
  simpa [effective, memberCls] using this

set_option maxRecDepth 4000 in
/-- the hexadecimal IPv4-mapped form `::ffff:xxxx:yyyy` (what `str(IPv6Address)` prints for a mapped
    address), with or without a zone, is decided like the dotted quad — no parse hypotheses -/
theorem hex_mapped_form_equal_plain (a b c d : Nat) (ha : a < 256) (hb : b < 256) (hc : c < 256)
    (hd : d < 256) (z : Text) (hz : (0x25 : UInt8) ∉ z) (m : Mode) (bg bp : Bool) :
    verdict (mappedHexText (a * 256 + b) (c * 256 + d)) m bg bp = verdict (dotted a b c d) m bg bp ∧
    verdict (mappedHexText (a * 256 + b) (c * 256 + d) ++ 0x25 :: z) m bg bp = verdict (dotted a b c d) m bg bp := by
  have hx : a * 256 + b < 65536 := by omega
  have hy : c * 256 + d < 65536 := by omega
  have hp6 := parseIp_mappedHex (a * 256 + b) (c * 256 + d) hx hy
  have e : (a * 256 + b) * 65536 + (c * 256 + d) = ((a * 256 + b) * 256 + c) * 256 + d := by omega
  rw [e] at hp6
  have hno : (0x25 : UInt8) ∉ mappedHexText (a * 256 + b) (c * 256 + d) := by
    intro hm
    simp only [mappedHexText, List.mem_append, List.mem_cons] at hm
    rcases hm with hm | hm | hm | hm
    · revert hm; decide
    · exact (renderHextet_chars _ hx _ hm).2.2.2 rfl
    · revert hm; decide
    · exact (renderHextet_chars _ hy _ hm).2.2.2 rfl
  have := mapped_scoped_equal_plain (dotted a b c d) (mappedHexText (a * 256 + b) (c * 256 + d)) z
    (((a * 256 + b) * 256 + c) * 256 + d) none m bg bp (by omega)
    (parseIp_dotted a b c d ha hb hc hd) hp6
    (dotted_no a b c d ha hb hc hd 0x25 (Or.inr (Or.inr rfl))) hno hz
  exact ⟨this.2.1, this.2.2⟩

example : parseIp (mappedHexText 2049 515) = some (Addr.v6 (0xFFFF * 4294967296 + 134283779) none) := by decide +kernel

-- 10.1.2.3 in all four text forms under block_private, computed; and the read-back on a concrete address
example : parseIp (dotted 10 1 2 3) = some (Addr.v4 167838211) := by decide +kernel
example : parseIp (mappedText 10 1 2 3) = some (Addr.v6 (0xFFFF * 4294967296 + 167838211) none) := by decide +kernel
example : verdict (mappedText 10 1 2 3 ++ 0x25 :: [0x65, 0x74, 0x68, 0x30]) .regular false true = .killedPrivate := by
  decide +kernel

/-! ### end-to-end corollaries -/

/-- an RFC 1918 client — written plain, IPv4-mapped, and/or with a `%zone` — is refused under
    block_private in every non-local mode -/
theorem rfc1918_refused (peer : Text) (a : Addr) (n : Nat) (sc : Option Text) (m : Mode) (bg : Bool)
    (hp : parseIp (peerHost peer) = some a)
    (ha : a = Addr.v4 n ∨ a = Addr.v6 (0xFFFF * 4294967296 + n) sc)
    (h : (167772160 ≤ n ∧ n ≤ 184549375) ∨ (2886729728 ≤ n ∧ n ≤ 2887778303) ∨
         (3232235520 ≤ n ∧ n ≤ 3232301055))
    (hm : m ≠ Mode.local) :
    (verdict peer m bg true).refused = true := by
  have hn : n < 4294967296 := by omega
  have hc := rfc1918_private n h
  have he : effective a = Addr.v4 n := by
    rcases ha with rfl | rfl
    · rfl
    · have h1 : (0xFFFF * 4294967296 + n) / 4294967296 = 0xFFFF := by omega
      have h2 : (0xFFFF * 4294967296 + n) % 4294967296 = n := by omega
      simp [effective, h1, h2]
  exact private_refused peer a m bg hp (by simp only [classOf, he]; exact hc.1)
    (by simp only [classOf, he]; exact hc.2.2) hm

/-- a public IPv4 client (sample ranges), plain or IPv4-mapped, is refused under block_global in
    every non-local mode -/
theorem public_v4_refused (peer : Text) (a : Addr) (n : Nat) (sc : Option Text) (m : Mode) (bp : Bool)
    (hp : parseIp (peerHost peer) = some a)
    (ha : a = Addr.v4 n ∨ a = Addr.v6 (0xFFFF * 4294967296 + n) sc)
    (h : (16777216 ≤ n ∧ n ≤ 167772159) ∨ (184549376 ≤ n ∧ n ≤ 1681915903) ∨
         (2147483648 ≤ n ∧ n ≤ 2851995647))
    (hm : m ≠ Mode.local) :
    (verdict peer m true bp).refused = true := by
  have hn : n < 4294967296 := by omega
  have hc := public_samples_global4 n h
  have he : effective a = Addr.v4 n := by
    rcases ha with rfl | rfl
    · rfl
    · have h1 : (0xFFFF * 4294967296 + n) / 4294967296 = 0xFFFF := by omega
      have h2 : (0xFFFF * 4294967296 + n) % 4294967296 = n := by omega
      simp [effective, h1, h2]
  exact (global_refused peer a m bp hp (by simp only [classOf, he]; exact hc.1)
    (by simp only [classOf, he]; exact hc.2.2) hm).2

/-- a 127.0.0.0/8 client, plain or IPv4-mapped, is never refused -/
theorem loopback_v4_never_refused (peer : Text) (a : Addr) (n : Nat) (sc : Option Text) (m : Mode)
    (bg bp : Bool) (hp : parseIp (peerHost peer) = some a)
    (ha : a = Addr.v4 n ∨ a = Addr.v6 (0xFFFF * 4294967296 + n) sc)
    (h1 : 2130706432 ≤ n) (h2 : n ≤ 2147483647) :
    verdict peer m bg bp = Verdict.pass := by
  have he : effective a = Addr.v4 n := by
    rcases ha with rfl | rfl
    · rfl
    · have h1 : (0xFFFF * 4294967296 + n) / 4294967296 = 0xFFFF := by omega
      have h2 : (0xFFFF * 4294967296 + n) % 4294967296 = n := by omega
      simp [effective, h1, h2]
  exact loopback_and_localmode_exempt peer a m bg bp hp
    (Or.inl (by simp only [classOf, he]; exact (loopback_exact4 n (by omega)).2 ⟨h1, h2⟩))


/-! ### audit round 6 (b-c20): additional non-vacuity witnesses — hypotheses of the theorems above instantiated on
    concrete non-trivial values, computed by the kernel -/

-- `global_refused`: all four hypotheses hold together for the zone-scoped peer "8.8.8.8%eth0" in regular mode
example : parseIp (peerHost [0x38,0x2e,0x38,0x2e,0x38,0x2e,0x38,0x25,0x65,0x74,0x68,0x30]) = some (Addr.v4 134744072) ∧
    (classOf (Addr.v4 134744072)).glob = true ∧ (classOf (Addr.v4 134744072)).loop = false ∧
    Mode.regular ≠ Mode.local := by decide +kernel
-- `private_refused` / `rfc1918_refused`: "::ffff:192.168.1.5%wlan0" is IPv4-mapped + scoped; its class is private, not loopback
example : parseIp (peerHost [0x3a,0x3a,0x66,0x66,0x66,0x66,0x3a,0x31,0x39,0x32,0x2e,0x31,0x36,0x38,0x2e,0x31,0x2e,0x35,0x25,0x77,0x6c,0x61,0x6e,0x30]) = some (Addr.v6 (0xFFFF * 4294967296 + 3232235781) none) ∧
    (classOf (Addr.v6 (0xFFFF * 4294967296 + 3232235781) none)).priv = true ∧
    (classOf (Addr.v6 (0xFFFF * 4294967296 + 3232235781) none)).loop = false := by decide +kernel
-- a genuinely IPv6 global source ("2001:4860:4860::8888") and an IPv6 link-local one with a zone ("fe80::1%eth0")
example : verdict [0x32,0x30,0x30,0x31,0x3a,0x34,0x38,0x36,0x30,0x3a,0x34,0x38,0x36,0x30,0x3a,0x3a,0x38,0x38,0x38,0x38] .regular true false = .killedGlobal := by decide +kernel
example : verdict [0x66,0x65,0x38,0x30,0x3a,0x3a,0x31,0x25,0x65,0x74,0x68,0x30] .regular false true = .killedPrivate ∧
    verdict [0x66,0x65,0x38,0x30,0x3a,0x3a,0x31,0x25,0x65,0x74,0x68,0x30] .regular true false = .pass ∧
    verdict [0x66,0x65,0x38,0x30,0x3a,0x3a,0x31,0x25,0x65,0x74,0x68,0x30] .local true true = .pass := by decide +kernel
-- `others_not_refused` / `refused_before_processing`: their hypothesis (a refusal) is reachable, and the trace is the short one
example : (verdict [0x38,0x2e,0x38,0x2e,0x38,0x2e,0x38] .regular true false).refused = true ∧
    clientTrace [0x38,0x2e,0x38,0x2e,0x38,0x2e,0x38] .regular true false = [Ev.hookClientConnected, Ev.closeWriter, Ev.hookClientDisconnected] ∧
    clientTrace [0x31,0x32,0x37,0x2e,0x30,0x2e,0x30,0x2e,0x31] .regular true true =
      [Ev.hookClientConnected, Ev.startLayer, Ev.handleConnection, Ev.hookClientDisconnected] := by decide +kernel
-- `unparseable_not_refused`: "localhost" and "8.8.8.8/32" are no addresses: the hook raises, nothing is refused
example : verdict [0x6c,0x6f,0x63,0x61,0x6c,0x68,0x6f,0x73,0x74] .regular true true = .raised ∧
    verdict [0x38,0x2e,0x38,0x2e,0x38,0x2e,0x38,0x2f,0x33,0x32] .regular true true = .raised := by decide +kernel
-- `loopback_v4_never_refused`: the mapped + scoped loopback "::ffff:127.0.0.1%lo" passes under both options
example : verdict [0x3a,0x3a,0x66,0x66,0x66,0x66,0x3a,0x31,0x32,0x37,0x2e,0x30,0x2e,0x30,0x2e,0x31,0x25,0x6c,0x6f] .regular true true = .pass := by decide +kernel
-- `shared_space_neither`: 100.64.0.1 is refused by neither option (end to end)
example : verdict [0x31,0x30,0x30,0x2e,0x36,0x34,0x2e,0x30,0x2e,0x31] .regular true true = .pass := by decide +kernel
-- `table_eq_membership6` / `effective_not_mapped`: a non-mapped IPv6 address satisfies the side condition and the two
-- classifications agree on it with a non-trivial class
example : (42541956123769884636017138956568135816 : Nat) / 4294967296 ≠ 0xFFFF ∧
    classify (Addr.v6 42541956123769884636017138956568135816 none) = memberCls (Addr.v6 42541956123769884636017138956568135816 none) ∧
    (classify (Addr.v6 42541956123769884636017138956568135816 none)).glob = true := by decide +kernel
example : effective (Addr.v6 338288524927261089654018896841347694593 (some [0x65,0x74,0x68,0x30])) = Addr.v6 338288524927261089654018896841347694593 (some [0x65,0x74,0x68,0x30]) ∧
    effective (Addr.v6 (0xFFFF * 4294967296 + 167772161) none) = Addr.v4 167772161 := by decide +kernel
-- `only_local_mode_exempt` is not about a one-element type: other modes exist and are not exempt
example : Mode.regular.isLocal = false ∧ Mode.local.isLocal = true := by decide

end MitmVerif.Props.C22
