/-
  C23 — property theorems.
  * `spec_implies_blocked`              : denotesOwnSocket ⇒ the guard of `server_connect` fires
  * `blocked_sets_error_and_no_connect` : guard fires ⇒ server.error = destination-unknown, and
                                          `open_connection` never reaches the socket primitive
  * `own_socket_never_connected`        : the composition (the property as stated)
  * `localhost_any_spelling`, `loopback_addresses_blocked`, `wildcard_blocked`,
    `both_transport_listener_covered`   : the spelling classes the statement lists, one by one
-/
import MitmVerif.Model.C23
import MitmVerif.Lemmas.C23Render
import MitmVerif.Lemmas.C23Refine
namespace MitmVerif.Props.C23
open MitmVerif MitmVerif.C22 MitmVerif.C23 MitmVerif.Lemmas.C22 MitmVerif.Lemmas.C23

private theorem loopbackAddr_effective (a : Addr) (h : loopbackAddr a = true) :
    isLoopback (effective a) = true := by
  cases a with
  | v4 n => simpa [loopbackAddr, effective, isLoopback, Gen.C23.loop4Lo, Gen.C23.loop4Hi] using h
  | v6 n sc =>
    simp only [loopbackAddr, Bool.or_eq_true, Bool.and_eq_true, beq_iff_eq, Nat.ble_eq] at h
    rcases h with h | ⟨⟨hm, h1⟩, h2⟩
    · subst h
      simp [effective, isLoopback, Gen.C23.loop6]
    · simp [effective, hm, isLoopback, Gen.C23.loop4Lo, Gen.C23.loop4Hi, h1, h2]

private theorem unspecAddr_effective (a : Addr) (h : unspecAddr a = true) :
    isUnspecified (effective a) = true := by
  cases a with
  | v4 n => simpa [unspecAddr, effective, isUnspecified, Gen.C23.unspec4] using h
  | v6 n sc =>
    simp only [unspecAddr, Bool.or_eq_true, beq_iff_eq] at h
    rcases h with h | h
    · subst h
      simp [effective, isUnspecified, Gen.C23.unspec6]
    · subst h
      simp [effective, isUnspecified, Gen.C23.unspec4]

private theorem own_of_loopback (dh lh : Text) (h : denotesLoopback dh = true) :
    isOwnHost dh lh = true := by
  unfold denotesLoopback at h
  unfold isOwnHost
  simp only [Bool.or_eq_true] at h
  rcases h with h | h
  · simp [h]
  · cases hp : parseIp (normHost dh) with
    | none => simp [hp, optAny] at h
    | some a =>
      simp only [hp, optAny] at h
      simp [hp, loopbackAddr_effective a h]

private theorem own_of_unspecified (dh lh : Text) (h : denotesUnspecified dh = true) :
    isOwnHost dh lh = true := by
  unfold denotesUnspecified at h
  unfold isOwnHost
  cases hp : parseIp (normHost dh) with
  | none => simp [hp, optAny] at h
  | some a =>
    simp only [hp, optAny] at h
    simp [hp, unspecAddr_effective a h]

private theorem own_of_sameHost (dh lh : Text) (h : sameHost dh lh = true) :
    isOwnHost dh lh = true := by
  unfold sameHost at h
  unfold isOwnHost
  simp only [Bool.or_eq_true, beq_iff_eq] at h
  rcases h with (h | h) | h
  · subst h; simp
  · simp [h]
  · cases hp : parseIp (normHost dh) with
    | none => simp [hp] at h
    | some a =>
      cases hl : parseIp lh with
      | none => simp [hp, hl] at h
      | some b =>
        simp only [hp, hl, beq_iff_eq] at h
        simp [hp, h]

/-- the host part of the specification is recognised by `_is_own_host` -/
private theorem own_of_spec (dh lh : Text)
    (h : (sameHost dh lh || (listensOnLoopbackOrAny lh && denotesLoopback dh) || denotesUnspecified dh) = true) :
    isOwnHost dh lh = true := by
  simp only [Bool.or_eq_true, Bool.and_eq_true] at h
  rcases h with (h | ⟨_, h⟩) | h
  · exact own_of_sameHost dh lh h
  · exact own_of_loopback dh lh h
  · exact own_of_unspecified dh lh h

/-- **C23 (goal).** Every destination that denotes one of the listening sockets — same transport
    (a listener for both transports counts for either), same port, and the explicit listen address /
    a loopback name or address while listening on loopback or all interfaces / the wildcard address —
    is recognised as a self-connect, for every list of servers. -/
theorem spec_implies_blocked (servers : List Server) (dh : Text) (dp : Nat) (tp : Transport)
    (h : denotesOwnSocket servers dh dp tp = true) : selfConnect servers dh dp tp = true := by
  unfold denotesOwnSocket at h
  unfold selfConnect
  simp only [List.any_eq_true] at h ⊢
  obtain ⟨s, hs, a, ha, hpred⟩ := h
  refine ⟨s, hs, a, ha, ?_⟩
  simp only [Bool.and_eq_true] at hpred
  obtain ⟨⟨ht, hport⟩, hhost⟩ := hpred
  simp [hport, ht, own_of_spec dh a.1 hhost]

/-- **C23 (effect).** When the guard fires, `server.error` is the destination-unknown error and
    `open_connection` runs `server_connect_error` and completes the command with an error — the
    socket primitive is never reached, whatever it would have answered. -/
theorem blocked_sets_error_and_no_connect (servers : List Server) (dh : Text) (dp : Nat)
    (tp : Transport) (connectOk : Bool) (h : selfConnect servers dh dp tp = true) :
    serverConnect servers dh dp tp = some SrvError.destinationUnknown ∧
    openTrace servers dh dp tp connectOk =
      [Ev.hookServerConnect, Ev.hookServerConnectError, Ev.completedKilled] ∧
    Ev.socketOpen ∉ openTrace servers dh dp tp connectOk := by
  simp [openTrace, serverConnect, h, openConnection]

/-- **C23, for the spellings of the property's quantifier.** An upstream connection is never opened to a
    destination that denotes one of mitmproxy's own listening sockets; the request fails with the
    destination-unknown error. "Denotes" is `denotesOwnSocket`: `localhost` in any ASCII case with an optional
    trailing dot and every spelling `ipaddress` parses (all of 127.0.0.0/8, `::1`, IPv4-mapped loopback,
    `0.0.0.0`, `::`, the listen address in any notation) — exactly the spellings properties.jsonl lists.
    Spellings only the resolver understands (`127.1`, `2130706433`, …) are NOT covered and do reach the socket:
    `resolver_spelling_counterexample`, recorded finding F-C23b. -/
theorem own_socket_never_connected (servers : List Server) (dh : Text) (dp : Nat) (tp : Transport)
    (connectOk : Bool) (h : denotesOwnSocket servers dh dp tp = true) :
    Ev.socketOpen ∉ openTrace servers dh dp tp connectOk ∧
    serverConnect servers dh dp tp = some SrvError.destinationUnknown := by
  have hb := blocked_sets_error_and_no_connect servers dh dp tp connectOk
    (spec_implies_blocked servers dh dp tp h)
  exact ⟨hb.2.2, hb.1⟩

/-- conversely the socket is reached exactly when the guard does not fire (the guard is the only
    thing in this path that prevents the connect) -/
theorem not_blocked_reaches_socket (servers : List Server) (dh : Text) (dp : Nat) (tp : Transport)
    (connectOk : Bool) (h : selfConnect servers dh dp tp = false) :
    Ev.socketOpen ∈ openTrace servers dh dp tp connectOk := by
  simp [openTrace, serverConnect, h, openConnection]

/-! ### the spelling classes of the statement -/

/-- on a listener bound to `lh:port` with matching transport, every host recognised by the spec's
    host clause is blocked -/
private theorem blocked_on (servers : List Server) (s : Server) (lh : Text) (dh : Text) (dp : Nat)
    (tp : Transport) (hs : s ∈ servers) (ha : (lh, dp) ∈ s.addrs)
    (ht : transportMatches s.transport tp = true) (hown : isOwnHost dh lh = true) :
    selfConnect servers dh dp tp = true := by
  unfold selfConnect
  simp only [List.any_eq_true]
  exact ⟨s, hs, (lh, dp), ha, by simp [hown, ht]⟩

/-- `localhost` in any ASCII case, with or without one trailing dot, on the port of any listener of
    a matching transport -/
theorem localhost_any_spelling (servers : List Server) (s : Server) (lh dh : Text) (dp : Nat)
    (tp : Transport) (hs : s ∈ servers) (ha : (lh, dp) ∈ s.addrs)
    (ht : transportMatches s.transport tp = true) (hd : normHost dh = localhost) :
    selfConnect servers dh dp tp = true :=
  blocked_on servers s lh dh dp tp hs ha ht (by simp [isOwnHost, hd])

/-- every address of 127.0.0.0/8, `::1` and every IPv4-mapped loopback address, in whatever
    notation `ipaddress` parses -/
theorem loopback_addresses_blocked (servers : List Server) (s : Server) (lh dh : Text) (dp : Nat)
    (tp : Transport) (a : Addr) (hs : s ∈ servers) (ha : (lh, dp) ∈ s.addrs)
    (ht : transportMatches s.transport tp = true)
    (hp : parseIp (normHost dh) = some a) (hl : loopbackAddr a = true) :
    selfConnect servers dh dp tp = true :=
  blocked_on servers s lh dh dp tp hs ha ht
    (own_of_loopback dh lh (by simp [denotesLoopback, hp, optAny, hl]))

/-- the wildcard addresses `0.0.0.0`, `::`, `::ffff:0.0.0.0` -/
theorem wildcard_blocked (servers : List Server) (s : Server) (lh dh : Text) (dp : Nat)
    (tp : Transport) (a : Addr) (hs : s ∈ servers) (ha : (lh, dp) ∈ s.addrs)
    (ht : transportMatches s.transport tp = true)
    (hp : parseIp (normHost dh) = some a) (hu : unspecAddr a = true) :
    selfConnect servers dh dp tp = true :=
  blocked_on servers s lh dh dp tp hs ha ht
    (own_of_unspecified dh lh (by simp [denotesUnspecified, hp, optAny, hu]))

/-- a mode that listens on both transports is covered for TCP and for UDP destinations -/
theorem both_transport_listener_covered (tp : Transport) : transportMatches ModeTransport.both tp = true := by
  cases tp <;> rfl

/-! ### "every address in 127.0.0.0/8", the IPv4-mapped loopback addresses and the wildcard — as texts,
    without parse hypotheses (read-back theorems of the C22 parser model) -/

/-- **every address of 127.0.0.0/8, written `127.b.c.d`**, on the port of any listener of a
    matching transport, is refused -/
theorem every_127_address_blocked (servers : List Server) (s : Server) (lh : Text) (b c d dp : Nat)
    (tp : Transport) (hb : b < 256) (hc : c < 256) (hd : d < 256)
    (hs : s ∈ servers) (ha : (lh, dp) ∈ s.addrs) (ht : transportMatches s.transport tp = true) :
    selfConnect servers (dotted 127 b c d) dp tp = true := by
  refine loopback_addresses_blocked servers s lh (dotted 127 b c d) dp tp
    (Addr.v4 (((127 * 256 + b) * 256 + c) * 256 + d)) hs ha ht ?_ ?_
  · rw [normHost_dotted 127 b c d (by decide) hb hc hd]
    simp [parseIp, parseV4_dotted 127 b c d (by decide) hb hc hd]
  · simp only [loopbackAddr, Bool.and_eq_true, Nat.ble_eq]
    omega

/-- **every IPv4-mapped loopback address, written `::ffff:127.b.c.d`**, likewise -/
theorem every_mapped_127_address_blocked (servers : List Server) (s : Server) (lh : Text) (b c d dp : Nat)
    (tp : Transport) (hb : b < 256) (hc : c < 256) (hd : d < 256)
    (hs : s ∈ servers) (ha : (lh, dp) ∈ s.addrs) (ht : transportMatches s.transport tp = true) :
    selfConnect servers (mappedText 127 b c d) dp tp = true := by
  refine loopback_addresses_blocked servers s lh (mappedText 127 b c d) dp tp
    (Addr.v6 (0xFFFF * 4294967296 + (((127 * 256 + b) * 256 + c) * 256 + d)) none) hs ha ht ?_ ?_
  · rw [normHost_mapped 127 b c d (by decide) hb hc hd]
    exact parseIp_mapped 127 b c d (by decide) hb hc hd
  · have h1 : (0xFFFF * 4294967296 + (((127 * 256 + b) * 256 + c) * 256 + d)) / 4294967296 = 0xFFFF := by omega
    have h2 : (0xFFFF * 4294967296 + (((127 * 256 + b) * 256 + c) * 256 + d)) % 4294967296 =
        ((127 * 256 + b) * 256 + c) * 256 + d := by omega
    simp only [loopbackAddr, h1, h2, Bool.or_eq_true, Bool.and_eq_true, beq_iff_eq, Nat.ble_eq]
    right
    exact ⟨⟨trivial, by omega⟩, by omega⟩

/-- the explicit listen address written as a dotted quad (plain or IPv4-mapped) is refused on a
    listener bound to that dotted quad, whatever the address is -/
theorem listen_address_dotted_blocked (servers : List Server) (s : Server) (a b c d dp : Nat) (tp : Transport)
    (h0 : a < 256) (hb : b < 256) (hc : c < 256) (hd : d < 256)
    (hs : s ∈ servers) (ha : (dotted a b c d, dp) ∈ s.addrs) (ht : transportMatches s.transport tp = true) :
    selfConnect servers (dotted a b c d) dp tp = true ∧
    selfConnect servers (mappedText a b c d) dp tp = true := by
  have hspec : ∀ dh, sameHost dh (dotted a b c d) = true → selfConnect servers dh dp tp = true := by
    intro dh hsame
    apply spec_implies_blocked
    simp only [denotesOwnSocket, List.any_eq_true]
    exact ⟨s, hs, (dotted a b c d, dp), ha, by simp [ht, hsame]⟩
  constructor
  · exact hspec _ (by simp [sameHost])
  · apply hspec
    have hp6 := parseIp_mapped a b c d h0 hb hc hd
    have hp4 : parseIp (dotted a b c d) = some (Addr.v4 (((a * 256 + b) * 256 + c) * 256 + d)) := by
      simp [parseIp, parseV4_dotted a b c d h0 hb hc hd]
    have h1 : (0xFFFF * 4294967296 + (((a * 256 + b) * 256 + c) * 256 + d)) / 4294967296 = 0xFFFF := by omega
    have h2 : (0xFFFF * 4294967296 + (((a * 256 + b) * 256 + c) * 256 + d)) % 4294967296 =
        ((a * 256 + b) * 256 + c) * 256 + d := by omega
    simp [sameHost, normHost_mapped a b c d h0 hb hc hd, hp6, hp4, effective, h1, h2]

/-- **`localhost` in any ASCII case, with or without one trailing dot** — the hypothesis of
    `localhost_any_spelling` derived: every text whose ASCII lower-casing is `localhost` or `localhost.`
    is refused on the port of any listener of a matching transport -/
theorem localhost_case_and_dot_blocked (servers : List Server) (s : Server) (lh dh : Text) (dp : Nat)
    (tp : Transport) (hs : s ∈ servers) (ha : (lh, dp) ∈ s.addrs)
    (ht : transportMatches s.transport tp = true)
    (hd : dh.map asciiLowerB = localhost ∨ dh.map asciiLowerB = localhost ++ [0x2e]) :
    selfConnect servers dh dp tp = true := by
  apply localhost_any_spelling servers s lh dh dp tp hs ha ht
  rcases hd with h | h
  · simp only [normHost, h]; decide
  · simp only [normHost, h]; decide

-- "LocalHost." : its lower-casing is "localhost."
example : ([0x4c,0x6f,0x63,0x61,0x6c,0x48,0x6f,0x73,0x74,0x2e] : Text).map asciiLowerB = localhost ++ [0x2e] := by decide

/-- **the wildcard address itself**, in its three text forms `0.0.0.0`, `::`, `::ffff:0.0.0.0`, is refused
    on the port of any listener of a matching transport (the hypotheses of `wildcard_blocked` computed) -/
theorem wildcard_texts_blocked (servers : List Server) (s : Server) (lh : Text) (dp : Nat)
    (tp : Transport) (hs : s ∈ servers) (ha : (lh, dp) ∈ s.addrs)
    (ht : transportMatches s.transport tp = true) :
    selfConnect servers (dotted 0 0 0 0) dp tp = true ∧
    selfConnect servers [0x3a, 0x3a] dp tp = true ∧
    selfConnect servers (mappedText 0 0 0 0) dp tp = true := by
  refine ⟨?_, ?_, ?_⟩
  · exact wildcard_blocked servers s lh _ dp tp (Addr.v4 0) hs ha ht (by decide +kernel) (by decide)
  · exact wildcard_blocked servers s lh _ dp tp (Addr.v6 0 none) hs ha ht (by decide +kernel) (by decide)
  · exact wildcard_blocked servers s lh _ dp tp (Addr.v6 (0xFFFF * 4294967296) none) hs ha ht
      (by decide +kernel) (by decide)

/-- `::1` (also written out in full) is refused on the port of any listener of a matching transport -/
theorem ipv6_loopback_texts_blocked (servers : List Server) (s : Server) (lh : Text) (dp : Nat)
    (tp : Transport) (hs : s ∈ servers) (ha : (lh, dp) ∈ s.addrs)
    (ht : transportMatches s.transport tp = true) :
    selfConnect servers [0x3a, 0x3a, 0x31] dp tp = true ∧
    selfConnect servers [0x30,0x3a,0x30,0x3a,0x30,0x3a,0x30,0x3a,0x30,0x3a,0x30,0x3a,0x30,0x3a,0x31] dp tp = true := by
  refine ⟨?_, ?_⟩
  · exact loopback_addresses_blocked servers s lh _ dp tp (Addr.v6 1 none) hs ha ht (by decide +kernel) (by decide)
  · exact loopback_addresses_blocked servers s lh _ dp tp (Addr.v6 1 none) hs ha ht (by decide +kernel) (by decide)

/-! ### histories of runtime reconfiguration -/

/-- **C23 over histories.** For every initial listener state and every history of runtime
    reconfigurations (`Servers.update`) and upstream connection attempts: an attempt whose destination
    denotes — under any spelling the specification covers — a socket of the listener set that is
    CURRENT at that point of the history (the state reached by the operations before it) never reaches
    the socket primitive; it ends with the destination-unknown error. -/
theorem history_never_connects_to_current_own_socket (st0 : State) (ops : List Op) (i : Nat)
    (dh : Text) (dp : Nat) (tp : Transport) (ok : Bool)
    (hop : ops[i]? = some (Op.connect dh dp tp ok))
    (hown : denotesOwnSocket (stateAfter st0 (ops.take i)).live dh dp tp = true) :
    (run st0 ops)[i]? =
      some (Out.trace [Ev.hookServerConnect, Ev.hookServerConnectError, Ev.completedKilled]) := by
  induction ops generalizing st0 i with
  | nil => simp at hop
  | cons op rest ih =>
    cases i with
    | zero =>
      simp only [List.getElem?_cons_zero, Option.some.injEq] at hop
      subst hop
      simp only [List.take_zero, stateAfter] at hown
      have hb := blocked_sets_error_and_no_connect st0.live dh dp tp ok
        (spec_implies_blocked st0.live dh dp tp hown)
      simp [run, stepOut, hb.2.1]
    | succ j =>
      simp only [List.getElem?_cons_succ] at hop
      simp only [List.take_succ_cons, stateAfter] at hown
      simp only [run, List.getElem?_cons_succ]
      exact ih (stepState st0 op) j hop hown

/-- the output of every step of a history is determined by the state current at that step -/
theorem run_step (st0 : State) (ops : List Op) (i : Nat) (op : Op) (hop : ops[i]? = some op) :
    (run st0 ops)[i]? = some (stepOut (stateAfter st0 (ops.take i)) op) := by
  induction ops generalizing st0 i with
  | nil => simp at hop
  | cons o rest ih =>
    cases i with
    | zero =>
      simp only [List.getElem?_cons_zero, Option.some.injEq] at hop
      subst hop; simp [run, stateAfter]
    | succ j =>
      simp only [List.getElem?_cons_succ] at hop
      simp only [run, List.getElem?_cons_succ, List.take_succ_cons, stateAfter]
      exact ih (stepState st0 o) j hop

private theorem lookupKey_update_new (st : State) (modes : List Nat) (start : List (Nat × Server)) (k : Nat)
    (s : Server) (hk : k ∈ modes) (hnew : lookupKey st k = none) (hs : lookupKey start k = some s) :
    s ∈ (update st true modes start).live := by
  simp only [update, if_true, State.live, List.map_map, List.mem_map]
  exact ⟨k, hk, by simp [hnew, hs]⟩

private theorem lookupKey_update_kept (st : State) (modes : List Nat) (start : List (Nat × Server)) (k : Nat)
    (s : Server) (hk : k ∈ modes) (hold : lookupKey st k = some s) :
    s ∈ (update st true modes start).live := by
  simp only [update, if_true, State.live, List.map_map, List.mem_map]
  exact ⟨k, hk, by simp [hold]⟩

private theorem denotes_mono (servers : List Server) (s : Server) (hs : s ∈ servers) (dh : Text) (dp : Nat)
    (tp : Transport) (h : denotesOwnSocket [s] dh dp tp = true) : denotesOwnSocket servers dh dp tp = true := by
  simp only [denotesOwnSocket, List.any_cons, List.any_nil, Bool.or_false] at h
  simp only [denotesOwnSocket, List.any_eq_true]
  exact ⟨s, hs, by simpa [List.any_eq_true] using h⟩

/-- **a listener added or moved at runtime is protected at once**: after `update` has started an
    instance for a new mode spec, every destination that denotes one of ITS sockets is blocked -/
theorem new_listener_protected (st : State) (modes : List Nat) (start : List (Nat × Server)) (k : Nat)
    (s : Server) (dh : Text) (dp : Nat) (tp : Transport)
    (hk : k ∈ modes) (hnew : lookupKey st k = none) (hs : lookupKey start k = some s)
    (hown : denotesOwnSocket [s] dh dp tp = true) :
    selfConnect (stepState st (Op.reconfigure true modes start)).live dh dp tp = true :=
  spec_implies_blocked _ dh dp tp
    (denotes_mono _ s (lookupKey_update_new st modes start k s hk hnew hs) dh dp tp hown)

/-- a listener kept across a reconfiguration stays protected -/
theorem kept_listener_protected (st : State) (modes : List Nat) (start : List (Nat × Server)) (k : Nat)
    (s : Server) (dh : Text) (dp : Nat) (tp : Transport)
    (hk : k ∈ modes) (hold : lookupKey st k = some s)
    (hown : denotesOwnSocket [s] dh dp tp = true) :
    selfConnect (stepState st (Op.reconfigure true modes start)).live dh dp tp = true :=
  spec_implies_blocked _ dh dp tp
    (denotes_mono _ s (lookupKey_update_kept st modes start k s hk hold) dh dp tp hown)

/-- with `server = False` nothing listens any more and nothing is blocked -/
theorem server_off_no_listeners (st : State) (modes : List Nat) (start : List (Nat × Server))
    (dh : Text) (dp : Nat) (tp : Transport) :
    (stepState st (Op.reconfigure false modes start)).live = [] ∧
    selfConnect (stepState st (Op.reconfigure false modes start)).live dh dp tp = false := by
  simp [stepState, update, State.live, selfConnect]

-- the c23-3 scenario: start on 127.0.0.1:8080, connect elsewhere, add a listener on 127.0.0.1:8081 at
-- runtime, then "LOCALHOST.":8081 is refused, and after the listener is dropped again it is not
private def hStart : List (Nat × Server) :=
  [(0, ⟨.tcp, [([0x31,0x32,0x37,0x2e,0x30,0x2e,0x30,0x2e,0x31], 8080)]⟩),
   (1, ⟨.tcp, [([0x31,0x32,0x37,0x2e,0x30,0x2e,0x30,0x2e,0x31], 8081)]⟩)]
private def hLocal : Text := [0x4c,0x4f,0x43,0x41,0x4c,0x48,0x4f,0x53,0x54,0x2e]
example : run [] [.reconfigure true [0] hStart, .connect hLocal 8081 .tcp true,
                  .reconfigure true [0, 1] hStart, .connect hLocal 8081 .tcp true,
                  .reconfigure true [0] hStart, .connect hLocal 8081 .tcp false]
    = [.listeners [(0, ⟨.tcp, [([0x31,0x32,0x37,0x2e,0x30,0x2e,0x30,0x2e,0x31], 8080)]⟩)],
       .trace [.hookServerConnect, .socketOpen, .hookServerConnected, .completedOk, .handleConnection, .hookServerDisconnected],
       .listeners hStart,
       .trace [.hookServerConnect, .hookServerConnectError, .completedKilled],
       .listeners [(0, ⟨.tcp, [([0x31,0x32,0x37,0x2e,0x30,0x2e,0x30,0x2e,0x31], 8080)]⟩)],
       .trace [.hookServerConnect, .socketOpen, .hookServerConnectError, .completedError]] := by decide +kernel

/-! ### repeated attempts on one connection object -/

/-- the trace of an attempt with a fresh object is the single-attempt model -/
theorem attempt_fresh (servers : List Server) (dh : Text) (dp : Nat) (tp : Transport) (ok : Bool) :
    (attempt servers none dh dp tp ok).1 = openTrace servers dh dp tp ok := by
  simp only [attempt, errorAfterHook, openTrace, serverConnect, openConnection]
  cases selfConnect servers dh dp tp <;> cases ok <;> rfl

/-- **the verdict of THIS attempt decides.** When the guard fires, the attempt does not dial —
    whatever error the object carried before (none, a stale dial error, or the guard's own message from
    an earlier attempt). -/
theorem attempt_blocked_whatever_prior (servers : List Server) (prior : Option ConnError) (dh : Text)
    (dp : Nat) (tp : Transport) (ok : Bool) (h : selfConnect servers dh dp tp = true) :
    attempt servers prior dh dp tp ok =
      ([Ev.hookServerConnect, Ev.hookServerConnectError, Ev.completedKilled], some ConnError.destinationUnknown) := by
  simp [attempt, errorAfterHook, h]

/-- **C23 over repeated attempts.** For every history of `OpenConnection` commands on one `Server`
    object (any initial error, the listener set changing arbitrarily in between, any dial outcomes):
    every attempt whose destination denotes a socket of the listener set current at that attempt ends
    killed, without reaching the socket primitive. -/
theorem repeated_attempts_never_dial_own_socket (prior : Option ConnError) (dh : Text) (dp : Nat)
    (tp : Transport) (hist : List (List Server × Bool)) (i : Nat) (servers : List Server) (ok : Bool)
    (hi : hist[i]? = some (servers, ok)) (hown : denotesOwnSocket servers dh dp tp = true) :
    (attempts prior dh dp tp hist)[i]? =
      some (some ConnError.destinationUnknown,
            [Ev.hookServerConnect, Ev.hookServerConnectError, Ev.completedKilled]) := by
  induction hist generalizing prior i with
  | nil => simp at hi
  | cons x rest ih =>
    obtain ⟨s0, ok0⟩ := x
    cases i with
    | zero =>
      simp only [List.getElem?_cons_zero, Option.some.injEq, Prod.mk.injEq] at hi
      obtain ⟨rfl, rfl⟩ := hi
      have hb := spec_implies_blocked s0 dh dp tp hown
      simp [attempts, attempt_blocked_whatever_prior s0 prior dh dp tp ok0 hb, errorAfterHook, hb]
    | succ j =>
      simp only [List.getElem?_cons_succ] at hi
      simp only [attempts, List.getElem?_cons_succ]
      exact ih _ j hi


/-! ### updates in flight: the listener set changes per instance start / stop event -/

/-- every instance whose sockets are listening is listed in `Servers._instances` -/
def ListedInv (st : LState) : Prop := ∀ e ∈ st.bound, st.listed.contains e.1 = true

/-- **listening ⇒ listed, at every moment.** The invariant holds initially and is preserved by every
    event of an update: replacing `_instances` (instances going away stay listed), a stop task closing
    its sockets, the stop tasks being gathered, a start task binding its sockets, and attempts. -/
theorem listedInv_step (st : LState) (ev : LEv) (h : ListedInv st) : ListedInv (lstep st ev) := by
  cases ev with
  | beginUpdate so modes =>
    intro e he
    simp only [lstep] at he ⊢
    have hl := h e he
    simp only [List.contains_eq_mem, List.mem_append, List.mem_filter, decide_eq_true_eq,
      Bool.not_eq_true', decide_eq_false_iff_not] at hl ⊢
    by_cases hm : e.1 ∈ (if so = true then modes else [])
    · exact Or.inl hm
    · exact Or.inr ⟨hl, hm⟩
  | stopped k =>
    intro e he
    simp only [lstep, List.mem_filter] at he ⊢
    exact h e he.1
  | stopsDone =>
    intro e he
    simp only [lstep, List.mem_filter] at he ⊢
    exact he.2
  | started k s =>
    intro e he
    simp only [lstep] at he ⊢
    by_cases hk : st.listed.contains k = true
    · simp only [hk, if_true, List.mem_cons, List.mem_filter] at he ⊢
      rcases he with rfl | he
      · exact hk
      · exact h e he.1
    · simp only [hk] at he ⊢
      exact h e he
  | connect dh dp tp ok => exact h

theorem listedInv_always (evs : List LEv) (st : LState) (h : ListedInv st) :
    ListedInv (lstateAfter st evs) := by
  induction evs generalizing st with
  | nil => exact h
  | cons e es ih => exact ih _ (listedInv_step st e h)

/-- under the invariant the guard sees every socket that is listening -/
private theorem listening_sub_guardView (st : LState) (h : ListedInv st) (s : Server)
    (hs : s ∈ st.listening) : s ∈ st.guardView := by
  simp only [LState.listening, List.mem_map] at hs
  obtain ⟨e, he, rfl⟩ := hs
  simp only [LState.guardView, List.mem_map, List.mem_filter]
  exact ⟨e, ⟨he, h e he⟩, rfl⟩

private theorem denotes_sub (a b : List Server) (hsub : ∀ s ∈ a, s ∈ b) (dh : Text) (dp : Nat)
    (tp : Transport) (h : denotesOwnSocket a dh dp tp = true) : denotesOwnSocket b dh dp tp = true := by
  simp only [denotesOwnSocket, List.any_eq_true] at h ⊢
  obtain ⟨s, hs, rest⟩ := h
  exact ⟨s, hsub s hs, rest⟩

/-- **C23 while updates are in flight.** For every sequence of update events (instances starting and
    stopping one by one, in any order and interleaving) and attempts, starting with no listeners: an
    attempt whose destination denotes a socket that is LISTENING at that moment — whether or not the
    update that bound it, or the one that is closing it, has finished — never reaches the socket
    primitive. -/
theorem inflight_never_connects_to_listening_socket (evs : List LEv) (i : Nat)
    (dh : Text) (dp : Nat) (tp : Transport) (ok : Bool)
    (hev : evs[i]? = some (LEv.connect dh dp tp ok))
    (hown : denotesOwnSocket (lstateAfter LState.empty (evs.take i)).listening dh dp tp = true) :
    (lrun LState.empty evs)[i]? =
      some (some [Ev.hookServerConnect, Ev.hookServerConnectError, Ev.completedKilled]) := by
  have gen : ∀ (es : List LEv) (st : LState) (j : Nat), ListedInv st →
      es[j]? = some (LEv.connect dh dp tp ok) →
      denotesOwnSocket (lstateAfter st (es.take j)).listening dh dp tp = true →
      (lrun st es)[j]? = some (some [Ev.hookServerConnect, Ev.hookServerConnectError, Ev.completedKilled]) := by
    intro es
    induction es with
    | nil => intro st j _ h; simp at h
    | cons e rest ih =>
      intro st j hinv hj hd
      cases j with
      | zero =>
        simp only [List.getElem?_cons_zero, Option.some.injEq] at hj
        subst hj
        simp only [List.take_zero, lstateAfter] at hd
        have hg := denotes_sub _ _ (listening_sub_guardView st hinv) dh dp tp hd
        have hb := blocked_sets_error_and_no_connect st.guardView dh dp tp ok
          (spec_implies_blocked st.guardView dh dp tp hg)
        simp [lrun, lout, hb.2.1]
      | succ k =>
        simp only [List.getElem?_cons_succ] at hj
        simp only [List.take_succ_cons, lstateAfter] at hd
        simp only [lrun, List.getElem?_cons_succ]
        exact ih (lstep st e) k (listedInv_step st e hinv) hj hd
  exact gen evs LState.empty i (by intro e he; simp [LState.empty] at he) hev hown

-- the c23-6 scenario: one update starts modes 0 and 1; 0 is listening, 1 still starting: "localhost":8080 refused;
-- and the stop window: 0 is being shut down but still listening: still refused; once stopped: dialled
example : lrun LState.empty
    [.beginUpdate true [0, 1], .stopsDone, .started 0 ⟨.tcp, [([0x31,0x32,0x37,0x2e,0x30,0x2e,0x30,0x2e,0x31], 8080)]⟩,
     .connect hLocal 8080 .tcp true,
     .started 1 ⟨.tcp, [([0x31,0x32,0x37,0x2e,0x30,0x2e,0x30,0x2e,0x31], 8081)]⟩,
     .beginUpdate true [1], .connect hLocal 8080 .tcp true, .stopped 0, .stopsDone, .connect hLocal 8080 .tcp false]
    = [none, none, none, some [.hookServerConnect, .hookServerConnectError, .completedKilled], none,
       none, some [.hookServerConnect, .hookServerConnectError, .completedKilled], none, none,
       some [.hookServerConnect, .socketOpen, .hookServerConnectError, .completedError]] := by decide +kernel

/-! ### the two listener models agree: `update` is the settled view of the per-event model -/

/-- after the events of one complete `Servers.update` (in the order the code produces them, from a
    settled state) the guard sees every listener the per-update model predicts -/
theorem update_is_settled_view (S : State) (so : Bool) (modes : List Nat) (start : List (Nat × Server))
    (s : Server) (hs : s ∈ (update S so modes start).live) :
    s ∈ (lstateAfter (settled S) (updateEvents S so modes start)).guardView :=
  update_refines S so modes start s hs

/-- hence what the per-update history theorem promises for a reconfiguration holds in the per-event
    model once the update's events are through: a destination denoting a listener predicted by
    `update` is recognised by the guard -/
theorem settled_update_blocks (S : State) (so : Bool) (modes : List Nat) (start : List (Nat × Server))
    (dh : Text) (dp : Nat) (tp : Transport)
    (hown : denotesOwnSocket (update S so modes start).live dh dp tp = true) :
    selfConnect (lstateAfter (settled S) (updateEvents S so modes start)).guardView dh dp tp = true :=
  spec_implies_blocked _ dh dp tp
    (denotes_sub _ _ (fun s hs => update_refines S so modes start s hs) dh dp tp hown)

/-- **the two listener models agree exactly.** From a settled state with unique keys (`_instances` is a
    dict), once the events of one complete update are through: the sockets that are listening, the
    sockets the guard sees, and the listeners the per-update model `update` predicts are the same. -/
theorem update_is_settled_view_exact (S : State) (so : Bool) (modes : List Nat) (start : List (Nat × Server))
    (hn : (S.map (·.1)).Nodup) (s : Server) :
    (s ∈ (lstateAfter (settled S) (updateEvents S so modes start)).listening ↔
      s ∈ (update S so modes start).live) ∧
    (s ∈ (lstateAfter (settled S) (updateEvents S so modes start)).guardView ↔
      s ∈ (update S so modes start).live) := by
  have hup := update_refines_upper S so modes start hn s
  have hlow := update_refines S so modes start s
  have hsub : s ∈ (lstateAfter (settled S) (updateEvents S so modes start)).guardView →
      s ∈ (lstateAfter (settled S) (updateEvents S so modes start)).listening := by
    intro h
    simp only [LState.guardView, List.mem_map, List.mem_filter] at h
    obtain ⟨e, ⟨he, _⟩, rfl⟩ := h
    simp only [LState.listening, List.mem_map]
    exact ⟨e, he, rfl⟩
  exact ⟨⟨hup, fun h => hsub (hlow h)⟩, ⟨fun h => hup (hsub h), hlow⟩⟩

/-- unique keys are an invariant of the per-update model: every state reached from the empty one by
    reconfigurations with duplicate-free mode lists (what `configure` enforces) has unique keys -/
theorem reachable_keys_nodup (ops : List Op)
    (hops : ∀ so modes start, Op.reconfigure so modes start ∈ ops → modes.Nodup) :
    ∀ st : State, (st.map (·.1)).Nodup → ((stateAfter st ops).map (·.1)).Nodup := by
  induction ops with
  | nil => intro st h; exact h
  | cons op rest ih =>
    intro st h
    simp only [stateAfter]
    apply ih (fun so modes start hm => hops so modes start (List.mem_cons_of_mem _ hm))
    cases op with
    | reconfigure so modes start =>
      simp only [stepState, update_keys]
      cases so with
      | false => simp
      | true => simpa using hops true modes start List.mem_cons_self
    | connect dh dp tp ok => exact h

/-! ### non-vacuity: concrete spellings, computed by the kernel -/

private def srvTcp : List Server := [⟨.tcp, [([0x31,0x32,0x37,0x2e,0x30,0x2e,0x30,0x2e,0x31], 8080)]⟩]   -- 127.0.0.1:8080
private def srvDns : List Server := [⟨.both, [([0x3a,0x3a], 53), ([0x30,0x2e,0x30,0x2e,0x30,0x2e,0x30], 53)]⟩]  -- dns mode on :: / 0.0.0.0

-- "LOCALHOST." , "127.0.0.2", "::ffff:127.0.0.1", "0.0.0.0", "::" denote the listener and are blocked
example : denotesOwnSocket srvTcp [0x4c,0x4f,0x43,0x41,0x4c,0x48,0x4f,0x53,0x54,0x2e] 8080 .tcp = true := by decide +kernel
example : denotesOwnSocket srvTcp [0x31,0x32,0x37,0x2e,0x30,0x2e,0x30,0x2e,0x32] 8080 .tcp = true := by decide +kernel
example : denotesOwnSocket srvTcp [0x3a,0x3a,0x66,0x66,0x66,0x66,0x3a,0x31,0x32,0x37,0x2e,0x30,0x2e,0x30,0x2e,0x31] 8080 .tcp = true := by decide +kernel
example : denotesOwnSocket srvTcp [0x30,0x2e,0x30,0x2e,0x30,0x2e,0x30] 8080 .tcp = true := by decide +kernel
example : denotesOwnSocket srvDns [0x3a,0x3a,0x31] 53 .udp = true := by decide +kernel
example : selfConnect srvDns [0x3a,0x3a,0x31] 53 .tcp = true := by decide +kernel
-- the guard is not constant: other port, other transport, "example.com", "128.0.0.0" pass
example : selfConnect srvTcp [0x4c,0x4f,0x43,0x41,0x4c,0x48,0x4f,0x53,0x54,0x2e] 8081 .tcp = false := by decide +kernel
example : selfConnect srvTcp [0x31,0x32,0x37,0x2e,0x30,0x2e,0x30,0x2e,0x32] 8080 .udp = false := by decide +kernel
example : selfConnect srvTcp [0x65,0x78,0x61,0x6d,0x70,0x6c,0x65,0x2e,0x63,0x6f,0x6d] 8080 .tcp = false := by decide +kernel
example : selfConnect srvTcp [0x31,0x32,0x38,0x2e,0x30,0x2e,0x30,0x2e,0x30] 8080 .tcp = false := by decide +kernel
/-- **recorded residual F-C23b (counterexample to the statement read over resolver spellings).** The
    legacy numeric spelling `127.1` — which the C resolver reads as 127.0.0.1 — is not an `ipaddress`
    spelling: the specification does not cover it, the guard does not fire, and the socket primitive
    IS reached on the listener's own port.  `spec_implies_blocked` is the part of the statement that
    holds: every spelling `ipaddress` parses plus the `localhost` names. -/
theorem resolver_spelling_counterexample :
    denotesOwnSocket srvTcp [0x31,0x32,0x37,0x2e,0x31] 8080 .tcp = false ∧
    selfConnect srvTcp [0x31,0x32,0x37,0x2e,0x31] 8080 .tcp = false ∧
    Ev.socketOpen ∈ openTrace srvTcp [0x31,0x32,0x37,0x2e,0x31] 8080 .tcp true := by decide +kernel

-- resolver-only spelling "127.1" is outside `ipaddress` and outside the specification (documented residual)
example : denotesOwnSocket srvTcp [0x31,0x32,0x37,0x2e,0x31] 8080 .tcp = false ∧
    selfConnect srvTcp [0x31,0x32,0x37,0x2e,0x31] 8080 .tcp = false := by decide +kernel

-- the c23-5 scenario: "localhost":8080 opened three times on one object while listening on 127.0.0.1:8080
example : (attempts none [0x6c,0x6f,0x63,0x61,0x6c,0x68,0x6f,0x73,0x74] 8080 .tcp
            [(srvTcp, true), (srvTcp, true), (srvTcp, false)]).map (·.2)
    = [[.hookServerConnect, .hookServerConnectError, .completedKilled],
       [.hookServerConnect, .hookServerConnectError, .completedKilled],
       [.hookServerConnect, .hookServerConnectError, .completedKilled]] := by decide +kernel
-- not constant: a foreign destination dials; after a failed dial the stale error kills the retry without dialing
example : (attempts none [0x65,0x78,0x61,0x6d,0x70,0x6c,0x65,0x2e,0x63,0x6f,0x6d] 8080 .tcp
            [(srvTcp, false), (srvTcp, true)]).map (·.2)
    = [[.hookServerConnect, .socketOpen, .hookServerConnectError, .completedError],
       [.hookServerConnect, .hookServerConnectError, .completedKilled]] := by decide +kernel


/-! ### audit round 6 (b-c20): additional non-vacuity witnesses — hypotheses of the theorems above instantiated on
    concrete non-trivial values, computed by the kernel -/

private def aS0 : State := [(0, ⟨.tcp, [([0x31,0x32,0x37,0x2e,0x30,0x2e,0x30,0x2e,0x31], 8080)]⟩), (7, ⟨.udp, [([0x3a,0x3a], 5353)]⟩)]

-- `history_never_connects_to_current_own_socket`: at index 3 of the c23-3 history the operation is a connect and the
-- destination denotes a socket of the state current THERE (it did not at index 1)
private def aOps : List Op :=
  [.reconfigure true [0] hStart, .connect hLocal 8081 .tcp true, .reconfigure true [0, 1] hStart, .connect hLocal 8081 .tcp true]
example : aOps[3]? = some (Op.connect hLocal 8081 .tcp true) := rfl
example : denotesOwnSocket (stateAfter [] (aOps.take 3)).live hLocal 8081 .tcp = true ∧
    denotesOwnSocket (stateAfter [] (aOps.take 1)).live hLocal 8081 .tcp = false := by decide +kernel
-- `new_listener_protected` / `kept_listener_protected`: key 1 is new, key 0 is kept, both hypotheses sets are satisfiable
example : (1 : Nat) ∈ [0, 1] ∧ lookupKey aS0 1 = none ∧
    lookupKey hStart 1 = some ⟨.tcp, [([0x31,0x32,0x37,0x2e,0x30,0x2e,0x30,0x2e,0x31], 8081)]⟩ ∧
    denotesOwnSocket [⟨.tcp, [([0x31,0x32,0x37,0x2e,0x30,0x2e,0x30,0x2e,0x31], 8081)]⟩] hLocal 8081 .tcp = true ∧
    lookupKey aS0 0 = some ⟨.tcp, [([0x31,0x32,0x37,0x2e,0x30,0x2e,0x30,0x2e,0x31], 8080)]⟩ := by decide +kernel
-- `inflight_never_connects_to_listening_socket`: while mode 1 is still starting, the socket of mode 0 IS listening and
-- "LOCALHOST.":8080 denotes it (hypothesis `hown` at index 3)
private def aEvs : List LEv :=
  [.beginUpdate true [0, 1], .stopsDone, .started 0 ⟨.tcp, [([0x31,0x32,0x37,0x2e,0x30,0x2e,0x30,0x2e,0x31], 8080)]⟩, .connect hLocal 8080 .tcp true]
example : denotesOwnSocket (lstateAfter LState.empty (aEvs.take 3)).listening hLocal 8080 .tcp = true ∧
    (lstateAfter LState.empty (aEvs.take 3)).listed = [0, 1] := by decide +kernel
-- `update_is_settled_view_exact` / `reachable_keys_nodup`: a two-listener state with unique keys, one instance dropped
-- and one added: listening = guard view = update's prediction, and it is not the empty set
example : (aS0.map (·.1)).Nodup ∧
    (lstateAfter (settled aS0) (updateEvents aS0 true [0, 1] hStart)).listening.length = 2 ∧
    (update aS0 true [0, 1] hStart).live.length = 2 ∧
    (∀ s ∈ (update aS0 true [0, 1] hStart).live,
        s ∈ (lstateAfter (settled aS0) (updateEvents aS0 true [0, 1] hStart)).guardView) := by decide +kernel
-- `listen_address_dotted_blocked` on a NON-loopback listener (192.168.1.5:8080): plain and IPv4-mapped spelling are
-- refused, a neighbouring address is not
example : selfConnect [⟨.tcp, [(dotted 192 168 1 5, 8080)]⟩] (dotted 192 168 1 5) 8080 .tcp = true ∧
    selfConnect [⟨.tcp, [(dotted 192 168 1 5, 8080)]⟩] (mappedText 192 168 1 5) 8080 .tcp = true ∧
    selfConnect [⟨.tcp, [(dotted 192 168 1 5, 8080)]⟩] (dotted 192 168 1 6) 8080 .tcp = false := by decide +kernel
-- … and on that listener `localhost` is blocked by the guard although the SPEC does not demand it (the guard may over-approximate)
example : selfConnect [⟨.tcp, [(dotted 192 168 1 5, 8080)]⟩] localhost 8080 .tcp = true ∧
    denotesOwnSocket [⟨.tcp, [(dotted 192 168 1 5, 8080)]⟩] localhost 8080 .tcp = false := by decide +kernel
-- `every_127_address_blocked` / `every_mapped_127_address_blocked` at the far end of 127/8
example : selfConnect srvTcp (dotted 127 255 255 254) 8080 .tcp = true ∧
    selfConnect srvTcp (mappedText 127 255 255 254) 8080 .tcp = true := by decide +kernel
-- `loopback_addresses_blocked` with a SCOPED spelling: "::1%lo" parses (scope kept) and is a loopback address
example : parseIp (normHost [0x3a,0x3a,0x31,0x25,0x6c,0x6f]) = some (Addr.v6 1 (some [0x6c,0x6f])) ∧
    loopbackAddr (Addr.v6 1 (some [0x6c,0x6f])) = true ∧ selfConnect srvTcp [0x3a,0x3a,0x31,0x25,0x6c,0x6f] 8080 .tcp = true := by decide +kernel
-- `blocked_sets_error_and_no_connect` / `not_blocked_reaches_socket`: both hypotheses occur for the same listener
example : selfConnect srvTcp [0x4c,0x6f,0x63,0x61,0x6c,0x48,0x6f,0x73,0x74] 8080 .tcp = true ∧ selfConnect srvTcp [0x4c,0x6f,0x63,0x61,0x6c,0x48,0x6f,0x73,0x74] 8081 .tcp = false ∧
    openTrace srvTcp [0x4c,0x6f,0x63,0x61,0x6c,0x48,0x6f,0x73,0x74] 8080 .tcp true = [Ev.hookServerConnect, Ev.hookServerConnectError, Ev.completedKilled] := by
  decide +kernel

end MitmVerif.Props.C23
