/-
  C24 — property theorems, over ALL histories (any number of client connections in any modes, any interleaving of
  plain / https requests and CONNECTs), with and without `upstream_auth`.

  * `creds_only_direct_to_proxy_or_reverse_target` : a write that carries the configured credential is
        (i)   mitmproxy's own CONNECT, written to the upstream proxy outside any tunnel (upstream mode), or
        (ii)  a plain-HTTP request written directly to the upstream proxy (upstream mode, Proxy-Authorization), or
        (iii) a request to the reverse target (reverse mode, Authorization).
  * `no_creds_through_tunnel_or_other_modes` : nothing that travels through a tunnel to an origin, nothing written to an
        origin directly, and nothing at all in regular / transparent / SOCKS5 mode carries it.
  * `no_creds_without_option` : without `upstream_auth` no write carries a credential.
  * `creds_still_sent_to_proxy_and_reverse_target` : (the repair did not remove behaviour) with `upstream_auth`, every
        head written to the proxy outside a tunnel and every head written to the reverse target carries it.
-/
import MitmVerif.Model.C24
import MitmVerif.Model.C24_Route
import MitmVerif.Gen.C24
import MitmVerif.Model.C24_Cred
import MitmVerif.Props.C20
namespace MitmVerif.Props.C24
open MitmVerif MitmVerif.C24

/-- where the statement allows the credential -/
def Allowed (m : Mode) (w : Write) : Prop :=
  (m = .upstream ∧ w.dest = .proxy ∧ w.form = .connect ∧ w.tls = false ∧ w.cred = some .proxyAuthorization) ∨
  (m = .upstream ∧ w.dest = .proxy ∧ w.form = .request ∧ w.tls = false ∧ w.cred = some .proxyAuthorization) ∨
  (m = .reverse ∧ w.dest = .reverseTarget ∧ w.form = .request ∧ w.cred = some .authorization)

/-- a connection inside a CONNECT tunnel is in `UpstreamAuth.tunneled`; one that is not, is not -/
private def Inv (modes : Nat → Mode) (σ : State) : Prop :=
  (∀ c o, σ.phase c = .tunnel o → c ∈ σ.tunneled ∧ (modes c).isHttpProxy = true) ∧
  (∀ c, σ.phase c = .outer → c ∉ σ.tunneled)

private theorem inv_init (modes : Nat → Mode) : Inv modes State.init := by
  constructor
  · intro c o h; simp [State.init] at h
  · intro c _; simp [State.init]

private theorem step_inv (auth : Bool) (modes : Nat → Mode) (σ : State) (cid : Nat) (e : Ev) (h : Inv modes σ) :
    Inv modes (step auth (modes cid) σ cid e).1 := by
  generalize hmm : modes cid = m
  unfold step stepWith
  cases hp : σ.phase cid with
  | closed => simpa using h
  | outer =>
    cases e with
    | drop => simpa using h
    | connect =>
      by_cases hm : m.isHttpProxy = true
      · simp only [hm, if_true]
        constructor
        · intro c o hc
          by_cases hcc : c = cid
          · subst hcc; simp [State.setPhase, hmm, hm]
          · simp only [State.setPhase, hcc, if_false] at hc
            simp [State.setPhase, h.1 c o hc]
        · intro c hc
          by_cases hcc : c = cid
          · simp [State.setPhase, hcc] at hc
          · simp only [State.setPhase, hcc, if_false] at hc
            simp [State.setPhase, hcc, h.2 c hc]
      · simp only [hm, Bool.false_eq_true, if_false]
        constructor
        · intro c o hc
          by_cases hcc : c = cid
          · simp [State.setPhase, hcc] at hc
          · simp only [State.setPhase, hcc, if_false] at hc
            simpa [State.setPhase] using h.1 c o hc
        · intro c hc
          by_cases hcc : c = cid
          · simp [State.setPhase, hcc] at hc
          · simp only [State.setPhase, hcc, if_false] at hc
            simpa [State.setPhase] using h.2 c hc
    | req https =>
      cases m <;> (try cases https) <;> simpa using h
  | tunnel opened =>
    have hin : cid ∈ σ.tunneled := (h.1 cid opened hp).1
    have hpm : (modes cid).isHttpProxy = true := (h.1 cid opened hp).2
    cases e with
    | drop =>
      constructor
      · intro c o hc
        by_cases hcc : c = cid
        · subst hcc; exact ⟨by simpa [State.setPhase] using hin, hpm⟩
        · simp only [State.setPhase, hcc, if_false] at hc
          simpa [State.setPhase] using h.1 c o hc
      · intro c hc
        by_cases hcc : c = cid
        · simp [State.setPhase, hcc] at hc
        · simp only [State.setPhase, hcc, if_false] at hc
          simpa [State.setPhase] using h.2 c hc
    | connect =>
      constructor
      · intro c o hc
        by_cases hcc : c = cid
        · simp [State.setPhase, hcc] at hc
        · simp only [State.setPhase, hcc, if_false] at hc
          simpa [State.setPhase] using h.1 c o hc
      · intro c hc
        by_cases hcc : c = cid
        · simp [State.setPhase, hcc] at hc
        · simp only [State.setPhase, hcc, if_false] at hc
          simpa [State.setPhase] using h.2 c hc
    | req https =>
      cases m
      case upstream =>
        constructor
        · intro c o hc
          by_cases hcc : c = cid
          · subst hcc; simpa [State.setPhase] using ⟨hin, hpm⟩
          · simp only [State.setPhase, hcc, if_false] at hc
            simpa [State.setPhase] using h.1 c o hc
        · intro c hc
          by_cases hcc : c = cid
          · simp [State.setPhase, hcc] at hc
          · simp only [State.setPhase, hcc, if_false] at hc
            simpa [State.setPhase] using h.2 c hc
      all_goals simpa using h

private theorem step_allowed (auth : Bool) (modes : Nat → Mode) (σ : State) (cid : Nat) (e : Ev) (h : Inv modes σ) :
    ∀ w ∈ (step auth (modes cid) σ cid e).2.2, w.cred ≠ none → Allowed (modes cid) w := by
  generalize hmm : modes cid = m
  unfold step stepWith
  cases hp : σ.phase cid with
  | closed => simp
  | outer =>
    have hout : cid ∉ σ.tunneled := h.2 cid hp
    cases e with
    | drop => simp
    | connect => by_cases hm : m.isHttpProxy = true <;> simp [hm]
    | req https =>
      cases m <;> cases https <;> cases auth <;>
        simp [hout, requestheaders, connectUpstream, transparentDest, Allowed]
  | tunnel opened =>
    have hin : cid ∈ σ.tunneled := (h.1 cid opened hp).1
    have hpm : m.isHttpProxy = true := hmm ▸ (h.1 cid opened hp).2
    cases e with
    | drop => simp
    | connect => simp
    | req https =>
      cases m <;> cases opened <;> cases auth <;>
        simp_all [requestheaders, connectUpstream, Allowed, Mode.isHttpProxy]

private theorem run_allowed (auth : Bool) (modes : Nat → Mode) :
    ∀ (es : List (Nat × Ev)) (σ : State), Inv modes σ →
      ∀ x ∈ run auth modes σ es, ∀ w ∈ x.2.2, w.cred ≠ none → Allowed (modes x.1) w := by
  intro es
  induction es with
  | nil => intro σ _ x hx; simp [run, runWith] at hx
  | cons ev rest ih =>
    intro σ hinv x hx
    obtain ⟨cid, e⟩ := ev
    simp only [run, runWith, List.mem_cons] at hx
    rcases hx with rfl | hx
    · exact step_allowed auth modes σ cid e hinv
    · exact ih _ (step_inv auth modes σ cid e hinv) x hx

/-- **C24.**  Over every history: a request head that carries the credential configured with `upstream_auth` is
    (i) mitmproxy's CONNECT to the upstream proxy, (ii) a plain-HTTP request written directly to the upstream proxy
    in upstream mode, or (iii) a request to the reverse target in reverse mode — and in each case it is written
    outside any tunnel and carries the field that place expects. -/
theorem creds_only_direct_to_proxy_or_reverse_target (auth : Bool) (modes : Nat → Mode) (es : List (Nat × Ev))
    (cid : Nat) (k : Kind) (ws : List Write) (hx : (cid, k, ws) ∈ run auth modes State.init es)
    (w : Write) (hw : w ∈ ws) (hc : w.cred ≠ none) : Allowed (modes cid) w :=
  run_allowed auth modes es State.init (inv_init modes) (cid, k, ws) hx w hw hc

/-- **C24 (never through a tunnel, never in other modes).** -/
theorem no_creds_through_tunnel_or_other_modes (auth : Bool) (modes : Nat → Mode) (es : List (Nat × Ev))
    (cid : Nat) (k : Kind) (ws : List Write) (hx : (cid, k, ws) ∈ run auth modes State.init es)
    (w : Write) (hw : w ∈ ws) :
    (w.dest = .originViaTunnel ∨ w.dest = .originDirect → w.cred = none) ∧
    (modes cid = .regular ∨ modes cid = .transparent ∨ modes cid = .socks5 → w.cred = none) := by
  have h := creds_only_direct_to_proxy_or_reverse_target auth modes es cid k ws hx w hw
  constructor
  · intro hd
    cases hcr : w.cred with
    | none => rfl
    | some c =>
      have := h (by simp [hcr])
      simp only [Allowed] at this
      rcases this with ⟨_, h1, _⟩ | ⟨_, h1, _⟩ | ⟨_, h1, _⟩ <;> rcases hd with hd | hd <;> simp_all
  · intro hmode
    cases hcr : w.cred with
    | none => rfl
    | some c =>
      have := h (by simp [hcr])
      simp only [Allowed] at this
      rcases this with ⟨hm, _⟩ | ⟨hm, _⟩ | ⟨hm, _⟩ <;> rcases hmode with h' | h' | h' <;> simp_all

/-- **C24 (without the option).** -/
theorem no_creds_without_option (modes : Nat → Mode) (es : List (Nat × Ev)) :
    ∀ σ, ∀ x ∈ run false modes σ es, ∀ w ∈ x.2.2, w.cred = none := by
  induction es with
  | nil => intro σ x hx; simp [run, runWith] at hx
  | cons ev rest ih =>
    intro σ x hx
    obtain ⟨c0, e0⟩ := ev
    simp only [run, runWith, List.mem_cons] at hx
    rcases hx with rfl | hx
    · simp only [stepWith]
      cases σ.phase c0 <;> cases e0 <;> cases modes c0 <;>
        (try simp [requestheaders, connectUpstream, Mode.isHttpProxy]) <;> (try split) <;>
        (try simp) <;>
        (try (intro w hw; rcases hw with ⟨_, rfl⟩ | rfl <;> rfl))
    · exact ih _ x hx

private theorem step_needed (modes : Nat → Mode) (m : Mode) (σ : State) (cid : Nat) (e : Ev) (h : Inv modes σ) :
    ∀ w ∈ (step true m σ cid e).2.2, (w.dest = .proxy ∨ w.dest = .reverseTarget) → w.cred ≠ none := by
  unfold step stepWith
  cases hp : σ.phase cid with
  | closed => simp
  | outer =>
    have hout : cid ∉ σ.tunneled := h.2 cid hp
    cases e with
    | drop => simp
    | connect => by_cases hm : m.isHttpProxy = true <;> simp [hm]
    | req https =>
      cases m <;> cases https <;> simp [hout, requestheaders, connectUpstream, transparentDest]
  | tunnel opened =>
    cases e with
    | drop => simp
    | connect => simp
    | req https => cases m <;> cases opened <;> simp [connectUpstream]

/-- **C24 (the credential still goes where it is needed).**  With `upstream_auth` set, every head written to the
    upstream proxy outside a tunnel (its CONNECTs and direct plain-HTTP requests) and every head written to the
    reverse target carries the credential. -/
theorem creds_still_sent_to_proxy_and_reverse_target (modes : Nat → Mode) (es : List (Nat × Ev))
    (cid : Nat) (k : Kind) (ws : List Write) (hx : (cid, k, ws) ∈ run true modes State.init es)
    (w : Write) (hw : w ∈ ws) (hd : w.dest = .proxy ∨ w.dest = .reverseTarget) : w.cred ≠ none := by
  have gen : ∀ (es : List (Nat × Ev)) (σ : State), Inv modes σ → ∀ x ∈ run true modes σ es, ∀ w ∈ x.2.2,
      (w.dest = .proxy ∨ w.dest = .reverseTarget) → w.cred ≠ none := by
    intro es
    induction es with
    | nil => intro σ _ x hx; simp [run, runWith] at hx
    | cons ev rest ih =>
      intro σ hinv x hx
      obtain ⟨c0, e0⟩ := ev
      simp only [run, runWith, List.mem_cons] at hx
      rcases hx with rfl | hx
      · exact step_needed modes (modes c0) σ c0 e0 hinv
      · exact ih _ (step_inv true modes σ c0 e0 hinv) x hx
  exact gen es State.init (inv_init modes) _ hx w hw hd

/-! ### non-vacuity; the repaired defect F-C24a -/

private def up : Nat → Mode := fun _ => .upstream

-- upstream mode, CONNECT then a plain request inside the tunnel: the CONNECT to the proxy carries the credential,
-- the request that travels through the tunnel does not …
example : run true up State.init [(0, .connect), (0, .req false), (0, .req false)] =
    [(0, .tunnel, []),
     (0, .response, [⟨.proxy, .connect, false, some .proxyAuthorization⟩, ⟨.originViaTunnel, .request, false, none⟩]),
     (0, .response, [⟨.originViaTunnel, .request, false, none⟩])] := by decide +kernel
-- … whereas the code before the repair wrote it into the tunnel (F-C24a):
example : runOld true up State.init [(0, .connect), (0, .req false)] =
    [(0, .tunnel, []),
     (0, .response, [⟨.proxy, .connect, false, some .proxyAuthorization⟩,
                     ⟨.originViaTunnel, .request, false, some .proxyAuthorization⟩])] := by decide +kernel
-- a second connection that is not in a tunnel keeps getting the credential on direct requests
example : run true up State.init [(0, .connect), (1, .req false), (1, .req true)] =
    [(0, .tunnel, []),
     (1, .response, [⟨.proxy, .request, false, some .proxyAuthorization⟩]),
     (1, .response, [⟨.proxy, .connect, false, some .proxyAuthorization⟩, ⟨.originViaTunnel, .request, true, none⟩])] := by
  decide +kernel
-- reverse mode: Authorization to the target; regular mode: nothing
example : run true (fun c => if c = 0 then .reverse else .regular) State.init [(0, .req false), (1, .req false), (1, .connect), (1, .req false)] =
    [(0, .response, [⟨.reverseTarget, .request, false, some .authorization⟩]),
     (1, .response, [⟨.originDirect, .request, false, none⟩]),
     (1, .tunnel, []),
     (1, .response, [⟨.originDirect, .request, false, none⟩])] := by decide +kernel

/-- **C24 under runtime changes of `upstream_auth`** (unset → set, set → unset, in any order, between any two events —
    e.g. a CONNECT tunnel opened while the option was unset and used after it was set): the same confinement holds,
    because a tunnel is remembered whether or not credentials are configured at that moment. -/
theorem creds_confined_under_option_changes (modes : Nat → Mode) :
    ∀ (es : List (Nat × Bool × Ev)) (σ : State), Inv modes σ →
      ∀ x ∈ runVar modes σ es, ∀ w ∈ x.2.2, w.cred ≠ none → Allowed (modes x.1) w := by
  intro es
  induction es with
  | nil => intro σ _ x hx; simp [runVar] at hx
  | cons ev rest ih =>
    intro σ hinv x hx
    obtain ⟨cid, auth, e⟩ := ev
    simp only [runVar, List.mem_cons] at hx
    rcases hx with rfl | hx
    · exact step_allowed auth modes σ cid e hinv
    · exact ih _ (step_inv auth modes σ cid e hinv) x hx

/-- … from the start of the proxy -/
theorem creds_confined_under_option_changes_from_start (modes : Nat → Mode) (es : List (Nat × Bool × Ev))
    (cid : Nat) (k : Kind) (ws : List Write) (hx : (cid, k, ws) ∈ runVar modes State.init es)
    (w : Write) (hw : w ∈ ws) (hc : w.cred ≠ none) : Allowed (modes cid) w :=
  creds_confined_under_option_changes modes es State.init (inv_init modes) (cid, k, ws) hx w hw hc

-- the tunnel opened while the option is unset is still a tunnel when the option is set later
example : runVar (fun _ => .upstream) State.init [(0, false, .connect), (0, true, .req false), (1, true, .req false)] =
    [(0, .tunnel, []),
     (0, .response, [⟨.proxy, .connect, false, some .proxyAuthorization⟩, ⟨.originViaTunnel, .request, false, none⟩]),
     (1, .response, [⟨.proxy, .request, false, some .proxyAuthorization⟩])] := by decide +kernel

private theorem step_tunneled_mono (auth : Bool) (m : Mode) (σ : State) (c0 : Nat) (e : Ev) (x : Nat)
    (hx : x ∈ σ.tunneled) : x ∈ (step auth m σ c0 e).1.tunneled := by
  unfold step stepWith
  cases hp : σ.phase c0 <;> cases e <;> cases m <;> (try cases ‹Bool›) <;>
    simp [State.setPhase, Mode.isHttpProxy, hx]

/-- **`tunneled` is a property of the client connection for its whole life**: over every history — with server
    disconnects and option changes anywhere — a client that is in `UpstreamAuth.tunneled` stays in it. -/
theorem tunneled_for_the_whole_life_of_the_client_connection (modes : Nat → Mode) (cid : Nat) :
    ∀ (es : List (Nat × Bool × Ev)) (σ : State), cid ∈ σ.tunneled →
      cid ∈ (es.foldl (fun s x => (step x.2.1 (modes x.1) s x.1 x.2.2).1) σ).tunneled := by
  intro es
  induction es with
  | nil => intro σ h; simpa using h
  | cons x rest ih =>
    intro σ h
    obtain ⟨c0, auth, e⟩ := x
    simp only [List.foldl_cons]
    exact ih _ (step_tunneled_mono auth (modes c0) σ c0 e cid h)

/-- a server disconnect leaves the client connection where it is: still in its tunnel (the upstream side is simply
    connected again, with a new CONNECT, when next needed), still in `tunneled`; nothing is written -/
theorem server_disconnect_keeps_tunnel (auth : Bool) (m : Mode) (σ : State) (cid : Nat) :
    (step auth m σ cid .drop).1.tunneled = σ.tunneled ∧ (step auth m σ cid .drop).2.2 = [] ∧
    (∀ o, σ.phase cid = .tunnel o → (step auth m σ cid .drop).1.phase cid = .tunnel false) ∧
    (σ.phase cid = .outer → (step auth m σ cid .drop).1.phase cid = .outer) := by
  unfold step stepWith
  cases hp : σ.phase cid <;> simp [State.setPhase, hp]

-- seed c24-4's history: CONNECT, request, the upstream connection drops, another request — still no credential in the
-- tunnel, and mitmproxy's new CONNECT to the proxy carries it
example : runVar (fun _ => .upstream) State.init
    [(0, true, .connect), (0, true, .req false), (0, true, .drop), (0, true, .req false)] =
    [(0, .tunnel, []),
     (0, .response, [⟨.proxy, .connect, false, some .proxyAuthorization⟩, ⟨.originViaTunnel, .request, false, none⟩]),
     (0, .noop, []),
     (0, .response, [⟨.proxy, .connect, false, some .proxyAuthorization⟩, ⟨.originViaTunnel, .request, false, none⟩])] := by
  decide +kernel

/-- **"… or other modes".**  `UpstreamAuth` looks at the proxy mode only through `isinstance(mode, UpstreamMode)` and
    `isinstance(mode, ReverseMode)`: two modes that agree on "is upstream" and "is reverse" get the same decision for every
    request.  Every mode that is neither (regular, transparent, SOCKS5 — and wireguard, local redirect, DNS, …, which the
    five-constructor `Mode` represents by `transparent`) therefore behaves like `transparent`: no credential. -/
theorem decision_depends_only_on_upstream_and_reverse (auth : Bool) (m1 m2 : Mode) (schemeHttp tunneled : Bool)
    (hu : m1 = .upstream ↔ m2 = .upstream) (hr : m1 = .reverse ↔ m2 = .reverse) :
    requestheaders auth m1 schemeHttp tunneled = requestheaders auth m2 schemeHttp tunneled := by
  cases m1 <;> cases m2 <;> simp_all [requestheaders]

/-- a mode that is neither upstream nor reverse never gets a credential from `requestheaders` -/
theorem other_modes_get_no_credential (auth : Bool) (m : Mode) (schemeHttp tunneled : Bool)
    (hu : m ≠ .upstream) (hr : m ≠ .reverse) : requestheaders auth m schemeHttp tunneled = none := by
  cases m <;> simp_all [requestheaders]

/-- **C24 for client replay**: whatever proxy mode the flow was recorded in (it is not even an argument of the model),
    a replayed request carries the credential only to the upstream proxy when the instance RUNS in upstream mode, or to
    the reverse target when it runs in reverse mode and the request is addressed to that target. -/
theorem replay_creds_confined (auth : Bool) (run : Mode) (https toTarget : Bool) :
    ∀ w ∈ replayWrites auth run https toTarget, w.cred ≠ none → Allowed run w := by
  cases run <;> cases https <;> cases auth <;> cases toTarget <;>
    simp [replayWrites, requestheaders, connectUpstream, Allowed]

/-- … and in every other running mode nothing carries it -/
theorem replay_no_creds_in_other_modes (auth : Bool) (run : Mode) (https toTarget : Bool)
    (h : run = .regular ∨ run = .transparent ∨ run = .socks5) :
    ∀ w ∈ replayWrites auth run https toTarget, w.cred = none := by
  rcases h with rfl | rfl | rfl <;> simp [replayWrites]

/-! ## Round 3: the routing model — the connection parameters are predicted, reuse included -/

section Routing
open MitmVerif.C24.Route

/-- the explicit-proxy layer hands every request a connection whose spec is exactly the request's own target:
    address, TLS, `via`; a fresh one also gets SNI = host (TLS only) and CONNECT-first = via ∧ tls — for every pool -/
theorem route_conn_matches_request (auth : Bool) (m : Mode) (tn : Bool) (s : CState) (host port : Nat) (https : Bool)
    (hm : m.isHttpProxy = true) (hp : s.phase = .outer) :
    ∃ c, (rstep auth m tn s (.req host port https)).2.conn = some c ∧
      c.host = host ∧ c.port = port ∧ c.tls = https ∧ c.via = (m == Mode.upstream) ∧
      ((rstep auth m tn s (.req host port https)).2.fresh = true →
        c.sni = (if https then some host else none) ∧ c.sendConnect = ((m == Mode.upstream) && https) ∧ c.idx = s.used) := by
  unfold rstep
  simp only [hp, hm, Bool.true_and]
  cases hf : s.pool.find? (fun c => c.matches host port https (m == Mode.upstream)) with
  | some c =>
    have hmatch := List.find?_some hf
    simp only [UpConn.matches, Bool.and_eq_true, beq_iff_eq] at hmatch
    refine ⟨c, by simp, hmatch.1.1.1, hmatch.1.1.2, hmatch.1.2, hmatch.2, by simp⟩
  | none =>
    exact ⟨⟨host, port, https, if https then some host else none, m == Mode.upstream, (m == Mode.upstream) && https, s.used⟩,
      by simp, rfl, rfl, rfl, rfl, fun _ => ⟨rfl, rfl, rfl⟩⟩

/-- **Host vs destination**: in a transparent layer (reverse / transparent / SOCKS5, and inside every CONNECT tunnel)
    the outcome — connection, writes, credential — does not depend on the host, port or scheme the request names -/
theorem transparent_dest_ignores_host (auth : Bool) (m : Mode) (tn : Bool) (s : CState)
    (h1 p1 h2 p2 : Nat) (t1 t2 : Bool) (hl : (m.isHttpProxy && s.phase == .outer) = false) :
    rstep auth m tn s (.req h1 p1 t1) = rstep auth m tn s (.req h2 p2 t2) := by
  unfold rstep
  cases hp : s.phase <;> simp_all

/-- **scheme changes**: an http and an https request to the same host and port never share a connection -/
theorem scheme_change_uses_other_connection (auth : Bool) (m : Mode) (tn tn' : Bool) (s s' : CState) (host port : Nat)
    (hm : m.isHttpProxy = true) (hp : s.phase = .outer) (hp' : s'.phase = .outer) (c c' : UpConn)
    (h1 : (rstep auth m tn s (.req host port false)).2.conn = some c)
    (h2 : (rstep auth m tn' s' (.req host port true)).2.conn = some c') : c ≠ c' := by
  obtain ⟨d, hd, _, _, htls, _⟩ := route_conn_matches_request auth m tn s host port false hm hp
  obtain ⟨d', hd', _, _, htls', _⟩ := route_conn_matches_request auth m tn' s' host port true hm hp'
  rw [h1] at hd; rw [h2] at hd'
  simp only [Option.some.injEq] at hd hd'
  subst hd; subst hd'
  intro h; rw [h] at htls; rw [htls] at htls'; cases htls'

/-- invariant of one client connection in mode `m` (`tn` = membership in UpstreamAuth.tunneled) -/
private def CInv (m : Mode) (tn : Bool) (s : CState) : Prop :=
  (s.phase = .tunnel → tn = true ∧ m.isHttpProxy = true) ∧
  (∀ c ∈ s.pool, c.sendConnect = (c.via && c.tls) ∧ (c.via = true → m = .upstream)) ∧
  (∀ c, s.ctx = some c → (c.sendConnect = true → c.via = true) ∧ (c.via = true → m = .upstream ∧ s.phase ≠ .outer) ∧
      (m = .reverse → c.host = 3 ∧ c.via = false))

private theorem cinv_init (m : Mode) : CInv m false (CState.init m) := by
  refine ⟨by simp [CState.init], by simp [CState.init], ?_⟩
  intro c hc
  cases m <;> simp [CState.init, initCtx] at hc <;> subst hc <;> simp

/-- one step: under the invariant, a write that carries the credential is read by the upstream proxy (upstream mode)
    or by the reverse target (reverse mode) — never by an origin, directly or through a tunnel -/
private theorem rstep_allowed (auth : Bool) (m : Mode) (tn : Bool) (s : CState) (e : REv) (h : CInv m tn s) :
    ∀ c, (rstep auth m tn s e).2.conn = some c → ∀ w ∈ (rstep auth m tn s e).2.writes, w.cred ≠ none →
      (partyOf m c w = .proxy ∧ m = .upstream) ∨ (partyOf m c w = .reverseTarget ∧ m = .reverse) := by
  obtain ⟨h1, h2, h3⟩ := h
  intro c hc w hw hcred
  unfold rstep at hc hw
  cases hp : s.phase with
  | closed => simp [hp] at hc
  | outer =>
    cases e with
    | drop => simp [hp] at hc
    | connect host port => by_cases hm : m.isHttpProxy = true <;> simp [hp, hm] at hc
    | req host port https =>
      by_cases hm : m.isHttpProxy = true
      · simp only [hp, hm, Bool.true_and, beq_self_eq_true, if_true] at hc hw
        cases hf : s.pool.find? (fun c => c.matches host port https (m == Mode.upstream)) with
        | some c1 =>
          simp only [hf, Option.some.injEq] at hc hw
          subst hc
          have hmem := List.mem_of_find?_eq_some hf
          have hmatch := List.find?_some hf
          simp only [UpConn.matches, Bool.and_eq_true, beq_iff_eq] at hmatch
          obtain ⟨hsc, hvia⟩ := h2 c1 hmem
          cases m <;> cases https <;> cases auth <;> cases tn <;>
            simp_all [writesOn, requestheaders, connectUpstream, partyOf, Mode.isHttpProxy] <;>
            (first
              | (rcases hw with ⟨-, rfl⟩ | rfl <;> simp_all)
              | (rcases hw with rfl | rfl <;> simp_all)
              | (obtain ⟨-, rfl⟩ := hw; simp_all)
              | (subst hw; simp_all)
              | skip)
        | none =>
          simp only [hf, Option.some.injEq] at hc hw
          subst hc
          cases m <;> cases https <;> cases auth <;> cases tn <;>
            simp_all [writesOn, requestheaders, connectUpstream, partyOf, Mode.isHttpProxy] <;>
            (first
              | (rcases hw with ⟨-, rfl⟩ | rfl <;> simp_all)
              | (rcases hw with rfl | rfl <;> simp_all)
              | (obtain ⟨-, rfl⟩ := hw; simp_all)
              | (subst hw; simp_all)
              | skip)
      · simp only [hp, hm, Bool.false_and, Bool.false_eq_true, if_false] at hc hw
        cases hcx : s.ctx with
        | none => simp [hcx] at hc
        | some c0 =>
          simp only [hcx, Option.some.injEq] at hc hw
          obtain ⟨ha, hb, hr⟩ := h3 c0 hcx
          have hv : c0.via = false := by
            cases hv : c0.via with
            | false => rfl
            | true => exact absurd hp (hb hv).2
          have hsc : c0.sendConnect = false := by
            cases hs : c0.sendConnect with
            | false => rfl
            | true => rw [ha hs] at hv; cases hv
          subst hc
          cases m <;> cases auth <;> cases tn <;> cases hu : s.ctxUsed <;>
            simp_all [writesOn, requestheaders, connectUpstream, partyOf, Mode.isHttpProxy]
  | tunnel =>
    obtain ⟨htn, hmp⟩ := h1 hp
    cases e with
    | drop => simp [hp] at hc
    | connect host port => simp [hp] at hc
    | req host port https =>
      have hne : ((RPhase.tunnel == RPhase.outer) = false) := by decide
      simp only [hp, hmp, Bool.true_and, hne, Bool.false_eq_true, if_false] at hc hw
      cases hcx : s.ctx with
      | none => simp [hcx] at hc
      | some c0 =>
        simp only [hcx, Option.some.injEq] at hc hw
        obtain ⟨ha, hb, hr⟩ := h3 c0 hcx
        subst hc
        subst htn
        cases m <;> cases auth <;> cases hu : s.ctxUsed <;> cases hv : c0.via <;> cases hs : c0.sendConnect <;>
          simp_all [writesOn, requestheaders, connectUpstream, partyOf, Mode.isHttpProxy] <;>
          (first
              | (rcases hw with ⟨-, rfl⟩ | rfl <;> simp_all)
              | (rcases hw with rfl | rfl <;> simp_all)
              | (obtain ⟨-, rfl⟩ := hw; simp_all)
              | (subst hw; simp_all)
              | skip)

private theorem rstep_cinv (auth : Bool) (m : Mode) (tn : Bool) (s : CState) (e : REv) (h : CInv m tn s) :
    CInv m (tn || ((rstep auth m tn s e).2.kind == Kind.tunnel)) (rstep auth m tn s e).1 := by
  obtain ⟨h1, h2, h3⟩ := h
  unfold rstep
  cases hp : s.phase with
  | closed => exact ⟨by simp [hp], by simpa using h2, by intro c hc; simpa [hp] using h3 c hc⟩
  | outer =>
    cases e with
    | drop => exact ⟨by simp [hp], by simp, by intro c hc; simpa [hp] using h3 c hc⟩
    | connect host port =>
      by_cases hm : m.isHttpProxy = true
      · simp only [hm, if_true]
        refine ⟨by simp [hm], by simp, ?_⟩
        intro c hc
        simp only [Option.some.injEq] at hc
        subst hc
        cases m <;> simp_all [Mode.isHttpProxy]
      · simp only [hm, Bool.false_eq_true, if_false]
        refine ⟨by simp, by simpa using h2, ?_⟩
        intro c hc
        have := h3 c hc
        simp only at hc ⊢
        exact ⟨this.1, fun hv => ⟨(this.2.1 hv).1, by simp⟩, this.2.2⟩
    | req host port https =>
      by_cases hm : m.isHttpProxy = true
      · simp only [hm, Bool.true_and, beq_self_eq_true, if_true]
        cases hf : s.pool.find? (fun c => c.matches host port https (m == Mode.upstream)) with
        | some c =>
          simp only
          by_cases hsc : c.sendConnect = true
          · simp only [hsc, if_true]
            exact ⟨by simp [hp], by simpa using h2, by intro c' hc'; simpa [hp] using h3 c' hc'⟩
          · simp only [hsc, Bool.false_eq_true, if_false]
            exact ⟨by simp [hp], by simpa using h2, by intro c' hc'; simpa [hp] using h3 c' hc'⟩
        | none =>
          simp only
          refine ⟨by simp [hp], ?_, by intro c' hc'; simpa [hp] using h3 c' hc'⟩
          intro c hc
          simp only [List.mem_append, List.mem_singleton] at hc
          rcases hc with hc | rfl
          · exact h2 c hc
          · cases m <;> simp_all
      · simp only [hm, Bool.false_and, Bool.false_eq_true, if_false]
        cases hc : s.ctx with
        | none => exact ⟨by simp, by simpa using h2, by simp⟩
        | some c0 =>
          simp only
          have hc0 := h3 c0 hc
          refine ⟨by simp [hp], by simpa using h2, ?_⟩
          intro c' hc'
          simp only [Option.some.injEq] at hc'
          subst hc'
          by_cases hu : s.ctxUsed = true <;> simp_all
  | tunnel =>
    obtain ⟨htn, hmp⟩ := h1 hp
    cases e with
    | drop => exact ⟨by simp [hp, htn, hmp], by simp, by intro c hc; simpa [hp] using h3 c hc⟩
    | connect host port =>
      refine ⟨by simp, by simpa using h2, ?_⟩
      intro c hc
      have := h3 c hc
      simp only at hc ⊢
      exact ⟨this.1, fun hv => ⟨(this.2.1 hv).1, by simp⟩, this.2.2⟩
    | req host port https =>
      have hne : ((RPhase.tunnel == RPhase.outer) = false) := by decide
      simp only [hmp, Bool.true_and, hne, Bool.false_eq_true, if_false]
      cases hc : s.ctx with
      | none => exact ⟨by simp, by simpa using h2, by simp⟩
      | some c0 =>
        simp only
        have hc0 := h3 c0 hc
        refine ⟨by simp [hp, htn, hmp], by simpa using h2, ?_⟩
        intro c' hc'
        simp only [Option.some.injEq] at hc'
        subst hc'
        by_cases hu : s.ctxUsed = true <;> simp_all

/-- invariant of the whole proxy: every client connection satisfies `CInv` with its membership in `tunneled` -/
private def RInv (modes : Nat → Mode) (σ : RState) : Prop :=
  ∀ c, CInv (modes c) (σ.tunneled.contains c) (σ.conns c)

private theorem rinv_init (modes : Nat → Mode) : RInv modes (RState.init modes) := by
  intro c; simpa [RState.init] using cinv_init (modes c)

/-- **C24 on the routing model, over whole histories** (connection reuse, Host ≠ destination, scheme changes, any
    number of client connections): a write that carries the configured credential is read by the upstream proxy in
    upstream mode or by the reverse target in reverse mode — where "who reads it" is *derived* from the predicted
    connection parameters (`via`, CONNECT-first, address), not observed. -/
theorem route_creds_only_to_proxy_or_reverse_target (auth : Bool) (modes : Nat → Mode) :
    ∀ (es : List (Nat × REv)) (σ : RState), RInv modes σ →
      ∀ x ∈ rrun auth modes σ es, ∀ c, x.2.conn = some c → ∀ w ∈ x.2.writes, w.cred ≠ none →
        (partyOf (modes x.1) c w = .proxy ∧ modes x.1 = .upstream) ∨
        (partyOf (modes x.1) c w = .reverseTarget ∧ modes x.1 = .reverse) := by
  intro es
  induction es with
  | nil => intro σ _ x hx; simp [rrun] at hx
  | cons ev rest ih =>
    intro σ hinv x hx
    obtain ⟨cid, e⟩ := ev
    simp only [rrun, List.mem_cons] at hx
    rcases hx with rfl | hx
    · exact rstep_allowed auth (modes cid) _ _ e (hinv cid)
    · refine ih _ ?_ x hx
      have hstep := rstep_cinv auth (modes cid) (σ.tunneled.contains cid) (σ.conns cid) e (hinv cid)
      by_cases hk : (rstep auth (modes cid) (σ.tunneled.contains cid) (σ.conns cid) e).2.kind = Kind.tunnel
      · intro c
        simp only [hk, if_true]
        by_cases hc : c = cid
        · subst hc
          simp only [hk, beq_self_eq_true, Bool.or_true] at hstep
          simpa using hstep
        · simp only [hc, if_false]
          have hcc : (cid :: σ.tunneled).contains c = σ.tunneled.contains c := by
            simp [List.contains_cons, hc]
          rw [hcc]; exact hinv c
      · intro c
        simp only [hk, if_false]
        by_cases hc : c = cid
        · subst hc
          have hkb : ((rstep auth (modes c) (σ.tunneled.contains c) (σ.conns c) e).2.kind == Kind.tunnel) = false := by
            simpa using hk
          simp only [hkb, Bool.or_false] at hstep
          simpa using hstep
        · simp only [hc, if_false]; exact hinv c

/-- … from the start of the proxy -/
theorem route_creds_confined (auth : Bool) (modes : Nat → Mode) (es : List (Nat × REv))
    (cid : Nat) (o : ROut) (hx : (cid, o) ∈ rrun auth modes (RState.init modes) es)
    (c : UpConn) (hc : o.conn = some c) (w : RWrite) (hw : w ∈ o.writes) (hcred : w.cred ≠ none) :
    (partyOf (modes cid) c w = .proxy ∧ modes cid = .upstream) ∨
    (partyOf (modes cid) c w = .reverseTarget ∧ modes cid = .reverse) :=
  route_creds_only_to_proxy_or_reverse_target auth modes es _ (rinv_init modes) (cid, o) hx c hc w hw hcred

/-- the routing model under runtime changes of `upstream_auth` -/
theorem route_creds_confined_under_option_changes (modes : Nat → Mode) :
    ∀ (es : List (Nat × Bool × REv)) (σ : RState), RInv modes σ →
      ∀ x ∈ rrunVar modes σ es, ∀ c, x.2.conn = some c → ∀ w ∈ x.2.writes, w.cred ≠ none →
        (partyOf (modes x.1) c w = .proxy ∧ modes x.1 = .upstream) ∨
        (partyOf (modes x.1) c w = .reverseTarget ∧ modes x.1 = .reverse) := by
  intro es
  induction es with
  | nil => intro σ _ x hx; simp [rrunVar] at hx
  | cons ev rest ih =>
    intro σ hinv x hx
    obtain ⟨cid, auth, e⟩ := ev
    simp only [rrunVar, List.mem_cons] at hx
    rcases hx with rfl | hx
    · exact rstep_allowed auth (modes cid) _ _ e (hinv cid)
    · refine ih _ ?_ x hx
      have hstep := rstep_cinv auth (modes cid) (σ.tunneled.contains cid) (σ.conns cid) e (hinv cid)
      by_cases hk : (rstep auth (modes cid) (σ.tunneled.contains cid) (σ.conns cid) e).2.kind = Kind.tunnel
      · intro c
        simp only [hk, if_true]
        by_cases hc : c = cid
        · subst hc
          simp only [hk, beq_self_eq_true, Bool.or_true] at hstep
          simpa using hstep
        · simp only [hc, if_false]
          have hcc : (cid :: σ.tunneled).contains c = σ.tunneled.contains c := by
            simp [List.contains_cons, hc]
          rw [hcc]; exact hinv c
      · intro c
        simp only [hk, if_false]
        by_cases hc : c = cid
        · subst hc
          have hkb : ((rstep auth (modes c) (σ.tunneled.contains c) (σ.conns c) e).2.kind == Kind.tunnel) = false := by
            simpa using hk
          simp only [hkb, Bool.or_false] at hstep
          simpa using hstep
        · simp only [hc, if_false]; exact hinv c

-- non-vacuity: reuse, scheme change and a tunnel in one upstream-mode history
example : (rrun true (fun _ => .upstream) (RState.init (fun _ => .upstream))
    [(0, .req 1 80 false), (0, .req 1 80 false), (0, .req 1 443 true), (0, .connect 9 80), (0, .req 2 80 false)]).map
      (fun x => (x.2.conn.map (·.idx), x.2.fresh, x.2.writes)) =
    [(some 0, true, [⟨.request, some .proxyAuthorization⟩]),
     (some 0, false, [⟨.request, some .proxyAuthorization⟩]),
     (some 1, true, [⟨.connect, some .proxyAuthorization⟩, ⟨.request, none⟩]),
     (none, false, []),
     (some 2, true, [⟨.connect, some .proxyAuthorization⟩, ⟨.request, none⟩])] := by decide +kernel

end Routing


/-! ## Round 4: the routing model refines the Dest-level model -/

section Refinement
open MitmVerif.C24.Route

/-- the Dest-level step, seen from one client connection: new phase, "added to `tunneled`", kind, writes -/
def dstep (auth : Bool) (m : Mode) (tn : Bool) : Phase → Ev → Phase × Bool × Kind × List Write
  | .closed, _ => (.closed, false, .ignored, [])
  | .outer, .drop => (.outer, false, .noop, [])
  | .tunnel _, .drop => (.tunnel false, false, .noop, [])
  | .outer, .connect =>
    if m.isHttpProxy then (.tunnel (m == Mode.regular), true, .tunnel, []) else (.closed, false, .invalid, [])
  | .outer, .req https =>
    match m with
    | .regular => (.outer, false, .response, [⟨.originDirect, .request, https, requestheaders auth m (!https) tn⟩])
    | .upstream =>
      if https then
        (.outer, false, .response, [⟨.proxy, .connect, false, connectUpstream auth⟩,
                                    ⟨.originViaTunnel, .request, true, requestheaders auth m false tn⟩])
      else (.outer, false, .response, [⟨.proxy, .request, false, requestheaders auth m true tn⟩])
    | _ => (.outer, false, .response, [⟨transparentDest m, .request, false, requestheaders auth m true tn⟩])
  | .tunnel _, .connect => (.closed, false, .invalid, [])
  | .tunnel opened, .req _ =>
    match m with
    | .upstream =>
      (.tunnel true, false, .response,
        (if opened then [] else [⟨.proxy, .connect, false, connectUpstream auth⟩]) ++
          [⟨.originViaTunnel, .request, false, requestheaders auth m true tn⟩])
    | _ => (.tunnel opened, false, .response, [⟨.originDirect, .request, false, requestheaders auth m true tn⟩])

private theorem step_phase_self (auth : Bool) (m : Mode) (σ : State) (cid : Nat) (e : Ev) :
    (step auth m σ cid e).1.phase cid = (dstep auth m (σ.tunneled.contains cid) (σ.phase cid) e).1 := by
  unfold step stepWith dstep
  cases hp : σ.phase cid <;> cases e <;> cases m <;> (try cases ‹Bool›) <;> simp [State.setPhase, Mode.isHttpProxy, hp]

private theorem step_phase_other (auth : Bool) (m : Mode) (σ : State) (cid c : Nat) (e : Ev) (hc : c ≠ cid) :
    (step auth m σ cid e).1.phase c = σ.phase c := by
  unfold step stepWith
  cases hp : σ.phase cid <;> cases e <;> cases m <;> (try cases ‹Bool›) <;> simp [State.setPhase, Mode.isHttpProxy, hc, hp]

private theorem step_tunneled (auth : Bool) (m : Mode) (σ : State) (cid : Nat) (e : Ev) :
    (step auth m σ cid e).1.tunneled =
      if (dstep auth m (σ.tunneled.contains cid) (σ.phase cid) e).2.1 then cid :: σ.tunneled else σ.tunneled := by
  unfold step stepWith dstep
  cases hp : σ.phase cid <;> cases e <;> cases m <;> (try cases ‹Bool›) <;> simp [State.setPhase, Mode.isHttpProxy, hp]

private theorem step_out (auth : Bool) (m : Mode) (σ : State) (cid : Nat) (e : Ev) :
    (step auth m σ cid e).2 = (dstep auth m (σ.tunneled.contains cid) (σ.phase cid) e).2.2 := by
  unfold step stepWith dstep
  cases hp : σ.phase cid <;> cases e <;> cases m <;> (try cases ‹Bool›) <;> simp [State.setPhase, Mode.isHttpProxy, hp]

/-- the routing model's event, forgetting the names the Dest-level model does not look at -/
def evOf : REv → Ev
  | .req _ _ https => .req https
  | .connect _ _ => .connect
  | .drop => .drop

/-- the routing model's output, read at the Dest level: who reads each write is DERIVED from the connection
    parameters (`partyOf`), "inside TLS" from the connection's tls flag -/
def eraseOut (m : Mode) (o : ROut) : Kind × List Write :=
  (o.kind, match o.conn with
    | some c => o.writes.map (fun w => ⟨partyOf m c w, w.form, c.tls && w.form == .request, w.cred⟩)
    | none => [])

/-- same kind; same writes, except that the Dest-level model writes a CONNECT to the proxy for every https request
    where the routing model reuses an established CONNECT-first connection -/
def Refines (d r : Kind × List Write) : Prop :=
  d.1 = r.1 ∧ (d.2 = r.2 ∨ ∃ cred, d.2 = ⟨.proxy, .connect, false, cred⟩ :: r.2)

/-- simulation relation between the two models' views of one client connection -/
structure RelC (m : Mode) (p : Phase) (s : CState) : Prop where
  bound : ∀ i ∈ s.connected, i < s.used
  closed : p = .closed → s.phase = .closed
  outer : p = .outer → s.phase = .outer ∧
    (m.isHttpProxy = true → ∀ c ∈ s.pool, c.via = (m == Mode.upstream) ∧ c.sendConnect = (c.via && c.tls) ∧
        (c.sendConnect = true → c.idx ∈ s.connected)) ∧
    (m.isHttpProxy = false → ∃ c0, s.ctx = some c0 ∧ c0.via = false ∧ c0.sendConnect = false ∧ c0.tls = false ∧
        (m = .reverse → c0.host = 3))
  tunnel : ∀ o, p = .tunnel o → s.phase = .tunnel ∧ m.isHttpProxy = true ∧
    ∃ c0, s.ctx = some c0 ∧ c0.tls = false ∧ c0.via = (m == Mode.upstream) ∧ c0.sendConnect = (m == Mode.upstream) ∧
      (s.ctxUsed = true → c0.idx < s.used) ∧
      (m = .upstream → o = (s.ctxUsed && s.connected.contains c0.idx))

private theorem relc_init (m : Mode) : RelC m .outer (CState.init m) := by
  refine ⟨by simp [CState.init], by simp, ?_, by simp⟩
  intro _
  refine ⟨rfl, by simp [CState.init], ?_⟩
  intro hm
  cases m <;> simp_all [Mode.isHttpProxy, CState.init, initCtx]

private theorem rstep_refines (auth : Bool) (m : Mode) (tn : Bool) (p : Phase) (s : CState) (e : REv)
    (h : RelC m p s) :
    RelC m (dstep auth m tn p (evOf e)).1 (rstep auth m tn s e).1 ∧
    (dstep auth m tn p (evOf e)).2.1 = ((rstep auth m tn s e).2.kind == Kind.tunnel) ∧
    Refines (dstep auth m tn p (evOf e)).2.2 (eraseOut m (rstep auth m tn s e).2) := by
  cases hp : p with
  | closed =>
    have hs : s.phase = .closed := h.closed hp
    have hr : rstep auth m tn s e = (s, { kind := .ignored }) := by unfold rstep; simp [hs]
    rw [hr]
    refine ⟨?_, by simp [dstep], by simp [dstep, Refines, eraseOut]⟩
    simpa [dstep, hp] using h
  | outer =>
    obtain ⟨hs, hpool, hctx⟩ := h.outer hp
    cases e with
    | drop =>
      have hr : rstep auth m tn s .drop = ({ s with pool := [], ctxUsed := false }, { kind := .noop }) := by
        unfold rstep; simp [hs]
      rw [hr]
      refine ⟨?_, by simp [dstep, evOf], by simp [dstep, evOf, Refines, eraseOut]⟩
      simp only [dstep, evOf]
      exact ⟨h.bound, by simp, fun _ => ⟨hs, by simp, hctx⟩, by simp⟩
    | connect host port =>
      by_cases hm : m.isHttpProxy = true
      · have hr : rstep auth m tn s (.connect host port) =
            ({ phase := .tunnel, ctx := some ⟨host, port, false, none, m == Mode.upstream, m == Mode.upstream, 0⟩,
               ctxUsed := false, pool := [], connected := s.connected, used := s.used }, { kind := .tunnel }) := by
          unfold rstep; simp [hs, hm]
        rw [hr]
        refine ⟨?_, by simp [dstep, evOf, hm], by simp [dstep, evOf, hm, Refines, eraseOut]⟩
        simp only [dstep, evOf, hm, if_true]
        refine ⟨h.bound, by simp, by simp, ?_⟩
        intro o ho
        refine ⟨rfl, hm, _, rfl, rfl, rfl, rfl, by simp, ?_⟩
        intro hu; subst hu; simp at ho; simp [← ho]
      · have hr : rstep auth m tn s (.connect host port) = ({ s with phase := .closed }, { kind := .invalid }) := by
          unfold rstep; simp [hs, hm]
        rw [hr]
        refine ⟨?_, by simp [dstep, evOf, hm], by simp [dstep, evOf, hm, Refines, eraseOut]⟩
        simp only [dstep, evOf, hm, Bool.false_eq_true, if_false]
        exact ⟨h.bound, by simp, by simp, by simp⟩
    | req host port https =>
      by_cases hm : m.isHttpProxy = true
      · have hpool' := hpool hm
        cases hf : s.pool.find? (fun c => c.matches host port https (m == Mode.upstream)) with
        | some c =>
          have hr : rstep auth m tn s (.req host port https) =
              (if c.sendConnect then { s with connected := c.idx :: s.connected } else s,
               { kind := .response, conn := some c, fresh := false,
                 writes := writesOn auth m c (s.connected.contains c.idx) (!https) tn }) := by
            unfold rstep; simp [hs, hm, hf]
          rw [hr]
          have hmem := List.mem_of_find?_eq_some hf
          have hmatch := List.find?_some hf
          simp only [UpConn.matches, Bool.and_eq_true, beq_iff_eq] at hmatch
          obtain ⟨hv, hsc, hcon⟩ := hpool' c hmem
          refine ⟨?_, ?_, ?_⟩
          · -- relation
            have hd : (dstep auth m tn .outer (evOf (.req host port https))).1 = .outer := by
              cases m <;> cases https <;> simp [dstep, evOf]
            rw [hd]
            by_cases hsc' : c.sendConnect = true
            · simp only [hsc', if_true]
              refine ⟨?_, by simp, ?_, by simp⟩
              · intro i hi
                simp only [List.mem_cons] at hi
                rcases hi with rfl | hi
                · exact h.bound _ (hcon hsc')
                · exact h.bound i hi
              · intro _
                refine ⟨hs, ?_, fun hm' => by simp [hm] at hm'⟩
                intro _ c' hc'
                obtain ⟨a, b, d⟩ := hpool' c' hc'
                exact ⟨a, b, fun hh => List.mem_cons_of_mem _ (d hh)⟩
            · simp only [hsc', Bool.false_eq_true, if_false]
              exact ⟨h.bound, by simp, fun _ => ⟨hs, fun _ => hpool', fun hm' => by simp [hm] at hm'⟩, by simp⟩
          · cases m <;> cases https <;> simp [dstep, evOf]
          · have hcd : c.sendConnect = true → s.connected.contains c.idx = true := by
              intro hh; simpa using hcon hh
            cases m <;> cases https <;> cases auth <;> cases tn <;>
              simp_all [dstep, evOf, Refines, eraseOut, writesOn, partyOf, requestheaders, connectUpstream,
                Mode.isHttpProxy]
        | none =>
          have hr : rstep auth m tn s (.req host port https) =
              ({ s with pool := s.pool ++ [⟨host, port, https, if https then some host else none, m == Mode.upstream,
                                            (m == Mode.upstream) && https, s.used⟩],
                        used := s.used + 1,
                        connected := if ((m == Mode.upstream) && https) then s.used :: s.connected else s.connected },
               { kind := .response,
                 conn := some ⟨host, port, https, if https then some host else none, m == Mode.upstream,
                               (m == Mode.upstream) && https, s.used⟩,
                 fresh := true,
                 writes := writesOn auth m ⟨host, port, https, if https then some host else none, m == Mode.upstream,
                               (m == Mode.upstream) && https, s.used⟩ false (!https) tn }) := by
            unfold rstep; simp [hs, hm, hf]
          rw [hr]
          refine ⟨?_, ?_, ?_⟩
          · have hd : (dstep auth m tn .outer (evOf (.req host port https))).1 = .outer := by
              cases m <;> cases https <;> simp [dstep, evOf]
            rw [hd]
            refine ⟨?_, by simp, ?_, by simp⟩
            · intro i hi
              simp only at hi
              split at hi
              · simp only [List.mem_cons] at hi
                rcases hi with rfl | hi
                · exact Nat.lt_succ_self _
                · exact Nat.lt_succ_of_lt (h.bound i hi)
              · exact Nat.lt_succ_of_lt (h.bound i hi)
            · intro _
              refine ⟨hs, ?_, fun hm' => by simp [hm] at hm'⟩
              intro _ c' hc'
              simp only [List.mem_append, List.mem_singleton] at hc'
              rcases hc' with hc' | rfl
              · obtain ⟨a, b, d⟩ := hpool' c' hc'
                refine ⟨a, b, fun hh => ?_⟩
                have := d hh
                simp only
                split
                · exact List.mem_cons_of_mem _ this
                · exact this
              · refine ⟨rfl, rfl, ?_⟩
                intro hh
                simp only at hh
                simp [hh]
          · cases m <;> cases https <;> simp [dstep, evOf]
          · cases m <;> cases https <;> cases auth <;> cases tn <;>
              simp_all [dstep, evOf, Refines, eraseOut, writesOn, partyOf, requestheaders, connectUpstream,
                Mode.isHttpProxy]
      · have hmf : m.isHttpProxy = false := by simpa using hm
        obtain ⟨c0, hc0, hv0, hsc0, htls0, hrev⟩ := hctx hmf
        have hr : rstep auth m tn s (.req host port https) =
            ({ s with ctx := some (if s.ctxUsed then c0 else { c0 with idx := s.used }), ctxUsed := true,
                      used := if s.ctxUsed then s.used else s.used + 1,
                      connected := if (if s.ctxUsed then c0 else { c0 with idx := s.used }).sendConnect
                        then (if s.ctxUsed then c0 else { c0 with idx := s.used }).idx :: s.connected else s.connected },
             { kind := .response, conn := some (if s.ctxUsed then c0 else { c0 with idx := s.used }),
               fresh := !s.ctxUsed,
               writes := writesOn auth m (if s.ctxUsed then c0 else { c0 with idx := s.used })
                 (s.connected.contains (if s.ctxUsed then c0 else { c0 with idx := s.used }).idx) true tn }) := by
          unfold rstep; simp [hs, hmf, hc0]
        rw [hr]
        have hsc1 : (if s.ctxUsed then c0 else { c0 with idx := s.used }).sendConnect = false := by
          split <;> simp [hsc0]
        refine ⟨?_, ?_, ?_⟩
        · have hd : (dstep auth m tn .outer (evOf (.req host port https))).1 = .outer := by
            cases m <;> cases https <;> simp [dstep, evOf]
          rw [hd]
          refine ⟨?_, by simp, ?_, by simp⟩
          · intro i hi
            simp only [hsc1, Bool.false_eq_true, if_false] at hi
            have := h.bound i hi
            simp only
            split <;> omega
          · intro _
            refine ⟨hs, fun hm' => by simp [hmf] at hm', ?_⟩
            intro _
            refine ⟨_, rfl, ?_, ?_, ?_, ?_⟩ <;> (split <;> simp_all)
        · cases m <;> cases https <;> simp [dstep, evOf]
        · cases m <;> cases https <;> cases auth <;> cases tn <;> cases hu : s.ctxUsed <;>
            simp_all [dstep, evOf, Refines, eraseOut, writesOn, partyOf, requestheaders, connectUpstream,
              Mode.isHttpProxy, transparentDest]
  | tunnel o =>
    obtain ⟨hs, hm, c0, hc0, htls, hvia, hsc, hidx, hopen⟩ := h.tunnel o hp
    cases e with
    | drop =>
      have hr : rstep auth m tn s .drop = ({ s with pool := [], ctxUsed := false }, { kind := .noop }) := by
        unfold rstep; simp [hs]
      rw [hr]
      refine ⟨?_, by simp [dstep, evOf], by simp [dstep, evOf, Refines, eraseOut]⟩
      simp only [dstep, evOf]
      refine ⟨h.bound, by simp, by simp, ?_⟩
      intro o' ho'
      exact ⟨hs, hm, c0, hc0, htls, hvia, hsc, by simp, by intro _; simp at ho'; subst ho'; simp⟩
    | connect host port =>
      have hr : rstep auth m tn s (.connect host port) = ({ s with phase := .closed }, { kind := .invalid }) := by
        unfold rstep; simp [hs]
      rw [hr]
      refine ⟨?_, by simp [dstep, evOf], by simp [dstep, evOf, Refines, eraseOut]⟩
      simp only [dstep, evOf]
      exact ⟨h.bound, by simp, by simp, by simp⟩
    | req host port https =>
      have hne : ((RPhase.tunnel == RPhase.outer) = false) := by decide
      have hr : rstep auth m tn s (.req host port https) =
          ({ s with ctx := some (if s.ctxUsed then c0 else { c0 with idx := s.used }), ctxUsed := true,
                    used := if s.ctxUsed then s.used else s.used + 1,
                    connected := if (if s.ctxUsed then c0 else { c0 with idx := s.used }).sendConnect
                      then (if s.ctxUsed then c0 else { c0 with idx := s.used }).idx :: s.connected else s.connected },
           { kind := .response, conn := some (if s.ctxUsed then c0 else { c0 with idx := s.used }),
             fresh := !s.ctxUsed,
             writes := writesOn auth m (if s.ctxUsed then c0 else { c0 with idx := s.used })
               (s.connected.contains (if s.ctxUsed then c0 else { c0 with idx := s.used }).idx) true tn }) := by
        unfold rstep; simp [hs, hm, hne, hc0]
      rw [hr]
      have hfresh : s.connected.contains s.used = false := by
        cases hcn : s.connected.contains s.used with
        | false => rfl
        | true =>
          have := h.bound s.used (by simpa using hcn)
          omega
      have hmodes : m = .regular ∨ m = .upstream := by
        cases m <;> simp_all [Mode.isHttpProxy]
      cases hu : s.ctxUsed with
      | true =>
        have hi := hidx hu
        simp only [hu, if_true]
        rcases hmodes with rfl | rfl
        · -- regular: nothing but the request, on the tunnel's own connection
          have hv : c0.via = false := by rw [hvia]; rfl
          have hsc' : c0.sendConnect = false := by rw [hsc]; rfl
          refine ⟨?_, by simp [dstep, evOf], ?_⟩
          · simp only [dstep, evOf, hsc', Bool.false_eq_true, if_false]
            refine ⟨h.bound, by simp, by simp, ?_⟩
            intro o' _
            exact ⟨hs, rfl, c0, rfl, htls, by first | rfl | (rw [hv]; rfl), by first | rfl | (rw [hsc']; rfl), fun _ => hi, by simp⟩
          · simp [dstep, evOf, Refines, eraseOut, writesOn, partyOf, hv, hsc', htls]
        · -- upstream: CONNECT first unless this tunnel connection has sent it already
          have hv : c0.via = true := by rw [hvia]; rfl
          have hsc' : c0.sendConnect = true := by rw [hsc]; rfl
          have ho : o = s.connected.contains c0.idx := by simpa [hu] using hopen rfl
          refine ⟨?_, by simp [dstep, evOf], ?_⟩
          · simp only [dstep, evOf, hsc', if_true]
            refine ⟨?_, by simp, by simp, ?_⟩
            · intro i hi'
              simp only [List.mem_cons] at hi'
              rcases hi' with rfl | hi'
              · exact hi
              · exact h.bound i hi'
            · intro o' ho'
              refine ⟨hs, rfl, c0, rfl, htls, by first | rfl | (rw [hv]; rfl), by first | rfl | (rw [hsc']; rfl), fun _ => hi, ?_⟩
              intro _; simp at ho'; simp [← ho']
          · by_cases hmem : c0.idx ∈ s.connected
            · have hct : s.connected.contains c0.idx = true := by simpa using hmem
              refine ⟨by simp [dstep, evOf, eraseOut], Or.inl ?_⟩
              simp [dstep, evOf, eraseOut, writesOn, partyOf, hv, hsc', htls, ho, hct, hmem]
            · have hct : s.connected.contains c0.idx = false := by simpa using hmem
              refine ⟨by simp [dstep, evOf, eraseOut], Or.inl ?_⟩
              simp [dstep, evOf, eraseOut, writesOn, partyOf, hv, hsc', htls, ho, hct, hmem]
      | false =>
        simp only [hu, Bool.false_eq_true, if_false]
        rcases hmodes with rfl | rfl
        · have hv : c0.via = false := by rw [hvia]; rfl
          have hsc' : c0.sendConnect = false := by rw [hsc]; rfl
          refine ⟨?_, by simp [dstep, evOf], ?_⟩
          · simp only [dstep, evOf, hsc', Bool.false_eq_true, if_false]
            refine ⟨fun i hi' => Nat.lt_succ_of_lt (h.bound i hi'), by simp, by simp, ?_⟩
            intro o' _
            exact ⟨hs, rfl, _, rfl, htls, by first | rfl | (rw [hv]; rfl), by first | rfl | (rw [hsc']; rfl), fun _ => Nat.lt_succ_self _, by simp⟩
          · simp [dstep, evOf, Refines, eraseOut, writesOn, partyOf, hv, hsc', htls]
        · have hv : c0.via = true := by rw [hvia]; rfl
          have hsc' : c0.sendConnect = true := by rw [hsc]; rfl
          have ho : o = false := by simpa [hu] using hopen rfl
          refine ⟨?_, by simp [dstep, evOf], ?_⟩
          · simp only [dstep, evOf, hsc', if_true]
            refine ⟨?_, by simp, by simp, ?_⟩
            · intro i hi'
              simp only [List.mem_cons] at hi'
              rcases hi' with rfl | hi'
              · exact Nat.lt_succ_self _
              · exact Nat.lt_succ_of_lt (h.bound i hi')
            · intro o' ho'
              refine ⟨hs, rfl, _, rfl, htls, by first | rfl | (rw [hv]; rfl), by first | rfl | (rw [hsc']; rfl), fun _ => Nat.lt_succ_self _, ?_⟩
              intro _; simp at ho'; simp [← ho']
          · have hnm : s.used ∉ s.connected := by
              intro hmem; have := h.bound _ hmem; omega
            refine ⟨by simp [dstep, evOf, eraseOut], Or.inl ?_⟩
            simp [dstep, evOf, eraseOut, writesOn, partyOf, hv, hsc', htls, ho, hfresh, hnm]

/-- the two lists have the same length and are related position by position -/
inductive AllPairs {α β : Type} (R : α → β → Prop) : List α → List β → Prop
  | nil : AllPairs R [] []
  | cons {a b as bs} : R a b → AllPairs R as bs → AllPairs R (a :: as) (b :: bs)

/-- **The routing model refines the Dest-level model** — over every history (any number of client connections, option
    changes, server disconnects): fed the same events, both models answer every event with the same kind, and the
    routing model's writes — read at the Dest level through the connection parameters it PREDICTS (`partyOf`: via,
    CONNECT-first, address; tls flag) — are exactly the Dest-level model's writes, except that the Dest-level model
    writes a CONNECT to the proxy for every https request where the routing model reuses an established connection.
    (Simulation: `tunneled` equal, phases related by `RelC`.) -/
theorem route_refines_dest (modes : Nat → Mode) :
    ∀ (es : List (Nat × Bool × REv)) (σ : State) (ρ : RState),
      σ.tunneled = ρ.tunneled → (∀ c, RelC (modes c) (σ.phase c) (ρ.conns c)) →
      AllPairs (fun d r => d.1 = r.1 ∧ Refines d.2 (eraseOut (modes r.1) r.2))
        (runVar modes σ (es.map (fun x => (x.1, x.2.1, evOf x.2.2)))) (rrunVar modes ρ es) := by
  intro es
  induction es with
  | nil => intro σ ρ _ _; exact AllPairs.nil
  | cons x rest ih =>
    intro σ ρ ht hrel
    obtain ⟨cid, auth, e⟩ := x
    simp only [List.map_cons, runVar, rrunVar]
    have hR := rstep_refines auth (modes cid) (ρ.tunneled.contains cid) (σ.phase cid) (ρ.conns cid) e (hrel cid)
    have htn : σ.tunneled.contains cid = ρ.tunneled.contains cid := by rw [ht]
    refine AllPairs.cons ⟨rfl, ?_⟩ ?_
    · have := step_out auth (modes cid) σ cid (evOf e)
      rw [htn] at this
      show Refines (step auth (modes cid) σ cid (evOf e)).2 _
      rw [this]; exact hR.2.2
    · apply ih
      · rw [step_tunneled, htn, hR.2.1]
        by_cases hk : (rstep auth (modes cid) (ρ.tunneled.contains cid) (ρ.conns cid) e).2.kind = Kind.tunnel
        · simp [hk, ht]
        · have : ((rstep auth (modes cid) (ρ.tunneled.contains cid) (ρ.conns cid) e).2.kind == Kind.tunnel) = false := by
            simpa using hk
          simp [hk, this, ht]
      · intro c
        by_cases hc : c = cid
        · subst hc
          rw [step_phase_self, htn]
          simpa using hR.1
        · rw [step_phase_other _ _ _ _ _ _ hc]
          simpa [hc] using hrel c

/-- … from the start of the proxy -/
theorem route_refines_dest_from_start (modes : Nat → Mode) (es : List (Nat × Bool × REv)) :
    AllPairs (fun d r => d.1 = r.1 ∧ Refines d.2 (eraseOut (modes r.1) r.2))
      (runVar modes State.init (es.map (fun x => (x.1, x.2.1, evOf x.2.2))))
      (rrunVar modes (RState.init modes) es) :=
  route_refines_dest modes es State.init (RState.init modes) rfl (fun c => by
    simpa [State.init, RState.init] using relc_init (modes c))

private theorem allPairs_right {α β : Type} {R : α → β → Prop} {l1 : List α} {l2 : List β} (h : AllPairs R l1 l2) :
    ∀ b ∈ l2, ∃ a ∈ l1, R a b := by
  induction h with
  | nil => intro b hb; simp at hb
  | cons hab _ ih =>
    intro b hb
    simp only [List.mem_cons] at hb
    rcases hb with rfl | hb
    · exact ⟨_, by simp, hab⟩
    · obtain ⟨a, ha, hr⟩ := ih b hb
      exact ⟨a, by simp [ha], hr⟩

/-- **C24 for the routing model as a corollary of the refinement**: every write of the routing model that carries the
    credential — read at the Dest level through its predicted connection parameters — is one of the three allowed
    kinds (`Allowed`: mitmproxy's CONNECT to the proxy, a direct plain request to the proxy, a request to the reverse
    target), because it is a write of the Dest-level model, for which `creds_confined_under_option_changes` holds. -/
theorem route_creds_allowed_via_refinement (modes : Nat → Mode) (es : List (Nat × Bool × REv))
    (cid : Nat) (o : ROut) (hx : (cid, o) ∈ rrunVar modes (RState.init modes) es)
    (w : Write) (hw : w ∈ (eraseOut (modes cid) o).2) (hc : w.cred ≠ none) : Allowed (modes cid) w := by
  obtain ⟨d, hd, hcid, hkind, hwr⟩ := allPairs_right (route_refines_dest_from_start modes es) (cid, o) hx
  obtain ⟨c', k, ws⟩ := d
  simp only at hcid hkind hwr
  subst hcid
  have hmem : w ∈ ws := by
    rcases hwr with h | ⟨cred, h⟩
    · rw [h]; exact hw
    · rw [h]; exact List.mem_cons_of_mem _ hw
  exact creds_confined_under_option_changes_from_start modes _ c' k ws hd w hmem hc

-- the one place where the two differ: the second https request to the same origin reuses the TLS connection
example : (rrunVar (fun _ => .upstream) (RState.init (fun _ => .upstream))
      [(0, true, .req 7 443 true), (0, true, .req 7 443 true)]).map (fun x => (eraseOut .upstream x.2).2.length) = [2, 1] ∧
    (runVar (fun _ => .upstream) State.init [(0, true, .req true), (0, true, .req true)]).map (fun x => x.2.2.length) = [2, 2] := by
  decide +kernel

private theorem rstep_host_blind (auth : Bool) (m : Mode) (tn : Bool) (s : CState) (e1 e2 : REv)
    (hm : m.isHttpProxy = false) (he : evOf e1 = evOf e2) :
    rstep auth m tn s e1 = rstep auth m tn s e2 := by
  cases e1 <;> cases e2 <;> simp [evOf] at he
  · rename_i h1 p1 t1 h2 p2 t2
    exact transparent_dest_ignores_host auth m tn s h1 p1 h2 p2 t1 t2 (by simp [hm])
  · unfold rstep
    cases hp : s.phase <;> simp [hm]
  · rfl

/-- **Host vs destination over whole histories**: when every client connection is in reverse, transparent or SOCKS5
    mode, two histories that differ only in the hosts, ports and schemes their requests (and misplaced CONNECTs) NAME
    produce exactly the same connections, writes and credentials — the destination is the mode's, never the request's. -/
theorem transparent_histories_ignore_hosts (modes : Nat → Mode) (hm : ∀ c, (modes c).isHttpProxy = false) :
    ∀ (es1 es2 : List (Nat × Bool × REv)) (ρ : RState),
      es1.map (fun x => (x.1, x.2.1, evOf x.2.2)) = es2.map (fun x => (x.1, x.2.1, evOf x.2.2)) →
      rrunVar modes ρ es1 = rrunVar modes ρ es2 := by
  intro es1
  induction es1 with
  | nil =>
    intro es2 ρ h
    cases es2 with
    | nil => rfl
    | cons y ys => simp at h
  | cons x xs ih =>
    intro es2 ρ h
    cases es2 with
    | nil => simp at h
    | cons y ys =>
      obtain ⟨c1, a1, e1⟩ := x
      obtain ⟨c2, a2, e2⟩ := y
      simp only [List.map_cons, List.cons.injEq, Prod.mk.injEq] at h
      obtain ⟨⟨rfl, rfl, he⟩, hrest⟩ := h
      have hstep := rstep_host_blind a1 (modes c1) (ρ.tunneled.contains c1) (ρ.conns c1) e1 e2 (hm c1) he
      simp only [rrunVar, hstep]
      rw [ih ys _ hrest]

end Refinement

/-! ## Round 4: the credential value (`parse_upstream_auth`) -/

section Credential
open MitmVerif.C20.B64 MitmVerif.C24.Cred

/-- `re.search(".+:", auth)`: some ':' is directly preceded by a character other than "\n" -/
theorem validSpec_iff (auth : CText) :
    validSpec auth = true ↔ ∃ pre a post, auth = pre ++ a :: 58 :: post ∧ a ≠ 10 := by
  constructor
  · intro h
    induction auth with
    | nil => simp [validSpec] at h
    | cons a rest ih =>
      cases rest with
      | nil => simp [validSpec] at h
      | cons b rest' =>
        simp only [validSpec, Bool.or_eq_true, Bool.and_eq_true, beq_iff_eq, bne_iff_ne, ne_eq] at h
        rcases h with ⟨rfl, ha⟩ | h
        · exact ⟨[], a, rest', rfl, ha⟩
        · obtain ⟨pre, x, post, heq, hx⟩ := ih h
          exact ⟨a :: pre, x, post, by simp [heq], hx⟩
  · rintro ⟨pre, a, post, rfl, ha⟩
    induction pre with
    | nil => simp [validSpec, ha]
    | cons p ps ih =>
      cases ps with
      | nil => simp [validSpec, ha]
      | cons q qs => simp only [List.cons_append, validSpec]; simp only [List.cons_append] at ih; simp [ih]

/-- **what the upstream proxy receives is the configured credential**: for a valid specification of Unicode scalar
    values, `parse_upstream_auth` yields `Basic <token>` whose token decodes — with the transcribed `a2b_base64` and
    UTF-8 decoder, no library hypothesis — to exactly the configured `upstream_auth` text; an invalid specification is
    refused. -/
theorem upstream_value_decodes (auth : CText) (hsc : ∀ c ∈ auth, MitmVerif.Props.C20.Scalar c) :
    (validSpec auth = true →
      ∃ tok, upstreamAuthValue auth = some (strText "Basic " ++ tok) ∧ decodeCredStd tok = some auth) ∧
    (validSpec auth = false → upstreamAuthValue auth = none) := by
  constructor
  · intro hv
    exact ⟨b2a (utf8enc auth), by simp [upstreamAuthValue, hv], MitmVerif.Props.C20.decodeCredStd_b2a auth hsc⟩
  · intro hv; simp [upstreamAuthValue, hv]

example : upstreamAuthValue (strText "u:p") = some (strText "Basic dTpw") ∧ upstreamAuthValue (strText ":p") = none ∧
    upstreamAuthValue (strText "a\n:p") = none ∧ validSpec (strText "x\ny:z") = true := by decide +kernel

end Credential

/-! ### the order of the default addon chain -/

/-- position of an addon in `mitmproxy.addons.default_addons()` (regenerated from the source on every run) -/
def addonIdx (name : String) : Option Nat :=
  let l := MitmVerif.Gen.C24.addonOrder
  if l.contains name then some (l.idxOf name) else none

/-- both addons are in the chain and the first runs before the second -/
def addonBefore (a b : String) : Bool :=
  match addonIdx a, addonIdx b with
  | some i, some j => decide (i < j)
  | _, _ => false

/-- **the order the models assume is the order in the source**: hooks run in list order, and the models compose the
    addons as ProxyAuth → (ScriptLoader, MapRemote, ModifyHeaders: user rewrites) → UpstreamAuth. ProxyAuth must see the
    CLIENT's credential header before UpstreamAuth writes mitmproxy's own into the same field; UpstreamAuth's `request`
    hook must run after every rewrite it is meant to react to. -/
theorem addon_order_as_assumed :
    addonBefore "ProxyAuth" "UpstreamAuth" = true ∧ addonBefore "ScriptLoader" "UpstreamAuth" = true ∧
    addonBefore "MapRemote" "UpstreamAuth" = true ∧ addonBefore "ModifyHeaders" "UpstreamAuth" = true ∧
    addonBefore "ProxyAuth" "NextLayer" = true := by
  decide +kernel

/-! ## audit round 6 (cross-audit): further non-vacuity witnesses, evaluated by the kernel -/

-- `replay_creds_confined`: there ARE replay writes that carry the credential (upstream: to the proxy; reverse: only to the target)
example : replayWrites true .upstream false false = [⟨.proxy, .request, false, some .proxyAuthorization⟩] ∧
    replayWrites true .reverse false true = [⟨.reverseTarget, .request, false, some .authorization⟩] ∧
    replayWrites true .reverse false false = [⟨.originDirect, .request, false, none⟩] ∧
    replayWrites true .regular true false = [⟨.originDirect, .request, true, none⟩] := by decide +kernel

-- `transparent_dest_ignores_host`: its hypothesis holds in a reachable state (reverse mode, fresh connection; and inside a
-- client tunnel in upstream mode), and the two requests really name different hosts / schemes
example : (Mode.reverse.isHttpProxy && (Route.CState.init .reverse).phase == .outer) = false ∧
    (Route.rstep true .reverse false (Route.CState.init .reverse) (.req 7 80 false)).2 =
      (Route.rstep true .reverse false (Route.CState.init .reverse) (.req 9 443 true)).2 ∧
    (Route.rstep true .reverse false (Route.CState.init .reverse) (.req 7 80 false)).2.writes =
      [⟨.request, some .authorization⟩] := by decide +kernel

-- `scheme_change_uses_other_connection`: both hypotheses `conn = some c` hold together after a non-empty history
-- (the http connection to host 1 port 80 exists already) and the two connections differ
example :
    let s := (Route.rstep true .upstream false (Route.CState.init .upstream) (.req 1 80 false)).1
    (Route.rstep true .upstream false s (.req 1 80 false)).2.conn.map (·.idx) = some 0 ∧
    (Route.rstep true .upstream false s (.req 1 80 true)).2.conn.map (·.idx) = some 1 ∧
    (Route.rstep true .upstream false s (.req 1 80 true)).2.writes =
      [⟨.connect, some .proxyAuthorization⟩, ⟨.request, none⟩] := by decide +kernel

-- `transparent_histories_ignore_hosts`: two different histories (other hosts, ports, schemes, CONNECT targets) with the
-- same erased form, on reverse / transparent connections, and the common result is not trivial
example :
    let modes : Nat → Mode := fun c => if c = 0 then .reverse else .transparent
    let es1 : List (Nat × Bool × Route.REv) := [(0, true, .req 7 80 false), (1, true, .req 7 80 false), (1, false, .connect 5 443), (0, true, .drop), (0, true, .req 7 80 false)]
    let es2 : List (Nat × Bool × Route.REv) := [(0, true, .req 9 8443 false), (1, true, .req 2 81 false), (1, false, .connect 6 80), (0, true, .drop), (0, true, .req 3 1 false)]
    es1 ≠ es2 ∧
    es1.map (fun x => (x.1, x.2.1, evOf x.2.2)) = es2.map (fun x => (x.1, x.2.1, evOf x.2.2)) ∧
    Route.rrunVar modes (Route.RState.init modes) es1 = Route.rrunVar modes (Route.RState.init modes) es2 ∧
    (Route.rrunVar modes (Route.RState.init modes) es1).map (fun x => (x.2.kind, x.2.writes)) =
      [(.response, [⟨.request, some .authorization⟩]), (.response, [⟨.request, none⟩]), (.invalid, []), (.noop, []),
       (.response, [⟨.request, some .authorization⟩])] := by decide +kernel

end MitmVerif.Props.C24
