/-
  C25 — DNS wire encoding round-trips and decoding is total: property theorems.
  (model: Model/C25.lean; shared lemmas: Lemmas/C25.lean, Lemmas/C25Msg.lean)
-/
import MitmVerif.Lemmas.C25Msg
import MitmVerif.Lemmas.C25Loop
import MitmVerif.Lemmas.C25Matched
set_option linter.unusedVariables false
set_option linter.unusedSimpArgs false
namespace MitmVerif.Props.C25
open MitmVerif MitmVerif.C25

/-! ### concrete evaluations by the kernel (kept first: they check much faster here) -/

/-- the witness of F-C25a: SRV data `c00c c02b 00` is shorter than the 6 fixed bytes of its layout -/
def witnessF25a : Bytes :=
  [0x00,0x01,0x81,0x80,0x00,0x01,0x00,0x01,0x00,0x00,0x00,0x00, 0x04,0x61,0x62,0x63,0x64,0x00, 0x00,0x21,0x00,0x01,
   0xc0,0x0c, 0x00,0x21,0x00,0x01, 0x00,0x00,0x00,0x3c, 0x00,0x05, 0xc0,0x0c,0xc0,0x2b,0x00]

private theorem witnessF25a_unstable : ∃ m, unpack noIdna witnessF25a = some m ∧
    ∀ b', pack noIdna m = some b' → unpack noIdna b' ≠ some m := by decide +kernel

/-- the witness of F-C25b: question abcd CNAME, answer with CNAME data `99 c0 0c` (does not match the CNAME layout) -/
def witnessF25b : Msg :=
  { id := 1, query := false, opCode := 0, aa := false, tc := false, rd := true, ra := true, reserved := 0, rcode := 0,
    questions := [⟨[0x61,0x62,0x63,0x64], 5, 1⟩], answers := [⟨[0x61,0x62,0x63,0x64], 5, 1, 60, [0x99, 0xc0, 0x0c]⟩],
    authorities := [], additionals := [] }

def witnessF25bOk : Bool :=
  match pack noIdna witnessF25b with
  | none => false
  | some b => match unpack noIdna b with
    | none => false
    | some m' => decide (m' ≠ witnessF25b) && !rdataPlain 5 [0x99, 0xc0, 0x0c]

private theorem witnessF25b_eval : witnessF25bOk = true := by decide +kernel

/-- the witness of F-C25c: as `witnessF25a` with SRV data `c00c c02c 00` -/
def witnessF25c : Bytes :=
  [0x00,0x01,0x81,0x80,0x00,0x01,0x00,0x01,0x00,0x00,0x00,0x00, 0x04,0x61,0x62,0x63,0x64,0x00, 0x00,0x21,0x00,0x01,
   0xc0,0x0c, 0x00,0x21,0x00,0x01, 0x00,0x00,0x00,0x3c, 0x00,0x05, 0xc0,0x0c,0xc0,0x2c,0x00]

private theorem witnessF25c_rejected : ∃ m, unpack noIdna witnessF25c = some m ∧
    ∀ b', pack noIdna m = some b' → unpack noIdna b' = none := by decide +kernel

/-! ### non-vacuity -/

/-- example.com. TXT "\x02\xc0\x0c" and MX with preference 0xC00C: the former defect witnesses are well-formed … -/
def exampleMsg : Msg :=
  { id := 0xBEEF, query := false, opCode := 0, aa := true, tc := false, rd := true, ra := true, reserved := 5, rcode := 3,
    questions := [⟨[0x65, 0x78, 0x61, 0x6d, 0x70, 0x6c, 0x65, 0x2e, 0x63, 0x6f, 0x6d], 16, 1⟩],
    answers := [⟨[0x65, 0x78, 0x61, 0x6d, 0x70, 0x6c, 0x65, 0x2e, 0x63, 0x6f, 0x6d], 16, 1, 4294967295, [0x02, 0xc0, 0x0c]⟩,
                ⟨[0x4d, 0x61, 0x69, 0x6c, 0x2e, 0x65, 0x78, 0x61, 0x6d, 0x70, 0x6c, 0x65, 0x2e, 0x63, 0x6f, 0x6d], 15, 1, 60, [0xc0, 0x0c, 0x04, 0x6d, 0x61, 0x69, 0x6c, 0x00]⟩],
    authorities := [], additionals := [⟨[], 41, 4096, 0, []⟩] }

-- … and round-trip (computed by the kernel on the model)
example : (pack noIdna exampleMsg).bind (unpack noIdna) = some exampleMsg := by decide +kernel
-- the decoder rejects things: truncated header, self-pointing name, trailing byte
example : unpack noIdna [0, 1, 2] = none := by decide +kernel
example : unpack noIdna [0,1,1,0,0,1,0,0,0,0,0,0, 0xc0,0x0c, 0,1,0,1] = none := by decide +kernel
example : unpack noIdna [0,1,1,0,0,1,0,0,0,0,0,0, 0, 0,1,0,1, 0xff] = none := by decide +kernel
-- compressed names are expanded (SOA-style record with two pointers, serial 0xC00CC00C kept)
example : (unpack noIdna [0,1,0x81,0x80,0,1,0,1,0,0,0,0, 1,0x61,0, 0,6,0,1, 0xc0,0x0c, 0,6,0,1, 0,0,0,9, 0,8,
    0xc0,0x0c, 0xc0,0x0c, 0xc0,0x0c,0xc0,0x0c]).map (fun m => m.answers.map (·.data)) =
    some [[1,0x61,0, 1,0x61,0, 0xc0,0x0c,0xc0,0x0c]] := by decide +kernel
-- the guard of `reencode_stable_partial` is satisfiable and not trivial
example : rdataPlain 15 [0xc0, 0x0c, 0x04, 0x6d, 0x61, 0x69, 0x6c, 0x00] = true ∧ rdataPlain 15 [0, 10, 0xc0, 0x0c] = false ∧
    rdataPlain 16 [0x02, 0xc0, 0x0c] = true := by decide +kernel

-- TXT (16), A (1), AAAA (28), HINFO (13), OPT (41), HTTPS (65) are opaque; MX, SOA, SRV are not
example : layoutOf 16 = none ∧ layoutOf 1 = none ∧ layoutOf 28 = none ∧ layoutOf 13 = none ∧ layoutOf 41 = none ∧
    layoutOf 65 = none ∧ layoutOf 15 ≠ none ∧ layoutOf 6 ≠ none ∧ layoutOf 33 ≠ none := by decide

/-! ### the theorems -/

private theorem packList_wf {α} {f : α → Option Bytes} : ∀ xs : List α, (∀ x ∈ xs, ∃ w, f x = some w) →
    ∃ w, packList f xs = some w := by
  intro xs
  induction xs with
  | nil => intro _; exact ⟨[], rfl⟩
  | cons x xs ih =>
    intro h
    obtain ⟨a, ha⟩ := h x (by simp)
    obtain ⟨b, hb⟩ := ih (fun y hy => h y (by simp [hy]))
    exact ⟨a ++ b, by simp [packList, ha, hb]⟩

private theorem packQuestion_wf {I : Idna} {q : Question} (h : WFQuestion I q) : ∃ w, packQuestion I q = some w := by
  obtain ⟨hc, ht, hcl⟩ := h
  obtain ⟨ls, ps, hp, _⟩ := packName_canon hc
  simp [packQuestion, hp, putU16, ht, hcl]

private theorem packRR_wf {I : Idna} {r : RR} (h : WFRR I r) : ∃ w, packRR I r = some w := by
  obtain ⟨hc, ht, hcl, httl, hdl, _⟩ := h
  obtain ⟨ls, ps, hp, _⟩ := packName_canon hc
  simp [packRR, hp, putU16, putU32, ht, hcl, httl, hdl]

private theorem putU16_ok {n : Nat} (h : n < 65536) : ∃ b, putU16 n = some b := by simp [putU16, h]

private theorem flags_lt (m : Msg) (h1 : m.opCode < 16) (h2 : m.reserved < 8) (h3 : m.rcode < 16) : flagsOf m < 65536 := by
  unfold flagsOf b2n
  cases m.query <;> cases m.aa <;> cases m.tc <;> cases m.rd <;> cases m.ra <;> simp <;> omega

private theorem flags_decode (m : Msg) (h1 : m.opCode < 16) (h2 : m.reserved < 8) (h3 : m.rcode < 16) :
    decide (flagsOf m / 32768 % 2 = 0) = m.query ∧ flagsOf m / 2048 % 16 = m.opCode ∧
    decide (flagsOf m / 1024 % 2 = 1) = m.aa ∧ decide (flagsOf m / 512 % 2 = 1) = m.tc ∧
    decide (flagsOf m / 256 % 2 = 1) = m.rd ∧ decide (flagsOf m / 128 % 2 = 1) = m.ra ∧
    flagsOf m / 16 % 8 = m.reserved ∧ flagsOf m % 16 = m.rcode := by
  unfold flagsOf b2n
  cases m.query <;> cases m.aa <;> cases m.tc <;> cases m.rd <;> cases m.ra <;> simp <;> omega

/-- **C25 (round trip).** Every well-formed message — all header fields, types, classes and TTLs over their full wire
    ranges, IDNA-canonical names, arbitrary record data (for a type whose data is defined to hold domain names: no
    compression pointer in those fields) — encodes, and the bytes decode to the same message. For every idna codec. -/
theorem roundtrip (I : Idna) (m : Msg) (h : WellFormed I m) :
    ∃ b, pack I m = some b ∧ unpack I b = some m := by
  obtain ⟨hid, hop, hres, hrc, hnq, hnan, hnns, hnar, hq, han, hns, har⟩ := h
  obtain ⟨qsb, hqs⟩ := packList_wf m.questions (fun q hq' => packQuestion_wf (hq q hq'))
  obtain ⟨anb, hanb⟩ := packList_wf m.answers (fun r hr => packRR_wf (han r hr))
  obtain ⟨nsb, hnsb⟩ := packList_wf m.authorities (fun r hr => packRR_wf (hns r hr))
  obtain ⟨arb, harb⟩ := packList_wf m.additionals (fun r hr => packRR_wf (har r hr))
  have hrs : packList (packRR I) (m.answers ++ m.authorities ++ m.additionals) = some (anb ++ nsb ++ arb) :=
    packList_append _ _ _ _ (packList_append _ _ _ _ hanb hnsb) harb
  have hfl := flags_lt m hop hres hrc
  obtain ⟨f1, f2, f3, f4, f5, f6, f7, f8⟩ := flags_decode m hop hres hrc
  -- the six header words
  obtain ⟨a, ha⟩ := putU16_ok (n := m.id) hid
  obtain ⟨b, hb⟩ := putU16_ok (n := (flagsOf m)) hfl
  obtain ⟨c, hc⟩ := putU16_ok (n := m.questions.length) hnq
  obtain ⟨d, hd⟩ := putU16_ok (n := m.answers.length) hnan
  obtain ⟨e, he⟩ := putU16_ok (n := m.authorities.length) hnns
  obtain ⟨f, hf⟩ := putU16_ok (n := m.additionals.length) hnar
  have hguard : ¬ (65535 < m.id ∨ 15 < m.opCode ∨ 7 < m.reserved ∨ 15 < m.rcode) := by omega
  refine ⟨a ++ b ++ c ++ d ++ e ++ f ++ qsb ++ (anb ++ nsb ++ arb), ?_, ?_⟩
  · simp only [pack, hguard, if_false, ha, hb, hc, hd, he, hf, hqs, hrs]
  · -- positions
    let buf := a ++ b ++ c ++ d ++ e ++ f ++ qsb ++ (anb ++ nsb ++ arb)
    have h0 : buf.drop 0 = a ++ (b ++ c ++ d ++ e ++ f ++ qsb ++ (anb ++ nsb ++ arb)) := by simp [buf]
    have h2 : buf.drop 2 = b ++ (c ++ d ++ e ++ f ++ qsb ++ (anb ++ nsb ++ arb)) := by
      have := drop_of_drop_append h0; rw [putU16_len ha] at this; simpa using this
    have h4 : buf.drop 4 = c ++ (d ++ e ++ f ++ qsb ++ (anb ++ nsb ++ arb)) := by
      have := drop_of_drop_append h2; rw [putU16_len hb] at this; simpa using this
    have h6 : buf.drop 6 = d ++ (e ++ f ++ qsb ++ (anb ++ nsb ++ arb)) := by
      have := drop_of_drop_append h4; rw [putU16_len hc] at this; simpa using this
    have h8 : buf.drop 8 = e ++ (f ++ qsb ++ (anb ++ nsb ++ arb)) := by
      have := drop_of_drop_append h6; rw [putU16_len hd] at this; simpa using this
    have h10 : buf.drop 10 = f ++ (qsb ++ (anb ++ nsb ++ arb)) := by
      have := drop_of_drop_append h8; rw [putU16_len he] at this; simpa using this
    have h12 : buf.drop 12 = qsb ++ (anb ++ nsb ++ arb) := by
      have := drop_of_drop_append h10; rw [putU16_len hf] at this; simpa using this
    obtain ⟨c1, hu1, hk1⟩ := unpackQuestions_packed (I := I) (buf := buf) m.questions 12 [] qsb (anb ++ nsb ++ arb) hqs hq h12
      (by intro k hk; simp [keys] at hk)
    have h12a : buf.drop (12 + qsb.length) = anb ++ (nsb ++ arb) := by
      have := drop_of_drop_append h12; simpa using this
    obtain ⟨c2, hu2, hk2⟩ := unpackRRs_packed (I := I) (buf := buf) m.answers (12 + qsb.length) c1 anb (nsb ++ arb) hanb han h12a hk1
    have h12b : buf.drop (12 + qsb.length + anb.length) = nsb ++ arb := drop_of_drop_append h12a
    obtain ⟨c3, hu3, hk3⟩ := unpackRRs_packed (I := I) (buf := buf) m.authorities _ c2 nsb arb hnsb hns h12b hk2
    have h12c : buf.drop (12 + qsb.length + anb.length + nsb.length) = arb ++ [] := by
      have := drop_of_drop_append h12b; simpa using this
    obtain ⟨c4, hu4, hk4⟩ := unpackRRs_packed (I := I) (buf := buf) m.additionals _ c3 arb [] harb har h12c hk3
    have hlen : 12 + qsb.length + anb.length + nsb.length + arb.length = buf.length := by
      simp [buf, putU16_len ha, putU16_len hb, putU16_len hc, putU16_len hd, putU16_len he, putU16_len hf]; omega
    show unpack I buf = some m
    simp only [unpack, unpackFrom, getU16_put ha h0, getU16_put hb h2, getU16_put hc h4, getU16_put hd h6,
      getU16_put he h8, getU16_put hf h10, hu1, hu2, hu3, hu4, hlen, if_true, f1, f2, f3, f4, f5, f6, f7, f8]

/-- **C25 (round trip) fails outside `rdataPlain`** (F-C25b): record data of a name-bearing type that does not match the
    type's layout and holds a resolvable pointer-like byte pair is "arbitrary record data", the message encodes, but
    decodes to different data. `roundtrip`'s hypothesis `rdataPlain` excludes exactly such data and data with a
    compression pointer in a name field. -/
theorem roundtrip_fallback_counterexample :
    ∃ m b m', pack noIdna m = some b ∧ unpack noIdna b = some m' ∧ m' ≠ m := by
  have h := witnessF25b_eval
  unfold witnessF25bOk at h
  cases hp : pack noIdna witnessF25b with
  | none => simp [hp] at h
  | some b =>
    cases hu : unpack noIdna b with
    | none => simp [hp, hu] at h
    | some m' =>
      simp [hp, hu] at h
      exact ⟨witnessF25b, b, m', hp, hu, h.1⟩

/-- all resource records of a message -/
def records (m : Msg) : List RR := m.answers ++ m.authorities ++ m.additionals

/-- **C25 (re-encoding is stable) — full statement.** Not a theorem of the current code: see
    `reencode_stable_counterexample` (finding F-C25a). -/
def ReencodeStable (I : Idna) : Prop :=
  ∀ b m, unpack I b = some m → ∃ b', pack I m = some b' ∧ unpack I b' = some m

/-- **C25 (re-encoding is stable), partial.** Whatever bytes decode to a message (compressed names, pointer chains,
    any idna codec): the message encodes again and those bytes decode to the same message — provided no record of a
    name-bearing type fell back to the heuristic expansion, i.e. every record's data is `rdataPlain`
    (always true for TXT, A, AAAA and every type without a name-bearing layout). The guard excludes exactly the
    class of finding F-C25a. -/
theorem reencode_stable_partial (I : Idna) (b : Bytes) (m : Msg) (h : unpack I b = some m)
    (hplain : ∀ r ∈ records m, rdataPlain r.type r.data = true) :
    ∃ b', pack I m = some b' ∧ unpack I b' = some m :=
  roundtrip I m (unpack_wellFormed h hplain)

/-- **C25 (re-encoding is stable) fails on the current code** (F-C25a): the decoded message encodes, but the
    encoding decodes to a different message. -/
theorem reencode_stable_counterexample : ¬ ReencodeStable noIdna := by
  intro h
  obtain ⟨m, hm, hne⟩ := witnessF25a_unstable
  obtain ⟨b', hp, hu⟩ := h _ m hm
  exact hne b' hp hu

/-- … and in the form of finding F-C25c: the re-encoding of a decoded message can even be a parse error -/
theorem reencode_rejected_counterexample : ∃ b m, unpack noIdna b = some m ∧ ∀ b', pack noIdna m = some b' → unpack noIdna b' = none := by
  obtain ⟨m, h1, h2⟩ := witnessF25c_rejected
  exact ⟨witnessF25c, m, h1, h2⟩

/-- **C25 (decoding is total).** `unpack` is a total function from byte strings to "a message or a parse error".
    The substance is that Lean accepted the definitions: every loop of the decoder is structural or well-founded on
    `countFree` (see `pointer_chase_measure`), without fuel. -/
theorem unpack_total (I : Idna) (b : Bytes) : unpack I b = none ∨ ∃ m, unpack I b = some m := by
  cases h : unpack I b
  · exact Or.inl rfl
  · exact Or.inr ⟨_, rfl⟩

/-- the termination measure of both pointer-chasing loops (`unpack_from_with_compression`'s cache, `_expand_name`'s
    `seen` set): following a pointer from an offset inside the buffer that was not visited before strictly decreases
    the number of unvisited offsets -/
theorem pointer_chase_measure (buf : Bytes) (off : Nat) (visited : List Nat) (h1 : off < buf.length)
    (h2 : visited.contains off = false) :
    countFree buf.length (off :: visited) < countFree buf.length visited :=
  countFree_lt _ _ _ h1 h2

/-- a pointer that leads back to a name that is still being unpacked is a parse error (never a hang) -/
theorem pointer_loop_is_error (I : Idna) (buf : Bytes) (off : Nat) (cache : Cache) (depth : Nat)
    (h : cache.lookup off = some none) : unpackName I buf off cache depth = none :=
  unpackName_loop h

/-- the same for record data: an offset seen before ends the expansion with an error -/
theorem expand_loop_is_error (buf : Bytes) (off : Nat) (seen : List Nat) (h : seen.contains off = true) :
    expandName buf off seen = none :=
  expandName_seen h

/-- **C25/C26 (opaque types byte for byte).** A record whose type has no name-bearing layout (TXT, A, AAAA, unknown
    types …) gets exactly the bytes of its RDATA, whatever they look like. -/
theorem opaque_types_bytewise (buf : Bytes) (off len ty : Nat) (h : layoutOf ty = none) :
    rrData buf off len ty = some ((buf.drop off).take len) := by
  simp [rrData, h]

/-! ### round 3: ASCII names need nothing from the idna codec -/

private theorem asciiPart_good (I : Idna) (p : Text) (h : asciiPart p = true) :
    encPart I p = some p ∧ decLabel I p = some p := by
  simp only [asciiPart, Bool.and_eq_true, Bool.not_eq_true', decide_eq_true_eq, List.isEmpty_eq_false_iff] at h
  obtain ⟨⟨⟨⟨hne, hl⟩, ha⟩, hace⟩, hdot⟩ := h
  have hd : ¬ (46 : UInt8) ∈ p := by simpa using hdot
  have henc := encText_ascii_nodot I hne ha hd hl
  have hlen : ¬ (p.length = 0 ∨ 64 ≤ p.length) := by
    have : p.length ≠ 0 := by intro h0; exact hne (List.length_eq_zero_iff.mp h0)
    omega
  refine ⟨by simp only [encPart, henc, hlen, if_false], ?_⟩
  simp only [decLabel, decText, hace, Bool.false_eq_true, if_false, ha, if_true, henc, hdot]

/-- **C25 (ASCII names are canonical for every codec).** -/
theorem canon_of_ascii (I : Idna) (t : Text) (h : asciiName t = true) : CanonName I t := by
  simp only [asciiName, Bool.or_eq_true, List.isEmpty_iff, List.all_eq_true] at h
  rcases h with h | h
  · exact Or.inl h
  · exact Or.inr (fun p hp => ⟨p, asciiPart_good I p (h p hp)⟩)

/-- **C25 clause 1 — full statement** ("every well-formed DNS message (any IDNA-canonical names, types, classes, TTLs and
    record data bytes) encodes to bytes that decode to the same message"): every field in range, names canonical, record data
    ARBITRARY (`WellFormed0`: no condition on the data). Not a theorem of the current code: `roundtrip_all_counterexample`
    (finding F-C25b, and data holding a compression pointer in a name field, which no decoder can return unchanged).
    What is proved is `roundtrip` = `roundtrip_partial`, under the additional guard `rdataPlain` on every record. -/
def RoundtripAll (I : Idna) : Prop :=
  ∀ m, WellFormed0 I m → ∃ b, pack I m = some b ∧ unpack I b = some m

/-- `roundtrip` under its proper name: it is the PARTIAL form of `RoundtripAll` (guard: `WellFormed` = `WellFormed0` plus
    `rdataPlain` for every record, excluding exactly data with a pointer in a name field and the class of F-C25b). -/
theorem roundtrip_partial (I : Idna) (m : Msg) (h0 : WellFormed0 I m)
    (hplain : ∀ r ∈ m.answers ++ m.authorities ++ m.additionals, rdataPlain r.type r.data = true) :
    ∃ b, pack I m = some b ∧ unpack I b = some m :=
  roundtrip I m (h0.plain hplain)

/-- `RoundtripAll` fails on the witness of F-C25b (CNAME data `99 c0 0c`: in range, canonical names, but not `rdataPlain`) -/
theorem roundtrip_all_counterexample : ¬ RoundtripAll noIdna := by
  intro h
  have hwf : WellFormed0 noIdna witnessF25b := by
    have hn : CanonName noIdna [0x61, 0x62, 0x63, 0x64] := canon_of_ascii noIdna _ (by decide)
    refine ⟨by decide, by decide, by decide, by decide, by decide, by decide, by decide, by decide, ?_, ?_, ?_, ?_⟩
    · intro q hq
      have : q = ⟨[0x61, 0x62, 0x63, 0x64], 5, 1⟩ := by simpa [witnessF25b] using hq
      subst this; exact ⟨hn, by decide, by decide⟩
    · intro r hr
      have : r = ⟨[0x61, 0x62, 0x63, 0x64], 5, 1, 60, [0x99, 0xc0, 0x0c]⟩ := by simpa [witnessF25b] using hr
      subst this; exact ⟨hn, by decide, by decide, by decide, by decide⟩
    · intro r hr; cases hr
    · intro r hr; cases hr
  obtain ⟨b, hp, hu⟩ := h witnessF25b hwf
  have hev := witnessF25b_eval
  unfold witnessF25bOk at hev
  simp [hp, hu] at hev

/-- **C25 (round trip, ASCII names, outright).** For messages whose names consist of ASCII labels (the fast path that
    `str.encode("idna")`/`bytes.decode("idna")` take for them is transcribed in the model) the round trip holds for
    every instantiation of the idna parameter: nothing about the codec is assumed. Only names with non-ASCII or
    `xn--` labels remain relative to the codec (`roundtrip` with `CanonName I`). -/
theorem roundtrip_ascii (I : Idna) (m : Msg) (h : wellFormedAscii m = true) :
    ∃ b, pack I m = some b ∧ unpack I b = some m := by
  apply roundtrip
  simp only [wellFormedAscii, Bool.and_eq_true, decide_eq_true_eq, List.all_eq_true, records] at h
  obtain ⟨⟨⟨⟨⟨⟨⟨⟨⟨h1, h2⟩, h3⟩, h4⟩, h5⟩, h6⟩, h7⟩, h8⟩, hq⟩, hr⟩ := h
  have hrr : ∀ r ∈ m.answers ++ m.authorities ++ m.additionals, WFRR I r := by
    intro r hr'
    obtain ⟨⟨⟨⟨⟨a1, a2⟩, a3⟩, a4⟩, a5⟩, a6⟩ := hr r hr'
    exact ⟨canon_of_ascii I _ a1, a2, a3, a4, a5, a6⟩
  refine ⟨h1, h2, h3, h4, h5, h6, h7, h8, ?_, ?_, ?_, ?_⟩
  · intro q hq'
    obtain ⟨⟨a1, a2⟩, a3⟩ := hq q hq'
    exact ⟨canon_of_ascii I _ a1, a2, a3⟩
  · exact fun r hr' => hrr r (by simp [hr'])
  · exact fun r hr' => hrr r (by simp [hr'])
  · exact fun r hr' => hrr r (by simp [hr'])

-- the example message with the former defect witnesses is covered by the codec-free predicate
example : wellFormedAscii exampleMsg = true := by decide +kernel
-- the instrumented decoder flags the F-C25a witness and passes a compressed SOA-style record
example : (unpackT noIdna witnessF25a).map (·.2) = some false := by decide +kernel
example : (unpackT noIdna [0,1,0x81,0x80,0,1,0,1,0,0,0,0, 1,0x61,0, 0,6,0,1, 0xc0,0x0c, 0,6,0,1, 0,0,0,9, 0,8,
    0xc0,0x0c, 0xc0,0x0c, 0xc0,0x0c,0xc0,0x0c]).map (·.2) = some true := by decide +kernel
-- ... and the predicate is not trivial: an IDN label and a 64-byte label are outside it
example : asciiName [0x62, 0xc3, 0xbc] = false ∧ asciiName (List.replicate 64 0x61) = false ∧
    asciiName [0x78, 0x6e, 0x2d, 0x2d, 0x61] = false ∧ asciiName [0x61, 0x2e, 0x2e, 0x62] = false := by decide +kernel

/-! ### round 3: every compression-pointer cycle is rejected, in every byte string -/

/-- **C25 (pointer cycles are parse errors — owner and question names).** `Reaches buf off off`: following the
    compression pointers from `off` leads back to `off` (through any number of names, with or without labels).
    For every byte string, every such offset and every cache that can arise during `unpack` (`CacheTerm`: see
    `cache_stays_sound`), `unpack_from_with_compression` returns a parse error — it neither loops nor returns a name. -/
theorem pointer_cycle_is_error (I : Idna) (buf : Bytes) (off : Nat) (cache : Cache) (depth : Nat)
    (hc : CacheTerm buf cache) (hcyc : Reaches buf off off) : unpackName I buf off cache depth = none := by
  cases h : unpackName I buf off cache depth with
  | none => rfl
  | some x =>
    obtain ⟨r, c'⟩ := x
    exact absurd hcyc (unpackName_term I buf _ off cache depth (Nat.le_refl _) hc r c' h).1.acyclic

/-- the invariant `CacheTerm` holds for the empty cache `unpack` starts with and is kept by every successful call, so it
    holds for every cache that occurs while a message is decoded -/
theorem cache_stays_sound (I : Idna) (buf : Bytes) (off : Nat) (cache : Cache) (depth : Nat) (r : Text × Nat) (c' : Cache)
    (hc : CacheTerm buf cache) (h : unpackName I buf off cache depth = some (r, c')) : CacheTerm buf c' :=
  (unpackName_term I buf _ off cache depth (Nat.le_refl _) hc r c' h).2

/-- **C25 (pointer cycles are parse errors — names inside record data).** The same for `_expand_name`, whatever its
    `seen` set holds: a cycle is never expanded and never loops. -/
theorem expand_cycle_is_error (buf : Bytes) (off : Nat) (seen : List Nat) (hcyc : Reaches buf off off) :
    expandName buf off seen = none := by
  cases h : expandName buf off seen with
  | none => rfl
  | some e => exact absurd hcyc (expandName_term buf _ off seen (Nat.le_refl _) e h).acyclic

-- a pointer that points at itself, and two pointers that point at each other, are cycles
example : Reaches [0xc0, 0x00] 0 0 := .one ⟨[], 2, by decide +kernel⟩
example : Reaches [0xc0, 0x02, 0xc0, 0x00] 0 0 :=
  .step (b := 2) ⟨[], 2, by decide +kernel⟩ (.one ⟨[], 2, by decide +kernel⟩)

/-! ### round 5: the guard of `reencode_stable_partial` follows from the input -/

/-- **C25 (expansion by layout yields plain data).** Record data that matches the layout of its type (`rrMatched`:
    `expand_record_data` never reaches its heuristic fallback) comes out with every name uncompressed and nothing
    else touched: it is `rdataPlain`. -/
theorem expanded_by_layout_is_plain (buf : Bytes) (off len ty : Nat) (d : Bytes) (hm : rrMatched buf off len ty = true)
    (h : rrData buf off len ty = some d) : rdataPlain ty d = true :=
  rrData_matched_plain hm h

/-- the instrumented decoder `unpackT` is `unpack` plus a flag -/
theorem unpackT_erases (I : Idna) (b : Bytes) (m : Msg) (ok : Bool) (h : unpackT I b = some (m, ok)) : unpack I b = some m :=
  (unpackT_spec h).1

/-- **C25 (re-encoding is stable whenever no record fell back to the heuristic).** The hypothesis is about the decode of
    the input (`unpackT` reports whether every record matched the layout of its type), no longer about the decoded
    record data: for every byte string — compressed names, forward pointers, any idna codec — whose records all match
    their layouts, the decoded message re-encodes and decodes to itself. Together with F-C25a/b/c this is the exact
    boundary: the only inputs for which the last clause of C25 can fail are those with a record in the fallback. -/
theorem reencode_stable_matched (I : Idna) (b : Bytes) (m : Msg) (h : unpackT I b = some (m, true)) :
    ∃ b', pack I m = some b' ∧ unpack I b' = some m := by
  obtain ⟨hu, hp⟩ := unpackT_spec h
  exact reencode_stable_partial I b m hu (by simpa [records] using hp rfl)

/-- **C25 (a cyclic first name rejects the whole message).** Input-level form of `pointer_cycle_is_error` without any
    cache hypothesis: a message that announces at least one question and whose first name (offset 12) lies on a
    compression-pointer cycle is a parse error. -/
theorem cyclic_first_name_is_rejected (I : Idna) (b : Bytes) (nq : Nat) (hq : getU16 b 4 = some (nq + 1))
    (hcyc : Reaches b 12 12) : unpack I b = none := by
  have hn : unpackName I b 12 [] 0 = none := pointer_cycle_is_error I b 12 [] 0 (CacheTerm.nil b) hcyc
  unfold unpack unpackFrom
  cases h0 : getU16 b 0 <;> cases h2 : getU16 b 2 <;> cases h6 : getU16 b 6 <;> cases h8 : getU16 b 8 <;>
    cases h10 : getU16 b 10 <;> simp [hq, unpackQuestions, hn]

-- header with qdcount 1 followed by a self-pointing name
example : unpack noIdna [0,1,1,0,0,1,0,0,0,0,0,0, 0xc0,0x0c, 0,1,0,1] = none :=
  cyclic_first_name_is_rejected noIdna _ 0 (by decide +kernel) (.one ⟨[], 2, by decide +kernel⟩)

/-! ### audit round 6 (cross-audit by the C22/C23 builder): further non-vacuity witnesses -/

/-- a codec table that knows one IDN label: "bü" <-> "xn--b-hha" (bytes only matter up to the table) -/
def auditIdna : Idna :=
  tableIdna [([0x78,0x6e,0x2d,0x2d,0x62,0x2d,0x68,0x68,0x61], some [0x62,0xc3,0xbc])]
            [([0x62,0xc3,0xbc], some [0x78,0x6e,0x2d,0x2d,0x62,0x2d,0x68,0x68,0x61])] none

def auditIdnMsg : Msg :=
  { id := 7, query := true, opCode := 0, aa := false, tc := false, rd := true, ra := false, reserved := 0, rcode := 0,
    questions := [⟨[0x62,0xc3,0xbc,0x2e,0x64,0x65], 1, 1⟩], answers := [], authorities := [], additionals := [] }

-- `CanonName` (the hypothesis of `roundtrip` that depends on the codec parameter) holds for a name with a
-- non-ASCII label under a concrete codec, and the round trip computes: `roundtrip` is not only about ASCII names
example : CanonName auditIdna [0x62,0xc3,0xbc,0x2e,0x64,0x65] := by
  refine Or.inr ?_
  intro p hp
  have : p = [0x62,0xc3,0xbc] ∨ p = [0x64,0x65] := by
    have hs : splitDot [0x62,0xc3,0xbc,0x2e,0x64,0x65] = [[0x62,0xc3,0xbc],[0x64,0x65]] := by decide +kernel
    rw [hs] at hp; simpa using hp
  rcases this with rfl | rfl
  · exact ⟨[0x78,0x6e,0x2d,0x2d,0x62,0x2d,0x68,0x68,0x61], by decide +kernel⟩
  · exact ⟨[0x64,0x65], by decide +kernel⟩
example : (pack auditIdna auditIdnMsg).bind (unpack auditIdna) = some auditIdnMsg := by decide +kernel
-- `pointer_loop_is_error` / `expand_loop_is_error` / the cycle theorems on concrete buffers (two pointers pointing at each other)
example : unpackName noIdna [0xc0, 0x02, 0xc0, 0x00] 2 [(0, none)] 1 = some ((x, n), c) → False := by
  intro h
  have := pointer_cycle_is_error noIdna [0xc0, 0x02, 0xc0, 0x00] 2 [(0, none)] 1
    (CacheTerm.cons_none (CacheTerm.nil _) 0)
    (.step (b := 0) ⟨[], 2, by decide +kernel⟩ (.one ⟨[], 2, by decide +kernel⟩))
  rw [this] at h; cases h
example : unpackName noIdna [0xc0, 0x00] 0 [(0, none)] 0 = none := pointer_loop_is_error noIdna _ 0 _ 0 (by decide)
example : expandName [0xc0, 0x02, 0xc0, 0x00] 0 [] = none :=
  expand_cycle_is_error _ 0 [] (.step (b := 2) ⟨[], 2, by decide +kernel⟩ (.one ⟨[], 2, by decide +kernel⟩))
example : expandName [0xc0, 0x02, 0xc0, 0x00] 2 [2] = none := expand_loop_is_error _ 2 [2] (by decide)
example : countFree 4 [2, 0] < countFree 4 [0] := pointer_chase_measure [0xc0, 0x02, 0xc0, 0x00] 2 [0] (by decide) (by decide)
-- `reencode_stable_matched` applies to the compressed SOA-style input (conclusion obtained through the theorem)
example : ∃ m b', unpack noIdna [0,1,0x81,0x80,0,1,0,1,0,0,0,0, 1,0x61,0, 0,6,0,1, 0xc0,0x0c, 0,6,0,1, 0,0,0,9, 0,8,
    0xc0,0x0c, 0xc0,0x0c, 0xc0,0x0c,0xc0,0x0c] = some m ∧ pack noIdna m = some b' ∧ unpack noIdna b' = some m := by
  cases h : unpackT noIdna [0,1,0x81,0x80,0,1,0,1,0,0,0,0, 1,0x61,0, 0,6,0,1, 0xc0,0x0c, 0,6,0,1, 0,0,0,9, 0,8,
      0xc0,0x0c, 0xc0,0x0c, 0xc0,0x0c,0xc0,0x0c] with
  | none => exact absurd h (by decide +kernel)
  | some r =>
    obtain ⟨m, ok⟩ := r
    have hok : ok = true := by
      have : (unpackT noIdna [0,1,0x81,0x80,0,1,0,1,0,0,0,0, 1,0x61,0, 0,6,0,1, 0xc0,0x0c, 0,6,0,1, 0,0,0,9, 0,8,
        0xc0,0x0c, 0xc0,0x0c, 0xc0,0x0c,0xc0,0x0c]).map (·.2) = some true := by decide +kernel
      rw [h] at this; simpa using this
    subst hok
    obtain ⟨b', h1, h2⟩ := reencode_stable_matched noIdna _ m h
    exact ⟨m, b', unpackT_erases noIdna _ m true h, h1, h2⟩

end MitmVerif.Props.C25
