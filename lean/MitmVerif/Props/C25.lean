import MitmVerif.Model.C25
namespace MitmVerif.Props.C25
open MitmVerif MitmVerif.C25

/-- placeholder while the harness is brought up -/
theorem unpack_total (I : Idna) (b : Bytes) : unpack I b = none ∨ ∃ m, unpack I b = some m := by
  cases h : unpack I b
  · exact Or.inl rfl
  · exact Or.inr ⟨_, rfl⟩

end MitmVerif.Props.C25
