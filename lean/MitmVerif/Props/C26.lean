/-
  C26 — forwarded DNS messages keep their meaning: property theorems.
  (models: Model/C25.lean codec, Model/C26.lean DnsRef + layer; lemmas: Lemmas/C26.lean, Lemmas/C26Msg.lean)
-/
import MitmVerif.Lemmas.C26Msg
import MitmVerif.Lemmas.C26Hist
import MitmVerif.Lemmas.C26Live
import MitmVerif.Lemmas.C26Comp
import MitmVerif.Props.C25
import MitmVerif.Props.C27
set_option linter.unusedVariables false
set_option linter.unusedSimpArgs false
namespace MitmVerif.Props.C26
open MitmVerif MitmVerif.C25 MitmVerif.C26

/-! ### concrete evaluations by the kernel (non-vacuity; kept first, they check much faster here) -/

/-- a server-style compressed response: question a.io MX; answers: MX with preference 0xC00C and a compressed
    exchange name, TXT "\\x02\\xc0\\x0c" (pointer look-alike), CNAME to a compressed name -/
def exampleResponse : Bytes :=
  [0x12,0x34,0x81,0x80,0x0,0x1,0x0,0x3,0x0,0x0,0x0,0x0, 0x1,0x61,0x2,0x69,0x6f,0x0, 0x0,0xf,0x0,0x1,
   0xc0,0xc, 0x0,0xf,0x0,0x1, 0x0,0x0,0x0,0x3c, 0x0,0x7, 0xc0,0xc, 0x2,0x6d,0x78,0xc0,0xc,
   0xc0,0xc, 0x0,0x10,0x0,0x1, 0x0,0x0,0x0,0x3c, 0x0,0x3, 0x2,0xc0,0xc,
   0xc0,0xc, 0x0,0x5,0x0,0x1, 0xc0,0xc,0xc0,0xc, 0x0,0x4, 0x1,0x57,0xc0,0x24]

/-- the specification reads it, the proxy forwards one (uncompressed, longer) datagram, and the specification reads
    that datagram identically -/
def exampleForwardOk : Bool :=
  match forwardUdp noIdna exampleResponse with
  | .done [b'] false => (DnsRef.decode exampleResponse).isSome && decide (b' ≠ exampleResponse) &&
      decide (DnsRef.decode b' = DnsRef.decode exampleResponse)
  | _ => false

example : exampleForwardOk = true := by decide +kernel
example : liveCheck exampleResponse = true := by decide +kernel
-- www.a.io, then a.io (pointer to offset 4), then x.a.io (label + pointer)
example : cnames [] 0 [[[0x77,0x77,0x77],[0x61],[0x69,0x6f]], [[0x61],[0x69,0x6f]], [[0x78],[0x61],[0x69,0x6f]]] =
    [3,0x77,0x77,0x77,1,0x61,2,0x69,0x6f,0, 0xc0,4, 1,0x78,0xc0,4] := by decide +kernel
-- the specification rejects forward pointers and truncated records; the layer closes on a parse error
example : DnsRef.decode [0,1,1,0,0,1,0,0,0,0,0,0, 0xc0,0x0e, 0,1,0,1] = none := by decide +kernel
example : forwardUdp noIdna [0,1,1,0,0,1,0,0,0,0,0,0, 0xc0,0x0c, 0,1,0,1] = .done [] true := by decide +kernel
example : forwardTcp noIdna (frame [0,1,1,0,0,1,0,0,0,0,0,0, 1,0x61,0, 0,1,0,1]) =
    .done [frame [0,1,1,0,0,1,0,0,0,0,0,0, 1,0x61,0, 0,1,0,1]] false := by decide +kernel
-- a valid frame in front of a malformed one is forwarded, then the connection is closed
example : forwardTcp noIdna (frame [0,1,1,0,0,1,0,0,0,0,0,0, 1,0x61,0, 0,1,0,1] ++ frame [0xff]) =
    .done [frame [0,1,1,0,0,1,0,0,0,0,0,0, 1,0x61,0, 0,1,0,1]] true := by decide +kernel

/-- two queries, answered in the opposite order, all over TCP and cut into odd segments -/
def hq1 : Bytes := [0,1, 1,0, 0,1, 0,0, 0,0, 0,0, 1,0x61,0, 0,1, 0,1]
def hq2 : Bytes := [0,2, 1,0, 0,1, 0,0, 0,0, 0,0, 1,0x62,0, 0,16, 0,1]
def hr1 : Bytes := [0,1, 0x81,0x80, 0,1, 0,1, 0,0, 0,0, 1,0x61,0, 0,1, 0,1, 0xc0,0x0c, 0,1, 0,1, 0,0,0,60, 0,4, 192,0,2,1]
def hr2 : Bytes := [0,2, 0x81,0x80, 0,1, 0,1, 0,0, 0,0, 1,0x62,0, 0,16, 0,1, 0xc0,0x0c, 0,16, 0,1, 0,0,0,60, 0,3, 2,0xc0,0x0c]
def hEvents : List C27.Ev :=
  [.clientData (C27.frame hq1 ++ (C27.frame hq2).take 5), .clientData ((C27.frame hq2).drop 5),
   .serverData ((C27.frame hr2).take 1), .serverData ((C27.frame hr2).drop 1 ++ C27.frame hr1)]
def hCfg : C27.Cfg := ⟨noIdna, true, true⟩

/-- the frames this schedule delivers are the four messages, and the specification reads each forwarded frame as it
    reads the frame it was made from (replies come back in the server's order, compressed names expanded) -/
example : recvRun hCfg (C27.init [] []) hEvents = ([hq1, hq2], [hr2, hr1]) := by decide +kernel
example : ((C27.run hCfg (C27.init [] []) hEvents).2.filterMap
      (fun o => match o with | .toClient _ w => some (DnsRef.decode (w.drop 2)) | _ => none)) =
    [DnsRef.decode hr2, DnsRef.decode hr1] := by decide +kernel

-- the hypotheses of `deliverable_is_forwarded` hold for the example response (labels a, io, mx, W are plain; the deepest
-- pointer chain of the buffer has 2 hops)
example : (DnsRef.decode exampleResponse).map (fun d => d.questions.all (fun q => plainLabels q.labels) &&
    (d.answers ++ d.authorities ++ d.additionals).all (fun r => plainLabels r.labels && decide (r.rdata.length ≤ 65535))) = some true ∧
    (List.range exampleResponse.length).all (fun off => decide (hops exampleResponse off ≤ 2)) = true := by decide +kernel

/-! ### the theorems -/

/-- **C26 (codec level).** If the specification decoder reads `b` as `d` and the proxy's codec decodes `b` and
    re-encodes it as `b'`, then the specification decoder reads `b'` as the same `d`: same id and flag word, same
    questions, same records; every name label for label (case preserved); record data equal after expanding
    compressed names at the positions the RFC layout of the type defines. For every idna codec. -/
theorem repack_preserves (I : Idna) (b b' : Bytes) (d : DnsRef.RMsg) (m : Msg)
    (hd : DnsRef.decode b = some d) (hu : unpack I b = some m) (hp : pack I m = some b') :
    DnsRef.decode b' = some d :=
  decode_packed (decode_agree hd hu) hp

/-- **C26 (UDP).** A datagram that the specification decoder can read is, when `DNSLayer` forwards it unmodified,
    delivered as exactly one datagram that the specification decoder reads identically (or the layer closes on a
    parse error of its own and sends nothing). -/
theorem forward_preserves (I : Idna) (b : Bytes) (d : DnsRef.RMsg) (outs : List Bytes) (closed : Bool)
    (hd : DnsRef.decode b = some d) (hf : forwardUdp I b = .done outs closed) :
    (closed = true ∧ outs = []) ∨ (closed = false ∧ ∃ b', outs = [b'] ∧ DnsRef.decode b' = some d) := by
  unfold forwardUdp at hf
  cases hu : unpack I b with
  | none => simp [hu] at hf; exact Or.inl ⟨hf.2, hf.1⟩
  | some m =>
    simp only [hu] at hf
    cases hp : pack I m with
    | none => simp [hp] at hf
    | some b' =>
      simp [hp] at hf
      exact Or.inr ⟨hf.2, b', hf.1.symm, repack_preserves I b b' d m hd hu hp⟩

/-- a message the codec decoded always encodes again: `pack_message` cannot raise on an unmodified message -/
theorem decoded_message_encodes (I : Idna) (b : Bytes) (m : Msg) (hu : unpack I b = some m) : ∃ b', pack I m = some b' :=
  pack_ok (unpack_wellFormed0 hu)

/-- **C26 (no crash, UDP).** Forwarding an unmodified datagram either closes on a parse error or sends; the layer
    never raises. -/
theorem forward_never_crashes (I : Idna) (b : Bytes) : forwardUdp I b ≠ .crashed := by
  unfold forwardUdp
  cases hu : unpack I b with
  | none => simp
  | some m =>
    obtain ⟨b', hp⟩ := decoded_message_encodes I b m hu
    simp [hp]

/-- every message `unpackAll` returns is the decoding of the frame at the same position -/
private theorem unpackAll_spec (I : Idna) : ∀ (bs : List Bytes) (ms : List Msg) (e : Bool), unpackAll I bs = (ms, e) →
    ∃ bs1 bs2, bs = bs1 ++ bs2 ∧ Rel2 (fun b m => unpack I b = some m) bs1 ms ∧ (e = false → bs2 = []) := by
  intro bs
  induction bs with
  | nil => intro ms e h; simp [unpackAll] at h; obtain ⟨rfl, rfl⟩ := h; exact ⟨[], [], rfl, Rel2.nil, fun _ => rfl⟩
  | cons b bs ih =>
    intro ms e h
    simp only [unpackAll] at h
    cases hu : unpack I b with
    | none => simp [hu] at h; obtain ⟨rfl, rfl⟩ := h; exact ⟨[], b :: bs, rfl, Rel2.nil, fun h => by cases h⟩
    | some m =>
      simp [hu] at h
      obtain ⟨rfl, rfl⟩ := h
      obtain ⟨bs1, bs2, hsplit, hrel, he⟩ := ih _ _ rfl
      exact ⟨b :: bs1, bs2, by simp [hsplit], Rel2.cons hu hrel, he⟩

private theorem mapM'_pack_of_unpacked (I : Idna) : ∀ (bs : List Bytes) (ms : List Msg),
    Rel2 (fun b m => unpack I b = some m) bs ms → ∃ outs, mapM' (pack I) ms = some outs := by
  intro bs ms h
  induction h with
  | nil => exact ⟨[], rfl⟩
  | @cons b m bs ms hu _ ih =>
    obtain ⟨b', hp⟩ := decoded_message_encodes I b m hu
    obtain ⟨outs, ho⟩ := ih
    exact ⟨b' :: outs, by simp [mapM', hp, ho]⟩

private theorem mapM'_frameC_some : ∀ (outs fs : List Bytes), mapM' frameC outs = some fs →
    fs = outs.map frame ∧ ∀ b ∈ outs, b.length < 65536 := by
  intro outs
  induction outs with
  | nil => intro fs h; simp [mapM'] at h; subst h; simp
  | cons b outs ih =>
    intro fs h
    simp only [mapM'] at h
    cases hb : frameC b with
    | none => simp [hb] at h
    | some f =>
      cases hr : mapM' frameC outs with
      | none => simp [hb, hr] at h
      | some fs' =>
        simp [hb, hr] at h; subst h
        obtain ⟨e, hall⟩ := ih fs' hr
        have hlt : b.length < 65536 ∧ f = frame b := by
          unfold frameC at hb
          split at hb
          · cases hb; exact ⟨by assumption, rfl⟩
          · cases hb
        refine ⟨by simp [hlt.2, e], ?_⟩
        intro x hx
        rcases List.mem_cons.mp hx with rfl | hx
        · exact hlt.1
        · exact hall x hx

private theorem mapM'_frameC_fits : ∀ (outs : List Bytes), (∀ b ∈ outs, b.length < 65536) →
    mapM' frameC outs = some (outs.map frame) := by
  intro outs
  induction outs with
  | nil => intro _; rfl
  | cons b outs ih =>
    intro h
    have hb : frameC b = some (frame b) := by simp [frameC, h b (by simp)]
    simp [mapM', hb, ih (fun x hx => h x (by simp [hx]))]

/-- every message of a segment that the codec decodes re-encodes: `reencodings` is never an exception -/
theorem reencodings_defined (I : Idna) (data : Bytes) : ∃ outs, reencodings I data = some outs := by
  unfold reencodings
  obtain ⟨bs1, bs2, _, hrel, _⟩ := unpackAll_spec I _ _ _ (rfl : unpackAll I (tcpFrames data.length data).1 = (_, _))
  exact mapM'_pack_of_unpacked I bs1 _ hrel

/-- **C26 (when forwarding a TCP segment raises).** Exactly when one of the re-encoded messages is longer than 65535
    bytes: `struct.pack("!H", len(packed))` in `pack_message` raises and nothing in layers/dns.py catches it
    (finding F-C26b; the re-encoding expands every compression pointer, so a small compressed message can exceed
    the limit). -/
theorem forward_tcp_crash_iff (I : Idna) (data : Bytes) :
    forwardTcp I data = .crashed ↔ ∃ outs, reencodings I data = some outs ∧ ∃ b' ∈ outs, 65536 ≤ b'.length := by
  obtain ⟨outs, ho⟩ := reencodings_defined I data
  have ho' := ho
  unfold reencodings at ho'
  unfold forwardTcp
  simp only [ho']
  constructor
  · intro h
    refine ⟨outs, ho, ?_⟩
    cases hf : mapM' frameC outs with
    | some fs => simp [hf] at h
    | none =>
      apply Classical.byContradiction
      intro hne
      have hall : ∀ b ∈ outs, b.length < 65536 := by
        intro b hb
        apply Classical.byContradiction
        intro hlt
        exact hne ⟨b, hb, by omega⟩
      rw [mapM'_frameC_fits outs hall] at hf; cases hf
  · rintro ⟨outs', ho2, b', hb', hlen⟩
    rw [ho] at ho2; cases ho2
    cases hf : mapM' frameC outs with
    | none => rfl
    | some fs =>
      have := (mapM'_frameC_some outs fs hf).2 b' hb'
      omega

/-- **C26 (no crash, TCP).** If every re-encoded message of the segment fits the 16-bit length prefix, forwarding the
    segment does not raise. (Restated in round 6: the earlier form without the hypothesis was true of a model whose
    `frame` wrapped the length silently; the real `pack_message` raises — see `forward_tcp_crash_iff`,
    `oversize_reencoding_counterexample` and finding F-C26b.) -/
theorem forward_never_crashes_tcp (I : Idna) (data : Bytes)
    (hfit : ∀ outs, reencodings I data = some outs → ∀ b' ∈ outs, b'.length < 65536) : forwardTcp I data ≠ .crashed := by
  intro h
  obtain ⟨outs, ho, b', hb', hlen⟩ := (forward_tcp_crash_iff I data).mp h
  have := hfit outs ho b' hb'
  omega

private theorem frame_toNat (b : Bytes) (h : b.length < 65536) :
    (UInt8.ofNat (b.length / 256)).toNat * 256 + (UInt8.ofNat (b.length % 256)).toNat = b.length := by
  rw [toNat_ofNat_lt (by omega), toNat_ofNat_lt (by omega)]; omega

/-- the framing loop recovers the frames of a stream of complete frames -/
private theorem tcpFrames_frames : ∀ (bs : List Bytes) (fuel : Nat), (∀ b ∈ bs, 0 < b.length ∧ b.length < 65536) →
    (bs.flatMap frame).length ≤ fuel → tcpFrames fuel (bs.flatMap frame) = (bs, false) := by
  intro bs
  induction bs with
  | nil => intro fuel _ _; cases fuel <;> simp [tcpFrames]
  | cons b bs ih =>
    intro fuel hb hfuel
    obtain ⟨hpos, hlt⟩ := hb b (by simp)
    cases fuel with
    | zero => simp [frame] at hfuel
    | succ fuel =>
      simp only [List.flatMap_cons, frame, List.cons_append, tcpFrames]
      rw [frame_toNat b hlt]
      have h0 : ¬ b.length = 0 := by omega
      have h1 : ¬ (b ++ bs.flatMap frame).length < b.length := by simp
      simp only [h0, h1, if_false, List.drop_left, List.take_left]
      rw [ih fuel (fun x hx => hb x (by simp [hx])) (by simp [frame] at hfuel ⊢; omega)]

/-- the forwarded frames answer to the leading input frames, one for one -/
private theorem packed_rel (I : Idna) : ∀ (bs : List Bytes) (ms : List Msg) (ds : List DnsRef.RMsg) (packed : List Bytes),
    Rel2 (fun b m => unpack I b = some m) bs ms → Rel2 (fun b d => DnsRef.decode b = some d) bs ds →
    mapM' (pack I) ms = some packed → Rel2 (fun b' d => DnsRef.decode b' = some d) packed ds := by
  intro bs ms ds packed hu
  induction hu generalizing ds packed with
  | nil => intro hd ho; cases hd; simp [mapM'] at ho; subst ho; exact Rel2.nil
  | @cons b m bs ms hum _ ih =>
    intro hd ho
    cases hd with
    | @cons _ d _ ds hdb hds =>
      simp only [mapM'] at ho
      cases hp : pack I m with
      | none => simp [hp] at ho
      | some b' =>
        cases hr : mapM' (pack I) ms with
        | none => simp [hp, hr] at ho
        | some outs' =>
          simp [hp, hr] at ho; subst ho
          exact Rel2.cons (repack_preserves I b b' d m hdb hum hp) (ih ds outs' hds hr)

private theorem Rel2.split_left {α β : Type} {R : α → β → Prop} : ∀ (a1 a2 : List α) (bs : List β), Rel2 R (a1 ++ a2) bs →
    ∃ b1 b2, bs = b1 ++ b2 ∧ Rel2 R a1 b1 ∧ Rel2 R a2 b2 := by
  intro a1
  induction a1 with
  | nil => intro a2 bs h; exact ⟨[], bs, rfl, Rel2.nil, h⟩
  | cons a a1 ih =>
    intro a2 bs h
    cases h with
    | @cons _ b _ bs hab hrest =>
      obtain ⟨b1, b2, rfl, h1, h2⟩ := ih a2 bs hrest
      exact ⟨b :: b1, b2, rfl, Rel2.cons hab h1, h2⟩

/-- **C26 (TCP).** A segment made of complete frames, each holding a message the specification decoder can read:
    `DNSLayer` sends one frame for each of the leading messages it could parse itself, in order, and the
    specification decoder reads every forwarded message identically to the message at the same position; if the
    layer did not close the connection, that is every message of the segment. -/
theorem forward_preserves_tcp (I : Idna) (bs : List Bytes) (ds : List DnsRef.RMsg) (outs : List Bytes) (closed : Bool)
    (hb : ∀ b ∈ bs, 0 < b.length ∧ b.length < 65536) (hrel : Rel2 (fun b d => DnsRef.decode b = some d) bs ds)
    (hf : forwardTcp I (bs.flatMap frame) = .done outs closed) :
    ∃ bs' ds1 ds2, outs = bs'.map frame ∧ ds = ds1 ++ ds2 ∧ Rel2 (fun b' d => DnsRef.decode b' = some d) bs' ds1 ∧
      (closed = false → ds2 = []) := by
  unfold forwardTcp at hf
  rw [tcpFrames_frames bs _ hb (Nat.le_refl _)] at hf
  simp only at hf
  obtain ⟨bs1, bs2, hsplit, hu, he⟩ := unpackAll_spec I bs _ _ (rfl : unpackAll I bs = (_, _))
  cases ho : mapM' (pack I) (unpackAll I bs).1 with
  | none => simp [ho] at hf
  | some packed =>
    simp only [ho] at hf
    cases hfr : mapM' frameC packed with
    | none => simp [hfr] at hf
    | some fs =>
    simp [hfr] at hf
    obtain ⟨rfl, rfl⟩ := hf
    obtain ⟨hfs, _⟩ := mapM'_frameC_some packed fs hfr
    rw [hsplit] at hrel
    obtain ⟨ds1, ds2, rfl, hd1, hd2⟩ := Rel2.split_left bs1 bs2 ds hrel
    refine ⟨packed, ds1, ds2, hfs, rfl, packed_rel I bs1 _ ds1 packed hu hd1 ho, ?_⟩
    intro hc
    have : bs2 = [] := he hc
    subst this
    cases hd2; rfl

/-- **C26 (opaque types byte for byte).** A record whose type has no name-bearing layout (TXT, A, AAAA, unknown
    types …) is decoded with exactly the bytes of its RDATA (decode side only; that the forwarded record carries the same
    bytes is `repack_preserves`: for such a type the specification's rdata is the raw RDATA, see
    `opaque_rdata_is_raw`). -/
theorem opaque_types_bytewise (buf : Bytes) (off len ty : Nat) (h : layoutOf ty = none) :
    rrData buf off len ty = some ((buf.drop off).take len) := by
  simp [rrData, h]

/-- the layout table generated from the code's `_RDATA_LAYOUT` is the specification's RFC table, for every type -/
theorem code_layout_is_rfc_layout (ty : Nat) : layoutOf ty = DnsRef.layout ty := layout_agrees ty

/-! ### round 3: whole connections (every interleaving of queries and replies, ids, TCP segmentation) -/

/-- **C26 (whole connection).** The layer model of C27 (`DNSLayer.state_query`/`state_done` with its flows by id, the
    pending-query check for replies, `req_buf`/`resp_buf` framing, OpenConnection results) run on *any* schedule of
    client segments, server segments and closes, with no addon touching a flow (`acts = []`) and any outcome of the
    connect attempts: every `SendData` to the server is the re-encoding `b'` of a frame `b` the client delivered, every
    `SendData` to the client is the re-encoding of a frame the server delivered — and whenever the specification decoder
    reads `b` it reads `b'` identically — or it is the SERVFAIL synthesised for a frame of the client. Nothing else is
    ever sent. (Which replies are forwarded at all — id and question section of a pending query — is C27.) -/
theorem history_preserves (c : C27.Cfg) (conns : List Bool) (evs : List C27.Ev) :
    ∀ o ∈ (C27.run c (C27.init [] conns) evs).2,
      SentOk c (recvRun c (C27.init [] conns) evs).1 (recvRun c (C27.init [] conns) evs).2 o :=
  run_sent c evs (C27.init [] conns) rfl

/-- **C26 (whole connection, any TCP segmentation).** Two schedules that interleave the same client and server byte
    streams in the same way but cut them into segments differently send the same bytes, so what one of them sends is
    justified by the frames the other delivers. -/
theorem history_preserves_any_segmentation (c : C27.Cfg) (htcp : c.tcp = true) (conns : List Bool) (evs evs' : List C27.Ev)
    (h : Props.C27.coalesce evs = Props.C27.coalesce evs') :
    ∀ o ∈ (C27.run c (C27.init [] conns) evs).2,
      SentOk c (recvRun c (C27.init [] conns) evs').1 (recvRun c (C27.init [] conns) evs').2 o := by
  rw [Props.C27.interleaved_seg_independent c htcp (C27.init [] conns) evs evs' h]
  exact history_preserves c conns evs'

private theorem frame27_toNat (b : Bytes) (h : b.length < 65536) :
    (UInt8.ofNat (b.length / 256)).toNat * 256 + (UInt8.ofNat (b.length % 256)).toNat = b.length := by
  rw [toNat_ofNat_lt (by omega), toNat_ofNat_lt (by omega)]; omega

/-- the frames a stream of complete, decodable frames delivers are exactly those frames, in order -/
theorem delivered_frames (I : Idna) : ∀ (bs : List Bytes), (∀ b ∈ bs, 0 < b.length ∧ b.length < 65536 ∧ (unpack I b).isSome = true) →
    parseB I (bs.flatMap C27.frame) = bs := by
  intro bs
  induction bs with
  | nil => intro _; exact parseB_nil I
  | cons b bs ih =>
    intro hb
    obtain ⟨hpos, hlt, hdec⟩ := hb b (by simp)
    simp only [List.flatMap_cons, C27.frame, List.cons_append]
    rw [parseB_cons2, frame27_toNat b hlt]
    have h0 : ¬ b.length = 0 := by omega
    have h1 : ¬ (b ++ bs.flatMap C27.frame).length < b.length := by simp
    simp only [h0, h1, if_false, List.take_left, List.drop_left]
    cases hu : unpack I b with
    | none => simp [hu] at hdec
    | some m => simp only; rw [ih (fun x hx => hb x (by simp [hx]))]

/-! ### round 3: what a compressing encoder may write -/


private theorem or192 : ∀ x : Fin 64, 192 ||| x.val = 192 + x.val := by decide

/-- labels followed by a pointer to an offset below 16384 are scanned as exactly these labels and this target.
    (An encoder that writes a pointer to an offset >= 16384 — seed c26-2 — writes bytes that mean another target:
    `ptrBytes` wraps around, see the example below.) -/
theorem scanRaw_wire_ptr (ls : List Bytes) (t : Nat) (rest : Bytes) (hok : LabelsOk ls) (ht : t < 16384) :
    scanRaw (wire ls ++ ptrBytes t ++ rest) = some (ls, (wire ls).length + 2, some t) := by
  induction ls with
  | nil =>
    have hor : 192 ||| (t / 256) = 192 + t / 256 := or192 ⟨t / 256, by omega⟩
    have h1 : (UInt8.ofNat (192 + t / 256)).toNat = 192 + t / 256 := toNat_ofNat_lt (by omega)
    have h2 : (UInt8.ofNat (t % 256)).toNat = t % 256 := toNat_ofNat_lt (by omega)
    simp only [wire, List.flatMap_nil, List.nil_append, ptrBytes, List.cons_append, List.length_nil, hor]
    rw [scanRaw_cons, h1]
    have : 192 ≤ 192 + t / 256 := by omega
    simp only [this, if_true]
    congr 3
    rw [h2]; congr 1; omega
  | cons l ls ih =>
    obtain ⟨hne, hl⟩ := hok l (by simp)
    have hpos : 0 < l.length := List.length_pos_iff.mpr hne
    have htn : (UInt8.ofNat l.length).toNat = l.length := toNat_ofNat_lt (by omega)
    rw [wire_cons]
    simp only [List.cons_append, List.append_assoc]
    rw [scanRaw_cons, htn]
    have h1 : ¬ 192 ≤ l.length := by omega
    have h2 : ¬ 64 ≤ l.length := by omega
    have h3 : ¬ l.length = 0 := by omega
    have h4 : ¬ (l ++ (wire ls ++ (ptrBytes t ++ rest))).length < l.length := by simp
    simp only [h1, h2, h3, h4, if_false]
    have := ih (fun l' hl' => hok l' (by simp [hl']))
    simp only [List.append_assoc] at this
    rw [List.drop_left, List.take_left, this]
    simp; omega

/-- **C26 (reading a compressed name).** A name written as labels `ls1` followed by a pointer to an earlier offset `t`
    (below 16384 and below the start of this name) where the specification reads the name `ls2` is read by the
    specification as `ls1 ++ ls2` — and by the proxy's cache-based decoder as the text of exactly these labels
    (`unpackName_agrees`). This is the contract between any RFC 1035 compressing encoder and the decoder. -/
theorem compressed_name_read (buf : Bytes) (off t : Nat) (ls1 ls2 : List Bytes) (n2 : Nat) (rest : Bytes)
    (hb : buf.drop off = wire ls1 ++ ptrBytes t ++ rest) (hok : LabelsOk ls1) (ht : t < 16384) (hback : t < off)
    (h2 : DnsRef.name buf t = some (ls2, n2)) :
    DnsRef.name buf off = some (ls1 ++ ls2, (wire ls1).length + 2) ∧
    ∀ (I : Idna) (cache : Cache) (depth : Nat) (txt : Text) (n : Nat) (c' : Cache), CacheAgree I buf cache →
      unpackName I buf off cache depth = some ((txt, n), c') →
      n = (wire ls1).length + 2 ∧ NameRel I txt (ls1 ++ ls2) := by
  have hname : DnsRef.name buf off = some (ls1 ++ ls2, (wire ls1).length + 2) := by
    rw [name_unfold, hb, scanRaw_wire_ptr ls1 t rest hok ht]
    simp [hback, h2]
  refine ⟨hname, ?_⟩
  intro I cache depth txt n c' hca hu
  obtain ⟨e1, e2, _⟩ := unpackName_agrees I buf off _ _ hname cache depth txt n c' hca hu
  exact ⟨e1, e2⟩

-- 14 bits: a pointer "to 16384 + 12" is a pointer to 12
example : ptrBytes (16384 + 12) = ptrBytes 12 ∧ ptrBytes 16383 ≠ ptrBytes 0 := by decide

/-! ### round 5: delivery (the clause "is delivered to the other side"), and C25's re-encoding clause for every
    message the specification reads -/

/-- **C26 (a readable plain message is delivered, UDP).** If the specification decoder reads the datagram, its owner
    and question names consist of plain labels (ASCII, no dot, no `xn--`: exactly the labels for which the codec model
    does not consult the idna parameter), its canonical record data fits the 16-bit length field and no pointer chain
    of the buffer is deeper than the decoder's nesting limit (127), then `DNSLayer` does forward it — one datagram,
    connection left open — and the specification reads the forwarded datagram identically. For every idna codec. -/
theorem deliverable_is_forwarded (I : Idna) (b : Bytes) (d : DnsRef.RMsg) (hd : DnsRef.decode b = some d)
    (hp : Plain d) (hsh : Shallow b) :
    ∃ b', forwardUdp I b = .done [b'] false ∧ DnsRef.decode b' = some d := by
  obtain ⟨m, hu⟩ := unpack_live I b d hd hp hsh
  obtain ⟨b', hpk⟩ := decoded_message_encodes I b m hu
  exact ⟨b', by simp [forwardUdp, hu, hpk], repack_preserves I b b' d m hd hu hpk⟩

/-- the same with the precondition as a computation (`liveCheck`, tied to its Python twin): whatever passes the check is
    forwarded -/
theorem live_checked_is_forwarded (I : Idna) (b : Bytes) (h : liveCheck b = true) :
    ∃ b', forwardUdp I b = .done [b'] false ∧ DnsRef.decode b' = DnsRef.decode b := by
  unfold liveCheck at h
  cases hd : DnsRef.decode b with
  | none => simp [hd] at h
  | some d =>
    simp only [hd, Bool.and_eq_true] at h
    obtain ⟨b', h1, h2⟩ := deliverable_is_forwarded I b d hd (plain_of_check d h.1) (shallow_of_check b h.2)
    exact ⟨b', h1, h2⟩

private theorem unpackAll_live (I : Idna) : ∀ (bs : List Bytes) (ds : List DnsRef.RMsg),
    Rel2 (fun b d => DnsRef.decode b = some d ∧ Plain d ∧ Shallow b) bs ds → (unpackAll I bs).2 = false := by
  intro bs ds h
  induction h with
  | nil => rfl
  | @cons b d bs ds hbd _ ih =>
    obtain ⟨m, hu⟩ := unpack_live I b d hbd.1 hbd.2.1 hbd.2.2
    simp [unpackAll, hu, ih]

/-- **C26 (readable plain messages are delivered, TCP).** A segment of complete frames, each as in
    `deliverable_is_forwarded`, and each with a re-encoding that fits the 16-bit length prefix: one frame per message is
    sent, in order, each read identically by the specification, and the connection stays open. (Restated in round 6 with
    the hypothesis `hfit`: without it the layer raises, `forward_tcp_crash_iff`, finding F-C26b.) -/
theorem deliverable_is_forwarded_tcp (I : Idna) (bs : List Bytes) (ds : List DnsRef.RMsg)
    (hb : ∀ b ∈ bs, 0 < b.length ∧ b.length < 65536)
    (hrel : Rel2 (fun b d => DnsRef.decode b = some d ∧ Plain d ∧ Shallow b) bs ds)
    (hfit : ∀ outs, reencodings I (bs.flatMap frame) = some outs → ∀ b' ∈ outs, b'.length < 65536) :
    ∃ bs', forwardTcp I (bs.flatMap frame) = .done (bs'.map frame) false ∧
      Rel2 (fun b' d => DnsRef.decode b' = some d) bs' ds := by
  have hrel' : Rel2 (fun b d => DnsRef.decode b = some d) bs ds := by
    clear hb hfit
    induction hrel with
    | nil => exact Rel2.nil
    | cons h _ ih => exact Rel2.cons h.1 ih
  have hopen := unpackAll_live I bs ds hrel
  cases hf : forwardTcp I (bs.flatMap frame) with
  | crashed => exact absurd hf (forward_never_crashes_tcp I _ hfit)
  | done outs closed =>
    have hclosed : closed = false := by
      have := hf
      unfold forwardTcp at this
      rw [tcpFrames_frames bs _ hb (Nat.le_refl _)] at this
      simp only at this
      cases ho : mapM' (pack I) (unpackAll I bs).1 with
      | none => simp [ho] at this
      | some packed =>
        simp only [ho] at this
        cases hfr : mapM' frameC packed with
        | none => simp [hfr] at this
        | some fs => simp [hfr, hopen] at this; exact this.2
    obtain ⟨bs', ds1, ds2, ho, hsplit, hr, hall⟩ := forward_preserves_tcp I bs ds outs closed hb hrel' hf
    have : ds2 = [] := hall hclosed
    subst this
    simp only [List.append_nil] at hsplit
    subst hsplit
    exact ⟨bs', by rw [ho, hclosed], hr⟩

private theorem Rel2.mem_left' {α β : Type} {R : α → β → Prop} {as : List α} {bs : List β} (h : Rel2 R as bs) :
    ∀ a ∈ as, ∃ b ∈ bs, R a b := by
  induction h with
  | nil => intro a ha; cases ha
  | cons hab _ ih =>
    intro a ha
    rcases List.mem_cons.mp ha with rfl | ha
    · exact ⟨_, by simp, hab⟩
    · obtain ⟨b, hb, hr⟩ := ih a ha; exact ⟨b, by simp [hb], hr⟩

/-- **C25's last clause for every message the specification reads.** If the specification decoder reads `b` and the
    codec decodes `b` as `m`, then `m` re-encodes and the re-encoding decodes to `m` again — no `rdataPlain` guard:
    the record data of such a message is the specification's canonical RDATA, which is plain (`rdata_plain`), so
    findings F-C25a/c concern only messages the specification does not read. -/
theorem spec_readable_reencode_stable (I : Idna) (b : Bytes) (d : DnsRef.RMsg) (m : Msg)
    (hd : DnsRef.decode b = some d) (hu : unpack I b = some m) :
    ∃ b', pack I m = some b' ∧ unpack I b' = some m := by
  have hrel := decode_agree hd hu
  have hplain : ∀ (rs : List RR) (rrs : List DnsRef.RRec), Rel2 (RRel I) rs rrs → ∀ r ∈ rs, rdataPlain r.type r.data = true := by
    intro rs rrs h r hr
    obtain ⟨rr, _, hrr⟩ := Rel2.mem_left' h r hr
    have hc := hrr.canon rr.rdata 0 [] (by simp)
    rw [hrr.type, hrr.data]
    exact rdata_plain hc (by simp)
  apply Props.C25.reencode_stable_partial I b m hu
  intro r hr
  simp only [Props.C25.records] at hr
  rcases List.mem_append.mp hr with hr | hr
  · rcases List.mem_append.mp hr with hr | hr
    · exact hplain _ _ hrel.an r hr
    · exact hplain _ _ hrel.ns r hr
  · exact hplain _ _ hrel.ar r hr

/-- **C26 (the reference compressing encoder is read back).** `cname` is an RFC 1035 §4.1.4 name encoder (the twin of
    the compressing encoder the harness builds its server-style messages with, tied by driver op `cnames`): it writes
    labels until it finds the remaining suffix in its table and then a pointer. If every table entry points below
    16384 and below the current position at a place where the specification reads exactly that suffix, the
    specification reads the encoded name as the name that was encoded. (Name level only: there is no theorem about a
    whole-message compressing encoder; `DNSMessage.packed` does not compress.) -/
theorem reference_compressor_read (buf : Bytes) (tbl : CTable) (pos : Nat) (ls : List Bytes) (rest : Bytes)
    (hb : buf.drop pos = (cname tbl pos ls).1 ++ rest) (hok : LabelsOk ls)
    (htbl : ∀ s t, tbl.lookup s = some t → t < 16384 ∧ t < pos ∧ ∃ n, DnsRef.name buf t = some (s, n)) :
    DnsRef.name buf pos = some (ls, (cname tbl pos ls).1.length) :=
  cname_read buf tbl pos ls rest hb hok htbl

/-- **C26 (everything the reference compressing encoder writes is read back).** For every list of names (labels of
    1..63 bytes): in the byte string `cnames [] 0 names` — the names written one after the other by the reference
    encoder, each suffix replaced by a pointer to its first registration below 0x4000 — the specification decoder reads
    at the offset of the i-th name exactly the i-th name. No hypothesis about tables: the table invariant is
    established by the encoder itself. -/
theorem reference_compressor_sequence_read (names : List (List Bytes)) (hok : ∀ n ∈ names, LabelsOk n) :
    Rel2 (fun off n => ∃ k, DnsRef.name (cnames [] 0 names) off = some (n, k)) (cnameOffsets [] 0 names) names :=
  cnames_read (cnames [] 0 names) names [] 0 [] (by simp) hok (by intro s t h; simp at h)

/-! ### audit round 6 (cross-audit by the C22/C23 builder): further non-vacuity witnesses -/

-- `forward_preserves` / `repack_preserves`: all three hypotheses hold together for the compressed example response
example : ∃ d m b', DnsRef.decode exampleResponse = some d ∧ unpack noIdna exampleResponse = some m ∧
    pack noIdna m = some b' ∧ b' ≠ exampleResponse ∧ DnsRef.decode b' = some d := by
  cases hd : DnsRef.decode exampleResponse with
  | none => exact absurd hd (by decide +kernel)
  | some d =>
    cases hu : unpack noIdna exampleResponse with
    | none => exact absurd hu (by decide +kernel)
    | some m =>
      obtain ⟨b', hp⟩ := decoded_message_encodes noIdna _ m hu
      refine ⟨d, m, b', rfl, rfl, hp, ?_, repack_preserves noIdna _ b' d m hd hu hp⟩
      intro e
      have hlen : (pack noIdna m).map List.length ≠ some exampleResponse.length := by
        have : (unpack noIdna exampleResponse).bind (fun m => (pack noIdna m).map List.length) ≠ some exampleResponse.length := by
          decide +kernel
        rw [hu] at this; simpa using this
      rw [hp, e] at hlen; exact hlen rfl
-- `forward_preserves_tcp`: a segment of two complete frames, both readable by the specification
example : (∀ b ∈ [hq1, hq2], 0 < b.length ∧ b.length < 65536) ∧
    (DnsRef.decode hq1).isSome = true ∧ (DnsRef.decode hq2).isSome = true ∧
    forwardTcp noIdna ([hq1, hq2].flatMap frame) = .done [frame hq1, frame hq2] false := by decide +kernel
-- `compressed_name_read` / `scanRaw_wire_ptr`: label "x" followed by a pointer to offset 12 inside the example response
example : LabelsOk [[0x78]] ∧ DnsRef.name exampleResponse 12 = some ([[0x61],[0x69,0x6f]], 6) ∧
    scanRaw (wire [[0x78]] ++ ptrBytes 12 ++ [0xff]) = some ([[0x78]], 4, some 12) := by
  refine ⟨by unfold LabelsOk; decide, by decide +kernel, scanRaw_wire_ptr [[0x78]] 12 [0xff] (by unfold LabelsOk; decide) (by decide)⟩
-- `reference_compressor_sequence_read`: its hypothesis holds for the three names of the `cnames` example above
example : ∀ n ∈ [[[0x77,0x77,0x77],[0x61],[0x69,0x6f]], [[0x61],[0x69,0x6f]], [[0x78],[0x61],[0x69,0x6f]]], LabelsOk n := by unfold LabelsOk; decide
-- `live_checked_is_forwarded` on the example: the conclusion obtained through the theorem
example : ∃ b', forwardUdp noIdna exampleResponse = .done [b'] false ∧ DnsRef.decode b' = DnsRef.decode exampleResponse :=
  live_checked_is_forwarded noIdna exampleResponse (by decide +kernel)

/-! ### round 6 (owner fixes): re-encodings that do not fit a TCP frame -/

private theorem packList_data_le {I : Idna} : ∀ (rs : List RR) (w : Bytes), packList (packRR I) rs = some w →
    ∀ r ∈ rs, r.data.length ≤ w.length := by
  intro rs
  induction rs with
  | nil => intro w _ r hr; cases hr
  | cons x rs ih =>
    intro w h r hr
    obtain ⟨a, b, hx, hrs, rfl⟩ := packList_cons_some h
    rcases List.mem_cons.mp hr with rfl | hr
    · obtain ⟨n, t, c, l, dl, _, _, _, _, _, rfl⟩ := packRR_some hx
      simp; omega
    · have := ih b hrs r hr
      simp; omega

/-- an encoded message is at least as long as its 12-byte header plus any one record's data -/
private theorem pack_length_ge {I : Idna} {m : Msg} {b : Bytes} (h : pack I m = some b) :
    ∀ r ∈ m.answers, 12 + r.data.length ≤ b.length := by
  intro r hr
  unfold pack at h
  split at h
  · cases h
  · split at h
    · next a b1 c d e f qs rs ha hb hc hd he hf hqs hrs =>
      cases h
      have := packList_data_le _ rs hrs r (by simp [hr])
      simp [putU16_len ha, putU16_len hb, putU16_len hc, putU16_len hd, putU16_len he, putU16_len hf]; omega
    · cases h

/-- 65535 zero bytes (never unfolded) -/
def bigData : Bytes := List.replicate 65535 0
theorem bigData_len : bigData.length = 65535 := List.length_replicate

/-- one TXT record with 65535 bytes of data under the root name -/
def oversizeMsg : Msg :=
  { id := 1, query := false, opCode := 0, aa := false, tc := false, rd := true, ra := true, reserved := 0, rcode := 0,
    questions := [], answers := [⟨[], 16, 1, 0, bigData⟩], authorities := [], additionals := [] }

/-- **C26 (a re-encoding can be too long for a TCP frame) — counter-example to the unconditional forms of
    `forward_never_crashes_tcp` / `deliverable_is_forwarded_tcp`.** There is a well-formed message whose encoding (which
    decodes back to it) is longer than 65535 bytes, so `pack_message(…, "tcp")` raises on it (`frameC = none`). That a
    SMALL compressed message can have such a re-encoding is shown on the real code and the compiled model by the corpus
    witness of finding F-C26b (5071 bytes in, 80971 bytes out); the kernel cannot evaluate the decoder on inputs of that
    size in reasonable time, so that instance is not a Lean `example`. -/
theorem oversize_reencoding_counterexample :
    ∃ m b', pack noIdna m = some b' ∧ unpack noIdna b' = some m ∧ frameC b' = none := by
  have hwf : WellFormed noIdna oversizeMsg := by
    refine ⟨by decide, by decide, by decide, by decide, by decide, by decide, by decide, by decide, ?_, ?_, ?_, ?_⟩
    · intro q hq; cases hq
    · intro r hr
      have hr' : r = ⟨[], 16, 1, 0, bigData⟩ := by simpa [oversizeMsg] using hr
      subst hr'
      refine ⟨Or.inl rfl, by decide, by decide, by decide, by show bigData.length < 65536; rw [bigData_len]; decide, ?_⟩
      show rdataPlain 16 bigData = true
      unfold rdataPlain
      rw [show layoutOf 16 = none by decide]
    · intro r hr; cases hr
    · intro r hr; cases hr
  obtain ⟨b', hp, hu⟩ := Props.C25.roundtrip noIdna oversizeMsg hwf
  refine ⟨oversizeMsg, b', hp, hu, ?_⟩
  have := pack_length_ge hp ⟨[], 16, 1, 0, bigData⟩ (by simp [oversizeMsg])
  have hlen : ¬ b'.length < 65536 := by
    have e : (⟨[], 16, 1, 0, bigData⟩ : RR).data.length = 65535 := bigData_len
    rw [e] at this; omega
  simp [frameC, hlen]

/-- for a record type without name-bearing layout the specification's rdata IS the raw RDATA: together with
    `repack_preserves` this is the clause "forwarded byte-for-byte" for TXT, A, AAAA and unknown types -/
theorem opaque_rdata_is_raw (buf : Bytes) (pos len ty : Nat) (h : DnsRef.layout ty = none) :
    DnsRef.rdata buf pos len ty = some ((buf.drop pos).take len) := by
  simp [DnsRef.rdata, h]

end MitmVerif.Props.C26
