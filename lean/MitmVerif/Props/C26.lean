/-
  C26 — forwarded DNS messages keep their meaning: property theorems.
  (models: Model/C25.lean codec, Model/C26.lean DnsRef + layer; lemmas: Lemmas/C26.lean, Lemmas/C26Msg.lean)
-/
import MitmVerif.Lemmas.C26Msg
set_option linter.unusedVariables false
set_option linter.unusedSimpArgs false
namespace MitmVerif.Props.C26
open MitmVerif MitmVerif.C25 MitmVerif.C26

/-! ### concrete evaluations by the kernel (non-vacuity; kept first, they check much faster here) -/

/-- a server-style compressed response: question a.io MX; answers: MX with preference 0xC00C and a compressed
    exchange name, TXT "\\x02\\xc0\\x0c" (pointer look-alike), CNAME to a compressed name -/
def exampleResponse : Bytes :=
  [0x12,0x34,0x81,0x80,0x0,0x1,0x0,0x3,0x0,0x0,0x0,0x0, 0x1,0x61,0x2,0x69,0x6f,0x0, 0x0,0xf,0x0,0x1,
   0xc0,0xc, 0x0,0xf,0x0,0x1, 0x0,0x0,0x0,0x3c, 0x0,0x7, 0xc0,0xc, 0x2,0x6d,0x78,0xc0,0xc,
   0xc0,0xc, 0x0,0x10,0x0,0x1, 0x0,0x0,0x0,0x3c, 0x0,0x3, 0x2,0xc0,0xc,
   0xc0,0xc, 0x0,0x5,0x0,0x1, 0xc0,0xc,0xc0,0xc, 0x0,0x4, 0x1,0x57,0xc0,0x24]

/-- the specification reads it, the proxy forwards one (uncompressed, longer) datagram, and the specification reads
    that datagram identically -/
def exampleForwardOk : Bool :=
  match forwardUdp noIdna exampleResponse with
  | .sent [b'] => (DnsRef.decode exampleResponse).isSome && decide (b' ≠ exampleResponse) &&
      decide (DnsRef.decode b' = DnsRef.decode exampleResponse)
  | _ => false

example : exampleForwardOk = true := by decide +kernel
-- the specification rejects forward pointers and truncated records; the layer closes on a parse error
example : DnsRef.decode [0,1,1,0,0,1,0,0,0,0,0,0, 0xc0,0x0e, 0,1,0,1] = none := by decide +kernel
example : forwardUdp noIdna [0,1,1,0,0,1,0,0,0,0,0,0, 0xc0,0x0c, 0,1,0,1] = .closed := by decide +kernel
example : forwardTcp noIdna (frame [0,1,1,0,0,1,0,0,0,0,0,0, 1,0x61,0, 0,1,0,1]) =
    .sent [frame [0,1,1,0,0,1,0,0,0,0,0,0, 1,0x61,0, 0,1,0,1]] := by decide +kernel

/-! ### the theorems -/

/-- **C26 (codec level).** If the specification decoder reads `b` as `d` and the proxy's codec decodes `b` and
    re-encodes it as `b'`, then the specification decoder reads `b'` as the same `d`: same id and flag word, same
    questions, same records; every name label for label (case preserved); record data equal after expanding
    compressed names at the positions the RFC layout of the type defines. For every idna codec. -/
theorem repack_preserves (I : Idna) (b b' : Bytes) (d : DnsRef.RMsg) (m : Msg)
    (hd : DnsRef.decode b = some d) (hu : unpack I b = some m) (hp : pack I m = some b') :
    DnsRef.decode b' = some d :=
  decode_packed (decode_agree hd hu) hp

/-- **C26 (UDP).** A datagram that the specification decoder can read is, when `DNSLayer` forwards it unmodified,
    delivered as exactly one datagram that the specification decoder reads identically. -/
theorem forward_preserves (I : Idna) (b : Bytes) (d : DnsRef.RMsg) (outs : List Bytes)
    (hd : DnsRef.decode b = some d) (hf : forwardUdp I b = .sent outs) :
    ∃ b', outs = [b'] ∧ DnsRef.decode b' = some d := by
  unfold forwardUdp at hf
  cases hu : unpack I b with
  | none => simp [hu] at hf
  | some m =>
    simp only [hu] at hf
    cases hp : pack I m with
    | none => simp [hp] at hf
    | some b' =>
      simp [hp] at hf
      exact ⟨b', hf.symm, repack_preserves I b b' d m hd hu hp⟩

/-- a message the codec decoded always encodes again: `pack_message` cannot raise on an unmodified message -/
theorem decoded_message_encodes (I : Idna) (b : Bytes) (m : Msg) (hu : unpack I b = some m) : ∃ b', pack I m = some b' :=
  pack_ok (unpack_wellFormed0 hu)

/-- **C26 (no crash, UDP).** Forwarding an unmodified datagram either closes on a parse error or sends; the layer
    never raises. -/
theorem forward_never_crashes (I : Idna) (b : Bytes) : forwardUdp I b ≠ .crashed := by
  unfold forwardUdp
  cases hu : unpack I b with
  | none => simp
  | some m =>
    obtain ⟨b', hp⟩ := decoded_message_encodes I b m hu
    simp [hp]

private theorem mapM'_pack_of_unpack (I : Idna) : ∀ (bs : List Bytes) (ms : List Msg), mapM' (unpack I) bs = some ms →
    ∃ outs, mapM' (pack I) ms = some outs := by
  intro bs
  induction bs with
  | nil => intro ms h; simp [mapM'] at h; subst h; exact ⟨[], rfl⟩
  | cons b bs ih =>
    intro ms h
    simp only [mapM'] at h
    cases hu : unpack I b with
    | none => simp [hu] at h
    | some m =>
      cases hr : mapM' (unpack I) bs with
      | none => simp [hu, hr] at h
      | some ms' =>
        simp [hu, hr] at h; subst h
        obtain ⟨b', hp⟩ := decoded_message_encodes I b m hu
        obtain ⟨outs, ho⟩ := ih ms' hr
        exact ⟨b' :: outs, by simp [mapM', hp, ho]⟩

/-- **C26 (no crash, TCP).** -/
theorem forward_never_crashes_tcp (I : Idna) (data : Bytes) : forwardTcp I data ≠ .crashed := by
  unfold forwardTcp
  cases tcpFrames data.length data with
  | none => simp
  | some frames =>
    simp only
    cases hm : mapM' (unpack I) frames with
    | none => simp
    | some msgs =>
      obtain ⟨outs, ho⟩ := mapM'_pack_of_unpack I frames msgs hm
      simp [ho]

private theorem frame_toNat (b : Bytes) (h : b.length < 65536) :
    (UInt8.ofNat (b.length / 256)).toNat * 256 + (UInt8.ofNat (b.length % 256)).toNat = b.length := by
  rw [toNat_ofNat_lt (by omega), toNat_ofNat_lt (by omega)]; omega

/-- the framing loop of `unpack_message` recovers the frames of a stream of complete frames -/
private theorem tcpFrames_frames : ∀ (bs : List Bytes) (fuel : Nat), (∀ b ∈ bs, 0 < b.length ∧ b.length < 65536) →
    (bs.flatMap frame).length ≤ fuel → tcpFrames fuel (bs.flatMap frame) = some bs := by
  intro bs
  induction bs with
  | nil => intro fuel _ _; cases fuel <;> simp [tcpFrames]
  | cons b bs ih =>
    intro fuel hb hfuel
    obtain ⟨hpos, hlt⟩ := hb b (by simp)
    cases fuel with
    | zero => simp [frame] at hfuel
    | succ fuel =>
      simp only [List.flatMap_cons, frame, List.cons_append, tcpFrames]
      rw [frame_toNat b hlt]
      have h0 : ¬ b.length = 0 := by omega
      have h1 : ¬ (b ++ bs.flatMap frame).length < b.length := by simp
      simp only [h0, h1, if_false, List.drop_left, List.take_left]
      rw [ih fuel (fun x hx => hb x (by simp [hx])) (by simp [frame] at hfuel ⊢; omega)]
      rfl

/-- **C26 (TCP).** A segment made of complete frames, each holding a message the specification decoder can read:
    if `DNSLayer` forwards it, it sends one frame per message, in order, and the specification decoder reads every
    forwarded message identically. -/
theorem forward_preserves_tcp (I : Idna) : ∀ (bs : List Bytes) (ds : List DnsRef.RMsg) (outs : List Bytes),
    (∀ b ∈ bs, 0 < b.length ∧ b.length < 65536) → Rel2 (fun b d => DnsRef.decode b = some d) bs ds →
    forwardTcp I (bs.flatMap frame) = .sent outs →
    ∃ bs', outs = bs'.map frame ∧ Rel2 (fun b' d => DnsRef.decode b' = some d) bs' ds := by
  intro bs ds outs hb hrel hf
  unfold forwardTcp at hf
  rw [tcpFrames_frames bs _ hb (Nat.le_refl _)] at hf
  simp only at hf
  cases hm : mapM' (unpack I) bs with
  | none => simp [hm] at hf
  | some msgs =>
    simp only [hm] at hf
    cases ho : mapM' (pack I) msgs with
    | none => simp [ho] at hf
    | some packed =>
      simp [ho] at hf
      refine ⟨packed, hf.symm, ?_⟩
      clear hf hb
      induction hrel generalizing msgs packed with
      | nil =>
        simp [mapM'] at hm; subst hm
        simp [mapM'] at ho; subst ho
        exact Rel2.nil
      | @cons b d bs ds hd _ ih =>
        simp only [mapM'] at hm
        cases hu : unpack I b with
        | none => simp [hu] at hm
        | some m =>
          cases hr : mapM' (unpack I) bs with
          | none => simp [hu, hr] at hm
          | some ms' =>
            simp [hu, hr] at hm; subst hm
            simp only [mapM'] at ho
            cases hp : pack I m with
            | none => simp [hp] at ho
            | some b' =>
              cases hr2 : mapM' (pack I) ms' with
              | none => simp [hp, hr2] at ho
              | some outs' =>
                simp [hp, hr2] at ho; subst ho
                exact Rel2.cons (repack_preserves I b b' d m hd hu hp) (ih ms' hr outs' hr2)

/-- **C26 (opaque types byte for byte).** A record whose type has no name-bearing layout (TXT, A, AAAA, unknown
    types …) is decoded with exactly the bytes of its RDATA, and `pack` writes `data` verbatim. -/
theorem opaque_types_bytewise (buf : Bytes) (off len ty : Nat) (h : layoutOf ty = none) :
    rrData buf off len ty = some ((buf.drop off).take len) := by
  simp [rrData, h]

/-- the layout table generated from the code's `_RDATA_LAYOUT` is the specification's RFC table, for every type -/
theorem code_layout_is_rfc_layout (ty : Nat) : layoutOf ty = DnsRef.layout ty := layout_agrees ty

end MitmVerif.Props.C26
