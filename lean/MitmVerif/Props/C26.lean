import MitmVerif.Model.C26
import MitmVerif.Lemmas.C25Msg
namespace MitmVerif.Props.C26
open MitmVerif MitmVerif.C25 MitmVerif.C26

theorem opaque_types_bytewise (buf : Bytes) (off len ty : Nat) (h : layoutOf ty = none) :
    rrData buf off len ty = some ((buf.drop off).take len) := by
  simp [rrData, h]

end MitmVerif.Props.C26
