/-
  C27 — DNS replies correspond to client queries; TCP framing ignores segmentation: property theorems.
  (model: Model/C27.lean on top of the C25 codec model; lemmas: Lemmas/C27.lean, Lemmas/C27b.lean)

  All theorems hold for every idna codec, every sequence of events, every addon script (`acts`: what the addons do in
  each hook) and every script of connect outcomes (`conns`).
-/
import MitmVerif.Lemmas.C27f
import MitmVerif.Props.C25
set_option linter.unusedVariables false
set_option linter.unusedSimpArgs false
namespace MitmVerif.Props.C27
open MitmVerif MitmVerif.C25 MitmVerif.C27

/-! ### concrete evaluations by the kernel (kept first: they check much faster here) -/

/-- query id 1, RD, `a. A IN` -/
def q1 : Bytes := [0,1, 1,0, 0,1, 0,0, 0,0, 0,0, 1,0x61,0, 0,1, 0,1]
/-- query id 2, opcode 2, `b. AAAA IN` -/
def q2 : Bytes := [0,2, 0x10,0, 0,1, 0,0, 0,0, 0,0, 1,0x62,0, 0,28, 0,1]
/-- reply id 1 for `a. A IN` with one compressed answer -/
def r1 : Bytes := [0,1, 0x81,0x80, 0,1, 0,1, 0,0, 0,0, 1,0x61,0, 0,1, 0,1, 0xc0,0x0c, 0,1, 0,1, 0,0,0,60, 0,4, 192,0,2,1]
/-- reply id 1 for another question (`b. A IN`) -/
def r1x : Bytes := [0,1, 0x81,0x80, 0,1, 0,0, 0,0, 0,0, 1,0x62,0, 0,1, 0,1]
/-- reply with an id nobody asked for -/
def r77 : Bytes := [0,77, 0x81,0x80, 0,1, 0,0, 0,0, 0,0, 1,0x61,0, 0,1, 0,1]

def udp : Cfg := ⟨noIdna, false, true⟩
def tcp : Cfg := ⟨noIdna, true, true⟩
def udpNoUpstream : Cfg := ⟨noIdna, false, false⟩

def outsOf (c : Cfg) (acts : List Act) (conns : List Bool) (evs : List Ev) : List String :=
  (run c (init acts conns) evs).2.map fun
    | .hook .request _ => "request" | .hook .response _ => "response" | .hook .error _ => "error"
    | .opened .ok => "open" | .opened .fail => "open-fail" | .opened .killed => "open-killed"
    | .toServer m _ => s!"server:{m.id}" | .toClient m _ => s!"client:{m.id}:{m.rcode}"
    | .closeClient => "close-client" | .closeServer => "close-server" | .crash => "crash"

-- a matching reply is forwarded; an unsolicited one (F-C27a) and one for another question are dropped
example : outsOf udp [] [] [.clientData q1, .serverData r77, .serverData r1x, .serverData r1] =
    ["request", "open", "server:1", "response", "client:1:0"] := by decide +kernel
-- no upstream / failed connect (and every later attempt): SERVFAIL with the query's id
example : outsOf udpNoUpstream [] [] [.clientData q2] = ["request", "error", "client:2:2"] := by decide +kernel
example : outsOf udp [] [false] [.clientData q1, .clientData q2] =
    ["request", "open-fail", "error", "client:1:2", "request", "open-killed", "error", "client:2:2"] := by decide +kernel
-- the id of an answered query is used again (F-C27c): the new query goes upstream
example : outsOf udp [] [] [.clientData q1, .serverData r1, .clientData q1] =
    ["request", "open", "server:1", "response", "client:1:0", "request", "server:1"] := by decide +kernel
-- TCP: `[len][q1][00 00]` whole and split before `00 00` (F-C27b): the query is handled, then the connection closed
example : outsOf tcp [] [] [.clientData (frame q1 ++ [0, 0])] = ["request", "open", "server:1", "close-client"] := by
  decide +kernel
example : outsOf tcp [] [] [.clientData (frame q1), .clientData [0, 0], .clientData (frame q2)] =
    ["request", "open", "server:1", "close-client"] := by decide +kernel
-- addon actions: a response set in dns_request is sent, one cleared in dns_response is not
example : outsOf udp [.err] [] [.clientData q1] = ["request", "error", "client:1:2"] := by decide +kernel
example : outsOf udp [.pass, .clear] [] [.clientData q1, .serverData r1] = ["request", "open", "server:1", "response"] := by
  decide +kernel

/-! ### SERVFAIL synthesis -/

/-- **C27 (SERVFAIL fields).** `DNSMessage.fail(SERVFAIL)` keeps id, question section, opcode and the
    recursion-desired flag of the query; it is a response (QR=1) with RCODE 2 and no records. -/
theorem servfail_fields (q : Msg) :
    (servfail q).id = q.id ∧ (servfail q).questions = q.questions ∧ (servfail q).opCode = q.opCode ∧
    (servfail q).rd = q.rd ∧ (servfail q).query = false ∧ (servfail q).rcode = 2 ∧
    (servfail q).answers = [] ∧ (servfail q).authorities = [] ∧ (servfail q).additionals = [] :=
  ⟨rfl, rfl, rfl, rfl, rfl, rfl, rfl, rfl, rfl⟩

/-- **C27 (SERVFAIL on the wire).** For every query the codec decoded from bytes, the synthesised SERVFAIL encodes, and
    what the client decodes from those bytes is that SERVFAIL (so `servfail_fields` holds for the bytes sent). -/
theorem servfail_bytes (I : Idna) (b : Bytes) (q : Msg) (h : unpack I b = some q) :
    ∃ w, pack I (servfail q) = some w ∧ unpack I w = some (servfail q) := by
  obtain ⟨a1, a2, _, _, a5, _, _, _, a9, _, _, _⟩ := unpack_wellFormed0 h
  exact MitmVerif.Props.C25.roundtrip I (servfail q)
    ⟨a1, a2, by simp [servfail, fail], by simp [servfail, fail, SERVFAIL], a5, by simp [servfail, fail],
     by simp [servfail, fail], by simp [servfail, fail], a9, by simp [servfail, fail], by simp [servfail, fail],
     by simp [servfail, fail]⟩

example : ∃ q, unpack noIdna q2 = some q ∧ (servfail q).opCode = 2 ∧ (servfail q).rd = false ∧ (servfail q).id = 2 := by
  decide +kernel

/-! ### flows and replies -/

private theorem run_trace (c : Cfg) (acts : List Act) (conns : List Bool) (evs : List Ev) :
    TraceOk (addonMsgs acts) [] (run c (init acts conns) evs).2 :=
  (run_goodT c (addonMsgs acts) evs (init acts conns) (Inv_init acts conns)).2.2

/-- **C27 (every reported flow carries its query).** Whatever the client, the upstream server and the addons do:
    a flow handed to `dns_request`, `dns_response` or `dns_error` has a request, and that request is a query the
    client sent on this connection (it was announced by a `dns_request` hook at or before this point of the trace).
    At `dns_response` the flow also has a response, which an addon put there or which has the id and the question
    section of that query. -/
theorem flow_has_query (c : Cfg) (acts : List Act) (conns : List Bool) (evs : List Ev)
    (pre post : List Out) (h : Hook) (f : Flow)
    (htr : (run c (init acts conns) evs).2 = pre ++ .hook h f :: post) :
    ∃ q, f.request = some q ∧ q ∈ queriesOf (pre ++ [.hook h f]) ∧
      (h = .response → ∃ r, f.response = some r ∧ (r ∈ addonMsgs acts ∨ (r.id = q.id ∧ r.questions = q.questions))) := by
  have ht := run_trace c acts conns evs
  rw [htr] at ht
  obtain ⟨q, h1, h2, h3⟩ := TraceOk_at pre [] (.hook h f) post ht
  exact ⟨q, h1, by simpa using h2, h3⟩

/-- **C27 (every reply answers a query of this client).** Every message sent to the client is one an addon put into
    a flow, or it has the id and the question section of a query the client sent *earlier* on this connection
    (announced by a `dns_request` hook before this point of the trace).  This covers forwarded upstream replies —
    unsolicited ids, replies for another question and replies for an id whose query was already answered and
    re-used are not forwarded — and the synthesised SERVFAIL. -/
theorem reply_answers_query (c : Cfg) (acts : List Act) (conns : List Bool) (evs : List Ev)
    (pre post : List Out) (m : Msg) (w : Bytes)
    (htr : (run c (init acts conns) evs).2 = pre ++ .toClient m w :: post) :
    m ∈ addonMsgs acts ∨ ∃ q ∈ queriesOf pre, q.id = m.id ∧ q.questions = m.questions := by
  have ht := run_trace c acts conns evs
  rw [htr] at ht
  rcases TraceOk_at pre [] (.toClient m w) post ht with h | ⟨q, h1, h2⟩
  · exact Or.inl h
  · refine Or.inr ⟨q, ?_, h2⟩
    simpa [queriesOf_append, queriesOf, reqOf] using h1

/-- … in particular when no addon sets a response: unconditionally id and question section of an earlier query -/
theorem reply_answers_query_unmodified (c : Cfg) (acts : List Act) (conns : List Bool) (evs : List Ev)
    (pre post : List Out) (m : Msg) (w : Bytes) (hno : addonMsgs acts = [])
    (htr : (run c (init acts conns) evs).2 = pre ++ .toClient m w :: post) :
    ∃ q ∈ queriesOf pre, q.id = m.id ∧ q.questions = m.questions := by
  rcases reply_answers_query c acts conns evs pre post m w htr with h | h
  · rw [hno] at h; cases h
  · exact h

/-- the bytes sent are the wire form of the message (`pack_message`: length-prefixed over TCP) -/
theorem reply_is_packed (c : Cfg) (acts : List Act) (conns : List Bool) (evs : List Ev) (m : Msg) (w : Bytes)
    (hmem : Out.toClient m w ∈ (run c (init acts conns) evs).2) :
    ∃ b, pack c.I m = some b ∧ w = wireOf c.tcp b := by
  have key : ∀ (σ : Core) (m' : Msg), ∀ o ∈ (sendClient c σ m').2, o = Out.toClient m w →
      ∃ b, pack c.I m = some b ∧ w = wireOf c.tcp b := by
    intro σ m' o ho he
    unfold sendClient at ho
    cases hp : pack c.I m' with
    | none => simp [hp] at ho; rw [ho] at he; cases he
    | some b =>
      cases hw : wireOf? c.tcp b with
      | none => simp [hp, hw] at ho; rw [ho] at he; cases he
      | some w' =>
        simp [hp, hw] at ho; rw [ho] at he; cases he
        refine ⟨b, hp, ?_⟩
        unfold wireOf? at hw
        split at hw
        · cases hw
        · cases hw; rfl
  -- every `toClient` of a run comes out of `sendClient`
  have hResp : ∀ σ k f m', Out.toClient m w ∈ (handleResponse c σ k f m').2 → ∃ b, pack c.I m = some b ∧ w = wireOf c.tcp b := by
    intro σ k f m' hm
    unfold handleResponse at hm
    dsimp only at hm
    split at hm
    · simp at hm
    · simp only [List.mem_cons] at hm
      rcases hm with h | h
      · cases h
      · exact key _ _ _ h rfl
  have hErr : ∀ σ k f, Out.toClient m w ∈ (handleError c σ k f).2 → ∃ b, pack c.I m = some b ∧ w = wireOf c.tcp b := by
    intro σ k f hm
    unfold handleError at hm
    dsimp only at hm
    split at hm
    · simp at hm
    · simp only [List.mem_cons] at hm
      rcases hm with h | h
      · cases h
      · exact key _ _ _ h rfl
  have hSrv : ∀ σ q, Out.toClient m w ∈ (sendServer c σ q).2 → False := by
    intro σ q hm
    unfold sendServer at hm
    cases hp : pack c.I q with
    | none => simp [hp] at hm
    | some b => cases hw : wireOf? c.tcp b <;> simp [hp, hw] at hm
  have hReq : ∀ σ k f q, Out.toClient m w ∈ (handleRequest c σ k f q).2 → ∃ b, pack c.I m = some b ∧ w = wireOf c.tcp b := by
    intro σ k f q hm
    unfold handleRequest at hm
    dsimp only at hm
    split at hm
    · simp only [List.mem_cons] at hm
      rcases hm with h | h
      · cases h
      · exact hResp _ _ _ _ h
    · split at hm
      · simp only [List.mem_cons] at hm
        rcases hm with h | h
        · cases h
        · exact hErr _ _ _ h
      · split at hm
        · simp only [List.mem_cons] at hm
          rcases hm with h | h
          · cases h
          · exact (hSrv _ _ h).elim
        · split at hm
          · simp only [List.mem_cons] at hm
            rcases hm with h | h | h
            · cases h
            · cases h
            · exact hErr _ _ _ h
          · split at hm
            · simp only [List.mem_cons] at hm
              rcases hm with h | h | h
              · cases h
              · cases h
              · exact (hSrv _ _ h).elim
            · simp only [List.mem_cons] at hm
              rcases hm with h | h | h
              · cases h
              · cases h
              · exact hErr _ _ _ h
  have hMsgs : ∀ fc (ms : List Msg) (σ : Core), Out.toClient m w ∈ (handleMsgs c fc σ ms).2 →
      ∃ b, pack c.I m = some b ∧ w = wireOf c.tcp b := by
    intro fc ms
    induction ms with
    | nil => intro σ hm; simp [handleMsgs] at hm
    | cons x ms ih =>
      intro σ hm
      unfold handleMsgs at hm
      split at hm
      · simp at hm
      · dsimp only at hm
        simp only [List.mem_append] at hm
        rcases hm with h | h
        · cases fc
          · simp only [Bool.false_eq_true, if_false] at h
            unfold serverMsg at h
            split at h
            · simp at h
            · split at h
              · simp at h
              · split at h
                · exact hResp _ _ _ _ h
                · simp at h
          · simp only [if_true] at h
            exact hReq _ _ _ _ h
        · exact ih _ h
  have hStep : ∀ (σ : State) ev, Out.toClient m w ∈ (step c σ ev).2 → ∃ b, pack c.I m = some b ∧ w = wireOf c.tcp b := by
    intro σ ev hm
    unfold step at hm
    split at hm
    · simp at hm
    · cases ev with
      | clientData d =>
        simp only [stepClient] at hm
        split at hm
        · exact hMsgs _ _ _ hm
        · split at hm
          · simp only [List.mem_append, List.mem_singleton] at hm
            rcases hm with h | h
            · exact hMsgs _ _ _ h
            · cases h
          · exact hMsgs _ _ _ hm
      | serverData d =>
        simp only at hm
        split at hm
        · simp only [stepServer] at hm
          split at hm
          · exact hMsgs _ _ _ hm
          · split at hm
            · simp only [List.mem_append, List.mem_singleton] at hm
              rcases hm with h | h
              · exact hMsgs _ _ _ h
              · cases h
            · exact hMsgs _ _ _ hm
        · simp at hm
      | clientClose =>
        simp only at hm
        split at hm <;> simp at hm
      | serverClose =>
        simp only at hm
        split at hm <;> simp at hm
  have hRun : ∀ (evs : List Ev) (σ : State), Out.toClient m w ∈ (run c σ evs).2 → ∃ b, pack c.I m = some b ∧ w = wireOf c.tcp b := by
    intro evs
    induction evs with
    | nil => intro σ hm; simp [run] at hm
    | cons ev evs ih =>
      intro σ hm
      simp only [run, List.mem_append] at hm
      rcases hm with h | h
      · exact hStep _ _ h
      · exact ih _ h
  exact hRun evs _ hmem

/-- **C27 (the announced queries are the client's messages).** The queries announced by one event are, in order, the
    messages the framing extracts from the client's bytes of that event (none for any other event); all of them unless
    an exception ended the loop. -/
theorem announced_queries_are_client_messages (c : Cfg) (acts : List Act) (conns : List Bool) (evs : List Ev) (ev : Ev) :
    let σ := (run c (init acts conns) evs).1
    queriesOf (step c σ ev).2 <+: (match ev with | .clientData d => (extract c.I c.tcp σ.reqBuf d).1 | _ => []) := by
  intro σ
  have hinv : Inv (addonMsgs acts) σ.core := (run_goodT c (addonMsgs acts) evs (init acts conns) (Inv_init acts conns)).1
  by_cases hq : σ.core.phase = .query
  · cases ev with
    | clientData d =>
      have h := (handleMsgs_client_queries c (addonMsgs acts) (extract c.I c.tcp σ.reqBuf d).1 σ.core hinv).1
      simp only [step, hq, ne_eq, not_true_eq_false, if_false, stepClient]
      split
      · exact h
      · split
        · simpa [queriesOf_append, queriesOf, reqOf] using h
        · exact h
    | serverData d =>
      have hp := handleMsgs_server_plain c (extract c.I c.tcp σ.respBuf d).1 σ.core
      simp only [step, hq, ne_eq, not_true_eq_false, if_false, stepServer]
      split
      · split
        · rw [queriesOf_plain hp]; exact List.prefix_refl _
        · split
          · rw [queriesOf_append, queriesOf_plain hp]; simp [queriesOf, reqOf]
          · rw [queriesOf_plain hp]; exact List.prefix_refl _
      · simp [queriesOf]
    | clientClose =>
      simp only [step, hq, ne_eq, not_true_eq_false, if_false]
      split <;> simp [queriesOf, reqOf]
    | serverClose =>
      simp only [step, hq, ne_eq, not_true_eq_false, if_false]
      split <;> simp [queriesOf, reqOf]
  · rw [step_not_query c σ ev hq]; simp [queriesOf]

/-! ### no upstream answer possible: SERVFAIL -/

/-- **C27 (no upstream: SERVFAIL).** A query that no addon answers on a connection without upstream server is
    reported through `dns_error` and answered with the SERVFAIL of exactly this query. -/
theorem no_upstream_servfail (c : Cfg) (σ : State) (d : Bytes) (q : Msg) (hudp : c.tcp = false)
    (hq : σ.core.phase = .query) (hu : unpack c.I d = some q) (hacts : σ.core.acts = []) (hup : c.upstream = false) :
    ∃ w f, pack c.I (servfail q) = some w ∧ f.request = some q ∧
      (step c σ (.clientData d)).2 =
        [.hook .request f, .hook .error { f with error := true }, .toClient (servfail q) (wireOf c.tcp w)] := by
  obtain ⟨w, hw, _⟩ := servfail_bytes c.I d q hu
  refine ⟨w, { flowFor σ.core q.id with request := some q }, hw, rfl, ?_⟩
  have hr := flowFor_response σ.core q.id
  have hne : σ.core.phase ≠ .crashed := by rw [hq]; simp
  simp [step, hq, stepClient, extract, hudp, hu, handleMsgs, hne, clientMsg, handleRequest, popAct, hacts, applyAct, hr,
    hup, handleError, setFlow, sendClient, hw, crashed, wireOf?]

/-- **C27 (upstream unreachable: SERVFAIL).** A query that no addon answers while the upstream server cannot be
    connected is reported through `dns_error` and answered with the SERVFAIL of exactly this query. -/
theorem connect_failure_servfail (c : Cfg) (σ : State) (d : Bytes) (q : Msg) (conns : List Bool) (hudp : c.tcp = false)
    (hq : σ.core.phase = .query) (hu : unpack c.I d = some q) (hacts : σ.core.acts = []) (hup : c.upstream = true)
    (hopen : σ.core.serverOpen = false) (hfail : σ.core.serverFailed = false) (hconn : σ.core.conns = false :: conns) :
    ∃ w f, pack c.I (servfail q) = some w ∧ f.request = some q ∧
      (step c σ (.clientData d)).2 =
        [.hook .request f, .opened .fail, .hook .error { f with error := true }, .toClient (servfail q) (wireOf c.tcp w)] := by
  obtain ⟨w, hw, _⟩ := servfail_bytes c.I d q hu
  refine ⟨w, { flowFor σ.core q.id with request := some q }, hw, rfl, ?_⟩
  have hr := flowFor_response σ.core q.id
  have hne : σ.core.phase ≠ .crashed := by rw [hq]; simp
  have he : (flowFor σ.core q.id).error = false := by
    unfold flowFor
    cases h : σ.core.flows.lookup q.id with
    | none => rfl
    | some f =>
      simp only
      split
      · rfl
      · rename_i hn
        cases hf : f.error with
        | false => rfl
        | true => simp [hf] at hn
  simp [step, hq, stepClient, extract, hudp, hu, handleMsgs, hne, clientMsg, handleRequest, popAct, hacts, applyAct, hr, he,
    hup, hopen, hfail, popConn, hconn, handleError, setFlow, sendClient, hw, crashed, wireOf?]

example : ∃ q, unpack udpNoUpstream.I q2 = some q ∧ (init [] []).core.acts = [] := by decide +kernel

/-! ### TCP framing does not depend on the segmentation -/

/-- what the framing hands to the layer: messages, and the error that ends the stream -/
inductive Item where
  | msg (m : Msg)
  | bad
  deriving DecidableEq, Repr

/-- `_unpack_messages` as a consumer of segments: `none` = the stream has ended with an error -/
def feedRaw (I : Idna) (s : Option Bytes) (seg : Bytes) : Option Bytes × List Item :=
  match s with
  | none => (none, [])
  | some buf =>
    (if (parse I (buf ++ seg)).2.2 then none else some (parse I (buf ++ seg)).2.1,
     (parse I (buf ++ seg)).1.map Item.msg ++ (if (parse I (buf ++ seg)).2.2 then [Item.bad] else []))

/-- a buffer between two `DataReceived` events holds no complete frame -/
def StableS (I : Idna) (s : Option Bytes) : Prop := ∀ x, s = some x → parse I x = ([], x, false)

private theorem feedRaw_stable (I : Idna) (s : Option Bytes) (seg : Bytes) : StableS I (feedRaw I s seg).1 := by
  intro x hx
  cases s with
  | none => simp [feedRaw] at hx
  | some buf =>
    simp only [feedRaw] at hx
    split at hx
    · cases hx
    · cases hx; exact parse_rest_stable I _ _ (Nat.le_refl _)

/-- the framing of one direction as an `Incremental` consumer (Basic/Seg) -/
def framer (I : Idna) : Incremental { s : Option Bytes // StableS I s } Item where
  feed s seg := (⟨(feedRaw I s.1 seg).1, feedRaw_stable I s.1 seg⟩, (feedRaw I s.1 seg).2)

theorem framer_lawful (I : Idna) : (framer I).Lawful := by
  constructor
  · intro ⟨s, hs⟩
    cases s with
    | none => simp [framer, feedRaw]
    | some buf =>
      have := hs buf rfl
      simp [framer, feedRaw, this]
  · intro ⟨s, hs⟩ a b
    cases s with
    | none => simp [framer, feedRaw]
    | some buf =>
      have happ := parse_append I (buf ++ a).length (buf ++ a) b (Nat.le_refl _)
      rw [List.append_assoc] at happ
      by_cases hbad : (parse I (buf ++ a)).2.2 = true
      · rw [if_pos hbad] at happ
        simp [framer, feedRaw, happ, hbad]
      · rw [if_neg hbad] at happ
        have hbad' : (parse I (buf ++ a)).2.2 = false := by simpa using hbad
        simp only [framer, feedRaw, happ, hbad', Bool.false_eq_true, if_false, List.append_nil, List.map_append,
          List.append_assoc]

/-- **C27 (TCP framing ignores segmentation).** The sequence of DNS messages (and the error, if the stream is
    malformed) extracted from a TCP byte stream is the same for any two segmentations of that stream; so is the
    buffer left over. -/
theorem frames_seg_independent (I : Idna) (s : { s : Option Bytes // StableS I s }) (a b : List Bytes)
    (h : a.flatten = b.flatten) : (framer I).feedAll s a = (framer I).feedAll s b :=
  Incremental.seg_independent' (framer I) (framer_lawful I) s a b h

/-- … and it equals what the framing extracts from the stream delivered in one piece -/
theorem frames_seg_independent_whole (I : Idna) (s : { s : Option Bytes // StableS I s }) (segs : List Bytes) :
    (framer I).feedAll s segs = (framer I).feed s segs.flatten :=
  Incremental.seg_independent (framer I) (framer_lawful I) s segs

/-- a fresh connection: empty buffer -/
def fresh (I : Idna) : { s : Option Bytes // StableS I s } := ⟨some [], by intro x hx; cases hx; exact parse_nil I⟩

-- `[len][q1][00 00]` in one piece, split before `00 00`, and byte by byte: the query, then the error
example : ((framer noIdna).feedAll (fresh noIdna) [frame q1 ++ [0, 0]]).2 =
    ((framer noIdna).feedAll (fresh noIdna) [frame q1, [0, 0]]).2 ∧
    ((framer noIdna).feedAll (fresh noIdna) [frame q1 ++ [0, 0]]).2.length = 2 := by decide +kernel

/-! ### the layer as a whole does not depend on the segmentation of the client's stream -/

private theorem stable_step (c : Cfg) (htcp : c.tcp = true) (σ : State) (h : StableC c σ) (d : Bytes) :
    StableC c (step c σ (.clientData d)).1 := by
  rcases step_client_stable c htcp σ d with h' | h'
  · exact h'
  · rw [h']; exact h

/-- the layer fed with the client's segments, as an `Incremental` consumer (Basic/Seg) -/
def clientFeed (c : Cfg) (htcp : c.tcp = true) : Incremental { σ : State // StableC c σ } Out where
  feed σ seg := (⟨(step c σ.1 (.clientData seg)).1, stable_step c htcp σ.1 σ.2 seg⟩, (step c σ.1 (.clientData seg)).2)

theorem clientFeed_lawful (c : Cfg) (htcp : c.tcp = true) : (clientFeed c htcp).Lawful := by
  constructor
  · intro ⟨σ, hσ⟩
    simp only [clientFeed]
    have := step_client_nil c htcp σ hσ
    simp [this]
  · intro ⟨σ, hσ⟩ a b
    simp only [clientFeed]
    have := client_seg_law c htcp σ a b
    simp [this]

private theorem feedAll_run (c : Cfg) (htcp : c.tcp = true) : ∀ (segs : List Bytes) (σ : { σ : State // StableC c σ }),
    run c σ.1 (segs.map .clientData) = (((clientFeed c htcp).feedAll σ segs).1.1, ((clientFeed c htcp).feedAll σ segs).2) := by
  intro segs
  induction segs with
  | nil => intro σ; simp [run, Incremental.feedAll]
  | cons seg segs ih =>
    intro σ
    simp only [List.map_cons, run, Incremental.feedAll]
    rw [ih ⟨(step c σ.1 (.clientData seg)).1, stable_step c htcp σ.1 σ.2 seg⟩]
    simp [clientFeed]

/-- **C27 (the layer ignores segmentation).** Over TCP, for any state whose request buffer holds no complete frame
    (every reachable state, see `reachable_stable`), any two segmentations of the same client byte stream lead to
    the same hooks, the same bytes sent, the same closes — and the same state, whatever the addons do. -/
theorem layer_seg_independent (c : Cfg) (htcp : c.tcp = true) (σ : State) (hσ : StableC c σ) (a b : List Bytes)
    (h : a.flatten = b.flatten) : run c σ (a.map .clientData) = run c σ (b.map .clientData) := by
  rw [feedAll_run c htcp a ⟨σ, hσ⟩, feedAll_run c htcp b ⟨σ, hσ⟩,
    Incremental.seg_independent' (clientFeed c htcp) (clientFeed_lawful c htcp) ⟨σ, hσ⟩ a b h]

/-- every state reached from a fresh layer has a request buffer without complete frame -/
theorem reachable_stable (c : Cfg) (htcp : c.tcp = true) (acts : List Act) (conns : List Bool) (evs : List Ev) :
    StableC c (run c (init acts conns) evs).1 := by
  have hstep : ∀ (σ : State) (ev : Ev), StableC c σ → StableC c (step c σ ev).1 := by
    intro σ ev h
    cases ev with
    | clientData d => exact stable_step c htcp σ h d
    | serverData d =>
      unfold step
      split
      · exact h
      · simp only [stepServer]
        split
        · split
          · simp [StableC, ended, parse_nil]
          · split
            · simp [StableC, ended, parse_nil]
            · exact h
        · exact h
    | clientClose =>
      unfold step
      split
      · exact h
      · simp [StableC, ended, parse_nil]
    | serverClose =>
      unfold step
      split
      · exact h
      · simp only
        split
        · simp [StableC, ended, parse_nil]
        · exact h
  have hrun : ∀ (evs : List Ev) (σ : State), StableC c σ → StableC c (run c σ evs).1 := by
    intro evs
    induction evs with
    | nil => intro σ h; exact h
    | cons ev evs ih => intro σ h; exact ih _ (hstep σ ev h)
  exact hrun evs _ (by simp [StableC, init, parse_nil])

example : run tcp (init [] []) ([frame q1 ++ [0, 0]].map .clientData) =
    run tcp (init [] []) ([frame q1, [0], [0]].map .clientData) :=
  layer_seg_independent tcp rfl _ (by simp [StableC, init, parse_nil]) _ _ (by simp)

/-! ### a malformed length prefix closes the connection -/

/-- **C27 (done is final).** Once the layer has closed a connection (or an exception left it) no event produces
    any output any more. -/
theorem done_is_final (c : Cfg) (σ : State) (h : σ.core.phase ≠ .query) (evs : List Ev) : run c σ evs = (σ, []) := by
  induction evs with
  | nil => rfl
  | cons ev evs ih => simp [run, step_not_query c σ ev h, ih]

private theorem parse_zero_after (I : Idna) (x rest : Bytes) (ms : List Msg) (h : parse I x = (ms, [], false)) :
    parse I (x ++ 0 :: 0 :: rest) = (ms, [], true) := by
  have := parse_append I x.length x (0 :: 0 :: rest) (Nat.le_refl _)
  rw [this, h]
  simp [parse_cons2]

/-- **C27 (a malformed length prefix closes the connection).** Over TCP, when the bytes received from the client
    (buffer plus new segment) consist of complete frames followed by a zero length prefix — whatever follows it and
    however the stream was segmented before — the messages in front of it are handled, then the layer closes the
    client connection and is done for good (unless an exception already left the layer while handling them). -/
theorem bad_length_closes (c : Cfg) (htcp : c.tcp = true) (σ : State) (hq : σ.core.phase = .query) (d x rest : Bytes)
    (ms : List Msg) (hx : σ.reqBuf ++ d = x ++ 0 :: 0 :: rest) (hms : parse c.I x = (ms, [], false)) :
    let r := step c σ (.clientData d)
    r.1.core.phase ≠ .query ∧
    (r.1.core.phase = .done → r.2 = (handleMsgs c true σ.core ms).2 ++ [.closeClient]) ∧
    (r.1.core.phase = .crashed → .crash ∈ r.2) := by
  have hp := parse_zero_after c.I x rest ms hms
  rw [← hx] at hp
  intro r
  have hr : r = (if (handleMsgs c true σ.core ms).1.phase = .crashed then
        (ended (handleMsgs c true σ.core ms).1, (handleMsgs c true σ.core ms).2)
      else (ended { (handleMsgs c true σ.core ms).1 with phase := .done }, (handleMsgs c true σ.core ms).2 ++ [.closeClient])) := by
    simp [r, step, hq, stepClient, extract, htcp, hp]
  by_cases hc : (handleMsgs c true σ.core ms).1.phase = .crashed
  · rw [if_pos hc] at hr
    rw [hr]
    refine ⟨by simp [ended, hc], by simp [ended, hc], ?_⟩
    intro _
    -- a crashed phase comes with a `crash` output
    have key : ∀ (ms : List Msg) (τ : Core), τ.phase ≠ .crashed → (handleMsgs c true τ ms).1.phase = .crashed →
        Out.crash ∈ (handleMsgs c true τ ms).2 := by
      intro ms
      induction ms with
      | nil => intro τ h1 h2; simp [handleMsgs] at h2; exact absurd h2 h1
      | cons m ms ih =>
        intro τ h1 h2
        simp only [handleMsgs, h1, if_false, if_true] at h2 ⊢
        by_cases h3 : (clientMsg c τ m).1.phase = .crashed
        · refine List.mem_append_left _ ?_
          -- the only way into `crashed` is `sendClient`/`sendServer`/a missing request, all of which emit `crash`
          have hsc : ∀ (τ' : Core) (m' : Msg), τ'.phase ≠ .crashed → (sendClient c τ' m').1.phase = .crashed →
              Out.crash ∈ (sendClient c τ' m').2 := by
            intro τ' m' a1 a2
            exact sendClient_crash c τ' m' a1 a2
          have hss : ∀ (τ' : Core) (m' : Msg), τ'.phase ≠ .crashed → (sendServer c τ' m').1.phase = .crashed →
              Out.crash ∈ (sendServer c τ' m').2 := by
            intro τ' m' a1 a2
            unfold sendServer at a2 ⊢
            cases hp : pack c.I m' with
            | none => simp
            | some b =>
              cases hw : wireOf? c.tcp b with
              | none => simp [hw]
              | some w => simp [hp, hw] at a2; exact absurd a2 a1
          have hre : ∀ (τ' : Core) k f m', τ'.phase ≠ .crashed → (handleResponse c τ' k f m').1.phase = .crashed →
              Out.crash ∈ (handleResponse c τ' k f m').2 := by
            intro τ' k f m' a1 a2
            unfold handleResponse at a2 ⊢
            dsimp only at a2 ⊢
            split at a2
            · simp [setFlow, popAct_phase] at a2; exact absurd a2 a1
            · rename_i r hrr
              simp only [hrr]
              exact List.mem_cons_of_mem _ (hsc _ _ (by simp [setFlow, popAct_phase]; exact a1) a2)
          have her : ∀ (τ' : Core) k f, τ'.phase ≠ .crashed → (handleError c τ' k f).1.phase = .crashed →
              Out.crash ∈ (handleError c τ' k f).2 := by
            intro τ' k f a1 a2
            unfold handleError at a2 ⊢
            dsimp only at a2 ⊢
            split
            · simp
            · rename_i q hqq
              simp only [hqq] at a2
              exact List.mem_cons_of_mem _ (hsc _ _ (by simp [setFlow, popAct_phase]; exact a1) a2)
          unfold clientMsg at h3 ⊢
          have a1 : ({ τ with seen := m :: τ.seen } : Core).phase ≠ .crashed := h1
          generalize ({ τ with seen := m :: τ.seen } : Core) = τ0 at h3 a1 ⊢
          have b0 : ∀ f', (setFlow (popAct τ0).2 m.id f').phase ≠ .crashed := by
            intro f'; simp [setFlow, popAct_phase]; exact a1
          unfold handleRequest at h3 ⊢
          dsimp only at h3 ⊢
          split
          · rename_i r hrr
            simp only [hrr] at h3
            exact List.mem_cons_of_mem _ (hre _ _ _ _ (b0 _) h3)
          · rename_i hrr
            simp only [hrr] at h3
            split
            · rename_i hcond
              simp only [hcond, if_true] at h3
              exact List.mem_cons_of_mem _ (her _ _ _ (b0 _) h3)
            · rename_i hcond
              simp only [hcond, if_false] at h3
              split
              · rename_i hso
                simp only [hso, if_true] at h3
                exact List.mem_cons_of_mem _ (hss _ _ (b0 _) h3)
              · rename_i hso
                simp only [hso, if_false] at h3
                split
                · rename_i hsf
                  simp only [hsf, if_true] at h3
                  exact List.mem_cons_of_mem _ (List.mem_cons_of_mem _ (her _ _ _ (b0 _) h3))
                · rename_i hsf
                  simp only [hsf, if_false] at h3
                  split
                  · rename_i hpc
                    simp only [hpc, if_true] at h3
                    exact List.mem_cons_of_mem _ (List.mem_cons_of_mem _ (hss _ _ (by simp [popConn_phase]; exact b0 _) h3))
                  · rename_i hpc
                    simp only [hpc, if_false] at h3
                    exact List.mem_cons_of_mem _ (List.mem_cons_of_mem _ (her _ _ _ (by simp [popConn_phase]; exact b0 _) h3))
        · exact List.mem_append_right _ (ih _ h3 h2)
    exact key ms σ.core (by rw [hq]; simp) hc
  · rw [if_neg hc] at hr
    rw [hr]
    exact ⟨by simp [ended], fun _ => rfl, by simp [ended]⟩

example : (parse noIdna (frame q1)).2 = ([], false) ∧ (parse noIdna (frame q1)).1.length = 1 := by decide +kernel

/-! ### the upstream server's stream: the layer does not depend on its segmentation either -/

private theorem stable_step_server (c : Cfg) (htcp : c.tcp = true) (σ : State) (h : StableR c σ) (d : Bytes) :
    StableR c (step c σ (.serverData d)).1 := by
  rcases step_server_stable c htcp σ d with h' | h'
  · exact h'
  · rw [h']; exact h

/-- the layer fed with the upstream server's segments, as an `Incremental` consumer (Basic/Seg) -/
def serverFeed (c : Cfg) (htcp : c.tcp = true) : Incremental { σ : State // StableR c σ } Out where
  feed σ seg := (⟨(step c σ.1 (.serverData seg)).1, stable_step_server c htcp σ.1 σ.2 seg⟩, (step c σ.1 (.serverData seg)).2)

theorem serverFeed_lawful (c : Cfg) (htcp : c.tcp = true) : (serverFeed c htcp).Lawful := by
  constructor
  · intro ⟨σ, hσ⟩
    simp only [serverFeed]
    have := step_server_nil c htcp σ hσ
    simp [this]
  · intro ⟨σ, hσ⟩ a b
    simp only [serverFeed]
    have := server_seg_law c htcp σ a b
    simp [this]

private theorem feedAll_run_server (c : Cfg) (htcp : c.tcp = true) : ∀ (segs : List Bytes) (σ : { σ : State // StableR c σ }),
    run c σ.1 (segs.map .serverData) = (((serverFeed c htcp).feedAll σ segs).1.1, ((serverFeed c htcp).feedAll σ segs).2) := by
  intro segs
  induction segs with
  | nil => intro σ; simp [run, Incremental.feedAll]
  | cons seg segs ih =>
    intro σ
    simp only [List.map_cons, run, Incremental.feedAll]
    rw [ih ⟨(step c σ.1 (.serverData seg)).1, stable_step_server c htcp σ.1 σ.2 seg⟩]
    simp [serverFeed]

/-- **C27 (the layer ignores the segmentation of the upstream's stream).** Over TCP, in any state whose response
    buffer holds no complete frame (every reachable state, see `reachable_stable_server`) — i.e. for any set of
    pending queries, any remaining addon script — any two segmentations of the same byte stream sent by the upstream
    server lead to the same `dns_response` hooks, the same messages sent to the client, the same closes and the same
    final state. -/
theorem layer_seg_independent_server (c : Cfg) (htcp : c.tcp = true) (σ : State) (hσ : StableR c σ) (a b : List Bytes)
    (h : a.flatten = b.flatten) : run c σ (a.map .serverData) = run c σ (b.map .serverData) := by
  rw [feedAll_run_server c htcp a ⟨σ, hσ⟩, feedAll_run_server c htcp b ⟨σ, hσ⟩,
    Incremental.seg_independent' (serverFeed c htcp) (serverFeed_lawful c htcp) ⟨σ, hσ⟩ a b h]

/-- … in particular the same as for delivery in one piece -/
theorem layer_seg_independent_server_whole (c : Cfg) (htcp : c.tcp = true) (σ : State) (hσ : StableR c σ) (segs : List Bytes) :
    run c σ (segs.map .serverData) = step c σ (.serverData segs.flatten) := by
  rw [feedAll_run_server c htcp segs ⟨σ, hσ⟩,
    Incremental.seg_independent (serverFeed c htcp) (serverFeed_lawful c htcp) ⟨σ, hσ⟩ segs]
  rfl

/-- every state reached from a fresh layer has a response buffer without complete frame -/
theorem reachable_stable_server (c : Cfg) (htcp : c.tcp = true) (acts : List Act) (conns : List Bool) (evs : List Ev) :
    StableR c (run c (init acts conns) evs).1 := by
  have hstep : ∀ (σ : State) (ev : Ev), StableR c σ → StableR c (step c σ ev).1 := by
    intro σ ev h
    cases ev with
    | serverData d => exact stable_step_server c htcp σ h d
    | clientData d =>
      unfold step
      split
      · exact h
      · simp only [stepClient]
        split
        · simp [StableR, ended, parse_nil]
        · split
          · simp [StableR, ended, parse_nil]
          · exact h
    | clientClose =>
      unfold step
      split
      · exact h
      · simp [StableR, ended, parse_nil]
    | serverClose =>
      unfold step
      split
      · exact h
      · simp only
        split
        · simp [StableR, ended, parse_nil]
        · exact h
  have hrun : ∀ (evs : List Ev) (σ : State), StableR c σ → StableR c (run c σ evs).1 := by
    intro evs
    induction evs with
    | nil => intro σ h; exact h
    | cons ev evs ih => intro σ h; exact ih _ (hstep σ ev h)
  exact hrun evs _ (by simp [StableR, init, parse_nil])

-- two pending queries; `[r1][bad frame]` from the upstream whole, split after r1 and split inside the length prefix
example : run tcp (init [] []) (.clientData (frame q1 ++ frame q2) :: [frame r1 ++ [0, 0]].map .serverData) =
    run tcp (init [] []) (.clientData (frame q1 ++ frame q2) :: [frame r1, [0], [0]].map .serverData) := by
  simp only [run]
  congr 1
  · congr 1
    exact layer_seg_independent_server tcp rfl _
      (reachable_stable_server tcp rfl [] [] [.clientData (frame q1 ++ frame q2)]) _ _ (by simp)
  · congr 1
    exact congrArg Prod.snd (layer_seg_independent_server tcp rfl _
      (reachable_stable_server tcp rfl [] [] [.clientData (frame q1 ++ frame q2)]) _ _ (by simp))

/-- **C27 (a malformed length prefix from the upstream closes its connection).** Over TCP, when the bytes received
    from the open upstream connection consist of complete frames followed by a zero length prefix, the replies in
    front of it are handled, then the layer closes the server connection and is done for good (unless an exception
    already left the layer while handling them). -/
theorem bad_length_closes_server (c : Cfg) (htcp : c.tcp = true) (σ : State) (hq : σ.core.phase = .query)
    (ho : σ.core.serverOpen = true) (d x rest : Bytes) (ms : List Msg)
    (hx : σ.respBuf ++ d = x ++ 0 :: 0 :: rest) (hms : parse c.I x = (ms, [], false)) :
    let r := step c σ (.serverData d)
    r.1.core.phase ≠ .query ∧
    (r.1.core.phase = .done → r.2 = (handleMsgs c false σ.core ms).2 ++ [.closeServer] ∧ r.1.core.serverOpen = false) ∧
    (r.1.core.phase = .crashed → .crash ∈ r.2) := by
  have hp := parse_zero_after c.I x rest ms hms
  rw [← hx] at hp
  intro r
  have hr : r = (if (handleMsgs c false σ.core ms).1.phase = .crashed then
        (ended (handleMsgs c false σ.core ms).1, (handleMsgs c false σ.core ms).2)
      else (ended { (handleMsgs c false σ.core ms).1 with phase := .done, serverOpen := false },
            (handleMsgs c false σ.core ms).2 ++ [.closeServer])) := by
    simp [r, step, hq, ho, stepServer, extract, htcp, hp]
  by_cases hc : (handleMsgs c false σ.core ms).1.phase = .crashed
  · rw [if_pos hc] at hr
    rw [hr]
    exact ⟨by simp [ended, hc], by simp [ended, hc],
      fun _ => handleMsgs_server_crash c ms σ.core (by rw [hq]; simp) hc⟩
  · rw [if_neg hc] at hr
    rw [hr]
    exact ⟨by simp [ended], fun _ => ⟨rfl, rfl⟩, by simp [ended]⟩

/-! ### arbitrary interleavings: only the bytes between two changes of direction matter -/

/-- merge `cur` with the data events of the same direction that follow it directly -/
def coalesceInto : Ev → List Ev → List Ev
  | cur, [] => [cur]
  | cur, ev :: rest =>
    match cur, ev with
    | .clientData a, .clientData b => coalesceInto (.clientData (a ++ b)) rest
    | .serverData a, .serverData b => coalesceInto (.serverData (a ++ b)) rest
    | _, _ => cur :: coalesceInto ev rest

/-- the schedule with every maximal run of segments of one direction delivered in one piece; the order of everything
    else (which bytes of the client precede which bytes of the server, closes) is kept -/
def coalesce : List Ev → List Ev
  | [] => []
  | ev :: rest => coalesceInto ev rest

private theorem run_merge_client (c : Cfg) (htcp : c.tcp = true) (σ : State) (a b : Bytes) (rest : List Ev) :
    run c σ (.clientData (a ++ b) :: rest) = run c σ (.clientData a :: .clientData b :: rest) := by
  simp only [run, client_seg_law c htcp σ a b, List.append_assoc]

private theorem run_merge_server (c : Cfg) (htcp : c.tcp = true) (σ : State) (a b : Bytes) (rest : List Ev) :
    run c σ (.serverData (a ++ b) :: rest) = run c σ (.serverData a :: .serverData b :: rest) := by
  simp only [run, server_seg_law c htcp σ a b, List.append_assoc]

private theorem run_coalesceInto (c : Cfg) (htcp : c.tcp = true) : ∀ (rest : List Ev) (cur : Ev) (σ : State),
    run c σ (coalesceInto cur rest) = run c σ (cur :: rest) := by
  intro rest
  induction rest with
  | nil => intro cur σ; rfl
  | cons ev rest ih =>
    intro cur σ
    have other : run c σ (cur :: coalesceInto ev rest) = run c σ (cur :: ev :: rest) := by
      simp only [run]; rw [ih ev]; simp only [run]
    cases cur with
    | clientData a =>
      cases ev with
      | clientData b => simp only [coalesceInto]; rw [ih, run_merge_client c htcp]
      | _ => simpa only [coalesceInto] using other
    | serverData a =>
      cases ev with
      | serverData b => simp only [coalesceInto]; rw [ih, run_merge_server c htcp]
      | _ => simpa only [coalesceInto] using other
    | clientClose => cases ev <;> simpa only [coalesceInto] using other
    | serverClose => cases ev <;> simpa only [coalesceInto] using other

/-- **C27 (segmentation never matters, in any interleaving).** Over TCP, from any state and for any schedule of
    client segments, server segments and closes: delivering every maximal run of consecutive segments of one direction
    in one piece changes nothing — same hooks, same bytes sent, same closes, same final state. -/
theorem run_coalesce (c : Cfg) (htcp : c.tcp = true) (σ : State) (evs : List Ev) :
    run c σ (coalesce evs) = run c σ evs := by
  cases evs with
  | nil => rfl
  | cons ev rest => exact run_coalesceInto c htcp rest ev σ

/-- **C27 (interleaved schedules that differ only in segmentation are indistinguishable).** Two schedules in which
    client and server bytes are interleaved in the same way — the same bytes between any two changes of direction, the
    same closes at the same places, so every reply byte keeps its position relative to the query bytes — but which
    are cut into segments differently, lead to the same hooks, the same bytes sent to client and server, the same
    closes and the same final state, whatever the addons and the connect attempts do. -/
theorem interleaved_seg_independent (c : Cfg) (htcp : c.tcp = true) (σ : State) (evs evs' : List Ev)
    (h : coalesce evs = coalesce evs') : run c σ evs = run c σ evs' := by
  rw [← run_coalesce c htcp σ evs, ← run_coalesce c htcp σ evs', h]

-- query cut inside its length prefix, reply cut in three, trailing garbage byte by byte: same as whole delivery
example : coalesce [.clientData [0], .clientData (frame q1).tail, .serverData (frame r1 ++ [0]), .serverData [0], .clientClose] =
    coalesce [.clientData (frame q1), .serverData [0], .serverData (frame r1).tail, .serverData [0, 0], .clientClose] := by
  decide +kernel

/-- every segmentation of a stream coalesces to the stream in one piece (so `interleaved_seg_independent` relates
    every two segmentations of the same interleaved byte streams) -/
theorem coalesce_segments (a : Bytes) (segs : List Bytes) :
    coalesce ((a :: segs).map .clientData) = [.clientData (a :: segs).flatten] ∧
    coalesce ((a :: segs).map .serverData) = [.serverData (a :: segs).flatten] := by
  constructor
  · simp only [List.map_cons, coalesce]
    induction segs generalizing a with
    | nil => simp [coalesceInto]
    | cons b segs ih => simp only [List.map_cons, coalesceInto]; rw [ih]; simp
  · simp only [List.map_cons, coalesce]
    induction segs generalizing a with
    | nil => simp [coalesceInto]
    | cons b segs ih => simp only [List.map_cons, coalesceInto]; rw [ih]; simp

/-! ### what the layer does with upstream replies nobody is waiting for -/

private theorem reach (c : Cfg) (acts : List Act) (conns : List Bool) (evs : List Ev) :
    Inv (addonMsgs acts) (run c (init acts conns) evs).1.core ∧
    (run c (init acts conns) evs).1.core.seen = (queriesOf (run c (init acts conns) evs).2).reverse := by
  have h := run_goodT c (addonMsgs acts) evs (init acts conns) (Inv_init acts conns)
  exact ⟨h.1, by simpa [init] using h.2.1⟩

private theorem stray_core (c : Cfg) (A : List Msg) (σ : State) (hinv : Inv A σ.core) (d : Bytes)
    (huns : ∀ m ∈ (extract c.I c.tcp σ.respBuf d).1, ¬ Solicited σ.core m) :
    (step c σ (.serverData d)).2 =
        (if σ.core.phase = .query ∧ σ.core.serverOpen = true ∧ (extract c.I c.tcp σ.respBuf d).2.2 = true then [.closeServer] else []) ∧
    ((extract c.I c.tcp σ.respBuf d).2.2 = false → (step c σ (.serverData d)).1 =
        (if σ.core.phase = .query ∧ σ.core.serverOpen = true then { σ with respBuf := (extract c.I c.tcp σ.respBuf d).2.1 } else σ)) := by
  have hmsgs := handleMsgs_unsolicited c A (extract c.I c.tcp σ.respBuf d).1 σ.core hinv huns
  by_cases hq : σ.core.phase = .query
  · by_cases ho : σ.core.serverOpen = true
    · have hne : σ.core.phase ≠ .crashed := by rw [hq]; simp
      have hst : step c σ (.serverData d) = stepServer c σ d := by simp [step, hq, ho]
      rw [hst]
      unfold stepServer
      simp only [hmsgs, hne, if_false, hq, ho, true_and]
      generalize extract c.I c.tcp σ.respBuf d = x
      cases hb : x.2.2 <;> simp
    · simp [step, hq, ho]
  · rw [step_not_query c σ _ hq]; simp [hq]

/-- **C27 (stray upstream replies, every history).** After any history, when the upstream sends data in which no
    message has both the id and the question section of a query the client has sent on this connection — unsolicited
    ids, replies for another question, replies for an id whose query was answered and re-used for another question —
    then no hook fires and nothing is sent to the client; the only possible output is closing the upstream after a
    malformed frame. The state is untouched except that the TCP de-framer advances exactly as for solicited data:
    complete stray frames are consumed, an incomplete one stays buffered (so a stray frame split over several segments,
    with anything in between, cannot shift the framing of later replies). -/
theorem stray_reply_ignored (c : Cfg) (acts : List Act) (conns : List Bool) (evs : List Ev) (d : Bytes) :
    let σ := (run c (init acts conns) evs).1
    let x := extract c.I c.tcp σ.respBuf d
    (∀ m ∈ x.1, ∀ q ∈ queriesOf (run c (init acts conns) evs).2, ¬ (q.id = m.id ∧ q.questions = m.questions)) →
    (step c σ (.serverData d)).2 =
        (if σ.core.phase = .query ∧ σ.core.serverOpen = true ∧ x.2.2 = true then [.closeServer] else []) ∧
    (x.2.2 = false → (step c σ (.serverData d)).1 =
        (if σ.core.phase = .query ∧ σ.core.serverOpen = true then { σ with respBuf := x.2.1 } else σ)) := by
  intro σ x hstray
  obtain ⟨hinv, hseen⟩ := reach c acts conns evs
  have huns : ∀ m ∈ x.1, ¬ Solicited σ.core m := by
    intro m hm hs
    obtain ⟨q, h1, h2, h3⟩ := Solicited_seen hinv hs
    exact hstray m hm q (by rw [hseen] at h1; simpa using h1) ⟨h2, h3⟩
  exact stray_core c (addonMsgs acts) σ hinv d huns

/-- **C27 (which upstream replies are handled).** In every reachable state a message from the upstream is handled
    (`dns_response` hook, then sent to the client unless an addon clears it) exactly if the flow table holds, under the
    message's id, a flow whose request has the same question section — a first reply and a duplicate of it alike —
    and is ignored without any effect otherwise. -/
theorem upstream_reply_cases (c : Cfg) (acts : List Act) (conns : List Bool) (evs : List Ev) (m : Msg) :
    let σ := (run c (init acts conns) evs).1.core
    (∀ f q, σ.flows.lookup m.id = some f → f.request = some q → m.questions = q.questions →
        serverMsg c σ m = handleResponse c σ m.id f m) ∧
    (¬ Solicited σ m → serverMsg c σ m = (σ, [])) := by
  intro σ
  exact ⟨fun f q hl hr hq => serverMsg_solicited c σ m f q hl hr hq,
         fun h => serverMsg_unsolicited c (addonMsgs acts) σ m (reach c acts conns evs).1 h⟩

/-- **C27 (a buffered upstream segment commutes with client data).** Over TCP with the upstream open: an upstream
    segment that completes no frame (e.g. the first part of a stray or solicited reply) and a following client segment
    can be delivered in either order — same hooks, same bytes sent, same final state. -/
theorem buffered_server_segment_commutes (c : Cfg) (htcp : c.tcp = true) (σ : State) (s x : Bytes)
    (hq : σ.core.phase = .query) (ho : σ.core.serverOpen = true)
    (hnone : (parse c.I (σ.respBuf ++ s)).1 = []) (hok : (parse c.I (σ.respBuf ++ s)).2.2 = false) :
    run c σ [.serverData s, .clientData x] = run c σ [.clientData x, .serverData s] :=
  buffered_server_commutes c htcp σ s x hq ho hnone hok

/-- **C27 (a frame split around a client query is harmless).** … hence an upstream frame whose first part arrives
    before a client segment and whose rest (followed by anything) arrives after it is handled exactly as if all of it
    had arrived after the client segment in one piece. -/
theorem split_frame_around_query (c : Cfg) (htcp : c.tcp = true) (σ : State) (s1 s2 x : Bytes)
    (hq : σ.core.phase = .query) (ho : σ.core.serverOpen = true)
    (hnone : (parse c.I (σ.respBuf ++ s1)).1 = []) (hok : (parse c.I (σ.respBuf ++ s1)).2.2 = false) :
    run c σ [.serverData s1, .clientData x, .serverData s2] = run c σ [.clientData x, .serverData (s1 ++ s2)] := by
  have h1 : run c σ [.serverData s1, .clientData x, .serverData s2] =
      ((run c (run c σ [.serverData s1, .clientData x]).1 [.serverData s2]).1,
       (run c σ [.serverData s1, .clientData x]).2 ++ (run c (run c σ [.serverData s1, .clientData x]).1 [.serverData s2]).2) := by
    simp [run, List.append_assoc]
  rw [h1, buffered_server_commutes c htcp σ s1 x hq ho hnone hok]
  have h2 : ∀ τ : State, run c τ [.clientData x, .serverData (s1 ++ s2)] = run c τ [.clientData x, .serverData s1, .serverData s2] := by
    intro τ
    simp only [run, server_seg_law c htcp _ s1 s2, List.append_nil, List.append_assoc]
  rw [h2]
  simp [run, List.append_assoc]

-- c27-3's scenario: q1 answered; a stray duplicate of r1 arrives in two pieces around the client's q2; then the reply to q2
example : outsOf tcp [] [] [.clientData (frame q1), .serverData (frame r1), .serverData ((frame r1).take 7),
      .clientData (frame q2), .serverData ((frame r1).drop 7 ++ frame r77)] =
    ["request", "open", "server:1", "response", "client:1:0", "request", "server:2", "response", "client:1:0"] := by
  decide +kernel

/-! ### the question SECTION is compared, not a single question -/

/-- **C27 (the whole question section decides).** A message from the upstream whose id has a flow but whose question
    section differs from that flow's query in any way — another number of questions (none, two, three …), another
    order, one question with another name, type or class — has no effect at all: no hook, nothing sent, state
    unchanged. (Seed c27-5 compared `DNSMessage.question`, which is `None` for every message that does not carry
    exactly one question.) -/
theorem reply_with_other_question_section_ignored (c : Cfg) (σ : Core) (m : Msg) (f : Flow) (q : Msg)
    (hl : σ.flows.lookup m.id = some f) (hr : f.request = some q) (hne : m.questions ≠ q.questions) :
    serverMsg c σ m = (σ, []) := by
  unfold serverMsg
  simp [hl, hr, hne]

/-- id 5, no question -/
def q0 : Bytes := [0,5, 1,0, 0,0, 0,0, 0,0, 0,0]
def r0 : Bytes := [0,5, 0x81,0x80, 0,0, 0,0, 0,0, 0,0]
/-- id 5, two questions `a. A IN`, `b. AAAA IN` — and the reply with the same / the exchanged questions -/
def q2q : Bytes := [0,5, 1,0, 0,2, 0,0, 0,0, 0,0, 1,0x61,0, 0,1, 0,1, 1,0x62,0, 0,28, 0,1]
def r2q : Bytes := [0,5, 0x81,0x80, 0,2, 0,0, 0,0, 0,0, 1,0x61,0, 0,1, 0,1, 1,0x62,0, 0,28, 0,1]
def r2p : Bytes := [0,5, 0x81,0x80, 0,2, 0,0, 0,0, 0,0, 1,0x62,0, 0,28, 0,1, 1,0x61,0, 0,1, 0,1]

-- pending query with two questions: exchanged questions and an empty section are dropped, the equal section is forwarded
example : outsOf udp [] [] [.clientData q2q, .serverData r2p, .serverData r0, .serverData r2q] =
    ["request", "open", "server:5", "response", "client:5:0"] := by decide +kernel
-- pending query without question: a reply with two questions is dropped, the one without question is forwarded
example : outsOf udp [] [] [.clientData q0, .serverData r2q, .serverData r0] =
    ["request", "open", "server:5", "response", "client:5:0"] := by decide +kernel

/-! ### whole histories: what follows `dns_error` and a failed connect; exceptions -/

private theorem run_shape (K : Prop) (c : Cfg) (hD : DFits K c) (acts : List Act) (conns : List Bool) (evs : List Ev)
    (h : ∀ m ∈ addonMsgs acts, K ∨ Fits c m) : Shape K c (run c (init acts conns) evs).2 :=
  (run_goodS K c hD evs (init acts conns) ⟨by intro k f hm; simp [init] at hm, h⟩).2

/-- **C27 (SERVFAIL after every `dns_error`, every history).** Whatever the client, the upstream and the addons do:
    directly after every `dns_error` hook the layer sends to the client the SERVFAIL (`servfail_fields`: id, question
    section, opcode and RD kept, QR=1, RCODE=2; `servfail_bytes`: it decodes to itself) of the flow's request, which is
    a query decoded from the client's bytes.  The SERVFAIL always encodes; the ONLY other outcome is the exception
    `pack_message` raises over TCP when that encoding is longer than 65535 bytes (the query's compressed question names
    expanded) — always sent over UDP (`error_hook_then_servfail_udp`).
    (Round 6: the former statement had no second outcome; it was true of the model only because `frame` wrapped the
    length silently where `struct.pack("!H", …)` raises.) -/
theorem error_hook_then_servfail (c : Cfg) (acts : List Act) (conns : List Bool) (evs : List Ev)
    (pre post : List Out) (f : Flow) (htr : (run c (init acts conns) evs).2 = pre ++ .hook .error f :: post) :
    ∃ q, f.request = some q ∧ (∃ w, unpack c.I w = some q) ∧
      ((∃ b w, pack c.I (servfail q) = some b ∧ wireOf? c.tcp b = some w ∧ post.head? = some (.toClient (servfail q) w)) ∨
       (¬ Fits c (servfail q) ∧ post.head? = some .crash)) := by
  have hs := run_shape True c (fun _ _ => ⟨Or.inl trivial, Or.inl trivial⟩) acts conns evs (fun _ _ => Or.inl trivial)
  rw [htr] at hs
  obtain ⟨q, h1, h2, h3⟩ := Shape_at pre _ post hs
  refine ⟨q, h1, h2, ?_⟩
  rcases h3 with h | ⟨_, h4, h5⟩
  · exact Or.inl h
  · exact Or.inr ⟨h4, h5⟩

/-- over UDP there is no second outcome -/
theorem error_hook_then_servfail_udp (c : Cfg) (hudp : c.tcp = false) (acts : List Act) (conns : List Bool) (evs : List Ev)
    (pre post : List Out) (f : Flow) (htr : (run c (init acts conns) evs).2 = pre ++ .hook .error f :: post) :
    ∃ q b, f.request = some q ∧ (∃ w, unpack c.I w = some q) ∧ pack c.I (servfail q) = some b ∧
      post.head? = some (.toClient (servfail q) (wireOf c.tcp b)) := by
  obtain ⟨q, h1, h2, h3⟩ := error_hook_then_servfail c acts conns evs pre post f htr
  rcases h3 with ⟨b, w, hb, hw, hp⟩ | ⟨hn, _⟩
  · refine ⟨q, b, h1, h2, hb, ?_⟩
    have : w = wireOf c.tcp b := by
      unfold wireOf? at hw
      split at hw
      · cases hw
      · cases hw; rfl
    rw [← this]; exact hp
  · exact absurd (Fits_udp hudp (Decoded.servfail_packable h2)) hn

/-- **C27 (no upstream answer possible ⇒ `dns_error`, every history).** Every failed attempt to connect to the upstream
    — refused, or killed because an earlier attempt on this connection had failed — is directly followed by the
    `dns_error` hook (and hence, by `error_hook_then_servfail`, by the SERVFAIL of the query). -/
theorem failed_connect_then_error_hook (c : Cfg) (acts : List Act) (conns : List Bool) (evs : List Ev)
    (pre post : List Out) (r : OpenRes) (hr : r = .fail ∨ r = .killed)
    (htr : (run c (init acts conns) evs).2 = pre ++ .opened r :: post) :
    ∃ f, post.head? = some (.hook .error f) := by
  have hs := run_shape True c (fun _ _ => ⟨Or.inl trivial, Or.inl trivial⟩) acts conns evs (fun _ _ => Or.inl trivial)
  rw [htr] at hs
  have := Shape_at pre _ post hs
  rcases hr with h | h <;> rw [h] at this <;> exact this

/-- **C27 (an exception leaves the layer only when a message cannot be put on the wire).** In every history: if the
    layer raises, then some message it had to send — a response set by an addon, a decoded client query or upstream reply,
    or the SERVFAIL of a decoded query — does not `Fit`: `DNSMessage.packed` raises on it (possible for addon-made
    messages only) or, over TCP, its encoding exceeds the 65535 bytes of the length prefix.  No other source of
    exceptions exists (in particular no handler ever meets a flow without request). -/
theorem layer_raises_only_on_unencodable (c : Cfg) (acts : List Act) (conns : List Bool) (evs : List Ev)
    (hcr : Out.crash ∈ (run c (init acts conns) evs).2) :
    ∃ m, (m ∈ addonMsgs acts ∨ (∃ w, unpack c.I w = some m) ∨ (∃ q, (∃ w, unpack c.I w = some q) ∧ m = servfail q)) ∧
      ¬ Fits c m := by
  apply Classical.byContradiction
  intro hno
  have hall : ∀ m, (m ∈ addonMsgs acts ∨ Decoded c.I m ∨ (∃ q, Decoded c.I q ∧ m = servfail q)) → Fits c m := by
    intro m hm
    apply Classical.byContradiction
    intro hf
    exact hno ⟨m, hm, hf⟩
  have hs := run_shape False c (fun m hm => ⟨Or.inr (hall m (Or.inr (Or.inl hm))), Or.inr (hall _ (Or.inr (Or.inr ⟨m, hm, rfl⟩)))⟩)
    acts conns evs (fun m hm => Or.inr (hall m (Or.inl hm)))
  obtain ⟨pre, post, he⟩ := List.append_of_mem hcr
  rw [he] at hs
  exact Shape_at pre _ post hs

/-- **C27 (the layer never raises).** If every response the addon script sets can be put on the wire, and — over TCP — every
    decoded message and the SERVFAIL of every decoded query re-encode within 65535 bytes (`DFits False c`; nothing to
    assume over UDP: `layer_never_raises_udp`), then in no history does an exception leave the layer.
    (Round 6: the former hypothesis "`pack` succeeds on the addons' responses" was not enough over TCP — the model's `frame`
    wrapped the length where `pack_message` raises struct.error.) -/
theorem layer_never_raises (c : Cfg) (acts : List Act) (conns : List Bool) (evs : List Ev)
    (hadd : ∀ m ∈ addonMsgs acts, Fits c m) (hsmall : DFits False c) : Out.crash ∉ (run c (init acts conns) evs).2 := by
  have hs := run_shape False c hsmall acts conns evs (fun m hm => Or.inr (hadd m hm))
  intro hmem
  obtain ⟨pre, post, he⟩ := List.append_of_mem hmem
  rw [he] at hs
  exact Shape_at pre _ post hs

/-- over UDP the former statement stands as it was: encodable addon responses suffice -/
theorem layer_never_raises_udp (c : Cfg) (hudp : c.tcp = false) (acts : List Act) (conns : List Bool) (evs : List Ev)
    (hadd : ∀ m ∈ addonMsgs acts, ∃ b, pack c.I m = some b) : Out.crash ∉ (run c (init acts conns) evs).2 :=
  layer_never_raises c acts conns evs (fun m hm => Fits_udp hudp (hadd m hm))
    (fun m hm => ⟨Or.inr (Fits_udp hudp hm.packable), Or.inr (Fits_udp hudp hm.servfail_packable)⟩)

example : Out.crash ∉ (run udp (init [.err, .clear] [false]) [.clientData q1, .serverData r1, .clientData q2]).2 :=
  layer_never_raises_udp udp rfl _ _ _ (by intro m hm; simp [addonMsgs] at hm)

/-- **C27 (no upstream ⇒ an addon's response or `dns_error`, every history).** On a connection without upstream
    server, every `dns_request` hook is directly followed by `dns_response` (an addon has set a response) or by
    `dns_error` (and hence by the SERVFAIL of the query, `error_hook_then_servfail`). -/
theorem no_upstream_request_then_response_or_error (c : Cfg) (hup : c.upstream = false) (acts : List Act) (conns : List Bool)
    (evs : List Ev) (pre post : List Out) (f : Flow)
    (htr : (run c (init acts conns) evs).2 = pre ++ .hook .request f :: post) :
    (∃ f', post.head? = some (.hook .response f')) ∨ (∃ f', post.head? = some (.hook .error f')) := by
  have hs := run_shape2 c hup evs (init acts conns)
  rw [htr] at hs
  have h := Shape2_at pre _ post hs
  obtain ⟨q, hq, _, _⟩ := flow_has_query c acts conns evs pre post .request f htr
  rcases h with h | h
  · rw [hq] at h; cases h
  · cases hp : post.head? with
    | none => rw [hp] at h; exact absurd h (by simp [isRespOrErrHook])
    | some o =>
      rw [hp] at h
      cases o with
      | hook hk f' =>
        cases hk with
        | request => exact absurd h (by simp [isRespOrErrHook])
        | response => exact Or.inl ⟨f', rfl⟩
        | error => exact Or.inr ⟨f', rfl⟩
      | _ => exact absurd h (by simp [isRespOrErrHook])

/-- **C27 (a malformed length prefix closes the connection, every history, no alternative).** After any history in which
    the layer is still serving, over TCP, if the addons' responses can be put on the wire and (TCP) every decoded message re-encodes within 65535 bytes (`DFits False c`): when the client's bytes (buffer plus new
    segment) are complete frames followed by a zero length prefix, the messages in front of it are handled, then the
    client connection is closed and the layer is done — the `crashed` alternative of `bad_length_closes` cannot occur. -/
theorem bad_length_closes_history (c : Cfg) (htcp : c.tcp = true) (acts : List Act) (conns : List Bool) (evs : List Ev)
    (hadd : ∀ m ∈ addonMsgs acts, Fits c m) (hsmall : DFits False c) (d x rest : Bytes) (ms : List Msg)
    (hq : (run c (init acts conns) evs).1.core.phase = .query)
    (hx : (run c (init acts conns) evs).1.reqBuf ++ d = x ++ 0 :: 0 :: rest) (hms : parse c.I x = (ms, [], false)) :
    (step c (run c (init acts conns) evs).1 (.clientData d)).1.core.phase = .done ∧
    (step c (run c (init acts conns) evs).1 (.clientData d)).2 =
      (handleMsgs c true (run c (init acts conns) evs).1.core ms).2 ++ [.closeClient] := by
  obtain ⟨h1, h2, h3⟩ := bad_length_closes c htcp _ hq d x rest ms hx hms
  have hnc := layer_never_raises c acts conns (evs ++ [.clientData d]) hadd hsmall
  rw [run_snoc] at hnc
  have hdone : (step c (run c (init acts conns) evs).1 (.clientData d)).1.core.phase = .done := by
    cases hp : (step c (run c (init acts conns) evs).1 (.clientData d)).1.core.phase with
    | query => exact absurd hp h1
    | done => rfl
    | crashed => exact absurd (List.mem_append_right _ (h3 hp)) hnc
  exact ⟨hdone, h2 hdone⟩

/-- … and the same for the upstream's stream -/
theorem bad_length_closes_server_history (c : Cfg) (htcp : c.tcp = true) (acts : List Act) (conns : List Bool) (evs : List Ev)
    (hadd : ∀ m ∈ addonMsgs acts, Fits c m) (hsmall : DFits False c) (d x rest : Bytes) (ms : List Msg)
    (hq : (run c (init acts conns) evs).1.core.phase = .query) (ho : (run c (init acts conns) evs).1.core.serverOpen = true)
    (hx : (run c (init acts conns) evs).1.respBuf ++ d = x ++ 0 :: 0 :: rest) (hms : parse c.I x = (ms, [], false)) :
    (step c (run c (init acts conns) evs).1 (.serverData d)).1.core.phase = .done ∧
    (step c (run c (init acts conns) evs).1 (.serverData d)).2 =
      (handleMsgs c false (run c (init acts conns) evs).1.core ms).2 ++ [.closeServer] := by
  obtain ⟨h1, h2, h3⟩ := bad_length_closes_server c htcp _ hq ho d x rest ms hx hms
  have hnc := layer_never_raises c acts conns (evs ++ [.serverData d]) hadd hsmall
  rw [run_snoc] at hnc
  have hdone : (step c (run c (init acts conns) evs).1 (.serverData d)).1.core.phase = .done := by
    cases hp : (step c (run c (init acts conns) evs).1 (.serverData d)).1.core.phase with
    | query => exact absurd hp h1
    | done => rfl
    | crashed => exact absurd (List.mem_append_right _ (h3 hp)) hnc
  exact ⟨hdone, (h2 hdone).1⟩

/-! ### asynchronous hooks: `Layer.handle_event` pauses and queues, the outcome is the sequential one -/

/-- a layer between two events: nothing suspended, nothing queued -/
def idle (σ : State) : AState := { σ := σ }

/-- **C27 (pause-and-queue = one after the other).** For EVERY schedule of arriving connection events and completions of
    the hook the layer is paused on (`Layer.handle_event`, `__process`, `__continue` of `proxy/layer.py`): what the layer
    has emitted so far, followed by what it still owes (the rest of the suspended handler, then the queued events in
    order), is exactly what handling the arrived events one after the other (`run`) emits; and the state it settles in is
    the sequential one.  So every theorem above about `run` holds under asynchronous hook completion. -/
theorem async_equals_sequential (c : Cfg) (σ : State) (sch : List AEv) :
    (arun c (idle σ) sch).2 ++ owed c (arun c (idle σ) sch).1 = (run c σ (arrivals sch)).2 ∧
    settled c (arun c (idle σ) sch).1 = (run c σ (arrivals sch)).1 := by
  obtain ⟨h1, h2, _⟩ := arun_spec c sch (idle σ) (fun _ => rfl)
  simp only [owed, settled, idle, run, Option.getD_none, List.flatten_nil, List.nil_append] at h1 h2
  exact ⟨by simpa [owed, idle] using h1, by simpa [settled, idle] using h2⟩

/-- … in particular once the layer is idle again it has emitted exactly the sequential trace and is in the sequential
    state, with an empty queue. -/
theorem async_quiescent (c : Cfg) (σ : State) (sch : List AEv) (hidle : (arun c (idle σ) sch).1.paused = none) :
    (arun c (idle σ) sch).2 = (run c σ (arrivals sch)).2 ∧ (arun c (idle σ) sch).1.σ = (run c σ (arrivals sch)).1 ∧
    (arun c (idle σ) sch).1.queue = [] := by
  obtain ⟨h1, h2, h3⟩ := arun_spec c sch (idle σ) (fun _ => rfl)
  have hq := h3 hidle
  have e1 : owed c (arun c (idle σ) sch).1 = [] := by simp [owed, hidle, hq, run]
  have e2 : settled c (arun c (idle σ) sch).1 = (arun c (idle σ) sch).1.σ := by simp [settled, hq, run]
  have e3 : owed c (idle σ) = [] := by simp [owed, idle, run]
  have e4 : settled c (idle σ) = σ := by simp [settled, idle, run]
  rw [e1, e3, e4] at h1
  rw [e2, e4] at h2
  exact ⟨by simpa using h1, h2, hq⟩

/-- **C27 (replies answer queries, asynchronous hooks).** `reply_answers_query` for what the layer emits under any
    schedule of arrivals and hook completions, at any moment (also while a hook is pending and events are queued). -/
theorem async_reply_answers_query (c : Cfg) (acts : List Act) (conns : List Bool) (sch : List AEv)
    (pre post : List Out) (m : Msg) (w : Bytes)
    (htr : (arun c (idle (init acts conns)) sch).2 = pre ++ .toClient m w :: post) :
    m ∈ addonMsgs acts ∨ ∃ q ∈ queriesOf pre, q.id = m.id ∧ q.questions = m.questions := by
  have h := (async_equals_sequential c (init acts conns) sch).1
  rw [htr, List.append_assoc, List.cons_append] at h
  exact reply_answers_query c acts conns (arrivals sch) pre _ m w h.symm

/-- **C27 (flows carry their query, asynchronous hooks).** `flow_has_query` under any schedule of arrivals and hook
    completions. -/
theorem async_flow_has_query (c : Cfg) (acts : List Act) (conns : List Bool) (sch : List AEv)
    (pre post : List Out) (h : Hook) (f : Flow)
    (htr : (arun c (idle (init acts conns)) sch).2 = pre ++ .hook h f :: post) :
    ∃ q, f.request = some q ∧ q ∈ queriesOf (pre ++ [.hook h f]) ∧
      (h = .response → ∃ r, f.response = some r ∧ (r ∈ addonMsgs acts ∨ (r.id = q.id ∧ r.questions = q.questions))) := by
  have he := (async_equals_sequential c (init acts conns) sch).1
  rw [htr, List.append_assoc, List.cons_append] at he
  exact flow_has_query c acts conns (arrivals sch) pre _ h f he.symm

-- two queries arrive while the first request hook is pending; three completions later the layer has emitted the sequential trace
example : (arun udp (idle (init [] [])) [.arrive (.clientData q1), .arrive (.clientData q2), .complete, .complete]).2 =
    (run udp (init [] []) [.clientData q1, .clientData q2]).2 ∧
    (arun udp (idle (init [] [])) [.arrive (.clientData q1), .arrive (.clientData q2)]).2.length = 1 := by decide +kernel

end MitmVerif.Props.C27

/-! ### round 6 cross-audit: non-vacuity witnesses for hypotheses that had no concrete instance (appended by the auditor) -/
namespace MitmVerif.Props.C27
open MitmVerif MitmVerif.C25 MitmVerif.C27

-- `connect_failure_servfail`: all seven hypotheses hold for a fresh UDP layer whose first connect attempt fails
example : ∃ q, unpack udp.I q1 = some q ∧ (init [] [false]).core.phase = .query ∧ (init [] [false]).core.acts = [] ∧
    udp.upstream = true ∧ udp.tcp = false ∧ (init [] [false]).core.serverOpen = false ∧
    (init [] [false]).core.serverFailed = false ∧ (init [] [false]).core.conns = false :: [] := by decide +kernel

-- `stray_reply_ignored`: after the history [query q1] the upstream data r77 (unknown id) and r1x (other question)
-- decode to one message each, and no announced query has their id and question section
example : (extract udp.I udp.tcp (run udp (init [] []) [.clientData q1]).1.respBuf r77).1.length = 1 ∧
    (∀ m ∈ (extract udp.I udp.tcp (run udp (init [] []) [.clientData q1]).1.respBuf r77).1,
      ∀ q ∈ queriesOf (run udp (init [] []) [.clientData q1]).2, ¬ (q.id = m.id ∧ q.questions = m.questions)) ∧
    (∀ m ∈ (extract udp.I udp.tcp (run udp (init [] []) [.clientData q1]).1.respBuf r1x).1,
      ∀ q ∈ queriesOf (run udp (init [] []) [.clientData q1]).2, ¬ (q.id = m.id ∧ q.questions = m.questions)) ∧
    (queriesOf (run udp (init [] []) [.clientData q1]).2).length = 1 := by decide +kernel

-- `buffered_server_segment_commutes` / `split_frame_around_query`: a reachable TCP state with the upstream open and an
-- upstream segment (the first 7 bytes of a reply frame) that completes no frame
example : (run tcp (init [] []) [.clientData (frame q1)]).1.core.phase = .query ∧
    (run tcp (init [] []) [.clientData (frame q1)]).1.core.serverOpen = true ∧
    (parse tcp.I ((run tcp (init [] []) [.clientData (frame q1)]).1.respBuf ++ (frame r1).take 7)).1 = [] ∧
    (parse tcp.I ((run tcp (init [] []) [.clientData (frame q1)]).1.respBuf ++ (frame r1).take 7)).2.2 = false := by
  decide +kernel

-- `reply_with_other_question_section_ignored`: in the state after query q1 the reply r1x has a flow under its id whose
-- request carries another question section
example : (match unpack noIdna r1x with
    | some m =>
      (match (run udp (init [] []) [.clientData q1]).1.core.flows.lookup m.id with
       | some f => (match f.request with | some q => decide (m.questions ≠ q.questions) | none => false)
       | none => false)
    | none => false) = true := by decide +kernel

-- `upstream_reply_cases`, first conjunct: … and the reply r1 finds a flow under its id with the same question section
example : (match unpack noIdna r1 with
    | some m =>
      (match (run udp (init [] []) [.clientData q1]).1.core.flows.lookup m.id with
       | some f => (match f.request with | some q => decide (m.questions = q.questions) | none => false)
       | none => false)
    | none => false) = true := by decide +kernel

-- `layer_never_raises` / `bad_length_closes_history`: the hypothesis about addon responses with a script that does set one
example : (match unpack noIdna r1 with
    | some m => (addonMsgs [.respond m, .pass]).all (fun x => (pack noIdna x).isSome) && decide ((addonMsgs [.respond m, .pass]).length = 1)
    | none => false) = true := by decide +kernel

-- `bad_length_closes_history`: after the non-empty history [frame q2] the layer still serves, its request buffer is empty,
-- and the next segment is a complete frame followed by a zero length prefix and more bytes
example : (run tcp (init [] []) [.clientData (frame q2)]).1.core.phase = .query ∧
    (run tcp (init [] []) [.clientData (frame q2)]).1.reqBuf ++ (frame q1 ++ [0, 0, 9]) = frame q1 ++ 0 :: 0 :: [9] ∧
    (parse tcp.I (frame q1)).2 = ([], false) ∧ (parse tcp.I (frame q1)).1.length = 1 := by decide +kernel

-- `bad_length_closes_server(_history)`: the same on the upstream side, with the upstream open
example : (run tcp (init [] []) [.clientData (frame q1)]).1.core.serverOpen = true ∧
    (run tcp (init [] []) [.clientData (frame q1)]).1.respBuf ++ (frame r1 ++ [0, 0]) = frame r1 ++ 0 :: 0 :: [] ∧
    (parse tcp.I (frame r1)).2 = ([], false) ∧ (parse tcp.I (frame r1)).1.length = 1 := by decide +kernel

/-! ### round 6: whose response is it?  (the addon disjunct of `reply_answers_query` restricted to THIS message's handling) -/

/-- the message sent is the response set by a `.respond` action that is consumed at a hook of the handling that starts in
    state `σ`: the first pending action (this message's first hook) or the second (its `dns_response` hook after a
    `dns_request` hook) -/
def SetHere (σ : Core) (m : Msg) : Prop :=
  (popAct σ).1 = .respond m ∨ (popAct (popAct σ).2).1 = .respond m

/-- **C27 (provenance of every reply, every history).** Every message sent to the client is sent while ONE message is
    being handled, in a state `σ` of the history (it satisfies the flow invariant), and it is
    (a) the SERVFAIL of the client query `q` being handled; or
    (b) the response set by a `.respond` action consumed at a hook of THIS handling (`SetHere σ m`) — not a response some
        addon set for another query earlier or later in the script; or
    (c) the upstream message being handled, unchanged, and that message has the id and the question section of the query
        stored under its id.
    This is the per-message form of `reply_answers_query` that the cross-audit asked for: the disjunct
    "`m ∈ addonMsgs acts`" (any response anywhere in the script — the shape of seed c27-4) is replaced by (b). -/
theorem reply_provenance (c : Cfg) (acts : List Act) (conns : List Bool) (evs : List Ev) (m : Msg) (w : Bytes)
    (hmem : Out.toClient m w ∈ (run c (init acts conns) evs).2) :
    ∃ σ : Core, Inv (addonMsgs acts) σ ∧
      ((∃ q, Out.toClient m w ∈ (clientMsg c σ q).2 ∧ m = servfail q) ∨
       SetHere σ m ∨
       (∃ f q, Out.toClient m w ∈ (serverMsg c σ m).2 ∧ σ.flows.lookup m.id = some f ∧ f.request = some q ∧
          q.id = m.id ∧ m.questions = q.questions ∧ q ∈ σ.seen)) := by
  obtain ⟨σ, x, fc, hinv, h⟩ := mem_run_toClient c (addonMsgs acts) m w evs (init acts conns) (Inv_init acts conns) hmem
  refine ⟨σ, hinv, ?_⟩
  cases fc with
  | true =>
    simp only [if_true] at h
    rcases clientMsg_toClient c σ x m w h with h1 | ⟨m1, h1, h2⟩
    · exact Or.inl ⟨x, h, h1⟩
    · right; left
      cases ha : (popAct (popAct σ).2).1 with
      | respond m' => rw [ha] at h2; simp [resolve] at h2; subst h2; exact Or.inr ha
      | pass => rw [ha] at h2; simp [resolve] at h2; subst h2; exact Or.inl h1
      | err => rw [ha] at h2; simp [resolve] at h2; subst h2; exact Or.inl h1
      | clear => rw [ha] at h2; simp [resolve] at h2
  | false =>
    simp only [Bool.false_eq_true, if_false] at h
    obtain ⟨f, q, hl, hr, hq, hres⟩ := serverMsg_toClient c σ x m w h
    cases ha : (popAct σ).1 with
    | respond m' => rw [ha] at hres; simp [resolve] at hres; subst hres; exact Or.inr (Or.inl (Or.inl ha))
    | clear => rw [ha] at hres; simp [resolve] at hres
    | pass =>
      rw [ha] at hres; simp [resolve] at hres; subst hres
      obtain ⟨q', h1, h2, h3, _⟩ := hinv.1 _ _ (mem_of_lookup hl)
      rw [hr] at h1; cases h1
      exact Or.inr (Or.inr ⟨f, q, h, hl, hr, h2, hq, h3⟩)
    | err =>
      rw [ha] at hres; simp [resolve] at hres; subst hres
      obtain ⟨q', h1, h2, h3, _⟩ := hinv.1 _ _ (mem_of_lookup hl)
      rw [hr] at h1; cases h1
      exact Or.inr (Or.inr ⟨f, q, h, hl, hr, h2, hq, h3⟩)

/-- **C27 (unmodified replies answer a query — per message).** Whatever the addons do to OTHER queries: a message sent to
    the client that was not set by an action consumed at a hook of its own handling has the id and the question section of
    a query the client sent (`q ∈ σ.seen`: announced by a `dns_request` hook before). -/
theorem unmodified_reply_answers_query (c : Cfg) (acts : List Act) (conns : List Bool) (evs : List Ev) (m : Msg) (w : Bytes)
    (hmem : Out.toClient m w ∈ (run c (init acts conns) evs).2) :
    ∃ σ : Core, Inv (addonMsgs acts) σ ∧
      (SetHere σ m ∨ ∃ q, q.id = m.id ∧ q.questions = m.questions ∧
        (q ∈ σ.seen ∨ Out.toClient m w ∈ (clientMsg c σ q).2)) := by
  obtain ⟨σ, hinv, h⟩ := reply_provenance c acts conns evs m w hmem
  refine ⟨σ, hinv, ?_⟩
  rcases h with ⟨q, h1, h2⟩ | h | ⟨f, q, _, _, _, h4, h5, h6⟩
  · exact Or.inr ⟨q, by rw [h2]; rfl, by rw [h2]; rfl, Or.inr h1⟩
  · exact Or.inl h
  · exact Or.inr ⟨q, h4, h5.symm, Or.inl h6⟩

/-- **C27 (what `dns_response` reports — per message).** While the upstream message `m0` is handled the flow reported to
    `dns_response` pairs `m0` with the query stored under its id (same id, same question section); while a client query is
    handled, the response it reports is the one the action consumed at this query's `dns_request` hook set. -/
theorem response_hook_provenance (c : Cfg) (σ : Core) (A : List Msg) (hinv : Inv A σ) :
    (∀ m0 f, Out.hook .response f ∈ (serverMsg c σ m0).2 →
      ∃ q, f.request = some q ∧ f.response = some m0 ∧ q.id = m0.id ∧ m0.questions = q.questions) ∧
    (∀ q f, Out.hook .response f ∈ (clientMsg c σ q).2 →
      f.request = some q ∧ ∃ m1, (popAct σ).1 = .respond m1 ∧ f.response = some m1) := by
  constructor
  · intro m0 f h
    unfold serverMsg at h
    cases hl : σ.flows.lookup m0.id with
    | none => simp [hl] at h
    | some f0 =>
      simp only [hl] at h
      obtain ⟨q, h1, h2, _, _⟩ := hinv.1 _ _ (mem_of_lookup hl)
      simp only [h1] at h
      split at h
      · rename_i hq
        unfold handleResponse at h
        dsimp only at h
        have hsc : ∀ τ r, Out.hook .response f ∉ (sendClient c τ r).2 := by
          intro τ r hh
          rcases (sendClient_spec c τ r).2 _ hh with h' | ⟨w', h'⟩ <;> cases h'
        split at h
        · simp at h; subst h; exact ⟨q, h1, rfl, h2, hq⟩
        · simp only [List.mem_cons] at h
          rcases h with h | h
          · cases h; exact ⟨q, h1, rfl, h2, hq⟩
          · exact absurd h (hsc _ _)
      · simp at h
  · intro q f h
    unfold clientMsg handleRequest at h
    dsimp only at h
    have hsc : ∀ τ r, Out.hook .response f ∉ (sendClient c τ r).2 := by
      intro τ r hh
      rcases (sendClient_spec c τ r).2 _ hh with h' | ⟨w', h'⟩ <;> cases h'
    have hss : ∀ τ r, Out.hook .response f ∉ (sendServer c τ r).2 := by
      intro τ r hh
      rcases (sendServer_spec c τ r).2 _ hh with h' | ⟨w', h'⟩ <;> cases h'
    have herr : ∀ τ k g, Out.hook .response f ∉ (handleError c τ k g).2 := by
      intro τ k g hh
      unfold handleError at hh
      dsimp only at hh
      split at hh
      · simp at hh
      · simp only [List.mem_cons] at hh
        rcases hh with hh | hh
        · cases hh
        · exact hsc _ _ hh
    obtain ⟨p1, _⟩ := popAct_seen σ (q :: σ.seen)
    split at h
    · rename_i r hr
      simp only [List.mem_cons] at h
      rcases h with h | h
      · cases h
      · unfold handleResponse at h
        dsimp only at h
        have hf : f = { (applyAct (popAct { σ with seen := q :: σ.seen }).1 { flowFor σ q.id with request := some q }) with response := some r } := by
          split at h
          · simp at h; exact h
          · simp only [List.mem_cons] at h
            rcases h with h | h
            · cases h; rfl
            · exact absurd h (hsc _ _)
        rw [p1] at hf hr
        cases ha : (popAct σ).1 with
        | respond m1 =>
          rw [ha] at hr hf; simp [applyAct] at hr; subst hr
          exact ⟨by rw [hf]; simp [applyAct], m1, rfl, by rw [hf]⟩
        | pass => rw [ha] at hr; simp [applyAct, flowFor_response] at hr
        | clear => rw [ha] at hr; simp [applyAct] at hr
        | err => rw [ha] at hr; simp [applyAct, flowFor_response] at hr
    · split at h
      · simp only [List.mem_cons] at h
        rcases h with h | h
        · cases h
        · exact absurd h (herr _ _ _)
      · split at h
        · simp only [List.mem_cons] at h
          rcases h with h | h
          · cases h
          · exact absurd h (hss _ _)
        · split at h
          · simp only [List.mem_cons] at h
            rcases h with h | h | h
            · cases h
            · cases h
            · exact absurd h (herr _ _ _)
          · split at h
            · simp only [List.mem_cons] at h
              rcases h with h | h | h
              · cases h
              · cases h
              · exact absurd h (hss _ _)
            · simp only [List.mem_cons] at h
              rcases h with h | h | h
              · cases h
              · cases h
              · exact absurd h (herr _ _ _)

-- the stale-response shape of seed c27-4 cannot occur in the model: query id 1 answered by an addon (`.respond`), then a
-- second query with the same id: nothing of the first answer is sent for it, it goes upstream
example : outsOf udp [.respond (fail ⟨1, true, 0, false, false, true, false, 0, 0, [], [], [], []⟩ 0)] []
    [.clientData q1, .clientData q1] = ["request", "response", "client:1:0", "request", "open", "server:1"] := by decide +kernel

end MitmVerif.Props.C27
