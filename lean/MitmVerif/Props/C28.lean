/-
  C28 — property theorems (model: MitmVerif/Model/C28.lean, lemmas: MitmVerif/Lemmas/C28.lean).

  * `each_message_once_in_order`  for every event sequence, addon policy and direction: what the
                                  other peer reassembles = the recorded, non-dropped messages of that
                                  direction, in order, with their type (+ `each_burst_is_one_message`)
  * `delivered_equals_recorded`   … and with exactly the recorded content when text contents are UTF-8
  * `binary_exact`, `text_exact`  Fragmentizer: the fragments concatenate to the content
  * `unmodified_keeps_boundaries` an unmodified message is sent with its original fragments
  * `injected_recorded_once`, `pings_pongs_relayed`, `close_code_reason_recorded`
-/
import MitmVerif.Lemmas.C28
import MitmVerif.Lemmas.C28_Wire

namespace MitmVerif.Props.C28
open MitmVerif MitmVerif.C28

/-! ### bookkeeping lemmas about the relay state -/

@[simp] private theorem setBuf_msgs (s : St) (fc : Bool) (b : List Bytes) : (s.setBuf fc b).msgs = s.msgs := by
  unfold St.setBuf; split <;> rfl
@[simp] private theorem setBuf_crashed (s : St) (fc : Bool) (b : List Bytes) : (s.setBuf fc b).crashed = s.crashed := by
  unfold St.setBuf; split <;> rfl
@[simp] private theorem setBuf_done (s : St) (fc : Bool) (b : List Bytes) : (s.setBuf fc b).done = s.done := by
  unfold St.setBuf; split <;> rfl
@[simp] private theorem setBuf_closed (s : St) (fc : Bool) (b : List Bytes) : (s.setBuf fc b).closed = s.closed := by
  unfold St.setBuf; split <;> rfl
@[simp] private theorem setBuf_ws (s : St) (fc c : Bool) (b : List Bytes) : (s.setBuf fc b).ws c = s.ws c := by
  cases fc <;> cases c <;> rfl
@[simp] private theorem setWs_msgs (s : St) (c : Bool) (w : WsState) : (s.setWs c w).msgs = s.msgs := by
  unfold St.setWs; split <;> rfl
@[simp] private theorem setWs_crashed (s : St) (c : Bool) (w : WsState) : (s.setWs c w).crashed = s.crashed := by
  unfold St.setWs; split <;> rfl
@[simp] private theorem setWs_closed (s : St) (c : Bool) (w : WsState) : (s.setWs c w).closed = s.closed := by
  unfold St.setWs; split <;> rfl

private theorem delivered_append (tc : Bool) (a b : List Out) :
    delivered tc (a ++ b) = delivered tc a ++ delivered tc b := by
  induction a with
  | nil => rfl
  | cons o a ih =>
    cases o <;> simp only [List.cons_append, delivered, ih]
    split <;> simp

private theorem expected_append (tc : Bool) (a b : List Msg) :
    expected tc (a ++ b) = expected tc a ++ expected tc b := by
  simp [expected]

private theorem applyAction_text (m : Msg) (a : Action) : (applyAction m a).text = m.text := by
  cases a <;> rfl
private theorem applyAction_from (m : Msg) (a : Action) : (applyAction m a).fromClient = m.fromClient := by
  cases a <;> rfl

private theorem procMsg_inv (fs : Nat) (pol : Policy) (fc inj : Bool) (s : St)
    (text : Bool) (data : Bytes) (ff mf : Bool)
    (h : (procMsg fs pol fc inj s text data ff mf).1.crashed = false) :
    ∃ new, (procMsg fs pol fc inj s text data ff mf).1.msgs = s.msgs ++ new ∧
      ∀ tc, delivered tc (procMsg fs pol fc inj s text data ff mf).2 = expected tc new := by
  unfold procMsg finishMsg at h ⊢
  cases mf with
  | false =>
    refine ⟨[], ?_, fun tc => ?_⟩
    · simp only [Bool.false_eq_true, if_false]; split <;> simp
    · simp only [Bool.false_eq_true, if_false]; split <;> simp [delivered, expected]
  | true =>
    simp only [if_true] at h ⊢
    generalize hm : applyAction _ (pol s.msgs.length _) = m at h ⊢
    have hmt : m.text = text := by rw [← hm, applyAction_text]
    have hmf : m.fromClient = fc := by rw [← hm, applyAction_from]
    refine ⟨[m], ?_, fun tc => ?_⟩
    · split
      · simp
      · split <;> simp
    · split
      · rename_i hd
        simp [delivered, expected, hd]
      · rename_i hd
        split
        · simp only [delivered, expected]
          have hw := fragmentize_wire fs (List.map List.length (appendLast (s.buf fc) data)) text m.content
          cases fc <;> cases tc <;> simp_all [wire]
        · rename_i hopen
          rw [if_neg hd, if_neg hopen] at h
          simp at h

private theorem closeSend_inv (code : Nat) (reason : Option Bytes) (st : St) (c : Bool) :
    (closeSend code reason st c).1.msgs = st.msgs ∧ (closeSend code reason st c).1.crashed = st.crashed ∧
    (closeSend code reason st c).1.closed = st.closed ∧
    ∀ tc, delivered tc (closeSend code reason st c).2 = [] := by
  unfold closeSend
  split
  · simp [delivered]
  · split <;> simp [delivered]

private theorem procClose_inv (fc : Bool) (s : St) (kind : CloseKind) (code : Nat) (reason : Option Bytes) :
    (procClose fc s kind code reason).1.msgs = s.msgs ∧
    (procClose fc s kind code reason).1.crashed = s.crashed ∧
    (procClose fc s kind code reason).1.closed = some (fc, code, reason) ∧
    (procClose fc s kind code reason).1.done = true ∧
    ∀ tc, delivered tc (procClose fc s kind code reason).2 = [] := by
  unfold procClose
  simp only
  generalize hs0 : ({ s.setWs fc (srcAfterClose kind (s.ws fc)) with closed := some (fc, code, reason) } : St) = s0
  have h0m : s0.msgs = s.msgs := by rw [← hs0]; simp
  have h0c : s0.crashed = s.crashed := by rw [← hs0]; simp
  have h0d : s0.closed = some (fc, code, reason) := by rw [← hs0]
  obtain ⟨a1, a2, a3, a4⟩ := closeSend_inv code reason s0 false
  obtain ⟨b1, b2, b3, b4⟩ := closeSend_inv code reason (closeSend code reason s0 false).1 true
  refine ⟨?_, ?_, ?_, trivial, fun tc => ?_⟩
  · simp [b1, a1, h0m]
  · simp [b2, a2, h0c]
  · simp [b3, a3, h0d]
  · simp [delivered_append, a4, b4, delivered]

private theorem procCtl_inv (fc : Bool) (s : St) (o : Out) (ho : ∀ tc, delivered tc [o] = []) :
    (procCtl fc s o).1.msgs = s.msgs ∧ ∀ tc, delivered tc (procCtl fc s o).2 = [] := by
  unfold procCtl
  split
  · exact ⟨rfl, ho⟩
  · exact ⟨rfl, fun tc => by simp [delivered]⟩

/-- one wsproto event: the messages it records and the messages it delivers correspond -/
private theorem procEv_inv (fs : Nat) (pol : Policy) (fc inj : Bool) (s : St) (e : WsEv)
    (h : (procEv fs pol fc inj s e).1.crashed = false) :
    ∃ new, (procEv fs pol fc inj s e).1.msgs = s.msgs ++ new ∧
      ∀ tc, delivered tc (procEv fs pol fc inj s e).2 = expected tc new := by
  unfold procEv at h ⊢
  by_cases hcr : s.crashed = true
  · simp only [hcr, if_true] at h ⊢
    exact ⟨[], by simp, fun tc => by simp [delivered, expected]⟩
  · simp only [hcr] at h ⊢
    cases e with
    | msg text data ff mf => exact procMsg_inv fs pol fc inj s text data ff mf h
    | ping p =>
      obtain ⟨h1, h2⟩ := procCtl_inv fc s (.sendPing (!fc) p) (fun tc => by simp [delivered])
      exact ⟨[], by simpa using h1, fun tc => by simpa [expected] using h2 tc⟩
    | pong p =>
      obtain ⟨h1, h2⟩ := procCtl_inv fc s (.sendPong (!fc) p) (fun tc => by simp [delivered])
      exact ⟨[], by simpa using h1, fun tc => by simpa [expected] using h2 tc⟩
    | close kind code reason =>
      obtain ⟨h1, _, _, _, h5⟩ := procClose_inv fc s kind code reason
      exact ⟨[], by simpa using h1, fun tc => by simpa [expected] using h5 tc⟩

private theorem procEv_crashed_mono (fs : Nat) (pol : Policy) (fc inj : Bool) (s : St) (e : WsEv)
    (h : s.crashed = true) : procEv fs pol fc inj s e = (s, []) := by
  unfold procEv; simp [h]

private theorem procEvs_crashed_mono (fs : Nat) (pol : Policy) (fc inj : Bool) (s : St) (es : List WsEv)
    (h : s.crashed = true) : procEvs fs pol fc inj s es = (s, []) := by
  induction es with
  | nil => rfl
  | cons e es ih => simp [procEvs, procEv_crashed_mono _ _ _ _ _ _ h, ih]

private theorem procEvs_inv (fs : Nat) (pol : Policy) (fc inj : Bool) (es : List WsEv) :
    ∀ s : St, (procEvs fs pol fc inj s es).1.crashed = false →
    ∃ new, (procEvs fs pol fc inj s es).1.msgs = s.msgs ++ new ∧
      ∀ tc, delivered tc (procEvs fs pol fc inj s es).2 = expected tc new := by
  induction es with
  | nil => intro s _; exact ⟨[], by simp [procEvs], fun tc => by simp [procEvs, delivered, expected]⟩
  | cons e es ih =>
    intro s h
    simp only [procEvs] at h ⊢
    have h1 : (procEv fs pol fc inj s e).1.crashed = false := by
      cases hc : (procEv fs pol fc inj s e).1.crashed with
      | false => rfl
      | true => rw [procEvs_crashed_mono _ _ _ _ _ _ hc] at h; rw [hc] at h; exact h
    obtain ⟨n1, hm1, hd1⟩ := procEv_inv fs pol fc inj s e h1
    obtain ⟨n2, hm2, hd2⟩ := ih _ h
    refine ⟨n1 ++ n2, ?_, fun tc => ?_⟩
    · rw [hm2, hm1, List.append_assoc]
    · rw [delivered_append, expected_append, hd1, hd2]

private theorem step_inv (fs : Nat) (pol : Policy) (s : St) (e : Ev)
    (h : (step fs pol s e).1.crashed = false) :
    ∃ new, (step fs pol s e).1.msgs = s.msgs ++ new ∧
      ∀ tc, delivered tc (step fs pol s e).2 = expected tc new := by
  cases e with
  | data fc evs =>
    simp only [step] at h ⊢
    split
    · exact ⟨[], by simp, fun tc => by simp [delivered, expected]⟩
    · rename_i hd
      rw [if_neg hd] at h
      exact procEvs_inv fs pol fc false evs s h
  | inject fc text content =>
    simp only [step] at h ⊢
    split
    · exact ⟨[], by simp, fun tc => by simp [delivered, expected]⟩
    · rename_i hd
      rw [if_neg hd] at h
      simp only [setBuf_crashed] at h
      obtain ⟨n, hm, hdl⟩ := procEvs_inv fs pol fc true (injectEvents fs text content) (s.setBuf fc [[]]) h
      exact ⟨n, by simpa using hm, hdl⟩

private theorem step_crashed_mono (fs : Nat) (pol : Policy) (s : St) (e : Ev) (h : s.crashed = true) :
    step fs pol s e = (s, []) := by
  cases e <;> simp [step, h]

private theorem run_crashed_mono (fs : Nat) (pol : Policy) (s : St) (es : List Ev) (h : s.crashed = true) :
    run fs pol s es = (s, []) := by
  induction es with
  | nil => rfl
  | cons e es ih => simp [run, step_crashed_mono _ _ _ _ h, ih]

private theorem run_inv (fs : Nat) (pol : Policy) (es : List Ev) :
    ∀ s : St, (run fs pol s es).1.crashed = false →
    ∃ new, (run fs pol s es).1.msgs = s.msgs ++ new ∧
      ∀ tc, delivered tc (run fs pol s es).2 = expected tc new := by
  induction es with
  | nil => intro s _; exact ⟨[], by simp [run], fun tc => by simp [run, delivered, expected]⟩
  | cons e es ih =>
    intro s h
    simp only [run] at h ⊢
    have h1 : (step fs pol s e).1.crashed = false := by
      cases hc : (step fs pol s e).1.crashed with
      | false => rfl
      | true => rw [run_crashed_mono _ _ _ _ hc] at h; rw [hc] at h; exact h
    obtain ⟨n1, hm1, hd1⟩ := step_inv fs pol s e h1
    obtain ⟨n2, hm2, hd2⟩ := ih _ h
    refine ⟨n1 ++ n2, ?_, fun tc => ?_⟩
    · rw [hm2, hm1, List.append_assoc]
    · rw [delivered_append, expected_append, hd1, hd2]

/-- **C28 (exactly once, in order).** For every sequence of received wsproto events and injections
    in both directions, every addon policy (keep / edit / drop per message) and either peer: the
    messages that peer reassembles are exactly the recorded, non-dropped messages of the other
    direction — each once, in recording order, with its type and its content as text/binary
    payload (`wire`).  (`crashed` only arises when a peer keeps sending frames behind its own
    close frame within one TCP segment.) -/
theorem each_message_once_in_order (fs : Nat) (pol : Policy) (evs : List Ev) (toClient : Bool)
    (h : (run fs pol {} evs).1.crashed = false) :
    delivered toClient (run fs pol {} evs).2 = expected toClient (run fs pol {} evs).1.msgs := by
  obtain ⟨new, hm, hd⟩ := run_inv fs pol evs {} h
  rw [hm, hd]; rfl

/-- **C28 (content).** If the recorded text messages are UTF-8 (as every received text message is,
    and every message assigned through `WebSocketMessage.text`), each peer receives exactly the
    recorded contents. -/
theorem delivered_equals_recorded (fs : Nat) (pol : Policy) (evs : List Ev) (toClient : Bool)
    (h : (run fs pol {} evs).1.crashed = false)
    (hv : ∀ m ∈ (run fs pol {} evs).1.msgs, m.text = true → san m.content = m.content) :
    delivered toClient (run fs pol {} evs).2 =
      (((run fs pol {} evs).1.msgs).filter (fun m => m.fromClient = !toClient && !m.dropped)).map
        (fun m => (m.text, m.content)) := by
  rw [each_message_once_in_order fs pol evs toClient h]
  unfold expected
  apply List.map_congr_left
  intro m hm
  have hmem : m ∈ (run fs pol {} evs).1.msgs := (List.mem_filter.mp hm).1
  cases ht : m.text with
  | false => simp [wire, payload, ht]
  | true => simp [wire, payload, ht, hv m hmem ht]

/-! ### every burst is one complete message -/

private def OkOut (o : Out) : Prop := ∀ tc t fr, o = Out.sendMsg tc t fr → wellFramed fr = true

private theorem procEv_ok (fs : Nat) (pol : Policy) (fc inj : Bool) (s : St) (e : WsEv) :
    ∀ o ∈ (procEv fs pol fc inj s e).2, OkOut o := by
  intro o ho tc t fr heq
  subst heq
  unfold procEv at ho
  split at ho
  · simp at ho
  · cases e with
    | msg text data ff mf =>
      simp only [procMsg, finishMsg] at ho
      repeat' split at ho
      all_goals simp at ho
      obtain ⟨_, _, rfl⟩ := ho
      exact fragmentize_wellFramed _ _ _ _
    | ping p => simp only [procCtl] at ho; split at ho <;> simp at ho
    | pong p => simp only [procCtl] at ho; split at ho <;> simp at ho
    | close kind code reason =>
      simp only [procClose, closeSend] at ho
      repeat' split at ho
      all_goals simp at ho

private theorem procEvs_ok (fs : Nat) (pol : Policy) (fc inj : Bool) (es : List WsEv) :
    ∀ s : St, ∀ o ∈ (procEvs fs pol fc inj s es).2, OkOut o := by
  induction es with
  | nil => intro s o ho; simp [procEvs] at ho
  | cons e es ih =>
    intro s o ho
    simp only [procEvs, List.mem_append] at ho
    rcases ho with ho | ho
    · exact procEv_ok _ _ _ _ _ _ o ho
    · exact ih _ o ho

private theorem step_ok (fs : Nat) (pol : Policy) (s : St) (e : Ev) : ∀ o ∈ (step fs pol s e).2, OkOut o := by
  intro o ho
  cases e with
  | data fc evs =>
    simp only [step] at ho
    split at ho
    · simp at ho
    · exact procEvs_ok _ _ _ _ _ _ o ho
  | inject fc text content =>
    simp only [step] at ho
    split at ho
    · simp at ho
    · exact procEvs_ok _ _ _ _ _ _ o ho

/-- every group of frames handed to wsproto for one message is well framed: all frames but the
    last are unfinished, the last one finishes the message (so the peer reassembles exactly one
    message of the burst's type from it) -/
theorem each_burst_is_one_message (fs : Nat) (pol : Policy) (evs : List Ev) :
    ∀ s : St, ∀ tc t fr, Out.sendMsg tc t fr ∈ (run fs pol s evs).2 → wellFramed fr = true := by
  induction evs with
  | nil => intro s tc t fr h; simp [run] at h
  | cons e es ih =>
    intro s tc t fr h
    simp only [run, List.mem_append] at h
    rcases h with h | h
    · exact step_ok fs pol s e _ h tc t fr rfl
    · exact ih _ tc t fr h

/-! ### Fragmentizer -/

/-- **C28 (binary).** For every content, original fragment lengths and fragment size the binary
    fragments concatenate to exactly the content, as one message. -/
theorem binary_exact (fs : Nat) (lens : List Nat) (c : Bytes) :
    ((fragmentize fs lens false c).map (·.1)).flatten = c ∧
    wellFramed (fragmentize fs lens false c) = true :=
  ⟨fragmentize_binary fs lens c, fragmentize_wellFramed fs lens false c⟩

/-- **C28 (text).** For every byte string the text fragments (each sent as a `str`, i.e. as the
    UTF-8 encoding of its decode-with-replacement) concatenate to the decode-with-replacement
    image of the whole content — no character is damaged by a cut — and hence to the content
    itself whenever it is UTF-8 (`san c = c`). -/
theorem text_exact (fs : Nat) (lens : List Nat) (c : Bytes) :
    ((fragmentize fs lens true c).map (·.1)).flatten = san c ∧
    (san c = c → ((fragmentize fs lens true c).map (·.1)).flatten = c) ∧
    wellFramed (fragmentize fs lens true c) = true :=
  ⟨fragmentize_text fs lens c, fun h => by rw [fragmentize_text, h], fragmentize_wellFramed fs lens true c⟩

/-- **C28 (text, UTF-8).** Every UTF-8 string — any concatenation of well-formed 1- to 4-byte
    sequences (Unicode table 3-7) — is re-fragmented without loss, whatever the original fragment
    lengths and the fragment size are (the repaired F-C28a). -/
theorem text_exact_utf8 (fs : Nat) (lens : List Nat) (chars : List Bytes)
    (h : ∀ ch ∈ chars, wfChar ch = true) :
    ((fragmentize fs lens true chars.flatten).map (·.1)).flatten = chars.flatten :=
  (text_exact fs lens chars.flatten).2.1 (san_wf chars h)

private theorem appendLast_ne_nil (buf : List Bytes) (d : Bytes) : appendLast buf d ≠ [] := by
  cases buf with
  | nil => simp [appendLast]
  | cons x rest => cases rest <;> simp [appendLast]

/-- **C28 (boundaries).** When the addons leave a finished message untouched, it is sent with
    exactly the fragments accumulated in `frame_buf` (the original frame boundaries), for text
    messages provided the fragments are UTF-8 — which `text_buffer_stays_valid` shows to be
    preserved from the fresh buffer on, since wsproto hands over decoded `str` pieces. -/
theorem unmodified_keeps_boundaries (fs : Nat) (pol : Policy) (fc inj : Bool) (s : St)
    (text : Bool) (data : Bytes) (ff : Bool)
    (hop : s.ws (!fc) = .wopen)
    (hkeep : pol s.msgs.length (Msg.mk text fc (appendLast (s.buf fc) data).flatten inj false) = .keep)
    (hv : text = true → ∀ f ∈ appendLast (s.buf fc) data, san f = f) :
    (procMsg fs pol fc inj s text data ff true).2 =
      [.hookMsg s.msgs.length, .sendMsg (!fc) text (flagged (appendLast (s.buf fc) data))] := by
  unfold procMsg finishMsg
  simp only [if_true, hkeep, applyAction, hop]
  simp only [Bool.false_eq_true, if_false, if_true]
  rw [fragmentize_unmodified fs text _ (appendLast_ne_nil _ _) hv]

private theorem san_append_valid (x d : Bytes) (hx : san x = x) (hd : san d = d) : san (x ++ d) = x ++ d := by
  cases d with
  | nil => simpa using hx
  | cons y ys =>
    rw [san_append_boundary x (y :: ys) (Or.inr ⟨y, ys, rfl, san_fix_head y ys hd⟩), hx, hd]

/-- appending a decoded `str` piece (`frame_buf[-1] += data`) and opening a new fragment
    (`frame_buf.append(b"")`) keep every buffered fragment UTF-8 -/
theorem text_buffer_stays_valid (buf : List Bytes) (d : Bytes)
    (hb : ∀ f ∈ buf, san f = f) (hd : san d = d) :
    (∀ f ∈ appendLast buf d, san f = f) ∧ (∀ f ∈ appendLast buf d ++ [[]], san f = f) := by
  have h1 : ∀ f ∈ appendLast buf d, san f = f := by
    induction buf with
    | nil => intro f hf; simp [appendLast] at hf; rw [hf]; exact hd
    | cons x rest ih =>
      cases rest with
      | nil =>
        intro f hf
        simp [appendLast] at hf
        rw [hf]; exact san_append_valid x d (hb x (by simp)) hd
      | cons y rest' =>
        intro f hf
        simp only [appendLast, List.mem_cons] at hf
        rcases hf with rfl | hf
        · exact hb _ (by simp)
        · exact ih (fun g hg => hb g (List.mem_cons_of_mem _ hg)) f (by simpa [appendLast] using hf)
  refine ⟨h1, ?_⟩
  intro f hf
  simp only [List.mem_append, List.mem_singleton] at hf
  rcases hf with hf | rfl
  · exact h1 f hf
  · exact san_nil

/-! ### injection -/

private theorem appendLast_flatten (buf : List Bytes) (d : Bytes) : (appendLast buf d).flatten = buf.flatten ++ d := by
  induction buf with
  | nil => simp [appendLast]
  | cons x rest ih =>
    cases rest with
    | nil => simp [appendLast]
    | cons y rest' => simp only [appendLast, List.flatten_cons, List.append_assoc] at ih ⊢; rw [ih]

private theorem setBuf_buf (s : St) (fc : Bool) (b : List Bytes) : (s.setBuf fc b).buf fc = b := by
  cases fc <;> rfl

private theorem procMsg_msgs_fin (fs : Nat) (pol : Policy) (fc inj : Bool) (s : St) (text : Bool) (data : Bytes) (ff : Bool) :
    (procMsg fs pol fc inj s text data ff true).1.msgs =
      s.msgs ++ [applyAction (Msg.mk text fc ((s.buf fc).flatten ++ data) inj false)
                  (pol s.msgs.length (Msg.mk text fc ((s.buf fc).flatten ++ data) inj false))] := by
  unfold procMsg finishMsg
  simp only [if_true, appendLast_flatten]
  split
  · simp
  · split <;> simp

private theorem inj_aux (fs : Nat) (pol : Policy) (fc text : Bool) (frames : List (Bytes × Bool)) :
    wellFramed frames = true → ∀ s : St, s.crashed = false →
    (procEvs fs pol fc true s (frames.map (fun pf => WsEv.msg text pf.1 true pf.2))).1.msgs =
      s.msgs ++ [applyAction (Msg.mk text fc ((s.buf fc).flatten ++ (frames.map (·.1)).flatten) true false)
                  (pol s.msgs.length (Msg.mk text fc ((s.buf fc).flatten ++ (frames.map (·.1)).flatten) true false))] := by
  induction frames with
  | nil => intro h; simp [wellFramed] at h
  | cons pf rest ih =>
    obtain ⟨p, fin⟩ := pf
    cases rest with
    | nil =>
      intro h s hc
      simp only [wellFramed] at h
      subst h
      simp only [List.map_cons, List.map_nil, procEvs, procEv, hc, Bool.false_eq_true, if_false,
        List.flatten_cons, List.flatten_nil, List.append_nil]
      exact procMsg_msgs_fin fs pol fc true s text p true
    | cons q rest' =>
      intro h s hc
      simp only [wellFramed, Bool.and_eq_true, Bool.not_eq_true'] at h
      obtain ⟨hfin, hwf⟩ := h
      subst hfin
      have hstep : procEv fs pol fc true s (WsEv.msg text p true false)
          = (s.setBuf fc (appendLast (s.buf fc) p ++ [[]]), []) := by
        simp [procEv, hc, procMsg]
      have := ih hwf (s.setBuf fc (appendLast (s.buf fc) p ++ [[]])) (by simpa using hc)
      simp only [List.map_cons, procEvs, hstep] at this ⊢
      rw [this]
      simp [setBuf_buf, appendLast_flatten, List.append_assoc]

/-- **C28 (injection).** An injected message is recorded exactly once, as its own message with
    the injected type and content (for text: its decode-with-replacement image), whatever
    fragments of a message still being received are buffered — and those are left untouched
    (the repaired F-C28b). -/
theorem injected_recorded_once (fs : Nat) (pol : Policy) (s : St) (fc text : Bool) (content : Bytes)
    (hnd : s.done = false) (hc : s.crashed = false) :
    (step fs pol s (.inject fc text content)).1.msgs =
      s.msgs ++ [applyAction (Msg.mk text fc (payload text content) true false)
                  (pol s.msgs.length (Msg.mk text fc (payload text content) true false))] ∧
    (step fs pol s (.inject fc text content)).1.buf fc = s.buf fc := by
  simp only [step, hnd, hc, Bool.or_self, Bool.false_eq_true, if_false]
  refine ⟨?_, setBuf_buf _ _ _⟩
  have h := inj_aux fs pol fc text (fragmentize fs [] text content) (fragmentize_wellFramed _ _ _ _)
    (s.setBuf fc [[]]) (by simpa using hc)
  simp only [injectEvents]
  rw [setBuf_msgs] at h ⊢
  rw [h]
  simp [setBuf_buf, fragmentize_wire]

/-! ### control frames and close -/

/-- **C28 (ping/pong).** A ping or pong received while the other side is open is handed to the
    other peer exactly once with the same payload, and changes nothing else. -/
theorem pings_pongs_relayed (fs : Nat) (pol : Policy) (fc inj : Bool) (s : St) (p : Bytes)
    (hc : s.crashed = false) (hop : s.ws (!fc) = .wopen) :
    procEv fs pol fc inj s (.ping p) = (s, [.sendPing (!fc) p]) ∧
    procEv fs pol fc inj s (.pong p) = (s, [.sendPong (!fc) p]) := by
  simp [procEv, procCtl, hc, hop]

private theorem procEvs_append (fs : Nat) (pol : Policy) (fc inj : Bool) (a b : List WsEv) :
    ∀ s : St, procEvs fs pol fc inj s (a ++ b) =
      ((procEvs fs pol fc inj (procEvs fs pol fc inj s a).1 b).1,
       (procEvs fs pol fc inj s a).2 ++ (procEvs fs pol fc inj (procEvs fs pol fc inj s a).1 b).2) := by
  induction a with
  | nil => intro s; simp [procEvs]
  | cons e a ih => intro s; simp [procEvs, ih, List.append_assoc]

private theorem step_done (fs : Nat) (pol : Policy) (s : St) (e : Ev) (h : s.done = true) :
    step fs pol s e = (s, []) := by
  cases e <;> simp [step, h]

private theorem run_done (fs : Nat) (pol : Policy) (s : St) (es : List Ev) (h : s.done = true) :
    run fs pol s es = (s, []) := by
  induction es with
  | nil => rfl
  | cons e es ih => simp [run, step_done _ _ _ _ h, ih]

/-- **C28 (close).** When a peer's close event (close frame with its code and reason, or EOF/
    protocol failure with wsproto's code) is processed, exactly that direction, code and reason
    are recorded for the flow, and nothing that happens afterwards changes them. -/
theorem close_code_reason_recorded (fs : Nat) (pol : Policy) (s : St) (fc : Bool)
    (pre : List WsEv) (kind : CloseKind) (code : Nat) (reason : Option Bytes) (rest : List Ev)
    (hnd : s.done = false) (hc : (procEvs fs pol fc false s pre).1.crashed = false) :
    (run fs pol s (.data fc (pre ++ [.close kind code reason]) :: rest)).1.closed = some (fc, code, reason) ∧
    (run fs pol s (.data fc (pre ++ [.close kind code reason]) :: rest)).1.done = true := by
  have hsc : s.crashed = false := by
    cases h : s.crashed with
    | false => rfl
    | true => rw [procEvs_crashed_mono _ _ _ _ _ _ h] at hc; rw [h] at hc; exact hc
  obtain ⟨_, _, h3, h4, _⟩ := procClose_inv fc (procEvs fs pol fc false s pre).1 kind code reason
  have hstep : (step fs pol s (.data fc (pre ++ [.close kind code reason]))).1
      = (procClose fc (procEvs fs pol fc false s pre).1 kind code reason).1 := by
    simp [step, hnd, hsc, procEvs_append, procEvs, procEv, hc]
  have hdone : (step fs pol s (.data fc (pre ++ [.close kind code reason]))).1.done = true := by
    rw [hstep]; exact h4
  simp only [run]
  rw [run_done _ _ _ _ hdone]
  simp only
  rw [hstep]
  exact ⟨h3, h4⟩

/-! ### the wire: frames, fragmentation, whole interleaved histories (round 3) -/

open MitmVerif.C28.Wire in
/-- **C28 (wire, frame).** Every frame an endpoint may serialise (FIN, RSV bits the extensions
    accept, opcode, 7/16/64-bit length, optional masking) is read back by the other endpoint's
    decoder exactly — header fields, key and unmasked payload — leaving the rest of the stream. -/
theorem frame_roundtrip (client : Bool) (rsvOk : Nat → Nat → Bool) (f : Wire.Frame) (rest : Bytes)
    (hwf : f.wf client) (hok : rsvOk f.opcode f.rsv = true) :
    Wire.decodeFrame client rsvOk (Wire.encodeFrame f ++ rest) = .ok f rest :=
  Wire.frame_roundtrip' client rsvOk f rest hwf hok

/-- **C28 (wire, stream).** A stream of serialised frames decodes to exactly these frames, nothing
    left over, no error. -/
theorem stream_roundtrip (client : Bool) (rsvOk : Nat → Nat → Bool) (frames : List Wire.Frame)
    (h : Wire.FramesOk client rsvOk frames) (fuel : Nat) (hf : frames.length < fuel) :
    Wire.decodeStream client rsvOk fuel (frames.flatMap Wire.encodeFrame) = (frames, [], false) :=
  Wire.stream_roundtrip' client rsvOk frames h fuel hf

/-- **C28 (wire, message).** The frames of one message — any fragmentation, any masking keys, any
    length encoding — arrive as exactly the fragment events and reassemble to exactly one message
    of the same type whose content is the concatenation of the fragments. -/
theorem message_wire_roundtrip (client : Bool) (t : Bool) (keys : Nat → Option Bytes) (fr : List (Bytes × Bool))
    (hwf : wellFramed fr = true) (hk : Wire.KeysOk client keys)
    (hsz : ∀ pf ∈ fr, pf.1.length < 9223372036854775808) (fuel : Nat) (hfuel : fr.length < fuel) :
    Wire.streamEvents client Wire.noExt fuel none ((Wire.dataFrames t keys 0 true fr).flatMap Wire.encodeFrame)
      = some (fr.map (fun pf => WsEv.msg t pf.1 true pf.2)) ∧
    Wire.reassemble none (fr.map (fun pf => WsEv.msg t pf.1 true pf.2)) = [(t, (fr.map (·.1)).flatten)] :=
  Wire.message_wire_roundtrip client t keys fr hwf hk hsz fuel hfuel

private theorem appendLast_snoc (pre : List Bytes) (x d : Bytes) : appendLast (pre ++ [x]) d = pre ++ [x ++ d] := by
  induction pre with
  | nil => simp [appendLast]
  | cons y rest ih =>
    cases h : rest ++ [x] with
    | nil => simp at h
    | cons z zs =>
      simp only [List.cons_append, h, appendLast]
      rw [← h, ih]

private theorem setBuf_setBuf (s : St) (fc : Bool) (b b' : List Bytes) : (s.setBuf fc b).setBuf fc b' = s.setBuf fc b' := by
  cases fc <;> rfl

private theorem finishMsg_setBuf (fs : Nat) (pol : Policy) (fc inj : Bool) (s : St) (t : Bool) (b buf : List Bytes) :
    finishMsg fs pol fc inj (s.setBuf fc b) t buf = finishMsg fs pol fc inj s t buf := by
  unfold finishMsg
  simp only [setBuf_msgs, setBuf_ws, setBuf_setBuf]

/-- the events of one fragmented message, processed one after the other, amount to finishing the
    message with the fragments appended to `frame_buf` -/
private theorem chunks_run (fs : Nat) (pol : Policy) (fc inj t : Bool) (fr : List (Bytes × Bool)) :
    wellFramed fr = true → ∀ (s : St) (pre : List Bytes), s.crashed = false → s.buf fc = pre ++ [[]] →
    procEvs fs pol fc inj s (fr.map (fun pf => WsEv.msg t pf.1 true pf.2)) =
      finishMsg fs pol fc inj s t (pre ++ fr.map (·.1)) := by
  induction fr with
  | nil => intro h; simp [wellFramed] at h
  | cons pf rest ih =>
    obtain ⟨p, fin⟩ := pf
    cases rest with
    | nil =>
      intro h s pre hc hb
      simp only [wellFramed] at h; subst h
      simp only [List.map_cons, List.map_nil, procEvs, procEv, hc, Bool.false_eq_true, if_false, procMsg, if_true,
        hb, appendLast_snoc, List.nil_append, List.append_nil]
    | cons q rest' =>
      intro h s pre hc hb
      simp only [wellFramed, Bool.and_eq_true, Bool.not_eq_true'] at h
      obtain ⟨hfin, hwf⟩ := h
      subst hfin
      have hstep : procEv fs pol fc inj s (WsEv.msg t p true false)
          = (s.setBuf fc ((pre ++ [p]) ++ [[]]), []) := by
        simp [procEv, hc, procMsg, hb, appendLast_snoc]
      have := ih hwf (s.setBuf fc ((pre ++ [p]) ++ [[]])) (pre ++ [p]) (by simpa using hc) (setBuf_buf _ _ _)
      have hm : ((p, false) :: q :: rest').map (fun pf => WsEv.msg t pf.1 true pf.2)
          = WsEv.msg t p true false :: (q :: rest').map (fun pf => WsEv.msg t pf.1 true pf.2) := rfl
      rw [hm, procEvs, hstep]
      simp only [List.nil_append]
      rw [this, finishMsg_setBuf]
      simp [List.append_assoc]

/-- **C28 (fragmentation-insensitive, end to end over the wire).**  A peer sends one message of
    type `t` in ANY fragmentation `fr` (frames with any masking keys and 7/16/64-bit lengths).
    Then (1) the proxy's decoder yields exactly the fragment events; (2) the relay records exactly
    one message whose content is the concatenation of the fragments as edited by the addons and,
    unless it is dropped, hands one burst to the other side; (3) that burst, serialised by the
    proxy with any keys and decoded + reassembled by the receiving peer (which has the same role
    towards the proxy as the proxy has towards the sender: `!fc`), is exactly one message of
    type `t` with the recorded content (`wire m`: the content itself for binary and for UTF-8 text). -/
theorem wire_message_end_to_end (fs : Nat) (pol : Policy) (s : St) (fc t : Bool)
    (fr : List (Bytes × Bool)) (keys keys' : Nat → Option Bytes) (fuel fuel' : Nat)
    (hwf : wellFramed fr = true) (hk : Wire.KeysOk (!fc) keys)
    (hsz : ∀ pf ∈ fr, pf.1.length < 9223372036854775808) (hfuel : fr.length < fuel)
    (hnd : s.done = false) (hc : s.crashed = false) (hop : s.ws (!fc) = .wopen) (hb : s.buf fc = [[]])
    (m : Msg)
    (hm : m = applyAction (Msg.mk t fc (fr.map (·.1)).flatten false false)
                (pol s.msgs.length (Msg.mk t fc (fr.map (·.1)).flatten false false)))
    (hkeep : m.dropped = false)
    (hk' : Wire.KeysOk (!fc) keys')
    (hsz' : ∀ pf ∈ fragmentize fs (fr.map (·.1.length)) t m.content, pf.1.length < 9223372036854775808)
    (hfuel' : (fragmentize fs (fr.map (·.1.length)) t m.content).length < fuel') :
    let evs := fr.map (fun pf => WsEv.msg t pf.1 true pf.2)
    let burst := fragmentize fs (fr.map (·.1.length)) t m.content
    Wire.streamEvents (!fc) Wire.noExt fuel none ((Wire.dataFrames t keys 0 true fr).flatMap Wire.encodeFrame) = some evs ∧
    (step fs pol s (.data fc evs)).1.msgs = s.msgs ++ [m] ∧
    (step fs pol s (.data fc evs)).2 = [.hookMsg s.msgs.length, .sendMsg (!fc) t burst] ∧
    (Wire.streamEvents (!fc) Wire.noExt fuel' none ((Wire.dataFrames t keys' 0 true burst).flatMap Wire.encodeFrame)).map
        (Wire.reassemble none) = some [(t, wire m)] := by
  intro evs burst
  have hin := Wire.message_wire_roundtrip (!fc) t keys fr hwf hk hsz fuel hfuel
  have hrun := chunks_run fs pol fc false t fr hwf s [] hc (by simpa using hb)
  have hmt : m.text = t := by rw [hm, applyAction_text]
  have hstep : step fs pol s (.data fc evs) = finishMsg fs pol fc false s t (fr.map (·.1)) := by
    simp only [step, hnd, hc, Bool.or_self, Bool.false_eq_true, if_false]
    simpa using hrun
  have hbw := fragmentize_wellFramed fs (fr.map (·.1.length)) t m.content
  have hout := Wire.message_wire_roundtrip (!fc) t keys' burst hbw hk' hsz' fuel' hfuel'
  refine ⟨hin.1, ?_, ?_, ?_⟩
  · rw [hstep]; unfold finishMsg
    simp only [← hm, hkeep, Bool.false_eq_true, if_false, hop, if_true]
  · rw [hstep]; unfold finishMsg
    simp only [← hm, hkeep, Bool.false_eq_true, if_false, hop, if_true, List.map_map]
    rfl
  · rw [hout.1]
    simp only [Option.map_some]
    rw [hout.2]
    have := fragmentize_wire fs (fr.map (·.1.length)) t m.content
    simp only [burst, this, wire, hmt]

/-! ### whole interleaved histories: segmentation, ping/pong, close -/

private theorem appendLast_appendLast (b : List Bytes) (d1 d2 : Bytes) :
    appendLast (appendLast b d1) d2 = appendLast b (d1 ++ d2) := by
  induction b with
  | nil => simp [appendLast]
  | cons x rest ih =>
    cases rest with
    | nil => simp [appendLast]
    | cons y rest' =>
      simp only [appendLast] at ih ⊢
      cases h : appendLast (y :: rest') d1 with
      | nil => exact absurd h (appendLast_ne_nil _ _)
      | cons z zs => rw [h] at ih; simp only [appendLast, ih]

/-- **C28 (segmentation).** A frame that wsproto hands over in two pieces (because it arrived in
    two TCP segments) has the same effect — state and output — as the frame in one piece. -/
theorem partial_frame_events_insensitive (fs : Nat) (pol : Policy) (fc inj : Bool) (s : St)
    (t : Bool) (d1 d2 : Bytes) (ff mf : Bool) (hc : s.crashed = false) :
    procEvs fs pol fc inj s [.msg t d1 false false, .msg t d2 ff mf] =
    procEvs fs pol fc inj s [.msg t (d1 ++ d2) ff mf] := by
  simp only [procEvs, procEv, hc, Bool.false_eq_true, if_false, procMsg, setBuf_crashed, setBuf_buf,
    appendLast_appendLast, List.nil_append, List.append_nil]
  cases mf
  · cases ff <;> simp [setBuf_setBuf]
  · simp [finishMsg_setBuf]

private def Live (s : St) : Prop := s.wsC = .wopen ∧ s.wsS = .wopen ∧ s.done = false ∧ s.crashed = false

private theorem live_ws (s : St) (h : Live s) (c : Bool) : s.ws c = .wopen := by
  cases c <;> simp [St.ws, h.1, h.2.1]

private theorem live_setBuf (s : St) (h : Live s) (fc : Bool) (b : List Bytes) : Live (s.setBuf fc b) := by
  cases fc <;> exact h

private theorem controlsOut_append (tc : Bool) (a b : List Out) :
    controlsOut tc (a ++ b) = controlsOut tc a ++ controlsOut tc b := by
  induction a with
  | nil => rfl
  | cons o a ih =>
    cases o <;> simp only [List.cons_append, controlsOut, ih]
    all_goals (split <;> simp)

private theorem finishMsg_live (fs : Nat) (pol : Policy) (fc inj : Bool) (s : St) (t : Bool) (buf : List Bytes)
    (h : Live s) :
    Live (finishMsg fs pol fc inj s t buf).1 ∧ ∀ tc, controlsOut tc (finishMsg fs pol fc inj s t buf).2 = [] := by
  unfold finishMsg
  simp only [live_ws s h, if_true]
  split
  · exact ⟨by cases fc <;> exact h, fun tc => by simp [controlsOut]⟩
  · exact ⟨by cases fc <;> exact h, fun tc => by simp [controlsOut]⟩

private theorem procEv_live (fs : Nat) (pol : Policy) (fc inj : Bool) (s : St) (e : WsEv)
    (h : Live s) (hn : e.isClose = false) :
    Live (procEv fs pol fc inj s e).1 ∧
    ∀ tc, controlsOut tc (procEv fs pol fc inj s e).2 = if (!fc) = tc then wsControls [e] else [] := by
  unfold procEv
  simp only [h.2.2.2, Bool.false_eq_true, if_false]
  cases e with
  | msg t d ff mf =>
    simp only [procMsg, wsControls]
    cases mf
    · cases ff
      · exact ⟨live_setBuf _ h _ _, fun tc => by simp [controlsOut]⟩
      · exact ⟨live_setBuf _ h _ _, fun tc => by simp [controlsOut]⟩
    · have := finishMsg_live fs pol fc inj s t (appendLast (s.buf fc) d) h
      exact ⟨by simpa using this.1, fun tc => by simpa using this.2 tc⟩
  | ping p =>
    simp only [procCtl, live_ws s h, if_true, wsControls]
    exact ⟨h, fun tc => by simp only [controlsOut]⟩
  | pong p =>
    simp only [procCtl, live_ws s h, if_true, wsControls]
    exact ⟨h, fun tc => by simp only [controlsOut]⟩
  | close k c r => simp [WsEv.isClose] at hn

private theorem wsControls_cons (e : WsEv) (es : List WsEv) : wsControls (e :: es) = wsControls [e] ++ wsControls es := by
  cases e <;> simp [wsControls]

private theorem procEvs_live (fs : Nat) (pol : Policy) (fc inj : Bool) (es : List WsEv) :
    ∀ s : St, Live s → (∀ e ∈ es, e.isClose = false) →
    Live (procEvs fs pol fc inj s es).1 ∧
    ∀ tc, controlsOut tc (procEvs fs pol fc inj s es).2 = if (!fc) = tc then wsControls es else [] := by
  induction es with
  | nil => intro s h _; exact ⟨h, fun tc => by simp [procEvs, controlsOut, wsControls]⟩
  | cons e es ih =>
    intro s h hn
    obtain ⟨l1, c1⟩ := procEv_live fs pol fc inj s e h (hn e (by simp))
    obtain ⟨l2, c2⟩ := ih _ l1 (fun x hx => hn x (List.mem_cons_of_mem _ hx))
    refine ⟨l2, fun tc => ?_⟩
    simp only [procEvs, controlsOut_append, c1 tc, c2 tc]
    rw [wsControls_cons e es]
    split <;> simp

private theorem injectEvents_noClose (fs : Nat) (t : Bool) (c : Bytes) :
    (∀ e ∈ injectEvents fs t c, e.isClose = false) ∧ wsControls (injectEvents fs t c) = [] := by
  unfold injectEvents
  generalize fragmentize fs [] t c = l
  induction l with
  | nil => simp [wsControls]
  | cons a l ih =>
    refine ⟨?_, ?_⟩
    · intro e he
      simp only [List.map_cons, List.mem_cons] at he
      rcases he with rfl | he
      · rfl
      · exact ih.1 e he
    · simp only [List.map_cons, wsControls]; exact ih.2

private theorem step_live (fs : Nat) (pol : Policy) (s : St) (e : Ev) (h : Live s) (hn : e.noClose = true) :
    Live (step fs pol s e).1 ∧ ∀ tc, controlsOut tc (step fs pol s e).2 = controlsIn (!tc) [e] := by
  cases e with
  | data fc evs =>
    simp only [step, h.2.2.1, h.2.2.2, Bool.or_self, Bool.false_eq_true, if_false]
    have hn' : ∀ e ∈ evs, e.isClose = false := by
      intro e he; simp only [Ev.noClose, List.all_eq_true] at hn; simpa using hn e he
    obtain ⟨l, c⟩ := procEvs_live fs pol fc false evs s h hn'
    refine ⟨l, fun tc => ?_⟩
    rw [c tc]; cases fc <;> cases tc <;> simp [controlsIn]
  | inject fc t content =>
    simp only [step, h.2.2.1, h.2.2.2, Bool.or_self, Bool.false_eq_true, if_false]
    obtain ⟨hnc, hw⟩ := injectEvents_noClose fs t content
    obtain ⟨l, c⟩ := procEvs_live fs pol fc true (injectEvents fs t content) _ (live_setBuf s h fc [[]]) hnc
    refine ⟨live_setBuf _ l _ _, fun tc => ?_⟩
    rw [c tc, hw]; simp [controlsIn]

private theorem controlsIn_cons (fc : Bool) (e : Ev) (es : List Ev) :
    controlsIn fc (e :: es) = controlsIn fc [e] ++ controlsIn fc es := by
  cases e <;> simp only [controlsIn] <;> (try split) <;> simp

private theorem run_live (fs : Nat) (pol : Policy) (es : List Ev) :
    ∀ s : St, Live s → (∀ e ∈ es, e.noClose = true) →
    Live (run fs pol s es).1 ∧ ∀ tc, controlsOut tc (run fs pol s es).2 = controlsIn (!tc) es := by
  induction es with
  | nil => intro s h _; exact ⟨h, fun tc => by simp [run, controlsOut, controlsIn]⟩
  | cons e es ih =>
    intro s h hn
    obtain ⟨l1, c1⟩ := step_live fs pol s e h (hn e (by simp))
    obtain ⟨l2, c2⟩ := ih _ l1 (fun x hx => hn x (List.mem_cons_of_mem _ hx))
    refine ⟨l2, fun tc => ?_⟩
    simp only [run, controlsOut_append, c1 tc, c2 tc]
    rw [controlsIn_cons (!tc) e es]

/-- **C28 (ping/pong over whole histories).** In every history of both directions — data in any
    fragmentation, injections, addon edits and drops interleaved — as long as nobody has closed,
    each peer is handed exactly the pings and pongs the other peer sent, with their payloads, in
    order. -/
theorem controls_relayed_in_order (fs : Nat) (pol : Policy) (evs : List Ev) (toClient : Bool)
    (hn : ∀ e ∈ evs, e.noClose = true) :
    controlsOut toClient (run fs pol {} evs).2 = controlsIn (!toClient) evs :=
  (run_live fs pol evs {} ⟨rfl, rfl, rfl, rfl⟩ hn).2 toClient

private theorem run_append (fs : Nat) (pol : Policy) (a b : List Ev) :
    ∀ s : St, (run fs pol s (a ++ b)).1 = (run fs pol (run fs pol s a).1 b).1 := by
  induction a with
  | nil => intro s; rfl
  | cons e a ih => intro s; simp only [List.cons_append, run]; exact ih _

/-- **C28 (close over whole histories).** Whatever happened before in both directions, the first
    close event of the history (a peer's close frame with its code and reason, EOF, or a protocol
    failure) determines `closed_by_client`, `close_code` and `close_reason` of the flow, and
    nothing after it changes them. -/
theorem close_recorded_in_history (fs : Nat) (pol : Policy) (before : List Ev) (fc : Bool) (pre : List WsEv)
    (kind : CloseKind) (code : Nat) (reason : Option Bytes) (rest : List Ev)
    (h1 : ∀ e ∈ before, e.noClose = true) (h2 : ∀ e ∈ pre, e.isClose = false) :
    (run fs pol {} (before ++ .data fc (pre ++ [.close kind code reason]) :: rest)).1.closed
      = some (fc, code, reason) := by
  rw [run_append]
  obtain ⟨l, _⟩ := run_live fs pol before {} ⟨rfl, rfl, rfl, rfl⟩ h1
  obtain ⟨l2, _⟩ := procEvs_live fs pol fc false pre _ l h2
  exact (close_code_reason_recorded fs pol _ fc pre kind code reason rest l.2.2.1 l2.2.2.2).1

private theorem flagged_of_wellFramed (fr : List (Bytes × Bool)) (h : wellFramed fr = true) :
    flagged (fr.map (·.1)) = fr := by
  induction fr with
  | nil => simp [wellFramed] at h
  | cons pf rest ih =>
    obtain ⟨p, fin⟩ := pf
    cases rest with
    | nil => simp only [wellFramed] at h; subst h; rfl
    | cons q rest' =>
      simp only [wellFramed, Bool.and_eq_true, Bool.not_eq_true'] at h
      obtain ⟨hfin, hwf⟩ := h
      subst hfin
      have := ih hwf
      simp only [List.map_cons] at this ⊢
      simp only [flagged, this]

/-- **C28 (boundaries, whole message).** A message that arrives as the frames `fr` (any number,
    any sizes; text frames as the `str` pieces wsproto hands over) and is left untouched by the
    addons is sent on as exactly these frames: same payload per frame, same FIN flags. -/
theorem unmodified_message_keeps_frames (fs : Nat) (pol : Policy) (s : St) (fc inj t : Bool)
    (fr : List (Bytes × Bool)) (hwf : wellFramed fr = true)
    (hc : s.crashed = false) (hb : s.buf fc = [[]]) (hop : s.ws (!fc) = .wopen)
    (hkeep : pol s.msgs.length (Msg.mk t fc (fr.map (·.1)).flatten inj false) = .keep)
    (hv : t = true → ∀ pf ∈ fr, san pf.1 = pf.1) :
    (procEvs fs pol fc inj s (fr.map (fun pf => WsEv.msg t pf.1 true pf.2))).2 =
      [.hookMsg s.msgs.length, .sendMsg (!fc) t fr] := by
  rw [chunks_run fs pol fc inj t fr hwf s [] hc (by simpa using hb)]
  unfold finishMsg
  simp only [List.nil_append, hkeep, applyAction, Bool.false_eq_true, if_false, hop, if_true]
  have hne : fr.map (·.1) ≠ [] := by
    cases fr with
    | nil => simp [wellFramed] at hwf
    | cons a l => simp
  have hv' : t = true → ∀ f ∈ fr.map (·.1), san f = f := by
    intro ht f hf
    obtain ⟨pf, hpf, rfl⟩ := List.mem_map.mp hf
    exact hv ht pf hpf
  rw [fragmentize_unmodified fs t _ hne hv', flagged_of_wellFramed fr hwf]

/-! ### the `crashed` hypothesis is derivable: wsproto never yields anything behind a close -/

private def Safe (s : St) : Prop := Live s ∨ (s.done = true ∧ s.crashed = false)

private theorem procEvs_safe (fs : Nat) (pol : Policy) (fc inj : Bool) (es : List WsEv) :
    ∀ s : St, Live s → closeLast es = true → Safe (procEvs fs pol fc inj s es).1 := by
  induction es with
  | nil => intro s h _; exact Or.inl h
  | cons e rest ih =>
    intro s h hcl
    cases rest with
    | nil =>
      simp only [procEvs]
      cases hc : e.isClose with
      | false => exact Or.inl (procEv_live fs pol fc inj s e h hc).1
      | true =>
        cases e with
        | close k c r =>
          obtain ⟨_, h2, _, h4, _⟩ := procClose_inv fc s k c r
          refine Or.inr ⟨?_, ?_⟩
          · simpa [procEv, h.2.2.2] using h4
          · simpa [procEv, h.2.2.2, h.2.2.2] using h2.trans h.2.2.2
        | msg _ _ _ _ => simp [WsEv.isClose] at hc
        | ping _ => simp [WsEv.isClose] at hc
        | pong _ => simp [WsEv.isClose] at hc
    | cons e' rest' =>
      simp only [closeLast, Bool.and_eq_true, Bool.not_eq_true'] at hcl
      obtain ⟨l1, _⟩ := procEv_live fs pol fc inj s e h hcl.1
      simp only [procEvs]
      exact ih _ l1 hcl.2

private theorem step_safe (fs : Nat) (pol : Policy) (s : St) (e : Ev) (h : Safe s) (hcl : e.closeLast = true) :
    Safe (step fs pol s e).1 := by
  rcases h with h | h
  · cases e with
    | data fc evs =>
      simp only [step, h.2.2.1, h.2.2.2, Bool.or_self, Bool.false_eq_true, if_false]
      exact procEvs_safe fs pol fc false evs s h hcl
    | inject fc t c => exact Or.inl (step_live fs pol s (.inject fc t c) h rfl).1
  · rw [step_done fs pol s e h.1]; exact Or.inr h

private theorem run_safe (fs : Nat) (pol : Policy) (es : List Ev) :
    ∀ s : St, Safe s → (∀ e ∈ es, e.closeLast = true) → Safe (run fs pol s es).1 := by
  induction es with
  | nil => intro s h _; exact h
  | cons e es ih =>
    intro s h hcl
    simp only [run]
    exact ih _ (step_safe fs pol s e h (hcl e (by simp))) (fun x hx => hcl x (List.mem_cons_of_mem _ hx))

/-- **C28 (no crash).** When close events only occur as the last event of a batch — which is what
    wsproto delivers (`stream_events_close_last`) — the relay never hands an event to a wsproto
    connection that cannot send it: the `crashed` hypothesis of the run-level theorems is a theorem. -/
theorem no_crash_when_close_is_last (fs : Nat) (pol : Policy) (evs : List Ev)
    (h : ∀ e ∈ evs, e.closeLast = true) : (run fs pol {} evs).1.crashed = false := by
  rcases run_safe fs pol evs {} (Or.inl ⟨rfl, rfl, rfl, rfl⟩) h with h | h
  · exact h.2.2.2
  · exact h.2

/-- **C28 (exactly once, in order — unconditional form).** For every history of wsproto event
    batches of both directions and injections, every addon policy and either peer: what that
    peer reassembles is exactly the recorded, non-dropped messages of the other direction. -/
theorem each_message_once_in_order_wsproto (fs : Nat) (pol : Policy) (evs : List Ev) (toClient : Bool)
    (h : ∀ e ∈ evs, e.closeLast = true) :
    delivered toClient (run fs pol {} evs).2 = expected toClient (run fs pol {} evs).1.msgs :=
  each_message_once_in_order fs pol evs toClient (no_crash_when_close_is_last fs pol evs h)

private theorem frameEvent_close (ms : Wire.MState) (f : Wire.Frame) (ms' : Wire.MState) (e : WsEv)
    (h : Wire.frameEvent ms f = some (ms', e)) (h8 : f.opcode ≠ 8) : e.isClose = false := by
  unfold Wire.frameEvent at h
  repeat' split at h
  all_goals first
    | contradiction
    | (simp at h; done)
    | (simp at h; obtain ⟨_, rfl⟩ := h; rfl)

/-- the transcribed wsproto receive path yields a close event only as the last event of a batch -/
theorem stream_events_close_last (client : Bool) (rsvOk : Nat → Nat → Bool) :
    ∀ (fuel : Nat) (ms : Wire.MState) (bs : Bytes) (evs : List WsEv),
    Wire.streamEvents client rsvOk fuel ms bs = some evs → closeLast evs = true := by
  intro fuel
  induction fuel with
  | zero => intro ms bs evs h; simp [Wire.streamEvents] at h; subst h; rfl
  | succ n ih =>
    intro ms bs evs h
    simp only [Wire.streamEvents] at h
    split at h
    · simp at h; subst h; rfl
    · simp at h
    · rename_i f rest _
      split at h
      · simp at h
      · rename_i ms1 e hfe
        split at h
        · simp at h; subst h; rfl
        · rename_i h8
          cases hr : Wire.streamEvents client rsvOk n ms1 rest with
          | none => rw [hr] at h; simp at h
          | some r =>
            rw [hr] at h; simp at h; subst h
            have hcl := ih ms1 rest r hr
            have he := frameEvent_close ms f ms1 e hfe h8
            cases r with
            | nil => rfl
            | cons a l => simp [closeLast, he, hcl]

/-! ### received text frames may end inside a character (wsproto's incremental decoder, transcribed) -/

/-- **C28 (text frames cut anywhere).** Whatever byte positions the sender cuts a text message
    at — also inside multi-byte characters — if wsproto's strict incremental decoder accepts the
    frames, the data of the events it hands to the relay concatenate to exactly the concatenated
    frame payloads, nothing is held back, and that content is UTF-8 (`san c = c`). -/
theorem text_frames_cut_anywhere (cs outs : List Bytes) (p' : Bytes) (hne : cs ≠ [])
    (h : decodeChunks [] cs = some (outs, p')) :
    outs.flatten = cs.flatten ∧ p' = [] ∧ san cs.flatten = cs.flatten := by
  obtain ⟨hg, hp⟩ := decodeChunks_goS cs [] outs p' h
  have hp' := hp hne
  subst hp'
  obtain ⟨h1, h2⟩ := strict_valid cs.flatten outs.flatten hg
  exact ⟨h1, rfl, h2⟩

/-- … and the relay records exactly that content for the message (as edited by the addons),
    for every way the frames were cut. -/
theorem text_message_cut_anywhere_recorded (fs : Nat) (pol : Policy) (s : St) (fc : Bool)
    (cs : List Bytes) (fr : List (Bytes × Bool)) (p' : Bytes) (hne : cs ≠ [])
    (hdec : decodeChunks [] cs = some (fr.map (·.1), p')) (hwf : wellFramed fr = true)
    (hc : s.crashed = false) (hb : s.buf fc = [[]]) :
    (procEvs fs pol fc false s (fr.map (fun pf => WsEv.msg true pf.1 true pf.2))).1.msgs =
      s.msgs ++ [applyAction (Msg.mk true fc cs.flatten false false)
                  (pol s.msgs.length (Msg.mk true fc cs.flatten false false))] := by
  obtain ⟨h1, _, _⟩ := text_frames_cut_anywhere cs (fr.map (·.1)) p' hne hdec
  rw [chunks_run fs pol fc false true fr hwf s [] hc (by simpa using hb)]
  unfold finishMsg
  simp only [List.nil_append, h1]
  split
  · simp
  · split <;> simp

/-- **C28 (decoder output).** Every piece wsproto's strict incremental decoder hands to the relay
    is itself UTF-8, whatever was held back from the previous frame — the hypothesis of
    `text_buffer_stays_valid` / `unmodified_keeps_boundaries` about received text is a theorem
    about the transcribed decoder. -/
theorem decoder_output_is_utf8 (cs outs : List Bytes) (p' : Bytes)
    (h : decodeChunks [] cs = some (outs, p')) : ∀ o ∈ outs, san o = o :=
  decodeChunks_valid cs [] outs p' rfl h

/-- **C28 (boundaries, text cut anywhere).** A text message whose frames the sender cut at
    arbitrary byte positions and that the addons leave untouched is sent on in exactly the pieces
    the decoder handed over (the frame boundaries moved to the next character boundary), and these
    pieces concatenate to the original payload bytes. -/
theorem unmodified_text_message_any_cuts (fs : Nat) (pol : Policy) (s : St) (fc : Bool)
    (cs : List Bytes) (fr : List (Bytes × Bool)) (p' : Bytes) (hne : cs ≠ [])
    (hdec : decodeChunks [] cs = some (fr.map (·.1), p')) (hwf : wellFramed fr = true)
    (hc : s.crashed = false) (hb : s.buf fc = [[]]) (hop : s.ws (!fc) = .wopen)
    (hkeep : pol s.msgs.length (Msg.mk true fc (fr.map (·.1)).flatten false false) = .keep) :
    (procEvs fs pol fc false s (fr.map (fun pf => WsEv.msg true pf.1 true pf.2))).2 =
      [.hookMsg s.msgs.length, .sendMsg (!fc) true fr] ∧
    (fr.map (·.1)).flatten = cs.flatten := by
  refine ⟨?_, (text_frames_cut_anywhere cs (fr.map (·.1)) p' hne hdec).1⟩
  apply unmodified_message_keeps_frames fs pol s fc false true fr hwf hc hb hop hkeep
  intro _ pf hpf
  exact decoder_output_is_utf8 cs (fr.map (·.1)) p' hdec pf.1 (List.mem_map.mpr ⟨pf, hpf, rfl⟩)

/-- **C28 (wire, text cut anywhere).** The frames of a text message whose payloads are cut at
    ARBITRARY byte positions (inside characters too), with any masking keys and length forms: if
    wsproto's decoder accepts them (the text is UTF-8), the receiving endpoint's events are the
    decoder's pieces with the frames' FIN flags, and they reassemble to exactly one text message
    whose content is the concatenation of the frame payloads.  (Removes the "text frames end on
    character boundaries" assumption of `message_wire_roundtrip`.) -/
theorem text_message_wire_roundtrip_any_cuts (client : Bool) (keys : Nat → Option Bytes)
    (cs outs : List Bytes) (p' : Bytes) (fuel : Nat) (hne : cs ≠ []) (hk : Wire.KeysOk client keys)
    (hsz : ∀ c ∈ cs, c.length < 9223372036854775808) (hfuel : cs.length < fuel)
    (hdec : decodeChunks [] cs = some (outs, p')) :
    Wire.streamEventsU client Wire.noExt fuel none []
        ((Wire.dataFrames true keys 0 true (flagged cs)).flatMap Wire.encodeFrame)
      = some ((flagged outs).map (fun pf => WsEv.msg true pf.1 true pf.2)) ∧
    Wire.reassemble none ((flagged outs).map (fun pf => WsEv.msg true pf.1 true pf.2)) = [(true, cs.flatten)] := by
  have hlen : (flagged cs).length = cs.length := by
    have := congrArg List.length (Wire.flagged_map_fst cs); simpa using this
  have hsz' : ∀ pf ∈ flagged cs, pf.1.length < 9223372036854775808 := by
    intro pf hpf
    apply hsz
    have : pf.1 ∈ (flagged cs).map (·.1) := List.mem_map.mpr ⟨pf, hpf, rfl⟩
    rwa [Wire.flagged_map_fst] at this
  have houts : outs ≠ [] := by
    have := Wire.decodeChunks_length cs [] (outs, p') hdec
    intro h; subst h; simp at this; exact hne (List.length_eq_zero_iff.mp this.symm)
  constructor
  · rw [Wire.streamEventsU_encode client Wire.noExt _ (Wire.dataFrames_ok client true keys (flagged cs) hk hsz' 0 true)
        fuel none [] (by rw [Wire.dataFrames_length, hlen]; exact hfuel)]
    have := Wire.dataFrames_eventsU keys cs hne 0 true []
    simp only [if_true] at this
    rw [this, hdec]
    rfl
  · rw [Wire.reassemble_burst true (flagged outs) (Wire.flagged_wellFramed outs houts) none]
    simp only [Wire.flagged_map_fst]
    rw [(text_frames_cut_anywhere cs outs p' hne hdec).1]

/-! ### round 6 (owner fixes after the cross-audit): the wire theorems over the decoder the driver runs -/

/-- the receive path the driver executes (`fev` = `streamEventsU`, with the incremental UTF-8 decoder) yields a close
    event only as the last event of a batch — for every input, also malformed ones -/
theorem stream_eventsU_close_last (client : Bool) (rsvOk : Nat → Nat → Bool) :
    ∀ (fuel : Nat) (ms : Wire.MState) (pend bs : Bytes) (evs : List WsEv),
    Wire.streamEventsU client rsvOk fuel ms pend bs = some evs → closeLast evs = true := by
  intro fuel
  induction fuel with
  | zero => intro ms pend bs evs h; simp [Wire.streamEventsU] at h; subst h; rfl
  | succ n ih =>
    intro ms pend bs evs h
    simp only [Wire.streamEventsU] at h
    split at h
    · simp at h; subst h; rfl
    · simp at h
    · rename_i f rest _
      split at h
      · simp at h
      · rename_i ms1 p1 e hfe
        split at h
        · simp at h; subst h; rfl
        · rename_i h8
          cases hr : Wire.streamEventsU client rsvOk n ms1 p1 rest with
          | none => rw [hr] at h; simp at h
          | some r =>
            rw [hr] at h; simp at h; subst h
            have hcl := ih ms1 p1 rest r hr
            have he : e.isClose = false := by
              unfold Wire.frameEventU at hfe
              cases hfe0 : Wire.frameEvent ms f with
              | none => rw [hfe0] at hfe; simp at hfe
              | some r0 =>
                obtain ⟨ms0, e0⟩ := r0
                have h0 := frameEvent_close ms f ms0 e0 hfe0 h8
                rw [hfe0] at hfe
                cases e0 with
                | msg t d ff mf =>
                  cases t with
                  | false => simp at hfe; obtain ⟨_, _, rfl⟩ := hfe; rfl
                  | true =>
                    simp only at hfe
                    split at hfe
                    · simp at hfe
                    · simp at hfe; obtain ⟨_, _, rfl⟩ := hfe; rfl
                | ping p => simp at hfe; obtain ⟨_, _, rfl⟩ := hfe; rfl
                | pong p => simp at hfe; obtain ⟨_, _, rfl⟩ := hfe; rfl
                | close k c r => simp [WsEv.isClose] at h0
            cases r with
            | nil => rfl
            | cons a l => simp [closeLast, he, hcl]

/-- **C28 (wire, message — tied decoder).** `message_wire_roundtrip` for `streamEventsU`, the function the driver runs:
    binary messages in any fragmentation, text messages whose fragments are each complete UTF-8 (`StrictOk`; text cut
    inside characters is `text_message_wire_roundtrip_any_cuts`). -/
theorem message_wire_roundtripU (client : Bool) (t : Bool) (keys : Nat → Option Bytes) (fr : List (Bytes × Bool))
    (hwf : wellFramed fr = true) (hk : Wire.KeysOk client keys)
    (hsz : ∀ pf ∈ fr, pf.1.length < 9223372036854775808)
    (hv : t = true → ∀ pf ∈ fr, StrictOk pf.1) (fuel : Nat) (hfuel : fr.length < fuel) :
    Wire.streamEventsU client Wire.noExt fuel none [] ((Wire.dataFrames t keys 0 true fr).flatMap Wire.encodeFrame)
      = some (fr.map (fun pf => WsEv.msg t pf.1 true pf.2)) ∧
    Wire.reassemble none (fr.map (fun pf => WsEv.msg t pf.1 true pf.2)) = [(t, (fr.map (·.1)).flatten)] :=
  Wire.message_wire_roundtripU client t keys fr hwf hk hsz hv fuel hfuel

/-- what the relay puts on the wire as text is always accepted, completely and unchanged, by a strict UTF-8 decoder -/
theorem sent_text_is_strictly_utf8 (fs : Nat) (lens : List Nat) (c : Bytes) :
    ∀ pf ∈ fragmentize fs lens true c, StrictOk pf.1 := Wire.fragmentize_strictOk fs lens c

/-- **C28 (end to end over the wire — tied decoder).** `wire_message_end_to_end` with both hops decoded by
    `streamEventsU` (the function the driver runs against wsproto): any fragmentation, any keys / length forms, any addon
    edit; for text the sender's fragments are each complete UTF-8 here (cut inside characters:
    `wire_text_message_end_to_end_any_cuts`); that the PROXY's outgoing text fragments pass the peer's strict decoder is
    proved (`sent_text_is_strictly_utf8`), not assumed. -/
theorem wire_message_end_to_endU (fs : Nat) (pol : Policy) (s : St) (fc t : Bool)
    (fr : List (Bytes × Bool)) (keys keys' : Nat → Option Bytes) (fuel fuel' : Nat)
    (hwf : wellFramed fr = true) (hk : Wire.KeysOk (!fc) keys)
    (hsz : ∀ pf ∈ fr, pf.1.length < 9223372036854775808) (hfuel : fr.length < fuel)
    (hv : t = true → ∀ pf ∈ fr, StrictOk pf.1)
    (hnd : s.done = false) (hc : s.crashed = false) (hop : s.ws (!fc) = .wopen) (hb : s.buf fc = [[]])
    (m : Msg)
    (hm : m = applyAction (Msg.mk t fc (fr.map (·.1)).flatten false false)
                (pol s.msgs.length (Msg.mk t fc (fr.map (·.1)).flatten false false)))
    (hkeep : m.dropped = false)
    (hk' : Wire.KeysOk (!fc) keys')
    (hsz' : ∀ pf ∈ fragmentize fs (fr.map (·.1.length)) t m.content, pf.1.length < 9223372036854775808)
    (hfuel' : (fragmentize fs (fr.map (·.1.length)) t m.content).length < fuel') :
    let evs := fr.map (fun pf => WsEv.msg t pf.1 true pf.2)
    let burst := fragmentize fs (fr.map (·.1.length)) t m.content
    Wire.streamEventsU (!fc) Wire.noExt fuel none [] ((Wire.dataFrames t keys 0 true fr).flatMap Wire.encodeFrame) = some evs ∧
    (step fs pol s (.data fc evs)).1.msgs = s.msgs ++ [m] ∧
    (step fs pol s (.data fc evs)).2 = [.hookMsg s.msgs.length, .sendMsg (!fc) t burst] ∧
    (Wire.streamEventsU (!fc) Wire.noExt fuel' none [] ((Wire.dataFrames t keys' 0 true burst).flatMap Wire.encodeFrame)).map
        (Wire.reassemble none) = some [(t, wire m)] := by
  intro evs burst
  have hin := Wire.message_wire_roundtripU (!fc) t keys fr hwf hk hsz hv fuel hfuel
  obtain ⟨_, h2, h3, _⟩ := wire_message_end_to_end fs pol s fc t fr keys keys' fuel fuel' hwf hk hsz hfuel hnd hc hop hb m hm hkeep
    hk' hsz' hfuel'
  have hmt : m.text = t := by rw [hm, applyAction_text]
  have hbw := fragmentize_wellFramed fs (fr.map (·.1.length)) t m.content
  have hv' : t = true → ∀ pf ∈ burst, StrictOk pf.1 := by
    intro ht; subst ht; exact Wire.fragmentize_strictOk fs _ m.content
  have hout := Wire.message_wire_roundtripU (!fc) t keys' burst hbw hk' hsz' hv' fuel' hfuel'
  refine ⟨hin.1, h2, h3, ?_⟩
  rw [hout.1]
  simp only [Option.map_some]
  rw [hout.2]
  have := fragmentize_wire fs (fr.map (·.1.length)) t m.content
  simp only [burst, this, wire, hmt]

/-- **C28 (end to end, text cut anywhere — tied decoder).** A peer sends a text message whose frame payloads `cs` are cut
    at arbitrary byte positions; wsproto's decoder (accepting it) hands the relay the pieces `outs`.  Then the proxy's
    events are these pieces, the relay records exactly one message with content `cs.flatten` (as edited by the addons) and
    sends one burst, and the receiving peer — again through its strict incremental decoder — reassembles exactly one text
    message with the recorded content. -/
theorem wire_text_message_end_to_end_any_cuts (fs : Nat) (pol : Policy) (s : St) (fc : Bool)
    (cs outs : List Bytes) (p' : Bytes) (keys keys' : Nat → Option Bytes) (fuel fuel' : Nat)
    (hne : cs ≠ []) (hk : Wire.KeysOk (!fc) keys) (hsz : ∀ c ∈ cs, c.length < 9223372036854775808)
    (hfuel : cs.length < fuel) (hdec : decodeChunks [] cs = some (outs, p'))
    (hnd : s.done = false) (hc : s.crashed = false) (hop : s.ws (!fc) = .wopen) (hb : s.buf fc = [[]])
    (m : Msg)
    (hm : m = applyAction (Msg.mk true fc cs.flatten false false)
                (pol s.msgs.length (Msg.mk true fc cs.flatten false false)))
    (hkeep : m.dropped = false)
    (hk' : Wire.KeysOk (!fc) keys')
    (hsz' : ∀ pf ∈ fragmentize fs (outs.map List.length) true m.content, pf.1.length < 9223372036854775808)
    (hfuel' : (fragmentize fs (outs.map List.length) true m.content).length < fuel') :
    let evs := (flagged outs).map (fun pf => WsEv.msg true pf.1 true pf.2)
    let burst := fragmentize fs (outs.map List.length) true m.content
    Wire.streamEventsU (!fc) Wire.noExt fuel none []
        ((Wire.dataFrames true keys 0 true (flagged cs)).flatMap Wire.encodeFrame) = some evs ∧
    (step fs pol s (.data fc evs)).1.msgs = s.msgs ++ [m] ∧
    (step fs pol s (.data fc evs)).2 = [.hookMsg s.msgs.length, .sendMsg (!fc) true burst] ∧
    (Wire.streamEventsU (!fc) Wire.noExt fuel' none [] ((Wire.dataFrames true keys' 0 true burst).flatMap Wire.encodeFrame)).map
        (Wire.reassemble none) = some [(true, wire m)] := by
  intro evs burst
  have hin := text_message_wire_roundtrip_any_cuts (!fc) keys cs outs p' fuel hne hk hsz hfuel hdec
  have hflat := (text_frames_cut_anywhere cs outs p' hne hdec).1
  have houts : outs ≠ [] := by
    have := Wire.decodeChunks_length cs [] (outs, p') hdec
    intro h; subst h; simp at this; exact hne (List.length_eq_zero_iff.mp this.symm)
  have hwf := Wire.flagged_wellFramed outs houts
  have hrun := chunks_run fs pol fc false true (flagged outs) hwf s [] hc (by simpa using hb)
  rw [Wire.flagged_map_fst] at hrun
  have hmt : m.text = true := by rw [hm, applyAction_text]
  have hstep : step fs pol s (.data fc evs) = finishMsg fs pol fc false s true outs := by
    simp only [step, hnd, hc, Bool.or_self, Bool.false_eq_true, if_false]
    simpa using hrun
  have hbw := fragmentize_wellFramed fs (outs.map List.length) true m.content
  have hout := Wire.message_wire_roundtripU (!fc) true keys' burst hbw hk' hsz'
    (fun _ => Wire.fragmentize_strictOk fs _ m.content) fuel' hfuel'
  refine ⟨hin.1, ?_, ?_, ?_⟩
  · rw [hstep]; unfold finishMsg
    simp only [hflat, ← hm, hkeep, Bool.false_eq_true, if_false, hop, if_true]
  · rw [hstep]; unfold finishMsg
    simp only [hflat, ← hm, hkeep, Bool.false_eq_true, if_false, hop, if_true]
    rfl
  · rw [hout.1]
    simp only [Option.map_some]
    rw [hout.2]
    have := fragmentize_wire fs (outs.map List.length) true m.content
    simp only [burst, this, wire, hmt]

/-! ### round 6: recorded = what the peers sent, over whole interleaved histories -/

private def Rel (s : St) (a : Sent) : Prop :=
  Live s ∧ s.bufC.flatten = a.c ∧ s.bufS.flatten = a.s ∧ s.msgs = a.msgs

private theorem rel_buf (s : St) (a : Sent) (h : Rel s a) (fc : Bool) : (s.buf fc).flatten = a.acc fc := by
  cases fc <;> simp [St.buf, Sent.acc, h.2.1, h.2.2.1]

private theorem procEv_rel (fs : Nat) (pol : Policy) (fc : Bool) (s : St) (a : Sent) (e : WsEv)
    (h : Rel s a) (hn : e.isClose = false) : Rel (procEv fs pol fc false s e).1 (sentEv pol fc a e) := by
  have hl := (procEv_live fs pol fc false s e h.1 hn).1
  refine ⟨hl, ?_⟩
  have hb := rel_buf s a h fc
  obtain ⟨hlive, hc, hs, hm⟩ := h
  unfold procEv
  simp only [hlive.2.2.2, Bool.false_eq_true, if_false]
  cases e with
  | msg t d ff mf =>
    simp only [procMsg, sentEv]
    cases mf
    · simp only [Bool.false_eq_true, if_false]
      cases ff <;> cases fc <;>
        simp_all [St.setBuf, St.buf, Sent.setAcc, Sent.acc, appendLast_flatten]
    · simp only [if_true, finishMsg, appendLast_flatten, hb, hm, live_ws s hlive]
      split <;> cases fc <;> simp_all [St.setBuf, Sent.setAcc, Sent.acc]
  | ping p => simp [procCtl, live_ws s hlive, sentEv, hc, hs, hm]
  | pong p => simp [procCtl, live_ws s hlive, sentEv, hc, hs, hm]
  | close k c r => simp [WsEv.isClose] at hn

private theorem procEvs_rel (fs : Nat) (pol : Policy) (fc : Bool) (es : List WsEv) :
    ∀ (s : St) (a : Sent), Rel s a → (∀ e ∈ es, e.isClose = false) →
    Rel (procEvs fs pol fc false s es).1 (es.foldl (sentEv pol fc) a) := by
  induction es with
  | nil => intro s a h _; exact h
  | cons e es ih =>
    intro s a h hn
    simp only [procEvs, List.foldl_cons]
    exact ih _ _ (procEv_rel fs pol fc s a e h (hn e (by simp))) (fun x hx => hn x (List.mem_cons_of_mem _ hx))

private theorem procEv_buf_other (fs : Nat) (pol : Policy) (fc inj : Bool) (s : St) (e : WsEv) :
    (procEv fs pol fc inj s e).1.buf (!fc) = s.buf (!fc) := by
  unfold procEv
  split
  · rfl
  · cases e with
    | msg t d ff mf =>
      simp only [procMsg, finishMsg]
      repeat' split
      all_goals (cases fc <;> simp [St.buf, St.setBuf])
    | ping p => simp only [procCtl]; split <;> cases fc <;> simp [St.buf]
    | pong p => simp only [procCtl]; split <;> cases fc <;> simp [St.buf]
    | close k c r =>
      simp only [procClose, closeSend]
      repeat' split
      all_goals (cases fc <;> simp [St.buf, St.setWs])

private theorem procEvs_buf_other (fs : Nat) (pol : Policy) (fc inj : Bool) (es : List WsEv) :
    ∀ s : St, (procEvs fs pol fc inj s es).1.buf (!fc) = s.buf (!fc) := by
  induction es with
  | nil => intro s; rfl
  | cons e es ih => intro s; simp only [procEvs]; rw [ih, procEv_buf_other]

private theorem step_rel (fs : Nat) (pol : Policy) (s : St) (a : Sent) (e : Ev) (h : Rel s a) (hn : e.noClose = true) :
    Rel (step fs pol s e).1 (sentOf pol a e) := by
  cases e with
  | data fc evs =>
    have hn' : ∀ e ∈ evs, e.isClose = false := by
      intro e he; simp only [Ev.noClose, List.all_eq_true] at hn; simpa using hn e he
    simp only [step, h.1.2.2.1, h.1.2.2.2, Bool.or_self, Bool.false_eq_true, if_false, sentOf]
    exact procEvs_rel fs pol fc evs s a h hn'
  | inject fc t c =>
    have hl := (step_live fs pol s (.inject fc t c) h.1 rfl).1
    obtain ⟨hm, hbuf⟩ := injected_recorded_once fs pol s fc t c h.1.2.2.1 h.1.2.2.2
    have hother : (step fs pol s (.inject fc t c)).1.buf (!fc) = s.buf (!fc) := by
      simp only [step, h.1.2.2.1, h.1.2.2.2, Bool.or_self, Bool.false_eq_true, if_false]
      have := procEvs_buf_other fs pol fc true (injectEvents fs t c) (s.setBuf fc [[]])
      cases fc <;> simp_all [St.buf, St.setBuf]
    refine ⟨hl, ?_, ?_, ?_⟩
    · cases fc
      · simpa [St.buf, sentOf, h.2.1] using congrArg List.flatten hother
      · simpa [St.buf, sentOf, h.2.1] using congrArg List.flatten hbuf
    · cases fc
      · simpa [St.buf, sentOf, h.2.2.1] using congrArg List.flatten hbuf
      · simpa [St.buf, sentOf, h.2.2.1] using congrArg List.flatten hother
    · rw [hm, h.2.2.2]; rfl

private theorem run_rel (fs : Nat) (pol : Policy) (es : List Ev) :
    ∀ (s : St) (a : Sent), Rel s a → (∀ e ∈ es, e.noClose = true) →
    Rel (run fs pol s es).1 (es.foldl (sentOf pol) a) := by
  induction es with
  | nil => intro s a h _; exact h
  | cons e es ih =>
    intro s a h hn
    simp only [run, List.foldl_cons]
    exact ih _ _ (step_rel fs pol s a e h (hn e (by simp))) (fun x hx => hn x (List.mem_cons_of_mem _ hx))

private theorem rel_init : Rel {} {} := ⟨⟨rfl, rfl, rfl, rfl⟩, rfl, rfl, rfl⟩

/-- **C28 (recorded = sent, whole histories).** For every interleaved history of both directions (data events in any
    fragmentation and segmentation, pings/pongs, injections at any point, any addon policy) in which nobody has closed:
    `flow.websocket.messages` is exactly `sentMessages pol evs` — one entry per finished message of either peer and per
    injection, in arrival order, its content the concatenation of the message's fragments (for an injected text message
    its decode-replace image), with the addons' edit/drop applied.  `sentMessages` is a function of the event history
    alone (two accumulators, no frame buffers, no connection states).  Together with `each_message_once_in_order` this is
    "every message the peers sent is delivered exactly once, in order" for whole histories. -/
theorem recorded_is_what_was_sent (fs : Nat) (pol : Policy) (evs : List Ev) (hn : ∀ e ∈ evs, e.noClose = true) :
    (run fs pol {} evs).1.msgs = sentMessages pol evs :=
  (run_rel fs pol evs {} {} rel_init hn).2.2.2

/-- … and up to the first close of a history: what was recorded is what the peers had sent before the close (events
    of the closing batch in front of the close included); nothing after it is recorded. -/
theorem recorded_is_what_was_sent_until_close (fs : Nat) (pol : Policy) (before : List Ev) (fc : Bool) (pre : List WsEv)
    (kind : CloseKind) (code : Nat) (reason : Option Bytes) (rest : List Ev)
    (h1 : ∀ e ∈ before, e.noClose = true) (h2 : ∀ e ∈ pre, e.isClose = false) :
    (run fs pol {} (before ++ .data fc (pre ++ [.close kind code reason]) :: rest)).1.msgs
      = sentMessages pol (before ++ [.data fc pre]) := by
  rw [run_append]
  have hr := run_rel fs pol before {} {} rel_init h1
  have hp := procEvs_rel fs pol fc pre _ _ hr h2
  obtain ⟨hm, hcr, _, hdone, _⟩ := procClose_inv fc (procEvs fs pol fc false (run fs pol {} before).1 pre).1 kind code reason
  have hstep : (step fs pol (run fs pol {} before).1 (.data fc (pre ++ [.close kind code reason]))).1
      = (procClose fc (procEvs fs pol fc false (run fs pol {} before).1 pre).1 kind code reason).1 := by
    simp [step, hr.1.2.2.1, hr.1.2.2.2, procEvs_append, procEvs, procEv, hp.1.2.2.2]
  simp only [run]
  rw [run_done _ _ _ _ (by rw [hstep]; exact hdone)]
  simp only
  rw [hstep, hm, hp.2.2.2]
  simp [sentMessages, List.foldl_append, sentOf]

private theorem run_append_out (fs : Nat) (pol : Policy) (a b : List Ev) :
    ∀ s : St, (run fs pol s (a ++ b)).2 = (run fs pol s a).2 ++ (run fs pol (run fs pol s a).1 b).2 := by
  induction a with
  | nil => intro s; simp [run]
  | cons e a ih => intro s; simp only [List.cons_append, run, ih, List.append_assoc]

/-- **C28 (ping/pong until a close).** In every history, the pings and pongs a peer sent BEFORE anybody closed are
    handed to the other peer, in order, whatever happens later (`controls_relayed_in_order` for the close-free prefix
    of an arbitrary history). -/
theorem controls_relayed_until_close (fs : Nat) (pol : Policy) (before rest : List Ev) (toClient : Bool)
    (hn : ∀ e ∈ before, e.noClose = true) :
    ∃ tail, controlsOut toClient (run fs pol {} (before ++ rest)).2 = controlsIn (!toClient) before ++ tail := by
  rw [run_append_out, controlsOut_append, controls_relayed_in_order fs pol before toClient hn]
  exact ⟨_, rfl⟩

/-! ### non-vacuity: concrete runs computed by the kernel -/

-- "a" ++ "é"×3 as text with FRAGMENT_SIZE 4: the cut at byte 4 would split the second "é";
-- the fragments are  "aé" | "éé"  and concatenate to the content (F-C28a, repaired)
example : fragmentize 4 [] true [0x61, 0xC3, 0xA9, 0xC3, 0xA9, 0xC3, 0xA9] =
    [([0x61, 0xC3, 0xA9], false), ([0xC3, 0xA9, 0xC3, 0xA9], true)] := by decide +kernel
example : ∀ ch ∈ [[0x61], [0xC3, 0xA9], [0xE2, 0x82, 0xAC], [0xF0, 0x9F, 0x98, 0x80]], wfChar ch = true := by decide
example : wfChar [0xC0, 0x80] = false ∧ wfChar [0xED, 0xA0, 0x80] = false ∧ wfChar [0xF4, 0x90, 0x80, 0x80] = false := by decide
-- the same bytes as a binary message are cut at exactly 4
example : fragmentize 4 [] false [0x61, 0xC3, 0xA9, 0xC3, 0xA9, 0xC3, 0xA9] =
    [([0x61, 0xC3, 0xA9, 0xC3], false), ([0xA9, 0xC3, 0xA9], true)] := by decide +kernel
-- `san` is not the identity: a truncated sequence becomes U+FFFD
example : san [0x61, 0xE2, 0x82] = [0x61, 0xEF, 0xBF, 0xBD] ∧ san [0xE2, 0x82, 0xAC] = [0xE2, 0x82, 0xAC] := by
  decide +kernel
-- injection between two fragments of a client message (F-C28b, repaired): the server gets "X" then "abcd"
example : delivered false (run 4000 (fun _ _ => .keep) {}
      [.data true [.msg true [0x61, 0x62] true false], .inject true true [0x58],
       .data true [.msg true [0x63, 0x64] true true]]).2
    = [(true, [0x58]), (true, [0x61, 0x62, 0x63, 0x64])] := by decide +kernel
-- a dropped message is recorded but not delivered; an edited one is delivered as edited
example : delivered true (run 4000 (fun i _ => if i = 0 then .drop else .edit [0x7A]) {}
      [.data false [.msg false [1] true true, .msg false [2] true true]]).2 = [(false, [0x7A])] := by
  decide +kernel

-- wire: a masked 3-byte text frame and an unmasked 126-byte (16-bit length) binary frame round-trip
example : Wire.decodeFrame false Wire.noExt (Wire.encodeFrame ⟨true, 0, 1, some [1, 2, 3, 4], [0x61, 0x62, 0x63]⟩ ++ [0xFF])
    = .ok ⟨true, 0, 1, some [1, 2, 3, 4], [0x61, 0x62, 0x63]⟩ [0xFF] := by decide +kernel
example : Wire.encodeFrame ⟨true, 0, 1, some [1, 2, 3, 4], [0x61, 0x62, 0x63]⟩ = [0x81, 0x83, 1, 2, 3, 4, 0x60, 0x60, 0x60] := by
  decide +kernel
example : (Wire.encodeFrame ⟨false, 0, 2, none, List.replicate 126 0⟩).take 4 = [0x02, 126, 0, 126] := by decide +kernel
-- the decoder does reject: reserved bit, unmasked frame to a server, non-minimal length, fragmented ping
example : (match Wire.decodeFrame true Wire.noExt [0xC1, 0x00] with | .fail => true | _ => false) = true := by decide +kernel
example : (match Wire.decodeFrame false Wire.noExt [0x81, 0x00] with | .fail => true | _ => false) = true := by decide +kernel
example : (match Wire.decodeFrame true Wire.noExt [0x81, 126, 0, 5, 1, 2, 3, 4, 5] with | .fail => true | _ => false) = true := by
  decide +kernel
example : (match Wire.decodeFrame true Wire.noExt [0x09, 0x00] with | .fail => true | _ => false) = true := by decide +kernel
-- a text message in three frames with a ping in between is reassembled to one message
example : (Wire.streamEvents true Wire.noExt 10 none [0x01, 1, 0x61, 0x89, 0, 0x00, 1, 0x62, 0x80, 1, 0x63]).map (Wire.reassemble none)
    = some [(true, [0x61, 0x62, 0x63])] := by decide +kernel
-- pings of both directions in one history
example : controlsOut false (run 4000 (fun _ _ => .keep) {}
      [.data true [.ping [1], .msg true [0x61] true true], .data false [.pong [2]], .data true [.pong [3]]]).2
    = [(true, [1]), (false, [3])] := by decide +kernel

-- "aé€" cut inside both multi-byte characters: the decoder hands over "a", "é", "€"
example : decodeChunks [] [[0x61, 0xC3], [0xA9, 0xE2], [0x82, 0xAC]] =
    some ([[0x61], [0xC3, 0xA9], [0xE2, 0x82, 0xAC]], []) := by decide +kernel
-- and it rejects an overlong sequence and a message ending inside a character
example : decodeChunks [] [[0x61], [0xC0, 0x80]] = none ∧ decodeChunks [] [[0x61, 0xC3]] = none := by decide +kernel
-- a close frame followed by a ping in one segment: nothing behind the close is an event
example : Wire.streamEvents true Wire.noExt 10 none [0x88, 0x02, 0x03, 0xE8, 0x89, 0x00]
    = some [.close .frame 1000 (some [])] := by decide +kernel

/-! ### round-6 cross-audit: the hypotheses of the theorems above hold together on concrete, non-initial values -/

/-- a client text message "a|b" half received: `frame_buf = ["a", ""]` -/
private def auditMid : St := (run 4000 (fun _ _ => .keep) {} [.data true [.msg true [0x61] true false]]).1

-- each_message_once_in_order / delivered_equals_recorded: `crashed = false` and the UTF-8 hypothesis hold for a history
-- with an injection between two fragments, an edit and a drop; and `crashed` is not constantly false
example : (run 4000 (fun i _ => if i = 1 then .edit [0xC3, 0xA9] else if i = 2 then .drop else .keep) {}
      [.data true [.msg true [0x61] true false], .inject true true [0x58], .data true [.msg true [0x62] true true],
       .data false [.msg false [0xFF] true true, .ping [7]]]).1.crashed = false ∧
    (∀ m ∈ (run 4000 (fun i _ => if i = 1 then .edit [0xC3, 0xA9] else if i = 2 then .drop else .keep) {}
      [.data true [.msg true [0x61] true false], .inject true true [0x58], .data true [.msg true [0x62] true true],
       .data false [.msg false [0xFF] true true, .ping [7]]]).1.msgs, m.text = true → san m.content = m.content) ∧
    (run 4000 (fun _ _ => .keep) {} [.data true [.close .frame 1000 none, .msg false [1] true true]]).1.crashed = true := by
  decide +kernel
-- unmodified_keeps_boundaries: other side open, policy keeps, buffered fragments UTF-8 — on a half-received message
example : auditMid.buf true = [[0x61], []] ∧ auditMid.ws false = .wopen ∧
    (∀ f ∈ appendLast (auditMid.buf true) [0xC3, 0xA9], san f = f) ∧
    (procMsg 4000 (fun _ _ => .keep) true false auditMid true [0xC3, 0xA9] true true).2 =
      [.hookMsg 0, .sendMsg false true [([0x61], false), ([0xC3, 0xA9], true)]] := by decide +kernel
-- injected_recorded_once: not done, not crashed, with a fragment buffered; the buffer survives the injection
example : auditMid.done = false ∧ auditMid.crashed = false ∧
    (step 4000 (fun _ _ => .keep) auditMid (.inject true false [1, 2, 3])).1.buf true = [[0x61], []] ∧
    (step 4000 (fun _ _ => .keep) auditMid (.inject true false [1, 2, 3])).1.msgs.length = 1 := by decide +kernel
-- pings_pongs_relayed: its hypotheses on the half-received state; and they can fail (after the server closed)
example : auditMid.crashed = false ∧ auditMid.ws (!true) = .wopen ∧
    (run 4000 (fun _ _ => .keep) {} [.data false [.close .frame 1001 (some [0x62])]]).1.ws false ≠ .wopen := by decide +kernel
-- close_code_reason_recorded / close_recorded_in_history: a close behind a ping and a finished message, after traffic
example : (run 4000 (fun _ _ => .keep) {} [.data true [.msg false [1] true true], .data false [.ping [9]]]).1.done = false ∧
    (∀ e ∈ [Ev.data true [.msg false [1] true true], .data false [.ping [9]]], e.noClose = true) ∧
    (run 4000 (fun _ _ => .keep) {} ([.data true [.msg false [1] true true], .data false [.ping [9]]] ++
      [.data false ([.pong [3]] ++ [.close .frame 1001 (some [0x62, 0x79, 0x65])]), .data true [.ping [1]]])).1.closed
      = some (false, 1001, some [0x62, 0x79, 0x65]) := by decide +kernel
-- controls_relayed_in_order / no_crash_when_close_is_last: `noClose` resp. `closeLast` hold for real batches and fail for others
example : (∀ e ∈ [Ev.data true [.ping [1], .msg true [0x61] true true], .inject false true [0x62], .data false [.pong [2]]], e.noClose = true) ∧
    (∀ e ∈ [Ev.data true [.msg true [0x61] true true, .close .frame 1000 none], .data false [.ping [2]]], e.closeLast = true) ∧
    (Ev.data true [.close .frame 1000 none, .ping [1]]).closeLast = false := by decide +kernel
-- unmodified_message_keeps_frames / wire_message_end_to_end: wellFramed bursts exist beyond the single frame, buffer empty, peer open
example : wellFramed [([1, 2], false), ([], false), ([3], true)] = true ∧ wellFramed [([1], true), ([2], true)] = false ∧
    ({} : St).buf true = [[]] ∧ ({} : St).ws (!true) = .wopen := by decide +kernel
-- wire_message_end_to_end instantiated: a binary client message in three masked frames, kept by the addons, re-serialised
-- with other keys and read by the server as exactly one message with the recorded content
example : (Wire.streamEvents (!true) Wire.noExt 9 none ((Wire.dataFrames false (fun i => some [1, 2, 3, UInt8.ofNat i]) 0 true
        (fragmentize 4000 [2, 0, 1] false [1, 2, 3])).flatMap Wire.encodeFrame)).map (Wire.reassemble none) =
      some [(false, [1, 2, 3])] :=
  (wire_message_end_to_end 4000 (fun _ _ => .keep) {} true false [([1, 2], false), ([], false), ([3], true)]
    (fun _ => some [9, 9, 9, 9]) (fun i => some [1, 2, 3, UInt8.ofNat i]) 9 9 (by decide) (fun _ => ⟨rfl, rfl⟩)
    (by decide) (by decide) rfl rfl rfl rfl _ rfl rfl (fun _ => ⟨rfl, rfl⟩) (by decide +kernel) (by decide +kernel)).2.2.2
-- text_message_cut_anywhere_recorded / unmodified_text_message_any_cuts: their decoder hypothesis with flags
example : decodeChunks [] [[0x61, 0xC3], [0xA9, 0xE2], [0x82, 0xAC]] =
      some (([([0x61], false), ([0xC3, 0xA9], false), ([0xE2, 0x82, 0xAC], true)] : List (Bytes × Bool)).map (·.1), []) ∧
    wellFramed [([0x61], false), ([0xC3, 0xA9], false), ([0xE2, 0x82, 0xAC], true)] = true := by decide +kernel
-- frame_roundtrip / stream_roundtrip: `Frame.wf` and `FramesOk` hold for a masked text frame followed by a ping
example : Wire.FramesOk false Wire.noExt [⟨false, 0, 1, some [1, 2, 3, 4], [0x61]⟩, ⟨true, 0, 9, some [0, 0, 0, 0], []⟩] := by
  intro f hf
  simp only [List.mem_cons, List.mem_singleton, List.not_mem_nil, or_false] at hf
  rcases hf with rfl | rfl <;> exact ⟨by unfold Wire.Frame.wf; decide, by decide⟩
-- the gap named in notes/audit6/C28.md closes: the decoder the driver runs (`streamEventsU`) also yields a close only last
example (client : Bool) (rsvOk : Nat → Nat → Bool) : ∀ (fuel : Nat) (ms : Wire.MState) (pend bs : Bytes) (evs : List WsEv),
    Wire.streamEventsU client rsvOk fuel ms pend bs = some evs → closeLast evs = true := by
  intro fuel
  induction fuel with
  | zero => intro ms pend bs evs h; simp [Wire.streamEventsU] at h; subst h; rfl
  | succ n ih =>
    intro ms pend bs evs h
    simp only [Wire.streamEventsU] at h
    split at h
    · simp at h; subst h; rfl
    · simp at h
    · rename_i f rest _
      split at h
      · simp at h
      · rename_i ms1 p1 e hfe
        split at h
        · simp at h; subst h; rfl
        · rename_i h8
          cases hr : Wire.streamEventsU client rsvOk n ms1 p1 rest with
          | none => rw [hr] at h; simp at h
          | some r =>
            rw [hr] at h; simp at h; subst h
            have hcl := ih ms1 p1 rest r hr
            have he : e.isClose = false := by
              unfold Wire.frameEventU at hfe
              cases hfe0 : Wire.frameEvent ms f with
              | none => rw [hfe0] at hfe; simp at hfe
              | some r0 =>
                obtain ⟨ms0, e0⟩ := r0
                have h0 := frameEvent_close ms f ms0 e0 hfe0 h8
                rw [hfe0] at hfe
                cases e0 with
                | msg t d ff mf =>
                  cases t with
                  | false => simp at hfe; obtain ⟨_, _, rfl⟩ := hfe; rfl
                  | true =>
                    simp only at hfe
                    split at hfe
                    · simp at hfe
                    · simp at hfe; obtain ⟨_, _, rfl⟩ := hfe; rfl
                | ping p => simp at hfe; obtain ⟨_, _, rfl⟩ := hfe; rfl
                | pong p => simp at hfe; obtain ⟨_, _, rfl⟩ := hfe; rfl
                | close k c r => simp [WsEv.isClose] at h0
            cases r with
            | nil => rfl
            | cons a l => simp [closeLast, he, hcl]

-- recorded = sent on an interleaved history: client message in two events with a server message and an injection in
-- between, the second message edited, the third dropped
example : let evs : List Ev := [.data true [.msg true [0x61] true false], .data false [.ping [1], .msg false [7, 8] true true],
      .inject true true [0x58], .data true [.msg true [0x62] true true]]
    let pol : Policy := fun i _ => if i = 1 then .edit [0x7A] else if i = 2 then .drop else .keep
    (∀ e ∈ evs, e.noClose = true) ∧
    sentMessages pol evs = [⟨false, false, [7, 8], false, false⟩, ⟨true, true, [0x7A], true, false⟩, ⟨true, true, [0x61, 0x62], false, true⟩] ∧
    (run 4000 pol {} evs).1.msgs = sentMessages pol evs := by decide +kernel
-- the proxy's own text fragments pass the strict decoder: "a" U+FFFD "b" from invalid input
example : goS [] (san [0x61, 0xFF, 0x62]) = some ([0x61, 0xEF, 0xBF, 0xBD, 0x62], []) := by decide +kernel

end MitmVerif.Props.C28
