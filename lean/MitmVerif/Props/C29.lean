/-
  C29 — raw TCP and UDP relaying is exact and each flow ends once.

  All theorems quantify over EVERY input schedule `ins : List Input` (data in both directions, injections,
  half and full closes in any order, hook completions with or without an addon edit, connect results, and
  also inputs server.py would never produce) of the `TCPLayer`/`UDPLayer` model in Model/C29.lean, started
  from `init proto flow connected`.  `st.trace` is the list of all commands the layer has yielded.

  * relay_exact_per_direction        SendData payloads towards a peer = recorded contents of flow.messages for that
                                     direction, in order (the one message whose hook is still running excepted)
  * addon_edit_is_what_is_sent       the content an addon leaves in messages[-1] is what is recorded and sent
  * inject_is_spoofed_data           an injected message is handled exactly like received data
  * half_close_propagated_while_other_direction_flows
  * half_close_emitted_once_quiescent (covers ConnectionClosed events buffered behind pending hooks)
  * full_close_only_when_ending / tcp_ends_only_when_both_directions_closed
  * at_most_one_end_or_error, exactly_one_end_or_error, connect_failure_fires_error
  * nothing_relayed_after_end
  * ignore_mode_fires_no_end_or_error_hook
  * messages_handled_in_arrival_order, handled_is_prefix_of_arrivals, ignore_mode_relays_in_arrival_order:
    the pause queue never reorders (with and without a flow)
  * open_connection_reply_truthy_iff_failed, empty_reply_is_taken_as_success, failed_connect_ends_flow_with_error:
    the `None` / `""` / message boundary of OpenConnectionCompleted.reply
  * exactly_one_end_or_error_of_schedule: the hypothesis `phase ≠ idle` derived from `Start ∈ ins`
  * recorded_messages_are_arrivals_with_edits, one_recorded_message_per_completed_hook: addon modifications, whole history
  * never_connected_relays_nothing: whole-history form of the connection-failure clause
  * round 3: `Input.hookKill` (flow.kill() inside any hook) is part of every schedule; *_any_sockets variants hold when
    write_eof raises OSError (initX); kill_in_message_hook_still_relays, kill_is_plain_completion
-/
import MitmVerif.Lemmas.C29
import MitmVerif.Lemmas.C29Ignore
import MitmVerif.Lemmas.C29NC
import MitmVerif.Lemmas.C29Edits
namespace MitmVerif.Props.C29
open MitmVerif MitmVerif.C29 MitmVerif.C29.Lemmas

/-- contents whose message hook is still running: recorded in `flow.messages`, not yet sent -/
def inFlightTo (s : Side) (st : State) : List Bytes :=
  match st.pending with
  | .msgHook to m => if to = s then [m.content] else []
  | _ => []

private theorem reach (p : Proto) (f c : Bool) (ins : List Input) : Full (run (init p f c) ins) :=
  full_run _ _ (full_init p f c)

private theorem reach_flow (p : Proto) (f c : Bool) (ins : List Input) : (run (init p f c) ins).flow = f :=
  (run_cfg (init p f c) ins).1

private theorem reach_proto (p : Proto) (f c : Bool) (ins : List Input) : (run (init p f c) ins).proto = p :=
  (run_cfg (init p f c) ins).2.1

private theorem exact_of_inv (st : State) (hI : TrInv st) (hf : st.flow = true) (s : Side) :
    sentTo s st.trace ++ inFlightTo s st = recorded s st.flowMessages := by
  unfold TrInv at hI
  have h1 := hI.1 hf s
  have h2 := hI.2.1
  cases hp : st.pending with
  | msgHook to m =>
    have hm := (h2 to m hp).1
    simp only [inFlightTo, State.flowMessages, hp]
    rw [recorded_snoc, h1]
    cases to <;> cases s <;> simp_all
  | _ => simp [inFlightTo, State.flowMessages, hp, h1]

/-- **Exact relay.**  For every schedule and each direction: what has been sent to peer `s`, followed by the
    message (if any) whose hook is still pending, is exactly the recorded contents of `flow.messages` that travel
    towards `s` — same contents (addon edits included), same order, nothing extra, nothing missing. -/
theorem relay_exact_per_direction (p : Proto) (c : Bool) (ins : List Input) (s : Side) :
    sentTo s (run (init p true c) ins).trace ++ inFlightTo s (run (init p true c) ins)
      = recorded s (run (init p true c) ins).flowMessages :=
  exact_of_inv _ (reach p true c ins).1 (reach_flow p true c ins) s

/-- in particular, whenever no message hook is pending the two sequences coincide -/
theorem relay_exact_when_no_hook_pending (p : Proto) (c : Bool) (ins : List Input) (s : Side)
    (hp : ∀ to m, (run (init p true c) ins).pending ≠ .msgHook to m) :
    sentTo s (run (init p true c) ins).trace = recorded s (run (init p true c) ins).flowMessages := by
  have := relay_exact_per_direction p c ins s
  cases h : (run (init p true c) ins).pending with
  | msgHook to m => exact absurd h (hp to m)
  | _ => simpa [inFlightTo, h] using this

/-- **Addon modification.**  When the message hook returns, the content the addon left in `messages[-1]`
    (`e.getD` of the original) is appended to the recorded messages and is the very next `SendData`. -/
theorem addon_edit_is_what_is_sent (st : State) (to : Side) (m : Msg) (e : Option Bytes)
    (hph : st.phase ≠ .idle) (hp : st.pending = .msgHook to m) :
    (step st (.hookDone e)).msgs = st.msgs ++ [⟨m.fromClient, e.getD m.content⟩] ∧
    ∃ rest, (step st (.hookDone e)).trace = st.trace ++ .send to (e.getD m.content) :: rest := by
  have hed : editMsg m e = ⟨m.fromClient, e.getD m.content⟩ := by cases e <;> rfl
  unfold step
  split
  · rename_i h; exact absurd h hph
  · simp only [hp]
    have := drain_ext st.queue
      (emit { st with pending := .none, msgs := st.msgs ++ [editMsg m e] } (.send to (editMsg m e).content))
    obtain ⟨-, -, -, hm, ⟨r, ht⟩, -, -⟩ := this
    refine ⟨?_, r, ?_⟩
    · simpa [hed] using hm
    · simpa [hed] using ht

/-- **Injection.**  `Tcp/UdpMessageInjected` is processed exactly like `DataReceived` from the spoofed side. -/
theorem inject_is_spoofed_data (st : State) (fromClient : Bool) (d : Bytes) :
    step st (.inject fromClient d) = step st (.data (if fromClient then .client else .server) d) := by
  unfold step; split <;> rfl

/-- **Half-close.**  In every reachable TCP relay state that is not waiting for a hook: when peer `s` closes its
    sending direction while the other peer can still be read, the layer yields exactly one command, the half-close
    of the other connection; it keeps relaying, the other side stays readable and `s` stays writable, and the next
    data from the other side is still delivered to `s` (through the message hook when there is a flow). -/
theorem half_close_propagated_while_other_direction_flows (f c : Bool) (ins : List Input) (s : Side)
    (hph : (run (init .tcp f c) ins).phase = .relay) (hp : (run (init .tcp f c) ins).pending = .none)
    (hr : ((run (init .tcp f c) ins).conn s.other).canRead = true) :
    let st := run (init .tcp f c) ins
    let st1 := step st (.closed s false)
    st1.trace = st.trace ++ [.close s.other true] ∧ st1.phase = .relay ∧ st1.pending = .none ∧
    (st1.conn s.other).canRead = true ∧ (st1.conn s).canWrite = (st.conn s).canWrite ∧
    ∀ d e, (step (step st1 (.data s.other d)) (.hookDone e)).trace =
      st1.trace ++ (if f then [.hook (.message (s.other == .client) d), .send s (e.getD d)] else [.send s d]) := by
  have hF := reach .tcp f c ins
  have hf := reach_flow .tcp f c ins
  have hpr := reach_proto .tcp f c ins
  have hfl1 : (run (init .tcp f c) ins).cEofFail = false := (run_cfg (init .tcp f c) ins).2.2.2.1
  have hfl2 : (run (init .tcp f c) ins).sEofFail = false := (run_cfg (init .tcp f c) ins).2.2.2.2
  generalize run (init .tcp f c) ins = st at *
  intro st0 st1
  have hq : st.queue = [] := hF.2.2 hp
  have step_closed : ∀ (t : State), t.phase = .relay → t.pending = .none → t.proto = .tcp →
      (t.conn s.other).canRead = true →
      step t (.closed s false) = emit (t.setConn s { t.conn s with canRead := false }) (.close s.other true) := by
    intro t h1 h2 h3 h4
    unfold step
    split
    · rename_i h; rw [h1] at h; cases h
    · cases s <;>
        simp_all [deliver, handle, handleClosed, State.setConn, State.conn, Side.other]
  have e1 : st1 = emit (st.setConn s { st.conn s with canRead := false }) (.close s.other true) :=
    step_closed st hph hp hpr hr
  have hs1 : st1.phase = .relay ∧ st1.pending = .none ∧ st1.queue = [] ∧ st1.flow = f := by
    rw [e1]; cases s <;> simp_all [State.setConn]
  refine ⟨?_, hs1.1, hs1.2.1, ?_, ?_, ?_⟩
  · rw [e1]; cases s <;> simp [State.setConn, st0]
  · rw [e1]; cases s <;> simp_all [State.setConn, State.conn, Side.other, emit, applyClose, State.eofFail]
  · rw [e1]; cases s <;> simp_all [State.setConn, State.conn, Side.other, emit, applyClose, State.eofFail, st0]
  · intro d e
    obtain ⟨a, b, c', d'⟩ := hs1
    have hd : step st1 (.data s.other d) = handleData st1 s.other d := by
      unfold step
      split
      · rename_i h; rw [a] at h; cases h
      · simp [deliver, b, handle, a]
    rw [hd]
    unfold handleData
    cases f
    · simp only [d', Bool.false_eq_true, if_false]
      unfold step
      split
      · rename_i h; simp [a] at h
      · cases s <;> simp [b, Side.other]
    · simp only [d', if_true]
      unfold step
      split
      · rename_i h; simp [a] at h
      · cases s <;> cases e <;> simp [c', Side.other, drain, editMsg]

/-- **Half-close, also across the pause queue.**  Whenever the TCP relay is still running and is not waiting for a
    reply, every side that can no longer be read has had the half-close of the opposite connection yielded —
    no matter whether its `ConnectionClosed` was handled at once or had been buffered behind hooks. -/
theorem half_close_emitted_once_quiescent (f c : Bool) (ins : List Input) (s : Side)
    (hph : (run (init .tcp f c) ins).phase = .relay) (hp : (run (init .tcp f c) ins).pending = .none)
    (hr : ((run (init .tcp f c) ins).conn s).canRead = false) :
    Output.close s.other true ∈ (run (init .tcp f c) ins).trace := by
  obtain ⟨hF, hH⟩ := full2_run _ ins (full2_init .tcp f c)
  have hq := hF.2.2 hp
  rcases hH (run_cfg (init .tcp f c) ins).2.2.2.1 (run_cfg (init .tcp f c) ins).2.2.2.2 (reach_proto .tcp f c ins) hph s hr with hm | hm
  · rw [hq] at hm; cases hm
  · exact hm

/-- **No full close while relaying.**  As long as the layer has not entered `done`, it has never yielded a
    full `CloseConnection` — the only close commands of a running relay are half-closes. -/
theorem full_close_only_when_ending (p : Proto) (f c : Bool) (ins : List Input) (s : Side)
    (hph : (run (init p f c) ins).phase ≠ .done) : Output.close s false ∉ (run (init p f c) ins).trace := by
  intro hmem
  have hI := (reach p f c ins).1
  unfold TrInv at hI
  obtain ⟨-, -, -, -, -, -, -, -, -, -, -, h12, -⟩ := hI
  apply hph
  apply h12
  simp only [hasFull, List.any_eq_true]
  exact ⟨_, hmem, rfl⟩

/-- a TCP relay only ends (enters `done`) after a failed connect or once neither side can be read any more -/
theorem tcp_ends_only_when_both_directions_closed (f c : Bool) (ins : List Input)
    (hph : (run (init .tcp f c) ins).phase = .done) :
    (run (init .tcp f c) ins).connected = false ∨
      ((run (init .tcp f c) ins).client.canRead = false ∧ (run (init .tcp f c) ins).server.canRead = false) := by
  have hI := (reach .tcp f c ins).1
  unfold TrInv at hI
  obtain ⟨-, -, -, -, -, -, -, -, -, -, -, -, h13⟩ := hI
  exact h13 (reach_proto .tcp f c ins) hph

/-- **At most one** end-or-error hook, for every schedule. -/
theorem at_most_one_end_or_error (p : Proto) (f c : Bool) (ins : List Input) :
    (run (init p f c) ins).trace.countP isEndOrError ≤ 1 := by
  have hI := (reach p f c ins).1
  unfold TrInv at hI
  have := hI.2.2.1
  unfold cnt at this
  rw [this]; split <;> omega

/-- the peers are finished: (TCP) neither side can be read any more / (UDP) one side has closed -/
def peersFinished (st : State) : Prop :=
  match st.proto with
  | .tcp => st.client.canRead = false ∧ st.server.canRead = false
  | .udp => st.client.canRead = false ∨ st.server.canRead = false

private theorem exactly_one_of_full (st : State) (h : Full st) (hf : st.flow = true)
    (hidle : st.phase ≠ .idle) (hp : st.pending = .none) (hclosed : peersFinished st)
    (hd1 : st.cEofFail = false) (hd2 : st.sEofFail = false) :
    st.trace.countP isEndOrError = 1 := by
  unfold peersFinished at hclosed
  obtain ⟨hI, hK, hQ⟩ := h
  have hq : st.queue = [] := hQ hp
  unfold TrInv at hI
  unfold KInv at hK
  obtain ⟨-, -, hcnt, -, -, -, -, -, hstart, -, -, -, -⟩ := hI
  obtain ⟨-, -, -, k3, k4⟩ := hK
  have hdone : st.phase = .done := by
    cases hph : st.phase with
    | idle => exact absurd hph hidle
    | start => exact absurd hp (hstart hph)
    | done => rfl
    | relay =>
      exfalso
      cases hpr : st.proto with
      | tcp =>
        rw [hpr] at hclosed
        have := k3 hph hpr hd1 hd2
        simp [hq, hclosed.1, hclosed.2] at this
      | udp =>
        rw [hpr] at hclosed
        have := k4 hph hpr
        simp [hq] at this
        rcases hclosed with a | a
        · simp [a] at this
        · simp [a] at this
  unfold cnt at hcnt
  rw [hcnt, if_pos ⟨hf, Or.inl hdone⟩]

/-- **Exactly one** once the flow is over: the layer was started, is not waiting for a reply, and
    (TCP) neither side can be read any more / (UDP) one side has closed.  Holds for every schedule. -/
theorem exactly_one_end_or_error (p : Proto) (c : Bool) (ins : List Input)
    (hidle : (run (init p true c) ins).phase ≠ .idle) (hp : (run (init p true c) ins).pending = .none)
    (hclosed : peersFinished (run (init p true c) ins)) :
    (run (init p true c) ins).trace.countP isEndOrError = 1 :=
  exactly_one_of_full _ (reach p true c ins) (reach_flow p true c ins) hidle hp hclosed
    (run_cfg (init p true c) ins).2.2.2.1 (run_cfg (init p true c) ins).2.2.2.2

/-- a refused/failed `OpenConnection` makes the layer fire the error hook (and nothing else) at once -/
theorem connect_failure_fires_error (st : State) (hph : st.phase ≠ .idle) (hp : st.pending = .connect)
    (hf : st.flow = true) :
    (step st (.connectDone true)).trace = st.trace ++ [.hook .error] ∧
    (step st (.connectDone true)).pending = .errorHook := by
  unfold step
  split
  · rename_i h; exact absurd h hph
  · simp [hp, hf]

/-- once an end or error hook has fired, whatever the schedule does afterwards: -/
theorem nothing_relayed_after_end (p : Proto) (f c : Bool) (ins : List Input)
    (pre post : List Output) (o : Output) :
    (run (init p f c) ins).trace = pre ++ o :: post → isEndOrError o = true →
    ∀ x ∈ post, isSend x = false ∧ isHook x = false := by
  intro htr ho
  have hI := (reach p f c ins).1
  unfold TrInv at hI
  have hs := hI.2.2.2.1
  rw [htr, scan_append] at hs
  simp only [scan, ho, Bool.or_true, Bool.and_eq_true] at hs
  have key : ∀ l : List Output, scan true l = true → ∀ x ∈ l, isSend x = false ∧ isHook x = false := by
    intro l
    induction l with
    | nil => simp
    | cons y t ih =>
      intro h x hx
      simp only [scan, Bool.true_or, Bool.and_eq_true, if_true] at h
      rcases List.mem_cons.1 hx with rfl | hx
      · simpa [quiet] using h.1
      · exact ih h.2 x hx
  exact key post hs.2.2

/-- with `ignore=True` (no flow object) neither an end nor an error hook is ever fired -/
theorem ignore_mode_fires_no_end_or_error_hook (p : Proto) (c : Bool) (ins : List Input) :
    (run (init p false c) ins).trace.countP isEndOrError = 0 := by
  have hI := (reach p false c ins).1
  unfold TrInv at hI
  have := hI.2.2.1
  unfold cnt at this
  rw [this, reach_flow]; simp

/-! ### round 3: dead sockets (`except OSError` branch of `close_connection`) and `flow.kill()` inside hooks

  `Input` now has `hookKill` (a hook completes after the addon called `flow.kill()`), so every theorem above —
  stated for all `ins : List Input` — already covers kills at any point.  The theorems below additionally hold for
  `initX … cEofFail sEofFail`: either socket may raise OSError on `write_eof`, in which case the half-close
  command leaves the connection CLOSED instead of write-closed. -/

private theorem reachX (p : Proto) (f c cd sd : Bool) (ins : List Input) : Full2 (run (initX p f c cd sd) ins) :=
  full2_run _ _ (full2_initX p f c cd sd)

/-- exact relay per direction, with dead sockets and kills: every interleaving of the two directions, with hooks pending -/
theorem relay_exact_per_direction_any_sockets (p : Proto) (c cd sd : Bool) (ins : List Input) (s : Side) :
    sentTo s (run (initX p true c cd sd) ins).trace ++ inFlightTo s (run (initX p true c cd sd) ins)
      = recorded s (run (initX p true c cd sd) ins).flowMessages :=
  exact_of_inv _ (reachX p true c cd sd ins).1.1 (run_cfg (initX p true c cd sd) ins).1 s

theorem at_most_one_end_or_error_any_sockets (p : Proto) (f c cd sd : Bool) (ins : List Input) :
    (run (initX p f c cd sd) ins).trace.countP isEndOrError ≤ 1 := by
  have hI := (reachX p f c cd sd ins).1.1
  unfold TrInv at hI
  have := hI.2.2.1
  unfold cnt at this
  rw [this]; split <;> omega

theorem nothing_relayed_after_end_any_sockets (p : Proto) (f c cd sd : Bool) (ins : List Input)
    (pre post : List Output) (o : Output) :
    (run (initX p f c cd sd) ins).trace = pre ++ o :: post → isEndOrError o = true →
    ∀ x ∈ post, isSend x = false ∧ isHook x = false := by
  intro htr ho
  have hI := (reachX p f c cd sd ins).1.1
  unfold TrInv at hI
  have hs := hI.2.2.2.1
  rw [htr, scan_append] at hs
  simp only [scan, ho, Bool.or_true, Bool.and_eq_true] at hs
  have key : ∀ l : List Output, scan true l = true → ∀ x ∈ l, isSend x = false ∧ isHook x = false := by
    intro l
    induction l with
    | nil => simp
    | cons y t ih =>
      intro h x hx
      simp only [scan, Bool.true_or, Bool.and_eq_true, if_true] at h
      rcases List.mem_cons.1 hx with rfl | hx
      · simpa [quiet] using h.1
      · exact ih h.2 x hx
  exact key post hs.2.2

/-- even when `write_eof` fails, the layer itself never yields a full close before the relay ends -/
theorem full_close_only_when_ending_any_sockets (p : Proto) (f c cd sd : Bool) (ins : List Input) (s : Side)
    (hph : (run (initX p f c cd sd) ins).phase ≠ .done) : Output.close s false ∉ (run (initX p f c cd sd) ins).trace := by
  intro hmem
  have hI := (reachX p f c cd sd ins).1.1
  unfold TrInv at hI
  obtain ⟨-, -, -, -, -, -, -, -, -, -, -, h12, -⟩ := hI
  apply hph
  apply h12
  simp only [hasFull, List.any_eq_true]
  exact ⟨_, hmem, rfl⟩

/-- the dead-socket branch itself: a half-close command on a socket whose `write_eof` raises leaves it CLOSED -/
theorem dead_socket_half_close_is_full (c : Conn) (hw : c.canWrite = true) : applyClose c true true = Conn.shut := by
  simp [applyClose, hw]

/-- **Kill inside the message hook does not stop the relay**: the message is still recorded and is the very next
    `SendData` — exactly as if the addon had not killed the flow. -/
theorem kill_in_message_hook_still_relays (st : State) (to : Side) (m : Msg)
    (hph : st.phase ≠ .idle) (hp : st.pending = .msgHook to m) :
    (step st .hookKill).msgs = st.msgs ++ [m] ∧
    ∃ rest, (step st .hookKill).trace = st.trace ++ .send to m.content :: rest := by
  have hf := applyKill_fields st
  unfold step
  split
  · rename_i h; exact absurd h hph
  · simp only [hp]
    have := drain_ext (applyKill st).queue
      (emit { applyKill st with pending := .none, msgs := (applyKill st).msgs ++ [m] } (.send to m.content))
    obtain ⟨-, -, -, hm, ⟨r, ht⟩, -, -⟩ := this
    refine ⟨?_, r, ?_⟩
    · simpa [hf] using hm
    · simpa [hf] using ht

/-- a kill in any hook is, for the layer, the same as the plain completion of that hook on a flow marked killed -/
theorem kill_is_plain_completion (st : State) :
    step st .hookKill = st ∨ step st .hookKill = step (applyKill st) (.hookDone none) :=
  step_hookKill st

/-- sharper form (audit round 6): WHICH disjunct holds is decided by the state - the completion is ignored exactly when
    no hook is pending (layer not started, nothing pending, or an OpenConnection pending); with a hook pending the kill
    IS the plain completion of that hook on the flow marked killed -/
theorem kill_is_plain_completion_cases (st : State) :
    ((st.phase = .idle ∨ st.pending = .none ∨ st.pending = .connect) → step st .hookKill = st) ∧
    (st.phase ≠ .idle → st.pending ≠ .none → st.pending ≠ .connect →
      step st .hookKill = step (applyKill st) (.hookDone none)) := by
  have hf := applyKill_fields st
  cases hph : st.phase with
  | idle => exact ⟨fun _ => by unfold step; simp [hph], fun h => absurd rfl h⟩
  | _ =>
    cases hp : st.pending with
    | none => exact ⟨fun _ => by unfold step; simp [hph, hp], fun _ h => absurd rfl h⟩
    | connect => exact ⟨fun _ => by unfold step; simp [hph, hp], fun _ _ h => absurd rfl h⟩
    | startHook => exact ⟨fun h => by simp at h, fun _ _ _ => by unfold step; simp [hph, hp, hf]⟩
    | errorHook => exact ⟨fun h => by simp at h, fun _ _ _ => by unfold step; simp [hph, hp, hf]⟩
    | endHook => exact ⟨fun h => by simp at h, fun _ _ _ => by unfold step; simp [hph, hp, hf]⟩
    | msgHook to m => exact ⟨fun h => by simp at h, fun _ _ _ => by unfold step; simp [hph, hp, hf, editMsg]⟩

/-- the end/error accounting with kills and dead sockets: still exactly one once the flow is over, provided the
    sockets are not dead (with a dead socket the missing `ConnectionClosed` is owed by the environment) -/
example : (run (init .tcp true true) [.start, .hookKill, .data .client [1], .hookKill, .closed .client false,
    .closed .server false, .hookDone none]).trace =
    [.hook .start, .hook (.message true [1]), .send .server [1], .close .server true, .close .client false, .hook .end_] := by
  decide

/-- dead server socket: the half-close towards the server leaves it CLOSED, so the end needs no second close of it -/
example : (run (initX .tcp true true false true) [.start, .hookDone none, .closed .client false, .closed .server true]).trace =
    [.hook .start, .close .server true, .close .client false, .hook .end_] := by decide

/-! ### arrival order (the replay of events buffered while a hook is pending keeps their order) -/

/-- **Messages are handled in arrival order.**  `accepted true/false ins` is the list of data and injected messages
    the schedule delivers after `Start`, in delivery order (both directions interleaved).  While the relay runs, the
    message hooks fired so far (with the content the peer sent), followed by the data events still waiting in the pause
    queue, are EXACTLY that list — for every interleaving of the two directions, hook completions, kills and closes. -/
theorem messages_handled_in_arrival_order (p : Proto) (c : Bool) (ins : List Input)
    (hrun : (run (init p true c) ins).phase = .start ∨ (run (init p true c) ins).phase = .relay) :
    hookMsgs (run (init p true c) ins).trace ++ dataOf (run (init p true c) ins).queue = accepted false ins := by
  have h := arr_run (init p true c) ins [] rfl (full_init p true c) (arr_init p c)
  rw [List.nil_append, arrivals_eq_accepted] at h
  have e : decide ((init p true c).phase ≠ Phase.idle) = false := by simp [init]
  rw [e] at h
  rcases hrun with hs | hr
  · exact h.2.1 hs
  · exact h.2.2.1 hr

/-- once the relay has ended, what was handled is a prefix of what arrived (later arrivals are dropped, never reordered) -/
theorem handled_is_prefix_of_arrivals (p : Proto) (c : Bool) (ins : List Input) :
    ∃ rest, hookMsgs (run (init p true c) ins).trace ++ rest = accepted false ins := by
  have h := arr_run (init p true c) ins [] rfl (full_init p true c) (arr_init p c)
  rw [List.nil_append, arrivals_eq_accepted] at h
  have e : decide ((init p true c).phase ≠ Phase.idle) = false := by simp [init]
  rw [e] at h
  cases hph : (run (init p true c) ins).phase with
  | idle => exact ⟨[], by rw [(h.1 hph).2, (h.1 hph).1]; rfl⟩
  | start => exact ⟨_, h.2.1 hph⟩
  | relay => exact ⟨_, h.2.2.1 hph⟩
  | done => exact h.2.2.2 hph

/-- **Arrival order without a flow (`ignore=True`).**  The SendData commands yielded so far (direction, payload),
    followed by the data events still waiting in the pause queue, are exactly the data and injected messages delivered
    after `Start`, in delivery order; once the relay has ended they are a prefix of them. -/
theorem ignore_mode_relays_in_arrival_order (p : Proto) (c : Bool) (ins : List Input) :
    (((run (init p false c) ins).phase = .start ∨ (run (init p false c) ins).phase = .relay) →
      sentMsgs (run (init p false c) ins).trace ++ dataOf (run (init p false c) ins).queue = accepted false ins) ∧
    ∃ rest, sentMsgs (run (init p false c) ins).trace ++ rest = accepted false ins := by
  have h := arri_run (init p false c) ins [] rfl (full_init p false c) (arri_init p c)
  rw [List.nil_append, arrivals_eq_accepted] at h
  have e : decide ((init p false c).phase ≠ Phase.idle) = false := by simp [init]
  rw [e] at h
  refine ⟨?_, ?_⟩
  · intro hrun
    rcases hrun with hs | hr
    · exact h.2.1 hs
    · exact h.2.2.1 hr
  · cases hph : (run (init p false c) ins).phase with
    | idle => exact ⟨[], by rw [(h.1 hph).2, (h.1 hph).1]; rfl⟩
    | start => exact ⟨_, h.2.1 hph⟩
    | relay => exact ⟨_, h.2.2.1 hph⟩
    | done => exact h.2.2.2 hph

example : sentMsgs (run (init .tcp false false) [.start, .data .client [1], .data .client [2], .closed .client false,
    .connectDone false, .data .server [3]]).trace = [⟨true, [1]⟩, ⟨true, [2]⟩, ⟨false, [3]⟩] := by decide

/-- three server replies and a client message buffered behind one pending hook are handled 1,2,3 - not 3,2,1 -/
example : hookMsgs (run (init .tcp true true) [.start, .hookDone none, .data .client [0], .data .server [1],
    .data .server [2], .data .server [3], .hookDone none, .hookDone none, .hookDone none, .hookDone none]).trace =
    [⟨true, [0]⟩, ⟨false, [1]⟩, ⟨false, [2]⟩, ⟨false, [3]⟩] := by decide

/-! ### the reply of `OpenConnection`: `None` / `""` / message -/

/-- **A failed connection attempt is always reported as one.**  Whatever the exception (also one whose `str()` is
    empty: a bare `TimeoutError()`, `OSError()`, `ConnectionError()`, or a cancellation), the reply `open_connection`
    completes the command with is truthy for the layers' `if err:`; a successful attempt yields `None`. -/
theorem open_connection_reply_truthy_iff_failed (o : ConnectOutcome) :
    truthy (openConnectionReply o) = (o != .ok) := by
  cases o with
  | ok => rfl
  | cancelled => rfl
  | oserror msg =>
    cases msg with
    | nil => rfl
    | cons b t => rfl

/-- the boundary this rests on: to the layers an EMPTY error string is the same input as `None` (success) — which is
    why `open_connection` must never produce it for a failure -/
theorem empty_reply_is_taken_as_success : replyInput (some []) = replyInput none := rfl

/-- end to end: a layer waiting for its `OpenConnection`, completed by `open_connection` after ANY failure, fires the
    error hook at once (and, by `at_most_one_end_or_error` / `nothing_relayed_after_end`, never ends normally or relays) -/
theorem failed_connect_ends_flow_with_error (st : State) (o : ConnectOutcome) (ho : o ≠ .ok)
    (hph : st.phase ≠ .idle) (hp : st.pending = .connect) (hf : st.flow = true) :
    (step st (replyInput (openConnectionReply o))).trace = st.trace ++ [.hook .error] ∧
    (step st (replyInput (openConnectionReply o))).pending = .errorHook := by
  have ht : truthy (openConnectionReply o) = true := by
    rw [open_connection_reply_truthy_iff_failed]; cases o <;> simp_all
  unfold replyInput
  rw [ht]
  exact connect_failure_fires_error st hph hp hf

/-! ### addon modifications over whole histories -/

/-- **Recorded = arrivals with the addon's edits, one for one, in order.**  `accepted false ins` are the data and injected
    messages the schedule delivers after `Start`, in delivery order; `edits _ ins` is what the addon did at the completion
    of each message hook, in order (`some b`: it left content `b` in `messages[-1]`; `none`: untouched, also for a kill).
    For every schedule the messages recorded in `flow.messages` whose hook has completed are exactly the arrivals with
    those edits applied position by position — and by `relay_exact_per_direction` they are, per direction, exactly what
    has been sent to the other peer. -/
theorem recorded_messages_are_arrivals_with_edits (p : Proto) (c : Bool) (ins : List Input) :
    (run (init p true c) ins).msgs =
      List.zipWith editMsg (accepted false ins) (edits (init p true c) ins) := by
  obtain ⟨h, hl, hm, hh⟩ := ed_run (init p true c) ins [] (full_init p true c) (ed_init p true c)
  rw [List.nil_append] at hl hm
  obtain ⟨rest, hr⟩ := handled_is_prefix_of_arrivals p c ins
  rw [hm, ← hr, hh, List.append_assoc, zipWith_prefix _ _ _ _ hl]

/-- each completed message hook has exactly one recorded message -/
theorem one_recorded_message_per_completed_hook (p : Proto) (c : Bool) (ins : List Input) :
    (run (init p true c) ins).msgs.length = (edits (init p true c) ins).length := by
  obtain ⟨h, hl, hm, -⟩ := ed_run (init p true c) ins [] (full_init p true c) (ed_init p true c)
  rw [List.nil_append] at hl hm
  rw [hm, List.length_zipWith, hl, Nat.min_self]

example : (run (init .tcp true true) [.start, .hookDone none, .data .client [1], .inject false [2], .hookDone (some [9]),
    .data .client [3], .hookKill, .hookDone none]).msgs = [⟨true, [9]⟩, ⟨false, [2]⟩, ⟨true, [3]⟩] ∧
    edits (init .tcp true true) [.start, .hookDone none, .data .client [1], .inject false [2], .hookDone (some [9]),
    .data .client [3], .hookKill, .hookDone none] = [some [9], none, none] := by decide

/-! ### hypotheses about the state replaced by hypotheses about the schedule -/

private theorem run_not_idle (st : State) (ins : List Input) (h : st.phase ≠ .idle) : (run st ins).phase ≠ .idle := by
  induction ins generalizing st with
  | nil => exact h
  | cons i t ih => exact ih _ (step_not_idle st i h)

private theorem started_of_start_delivered (st : State) (ins : List Input) (hs : Input.start ∈ ins) :
    (run st ins).phase ≠ .idle := by
  induction ins generalizing st with
  | nil => cases hs
  | cons i t ih =>
    by_cases hid : st.phase = .idle
    · rcases List.mem_cons.1 hs with e | hs'
      · subst e
        show (run (step st .start) t).phase ≠ .idle
        apply run_not_idle
        unfold step; simp only [hid]
        split
        · simp
        · unfold enterRelayOrConnect; split <;> simp
      · exact ih _ hs'
    · show (run (step st i) t).phase ≠ .idle
      exact run_not_idle _ _ (step_not_idle st i hid)

/-- `exactly_one_end_or_error` with its state hypothesis "the layer was started" derived from the schedule:
    it suffices that `Start` occurs somewhere in the event sequence. -/
theorem exactly_one_end_or_error_of_schedule (p : Proto) (c : Bool) (ins : List Input)
    (hstart : Input.start ∈ ins) (hp : (run (init p true c) ins).pending = .none)
    (hclosed : peersFinished (run (init p true c) ins)) :
    (run (init p true c) ins).trace.countP isEndOrError = 1 :=
  exactly_one_end_or_error p c ins (started_of_start_delivered _ ins hstart) hp hclosed

/-! ### connection failures over whole histories -/

/-- **Without a server connection nothing is ever relayed.**  For every schedule: as long as no `OpenConnection` of the
    layer has succeeded — the attempt failed (with whatever message, see `open_connection_reply_truthy_iff_failed`), was
    refused, or is still pending — every command the layer has yielded is one of: start hook, `OpenConnection`, error
    hook, close of the client.  In particular no `SendData`, no message hook and no end hook, whatever the peers send,
    inject or close meanwhile and afterwards. -/
theorem never_connected_relays_nothing (p : Proto) (f : Bool) (ins : List Input)
    (hc : (run (init p f false) ins).connected = false) :
    ∀ o ∈ (run (init p f false) ins).trace,
      o = .hook .start ∨ o = .openServer ∨ o = .hook .error ∨ o = .close .client false := by
  have h := (nc_run (init p f false) ins (full_init p f false) (nc_init p f false) hc).1
  intro o ho
  have := List.all_eq_true.1 h o ho
  cases o with
  | hook hk => cases hk <;> simp_all [setupOnly]
  | openServer => simp
  | send to d => simp [setupOnly] at this
  | close c half => cases c <;> cases half <;> simp_all [setupOnly]

/-- `never_connected_relays_nothing` on a run where the connect fails while client data and a close are buffered -/
example : let st := run (init .tcp true false) [.start, .data .client [1], .hookDone none, .closed .client false,
      .connectDone true, .hookDone none, .data .client [2], .inject false [3]]
    st.connected = false ∧ st.trace = [.hook .start, .openServer, .hook .error, .close .client false] := by decide

/-! ### the hypotheses are satisfiable and the model is not constant -/

/-- a relay with an addon edit, a half-close and a regular end: the edited bytes are what is sent -/
example : (run (init .tcp true false)
    [.start, .data .client [1], .hookDone none, .connectDone false, .hookDone (some [9, 9]),
     .closed .client false, .inject false [7], .hookDone none, .closed .server false]).trace =
    [.hook .start, .openServer, .hook (.message true [1]), .send .server [9, 9], .close .server true,
     .hook (.message false [7]), .send .client [7], .close .client false, .hook .end_] := by decide

/-- hypotheses of `half_close_propagated_while_other_direction_flows` hold in a reachable state -/
example : let st := run (init .tcp true true) [.start, .hookDone none]
    st.phase = .relay ∧ st.pending = .none ∧ (st.conn Side.client.other).canRead = true := by decide

/-- `half_close_emitted_once_quiescent` on a run where the client's close was buffered behind a message hook -/
example : let st := run (init .tcp true true) [.start, .hookDone none, .data .client [1], .closed .client false, .hookDone none]
    st.phase = .relay ∧ st.pending = .none ∧ (st.conn .client).canRead = false ∧
    st.trace = [.hook .start, .hook (.message true [1]), .send .server [1], .close .server true] := by decide

/-- hypotheses of `exactly_one_end_or_error` hold (TCP, both sides closed, end hook completed) -/
example : let st := run (init .tcp true true) [.start, .hookDone none, .closed .client false, .closed .server false, .hookDone none]
    st.phase ≠ .idle ∧ st.pending = .none ∧ peersFinished st ∧ st.trace.countP isEndOrError = 1 := by
  refine ⟨by decide, by decide, ?_, by decide⟩
  show (_ ∧ _)
  exact ⟨by decide, by decide⟩

/-- connect failure: error hook, then the client is closed; data buffered meanwhile is dropped -/
example : (run (init .udp true false) [.start, .hookDone none, .data .client [1], .connectDone true, .hookDone none]).trace =
    [.hook .start, .openServer, .hook .error, .close .client false] := by decide

/-- both closes buffered behind a pending message hook: the message is still sent, then one end hook -/
example : (run (init .tcp true true) [.start, .hookDone none, .data .client [1], .closed .client false,
    .closed .server false, .hookDone none, .hookDone none, .data .server [2]]).trace =
    [.hook .start, .hook (.message true [1]), .send .server [1], .close .server false, .close .client false, .hook .end_] := by
  decide

/-! ### round-6 cross-audit: further non-vacuity witnesses (appended by the auditor, b-c28) -/

/-- `relay_exact_per_direction` with every term non-empty: one message sent on, one edited message whose hook is
    still pending (in flight), both towards the server; nothing towards the client -/
example : let st := run (init .tcp true true) [.start, .hookDone none, .data .client [1], .hookDone (some [7]), .data .client [2]]
    sentTo .server st.trace = [[7]] ∧ inFlightTo .server st = [[2]] ∧ recorded .server st.flowMessages = [[7], [2]] ∧
    sentTo .client st.trace = [] ∧ recorded .client st.flowMessages = [] := by decide

/-- hypotheses of `addon_edit_is_what_is_sent` / `kill_in_message_hook_still_relays` in a reachable state, with a
    close already waiting in the pause queue behind the hook -/
example : let st := run (init .udp true true) [.start, .hookDone none, .inject false [5], .closed .client true]
    st.phase ≠ .idle ∧ st.pending = .msgHook .client ⟨false, [5]⟩ ∧ st.queue = [.closed .client] ∧
    (step st (.hookDone (some [6]))).msgs = [⟨false, [6]⟩] := by
  refine ⟨by decide, by decide, by decide, by decide⟩

/-- hypotheses of `connect_failure_fires_error` / `failed_connect_ends_flow_with_error` in a reachable state, and
    `exactly_one_end_or_error` on the ERROR path (UDP, connect refused, error hook completed): exactly one, and it is
    the error hook -/
example : let st := run (init .udp true false) [.start, .hookDone none]
    st.phase ≠ .idle ∧ st.pending = .connect ∧ st.flow = true := by
  refine ⟨by decide, by decide, by decide⟩

example : let st := run (init .udp true false) [.start, .hookDone none, .data .client [1], .connectDone true, .hookDone none]
    st.phase ≠ .idle ∧ st.pending = .none ∧ peersFinished st ∧ st.trace.countP isEndOrError = 1 ∧
    Output.hook .error ∈ st.trace := by
  refine ⟨by decide, by decide, ?_, by decide, by decide⟩
  show (_ ∨ _)
  exact Or.inl (by decide)

/-- `exactly_one_end_or_error` for UDP on the normal path: one side closes, the end hook completes -/
example : let st := run (init .udp true true) [.start, .hookDone none, .data .server [3], .hookDone none, .closed .server true, .hookDone none]
    st.phase ≠ .idle ∧ st.pending = .none ∧ peersFinished st ∧ st.trace.countP isEndOrError = 1 ∧ st.live = false := by
  refine ⟨by decide, by decide, ?_, by decide, by decide⟩
  show (_ ∨ _)
  exact Or.inr (by decide)

/-- hypothesis and both disjuncts of `tcp_ends_only_when_both_directions_closed`: `done` after both directions closed
    (connected), and `done` after a failed connect (never connected, the server side was never readable) -/
example : let st := run (init .tcp true true) [.start, .hookDone none, .closed .server false, .closed .client false]
    st.phase = .done ∧ st.connected = true ∧ st.client.canRead = false ∧ st.server.canRead = false := by decide
example : let st := run (init .tcp false false) [.start, .connectDone true]
    st.phase = .done ∧ st.connected = false := by decide

/-- `nothing_relayed_after_end` with a non-empty tail: after the error hook only the close of the client follows,
    although client data, an injection and a close were delivered meanwhile and afterwards -/
example : (run (init .tcp true false) [.start, .hookDone none, .data .client [1], .connectDone true, .inject true [2],
      .hookDone none, .data .client [3], .closed .client false]).trace =
    [.hook .start, .openServer] ++ .hook .error :: [.close .client false] := by decide

/-- `messages_handled_in_arrival_order` with a non-empty pause queue: one hook fired, two data events and a close waiting -/
example : let ins : List Input := [.start, .hookDone none, .data .server [1], .data .client [2], .closed .server false, .inject false [3]]
    let st := run (init .tcp true true) ins
    st.phase = .relay ∧ hookMsgs st.trace = [⟨false, [1]⟩] ∧ dataOf st.queue = [⟨true, [2]⟩, ⟨false, [3]⟩] ∧
    accepted false ins = [⟨false, [1]⟩, ⟨true, [2]⟩, ⟨false, [3]⟩] := by decide

/-- `ignore_mode_relays_in_arrival_order` while the connect is still pending (phase `start`, everything queued) -/
example : let ins : List Input := [.start, .data .client [1], .inject true [2]]
    let st := run (init .udp false false) ins
    st.phase = .start ∧ sentMsgs st.trace = [] ∧ dataOf st.queue = accepted false ins := by decide

/-- `half_close_propagated_while_other_direction_flows`, conclusion on a concrete run without a flow (`ignore=True`):
    the server half-closes, the client's next data is still sent to the server -/
example : (run (init .tcp false true) [.start, .closed .server false, .data .client [4], .hookDone none]).trace =
    [.close .client true, .send .server [4]] := by decide

/-- the dead-socket theorems' hypotheses: a run from `initX` with a dead client socket; the half-close towards the
    client leaves it CLOSED, at most one end hook, nothing after it -/
example : let st := run (initX .tcp true true true false) [.start, .hookDone none, .closed .server false, .data .client [1], .hookDone none]
    st.client = Conn.shut ∧ st.trace = [.hook .start, .close .client true, .hook (.message true [1]), .send .server [1]] ∧
    st.trace.countP isEndOrError = 0 := by decide

/-- `open_connection_reply_truthy_iff_failed` on the boundary values: bare exception (empty `str(e)`), a message, success -/
example : openConnectionReply (.oserror []) = some cancelledMsg ∧ truthy (openConnectionReply (.oserror [])) = true ∧
    openConnectionReply (.oserror [0x78]) = some [0x78] ∧ truthy (openConnectionReply .ok) = false := by decide

end MitmVerif.Props.C29
