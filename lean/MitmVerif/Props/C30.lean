/-
  C30 — QUIC streams are demultiplexed onto correctly paired streams.

  `run ops (Mux.init ops) ins` is the state of the RawQuicLayer model (Model/C30.lean) after ANY sequence `ins` of
  events — stream data, FIN, resets on any id from either side, connection close from either side, hook
  completions for any stream, datagrams — and `ops` is ANY child-layer behaviour (the stream layers are black
  boxes: whatever commands they yield, in whatever order, the bookkeeping below holds).

  * allocated_ids_unique          no two layers share a client stream id, no two share a server stream id
  * id_bits / allocator_id_bits   paired ids agree in initiator and direction bits; the allocator hands out
                                  ids whose bits are those of the requested (initiator, direction) class
  * pairing_is_partial_bijection  client id <-> server id is one-to-one (both directions), equal directionality
  * pairing_is_stable             a registered pair never changes afterwards
  * open_connection_pairs_the_stream   STEP-LOCAL and conditional: IF the child yields OpenConnection, the partner is
                                  created (same class); whether the child does is the child's decision
  * client_stream_gets_its_server_stream(_from)   run-level, for the tied child `relayOps` (C29 relay model): after any
                                  history, data on a fresh client-initiated id + completion of its start hook leaves
                                  the pair (id, allocator's id of the same class) registered
  * signals_reach_only_pair       every SendQuicStreamData / ResetQuicStream / StopSendingQuicStream produced by a
                                  stream event (data, FIN, reset, hook completion) is addressed to the client stream or
                                  the server stream of the one layer registered under the event's id
  * stream_commands_address_registered_streams   (all events, incl. the connection-close fan-out)
  * allocated_ids_unique_with_own_connect, no_data_or_reset_after_fin_or_reset_with_own_connect,
    failed_own_connect_ends_layer (next event) / failed_own_connect_ends_layer_forever (every later event list):
                                  the same with the layer's own OpenConnection on Start (pause queue + replay)
  * no_data_or_reset_after_fin_or_reset   whole history: nothing is sent on a (connection, stream id) after its FIN / reset
  * pairing_is_stable_forever, signals_reach_only_pair_forever, history_addresses_registered_streams
                                  the same, lifted to whole histories (induction over the event list)
-/
import MitmVerif.Lemmas.C30
import MitmVerif.Lemmas.C30Fin
import MitmVerif.Lemmas.C30Pair
namespace MitmVerif.Props.C30
open MitmVerif MitmVerif.C30 MitmVerif.C30.Lemmas

variable {σ : Type} (ops : ChildOps σ)

private theorem init_inv : MuxInv (Mux.init ops) := by
  refine ⟨⟨rfl, rfl, rfl, rfl⟩, ?_, ?_, ?_⟩ <;> simp [Mux.init]

private theorem run_snoc (m : Mux σ) (ins : List QIn) (i : QIn) :
    (run ops m (ins ++ [i])).1 = (step ops (run ops m ins).1 i).1 := by
  simp [run, List.foldl_append]

private theorem reach (ins : List QIn) : MuxInv (run ops (Mux.init ops) ins).1 := by
  have : ∀ (m : Mux σ), MuxInv m → MuxInv (run ops m ins).1 := by
    induction ins with
    | nil => intro m h; exact h
    | cons i is ih =>
      intro m h
      have hs := (step_spec ops m i h).1
      have := ih (step ops m i).1 hs
      -- `run` threads the accumulated output, which does not influence the state
      have key : ∀ (l : List QIn) (m : Mux σ) (acc : List QOut),
          (l.foldl (fun (a : Mux σ × List QOut) i => ((step ops a.1 i).1, a.2 ++ (step ops a.1 i).2)) (m, acc)).1 =
          (l.foldl (fun (a : Mux σ × List QOut) i => ((step ops a.1 i).1, a.2 ++ (step ops a.1 i).2)) (m, [])).1 := by
        intro l
        induction l with
        | nil => intro m acc; rfl
        | cons j t iht => intro m acc; simp only [List.foldl_cons]; rw [iht, iht (step ops m j).1 ([] ++ _)]
      unfold run at this ⊢
      simp only [List.foldl_cons]
      rw [key]
      exact this
  exact this _ (init_inv ops)

private theorem pairwise_inj {α β : Type} {l : List α} {f : α → β} (h : l.Pairwise (fun a b => f a ≠ f b))
    {a b : α} (ha : a ∈ l) (hb : b ∈ l) (e : f a = f b) : a = b := by
  induction l with
  | nil => cases ha
  | cons x t ih =>
    rw [List.pairwise_cons] at h
    simp only [List.mem_cons] at ha hb
    rcases ha with rfl | ha <;> rcases hb with rfl | hb
    · rfl
    · exact absurd e (h.1 b hb)
    · exact absurd e.symm (h.1 a ha)
    · exact ih h.2 ha hb

private theorem pairwise_sid_inj {l : List (Stream σ)} (h : l.Pairwise sidNe)
    {a b : Stream σ} (ha : a ∈ l) (hb : b ∈ l) {t : Nat} (e1 : a.sid = some t) (e2 : b.sid = some t) : a = b := by
  induction l with
  | nil => cases ha
  | cons x r ih =>
    rw [List.pairwise_cons] at h
    simp only [List.mem_cons] at ha hb
    rcases ha with rfl | ha <;> rcases hb with rfl | hb
    · rfl
    · exact absurd e2 (h.1 b hb t e1)
    · exact absurd e1 (h.1 a ha t e2)
    · exact ih h.2 ha hb

/-- **Unique ids.**  After any event sequence no two stream layers have the same client-side stream id and no two
    have the same server-side stream id (this covers the ids the peers chose and the ids mitmproxy allocated). -/
theorem allocated_ids_unique (ins : List QIn) :
    ((run ops (Mux.init ops) ins).1.streams.map (·.cid)).Nodup ∧
    ((run ops (Mux.init ops) ins).1.streams.filterMap (·.sid)).Nodup := by
  obtain ⟨-, -, hc, hs⟩ := reach ops ins
  refine ⟨?_, ?_⟩
  · rw [List.Nodup, List.pairwise_map]; exact hc
  · rw [List.Nodup, List.pairwise_filterMap]
    refine hs.imp ?_
    intro a b h x hx y hy
    intro e; subst e
    exact h x (by simpa using hx) (by simpa using hy)

/-- **Id bits of a pair.**  The two ids of a pair agree in both low bits: same initiator, same directionality. -/
theorem id_bits (ins : List QIn) :
    ∀ s ∈ (run ops (Mux.init ops) ins).1.streams, ∀ t, s.sid = some t →
      t % 4 = s.cid % 4 ∧ isUni t = isUni s.cid ∧ isClientInit t = isClientInit s.cid := by
  intro s hs t ht
  have h := ((reach ops ins).2.1 s hs).1 t ht
  refine ⟨h, ?_, ?_⟩
  · simp [isUni, h]
  · have : t % 2 = s.cid % 2 := by omega
    simp [isClientInit, this]

/-- **Allocator.**  In every reachable state the id `get_next_available_stream_id(is_client, is_unidirectional)`
    would return carries exactly those two bits: `id % 4 = 2·uni + (initiator is server)`. -/
theorem allocator_id_bits (ins : List QIn) (isClient uni : Bool) :
    let id := (run ops (Mux.init ops) ins).1.next.get (allocIndex isClient uni)
    id % 4 = (if uni then 2 else 0) + (if isClient then 0 else 1) ∧ isUni id = uni ∧ isClientInit id = isClient := by
  intro id
  have h : id % 4 = allocIndex isClient uni := get_class (reach ops ins).1 (allocIndex_lt _ _)
  refine ⟨h, ?_, ?_⟩
  · cases isClient <;> cases uni <;> simp [isUni, h, allocIndex]
  · have h2 : id % 2 = allocIndex isClient uni % 2 := by omega
    cases isClient <;> cases uni <;> simp [isClientInit, h2, allocIndex]

/-- **Partial bijection.**  Among the registered layers a client stream id determines the server stream id and a
    server stream id determines the client stream id; paired streams have equal directionality. -/
theorem pairing_is_partial_bijection (ins : List QIn) :
    ∀ a ∈ (run ops (Mux.init ops) ins).1.streams, ∀ b ∈ (run ops (Mux.init ops) ins).1.streams,
      (a.cid = b.cid → a.sid = b.sid) ∧
      (∀ t, a.sid = some t → b.sid = some t → a.cid = b.cid) ∧
      (∀ t, a.sid = some t → isUni t = isUni a.cid) := by
  intro a ha b hb
  obtain ⟨-, -, hc, hs⟩ := reach ops ins
  refine ⟨?_, ?_, ?_⟩
  · intro e; rw [pairwise_inj (f := fun s => s.cid) hc ha hb e]
  · intro t e1 e2; rw [pairwise_sid_inj hs ha hb e1 e2]
  · intro t e; exact (id_bits ops ins a ha t e).2.1

/-- **Stability.**  One more event never re-pairs a stream: every registered layer is still registered, with the
    same client stream id and, if it had one, the same server stream id. -/
theorem pairing_is_stable (ins : List QIn) (i : QIn) :
    ∀ x ∈ (run ops (Mux.init ops) ins).1.streams,
      ∃ x' ∈ (run ops (Mux.init ops) (ins ++ [i])).1.streams, x'.cid = x.cid ∧ ∀ t, x.sid = some t → x'.sid = some t := by
  rw [run_snoc]
  exact (step_spec ops _ i (reach ops ins)).2.1

/-- **Signals reach only the pair.**  For a stream-level event (data / FIN / reset on stream `id` from the client or
    the server, or the completion of a hook of stream `id`), one of three things holds.  (1) The step produced NO command at
    all — the layer is done, or the event was processed and the child had nothing to say (e.g. empty data without FIN on a known
    stream).  (2) The step produced exactly one `fault` and nothing else — the registration assertion, a hook completion for an
    unknown client id, the `close_stream_layer` assertion before any output, or exhausted fuel.  In (1) and (2) there is no
    stream command, so nothing can have reached a wrong stream, but no registration fact is claimed.  (3) Otherwise there IS a
    layer registered under that id and *every* stream command produced is addressed either to that layer's client stream (on the
    client connection) or to its server stream (on the server connection). -/
theorem signals_reach_only_pair (ins : List QIn) (i : QIn) (fromClient : Bool) (id : Nat)
    (hk : eventKey i = some (fromClient, id)) :
    let m := (run ops (Mux.init ops) ins).1
    (step ops m i).2 = [] ∨ (step ops m i).2 = [.fault] ∨
    ∃ s ∈ (step ops m i).1.streams, (if fromClient = true then s.cid = id else s.sid = some id) ∧
      ∀ o ∈ (step ops m i).2, ∀ toClient id', target o = some (toClient, id') →
        if toClient = true then id' = s.cid else s.sid = some id' :=
  (step_spec ops _ i (reach ops ins)).2.2.2 fromClient id hk

/-- For every event (including the connection-close fan-out over all layers): each stream command is addressed
    to the client stream or the server stream of some registered layer. -/
theorem stream_commands_address_registered_streams (ins : List QIn) (i : QIn) :
    let m := (run ops (Mux.init ops) ins).1
    ∀ o ∈ (step ops m i).2, ∀ toClient id', target o = some (toClient, id') →
      ∃ s ∈ (step ops m i).1.streams, if toClient = true then s.cid = id' else s.sid = some id' :=
  (step_spec ops _ i (reach ops ins)).2.2.1

/-! ### whole histories: the per-event statements lifted to every later state (induction over the event list) -/

private theorem foldl_acc (l : List QIn) (m : Mux σ) (acc : List QOut) :
    l.foldl (fun (a : Mux σ × List QOut) i => ((step ops a.1 i).1, a.2 ++ (step ops a.1 i).2)) (m, acc) =
    ((l.foldl (fun (a : Mux σ × List QOut) i => ((step ops a.1 i).1, a.2 ++ (step ops a.1 i).2)) (m, [])).1,
     acc ++ (l.foldl (fun (a : Mux σ × List QOut) i => ((step ops a.1 i).1, a.2 ++ (step ops a.1 i).2)) (m, [])).2) := by
  induction l generalizing m acc with
  | nil => simp
  | cons j t ih =>
    simp only [List.foldl_cons]
    rw [ih, ih (step ops m j).1 ([] ++ _)]
    simp [List.append_assoc]

private theorem run_cons (m : Mux σ) (i : QIn) (is : List QIn) :
    run ops m (i :: is) =
      ((run ops (step ops m i).1 is).1, (step ops m i).2 ++ (run ops (step ops m i).1 is).2) := by
  unfold run
  simp only [List.foldl_cons]
  rw [foldl_acc]
  simp

private theorem run_append (m : Mux σ) (a b : List QIn) :
    run ops m (a ++ b) = ((run ops (run ops m a).1 b).1, (run ops m a).2 ++ (run ops (run ops m a).1 b).2) := by
  induction a generalizing m with
  | nil => simp [run]
  | cons i t ih => rw [List.cons_append, run_cons, run_cons, ih]; simp [List.append_assoc]

private theorem inv_run (m : Mux σ) (h : MuxInv m) (ins : List QIn) : MuxInv (run ops m ins).1 := by
  induction ins generalizing m with
  | nil => exact h
  | cons i t ih => rw [run_cons]; exact ih _ (step_spec ops m i h).1

private theorem stable_run (m : Mux σ) (h : MuxInv m) (ins : List QIn) :
    Stable m.streams (run ops m ins).1.streams := by
  induction ins generalizing m with
  | nil => exact Stable.refl _
  | cons i t ih =>
    rw [run_cons]
    exact (step_spec ops m i h).2.1.trans (ih _ (step_spec ops m i h).1)

/-- **Stability over whole histories.**  Whatever happens after a layer has been registered — any further
    interleaving of stream opens, data, resets, hook completions and connection closes — it stays registered with
    the same client stream id and, once paired, the same server stream id. -/
theorem pairing_is_stable_forever (pre post : List QIn) :
    ∀ x ∈ (run ops (Mux.init ops) pre).1.streams,
      ∃ x' ∈ (run ops (Mux.init ops) (pre ++ post)).1.streams, x'.cid = x.cid ∧ ∀ t, x.sid = some t → x'.sid = some t := by
  rw [run_append]
  exact stable_run ops _ (reach ops pre) post

/-- **Ids are never confused, over whole histories.**  Take any event sequence `pre ++ i :: post` where `i` is a
    stream-level event for stream `id` (from the client or the server).  Unless `i` produced no command at all or exactly one
    `fault` (the two escape cases of `signals_reach_only_pair`, in which no stream command exists), the layer that
    is registered under that id in the FINAL state — after all of `post` — is such that every stream command `i` produced
    was addressed to that layer's client stream or to its server stream.  (With `allocated_ids_unique` that layer is unique.) -/
theorem signals_reach_only_pair_forever (pre post : List QIn) (i : QIn) (fromClient : Bool) (id : Nat)
    (hk : eventKey i = some (fromClient, id)) :
    let outs := (step ops (run ops (Mux.init ops) pre).1 i).2
    outs = [] ∨ outs = [.fault] ∨
    ∃ s ∈ (run ops (Mux.init ops) (pre ++ i :: post)).1.streams,
      (if fromClient = true then s.cid = id else s.sid = some id) ∧
      ∀ o ∈ outs, ∀ toClient id', target o = some (toClient, id') →
        if toClient = true then id' = s.cid else s.sid = some id' := by
  intro outs
  have hstep := step_spec ops _ i (reach ops pre)
  rcases hstep.2.2.2 fromClient id hk with h | h | ⟨s, hs, hreg, hg⟩
  · exact Or.inl h
  · exact Or.inr (Or.inl h)
  · refine Or.inr (Or.inr ?_)
    have hst := stable_run ops _ hstep.1 post
    obtain ⟨s', hs', hc, hkp⟩ := hst s hs
    refine ⟨s', ?_, ?_, ?_⟩
    · rw [run_append, run_cons]; exact hs'
    · cases fromClient
      · simp at hreg ⊢; exact hkp _ hreg
      · simp at hreg ⊢; rw [hc]; exact hreg
    · intro o ho tc id' ht
      have := hg o ho tc id' ht
      cases tc
      · simp at this ⊢; exact hkp _ this
      · simp at this ⊢; rw [hc]; exact this

/-- **The whole command history.**  Every stream command the layer has EVER yielded, over any event sequence, is
    addressed to the client stream or the server stream of a layer that is registered in the final state. -/
theorem history_addresses_registered_streams (ins : List QIn) :
    ∀ o ∈ (run ops (Mux.init ops) ins).2, ∀ toClient id', target o = some (toClient, id') →
      ∃ s ∈ (run ops (Mux.init ops) ins).1.streams, if toClient = true then s.cid = id' else s.sid = some id' := by
  have gen : ∀ (ins : List QIn) (m : Mux σ), MuxInv m →
      ∀ o ∈ (run ops m ins).2, ∀ toClient id', target o = some (toClient, id') →
        ∃ s ∈ (run ops m ins).1.streams, if toClient = true then s.cid = id' else s.sid = some id' := by
    intro ins
    induction ins with
    | nil => intro m _ o ho; simp [run] at ho
    | cons i t ih =>
      intro m h o ho tc id' ht
      rw [run_cons] at ho ⊢
      have hstep := step_spec ops m i h
      simp only [List.mem_append] at ho
      rcases ho with ho | ho
      · obtain ⟨s, hs, hm⟩ := hstep.2.2.1 o ho tc id' ht
        obtain ⟨s', hs', hc, hkp⟩ := stable_run ops _ hstep.1 t s hs
        refine ⟨s', hs', ?_⟩
        cases tc
        · simp at hm ⊢; exact hkp _ hm
        · simp at hm ⊢; rw [hc]; exact hm
      · exact ih _ hstep.1 o ho tc id' ht
  exact gen ins _ (init_inv ops)

/-! ### "relayed to exactly one": the partner comes into being when the child asks for the connection -/

private theorem tsinv_self {c0 : Nat} {sid0 : Option Nat} {n0 : Next} {ts : TS σ} (h : TSInv c0 sid0 n0 ts) :
    TSInv ts.s.cid ts.s.sid ts.next ts := by
  refine ⟨?_, rfl, h.nok, fun _ _ => Nat.le_refl _, fun _ hx => hx, ?_, h.good⟩
  · intro hn
    rw [h.cid]
    apply h.even
    cases hs : sid0 with
    | none => rfl
    | some x => have := h.keep x hs; rw [hn] at this; cases this
  · intro hn t ht; rw [hn] at ht; cases ht

/-- **At least one.**  When the child layer of a stream that has no server stream yet yields `OpenConnection`, the
    translation allocates a server stream id of the same class (initiator and direction bits) and — whatever the child
    does with the reply, at any nesting depth — the layer has exactly that server stream id when the call returns. -/
theorem open_connection_pairs_the_stream (fuel : Nat) {c0 : Nat} {sid0 : Option Nat} {n0 : Next} (ts : TS σ)
    (h : TSInv c0 sid0 n0 ts) (hh : ts.halt = false) (hs : ts.s.sid = none) :
    (procOne ops (translate ops fuel) ts .openServer).s.sid =
        some (ts.next.get (allocIndex true (isUni ts.s.cid))) ∧
    ts.next.get (allocIndex true (isUni ts.s.cid)) % 4 = ts.s.cid % 4 := by
  -- the state right after the allocation (with the identity as continuation) satisfies the invariant ...
  have hmid := procOne_inv ops (fun t _ => t) (fun _ _ h => h) h .openServer
  have hcls := (hmid.fresh (by
      cases hq : sid0 with
      | none => rfl
      | some x => have := h.keep x hq; rw [hs] at this; cases this)
    (ts.next.get (allocIndex true (isUni ts.s.cid))) (by
      unfold procOne; simp [hh, hs])).1
  refine ⟨?_, by rw [hcls, h.cid]⟩
  -- ... and, taken as a new base, its server id is kept by everything the continuation does
  unfold procOne at hmid ⊢
  simp only [hh, Bool.false_eq_true, if_false, hs] at hmid ⊢
  have hbase := tsinv_self hmid
  have := translate_inv ops fuel _ (ops.step ts.s.child ts.s.cConn
    (serverConnFor (ts.next.get (allocIndex true (isUni ts.s.cid)))) (.connectDone false)).2 hbase
  exact this.keep _ rfl

/-! ### no data or reset after a FIN / reset, over the whole history -/

private theorem hist_run (m : Mux σ) (hist : List QOut) (h : MuxInv m) (hH : Hist m.streams hist) (ins : List QIn) :
    Hist (run ops m ins).1.streams (hist ++ (run ops m ins).2) := by
  induction ins generalizing m hist with
  | nil => simpa [run] using hH
  | cons i t ih =>
    rw [run_cons]
    have := ih (step ops m i).1 (hist ++ (step ops m i).2) (step_spec ops m i h).1 (step_hist ops m i hist h hH)
    simpa [List.append_assoc] using this

/-- **Nothing follows a FIN or a reset.**  Take the complete list of commands the layer has yielded over ANY event
    sequence (any interleaving of stream opens, data, FINs, resets, hook completions and connection closes, any
    behaviour of the child layers).  Once it contains a `SendQuicStreamData(..., end_stream=True)` or a
    `ResetQuicStream` addressed to a (connection, stream id), no later command in the list is a `SendQuicStreamData`
    or `ResetQuicStream` addressed to that same (connection, stream id). -/
theorem no_data_or_reset_after_fin_or_reset (ins : List QIn) (pre post : List QOut) (o : QOut)
    (toClient : Bool) (id : Nat)
    (hsplit : (run ops (Mux.init ops) ins).2 = pre ++ o :: post)
    (hfin : (∃ d, o = .data toClient id d true) ∨ (∃ code, o = .reset toClient id code)) :
    ∀ x ∈ post, (∀ d fin, x ≠ .data toClient id d fin) ∧ (∀ code, x ≠ .reset toClient id code) := by
  have hH := hist_run ops (Mux.init ops) [] (init_inv ops) (by simpa [Mux.init] using (hist_nil (σ := σ))) ins
  have hs := hH.g2 (toClient, id)
  rw [List.nil_append, hsplit, scanT_append] at hs
  have hfo : finAt (toClient, id) o = true := by
    rcases hfin with ⟨d, rfl⟩ | ⟨code, rfl⟩ <;> simp [finAt, finOn, target]
  simp only [scanT, hfo, Bool.or_true, Bool.and_eq_true] at hs
  have hall := scanT_true_all _ _ hs.2.2
  intro x hx
  have hx' := hall x hx
  refine ⟨?_, ?_⟩
  · intro d fin e; subst e; simp [sendAt, sendOn, target] at hx'
  · intro code e; subst e; simp [sendAt, sendOn, target] at hx'

/-! ### with the layer's own `OpenConnection` (events buffered while it waits, replayed afterwards) -/

private theorem run_one (m : Mux σ) (i : QIn) : run ops m [i] = step ops m i := by
  rw [run_cons]; simp [run]

private theorem replay_is_run_of_prefix (m : Mux σ) (l : List QIn) : ∃ k, replay ops m l = run ops m (l.take k) := by
  induction l generalizing m with
  | nil => exact ⟨0, by simp [replay, run]⟩
  | cons i t ih =>
    unfold replay
    simp only
    split
    · exact ⟨1, by simp [run_one]⟩
    · obtain ⟨k, hk⟩ := ih (step ops m i).1
      refine ⟨k + 1, ?_⟩
      rw [List.take_succ_cons, run_cons, ← hk]

private theorem stepQ_keeps (mq : MuxQ σ) (x : QInQ) (hist : List QOut) (h : MuxInv mq.m)
    (hH : Hist mq.m.streams hist) :
    MuxInv (stepQ ops mq x).1.m ∧ Hist (stepQ ops mq x).1.m.streams (hist ++ (stepQ ops mq x).2) := by
  unfold stepQ
  cases x with
  | ev i =>
    simp only
    split
    · exact ⟨h, by simpa using hH⟩
    · split
      · exact ⟨h, hist_quiet hH (by intro o ho; simp at ho; subst ho; rfl)⟩
      · exact ⟨(step_spec ops mq.m i h).1, step_hist ops mq.m i hist h hH⟩
  | connectDone err =>
    simp only
    split
    · exact ⟨h, by simpa using hH⟩
    · split
      · exact ⟨h, hist_quiet hH (by intro o ho; simp at ho; subst ho; rfl)⟩
      · obtain ⟨k, hk⟩ := replay_is_run_of_prefix ops { mq.m with server := .opened } (.start :: mq.q)
        simp only [hk]
        have h0 : MuxInv ({ mq.m with server := .opened } : Mux σ) := h
        exact ⟨inv_run ops _ h0 _, hist_run ops _ hist h0 hH _⟩

private theorem runQ_keeps (mq : MuxQ σ) (hist : List QOut) (h : MuxInv mq.m) (hH : Hist mq.m.streams hist)
    (xs : List QInQ) :
    MuxInv (runQ ops mq xs).1.m ∧ Hist (runQ ops mq xs).1.m.streams (hist ++ (runQ ops mq xs).2) := by
  have gen : ∀ (xs : List QInQ) (mq : MuxQ σ) (acc hist : List QOut), MuxInv mq.m → Hist mq.m.streams (hist ++ acc) →
      MuxInv (xs.foldl (fun (a : MuxQ σ × List QOut) x => ((stepQ ops a.1 x).1, a.2 ++ (stepQ ops a.1 x).2)) (mq, acc)).1.m ∧
      Hist (xs.foldl (fun (a : MuxQ σ × List QOut) x => ((stepQ ops a.1 x).1, a.2 ++ (stepQ ops a.1 x).2)) (mq, acc)).1.m.streams
        (hist ++ (xs.foldl (fun (a : MuxQ σ × List QOut) x => ((stepQ ops a.1 x).1, a.2 ++ (stepQ ops a.1 x).2)) (mq, acc)).2) := by
    intro xs
    induction xs with
    | nil => intro mq acc hist h hH; exact ⟨h, hH⟩
    | cons x t ih =>
      intro mq acc hist h hH
      simp only [List.foldl_cons]
      have hs := stepQ_keeps ops mq x (hist ++ acc) h hH
      exact ih _ _ hist hs.1 (by simpa [List.append_assoc] using hs.2)
  have := gen xs mq [] hist h (by simpa using hH)
  simpa [runQ] using this

private theorem initQ_inv (connected : Bool) : MuxInv (MuxQ.init ops connected).m := by
  cases connected
  · exact init_inv ops
  · exact init_inv ops

/-- ids stay unique and pairs keep their class also when the layer has to open the server connection itself: events that
    arrive while it waits are buffered and replayed (until an assertion stops the replay), a failed connect ends the layer -/
theorem allocated_ids_unique_with_own_connect (connected : Bool) (xs : List QInQ) :
    ((runQ ops (MuxQ.init ops connected) xs).1.m.streams.map (·.cid)).Nodup ∧
    ((runQ ops (MuxQ.init ops connected) xs).1.m.streams.filterMap (·.sid)).Nodup ∧
    ∀ s ∈ (runQ ops (MuxQ.init ops connected) xs).1.m.streams, ∀ t, s.sid = some t → t % 4 = s.cid % 4 := by
  have hinit : Hist (MuxQ.init ops connected).m.streams [] := by
    cases connected <;> simpa [MuxQ.init, Mux.init] using (hist_nil (σ := σ))
  obtain ⟨⟨-, hall, hc, hs⟩, -⟩ := runQ_keeps ops _ [] (initQ_inv ops connected) hinit xs
  refine ⟨?_, ?_, fun s hm t ht => (hall s hm).1 t ht⟩
  · rw [List.Nodup, List.pairwise_map]; exact hc
  · rw [List.Nodup, List.pairwise_filterMap]
    refine hs.imp ?_
    intro a b h x hx y hy e; subst e
    exact h x (by simpa using hx) (by simpa using hy)

/-- `no_data_or_reset_after_fin_or_reset` for the layer including its own connect phase -/
theorem no_data_or_reset_after_fin_or_reset_with_own_connect (connected : Bool) (xs : List QInQ)
    (pre post : List QOut) (o : QOut) (toClient : Bool) (id : Nat)
    (hsplit : (runQ ops (MuxQ.init ops connected) xs).2 = pre ++ o :: post)
    (hfin : (∃ d, o = .data toClient id d true) ∨ (∃ code, o = .reset toClient id code)) :
    ∀ x ∈ post, (∀ d fin, x ≠ .data toClient id d fin) ∧ (∀ code, x ≠ .reset toClient id code) := by
  have hinit : Hist (MuxQ.init ops connected).m.streams [] := by
    cases connected <;> simpa [MuxQ.init, Mux.init] using (hist_nil (σ := σ))
  have hH := (runQ_keeps ops _ [] (initQ_inv ops connected) hinit xs).2
  have hs := hH.g2 (toClient, id)
  rw [List.nil_append, hsplit, scanT_append] at hs
  have hfo : finAt (toClient, id) o = true := by
    rcases hfin with ⟨d, rfl⟩ | ⟨code, rfl⟩ <;> simp [finAt, finOn, target]
  simp only [scanT, hfo, Bool.or_true, Bool.and_eq_true] at hs
  have hall := scanT_true_all _ _ hs.2.2
  intro x hx
  have hx' := hall x hx
  refine ⟨?_, ?_⟩
  · intro d fin e; subst e; simp [sendAt, sendOn, target] at hx'
  · intro code e; subst e; simp [sendAt, sendOn, target] at hx'

/-- a failed connect of the layer itself: the client is closed, and the NEXT event (whatever it is) yields nothing; the form for
    every later sequence of events is `failed_own_connect_ends_layer_forever` below -/
theorem failed_own_connect_ends_layer (mq : MuxQ σ) (hw : mq.waiting = true) :
    (stepQ ops mq (.connectDone true)).2 = [.dgram (.close .client false)] ∧
    ∀ i, (stepQ ops (stepQ ops mq (.connectDone true)).1 (.ev i)).2 = [] := by
  refine ⟨by simp [stepQ, hw], ?_⟩
  intro i
  simp [stepQ, hw, step]

/-- a layer that is done and not waiting: whatever arrives produces nothing and leaves it in that state -/
private theorem dead_stepQ (mq : MuxQ σ) (hd : mq.m.done = true) (hw : mq.waiting = false) (x : QInQ) :
    (stepQ ops mq x).2 = [] ∧ (stepQ ops mq x).1.m.done = true ∧ (stepQ ops mq x).1.waiting = false := by
  cases x with
  | ev i => simp [stepQ, hw, hd, step]
  | connectDone err => simp [stepQ, hw, hd]

private theorem dead_runQ (xs : List QInQ) : ∀ (mq : MuxQ σ) (acc : List QOut), mq.m.done = true → mq.waiting = false →
    (xs.foldl (fun (a : MuxQ σ × List QOut) x => ((stepQ ops a.1 x).1, a.2 ++ (stepQ ops a.1 x).2)) (mq, acc)).2 = acc := by
  induction xs with
  | nil => intro mq acc _ _; rfl
  | cons x t ih =>
    intro mq acc hd hw
    obtain ⟨h1, h2, h3⟩ := dead_stepQ ops mq hd hw x
    simp only [List.foldl_cons, h1, List.append_nil]
    exact ih _ acc h2 h3

/-- **A failed connect of the layer itself ends it for good** (list form of `failed_own_connect_ends_layer`): after the error
    reply the layer yields `CloseConnection(client)` and then, for EVERY later sequence of events and replies of any
    length, nothing at all. -/
theorem failed_own_connect_ends_layer_forever (mq : MuxQ σ) (hw : mq.waiting = true) (xs : List QInQ) :
    (stepQ ops mq (.connectDone true)).2 = [.dgram (.close .client false)] ∧
    (runQ ops (stepQ ops mq (.connectDone true)).1 xs).2 = [] := by
  refine ⟨by simp [stepQ, hw], ?_⟩
  have := dead_runQ ops xs (stepQ ops mq (.connectDone true)).1 [] (by simp [stepQ, hw]) (by simp [stepQ, hw])
  simpa [runQ] using this

/-! ### the write guard of `event_to_child` (the step-local facts behind the theorem above) -/

/-- data for a side of a stream whose sending direction mitmproxy has already closed is dropped, not sent -/
theorem no_data_to_unwritable_side (rec : TS σ → List C29.Output → TS σ) (ts : TS σ) (to : C29.Side) (d : Bytes)
    (hw : (ts.s.conn to).canWrite = false) (hid : ts.s.idOf to ≠ none) :
    procOne ops rec ts (.send to d) = ts := by
  unfold procOne
  split
  · rfl
  · simp only
    split
    · rename_i h; exact absurd h hid
    · simp [hw]

/-- a half-close command (FIN) leaves that side of the stream unwritable -/
theorem fin_makes_side_unwritable (rec : TS σ → List C29.Output → TS σ) (ts : TS σ) (to : C29.Side)
    (hh : ts.halt = false) (hid : ts.s.idOf to ≠ none) :
    ((procOne ops rec ts (.close to true)).s.conn to).canWrite = false := by
  unfold procOne
  simp only [hh, Bool.false_eq_true, if_false]
  split
  · rename_i h; exact absurd h hid
  · cases hw : (ts.s.conn to).canWrite
    · simp [hw]
    · cases to <;> simp [hw, TS.push, Stream.conn, Stream.setConn]

/-! ### run-level pairing with the C29 relay as the child (audit round 6, owner fix) -/

private theorem translate_one (ops : ChildOps σ) (n : Nat) (ts : TS σ) (c : C29.Output) :
    translate ops (n + 1) ts [c] = procOne ops (translate ops n) ts c := rfl

/-- second step: the start hook of that layer completes; its child asks for the connection and the layer gets the
    server stream id the allocator holds for the client id's class -/
private theorem start_hook_completion_pairs (m1 : Mux C29.State) (pre : List (Stream C29.State)) (ts : TS C29.State) (id : Nat)
    (hf : FreshTS id m1.next ts) (hs : m1.streams = pre ++ [ts.s]) (hd : m1.done = false)
    (hpre : ∀ x ∈ pre, (x.cid == id) = false) (hinv : MuxInv m1) :
    ∃ s ∈ (step relayOps m1 (.hookDone (some id) none)).1.streams,
      s.cid = id ∧ s.sid = some (m1.next.get (allocIndex true (isUni id))) := by
  obtain ⟨h1, h2, h3, h4, h5⟩ := hf
  have hfind : m1.find true id = some pre.length := by
    unfold Mux.find
    rw [hs, List.findIdx?_append]
    have e1 : List.findIdx? (fun s => if true = true then s.cid == id else s.sid == some id) pre = none :=
      List.findIdx?_eq_none_iff.2 (by intro x hx; simpa using hpre x hx)
    rw [e1]
    simp [List.findIdx?_cons, h1]
  have hget : m1.streams[pre.length]? = some ts.s := by rw [hs]; exact List.getElem?_concat_length
  unfold step
  simp only [hd, Bool.false_eq_true, if_false, hfind, hget]
  unfold Mux.withStream
  simp only
  -- the layer's invariant at the start of the call
  have hl : ListInv m1.streams m1.next := hinv
  have hok : StreamOK m1.next ts.s := hl.2.1 ts.s (by rw [hs]; simp)
  have hT := tsinv_start hl.1 hok
  unfold eventToChild
  simp only [Bool.false_eq_true, if_false]
  rw [relay_asks_to_connect ts.s.child h3]
  rw [show FUEL = 7 + 1 from rfl, translate_one]
  have hT' : TSInv ts.s.cid ts.s.sid m1.next
      ({ s := { ts.s with child := (relayOps.step ts.s.child ts.s.cConn ts.s.sConn (.hookDone none)).1 },
         next := m1.next, out := [], halt := false } : TS C29.State) :=
    hT.congr rfl rfl rfl rfl
  obtain ⟨hsid, -⟩ := open_connection_pairs_the_stream relayOps 7 _ hT' rfl h2
  have hcid := (procOne_inv relayOps (translate relayOps 7) (translate_inv relayOps 7) hT' .openServer).cid
  refine ⟨_, List.mem_set (by rw [hs]; simp) _, ?_, ?_⟩
  · rw [hcid]; exact h1
  · rw [hsid]; simp [h1]

/-- RUN-LEVEL pairing for the tied child (`relayOps`, the C29 relay model).  `open_connection_pairs_the_stream` is
    step-local and conditional: it says what happens IF the child yields OpenConnection, and whether it does is the
    child's decision.  With the tied child the decision is known: from any state of a live layer that satisfies the
    invariant, data (with or without FIN) on a client-initiated id that no layer is registered under, followed by the
    completion of that stream's start hook, leaves a layer registered under exactly that client id whose server id is
    the one the allocator held for the id's class (client-initiated, same directionality) BEFORE the two events. -/
theorem client_stream_gets_its_server_stream_from (m : Mux C29.State) (hinv : MuxInv m) (id : Nat) (d : Bytes) (fin : Bool) (hd : m.done = false)
    (hfind : m.find true id = none) (hci : isClientInit id = true) :
    ∃ s ∈ (step relayOps (step relayOps m (.streamData true id d fin)).1 (.hookDone (some id) none)).1.streams,
      s.cid = id ∧ s.sid = some (m.next.get (allocIndex true (isUni id))) := by
  obtain ⟨ts, hf, hs, hn, hd1⟩ := first_event_registers m id d fin hd hfind hci
  have hinv1 := (step_spec relayOps m (.streamData true id d fin) hinv).1
  have hpre : ∀ x ∈ m.streams, (x.cid == id) = false := by
    have := List.findIdx?_eq_none_iff.1 (by simpa [Mux.find] using hfind :
      List.findIdx? (fun s : Stream C29.State => s.cid == id) m.streams = none)
    intro x hx; simpa using this x hx
  have hf1 : FreshTS id (step relayOps m (.streamData true id d fin)).1.next ts := by
    rw [hn]; exact hf
  have := start_hook_completion_pairs _ m.streams ts id hf1 hs hd1 hpre hinv1
  rw [hn] at this
  exact this

/-- the same from every reachable state: after ANY history `ins` that leaves the layer alive and the client-initiated
    id `id` unregistered, the history `ins ++ [data on id, start hook of id completes]` has the pair
    (id, allocator's next server id of id's class) in its table.  (By `pairing_is_stable_forever` it stays.) -/
theorem client_stream_gets_its_server_stream (ins : List QIn) (id : Nat) (d : Bytes) (fin : Bool)
    (hnd : (run relayOps (Mux.init relayOps) ins).1.done = false)
    (hfresh : (run relayOps (Mux.init relayOps) ins).1.find true id = none) (hci : isClientInit id = true) :
    ∃ s ∈ (run relayOps (Mux.init relayOps) (ins ++ [.streamData true id d fin, .hookDone (some id) none])).1.streams,
      s.cid = id ∧
      s.sid = some ((run relayOps (Mux.init relayOps) ins).1.next.get (allocIndex true (isUni id))) := by
  have e : (run relayOps (Mux.init relayOps) (ins ++ [.streamData true id d fin, .hookDone (some id) none])).1 =
      (step relayOps (step relayOps (run relayOps (Mux.init relayOps) ins).1 (.streamData true id d fin)).1
        (.hookDone (some id) none)).1 := by
    rw [show ins ++ [QIn.streamData true id d fin, QIn.hookDone (some id) none] =
      (ins ++ [QIn.streamData true id d fin]) ++ [QIn.hookDone (some id) none] by simp]
    rw [run_snoc, run_snoc]
  rw [e]
  exact client_stream_gets_its_server_stream_from _ (reach relayOps ins) id d fin hnd hfresh hci


/-! ### non-vacuity: concrete runs of the model with the C29 relay as child -/

private def demo : List QIn :=
  [.start, .streamData true 0 [1] false, .hookDone (some 0) none, .streamData false 3 [2] true,
   .streamData true 4 [] false, .hookDone (some 4) none, .hookDone (some 0) none]

/-- `client_stream_gets_its_server_stream` instantiated: after `demo`, client id 8 is fresh and gets server id 8 … -/
example : ∃ s ∈ (run relayOps (Mux.init relayOps)
      (demo ++ [.streamData true 8 [5] true, .hookDone (some 8) none])).1.streams, s.cid = 8 ∧ s.sid = some 8 := by
  have h := client_stream_gets_its_server_stream demo 8 [5] true (by decide) (by decide) (by decide)
  rwa [show (run relayOps (Mux.init relayOps) demo).1.next.get (allocIndex true (isUni 8)) = 8 by decide] at h

/-- … and a client that opens id 4 FIRST gets server id 0: the paired ids differ, the class does not -/
example : ∃ s ∈ (run relayOps (Mux.init relayOps)
      ([.start] ++ [.streamData true 4 [] true, .hookDone (some 4) none])).1.streams, s.cid = 4 ∧ s.sid = some 0 := by
  have h := client_stream_gets_its_server_stream [.start] 4 [] true (by decide) (by decide) (by decide)
  rwa [show (run relayOps (Mux.init relayOps) [.start]).1.next.get (allocIndex true (isUni 4)) = 0 by decide] at h

/-- two client-initiated bidi streams get server ids 0 and 4, the server-initiated uni stream 3 gets client id 3 -/
example : ((run relayOps (Mux.init relayOps) demo).1.streams.map fun s => (s.cid, s.sid)) =
    [(0, some 0), (3, some 3), (4, some 4)] := by decide

/-- the relayed data of stream 0 goes to server stream 0 -/
example : (step relayOps (run relayOps (Mux.init relayOps) (demo.take 6)).1 (.hookDone (some 0) none)).2 =
    [.data false 0 [1] false] := by decide

/-- a reset is preserved: empty FIN towards the paired stream becomes ResetQuicStream with the peer's code -/
example : (step relayOps (run relayOps (Mux.init relayOps) demo).1 (.streamReset true 0 7)).2 =
    [.reset false 0 7] := by decide

/-- an unknown id of the wrong initiator is rejected (the model is not constant) -/
example : (step relayOps (run relayOps (Mux.init relayOps) demo).1 (.streamData true 9 [1] false)).2 = [.fault] := by
  decide

/-- hypothesis of `no_data_or_reset_after_fin_or_reset` on a concrete history: a FIN towards server stream 0 has been
    sent (the client finished its stream); data still flows the other way, but nothing more goes to (server, 0) -/
example : ((run relayOps (Mux.init relayOps)
    [.start, .streamData true 0 [1] true, .hookDone (some 0) none, .hookDone (some 0) none,
     .streamData false 0 [2] false, .hookDone (some 0) none, .streamData true 0 [3] false]).2.filter
      fun o => match o with | .data .. => true | .reset .. => true | _ => false) =
    [.data false 0 [1] false, .data false 0 [] true, .data true 0 [2] false] := by decide

/-! ### audit round 6 (cross-audit): further non-vacuity witnesses — paired ids that DIFFER, resets, connection close,
    the own-connect phase, and direct instantiations of the theorems' hypotheses -/

/-- client stream 8 (first client bidi stream the layer sees) is paired with server stream 0, server-initiated uni
    stream 7 gets client id 3, client uni stream 2 gets server id 2: cid ≠ sid occurs, bits agree (`id_bits`) -/
private def hA : List QIn :=
  [.start, .streamData true 8 [1] false, .hookDone (some 8) none, .streamData false 7 [2] false,
   .streamData true 2 [3] true, .hookDone (some 2) none]

example : ((run relayOps (Mux.init relayOps) hA).1.streams.map fun s => (s.cid, s.sid)) =
    [(8, some 0), (3, some 7), (2, some 2)] := by decide

/-- `allocator_id_bits` on a state where three of the four counters have moved -/
example : (run relayOps (Mux.init relayOps) hA).1.next = ⟨4, 1, 6, 7⟩ := by decide

/-- hypothesis `eventKey i = some (fromClient, id)` of `signals_reach_only_pair` and its third disjunct on a pair with
    different ids: the message hook of client stream 8 completes, the data goes to SERVER stream 0 -/
example : eventKey (.hookDone (some 8) none) = some (true, 8) := rfl
example : (step relayOps (run relayOps (Mux.init relayOps) hA).1 (.hookDone (some 8) none)).2 = [.data false 0 [1] false] := by
  decide

/-- a reset from the server on stream 0 reaches the paired CLIENT stream 8 with the peer's code -/
example : (step relayOps (run relayOps (Mux.init relayOps) (hA ++ [.hookDone (some 8) none])).1 (.streamReset false 0 9)).2 =
    [.reset true 8 9] := by decide

private def hB : List QIn :=
  hA ++ [.hookDone (some 8) none, .streamReset false 0 9, .streamData true 8 [5] false, .connClosed true 3]

/-- `pairing_is_stable_forever`: after a reset and a connection close the three pairs are still registered unchanged -/
example : ((run relayOps (Mux.init relayOps) hB).1.streams.map fun s => (s.cid, s.sid)) =
    [(8, some 0), (3, some 7), (2, some 2)] := by decide

/-- `no_data_or_reset_after_fin_or_reset` instantiated: the split of a concrete history at the ResetQuicStream towards
    (client, 8); what follows is a hook and the CloseQuicConnection, nothing on (client, 8) -/
example : ∀ x ∈ [QOut.hook (some 8) (.message true [5]), .closeQuic false 3],
    (∀ d fin, x ≠ .data true 8 d fin) ∧ (∀ code, x ≠ .reset true 8 code) :=
  no_data_or_reset_after_fin_or_reset relayOps hB
    [.hook none .start, .hook (some 8) .start, .hook (some 8) (.message true [1]), .hook (some 3) .start,
     .hook (some 2) .start, .hook (some 2) (.message true [3]), .data false 0 [1] false]
    [.hook (some 8) (.message true [5]), .closeQuic false 3] (.reset true 8 9) true 8 (by decide) (Or.inr ⟨9, rfl⟩)

/-- the driver runs `stepQ`; with the server connection up it IS `step` (all theorems about `run` speak about what the
    driver executes after `reset`) -/
example (ops : ChildOps σ) (m : Mux σ) (i : QIn) :
    stepQ ops ⟨m, false, false, []⟩ (.ev i) = (⟨(step ops m i).1, false, false, []⟩, (step ops m i).2) := by
  simp [stepQ]

/-- the `_with_own_connect` theorems on a concrete non-trivial run: Start makes the layer open the server connection,
    two stream events are buffered, the successful reply replays them; pairs (8,0) and (3,7) -/
private def qA : List QInQ :=
  [.ev .start, .ev (.streamData true 8 [1] false), .ev (.streamData false 7 [2] false), .connectDone false,
   .ev (.hookDone (some 8) none)]

example : (runQ relayOps (MuxQ.init relayOps false) qA).2 =
    [.dgram .openServer, .hook none .start, .hook (some 8) .start, .hook (some 3) .start,
     .hook (some 8) (.message true [1])] := by decide
example : ((runQ relayOps (MuxQ.init relayOps false) qA).1.m.streams.map fun s => (s.cid, s.sid)) =
    [(8, some 0), (3, some 7)] := by decide

/-- hypothesis `mq.waiting = true` of `failed_own_connect_ends_layer` holds in a reachable state (after Start on an
    unconnected layer), and the failed connect then closes the client -/
example : (stepQ relayOps (MuxQ.init relayOps false) (.ev .start)).1.waiting = true := by decide
example : (stepQ relayOps (stepQ relayOps (MuxQ.init relayOps false) (.ev .start)).1 (.connectDone true)).2 =
    [.dgram (.close .client false)] := by decide

/-- `open_connection_pairs_the_stream` instantiated: its hypothesis `TSInv` holds for the translation state of a freshly
    registered client stream 8 (via `tsinv_start`), and the conclusion is the concrete pairing 8 -> 0 -/
private def tsA : TS C29.State :=
  { s := { cid := 8, sid := none, cConn := clientConnFor 8, sConn := .shut, cEnded := false, sEnded := false,
           child := relayOps.mkStream false },
    next := ⟨0, 1, 2, 3⟩, out := [], halt := false }

example : (procOne relayOps (translate relayOps FUEL) tsA .openServer).s.sid = some 0 :=
  (open_connection_pairs_the_stream relayOps FUEL tsA
    (tsinv_start (s := tsA.s) (n := ⟨0, 1, 2, 3⟩) ⟨rfl, rfl, rfl, rfl⟩ (by
      refine ⟨?_, ?_, ?_, ?_⟩
      · intro t h; simp [tsA] at h
      · intro _; rfl
      · intro h; simp [tsA] at h
      · intro t h; simp [tsA] at h))
    rfl rfl).1

/-- `no_data_to_unwritable_side` / `fin_makes_side_unwritable` on a concrete translation state: after the FIN towards
    the server the server side is unwritable, and data for it is then dropped -/
private def tsB : TS C29.State :=
  { tsA with s := { tsA.s with sid := some 0, sConn := .opened } }

example : ((procOne relayOps (translate relayOps FUEL) tsB (.close .server true)).s.conn .server).canWrite = false :=
  fin_makes_side_unwritable relayOps (translate relayOps FUEL) tsB .server rfl (by decide)
example : (procOne relayOps (translate relayOps FUEL) tsB (.close .server true)).out = [.data false 0 [] true] := by decide
example : procOne relayOps (translate relayOps FUEL)
    (procOne relayOps (translate relayOps FUEL) tsB (.close .server true)) (.send .server [9]) =
    procOne relayOps (translate relayOps FUEL) tsB (.close .server true) :=
  no_data_to_unwritable_side relayOps _ _ .server [9]
    (fin_makes_side_unwritable relayOps (translate relayOps FUEL) tsB .server rfl (by decide)) (by decide)

/-- once both QUIC connections are closed the layer is done: a later stream event produces nothing (the first disjunct
    `outs = []` of `signals_reach_only_pair`), and the pairs are still there -/
example : (step relayOps (run relayOps (Mux.init relayOps) (hB ++ [.connClosed false 3])).1 (.streamData true 8 [1] false)).2 = [] ∧
    ((run relayOps (Mux.init relayOps) (hB ++ [.connClosed false 3, .streamData true 8 [1] false])).1.streams.map
      fun s => (s.cid, s.sid)) = [(8, some 0), (3, some 7), (2, some 2)] := by decide

end MitmVerif.Props.C30
