/-
  C31 — property theorems.  Every theorem quantifies over ALL call histories `ops` (any interleaving of
  encoding.decode/encode on arbitrary bodies and of Message ops / header mutations on two messages) run from
  any state `s0` with an empty cache; the codec libraries are the law-carrying parameter `C : Codecs`.
  Proof method: `stepWith_cache` (what one op can do to the cache — a fact about the model alone), hence
  the invariant `Inv` (the entry is a true statement about the uncached decoder) by induction on `ops`.

  * `decode_transparent`                    decode result = uncached result, exactly (all names, all outcomes)
  * `encode_semantically_transparent`       compressed codings always encode; result decodes back to the input
  * `set_get_content`, `unknown_coding_removed`
  * `raw_decodes_to_content_lenient`        raw body decodes to the content under mitmproxy's own decoder
  * `raw_decodes_to_content_partial(_hit)`  … under the strict reference decoder, F-C31a class excluded
  * `raw_decodes_to_content_counterexample` the unguarded strict statement `RawDecodesToContent` is false
  * `content_length_eq_raw_len_without_TE`
  * `decode_encode_preserves`
-/
import MitmVerif.Model.C31
namespace MitmVerif.Props.C31
open MitmVerif MitmVerif.C31 MitmVerif.Gen.C31

/-! ### coherence of the generated tables (re-proved whenever the tables are regenerated) -/

private theorem tbl_identity : identityEnc = identityDec := by decide
private theorem tbl_cached : cachedEnc = cachedDec := by decide
private theorem tbl_cached_mem : ∀ n ∈ cachedDec,
    identityDec.contains n = false ∧ customDec.contains n = true ∧ customEnc.contains n = true := by decide

private theorem cached_facts {n : Bytes} (h : cachedDec.contains n = true) :
    identityDec.contains n = false ∧ customDec.contains n = true ∧ customEnc.contains n = true :=
  tbl_cached_mem n (List.contains_iff_mem.mp h)

private theorem kind_identity_iff (n : Bytes) : kindOf n = .identity ↔ identityDec.contains n = true := by
  unfold kindOf
  rw [tbl_identity]
  cases h : identityDec.contains n
  · simp only [Bool.and_self, Bool.false_eq_true, if_false]
    repeat' split
    all_goals simp
  · simp

private theorem kind_cached_iff (n : Bytes) : kindOf n = .cached ↔ cachedDec.contains n = true := by
  unfold kindOf
  rw [tbl_identity, tbl_cached]
  cases h : cachedDec.contains n
  · simp only [Bool.and_self, Bool.false_and, Bool.false_eq_true, if_false]
    repeat' split
    all_goals simp
  · obtain ⟨h1, h2, h3⟩ := cached_facts h
    simp only [h1, h2, h3]
    simp

private theorem lower_identityB : asciiLower identityB = identityB := by decide
private theorem kind_identityB : kindOf identityB = .identity := by decide

/-! ### cache hits -/

private theorem decHit_some {c : Cache} {x n er d : Bytes} (h : decHit c x n er = some d) :
    ∃ e, c = some e ∧ e.encoded = x ∧ e.coding = n ∧ e.errors = er ∧ e.decoded = d := by
  unfold decHit at h
  cases c with
  | none => simp at h
  | some e =>
    simp only at h
    split at h
    · rename_i hc
      exact ⟨e, rfl, hc.1, hc.2.1, hc.2.2, by simpa using h⟩
    · simp at h

private theorem encHit_some {c : Cache} {d n er x : Bytes} (h : encHit c d n er = some x) :
    ∃ e, c = some e ∧ e.decoded = d ∧ e.coding = n ∧ e.errors = er ∧ e.encoded = x := by
  unfold encHit at h
  cases c with
  | none => simp at h
  | some e =>
    simp only at h
    split at h
    · rename_i hc
      exact ⟨e, rfl, hc.1, hc.2.1, hc.2.2, by simpa using h⟩
    · simp at h

private theorem decHit_none_of_kind {C : Codecs} {c : Cache} (hi : Inv C c) {n : Bytes}
    (hk : kindOf n ≠ .cached) (x er : Bytes) : decHit c x n er = none := by
  cases h : decHit c x n er with
  | none => rfl
  | some d =>
    obtain ⟨e, hc, _, hn, _, _⟩ := decHit_some h
    have := (hi e hc).1
    rw [hn] at this
    exact absurd this hk

private theorem encHit_none_of_kind {C : Codecs} {c : Cache} (hi : Inv C c) {n : Bytes}
    (hk : kindOf n ≠ .cached) (d er : Bytes) : encHit c d n er = none := by
  cases h : encHit c d n er with
  | none => rfl
  | some x =>
    obtain ⟨e, hc, _, hn, _, _⟩ := encHit_some h
    have := (hi e hc).1
    rw [hn] at this
    exact absurd this hk

/-! ### how one op can change the cache (a fact about the model alone) -/

private theorem decodeStep_cache (c : Cache) (x coding er : Bytes) (fresh : Res) :
    (decodeStep c x coding er fresh).2 = c ∨
    (identityDec.contains (asciiLower coding) = false ∧ cachedDec.contains (asciiLower coding) = true ∧
      ∃ d, fresh = .ok d ∧ (decodeStep c x coding er fresh).2 = some ⟨x, asciiLower coding, er, d⟩) := by
  unfold decodeStep
  dsimp only
  cases decHit c x (asciiLower coding) er with
  | some d => left; rfl
  | none =>
    simp only
    cases hid : identityDec.contains (asciiLower coding)
    · simp only [Bool.false_eq_true, if_false]
      cases fresh with
      | ok d =>
        cases hc : cachedDec.contains (asciiLower coding)
        · left; simp
        · right; exact ⟨by simp, by simp, d, rfl, by simp⟩
      | _ => left; rfl
    · simp only [if_true]
      cases hc : cachedDec.contains (asciiLower coding)
      · left; simp
      · have := (cached_facts hc).1
        rw [hid] at this
        simp at this

private theorem encodeStep_cache (c : Cache) (d coding er : Bytes) (fresh : Res) :
    (encodeStep c d coding er fresh).2 = c ∨
    (identityEnc.contains (asciiLower coding) = false ∧ cachedDec.contains (asciiLower coding) = true ∧
      ∃ x, fresh = .ok x ∧ (encodeStep c d coding er fresh).2 = some ⟨x, asciiLower coding, er, d⟩) := by
  unfold encodeStep
  dsimp only
  rw [tbl_identity, tbl_cached]
  cases encHit c d (asciiLower coding) er with
  | some x => left; rfl
  | none =>
    simp only
    cases hid : identityDec.contains (asciiLower coding)
    · simp only [Bool.false_eq_true, if_false]
      cases fresh with
      | ok x =>
        cases hc : cachedDec.contains (asciiLower coding)
        · left; simp
        · right; exact ⟨by simp, by simp, x, rfl, by simp⟩
      | _ => left; rfl
    · simp only [if_true]
      cases hc : cachedDec.contains (asciiLower coding)
      · left; simp
      · have := (cached_facts hc).1
        rw [hid] at this
        simp at this

private theorem encodeStep_identity_cache (c : Cache) (d coding er : Bytes) (fresh : Res)
    (h : identityEnc.contains (asciiLower coding) = true) : (encodeStep c d coding er fresh).2 = c := by
  rcases encodeStep_cache c d coding er fresh with h1 | ⟨h1, _⟩
  · exact h1
  · rw [h] at h1; simp at h1

private theorem setContent_cache (c : Cache) (m : Msg) (v : Bytes) (fresh : Res) :
    (setContent c m (some v) fresh).2.1 = (encodeStep c v (ceOrIdentity m.ce) strictB fresh).2 := by
  unfold setContent
  simp only
  generalize encodeStep c v (ceOrIdentity m.ce) strictB fresh = p
  obtain ⟨r, c'⟩ := p
  cases r <;> rfl

private theorem getContent_cache (c : Cache) (m : Msg) (st : Bool) (fresh : Res) :
    (getContent c m st fresh).2 = c ∨
    ∃ raw ce, m.raw = some raw ∧ m.ce = some ce ∧ ce.isEmpty = false ∧
      (getContent c m st fresh).2 = (decodeStep c raw ce strictB fresh).2 := by
  unfold getContent
  cases hr : m.raw with
  | none => left; rfl
  | some raw =>
    cases hce : m.ce with
    | none => left; rfl
    | some ce =>
      cases he : ce.isEmpty
      · right
        refine ⟨raw, ce, rfl, rfl, he, ?_⟩
        simp only [he, Bool.false_eq_true, if_false]
        generalize decodeStep c raw ce strictB fresh = p
        obtain ⟨r, c'⟩ := p
        cases r <;> cases st <;> rfl
      · left; simp only [he, if_true]

private theorem setMsg_cache (s : State) (i : Bool) (m : Msg) : (s.setMsg i m).cache = s.cache := by
  unfold State.setMsg; split <;> rfl

private theorem setMsg_msg (s : State) (i : Bool) (m : Msg) : (s.setMsg i m).msg i = m := by
  cases i <;> rfl

private theorem withCache_msg (s : State) (c : Cache) (i : Bool) : ({ s with cache := c } : State).msg i = s.msg i := by
  cases i <;> rfl

private theorem needDec_of {coding : Bytes} (er x : Bytes) (h : identityDec.contains (asciiLower coding) = false) :
    needDec coding er x = .dec (asciiLower coding) er x := by
  simp only [needDec, h, Bool.false_eq_true, if_false]

private theorem needEnc_of {coding : Bytes} (er d : Bytes) (h : identityEnc.contains (asciiLower coding) = false) :
    needEnc coding er d = .enc (asciiLower coding) er d := by
  simp only [needEnc, h, Bool.false_eq_true, if_false]

/-- the cache after an op is the old one, or the entry made from the op's single uncached codec call -/
private theorem stepWith_cache (s : State) (op : Op) (fresh : Res) :
    (stepWith s op fresh).1.cache = s.cache ∨
    (∃ n e x d, need s op = .dec n e x ∧ fresh = .ok d ∧ cachedDec.contains n = true ∧
      (stepWith s op fresh).1.cache = some ⟨x, n, e, d⟩) ∨
    (∃ n e d x, need s op = .enc n e d ∧ fresh = .ok x ∧ cachedDec.contains n = true ∧
      (stepWith s op fresh).1.cache = some ⟨x, n, e, d⟩) := by
  cases op with
  | dec x c e =>
    rcases decodeStep_cache s.cache x c e fresh with h | ⟨h1, h2, d, h3, h4⟩
    · left; simpa [stepWith] using h
    · right; left
      exact ⟨_, e, x, d, needDec_of e x h1, h3, h2, by simpa [stepWith] using h4⟩
  | enc d c e =>
    rcases encodeStep_cache s.cache d c e fresh with h | ⟨h1, h2, x, h3, h4⟩
    · left; simpa [stepWith] using h
    · right; right
      exact ⟨_, e, d, x, needEnc_of e d h1, h3, h2, by simpa [stepWith] using h4⟩
  | setContent i v =>
    cases v with
    | none => left; simp [stepWith, setContent, setMsg_cache]
    | some v =>
      have hc : (stepWith s (.setContent i (some v)) fresh).1.cache =
          (encodeStep s.cache v (ceOrIdentity (s.msg i).ce) strictB fresh).2 := by
        simp only [stepWith, setMsg_cache]
        exact setContent_cache _ _ _ _
      rcases encodeStep_cache s.cache v (ceOrIdentity (s.msg i).ce) strictB fresh with h | ⟨h1, h2, x, h3, h4⟩
      · left; rw [hc, h]
      · right; right
        exact ⟨_, strictB, v, x, needEnc_of strictB v h1, h3, h2, by rw [hc, h4]⟩
  | getContent i st =>
    have hc : (stepWith s (.getContent i st) fresh).1.cache = (getContent s.cache (s.msg i) st fresh).2 := by
      simp [stepWith]
    rcases getContent_cache s.cache (s.msg i) st fresh with h | ⟨raw, ce, hr, hce, he, h⟩
    · left; rw [hc, h]
    · rcases decodeStep_cache s.cache raw ce strictB fresh with h' | ⟨h1, h2, d, h3, h4⟩
      · left; rw [hc, h, h']
      · right; left
        refine ⟨_, strictB, raw, d, ?_, h3, h2, by rw [hc, h, h4]⟩
        simp only [need, needGet, hr, hce, he, Bool.false_eq_true, if_false]
        exact needDec_of strictB raw h1
  | mdecode i st =>
    have hc : (stepWith s (.mdecode i st) fresh).1.cache = (msgDecode s.cache (s.msg i) st fresh).2.1 := by
      simp [stepWith, setMsg_cache]
    -- the cache after Message.decode is the cache after its get_content
    have hmd : (msgDecode s.cache (s.msg i) st fresh).2.1 = s.cache ∨
        (∃ raw, (s.msg i).raw = some raw ∧ raw.isEmpty = false ∧
          (msgDecode s.cache (s.msg i) st fresh).2.1 = (getContent s.cache (s.msg i) st fresh).2) := by
      unfold msgDecode
      cases hr : (s.msg i).raw with
      | none => left; rfl
      | some raw =>
        cases he : raw.isEmpty
        · right
          refine ⟨raw, rfl, he, ?_⟩
          simp only [he, Bool.false_eq_true, if_false]
          generalize getContent s.cache (s.msg i) st fresh = p
          obtain ⟨r, c'⟩ := p
          cases r with
          | ok d =>
            simp only
            rw [setContent_cache]
            exact encodeStep_identity_cache _ _ _ _ _ (by show identityEnc.contains (asciiLower identityB) = true; decide)
          | _ => rfl
        · left; simp only [he, if_true]
    rcases hmd with h | ⟨raw0, hr0, he0, h⟩
    · left; rw [hc, h]
    · rcases getContent_cache s.cache (s.msg i) st fresh with hg | ⟨raw, ce, hr, hce, he, hg⟩
      · left; rw [hc, h, hg]
      · rcases decodeStep_cache s.cache raw ce strictB fresh with h' | ⟨h1, h2, d, h3, h4⟩
        · left; rw [hc, h, hg, h']
        · right; left
          refine ⟨_, strictB, raw, d, ?_, h3, h2, by rw [hc, h, hg, h4]⟩
          have he0' : raw.isEmpty = false := by
            have := Option.some.inj (hr.symm.trans hr0)
            rw [this]; exact he0
          simp only [need, needGet, hr, hce, he, he0', Bool.false_eq_true, if_false]
          exact needDec_of strictB raw h1
  | mencode i cd =>
    have hc : (stepWith s (.mencode i cd) fresh).1.cache =
        (setContent s.cache { s.msg i with ce := some cd } (s.msg i).raw fresh).2.1 := by
      simp only [stepWith, setMsg_cache, msgEncode]
      generalize setContent s.cache { s.msg i with ce := some cd } (s.msg i).raw fresh = p
      obtain ⟨r, c', m'⟩ := p
      cases r <;> simp only <;> split <;> rfl
    cases hr : (s.msg i).raw with
    | none => left; rw [hc, hr]; rfl
    | some raw =>
      rw [hr, setContent_cache] at hc
      rcases encodeStep_cache s.cache raw (ceOrIdentity (some cd)) strictB fresh with h | ⟨h1, h2, x, h3, h4⟩
      · left; rw [hc]; exact h
      · right; right
        refine ⟨_, strictB, raw, x, ?_, h3, h2, by rw [hc]; exact h4⟩
        simp only [need, hr]
        exact needEnc_of strictB raw h1
  | setRaw i v => left; simp [stepWith, setMsg_cache]
  | setCe i v => left; simp [stepWith, setMsg_cache]
  | setTe i on => left; simp [stepWith, setMsg_cache]
  | setCl i n => left; simp [stepWith, setMsg_cache]
  | setTr i t => left; simp [stepWith, setMsg_cache]
  | setVer i w => left; simp [stepWith, setMsg_cache]

/-- any predicate on cache entries that holds for entries made from true codec facts is preserved -/
private theorem step_pres (C : Codecs) (P : Entry → Prop) (s : State) (op : Op)
    (hP : ∀ e, s.cache = some e → P e)
    (hd : ∀ n e x d, need s op = .dec n e x → C.dec n e x = .ok d → cachedDec.contains n = true → P ⟨x, n, e, d⟩)
    (he : ∀ n e d x, need s op = .enc n e d → C.enc n e d = .ok x → cachedDec.contains n = true → P ⟨x, n, e, d⟩) :
    ∀ e, (step C s op).1.cache = some e → P e := by
  intro ent hent
  unfold step at hent
  rcases stepWith_cache s op (freshOf C s op) with h | ⟨n, e, x, d, hn, hf, hc, h⟩ | ⟨n, e, d, x, hn, hf, hc, h⟩
  · rw [h] at hent; exact hP ent hent
  · rw [h] at hent
    cases hent
    apply hd n e x d hn _ hc
    simpa [freshOf, hn] using hf
  · rw [h] at hent
    cases hent
    apply he n e d x hn _ hc
    simpa [freshOf, hn] using hf

private theorem step_inv (C : Codecs) (s : State) (op : Op) (hi : Inv C s.cache) :
    Inv C (step C s op).1.cache := by
  apply step_pres C (fun e => kindOf e.coding = .cached ∧ C.dec e.coding e.errors e.encoded = .ok e.decoded) s op hi
  · intro n e x d _ hdec hc
    exact ⟨(kind_cached_iff n).mpr hc, hdec⟩
  · intro n e d x _ henc hc
    exact ⟨(kind_cached_iff n).mpr hc, C.roundtrip n e d x ((kind_cached_iff n).mpr hc) henc⟩

private theorem run_inv' (C : Codecs) (ops : List Op) : ∀ s, Inv C s.cache → Inv C (run C s ops).1.cache := by
  induction ops with
  | nil => intro s h; exact h
  | cons op ops ih =>
    intro s h
    simp only [run]
    exact ih _ (step_inv C s op h)

/-- every state reached by any history from an empty cache satisfies the invariant -/
private theorem run_inv (C : Codecs) (s0 : State) (h0 : s0.cache = none) (ops : List Op) :
    Inv C (run C s0 ops).1.cache :=
  run_inv' C ops s0 (by intro e he; rw [h0] at he; cases he)

/-! ### results of `encoding.decode` / `encoding.encode` under the invariant -/

private theorem decodeStep_res {C : Codecs} {c : Cache} (hi : Inv C c) (x coding er : Bytes) (fresh : Res)
    (hf : identityDec.contains (asciiLower coding) = false → fresh = C.dec (asciiLower coding) er x) :
    (decodeStep c x coding er fresh).1 = uncachedDec C coding er x := by
  unfold decodeStep uncachedDec
  dsimp only
  cases h : decHit c x (asciiLower coding) er with
  | some d =>
    obtain ⟨e, hc, hx, hn, her, hd⟩ := decHit_some h
    obtain ⟨hk, hdec⟩ := hi e hc
    rw [hn] at hk
    rw [hn, hx, her, hd] at hdec
    have hni := (cached_facts ((kind_cached_iff _).mp hk)).1
    simp only [hni, Bool.false_eq_true, if_false, hdec]
  | none =>
    cases hid : identityDec.contains (asciiLower coding)
    · simp [hf hid]
    · simp

private theorem decodeStep_hit {c : Cache} {x coding er d : Bytes} (fresh : Res)
    (h : decHit c x (asciiLower coding) er = some d) : decodeStep c x coding er fresh = (.ok d, c) := by
  unfold decodeStep
  dsimp only
  rw [h]

private theorem decodeStep_identityKind {C : Codecs} {c : Cache} (hi : Inv C c) (x coding er : Bytes) (fresh : Res)
    (hk : kindOf (asciiLower coding) = .identity) : decodeStep c x coding er fresh = (.ok x, c) := by
  have hnc : kindOf (asciiLower coding) ≠ .cached := by rw [hk]; decide
  have hcd : cachedDec.contains (asciiLower coding) = false := by
    cases h : cachedDec.contains (asciiLower coding)
    · rfl
    · exact absurd ((kind_cached_iff _).mpr h) hnc
  unfold decodeStep
  dsimp only
  rw [decHit_none_of_kind hi hnc, (kind_identity_iff _).mp hk]
  simp only [hcd, if_true, Bool.false_eq_true, if_false]

private theorem encodeStep_identityKind {C : Codecs} {c : Cache} (hi : Inv C c) (d coding er : Bytes) (fresh : Res)
    (hk : kindOf (asciiLower coding) = .identity) : encodeStep c d coding er fresh = (.ok d, c) := by
  have hnc : kindOf (asciiLower coding) ≠ .cached := by rw [hk]; decide
  have hcd : cachedDec.contains (asciiLower coding) = false := by
    cases h : cachedDec.contains (asciiLower coding)
    · rfl
    · exact absurd ((kind_cached_iff _).mpr h) hnc
  unfold encodeStep
  dsimp only
  rw [tbl_identity, tbl_cached, encHit_none_of_kind hi hnc, (kind_identity_iff _).mp hk]
  simp only [hcd, if_true, Bool.false_eq_true, if_false]

private theorem encodeStep_unknownKind {C : Codecs} {c : Cache} (hi : Inv C c) (d coding er : Bytes) (fresh : Res)
    (hk : kindOf (asciiLower coding) = .unknown) (hf : fresh = C.enc (asciiLower coding) er d) :
    encodeStep c d coding er fresh = (.verr, c) := by
  have hnc : kindOf (asciiLower coding) ≠ .cached := by rw [hk]; decide
  have hid : identityDec.contains (asciiLower coding) = false := by
    cases h : identityDec.contains (asciiLower coding)
    · rfl
    · have := (kind_identity_iff _).mpr h
      rw [hk] at this; cases this
  unfold encodeStep
  dsimp only
  rw [tbl_identity, encHit_none_of_kind hi hnc, hid, hf, C.unknown_enc _ _ _ hk]
  simp

/-- a cached-kind coding always encodes; the bytes decode back (uncached decoder) to the input, the
    following decode of these bytes is a cache hit, and the bytes are either the cache entry's or fresh -/
private theorem encodeStep_cachedKind {C : Codecs} {c : Cache} (hi : Inv C c) (d coding er : Bytes) (fresh : Res)
    (hk : kindOf (asciiLower coding) = .cached) (hf : fresh = C.enc (asciiLower coding) er d) :
    ∃ x c', encodeStep c d coding er fresh = (.ok x, c') ∧ C.dec (asciiLower coding) er x = .ok d ∧
      decHit c' x (asciiLower coding) er = some d ∧
      (encHit c d (asciiLower coding) er = some x ∨
        (encHit c d (asciiLower coding) er = none ∧ C.enc (asciiLower coding) er d = .ok x)) := by
  have hcd := (kind_cached_iff _).mp hk
  have hid := (cached_facts hcd).1
  unfold encodeStep
  dsimp only
  rw [tbl_identity, tbl_cached]
  cases h : encHit c d (asciiLower coding) er with
  | some x =>
    obtain ⟨e, hc, hd, hn, her, hx⟩ := encHit_some h
    obtain ⟨_, hdec⟩ := hi e hc
    rw [hn, hx, her, hd] at hdec
    refine ⟨x, c, rfl, hdec, ?_, Or.inl rfl⟩
    subst hc
    simp [decHit, hd, hn, her, hx]
  | none =>
    obtain ⟨x, hx⟩ := C.enc_total (asciiLower coding) er d hk
    refine ⟨x, some ⟨x, asciiLower coding, er, d⟩, ?_, C.roundtrip _ _ _ _ hk hx, by simp [decHit], Or.inr ⟨rfl, hx⟩⟩
    simp only [hid, hf, hx, hcd, Bool.false_eq_true, if_false, if_true]

/-! ### the theorems -/

/-- **C31 (the cache is transparent for decoding).** In every state reachable by any call history from an
    empty cache, `encoding.decode(x, coding, errors)` returns exactly what the uncached codec returns —
    bytes, `str`, ValueError or TypeError alike, for every coding name in any case. -/
theorem decode_transparent (C : Codecs) (s0 : State) (h0 : s0.cache = none) (ops : List Op)
    (x coding errors : Bytes) :
    (step C (run C s0 ops).1 (.dec x coding errors)).2 = uncachedDec C coding errors x := by
  have hi := run_inv C s0 h0 ops
  generalize (run C s0 ops).1 = s at hi
  have := decodeStep_res hi x coding errors (freshOf C s (.dec x coding errors))
    (by intro h; simp [freshOf, need, needDec_of errors x h])
  simpa [step, stepWith] using this

/-- **C31 (the cache is semantically transparent for encoding).** In every reachable state, a compressed
    coding always encodes, and whatever `encoding.encode(d, coding, errors)` returns for an identity or
    compressed coding decodes (uncached) back to `d`. -/
theorem encode_semantically_transparent (C : Codecs) (s0 : State) (h0 : s0.cache = none) (ops : List Op)
    (d coding errors : Bytes) :
    (kindOf (asciiLower coding) = .cached →
      ∃ x, (step C (run C s0 ops).1 (.enc d coding errors)).2 = .ok x) ∧
    (kindOf (asciiLower coding) = .identity ∨ kindOf (asciiLower coding) = .cached →
      ∀ x, (step C (run C s0 ops).1 (.enc d coding errors)).2 = .ok x → uncachedDec C coding errors x = .ok d) := by
  have hi := run_inv C s0 h0 ops
  generalize (run C s0 ops).1 = s at hi
  have hres : (step C s (.enc d coding errors)).2 =
      (encodeStep s.cache d coding errors (freshOf C s (.enc d coding errors))).1 := by
    simp [step, stepWith]
  have hcached : kindOf (asciiLower coding) = .cached →
      ∃ x, (step C s (.enc d coding errors)).2 = .ok x ∧ C.dec (asciiLower coding) errors x = .ok d ∧
        identityDec.contains (asciiLower coding) = false := by
    intro hk
    have hid := (cached_facts ((kind_cached_iff _).mp hk)).1
    obtain ⟨x, c', he, hdec, _, _⟩ := encodeStep_cachedKind hi d coding errors (freshOf C s (.enc d coding errors)) hk
      (by simp [freshOf, need, needEnc_of errors d (tbl_identity ▸ hid)])
    exact ⟨x, by rw [hres, he], hdec, hid⟩
  constructor
  · intro hk
    obtain ⟨x, hx, _⟩ := hcached hk
    exact ⟨x, hx⟩
  · rintro (hk | hk) x hx
    · rw [hres, encodeStep_identityKind hi d coding errors _ hk] at hx
      cases hx
      simp only [uncachedDec, (kind_identity_iff _).mp hk, if_true]
    · obtain ⟨x', hx', hdec, hid⟩ := hcached hk
      rw [hx'] at hx
      cases hx
      simp only [uncachedDec, hid, Bool.false_eq_true, if_false, hdec]

/-! ### `Message.set_content` / `get_content` under the invariant -/

private theorem fixLen_raw (m : Msg) : (fixLen m).raw = m.raw := by unfold fixLen; split <;> rfl
private theorem fixLen_ce (m : Msg) : (fixLen m).ce = m.ce := by unfold fixLen; split <;> rfl
private theorem fixLen_te (m : Msg) : (fixLen m).te = m.te := by unfold fixLen; split <;> rfl

private theorem getContent_fix (c : Cache) (m : Msg) (st : Bool) (f : Res) :
    getContent c (fixLen m) st f = getContent c m st f := by
  unfold getContent
  rw [fixLen_raw, fixLen_ce]

private theorem kind_eff_identityB : kindOf (asciiLower identityB) = .identity := by decide

/-- a header whose effective name is not an identity name is present and non-empty -/
private theorem hdr_of_nonidentity {ce : Option Bytes} (h : kindOf (effName ce) ≠ .identity) :
    ∃ x, ce = some x ∧ x.isEmpty = false ∧ effName ce = asciiLower x := by
  cases ce with
  | none => exact absurd kind_eff_identityB h
  | some x =>
    cases hx : x.isEmpty
    · exact ⟨x, rfl, hx, by simp [effName, ceOrIdentity, hx]⟩
    · exfalso; apply h
      simp only [effName, ceOrIdentity, hx, if_true]
      exact kind_eff_identityB

private theorem not_identity_contains {n : Bytes} (h : kindOf n ≠ .identity) : identityEnc.contains n = false := by
  rw [tbl_identity]
  cases hc : identityDec.contains n
  · rfl
  · exact absurd ((kind_identity_iff n).mpr hc) h

private theorem setContent_identity {C : Codecs} {c : Cache} (hi : Inv C c) (m : Msg) (v : Bytes) (fresh : Res)
    (hk : kindOf (effName m.ce) = .identity) :
    setContent c m (some v) fresh = (.done, c, fixLen { m with raw := some v }) := by
  unfold setContent
  simp only
  rw [encodeStep_identityKind hi v _ strictB fresh hk]

private theorem setContent_unknown {C : Codecs} {c : Cache} (hi : Inv C c) (m : Msg) (v : Bytes) (fresh : Res)
    (hk : kindOf (effName m.ce) = .unknown) (hf : fresh = C.enc (effName m.ce) strictB v) :
    setContent c m (some v) fresh = (.done, c, fixLen { m with raw := some v, ce := none }) := by
  unfold setContent
  simp only
  rw [encodeStep_unknownKind hi v _ strictB fresh hk hf]

private theorem setContent_cached {C : Codecs} {c : Cache} (hi : Inv C c) (m : Msg) (v : Bytes) (fresh : Res)
    (hk : kindOf (effName m.ce) = .cached) (hf : fresh = C.enc (effName m.ce) strictB v) :
    ∃ x c', setContent c m (some v) fresh = (.done, c', fixLen { m with raw := some x }) ∧
      C.dec (effName m.ce) strictB x = .ok v ∧ decHit c' x (effName m.ce) strictB = some v ∧
      (encHit c v (effName m.ce) strictB = some x ∨
        (encHit c v (effName m.ce) strictB = none ∧ C.enc (effName m.ce) strictB v = .ok x)) := by
  obtain ⟨x, c', he, h1, h2, h3⟩ := encodeStep_cachedKind hi v (ceOrIdentity m.ce) strictB fresh hk hf
  refine ⟨x, c', ?_, h1, h2, h3⟩
  unfold setContent
  simp only
  rw [he]

/-- assigning content under an identity / compressed / unknown coding succeeds, and the next read returns it -/
private theorem get_after_set {C : Codecs} {c : Cache} (hi : Inv C c) (m : Msg) (v : Bytes) (fresh : Res)
    (hok : OkName (effName m.ce))
    (hf : identityEnc.contains (effName m.ce) = false → fresh = C.enc (effName m.ce) strictB v) :
    (setContent c m (some v) fresh).1 = .done ∧
    ∀ st f2, (getContent (setContent c m (some v) fresh).2.1 (setContent c m (some v) fresh).2.2 st f2).1 = .ok v := by
  rcases hok with hk | hk | hk
  · rw [setContent_identity hi m v fresh hk]
    refine ⟨rfl, ?_⟩
    intro st f2
    simp only [getContent_fix]
    unfold getContent
    simp only
    cases hce : m.ce with
    | none => rfl
    | some x =>
      simp only
      cases hx : x.isEmpty
      · have hk' : kindOf (asciiLower x) = .identity := by
          have : effName m.ce = asciiLower x := by simp [effName, ceOrIdentity, hce, hx]
          rw [← this]; exact hk
        simp only [Bool.false_eq_true, if_false]
        rw [decodeStep_identityKind hi v x strictB f2 hk']
      · rfl
  · have hni : kindOf (effName m.ce) ≠ .identity := by rw [hk]; decide
    obtain ⟨y, hce, hy, hn⟩ := hdr_of_nonidentity hni
    obtain ⟨x, c', hs, _, hhit, _⟩ := setContent_cached hi m v fresh hk (hf (not_identity_contains hni))
    rw [hs]
    refine ⟨rfl, ?_⟩
    intro st f2
    simp only [getContent_fix]
    unfold getContent
    simp only [hce, hy, Bool.false_eq_true, if_false]
    rw [hn] at hhit
    rw [decodeStep_hit f2 hhit]
  · have hni : kindOf (effName m.ce) ≠ .identity := by rw [hk]; decide
    rw [setContent_unknown hi m v fresh hk (hf (not_identity_contains hni))]
    refine ⟨rfl, ?_⟩
    intro st f2
    simp only [getContent_fix]
    rfl

/-! state-level plumbing -/

private theorem step_set (C : Codecs) (s : State) (i : Bool) (v : Option Bytes) :
    step C s (.setContent i v) =
      (({ s with cache := (setContent s.cache (s.msg i) v (freshOf C s (.setContent i v))).2.1 } : State).setMsg i
          (setContent s.cache (s.msg i) v (freshOf C s (.setContent i v))).2.2,
        (setContent s.cache (s.msg i) v (freshOf C s (.setContent i v))).1) := rfl

private theorem step_get (C : Codecs) (s : State) (i st : Bool) :
    (step C s (.getContent i st)).2 = (getContent s.cache (s.msg i) st (freshOf C s (.getContent i st))).1 := rfl

private theorem fresh_set (C : Codecs) (s : State) (i : Bool) (v : Bytes)
    (h : identityEnc.contains (effName (s.msg i).ce) = false) :
    freshOf C s (.setContent i (some v)) = C.enc (effName (s.msg i).ce) strictB v := by
  simp only [freshOf, need]
  rw [needEnc_of strictB v h]
  rfl

/-- **C31 (assign, then read back).** In every state reachable by any history, for a message whose
    Content-Encoding (any letter case; absent or empty = identity) is an identity name, a compressed coding
    or an unknown name: `set_content(v)` succeeds and the next `get_content()` returns exactly `v`. -/
theorem set_get_content (C : Codecs) (s0 : State) (h0 : s0.cache = none) (ops : List Op) (i : Bool) (v : Bytes)
    (hok : OkName (effName (((run C s0 ops).1.msg i).ce))) :
    (step C (run C s0 ops).1 (.setContent i (some v))).2 = .done ∧
    (step C (step C (run C s0 ops).1 (.setContent i (some v))).1 (.getContent i true)).2 = .ok v := by
  have hi := run_inv C s0 h0 ops
  generalize (run C s0 ops).1 = s at hi hok
  obtain ⟨h1, h2⟩ := get_after_set hi (s.msg i) v (freshOf C s (.setContent i (some v))) hok (fresh_set C s i v)
  rw [step_set]
  refine ⟨h1, ?_⟩
  rw [step_get]
  simp only [setMsg_cache, setMsg_msg]
  exact h2 true _

/-- an unknown coding is removed from the message by `set_content` (the body is stored as is) -/
theorem unknown_coding_removed (C : Codecs) (s0 : State) (h0 : s0.cache = none) (ops : List Op) (i : Bool) (v : Bytes)
    (hk : kindOf (effName (((run C s0 ops).1.msg i).ce)) = .unknown) :
    ((step C (run C s0 ops).1 (.setContent i (some v))).1.msg i).ce = none ∧
    ((step C (run C s0 ops).1 (.setContent i (some v))).1.msg i).raw = some v := by
  have hi := run_inv C s0 h0 ops
  generalize (run C s0 ops).1 = s at hi hk
  have hni : kindOf (effName (s.msg i).ce) ≠ .identity := by rw [hk]; decide
  rw [step_set, setMsg_msg,
    setContent_unknown hi (s.msg i) v _ hk (fresh_set C s i v (not_identity_contains hni))]
  exact ⟨by rw [fixLen_ce], by rw [fixLen_raw]⟩

private theorem setContent_len (c : Cache) (m : Msg) (v : Bytes) (fresh : Res)
    (h : (setContent c m (some v) fresh).1 = .done) :
    (m.te = false → ∃ raw, (setContent c m (some v) fresh).2.2.raw = some raw ∧
        (setContent c m (some v) fresh).2.2.cl = some raw.length) ∧
    (m.te = true → (setContent c m (some v) fresh).2.2.cl = m.cl) ∧
    (setContent c m (some v) fresh).2.2.te = m.te := by
  unfold setContent at h ⊢
  simp only at h ⊢
  generalize encodeStep c v (ceOrIdentity m.ce) strictB fresh = p at h ⊢
  obtain ⟨r, c'⟩ := p
  cases r with
  | ok x => cases hte : m.te <;> simp [fixLen]
  | verr => cases hte : m.te <;> simp [fixLen]
  | str => simp at h
  | terr => simp at h
  | nil => simp at h
  | done => simp at h

private theorem setContent_meta (c : Cache) (m : Msg) (v : Option Bytes) (fresh : Res) :
    (setContent c m v fresh).2.2.tr = m.tr ∧ (setContent c m v fresh).2.2.ver = m.ver := by
  cases v with
  | none => exact ⟨rfl, rfl⟩
  | some v =>
    unfold setContent
    simp only
    generalize encodeStep c v (ceOrIdentity m.ce) strictB fresh = p
    obtain ⟨r, c'⟩ := p
    cases r <;> simp only [fixLen] <;> (try split) <;> first | exact ⟨rfl, rfl⟩ | exact ⟨trivial, trivial⟩

/-- **C31 (Content-Length).** After any history, whenever `set_content(v)` completes: without a
    Transfer-Encoding header the Content-Length header equals the length of the stored raw body; with one,
    the Content-Length header is left untouched.  Holds for every coding, whatever the codec returns, and — the
    message state carries them — WHATEVER the message's trailers (absent / empty / non-empty) and HTTP version
    are: the rule looks at the Transfer-Encoding header only, and the assignment leaves trailers and version alone. -/
theorem content_length_eq_raw_len_without_TE (C : Codecs) (s0 : State) (ops : List Op) (i : Bool) (v : Bytes)
    (h : (step C (run C s0 ops).1 (.setContent i (some v))).2 = .done) :
    (((run C s0 ops).1.msg i).te = false →
      ∃ raw, ((step C (run C s0 ops).1 (.setContent i (some v))).1.msg i).raw = some raw ∧
        ((step C (run C s0 ops).1 (.setContent i (some v))).1.msg i).cl = some raw.length) ∧
    (((run C s0 ops).1.msg i).te = true →
      ((step C (run C s0 ops).1 (.setContent i (some v))).1.msg i).cl = ((run C s0 ops).1.msg i).cl) ∧
    ((step C (run C s0 ops).1 (.setContent i (some v))).1.msg i).te = ((run C s0 ops).1.msg i).te ∧
    ((step C (run C s0 ops).1 (.setContent i (some v))).1.msg i).tr = ((run C s0 ops).1.msg i).tr ∧
    ((step C (run C s0 ops).1 (.setContent i (some v))).1.msg i).ver = ((run C s0 ops).1.msg i).ver := by
  generalize (run C s0 ops).1 = s at h ⊢
  rw [step_set] at h ⊢
  simp only [setMsg_msg]
  obtain ⟨h1, h2, h3⟩ := setContent_len _ _ _ _ h
  obtain ⟨h4, h5⟩ := setContent_meta s.cache (s.msg i) (some v) (freshOf C s (.setContent i (some v)))
  exact ⟨h1, h2, h3, h4, h5⟩

/-! ### the raw body after an assignment (sentence 2 of the property) -/

private theorem raw_after_set {C : Codecs} {s : State} (hi : Inv C s.cache) (i : Bool) (v : Bytes)
    (hk : kindOf (effName (s.msg i).ce) = .cached) :
    ∃ x, ((step C s (.setContent i (some v))).1.msg i).raw = some x ∧
      C.dec (effName (s.msg i).ce) strictB x = .ok v ∧
      (encHit s.cache v (effName (s.msg i).ce) strictB = some x ∨
        (encHit s.cache v (effName (s.msg i).ce) strictB = none ∧ C.enc (effName (s.msg i).ce) strictB v = .ok x)) := by
  have hni : kindOf (effName (s.msg i).ce) ≠ .identity := by rw [hk]; decide
  obtain ⟨x, c', hs, h1, _, h3⟩ := setContent_cached hi (s.msg i) v _ hk (fresh_set C s i v (not_identity_contains hni))
  refine ⟨x, ?_, h1, h3⟩
  rw [step_set, setMsg_msg, hs, fixLen_raw]

/-- **C31 (raw body, lenient form — holds for ALL histories).** After `set_content(v)` under a compressed
    coding the stored raw body decodes to `v` under mitmproxy's own uncached decoder. -/
theorem raw_decodes_to_content_lenient (C : Codecs) (s0 : State) (h0 : s0.cache = none) (ops : List Op)
    (i : Bool) (v : Bytes) (hk : kindOf (effName (((run C s0 ops).1.msg i).ce)) = .cached) :
    ∃ raw, ((step C (run C s0 ops).1 (.setContent i (some v))).1.msg i).raw = some raw ∧
      C.dec (effName (((run C s0 ops).1.msg i).ce)) strictB raw = .ok v := by
  obtain ⟨x, h1, h2, _⟩ := raw_after_set (run_inv C s0 h0 ops) i v hk
  exact ⟨x, h1, h2⟩

/-- **C31 (raw body, strict reference decoder) — partial: exactly the F-C31a class excluded at the moment of
    the assignment.**  For ALL histories: unless the assignment is a cache hit on an entry that the strict
    reference decoder does not map to `v` (`lenientHit`), the stored raw body is accepted by the strict
    reference decoder and decodes to `v`. -/
theorem raw_decodes_to_content_partial_hit (C : Codecs) (s0 : State) (h0 : s0.cache = none) (ops : List Op)
    (i : Bool) (v : Bytes) (hk : kindOf (effName (((run C s0 ops).1.msg i).ce)) = .cached)
    (hg : lenientHit C (run C s0 ops).1.cache v (effName (((run C s0 ops).1.msg i).ce)) = false) :
    ∃ raw, ((step C (run C s0 ops).1 (.setContent i (some v))).1.msg i).raw = some raw ∧
      C.ref (effName (((run C s0 ops).1.msg i).ce)) raw = some v := by
  obtain ⟨x, h1, _, h3⟩ := raw_after_set (run_inv C s0 h0 ops) i v hk
  refine ⟨x, h1, ?_⟩
  rcases h3 with hhit | ⟨_, henc⟩
  · simpa [lenientHit, hhit] using hg
  · exact C.ref_enc _ _ _ _ hk henc

private theorem step_invRef (C : Codecs) (s : State) (op : Op) (hi : InvRef C s.cache)
    (hg : strictOp C s op = true) : InvRef C (step C s op).1.cache := by
  apply step_pres C (fun e => kindOf e.coding = .cached ∧ C.ref e.coding e.encoded = some e.decoded) s op hi
  · intro n e x d hn hdec hc
    have hk := (kind_cached_iff n).mpr hc
    refine ⟨hk, ?_⟩
    simpa [strictOp, hn, hk, hdec] using hg
  · intro n e d x _ henc hc
    exact ⟨(kind_cached_iff n).mpr hc, C.ref_enc n e d x ((kind_cached_iff n).mpr hc) henc⟩

private theorem run_invRef (C : Codecs) (ops : List Op) :
    ∀ s, InvRef C s.cache → strictHist C s ops = true → InvRef C (run C s ops).1.cache := by
  induction ops with
  | nil => intro s h _; exact h
  | cons op ops ih =>
    intro s h hg
    simp only [strictHist, Bool.and_eq_true] at hg
    simp only [run]
    exact ih _ (step_invRef C s op h hg.1) hg.2

/-- **C31 (raw body, strict reference decoder) — partial: histories without a lenient-only decode.**  For every
    history in which each successful decode of a compressed coding was of a body the strict reference decoder
    accepts with the same result (`strictHist`, decidable), the raw body stored by `set_content(v)` is accepted
    by the strict reference decoder and decodes to `v`. -/
theorem raw_decodes_to_content_partial (C : Codecs) (s0 : State) (h0 : s0.cache = none) (ops : List Op)
    (i : Bool) (v : Bytes) (hk : kindOf (effName (((run C s0 ops).1.msg i).ce)) = .cached)
    (hg : strictHist C s0 ops = true) :
    ∃ raw, ((step C (run C s0 ops).1 (.setContent i (some v))).1.msg i).raw = some raw ∧
      C.ref (effName (((run C s0 ops).1.msg i).ce)) raw = some v := by
  apply raw_decodes_to_content_partial_hit C s0 h0 ops i v hk
  have hr : InvRef C (run C s0 ops).1.cache :=
    run_invRef C ops s0 (by intro e he; rw [h0] at he; cases he) hg
  unfold lenientHit
  cases hh : encHit (run C s0 ops).1.cache v (effName (((run C s0 ops).1.msg i).ce)) strictB with
  | none => rfl
  | some x =>
    obtain ⟨e, hc, hd, hn, _, hx⟩ := encHit_some hh
    obtain ⟨_, href⟩ := hr e hc
    rw [hn, hx, hd] at href
    simp [href]

/-- the F-C31a history on the toy codecs: message 0 has an empty raw body under "br"; read it, assign `b""` -/
private def cexState : State := ⟨none, ⟨some [], some [0x62, 0x72], false, none, .absent, .h11⟩, emptyMsg⟩

/-- **C31 (raw body) — the full statement is FALSE (F-C31a).**  With the toy codecs (which satisfy every law):
    after reading the empty body, assigning the same (empty) content is a cache hit and leaves the empty raw
    body, which the strict reference decoder rejects. -/
theorem raw_decodes_to_content_counterexample : ¬ RawDecodesToContent toy := by
  intro h
  have := h cexState [.getContent false true] false [] rfl (by decide)
  revert this
  decide

/-! ### `Message.decode` followed by `Message.encode` -/

private theorem getContent_ok {c : Cache} {m : Msg} {f : Res} {v raw x : Bytes}
    (h : (getContent c m true f).1 = .ok v) (hr : m.raw = some raw) (hce : m.ce = some x)
    (he : x.isEmpty = false) : (decodeStep c raw x strictB f).1 = .ok v := by
  unfold getContent at h
  simp only [hr, hce, he, Bool.false_eq_true, if_false] at h
  generalize decodeStep c raw x strictB f = p at h ⊢
  obtain ⟨r, c'⟩ := p
  cases r <;> simp_all

private theorem getContent_st_eq {c : Cache} {m : Msg} {f : Res} {v : Bytes} (st : Bool)
    (h : (getContent c m true f).1 = .ok v) : getContent c m st f = getContent c m true f := by
  cases st with
  | true => rfl
  | false =>
    unfold getContent at h ⊢
    cases hr : m.raw with
    | none => rfl
    | some raw =>
      cases hce : m.ce with
      | none => rfl
      | some x =>
        cases he : x.isEmpty
        · simp only [hr, hce, he, Bool.false_eq_true, if_false] at h ⊢
          generalize decodeStep c raw x strictB f = p at h ⊢
          obtain ⟨r, c'⟩ := p
          cases r <;> simp_all
        · simp only [he, if_true]

/-- reading an empty raw body under an identity / compressed / unknown coding can only yield the empty content -/
private theorem get_empty {C : Codecs} {c : Cache} (hi : Inv C c) {m : Msg} {f : Res} {v : Bytes}
    (hok : OkName (effName m.ce)) (hr : m.raw = some [])
    (hf : ∀ x, m.ce = some x → x.isEmpty = false → identityDec.contains (asciiLower x) = false →
      f = C.dec (asciiLower x) strictB [])
    (h : (getContent c m true f).1 = .ok v) : v = [] := by
  cases hce : m.ce with
  | none =>
    unfold getContent at h
    simp only [hr, hce] at h
    cases h; rfl
  | some x =>
    cases he : x.isEmpty
    · have hd := getContent_ok h hr hce he
      rw [decodeStep_res hi [] x strictB f (hf x hce he)] at hd
      have hn : effName m.ce = asciiLower x := by simp [effName, ceOrIdentity, hce, he]
      rw [hn] at hok
      unfold uncachedDec at hd
      dsimp only at hd
      rcases hok with hk | hk | hk
      · rw [(kind_identity_iff _).mp hk] at hd
        simp only [if_true] at hd
        cases hd; rfl
      · rw [(cached_facts ((kind_cached_iff _).mp hk)).1, C.dec_empty _ _ hk] at hd
        simp only [Bool.false_eq_true, if_false] at hd
        cases hd; rfl
      · have hni : kindOf (asciiLower x) ≠ .identity := by rw [hk]; decide
        have hidd : identityDec.contains (asciiLower x) = false := by
          have := not_identity_contains hni
          rwa [tbl_identity] at this
        rw [hidd, C.unknown_dec _ _ _ hk] at hd
        simp at hd
    · unfold getContent at h
      simp only [hr, hce, he, if_true] at h
      cases h; rfl

/-- `Message.decode` on a message whose content reads as `v`: finishes, and the raw body is `v` afterwards -/
private theorem msgDecode_spec {C : Codecs} {c : Cache} (hi : Inv C c) (m : Msg) (st : Bool) (f : Res) (v : Bytes)
    (hok : OkName (effName m.ce))
    (hf : ∀ raw x, m.raw = some raw → m.ce = some x → x.isEmpty = false →
      identityDec.contains (asciiLower x) = false → f = C.dec (asciiLower x) strictB raw)
    (hi1 : Inv C (getContent c m st f).2)
    (h : (getContent c m true f).1 = .ok v) :
    (msgDecode c m st f).1 = .done ∧ (msgDecode c m st f).2.2.raw = some v := by
  cases hr : m.raw with
  | none =>
    unfold getContent at h
    simp [hr] at h
  | some raw =>
    cases he : raw.isEmpty
    · have hg : getContent c m st f = (.ok v, (getContent c m st f).2) := by
        rw [getContent_st_eq st h]
        exact Prod.ext h rfl
      have hmd : msgDecode c m st f = setContent (getContent c m st f).2 { m with ce := none } (some v) .verr := by
        unfold msgDecode
        simp only [hr, he, Bool.false_eq_true, if_false]
        rw [hg]
      rw [hmd, setContent_identity hi1 { m with ce := none } v .verr kind_eff_identityB]
      exact ⟨rfl, by rw [fixLen_raw]⟩
    · have hraw : raw = [] := List.isEmpty_iff.mp he
      subst hraw
      have hv : v = [] := get_empty hi hok hr (fun x hce hx hid => hf [] x hr hce hx hid) h
      subst hv
      have hmd : msgDecode c m st f = (.done, c, m) := by
        unfold msgDecode
        simp only [hr, List.isEmpty_nil, if_true]
      rw [hmd]
      exact ⟨rfl, hr⟩

private theorem msgEncode_state (c : Cache) (m : Msg) (cd : Bytes) (f : Res)
    (h : (setContent c { m with ce := some cd } m.raw f).1 = .done) :
    (msgEncode c m cd f).2 = (setContent c { m with ce := some cd } m.raw f).2 := by
  unfold msgEncode
  generalize setContent c { m with ce := some cd } m.raw f = p at h ⊢
  obtain ⟨r, c', m'⟩ := p
  simp only at h
  subst h
  simp only
  split <;> rfl

/-- `Message.encode(cd)` on a message with raw body `v`: the content reads as `v` afterwards; the call reports
    ValueError exactly for an unknown coding -/
private theorem msgEncode_spec {C : Codecs} {c : Cache} (hi : Inv C c) (m : Msg) (v cd : Bytes) (f : Res)
    (hr : m.raw = some v) (hok : OkName (effName (some cd)))
    (hf : identityEnc.contains (effName (some cd)) = false → f = C.enc (effName (some cd)) strictB v) :
    (∀ st f2, (getContent (msgEncode c m cd f).2.1 (msgEncode c m cd f).2.2 st f2).1 = .ok v) ∧
    (kindOf (effName (some cd)) = .unknown → (msgEncode c m cd f).1 = .verr) ∧
    (kindOf (effName (some cd)) ≠ .unknown → (msgEncode c m cd f).1 = .done) := by
  obtain ⟨raw, ce, te, cl, tr, ver⟩ := m
  simp only at hr
  subst hr
  obtain ⟨h1, h2⟩ := get_after_set hi ⟨some v, some cd, te, cl, tr, ver⟩ v f hok hf
  have hst : (msgEncode c ⟨some v, ce, te, cl, tr, ver⟩ cd f).2 = (setContent c ⟨some v, some cd, te, cl, tr, ver⟩ (some v) f).2 :=
    msgEncode_state c ⟨some v, ce, te, cl, tr, ver⟩ cd f h1
  have hme : ∀ p, setContent c ⟨some v, some cd, te, cl, tr, ver⟩ (some v) f = p →
      msgEncode c ⟨some v, ce, te, cl, tr, ver⟩ cd f =
        (match p with
         | (.done, c', m') => if m'.ce.isNone then (.verr, c', m') else (.done, c', m')
         | (r, c', m') => (r, c', m')) := by
    intro p hp
    rw [← hp]
    rfl
  refine ⟨?_, ?_, ?_⟩
  · intro st f2
    rw [hst]
    exact h2 st f2
  · intro hk
    have hni : kindOf (effName (some cd)) ≠ .identity := by rw [hk]; decide
    rw [hme _ (setContent_unknown hi ⟨some v, some cd, te, cl, tr, ver⟩ v f hk (hf (not_identity_contains hni)))]
    simp [fixLen_ce]
  · intro hnu
    rcases hok with hk | hk | hk
    · rw [hme _ (setContent_identity hi ⟨some v, some cd, te, cl, tr, ver⟩ v f hk)]
      simp [fixLen_ce]
    · have hni : kindOf (effName (some cd)) ≠ .identity := by rw [hk]; decide
      obtain ⟨x, c', hs, _⟩ := setContent_cached hi ⟨some v, some cd, te, cl, tr, ver⟩ v f hk (hf (not_identity_contains hni))
      rw [hme _ hs]
      simp [fixLen_ce]
    · exact absurd hk hnu

private theorem step_mdecode (C : Codecs) (s : State) (i st : Bool) :
    step C s (.mdecode i st) =
      (({ s with cache := (msgDecode s.cache (s.msg i) st (freshOf C s (.mdecode i st))).2.1 } : State).setMsg i
          (msgDecode s.cache (s.msg i) st (freshOf C s (.mdecode i st))).2.2,
        (msgDecode s.cache (s.msg i) st (freshOf C s (.mdecode i st))).1) := rfl

private theorem step_mencode (C : Codecs) (s : State) (i : Bool) (cd : Bytes) :
    step C s (.mencode i cd) =
      (({ s with cache := (msgEncode s.cache (s.msg i) cd (freshOf C s (.mencode i cd))).2.1 } : State).setMsg i
          (msgEncode s.cache (s.msg i) cd (freshOf C s (.mencode i cd))).2.2,
        (msgEncode s.cache (s.msg i) cd (freshOf C s (.mencode i cd))).1) := rfl

/-- **C31 (decode, then re-encode).** In every state reachable by any history: if a message (header coding an
    identity name, a compressed coding or unknown, any case) reads as content `v`, then after `Message.decode()`
    followed by `Message.encode(cd)` — `cd` an identity name, a compressed coding or an unknown name — it still
    reads as `v`.  `decode` succeeds; `encode` reports ValueError exactly when `cd` is unknown (the body is
    then kept unencoded). -/
theorem decode_encode_preserves (C : Codecs) (s0 : State) (h0 : s0.cache = none) (ops : List Op)
    (i st : Bool) (v cd : Bytes)
    (hhdr : OkName (effName (((run C s0 ops).1.msg i).ce))) (hcd : OkName (effName (some cd)))
    (hget : (step C (run C s0 ops).1 (.getContent i true)).2 = .ok v) :
    (step C (run C s0 ops).1 (.mdecode i st)).2 = .done ∧
    (kindOf (effName (some cd)) = .unknown →
      (step C (step C (run C s0 ops).1 (.mdecode i st)).1 (.mencode i cd)).2 = .verr) ∧
    (kindOf (effName (some cd)) ≠ .unknown →
      (step C (step C (run C s0 ops).1 (.mdecode i st)).1 (.mencode i cd)).2 = .done) ∧
    (step C (step C (step C (run C s0 ops).1 (.mdecode i st)).1 (.mencode i cd)).1 (.getContent i true)).2 = .ok v := by
  have hi := run_inv C s0 h0 ops
  generalize (run C s0 ops).1 = s at hi hhdr hget
  -- the uncached call named for get_content / Message.decode
  have hfg : ∀ raw x, (s.msg i).raw = some raw → (s.msg i).ce = some x → x.isEmpty = false →
      identityDec.contains (asciiLower x) = false →
      freshOf C s (.getContent i true) = C.dec (asciiLower x) strictB raw := by
    intro raw x hr hce hx hid
    simp only [freshOf, need, needGet, hr, hce, hx, Bool.false_eq_true, if_false]
    rw [needDec_of strictB raw hid]
  have hsame : ∀ st', (s.msg i).raw ≠ none → (∀ raw, (s.msg i).raw = some raw → raw.isEmpty = false) →
      freshOf C s (.mdecode i st') = freshOf C s (.getContent i true) := by
    intro st' _ hne
    cases hr : (s.msg i).raw with
    | none => simp [freshOf, need, needGet, hr]
    | some raw => simp [freshOf, need, hr, hne raw hr]
  rw [step_get] at hget
  -- split on the raw body: missing is impossible, empty makes decode a no-op, otherwise decode = get + identity set
  have hdec : (msgDecode s.cache (s.msg i) st (freshOf C s (.mdecode i st))).1 = .done ∧
      (msgDecode s.cache (s.msg i) st (freshOf C s (.mdecode i st))).2.2.raw = some v := by
    cases hr : (s.msg i).raw with
    | none =>
      unfold getContent at hget
      simp [hr] at hget
    | some raw =>
      cases he : raw.isEmpty
      · have hfe : freshOf C s (.mdecode i st) = freshOf C s (.getContent i true) :=
          hsame st (by rw [hr]; simp) (by intro r hr'; rw [hr] at hr'; cases hr'; exact he)
        rw [hfe]
        apply msgDecode_spec hi (s.msg i) st _ v hhdr hfg _ hget
        have := step_inv C s (.getContent i st) hi
        have hfe2 : freshOf C s (.getContent i st) = freshOf C s (.getContent i true) := by
          simp [freshOf, need]
        simpa [step, stepWith, hfe2] using this
      · -- empty raw body: `Message.decode` returns at once, whatever `fresh` is
        have hraw : raw = [] := List.isEmpty_iff.mp he
        subst hraw
        have hv : v = [] := get_empty hi hhdr hr (fun x hce hx hid => hfg [] x hr hce hx hid) hget
        subst hv
        have hmd : msgDecode s.cache (s.msg i) st (freshOf C s (.mdecode i st)) = (.done, s.cache, s.msg i) := by
          unfold msgDecode
          simp only [hr, List.isEmpty_nil, if_true]
        rw [hmd]
        exact ⟨rfl, hr⟩
  have hi1 := step_inv C s (.mdecode i st) hi
  rw [step_mdecode] at hi1 ⊢
  simp only [setMsg_cache] at hi1
  refine ⟨hdec.1, ?_⟩
  generalize hs1 : (({ s with cache := (msgDecode s.cache (s.msg i) st (freshOf C s (.mdecode i st))).2.1 } : State).setMsg i
      (msgDecode s.cache (s.msg i) st (freshOf C s (.mdecode i st))).2.2) = s1
  have hc1 : Inv C s1.cache := by rw [← hs1, setMsg_cache]; exact hi1
  have hr1 : (s1.msg i).raw = some v := by rw [← hs1, setMsg_msg]; exact hdec.2
  have hf2 : identityEnc.contains (effName (some cd)) = false →
      freshOf C s1 (.mencode i cd) = C.enc (effName (some cd)) strictB v := by
    intro hid
    simp only [freshOf, need, hr1]
    rw [needEnc_of strictB v hid]
    rfl
  obtain ⟨hg, hu, hd⟩ := msgEncode_spec hc1 (s1.msg i) v cd (freshOf C s1 (.mencode i cd)) hr1 hcd hf2
  rw [step_mencode]
  refine ⟨hu, hd, ?_⟩
  rw [step_get]
  simp only [setMsg_cache, setMsg_msg]
  exact hg true _

/-! ### non-vacuity: the hypotheses are satisfiable, the model is not constant (kernel-evaluated on `toy`) -/

private def brN : Bytes := [0x62, 0x72]                -- "br"
private def brU : Bytes := [0x42, 0x52]                -- "BR"
private def gzipN : Bytes := [0x67, 0x7a, 0x69, 0x70]  -- "gzip"
private def fooN : Bytes := [0x66, 0x6f, 0x6f]         -- "foo"
private def utf8N : Bytes := [0x75, 0x74, 0x66, 0x38]  -- "utf8"
/-- message 0: peer body `1 :: [7, 8]` (toy-compressed `[7, 8]`) under Content-Encoding "BR" -/
private def okState : State := ⟨none, ⟨some [1, 7, 8], some brU, false, none, .absent, .h11⟩, emptyMsg⟩

-- kinds really occur, and `OkName` covers absent / empty / mixed-case / unknown headers
example : kindOf gzipN = .cached ∧ kindOf brN = .cached ∧ kindOf identityB = .identity ∧ kindOf fooN = .unknown ∧
    kindOf utf8N = .pytext := by decide
example : OkName (effName none) ∧ OkName (effName (some [])) ∧ OkName (effName (some brU)) ∧ OkName (effName (some fooN)) := by
  refine ⟨Or.inl ?_, Or.inl ?_, Or.inr (Or.inl ?_), Or.inr (Or.inr ?_)⟩ <;> decide
-- the cache is really used: reading fills it, and the following assignment is a hit that keeps the peer's bytes
example : (run toy okState [.getContent false true]).1.cache = some ⟨[1, 7, 8], brN, strictB, [7, 8]⟩ := by decide
example : (run toy okState [.getContent false true]).2 = [.ok [7, 8]] := by decide
example : (run toy ⟨none, ⟨some [2, 7], some brN, false, none, .absent, .h11⟩, emptyMsg⟩
    [.getContent false true, .setContent false (some [7]), .getContent false true]).1.m0.raw = some [2, 7] := by decide
-- … while an interleaved call on another body evicts the entry and the canonical stream is stored
example : (run toy ⟨none, ⟨some [2, 7], some brN, false, none, .absent, .h11⟩, emptyMsg⟩
    [.getContent false true, .enc [9] gzipN strictB, .setContent false (some [7]), .getContent false true]).1.m0.raw
    = some [1, 7] := by decide
-- the decoder does reject something; text codecs let TypeError through and leave the message alone
example : (step toy okState (.dec [3, 3] brN strictB)).2 = .verr := by decide
example : (step toy ⟨none, ⟨some [5], some utf8N, false, some 1, .absent, .h11⟩, emptyMsg⟩ (.setContent false (some [6]))) =
    (⟨none, ⟨some [5], some utf8N, false, some 1, .absent, .h11⟩, emptyMsg⟩, .terr) := by decide
-- hypotheses of `decode_encode_preserves` hold on a non-trivial state, and the pipeline does what it says
example : (step toy okState (.getContent false true)).2 = .ok [7, 8] := by decide
example : (run toy okState [.mdecode false true, .mencode false gzipN, .getContent false true]).2 =
    [.done, .done, .ok [7, 8]] := by decide
example : (run toy okState [.mdecode false true, .mencode false fooN, .getContent false true]) =
    (⟨some ⟨[1, 7, 8], brN, strictB, [7, 8]⟩, ⟨some [7, 8], none, false, some 2, .absent, .h11⟩, emptyMsg⟩, [.done, .verr, .ok [7, 8]]) := by decide
-- the guards are satisfiable and discriminate: strict history vs. the F-C31a history
example : strictHist toy okState [.getContent false true, .setContent false (some [7, 8])] = true := by decide
example : strictHist toy cexState [.getContent false true] = false := by decide
example : lenientHit toy (run toy cexState [.getContent false true]).1.cache [] brN = true := by decide
example : lenientHit toy (run toy okState [.getContent false true]).1.cache [7, 8] brN = false := by decide
-- Content-Length: written without Transfer-Encoding, untouched with it
example : ((step toy okState (.setContent false (some [4, 4, 4]))).1.m0.cl,
    (step toy ⟨none, ⟨none, some brN, true, some 99, .absent, .h11⟩, emptyMsg⟩ (.setContent false (some [4]))).1.m0.cl) =
    (some 4, some 99) := by decide

/-! ## round 3: statements over whole histories of get / set / decode / encode ops -/

private theorem run_snoc (C : Codecs) (ops : List Op) (op : Op) :
    ∀ s, (run C s (ops ++ [op])).1 = (step C (run C s ops).1 op).1 := by
  induction ops with
  | nil => intro s; rfl
  | cons o ops ih => intro s; simp only [List.cons_append, run]; exact ih _

private theorem setMsg_msg_ne (s : State) {i j : Bool} (m : Msg) (h : i ≠ j) : (s.setMsg i m).msg j = s.msg j := by
  cases i <;> cases j <;> first | rfl | exact absurd rfl h

private theorem setMsg_self (s : State) (i : Bool) : (({ s with cache := s.cache } : State).setMsg i (s.msg i)) = s := by
  cases i <;> rfl

/-- **C31 (isolation).** An op that is not a setter / decode / encode / mutator of message `j` — i.e. any op on the
    other message, any `get_content`, any module-level `encoding.decode/encode` — leaves message `j` (raw body,
    Content-Encoding, Transfer-Encoding, Content-Length) exactly as it was, in every state and whatever the codecs
    return.  Messages are coupled only through the shared cache. -/
theorem message_ops_isolated (C : Codecs) (s : State) (op : Op) (j : Bool) (h : op.writes j = false) :
    (step C s op).1.msg j = s.msg j := by
  cases op with
  | dec x c e => rfl
  | enc d c e => rfl
  | getContent i st => rfl
  | setContent i v =>
    have hij : i ≠ j := by intro e; subst e; simp [Op.writes] at h
    rw [step_set, setMsg_msg_ne _ _ hij]; rfl
  | mdecode i st =>
    have hij : i ≠ j := by intro e; subst e; simp [Op.writes] at h
    rw [step_mdecode, setMsg_msg_ne _ _ hij]; rfl
  | mencode i cd =>
    have hij : i ≠ j := by intro e; subst e; simp [Op.writes] at h
    rw [step_mencode, setMsg_msg_ne _ _ hij]; rfl
  | setRaw i v =>
    have hij : i ≠ j := by intro e; subst e; simp [Op.writes] at h
    exact setMsg_msg_ne _ _ hij
  | setCe i v =>
    have hij : i ≠ j := by intro e; subst e; simp [Op.writes] at h
    exact setMsg_msg_ne _ _ hij
  | setTe i on =>
    have hij : i ≠ j := by intro e; subst e; simp [Op.writes] at h
    exact setMsg_msg_ne _ _ hij
  | setCl i n =>
    have hij : i ≠ j := by intro e; subst e; simp [Op.writes] at h
    exact setMsg_msg_ne _ _ hij
  | setTr i t =>
    have hij : i ≠ j := by intro e; subst e; simp [Op.writes] at h
    exact setMsg_msg_ne _ _ hij
  | setVer i w =>
    have hij : i ≠ j := by intro e; subst e; simp [Op.writes] at h
    exact setMsg_msg_ne _ _ hij

/-- lifted over a whole sub-history -/
private theorem run_frame (C : Codecs) (j : Bool) (tail : List Op) :
    ∀ s, (∀ o ∈ tail, o.writes j = false) → (run C s tail).1.msg j = s.msg j := by
  induction tail with
  | nil => intro s _; rfl
  | cons o tail ih =>
    intro s h
    simp only [run]
    rw [ih _ (fun o' ho' => h o' (List.mem_cons_of_mem _ ho')), message_ops_isolated C s o j (h o List.mem_cons_self)]

/-- **C31 (get_content never writes).** `get_content` changes no message at all (only, possibly, the cache).
    NOTE: this holds by the SHAPE of the model (`stepWith` of `.getContent` returns `{ s with cache := c' }`, proof `rfl`);
    it says something about mitmproxy only through the tie: both message states are compared with the real objects
    after every op, `get` ops included. -/
theorem get_content_pure_on_message (C : Codecs) (s : State) (i st : Bool) :
    (step C s (.getContent i st)).1.m0 = s.m0 ∧ (step C s (.getContent i st)).1.m1 = s.m1 := ⟨rfl, rfl⟩

private theorem fresh_get (C : Codecs) (s : State) (i st : Bool) (raw x : Bytes)
    (hr : (s.msg i).raw = some raw) (hce : (s.msg i).ce = some x) (hx : x.isEmpty = false)
    (hid : identityDec.contains (asciiLower x) = false) :
    freshOf C s (.getContent i st) = C.dec (asciiLower x) strictB raw := by
  simp only [freshOf, need, needGet, hr, hce, hx, Bool.false_eq_true, if_false]
  rw [needDec_of strictB raw hid]

/-- under the invariant `get_content` returns the cache-free reading of the message -/
private theorem getContent_res {C : Codecs} {c : Cache} (hi : Inv C c) (m : Msg) (st : Bool) (f : Res)
    (hf : ∀ raw x, m.raw = some raw → m.ce = some x → x.isEmpty = false →
      identityDec.contains (asciiLower x) = false → f = C.dec (asciiLower x) strictB raw) :
    (getContent c m st f).1 = contentOf C m st := by
  unfold getContent contentOf
  cases hr : m.raw with
  | none => rfl
  | some raw =>
    cases hce : m.ce with
    | none => rfl
    | some x =>
      cases hx : x.isEmpty
      · simp only [hx, Bool.false_eq_true, if_false]
        have h := decodeStep_res hi raw x strictB f (hf raw x hr hce hx)
        generalize decodeStep c raw x strictB f = p at h
        obtain ⟨r, c'⟩ := p
        simp only at h
        rw [← h]
        cases r <;> cases st <;> rfl
      · simp only [hx, if_true]

private theorem get_transparent_inv {C : Codecs} {s : State} (hi : Inv C s.cache) (i st : Bool) :
    (step C s (.getContent i st)).2 = contentOf C (s.msg i) st := by
  rw [step_get]
  exact getContent_res hi (s.msg i) st _ (fun raw x hr hce hx hid => fresh_get C s i st raw x hr hce hx hid)

/-- **C31 (the cache is transparent for `get_content`).** In every state reachable by any history, `get_content`
    (strict or not, any header, any body incl. missing) returns exactly `contentOf` — what a process with no cache
    computes from the message alone: bytes, `None`, ValueError or TypeError alike. -/
theorem get_content_transparent (C : Codecs) (s0 : State) (h0 : s0.cache = none) (ops : List Op) (i st : Bool) :
    (step C (run C s0 ops).1 (.getContent i st)).2 = contentOf C ((run C s0 ops).1.msg i) st :=
  get_transparent_inv (run_inv C s0 h0 ops) i st

/-- **C31 (get_content is idempotent).** After any history, two consecutive `get_content` calls return the same
    result, and neither changes any message (the cache may change). -/
theorem get_content_idempotent (C : Codecs) (s0 : State) (h0 : s0.cache = none) (ops : List Op) (i st : Bool) :
    (step C (step C (run C s0 ops).1 (.getContent i st)).1 (.getContent i st)).2 =
      (step C (run C s0 ops).1 (.getContent i st)).2 ∧
    (step C (step C (run C s0 ops).1 (.getContent i st)).1 (.getContent i st)).1.m0 = (run C s0 ops).1.m0 ∧
    (step C (step C (run C s0 ops).1 (.getContent i st)).1 (.getContent i st)).1.m1 = (run C s0 ops).1.m1 := by
  have hi := run_inv C s0 h0 ops
  generalize (run C s0 ops).1 = s at hi
  refine ⟨?_, rfl, rfl⟩
  rw [get_transparent_inv (step_inv C s _ hi) i st, get_transparent_inv hi i st]
  rfl

/-- **C31 (no result depends on earlier calls — `get_content`).** Two arbitrary histories (different ops, different
    bodies, different other message) that leave message `i` resp. `i'` in the same state read the same content:
    the coupling through the cache is not observable. -/
theorem get_content_history_independent (C : Codecs) (s0 s0' : State) (h0 : s0.cache = none) (h0' : s0'.cache = none)
    (ops ops' : List Op) (i i' st : Bool) (hm : (run C s0 ops).1.msg i = (run C s0' ops').1.msg i') :
    (step C (run C s0 ops).1 (.getContent i st)).2 = (step C (run C s0' ops').1 (.getContent i' st)).2 := by
  rw [get_content_transparent C s0 h0, get_content_transparent C s0' h0', hm]

/-! ### assigning twice -/

private theorem fixLen_again (m : Msg) (v : Bytes) (h : m.raw = some v) :
    fixLen { fixLen m with raw := some v } = fixLen m := by
  obtain ⟨raw, ce, te, cl, tr, ver⟩ := m
  simp only at h
  subst h
  cases te <;> rfl

private theorem encodeStep_again {C : Codecs} {c : Cache} (_hi : Inv C c) (d coding er : Bytes) (fresh : Res)
    (hk : kindOf (asciiLower coding) = .cached) (hf : fresh = C.enc (asciiLower coding) er d) (f2 : Res) :
    encodeStep (encodeStep c d coding er fresh).2 d coding er f2 = encodeStep c d coding er fresh := by
  have hcd := (kind_cached_iff _).mp hk
  have hid := (cached_facts hcd).1
  obtain ⟨x, hx⟩ := C.enc_total (asciiLower coding) er d hk
  unfold encodeStep
  dsimp only
  rw [tbl_identity, tbl_cached]
  cases h : encHit c d (asciiLower coding) er with
  | some y => simp only [h]
  | none =>
    simp only [hid, hf, hx, hcd, Bool.false_eq_true, if_false, if_true]
    simp [encHit]

private theorem setContent_again {C : Codecs} {c : Cache} (hi : Inv C c) (m : Msg) (v : Bytes) (fresh : Res)
    (hok : OkName (effName m.ce))
    (hf : identityEnc.contains (effName m.ce) = false → fresh = C.enc (effName m.ce) strictB v) (f2 : Res) :
    setContent (setContent c m (some v) fresh).2.1 (setContent c m (some v) fresh).2.2 (some v) f2 =
      (.done, (setContent c m (some v) fresh).2.1, (setContent c m (some v) fresh).2.2) ∧
    OkName (effName (setContent c m (some v) fresh).2.2.ce) := by
  rcases hok with hk | hk | hk
  · rw [setContent_identity hi m v fresh hk]
    simp only
    have hk' : kindOf (effName (fixLen { m with raw := some v }).ce) = .identity := by rw [fixLen_ce]; exact hk
    rw [setContent_identity hi _ v f2 hk', fixLen_again _ v rfl]
    exact ⟨rfl, Or.inl hk'⟩
  · have hni : kindOf (effName m.ce) ≠ .identity := by rw [hk]; decide
    have hf' := hf (not_identity_contains hni)
    obtain ⟨x, c', he, _, _, _⟩ := encodeStep_cachedKind hi v (ceOrIdentity m.ce) strictB fresh hk hf'
    have hs : setContent c m (some v) fresh = (.done, c', fixLen { m with raw := some x }) := by
      unfold setContent
      simp only
      rw [he]
    have he2 : encodeStep c' v (ceOrIdentity m.ce) strictB f2 = (.ok x, c') := by
      have := encodeStep_again hi v (ceOrIdentity m.ce) strictB fresh hk hf' f2
      rw [he] at this
      exact this
    rw [hs]
    simp only
    have hs2 : setContent c' (fixLen { m with raw := some x }) (some v) f2 =
        (.done, c', fixLen { fixLen { m with raw := some x } with raw := some x }) := by
      unfold setContent
      simp only [fixLen_ce]
      rw [he2]
    rw [hs2, fixLen_again _ x rfl]
    exact ⟨rfl, Or.inr (Or.inl (by rw [fixLen_ce]; exact hk))⟩
  · have hni : kindOf (effName m.ce) ≠ .identity := by rw [hk]; decide
    rw [setContent_unknown hi m v fresh hk (hf (not_identity_contains hni))]
    simp only
    have hk' : kindOf (effName (fixLen { m with raw := some v, ce := none }).ce) = .identity := by
      rw [fixLen_ce]; exact kind_eff_identityB
    rw [setContent_identity hi _ v f2 hk', fixLen_again _ v rfl]
    exact ⟨rfl, Or.inl hk'⟩

private theorem set_get_inv {C : Codecs} {s : State} (hi : Inv C s.cache) (i : Bool) (v : Bytes)
    (hok : OkName (effName (s.msg i).ce)) :
    (step C s (.setContent i (some v))).2 = .done ∧
    (step C (step C s (.setContent i (some v))).1 (.getContent i true)).2 = .ok v := by
  obtain ⟨h1, h2⟩ := get_after_set hi (s.msg i) v (freshOf C s (.setContent i (some v))) hok (fresh_set C s i v)
  rw [step_set]
  refine ⟨h1, ?_⟩
  rw [step_get]
  simp only [setMsg_cache, setMsg_msg]
  exact h2 true _

private theorem set_again_inv {C : Codecs} {s : State} (hi : Inv C s.cache) (i : Bool) (v : Bytes)
    (hok : OkName (effName (s.msg i).ce)) :
    step C (step C s (.setContent i (some v))).1 (.setContent i (some v)) = ((step C s (.setContent i (some v))).1, .done) ∧
    OkName (effName ((step C s (.setContent i (some v))).1.msg i).ce) := by
  have key := fun f2 => setContent_again hi (s.msg i) v (freshOf C s (.setContent i (some v))) hok (fresh_set C s i v) f2
  generalize ha : (step C s (.setContent i (some v))).1 = a at *
  have hc : a.cache = (setContent s.cache (s.msg i) (some v) (freshOf C s (.setContent i (some v)))).2.1 := by
    rw [← ha, step_set, setMsg_cache]
  have hm : a.msg i = (setContent s.cache (s.msg i) (some v) (freshOf C s (.setContent i (some v)))).2.2 := by
    rw [← ha, step_set, setMsg_msg]
  constructor
  · rw [step_set, hc, hm, (key _).1, ← hc, ← hm, setMsg_self]
  · rw [hm]; exact (key .verr).2

/-- **C31 (set_content is idempotent).** After any history, under an identity / compressed / unknown coding,
    `set_content(v)` twice is exactly `set_content(v)` once: the second call completes and leaves BOTH messages and
    the cache precisely as the first left them (same raw bytes — for a compressed coding the second call is served
    from the entry the first one left; same headers, same Content-Length). -/
theorem set_content_idempotent (C : Codecs) (s0 : State) (h0 : s0.cache = none) (ops : List Op) (i : Bool) (v : Bytes)
    (hok : OkName (effName (((run C s0 ops).1.msg i).ce))) :
    step C (step C (run C s0 ops).1 (.setContent i (some v))).1 (.setContent i (some v)) =
      ((step C (run C s0 ops).1 (.setContent i (some v))).1, .done) :=
  (set_again_inv (run_inv C s0 h0 ops) i v hok).1

/-- **C31 (the last assignment wins).** After any history, `set_content(v1)` followed by `set_content(v2)`
    completes and the message then reads `v2` — nothing of `v1` survives, whatever the cache held. -/
theorem set_set_last_wins (C : Codecs) (s0 : State) (h0 : s0.cache = none) (ops : List Op) (i : Bool) (v1 v2 : Bytes)
    (hok : OkName (effName (((run C s0 ops).1.msg i).ce))) :
    (step C (step C (run C s0 ops).1 (.setContent i (some v1))).1 (.setContent i (some v2))).2 = .done ∧
    (step C (step C (step C (run C s0 ops).1 (.setContent i (some v1))).1 (.setContent i (some v2))).1
      (.getContent i true)).2 = .ok v2 := by
  have hi := run_inv C s0 h0 ops
  exact set_get_inv (step_inv C _ _ hi) i v2 (set_again_inv hi i v1 hok).2

/-! ### `Message.decode` twice -/

private theorem decodeStep_err_cache (c : Cache) (x coding er : Bytes) (f : Res)
    (h : ∀ d, (decodeStep c x coding er f).1 ≠ .ok d) : (decodeStep c x coding er f).2 = c := by
  unfold decodeStep at h ⊢
  dsimp only at h ⊢
  cases hh : decHit c x (asciiLower coding) er with
  | some d => rfl
  | none =>
    simp only [hh] at h ⊢
    generalize (if identityDec.contains (asciiLower coding) = true then Res.ok x else f) = r at h ⊢
    cases r with
    | ok d => exact absurd rfl (h d)
    | _ => rfl

/-- under an identity / compressed / unknown name `encoding.decode` yields bytes, or ValueError with the cache untouched -/
private theorem decodeStep_shape {C : Codecs} {c : Cache} (hi : Inv C c) (x coding er : Bytes) (f : Res)
    (hok : OkName (asciiLower coding))
    (hf : identityDec.contains (asciiLower coding) = false → f = C.dec (asciiLower coding) er x) :
    (∃ d c', decodeStep c x coding er f = (.ok d, c')) ∨ decodeStep c x coding er f = (.verr, c) := by
  have hres := decodeStep_res hi x coding er f hf
  have hu : (∃ d, uncachedDec C coding er x = .ok d) ∨ uncachedDec C coding er x = .verr := by
    unfold uncachedDec
    dsimp only
    rcases hok with hk | hk | hk
    · left; exact ⟨x, by rw [(kind_identity_iff _).mp hk]; rfl⟩
    · rw [(cached_facts ((kind_cached_iff _).mp hk)).1]
      simp only [Bool.false_eq_true, if_false]
      exact C.dec_shape _ _ _ hk
    · have hni : kindOf (asciiLower coding) ≠ .identity := by rw [hk]; decide
      have hidd : identityDec.contains (asciiLower coding) = false := by
        have := not_identity_contains hni
        rwa [tbl_identity] at this
      right
      rw [hidd, C.unknown_dec _ _ _ hk]
      rfl
  rcases hu with ⟨d, hd⟩ | hv
  · left
    exact ⟨d, (decodeStep c x coding er f).2, Prod.ext (by rw [hres, hd]) rfl⟩
  · right
    have h1 : (decodeStep c x coding er f).1 = .verr := by rw [hres, hv]
    exact Prod.ext h1 (decodeStep_err_cache c x coding er f (by intro d; rw [h1]; simp))

private theorem getContent_shape {C : Codecs} {c : Cache} (hi : Inv C c) (m : Msg) (st : Bool) (f : Res) (raw : Bytes)
    (hr : m.raw = some raw) (hok : OkName (effName m.ce))
    (hf : ∀ x, m.ce = some x → x.isEmpty = false → identityDec.contains (asciiLower x) = false →
      f = C.dec (asciiLower x) strictB raw) :
    (∃ d c', getContent c m st f = (.ok d, c')) ∨ getContent c m st f = (.verr, c) := by
  unfold getContent
  simp only [hr]
  cases hce : m.ce with
  | none => left; exact ⟨raw, c, rfl⟩
  | some x =>
    simp only
    cases hx : x.isEmpty
    · simp only [Bool.false_eq_true, if_false]
      have hn : effName m.ce = asciiLower x := by simp [effName, ceOrIdentity, hce, hx]
      rw [hn] at hok
      rcases decodeStep_shape hi raw x strictB f hok (hf x hce hx) with ⟨d, c', hd⟩ | hv
      · left; rw [hd]; exact ⟨d, c', rfl⟩
      · rw [hv]
        cases st
        · left; exact ⟨raw, c, rfl⟩
        · right; rfl
    · left; simp only [if_true]; exact ⟨raw, c, rfl⟩

private theorem fixLen_idem (m : Msg) : fixLen (fixLen m) = fixLen m := by
  obtain ⟨raw, ce, te, cl, tr, ver⟩ := m
  cases te <;> rfl

/-- a message without Content-Encoding whose Content-Length is already in order is a fixed point of `Message.decode` -/
private theorem msgDecode_plain {C : Codecs} {c : Cache} (hi : Inv C c) (m : Msg) (d : Bytes)
    (hr : m.raw = some d) (hce : m.ce = none) (hfix : fixLen m = m) (st : Bool) (f : Res) :
    msgDecode c m st f = (.done, c, m) := by
  unfold msgDecode
  simp only [hr]
  cases hd : d.isEmpty
  · simp only [Bool.false_eq_true, if_false]
    have hg : getContent c m st f = (.ok d, c) := by
      unfold getContent
      simp only [hr, hce]
    rw [hg]
    simp only
    have hm : (⟨some d, none, m.te, m.cl, m.tr, m.ver⟩ : Msg) = m := by
      obtain ⟨raw, ce, te, cl, tr, ver⟩ := m
      simp only at hce hr
      subst hce
      subst hr
      rfl
    rw [hm, setContent_identity hi m d .verr (by rw [hce]; exact kind_eff_identityB)]
    have hm2 : ({ m with raw := some d } : Msg) = m := by
      obtain ⟨raw, ce, te, cl, tr, ver⟩ := m
      simp only at hr
      subst hr
      rfl
    rw [hm2, hfix]
  · simp only [if_true]

private theorem msgDecode_again {C : Codecs} {c : Cache} (hi : Inv C c) (m : Msg) (st : Bool) (f : Res)
    (hok : OkName (effName m.ce))
    (hf : ∀ raw x, m.raw = some raw → raw.isEmpty = false → m.ce = some x → x.isEmpty = false →
      identityDec.contains (asciiLower x) = false → f = C.dec (asciiLower x) strictB raw)
    (hi1 : ∀ raw, m.raw = some raw → raw.isEmpty = false → Inv C (getContent c m st f).2) :
    ((msgDecode c m st f).1 = .done ∧
      ∀ f2, msgDecode (msgDecode c m st f).2.1 (msgDecode c m st f).2.2 st f2 =
        (.done, (msgDecode c m st f).2.1, (msgDecode c m st f).2.2)) ∨
    msgDecode c m st f = (.verr, c, m) := by
  cases hr : m.raw with
  | none =>
    left
    have h : ∀ f', msgDecode c m st f' = (.done, c, m) := by intro f'; unfold msgDecode; simp only [hr]
    rw [h f]; exact ⟨rfl, fun f2 => h f2⟩
  | some raw =>
    cases he : raw.isEmpty
    · rcases getContent_shape hi m st f raw hr hok (fun x hce hx hid => hf raw x hr he hce hx hid) with ⟨d, c', hg⟩ | hv
      · left
        have hic : Inv C c' := by
          have := hi1 raw hr he
          rw [hg] at this
          exact this
        have hmd : msgDecode c m st f = (.done, c', fixLen { m with raw := some d, ce := none }) := by
          unfold msgDecode
          simp only [hr, he, Bool.false_eq_true, if_false]
          rw [hg]
          simp only
          rw [setContent_identity hic ⟨some raw, none, m.te, m.cl, m.tr, m.ver⟩ d .verr kind_eff_identityB]
        rw [hmd]
        refine ⟨rfl, fun f2 => ?_⟩
        exact msgDecode_plain hic _ d (by rw [fixLen_raw]) (by rw [fixLen_ce]) (fixLen_idem _) st f2
      · right
        unfold msgDecode
        simp only [hr, he, Bool.false_eq_true, if_false]
        rw [hv]
    · left
      have h : ∀ f', msgDecode c m st f' = (.done, c, m) := by
        intro f'; unfold msgDecode; simp only [hr, he, if_true]
      rw [h f]; exact ⟨rfl, fun f2 => h f2⟩

private theorem fresh_mdecode (C : Codecs) (s : State) (i st : Bool) (raw : Bytes)
    (hr : (s.msg i).raw = some raw) (he : raw.isEmpty = false) :
    freshOf C s (.mdecode i st) = freshOf C s (.getContent i st) := by
  simp [freshOf, need, hr, he]

private theorem mdecode_again_inv {C : Codecs} {s : State} (hi : Inv C s.cache) (i st : Bool)
    (hok : OkName (effName (s.msg i).ce)) :
    step C (step C s (.mdecode i st)).1 (.mdecode i st) = step C s (.mdecode i st) := by
  have key := msgDecode_again hi (s.msg i) st (freshOf C s (.mdecode i st)) hok
    (by
      intro raw x hr he hce hx hid
      rw [fresh_mdecode C s i st raw hr he]
      exact fresh_get C s i st raw x hr hce hx hid)
    (by
      intro raw hr he
      rw [fresh_mdecode C s i st raw hr he]
      have := step_inv C s (.getContent i st) hi
      simpa [step, stepWith] using this)
  rcases key with ⟨hd, hag⟩ | hv
  · generalize ha : step C s (.mdecode i st) = a at *
    have hc : a.1.cache = (msgDecode s.cache (s.msg i) st (freshOf C s (.mdecode i st))).2.1 := by
      rw [← ha, step_mdecode, setMsg_cache]
    have hm : a.1.msg i = (msgDecode s.cache (s.msg i) st (freshOf C s (.mdecode i st))).2.2 := by
      rw [← ha, step_mdecode, setMsg_msg]
    have h2 : a.2 = .done := by rw [← ha, step_mdecode]; exact hd
    rw [step_mdecode, hc, hm, hag, ← hc, ← hm, setMsg_self]
    exact Prod.ext rfl h2.symm
  · have hs : step C s (.mdecode i st) = (s, .verr) := by
      rw [step_mdecode, hv]
      simp only
      rw [setMsg_self]
    rw [hs]
    exact hs

/-- **C31 (Message.decode is idempotent).** After any history, for a message whose coding is an identity name, a
    compressed coding or unknown: a second `Message.decode()` right after the first returns the same outcome and
    leaves both messages and the cache exactly as the first one left them (after a successful decode there is no
    Content-Encoding left, so the second call is a plain re-assignment of the same bytes; after a failed strict
    decode nothing was changed, so the second call fails identically). -/
theorem decode_idempotent (C : Codecs) (s0 : State) (h0 : s0.cache = none) (ops : List Op) (i st : Bool)
    (hok : OkName (effName (((run C s0 ops).1.msg i).ce))) :
    step C (step C (run C s0 ops).1 (.mdecode i st)).1 (.mdecode i st) = step C (run C s0 ops).1 (.mdecode i st) :=
  mdecode_again_inv (run_inv C s0 h0 ops) i st hok

/-! ### longer histories: interleaved ops, nested encodings, Content-Length carried along -/

private theorem run_append (C : Codecs) (a b : List Op) :
    ∀ s, (run C s (a ++ b)).1 = (run C (run C s a).1 b).1 := by
  induction a with
  | nil => intro s; rfl
  | cons o a ih => intro s; simp only [List.cons_append, run]; exact ih _

private theorem run_cons_fst (C : Codecs) (s : State) (op : Op) (tail : List Op) :
    (run C s (op :: tail)).1 = (run C (step C s op).1 tail).1 := rfl

private theorem mdecode_inv {C : Codecs} {s : State} (hi : Inv C s.cache) (i st : Bool) (v : Bytes)
    (hhdr : OkName (effName (s.msg i).ce)) (hget : (step C s (.getContent i true)).2 = .ok v) :
    (step C s (.mdecode i st)).2 = .done ∧ ((step C s (.mdecode i st)).1.msg i).raw = some v := by
  -- the uncached call named for get_content / Message.decode
  have hfg : ∀ raw x, (s.msg i).raw = some raw → (s.msg i).ce = some x → x.isEmpty = false →
      identityDec.contains (asciiLower x) = false →
      freshOf C s (.getContent i true) = C.dec (asciiLower x) strictB raw := by
    intro raw x hr hce hx hid
    simp only [freshOf, need, needGet, hr, hce, hx, Bool.false_eq_true, if_false]
    rw [needDec_of strictB raw hid]
  have hsame : ∀ st', (s.msg i).raw ≠ none → (∀ raw, (s.msg i).raw = some raw → raw.isEmpty = false) →
      freshOf C s (.mdecode i st') = freshOf C s (.getContent i true) := by
    intro st' _ hne
    cases hr : (s.msg i).raw with
    | none => simp [freshOf, need, needGet, hr]
    | some raw => simp [freshOf, need, hr, hne raw hr]
  rw [step_get] at hget
  -- split on the raw body: missing is impossible, empty makes decode a no-op, otherwise decode = get + identity set
  have hdec : (msgDecode s.cache (s.msg i) st (freshOf C s (.mdecode i st))).1 = .done ∧
      (msgDecode s.cache (s.msg i) st (freshOf C s (.mdecode i st))).2.2.raw = some v := by
    cases hr : (s.msg i).raw with
    | none =>
      unfold getContent at hget
      simp [hr] at hget
    | some raw =>
      cases he : raw.isEmpty
      · have hfe : freshOf C s (.mdecode i st) = freshOf C s (.getContent i true) :=
          hsame st (by rw [hr]; simp) (by intro r hr'; rw [hr] at hr'; cases hr'; exact he)
        rw [hfe]
        apply msgDecode_spec hi (s.msg i) st _ v hhdr hfg _ hget
        have := step_inv C s (.getContent i st) hi
        have hfe2 : freshOf C s (.getContent i st) = freshOf C s (.getContent i true) := by
          simp [freshOf, need]
        simpa [step, stepWith, hfe2] using this
      · -- empty raw body: `Message.decode` returns at once, whatever `fresh` is
        have hraw : raw = [] := List.isEmpty_iff.mp he
        subst hraw
        have hv : v = [] := get_empty hi hhdr hr (fun x hce hx hid => hfg [] x hr hce hx hid) hget
        subst hv
        have hmd : msgDecode s.cache (s.msg i) st (freshOf C s (.mdecode i st)) = (.done, s.cache, s.msg i) := by
          unfold msgDecode
          simp only [hr, List.isEmpty_nil, if_true]
        rw [hmd]
        exact ⟨rfl, hr⟩
  rw [step_mdecode, setMsg_msg]
  exact hdec

private theorem fresh_mencode (C : Codecs) (s : State) (i : Bool) (cd v : Bytes) (hr : (s.msg i).raw = some v)
    (hid : identityEnc.contains (effName (some cd)) = false) :
    freshOf C s (.mencode i cd) = C.enc (effName (some cd)) strictB v := by
  simp only [freshOf, need, hr]
  rw [needEnc_of strictB v hid]
  rfl

private theorem mencode_inv {C : Codecs} {s : State} (hi : Inv C s.cache) (i : Bool) (cd v : Bytes)
    (hr : (s.msg i).raw = some v) (hcd : OkName (effName (some cd))) :
    (kindOf (effName (some cd)) = .unknown → (step C s (.mencode i cd)).2 = .verr) ∧
    (kindOf (effName (some cd)) ≠ .unknown → (step C s (.mencode i cd)).2 = .done) ∧
    (∀ st, (step C (step C s (.mencode i cd)).1 (.getContent i st)).2 = .ok v) := by
  obtain ⟨hg, hu, hd⟩ := msgEncode_spec hi (s.msg i) v cd (freshOf C s (.mencode i cd)) hr hcd (fresh_mencode C s i cd v hr)
  rw [step_mencode]
  refine ⟨hu, hd, fun st => ?_⟩
  rw [step_get]
  simp only [setMsg_cache, setMsg_msg]
  exact hg st _

/-- **C31 (decode … encode, history form).** After any history: if a message (coding an identity name / compressed /
    unknown) reads as `v`, then `Message.decode()`, ANY sub-history `tail1` of ops that are not writes to this message
    (reads of it, every op on the other message, module-level encode/decode of arbitrary bodies — all of which may
    replace the cache entry), `Message.encode(cd)`, ANY such `tail2`, and the message still reads as `v`. -/
theorem decode_encode_preserves_interleaved (C : Codecs) (s0 : State) (h0 : s0.cache = none) (ops tail1 tail2 : List Op)
    (i st : Bool) (v cd : Bytes)
    (hhdr : OkName (effName (((run C s0 ops).1.msg i).ce))) (hcd : OkName (effName (some cd)))
    (hget : (step C (run C s0 ops).1 (.getContent i true)).2 = .ok v)
    (ht1 : ∀ o ∈ tail1, o.writes i = false) (ht2 : ∀ o ∈ tail2, o.writes i = false) :
    (step C (run C s0 (ops ++ (.mdecode i st :: tail1) ++ (.mencode i cd :: tail2))).1 (.getContent i true)).2 = .ok v := by
  have hi := run_inv C s0 h0 ops
  rw [run_append, run_append, run_cons_fst, run_cons_fst]
  generalize (run C s0 ops).1 = s at hi hhdr hget ⊢
  obtain ⟨_, hraw⟩ := mdecode_inv hi i st v hhdr hget
  have hia := step_inv C s (.mdecode i st) hi
  generalize (step C s (.mdecode i st)).1 = a at hraw hia ⊢
  have hib := run_inv' C tail1 a hia
  have hrb : ((run C a tail1).1.msg i).raw = some v := by rw [run_frame C i tail1 a ht1]; exact hraw
  generalize (run C a tail1).1 = b at hib hrb ⊢
  obtain ⟨_, _, hg⟩ := mencode_inv hib i cd v hrb hcd
  have hic := step_inv C b (.mencode i cd) hib
  have hcv : contentOf C ((step C b (.mencode i cd)).1.msg i) true = .ok v := by
    rw [← get_transparent_inv hic i true]; exact hg true
  generalize (step C b (.mencode i cd)).1 = c at hic hcv ⊢
  rw [get_transparent_inv (run_inv' C tail2 c hic) i true, run_frame C i tail2 c ht2]
  exact hcv

private theorem msgEncode_cached {C : Codecs} {c : Cache} (hi : Inv C c) (m : Msg) (v cd : Bytes) (f : Res)
    (hr : m.raw = some v) (hk : kindOf (effName (some cd)) = .cached) (hf : f = C.enc (effName (some cd)) strictB v) :
    ∃ x c', msgEncode c m cd f = (.done, c', fixLen ⟨some x, some cd, m.te, m.cl, m.tr, m.ver⟩) ∧
      C.dec (effName (some cd)) strictB x = .ok v := by
  obtain ⟨raw, ce, te, cl, tr, ver⟩ := m
  simp only at hr
  subst hr
  obtain ⟨x, c', hs, h1, _, _⟩ := setContent_cached hi ⟨some v, some cd, te, cl, tr, ver⟩ v f hk hf
  refine ⟨x, c', ?_, h1⟩
  have hme : msgEncode c ⟨some v, ce, te, cl, tr, ver⟩ cd f =
      (match setContent c ⟨some v, some cd, te, cl, tr, ver⟩ (some v) f with
       | (.done, c', m') => if m'.ce.isNone then (.verr, c', m') else (.done, c', m')
       | (r, c', m') => (r, c', m')) := rfl
  rw [hme, hs]
  simp [fixLen_ce]

private theorem mencode_cached_inv {C : Codecs} {s : State} (hi : Inv C s.cache) (i : Bool) (cd v : Bytes)
    (hr : (s.msg i).raw = some v) (hk : kindOf (effName (some cd)) = .cached) :
    ∃ x, (step C s (.mencode i cd)).2 = .done ∧ ((step C s (.mencode i cd)).1.msg i).raw = some x ∧
      ((step C s (.mencode i cd)).1.msg i).ce = some cd ∧ C.dec (effName (some cd)) strictB x = .ok v := by
  have hni : kindOf (effName (some cd)) ≠ .identity := by rw [hk]; decide
  obtain ⟨x, c', he, hd⟩ := msgEncode_cached hi (s.msg i) v cd (freshOf C s (.mencode i cd)) hr hk
    (fresh_mencode C s i cd v hr (not_identity_contains hni))
  refine ⟨x, ?_, ?_, ?_, hd⟩
  · rw [step_mencode, he]
  · rw [step_mencode, setMsg_msg, he, fixLen_raw]
  · rw [step_mencode, setMsg_msg, he, fixLen_ce]

/-- **C31 (encode after encode — "the content is not decoded beforehand").** After any history, on a message with raw
    body `v`: `Message.encode(c1)` then `Message.encode(c2)` (compressed codings, any case) both complete; the body
    after the first is some `x1` that decodes (uncached) to `v` under `c1`; the second WRAPS it: the final body `x2`
    decodes under `c2` to `x1` — so `dec_c1 (dec_c2 raw) = v` — the header names only `c2`, and `get_content` now
    returns the `c1`-encoded bytes `x1`, not `v`. -/
theorem encode_after_encode (C : Codecs) (s0 : State) (h0 : s0.cache = none) (ops : List Op) (i : Bool) (v c1 c2 : Bytes)
    (hr : ((run C s0 ops).1.msg i).raw = some v)
    (hk1 : kindOf (effName (some c1)) = .cached) (hk2 : kindOf (effName (some c2)) = .cached) :
    ∃ x1 x2,
      (step C (run C s0 ops).1 (.mencode i c1)).2 = .done ∧
      ((step C (run C s0 ops).1 (.mencode i c1)).1.msg i).raw = some x1 ∧
      C.dec (effName (some c1)) strictB x1 = .ok v ∧
      (step C (step C (run C s0 ops).1 (.mencode i c1)).1 (.mencode i c2)).2 = .done ∧
      ((step C (step C (run C s0 ops).1 (.mencode i c1)).1 (.mencode i c2)).1.msg i).raw = some x2 ∧
      ((step C (step C (run C s0 ops).1 (.mencode i c1)).1 (.mencode i c2)).1.msg i).ce = some c2 ∧
      C.dec (effName (some c2)) strictB x2 = .ok x1 ∧
      (step C (step C (step C (run C s0 ops).1 (.mencode i c1)).1 (.mencode i c2)).1 (.getContent i true)).2 = .ok x1 := by
  have hi := run_inv C s0 h0 ops
  generalize (run C s0 ops).1 = s at hi hr
  obtain ⟨x1, hd1, hr1, _, hdec1⟩ := mencode_cached_inv hi i c1 v hr hk1
  have hia := step_inv C s (.mencode i c1) hi
  obtain ⟨x2, hd2, hr2, hce2, hdec2⟩ := mencode_cached_inv hia i c2 x1 hr1 hk2
  obtain ⟨_, _, hg⟩ := mencode_inv hia i c2 x1 hr1 (Or.inr (Or.inl hk2))
  exact ⟨x1, x2, hd1, hr1, hdec1, hd2, hr2, hce2, hdec2, hg true⟩

/-! Content-Length along a history -/

private theorem setContent_res_cases (c : Cache) (m : Msg) (v : Bytes) (f : Res) :
    (setContent c m (some v) f).1 = .done ∨ (setContent c m (some v) f).1 = .terr := by
  unfold setContent
  simp only
  generalize encodeStep c v (ceOrIdentity m.ce) strictB f = p
  obtain ⟨r, c'⟩ := p
  cases r <;> simp

private theorem getContent_ne_done (c : Cache) (m : Msg) (st : Bool) (f : Res) : (getContent c m st f).1 ≠ .done := by
  unfold getContent
  cases m.raw with
  | none => simp
  | some raw =>
    cases m.ce with
    | none => simp
    | some x =>
      simp only
      split
      · simp
      · generalize decodeStep c raw x strictB f = p
        obtain ⟨r, c'⟩ := p
        cases r <;> cases st <;> simp

private theorem msgDecode_len (c : Cache) (m : Msg) (st : Bool) (f : Res) (r : Bytes)
    (hr : m.raw = some r) (he : r.isEmpty = false) (hd : (msgDecode c m st f).1 = .done) :
    (m.te = false → ∃ raw, (msgDecode c m st f).2.2.raw = some raw ∧ (msgDecode c m st f).2.2.cl = some raw.length) ∧
    (msgDecode c m st f).2.2.te = m.te := by
  obtain ⟨raw, ce, te, cl, tr, ver⟩ := m
  simp only at hr
  subst hr
  have hnd := getContent_ne_done c ⟨some r, ce, te, cl, tr, ver⟩ st f
  unfold msgDecode at hd ⊢
  simp only [he, Bool.false_eq_true, if_false] at hd ⊢
  generalize getContent c ⟨some r, ce, te, cl, tr, ver⟩ st f = p at hd hnd ⊢
  obtain ⟨r', c'⟩ := p
  cases r' with
  | ok d =>
    simp only at hd ⊢
    have := setContent_len _ _ _ _ hd
    exact ⟨this.1, this.2.2⟩
  | done => exact absurd rfl hnd
  | str => simp at hd
  | verr => simp at hd
  | terr => simp at hd
  | nil => simp at hd

private theorem msgEncode_len (c : Cache) (m : Msg) (cd : Bytes) (f : Res) (r : Bytes)
    (hr : m.raw = some r) (hne : (msgEncode c m cd f).1 ≠ .terr) :
    (m.te = false → ∃ raw, (msgEncode c m cd f).2.2.raw = some raw ∧ (msgEncode c m cd f).2.2.cl = some raw.length) ∧
    (msgEncode c m cd f).2.2.te = m.te := by
  obtain ⟨raw, ce, te, cl, tr, ver⟩ := m
  simp only at hr
  subst hr
  rcases setContent_res_cases c ⟨some r, some cd, te, cl, tr, ver⟩ r f with hdone | hterr
  · have hst : (msgEncode c ⟨some r, ce, te, cl, tr, ver⟩ cd f).2 = (setContent c ⟨some r, some cd, te, cl, tr, ver⟩ (some r) f).2 :=
      msgEncode_state c ⟨some r, ce, te, cl, tr, ver⟩ cd f hdone
    rw [hst]
    have := setContent_len _ _ _ _ hdone
    exact ⟨this.1, this.2.2⟩
  · exfalso
    apply hne
    have hme : msgEncode c ⟨some r, ce, te, cl, tr, ver⟩ cd f =
        (match setContent c ⟨some r, some cd, te, cl, tr, ver⟩ (some r) f with
         | (.done, c', m') => if m'.ce.isNone then (.verr, c', m') else (.done, c', m')
         | (r', c', m') => (r', c', m')) := rfl
    rw [hme]
    generalize setContent c ⟨some r, some cd, te, cl, tr, ver⟩ (some r) f = p at hterr
    obtain ⟨r', c', m'⟩ := p
    simp only at hterr
    subst hterr
    rfl

private theorem assign_len (C : Codecs) (s : State) (i : Bool) (op : Op) (h : completesAssign C s i op)
    (hte : ((step C s op).1.msg i).te = false) :
    ∃ raw, ((step C s op).1.msg i).raw = some raw ∧ ((step C s op).1.msg i).cl = some raw.length := by
  cases op with
  | setContent j v =>
    cases v with
    | none => exact absurd h (by simp [completesAssign])
    | some v =>
      obtain ⟨hj, hd⟩ := h
      subst hj
      rw [step_set] at hd hte ⊢
      simp only [setMsg_msg] at hte ⊢
      obtain ⟨h1, _, h3⟩ := setContent_len _ _ _ _ hd
      rw [h3] at hte
      exact h1 hte
  | mdecode j st =>
    obtain ⟨hj, ⟨r, hr, he⟩, hd⟩ := h
    subst hj
    rw [step_mdecode] at hd hte ⊢
    simp only [setMsg_msg] at hte ⊢
    obtain ⟨h1, h3⟩ := msgDecode_len s.cache (s.msg j) st (freshOf C s (.mdecode j st)) r hr he hd
    rw [h3] at hte
    exact h1 hte
  | mencode j cd =>
    obtain ⟨hj, ⟨r, hr⟩, hne⟩ := h
    subst hj
    rw [step_mencode] at hne hte ⊢
    simp only [setMsg_msg] at hte ⊢
    obtain ⟨h1, h3⟩ := msgEncode_len s.cache (s.msg j) cd (freshOf C s (.mencode j cd)) r hr hne
    rw [h3] at hte
    exact h1 hte
  | dec x c e => exact absurd h (by simp [completesAssign])
  | enc d c e => exact absurd h (by simp [completesAssign])
  | getContent j st => exact absurd h (by simp [completesAssign])
  | setRaw j v => exact absurd h (by simp [completesAssign])
  | setCe j v => exact absurd h (by simp [completesAssign])
  | setTe j on => exact absurd h (by simp [completesAssign])
  | setCl j n => exact absurd h (by simp [completesAssign])
  | setTr j t => exact absurd h (by simp [completesAssign])
  | setVer j w => exact absurd h (by simp [completesAssign])

private theorem core_msg (s : State) (i : Bool) : (s.core).msg i = (s.msg i).core := by cases i <;> rfl

private theorem core_setMsg (s : State) (i : Bool) (m : Msg) : (s.setMsg i m).core = s.core.setMsg i m.core := by
  cases i <;> rfl

/-- an op that does not write message `j`, or that only sets its trailers / version, leaves raw body,
    Content-Encoding, Transfer-Encoding and Content-Length of message `j` alone -/
private theorem body_frame (C : Codecs) (s : State) (op : Op) (j : Bool)
    (h : op.writes j = false ∨ op.setsMeta j = true) : ((step C s op).1.msg j).core = (s.msg j).core := by
  rcases h with h | h
  · rw [message_ops_isolated C s op j h]
  · cases op with
    | setTr i t =>
      have hij : i = j := by simpa [Op.setsMeta] using h
      subst hij
      show ((s.setMsg i { s.msg i with tr := t }).msg i).core = _
      rw [setMsg_msg]; rfl
    | setVer i w =>
      have hij : i = j := by simpa [Op.setsMeta] using h
      subst hij
      show ((s.setMsg i { s.msg i with ver := w }).msg i).core = _
      rw [setMsg_msg]; rfl
    | dec x c e => simp [Op.setsMeta] at h
    | enc d c e => simp [Op.setsMeta] at h
    | setContent i v => simp [Op.setsMeta] at h
    | getContent i st => simp [Op.setsMeta] at h
    | mdecode i st => simp [Op.setsMeta] at h
    | mencode i cd => simp [Op.setsMeta] at h
    | setRaw i v => simp [Op.setsMeta] at h
    | setCe i v => simp [Op.setsMeta] at h
    | setTe i on => simp [Op.setsMeta] at h
    | setCl i n => simp [Op.setsMeta] at h

private theorem run_body_frame (C : Codecs) (j : Bool) (tail : List Op) :
    ∀ s, (∀ o ∈ tail, o.writes j = false ∨ o.setsMeta j = true) → ((run C s tail).1.msg j).core = (s.msg j).core := by
  induction tail with
  | nil => intro s _; rfl
  | cons o tail ih =>
    intro s h
    simp only [run]
    rw [ih _ (fun o' ho' => h o' (List.mem_cons_of_mem _ ho')), body_frame C s o j (h o List.mem_cons_self)]

/-- **C31 (Content-Length, carried along the history — for every value of trailers and version).** After any
    history `ops` from any state (any trailers, any HTTP version on either message): if `op` is a content assignment
    on message `i` that ran to completion (`set_content(bytes)`, `Message.decode` of a non-empty body,
    `Message.encode` of a present body) and the message has no Transfer-Encoding header, then after ANY further
    sub-history `tail` whose ops either do not write message `i` (reads, ops on the other message, module-level codec
    calls) or only (re)set ITS TRAILERS OR VERSION, Content-Length still equals the length of the raw body.  Holds for
    every coding and whatever the codecs return. -/
theorem content_length_invariant (C : Codecs) (s0 : State) (ops tail : List Op) (i : Bool) (op : Op)
    (hop : completesAssign C (run C s0 ops).1 i op)
    (hte : ((step C (run C s0 ops).1 op).1.msg i).te = false)
    (htail : ∀ o ∈ tail, o.writes i = false ∨ o.setsMeta i = true) :
    ∃ raw, ((run C s0 (ops ++ op :: tail)).1.msg i).raw = some raw ∧
      ((run C s0 (ops ++ op :: tail)).1.msg i).cl = some raw.length := by
  rw [run_append, run_cons_fst]
  have hf := run_body_frame C i tail (step C (run C s0 ops).1 op).1 htail
  obtain ⟨raw, h1, h2⟩ := assign_len C _ i op hop hte
  refine ⟨raw, ?_, ?_⟩
  · have : ((run C (step C (run C s0 ops).1 op).1 tail).1.msg i).core.raw = some raw := by rw [hf]; exact h1
    exact this
  · have : ((run C (step C (run C s0 ops).1 op).1 tail).1.msg i).core.cl = some raw.length := by rw [hf]; exact h2
    exact this

/-! ### trailers / version are read by nothing -/

private theorem fixLen_core (m : Msg) : fixLen m.core = (fixLen m).core := by
  unfold fixLen
  show (if m.te = true then m.core else _) = _
  split <;> rfl

private theorem setContent_core (c : Cache) (m : Msg) (v : Option Bytes) (f : Res) :
    setContent c m.core v f = ((setContent c m v f).1, (setContent c m v f).2.1, (setContent c m v f).2.2.core) := by
  cases v with
  | none => rfl
  | some v =>
    unfold setContent
    show (match encodeStep c v (ceOrIdentity m.ce) strictB f with
      | (.ok x, c') => (Res.done, c', fixLen ({ m with raw := some x } : Msg).core)
      | (.verr, c') => (.done, c', fixLen ({ m with raw := some v, ce := none } : Msg).core)
      | (_, c') => (.terr, c', m.core)) = _
    simp only
    generalize encodeStep c v (ceOrIdentity m.ce) strictB f = p
    obtain ⟨r, c'⟩ := p
    cases r <;> simp only [fixLen_core]

private theorem msgDecode_core (c : Cache) (m : Msg) (st : Bool) (f : Res) :
    msgDecode c m.core st f = ((msgDecode c m st f).1, (msgDecode c m st f).2.1, (msgDecode c m st f).2.2.core) := by
  unfold msgDecode
  show (match m.raw with
    | none => (Res.done, c, m.core)
    | some raw => if raw.isEmpty then (.done, c, m.core)
      else match getContent c m st f with
        | (.ok d, c') => setContent c' ({ m with ce := none } : Msg).core (some d) .verr
        | (r, c') => (r, c', m.core)) = _
  cases m.raw with
  | none => rfl
  | some raw =>
    simp only
    split
    · rfl
    · generalize getContent c m st f = p
      obtain ⟨r, c'⟩ := p
      cases r <;> simp only [setContent_core]

private theorem msgEncode_core (c : Cache) (m : Msg) (cd : Bytes) (f : Res) :
    msgEncode c m.core cd f = ((msgEncode c m cd f).1, (msgEncode c m cd f).2.1, (msgEncode c m cd f).2.2.core) := by
  unfold msgEncode
  show (match setContent c ({ m with ce := some cd } : Msg).core m.raw f with
    | (.done, c', m') => if m'.ce.isNone then (Res.verr, c', m') else (.done, c', m')
    | (r, c', m') => (r, c', m')) = _
  rw [setContent_core]
  generalize setContent c { m with ce := some cd } m.raw f = p
  obtain ⟨r, c', m'⟩ := p
  cases r <;> simp only
  show (if m'.ce.isNone then _ else _) = _
  split <;> rfl

private theorem need_core (s : State) (op : Op) : need s.core op = need s op := by
  cases op <;> simp only [need, core_msg] <;> rfl

/-- **C31 (trailers and HTTP version are irrelevant).** For every op, in every state: running it on the state with all
    trailers / versions blanked gives the same result, the same cache and — up to those two fields — the same
    messages.  Nothing in set_content / get_content / Message.decode / Message.encode (in particular not the
    Content-Length rule) reads a message's trailers or version.
    NOTE: true because no MODEL function reads `tr` / `ver` — a fact about the model's shape.  Its meaning for mitmproxy
    comes from the tie: the rendered message state includes trailers and version, and results + states are compared
    after every op on messages with every trailers / version value (seed c31-5, which made set_content read the
    trailers, breaks that comparison and the Content-Length oracle clause). -/
theorem trailers_irrelevant (C : Codecs) (s : State) (op : Op) :
    (step C s.core op).2 = (step C s op).2 ∧ (step C s.core op).1.core = (step C s op).1.core := by
  have hf : freshOf C s.core op = freshOf C s op := by simp only [freshOf, need_core]
  cases op with
  | dec x c e => unfold step; rw [hf]; exact ⟨rfl, rfl⟩
  | enc d c e => unfold step; rw [hf]; exact ⟨rfl, rfl⟩
  | getContent i st =>
    unfold step; rw [hf]
    simp only [stepWith, core_msg]
    exact ⟨rfl, rfl⟩
  | setContent i v =>
    rw [step_set, step_set, hf, core_msg, setContent_core]
    refine ⟨rfl, ?_⟩
    simp only [core_setMsg]
    rfl
  | mdecode i st =>
    rw [step_mdecode, step_mdecode, hf, core_msg, msgDecode_core]
    refine ⟨rfl, ?_⟩
    simp only [core_setMsg]
    rfl
  | mencode i cd =>
    rw [step_mencode, step_mencode, hf, core_msg, msgEncode_core]
    refine ⟨rfl, ?_⟩
    simp only [core_setMsg]
    rfl
  | setRaw i v => refine ⟨rfl, ?_⟩; simp only [step, stepWith, core_setMsg, core_msg]; rfl
  | setCe i v => refine ⟨rfl, ?_⟩; simp only [step, stepWith, core_setMsg, core_msg]; rfl
  | setTe i on => refine ⟨rfl, ?_⟩; simp only [step, stepWith, core_setMsg, core_msg]; rfl
  | setCl i n => refine ⟨rfl, ?_⟩; simp only [step, stepWith, core_setMsg, core_msg]; rfl
  | setTr i t => refine ⟨rfl, ?_⟩; simp only [step, stepWith, core_setMsg, core_msg]; rfl
  | setVer i w => refine ⟨rfl, ?_⟩; simp only [step, stepWith, core_setMsg, core_msg]; rfl

/-- … lifted to whole histories: results never depend on trailers / version, of either message, at any point
    (same caveat: a statement about the model's shape, given meaning by the tie) -/
theorem trailers_irrelevant_history (C : Codecs) (ops : List Op) :
    ∀ s t : State, s.core = t.core → (run C s ops).2 = (run C t ops).2 ∧ (run C s ops).1.core = (run C t ops).1.core := by
  induction ops with
  | nil => intro s t h; exact ⟨rfl, h⟩
  | cons op ops ih =>
    intro s t h
    have hs := trailers_irrelevant C s op
    have ht := trailers_irrelevant C t op
    rw [h] at hs
    have h2 : (step C s op).2 = (step C t op).2 := by rw [← hs.1, ht.1]
    have h1 : (step C s op).1.core = (step C t op).1.core := by rw [← hs.2, ht.2]
    obtain ⟨ih2, ih1⟩ := ih _ _ h1
    simp only [run]
    exact ⟨by rw [h2, ih2], ih1⟩

/-! ### non-vacuity for the round-3 theorems (kernel-evaluated on `toy`) -/

-- `contentOf` is not constant: bytes / strict error / non-strict fallback / missing body / text codec
example : contentOf toy okState.m0 true = .ok [7, 8] ∧
    contentOf toy ⟨some [3, 3], some brN, false, none, .absent, .h11⟩ true = .verr ∧
    contentOf toy ⟨some [3, 3], some brN, false, none, .absent, .h11⟩ false = .ok [3, 3] ∧
    contentOf toy ⟨none, some brN, false, none, .absent, .h11⟩ true = .nil ∧
    contentOf toy ⟨some [5], some utf8N, false, none, .absent, .h11⟩ true = .verr := by decide
-- the hypotheses of the tail theorems are satisfiable by tails that really disturb the cache
example : ∀ o ∈ [Op.getContent false true, .setContent true (some [9]), .enc [9, 9] gzipN strictB, .mencode true brN],
    o.writes false = false := by decide
example : completesAssign toy okState false (.setContent false (some [4])) := ⟨rfl, by decide⟩
example : completesAssign toy okState false (.mdecode false true) := ⟨rfl, ⟨[1, 7, 8], rfl, rfl⟩, by decide⟩
example : completesAssign toy okState false (.mencode false fooN) := ⟨rfl, ⟨[1, 7, 8], rfl⟩, by decide⟩
-- decode; (ops elsewhere that replace the cache entry); encode; (more such ops); read: still [7, 8]
example : (run toy okState [.mdecode false true, .enc [9, 9] gzipN strictB, .setContent true (some [9]),
    .mencode false brN, .setCe true (some gzipN), .setContent true (some [5]), .getContent true true,
    .getContent false true]).2.getLast? = some (.ok [7, 8]) := by decide
-- the same history: Content-Length of message 0 follows its raw body (3 bytes: 1 :: [7, 8])
example : (run toy okState [.mdecode false true, .enc [9, 9] gzipN strictB, .mencode false brN,
    .setContent true (some [5]), .getContent false true]).1.m0 = ⟨some [1, 7, 8], some brN, false, some 3, .absent, .h11⟩ := by decide
-- encode after encode wraps: raw [7] -> br [1,7] -> gzip [1,1,7]; the content is then the br stream, not [7]
example : (run toy ⟨none, ⟨some [7], none, false, none, .absent, .h11⟩, emptyMsg⟩
    [.mencode false brN, .mencode false gzipN, .getContent false true]) =
    (⟨some ⟨[1, 1, 7], gzipN, strictB, [1, 7]⟩, ⟨some [1, 1, 7], some gzipN, false, some 3, .absent, .h11⟩, emptyMsg⟩,
     [.done, .done, .ok [1, 7]]) := by decide
-- set twice = set once (whole state), decode twice = decode once, also when the strict decode fails
example : (run toy okState [.setContent false (some [4]), .setContent false (some [4])]).1 =
    (run toy okState [.setContent false (some [4])]).1 := by decide
example : (run toy okState [.mdecode false true, .mdecode false true]) =
    (⟨some ⟨[1, 7, 8], brN, strictB, [7, 8]⟩, ⟨some [7, 8], none, false, some 2, .absent, .h11⟩, emptyMsg⟩, [.done, .done]) := by decide
example : (run toy ⟨none, ⟨some [3, 3], some brN, false, none, .absent, .h11⟩, emptyMsg⟩ [.mdecode false true, .mdecode false true]) =
    (⟨none, ⟨some [3, 3], some brN, false, none, .absent, .h11⟩, emptyMsg⟩, [.verr, .verr]) := by decide

/-! ### non-vacuity, round 5: messages WITH trailers (the dimension seed c31-5 lives in) -/

-- response with non-empty trailers, HTTP/2, no Transfer-Encoding, stale Content-Length 12: assigning refreshes it
example : (step toy ⟨none, ⟨some [9, 9, 9], none, false, some 12, .nonEmpty, .h2⟩, emptyMsg⟩
    (.setContent false (some [4, 4]))).1.m0 = ⟨some [4, 4], none, false, some 2, .nonEmpty, .h2⟩ := by decide
-- the decode and encode variants, trailers / version being changed along the way
example : (run toy okState [.setTr false .nonEmpty, .setCl false (some 99), .mdecode false true, .setTr false .empty,
    .setVer false .h3, .getContent false true]).1.m0 = ⟨some [7, 8], none, false, some 2, .empty, .h3⟩ := by decide
example : (run toy okState [.setTr false .nonEmpty, .setVer false .h2, .setCl false (some 99), .mdecode false true,
    .mencode false gzipN]).1.m0 = ⟨some [1, 7, 8], some gzipN, false, some 3, .nonEmpty, .h2⟩ := by decide
-- with Transfer-Encoding the (stale) Content-Length is left alone — trailers or not
example : (step toy ⟨none, ⟨some [9], none, true, some 12, .nonEmpty, .h11⟩, emptyMsg⟩
    (.setContent false (some [4, 4]))).1.m0.cl = some 12 := by decide
-- the widened tail hypothesis of `content_length_invariant` is satisfiable by a tail that sets trailers and version
example : ∀ o ∈ [Op.setTr false .nonEmpty, .setVer false .h3, .getContent false true, .setContent true (some [1])],
    o.writes false = false ∨ o.setsMeta false = true := by decide
-- `core` really forgets something, and only trailers / version
example : (⟨some [1], some brN, true, some 5, .nonEmpty, .h3⟩ : Msg).core = ⟨some [1], some brN, true, some 5, .absent, .h11⟩ ∧
    (⟨some [1], some brN, true, some 5, .nonEmpty, .h3⟩ : Msg).core ≠ ⟨some [1], some brN, true, some 5, .nonEmpty, .h3⟩ := by decide

/-! ## deepening round 5: the empty-cache hypothesis `h0` replaced by the invariant itself

  Every theorem above starts its histories in a state with an EMPTY cache.  That is stronger than needed: all that
  is used is `Inv C s.cache` ("the entry, if any, has a compressed coding and is a true statement about the uncached
  decoder").  `inv_of_empty` + `inv_preserved` + the `_inv` forms below give every statement for every history
  from ANY such state (e.g. a process that has been running for a while); `inv_needed_counterexample` shows the
  hypothesis cannot be dropped altogether. -/

theorem inv_of_empty (C : Codecs) (c : Cache) (h : c = none) : Inv C c := by
  intro e he; rw [h] at he; cases he

/-- the invariant is preserved by every history of ops -/
theorem inv_preserved (C : Codecs) (s : State) (ops : List Op) (hi : Inv C s.cache) : Inv C (run C s ops).1.cache :=
  run_inv' C ops s hi

/-- `decode_transparent` from any state satisfying the invariant -/
theorem decode_transparent_inv (C : Codecs) (s : State) (hi : Inv C s.cache) (x coding errors : Bytes) :
    (step C s (.dec x coding errors)).2 = uncachedDec C coding errors x := by
  have := decodeStep_res hi x coding errors (freshOf C s (.dec x coding errors))
    (by intro h; simp [freshOf, need, needDec_of errors x h])
  simpa [step, stepWith] using this

/-- `encode_semantically_transparent` from any state satisfying the invariant -/
theorem encode_semantically_transparent_inv (C : Codecs) (s : State) (hi : Inv C s.cache) (d coding errors : Bytes) :
    (kindOf (asciiLower coding) = .cached → ∃ x, (step C s (.enc d coding errors)).2 = .ok x) ∧
    (kindOf (asciiLower coding) = .identity ∨ kindOf (asciiLower coding) = .cached →
      ∀ x, (step C s (.enc d coding errors)).2 = .ok x → uncachedDec C coding errors x = .ok d) := by
  have hres : (step C s (.enc d coding errors)).2 =
      (encodeStep s.cache d coding errors (freshOf C s (.enc d coding errors))).1 := by
    simp [step, stepWith]
  have hcached : kindOf (asciiLower coding) = .cached →
      ∃ x, (step C s (.enc d coding errors)).2 = .ok x ∧ C.dec (asciiLower coding) errors x = .ok d ∧
        identityDec.contains (asciiLower coding) = false := by
    intro hk
    have hid := (cached_facts ((kind_cached_iff _).mp hk)).1
    obtain ⟨x, c', he, hdec, _, _⟩ := encodeStep_cachedKind hi d coding errors (freshOf C s (.enc d coding errors)) hk
      (by simp [freshOf, need, needEnc_of errors d (tbl_identity ▸ hid)])
    exact ⟨x, by rw [hres, he], hdec, hid⟩
  constructor
  · intro hk
    obtain ⟨x, hx, _⟩ := hcached hk
    exact ⟨x, hx⟩
  · rintro (hk | hk) x hx
    · rw [hres, encodeStep_identityKind hi d coding errors _ hk] at hx
      cases hx
      simp only [uncachedDec, (kind_identity_iff _).mp hk, if_true]
    · obtain ⟨x', hx', hdec, hid⟩ := hcached hk
      rw [hx'] at hx
      cases hx
      simp only [uncachedDec, hid, Bool.false_eq_true, if_false, hdec]

/-- `get_content_transparent` from any state satisfying the invariant -/
theorem get_content_transparent_inv (C : Codecs) (s : State) (hi : Inv C s.cache) (i st : Bool) :
    (step C s (.getContent i st)).2 = contentOf C (s.msg i) st := get_transparent_inv hi i st

/-- `set_get_content` from any state satisfying the invariant -/
theorem set_get_content_inv (C : Codecs) (s : State) (hi : Inv C s.cache) (i : Bool) (v : Bytes)
    (hok : OkName (effName (s.msg i).ce)) :
    (step C s (.setContent i (some v))).2 = .done ∧
    (step C (step C s (.setContent i (some v))).1 (.getContent i true)).2 = .ok v := set_get_inv hi i v hok

/-- `set_content_idempotent` from any state satisfying the invariant -/
theorem set_content_idempotent_inv (C : Codecs) (s : State) (hi : Inv C s.cache) (i : Bool) (v : Bytes)
    (hok : OkName (effName (s.msg i).ce)) :
    step C (step C s (.setContent i (some v))).1 (.setContent i (some v)) = ((step C s (.setContent i (some v))).1, .done) :=
  (set_again_inv hi i v hok).1

/-- `decode_idempotent` from any state satisfying the invariant -/
theorem decode_idempotent_inv (C : Codecs) (s : State) (hi : Inv C s.cache) (i st : Bool)
    (hok : OkName (effName (s.msg i).ce)) :
    step C (step C s (.mdecode i st)).1 (.mdecode i st) = step C s (.mdecode i st) := mdecode_again_inv hi i st hok

/-- `raw_decodes_to_content_lenient` from any state satisfying the invariant -/
theorem raw_decodes_to_content_lenient_inv (C : Codecs) (s : State) (hi : Inv C s.cache) (i : Bool) (v : Bytes)
    (hk : kindOf (effName (s.msg i).ce) = .cached) :
    ∃ raw, ((step C s (.setContent i (some v))).1.msg i).raw = some raw ∧
      C.dec (effName (s.msg i).ce) strictB raw = .ok v := by
  obtain ⟨x, h1, h2, _⟩ := raw_after_set hi i v hk
  exact ⟨x, h1, h2⟩

/-- `decode_encode_preserves` from any state satisfying the invariant -/
theorem decode_encode_preserves_inv (C : Codecs) (s : State) (hi : Inv C s.cache) (i st : Bool) (v cd : Bytes)
    (hhdr : OkName (effName (s.msg i).ce)) (hcd : OkName (effName (some cd)))
    (hget : (step C s (.getContent i true)).2 = .ok v) :
    (step C s (.mdecode i st)).2 = .done ∧
    (step C (step C (step C s (.mdecode i st)).1 (.mencode i cd)).1 (.getContent i true)).2 = .ok v := by
  obtain ⟨hd, hraw⟩ := mdecode_inv hi i st v hhdr hget
  obtain ⟨_, _, hg⟩ := mencode_inv (step_inv C s (.mdecode i st) hi) i cd v hraw hcd
  exact ⟨hd, hg true⟩

/-- a cache entry that is NOT a true statement about the decoder (here: toy bytes `[5]` claimed to decode to `[9]`
    under "br") breaks transparency: the hypothesis `Inv` cannot be dropped -/
theorem inv_needed_counterexample :
    ∃ s : State, ¬ Inv toy s.cache ∧
      (step toy s (.dec [5] brN strictB)).2 ≠ uncachedDec toy brN strictB [5] := by
  refine ⟨⟨some ⟨[5], brN, strictB, [9]⟩, emptyMsg, emptyMsg⟩, ?_, by decide⟩
  intro h
  have := (h _ rfl).2
  revert this
  decide

/-! ## deepening round 5: mitmproxy's own decoder lenience is a transcription, the libraries shrink to `Lib`

  `ownDecodeWith` transcribes `identity` / `decode_gzip` / `decode_deflate` / `decode_brotli` / `decode_zstd` (the
  `if not content: return b""` shortcut and the raw-deflate fallback) and is tied to the real functions by the
  driver op `own`.  `ofLib` builds a `Codecs` from a library `Lib` (two laws: round trip, empty-in ⇒ empty-out)
  and the `codecs` registry `PyReg`; the former law FIELDS `dec_empty`, `dec_shape`, `roundtrip`, `ref_enc`,
  `ref_dec` ("lenient extends strict") become THEOREMS about the transcription.  Every theorem of this file
  holds for `ofLib L P` by instantiation. -/

private theorem tbl_decfn : ∀ n ∈ cachedDec, (decFnOf n).isSome = true ∧ decFnOf n ≠ some .identity := by decide

private theorem decFn_of_cached {n : Bytes} (hk : kindOf n = .cached) : ∃ fn, decFnOf n = some fn ∧ fn ≠ .identity := by
  obtain ⟨h1, h2⟩ := tbl_decfn n (List.contains_iff_mem.mp ((kind_cached_iff n).mp hk))
  cases h : decFnOf n with
  | none => rw [h] at h1; simp at h1
  | some fn => exact ⟨fn, rfl, fun e => h2 (by rw [h, e])⟩

private theorem own_empty (fn : DecFn) (l1 l2 : Option Bytes) : ownDecodeWith fn [] l1 l2 = .ok [] := by
  cases fn <;> rfl

private theorem own_of_lib1 (fn : DecFn) (hfn : fn ≠ .identity) (x d : Bytes) (l2 : Option Bytes)
    (hx : x = [] → d = []) : ownDecodeWith fn x (some d) l2 = .ok d := by
  by_cases he : x = []
  · subst he; rw [own_empty, hx rfl]
  · have : x.isEmpty = false := by cases x <;> simp_all
    cases fn <;> simp_all [ownDecodeWith]

private theorem own_shape (fn : DecFn) (x : Bytes) (l1 l2 : Option Bytes) :
    (∃ d, ownDecodeWith fn x l1 l2 = .ok d) ∨ ownDecodeWith fn x l1 l2 = .verr := by
  cases fn <;> simp only [ownDecodeWith] <;> (try exact Or.inl ⟨x, rfl⟩) <;> split <;>
    first | exact Or.inl ⟨[], rfl⟩ | (cases l1 <;> cases l2 <;> simp)

/-- `Codecs` built from mitmproxy's own (transcribed) decoder functions over a compression library -/
def ofLib (L : Lib) (P : PyReg) : Codecs where
  enc n e d := if kindOf n = .cached then .ok (L.compress n d) else P.enc n e d
  dec n e x := if kindOf n = .cached then ownDecode L n x else P.dec n e x
  ref n x := if kindOf n = .cached then L.decompress n x else none
  enc_total := by intro n e d hk; exact ⟨L.compress n d, by simp [hk]⟩
  roundtrip := by
    intro n e d x hk h
    simp only [hk, if_true] at h ⊢
    cases h
    obtain ⟨fn, hfn, hne⟩ := decFn_of_cached hk
    simp only [ownDecode, hfn, L.roundtrip]
    exact own_of_lib1 fn hne _ d _ (fun he => L.decompress_empty n d (by rw [← he]; exact L.roundtrip n d))
  dec_empty := by
    intro n e hk
    obtain ⟨fn, hfn, _⟩ := decFn_of_cached hk
    simp only [hk, if_true, ownDecode, hfn]
    exact own_empty fn _ _
  dec_shape := by
    intro n e x hk
    obtain ⟨fn, hfn, _⟩ := decFn_of_cached hk
    simp only [hk, if_true, ownDecode, hfn]
    exact own_shape fn x _ _
  unknown_enc := by
    intro n e d hk
    have : kindOf n ≠ .cached := by rw [hk]; decide
    simp only [this, if_false]
    exact P.unknown_enc n e d hk
  unknown_dec := by
    intro n e x hk
    have : kindOf n ≠ .cached := by rw [hk]; decide
    simp only [this, if_false]
    exact P.unknown_dec n e x hk
  ref_enc := by
    intro n e d x hk h
    simp only [hk, if_true] at h ⊢
    cases h
    exact L.roundtrip n d
  ref_dec := by
    intro n e x d hk h
    simp only [hk, if_true] at h ⊢
    obtain ⟨fn, hfn, hne⟩ := decFn_of_cached hk
    simp only [ownDecode, hfn, h]
    exact own_of_lib1 fn hne x d _ (fun he => L.decompress_empty n d (by rw [← he]; exact h))

/-- **the empty-body rule is a theorem about the transcribed decoders** (was the law field `dec_empty`):
    for every compressed coding, in any letter case, decoding the empty body yields the empty content — whatever
    the library would say about an empty input. -/
theorem own_decoders_accept_empty (L : Lib) (P : PyReg) (coding errors : Bytes)
    (hk : kindOf (asciiLower coding) = .cached) : uncachedDec (ofLib L P) coding errors [] = .ok [] := by
  have hid := (cached_facts ((kind_cached_iff _).mp hk)).1
  simp only [uncachedDec, hid, Bool.false_eq_true, if_false]
  exact (ofLib L P).dec_empty _ _ hk

/-- **"lenient extends strict" is a theorem about the transcribed decoders** (was the law field `ref_dec`): whatever
    the library's own decoder call accepts, mitmproxy's wrapper returns unchanged — its additions (empty shortcut,
    raw-deflate fallback) only ever ADD accepted inputs. -/
theorem own_decoders_extend_library (L : Lib) (P : PyReg) (n e x d : Bytes) (hk : kindOf n = .cached)
    (h : L.decompress n x = some d) : (ofLib L P).dec n e x = .ok d :=
  (ofLib L P).ref_dec n e x d hk (by simp [ofLib, hk, h])

/-- the raw-deflate fallback of `decode_deflate`, as transcribed: if `zlib.decompress` rejects the body but raw
    inflation accepts it, the wrapper returns the raw-inflated bytes; the three other wrappers have no fallback -/
theorem own_deflate_fallback (x d : Bytes) (hx : x ≠ []) :
    ownDecodeWith .deflate x none (some d) = .ok d ∧ ownDecodeWith .gzip x none (some d) = .verr ∧
    ownDecodeWith .brotli x none (some d) = .verr ∧ ownDecodeWith .zstd x none (some d) = .verr := by
  have : x.isEmpty = false := by cases x <;> simp_all
  simp [ownDecodeWith, this]

/-- **F-C31a needs no lenient LIBRARY**: with a perfectly strict toy library, mitmproxy's own empty-body shortcut
    alone makes the full strict raw-body statement false (read the empty "br" body, assign `b""`). -/
theorem raw_decodes_to_content_counterexample_own_shortcut : ¬ RawDecodesToContent (ofLib toyLib toyPy) := by
  intro h
  have := h cexState [.getContent false true] false [] rfl (by decide)
  revert this
  decide

-- non-vacuity: the transcribed wrappers on the toy library (strict accepts 1 :: d, raw inflation accepts 2 :: d)
example : (ofLib toyLib toyPy).dec gzipN strictB [1, 7] = .ok [7] ∧ (ofLib toyLib toyPy).dec gzipN strictB [2, 7] = .verr ∧
    (ofLib toyLib toyPy).dec [0x64, 0x65, 0x66, 0x6c, 0x61, 0x74, 0x65] strictB [2, 7] = .ok [7] ∧
    (ofLib toyLib toyPy).dec brN strictB [] = .ok [] ∧ (ofLib toyLib toyPy).ref brN [] = none ∧
    (ofLib toyLib toyPy).dec utf8N strictB [5] = .str ∧ (ofLib toyLib toyPy).dec fooN strictB [5] = .verr := by decide
example : (run (ofLib toyLib toyPy) okState [.mdecode false true, .mencode false gzipN, .getContent false true]).2 =
    [.done, .done, .ok [7, 8]] := by decide

/-! ## deepening round 5: header-kind hypotheses removed from the idempotence theorems

  `set_content_idempotent` and `decode_idempotent` assume an identity / compressed / unknown coding (`OkName`).  The
  hypothesis is not needed: for ANY Content-Encoding value — Python bytes-codecs, text codecs that make set_content
  raise TypeError, whatever the codec returns — repeating the call reproduces outcome and state exactly. -/

private theorem encodeStep_otherKind {C : Codecs} {c : Cache} (hi : Inv C c) (d coding er : Bytes) (f : Res)
    (h1 : kindOf (asciiLower coding) ≠ .identity) (h2 : kindOf (asciiLower coding) ≠ .cached) :
    encodeStep c d coding er f = (f, c) := by
  have hcd : cachedDec.contains (asciiLower coding) = false := by
    cases h : cachedDec.contains (asciiLower coding)
    · rfl
    · exact absurd ((kind_cached_iff _).mpr h) h2
  have hid := not_identity_contains h1
  unfold encodeStep
  dsimp only
  rw [encHit_none_of_kind hi h2, hid, tbl_cached, hcd]
  cases f <;> rfl

private theorem setContent_gagain {C : Codecs} {c : Cache} (hi : Inv C c) (m : Msg) (v : Bytes) (fresh : Res)
    (hf : identityEnc.contains (effName m.ce) = false → fresh = C.enc (effName m.ce) strictB v) (f2 : Res)
    (hf2 : identityEnc.contains (effName (setContent c m (some v) fresh).2.2.ce) = false →
      f2 = C.enc (effName (setContent c m (some v) fresh).2.2.ce) strictB v) :
    setContent (setContent c m (some v) fresh).2.1 (setContent c m (some v) fresh).2.2 (some v) f2 =
      ((setContent c m (some v) fresh).1, (setContent c m (some v) fresh).2.1, (setContent c m (some v) fresh).2.2) := by
  by_cases hok : OkName (effName m.ce)
  · rw [(setContent_again hi m v fresh hok hf f2).1, (get_after_set hi m v fresh hok hf).1]
  · have h1 : kindOf (effName m.ce) ≠ .identity := fun h => hok (Or.inl h)
    have h2 : kindOf (effName m.ce) ≠ .cached := fun h => hok (Or.inr (Or.inl h))
    have he : encodeStep c v (ceOrIdentity m.ce) strictB fresh = (fresh, c) := encodeStep_otherKind hi v _ strictB fresh h1 h2
    have hfr := hf (not_identity_contains h1)
    cases hfc : fresh with
    | ok x =>
      rw [hfc] at he hf2 hfr
      have hs : setContent c m (some v) (.ok x) = (.done, c, fixLen { m with raw := some x }) := by
        unfold setContent; simp only; rw [he]
      rw [hs] at hf2 ⊢
      simp only at hf2 ⊢
      have hf2' : f2 = .ok x := by
        rw [fixLen_ce] at hf2
        rw [hfr]; exact hf2 (not_identity_contains h1)
      have he2 : encodeStep c v (ceOrIdentity (fixLen { m with raw := some x }).ce) strictB f2 = (.ok x, c) := by
        rw [fixLen_ce, hf2']; exact he
      have hs2 : setContent c (fixLen { m with raw := some x }) (some v) f2 =
          (.done, c, fixLen { fixLen { m with raw := some x } with raw := some x }) := by
        unfold setContent; simp only; rw [he2]
      rw [hs2, fixLen_again _ x rfl]
    | verr =>
      rw [hfc] at he
      have hs : setContent c m (some v) .verr = (.done, c, fixLen { m with raw := some v, ce := none }) := by
        unfold setContent; simp only; rw [he]
      rw [hs]
      simp only
      have hk' : kindOf (effName (fixLen { m with raw := some v, ce := none }).ce) = .identity := by
        rw [fixLen_ce]; exact kind_eff_identityB
      rw [setContent_identity hi _ v f2 hk', fixLen_again _ v rfl]
    | str =>
      rw [hfc] at he hf2 hfr
      have hs : setContent c m (some v) .str = (.terr, c, m) := by unfold setContent; simp only; rw [he]
      rw [hs] at hf2 ⊢
      simp only at hf2 ⊢
      have hf2' : f2 = .str := by rw [hfr]; exact hf2 (not_identity_contains h1)
      rw [hf2']; exact hs
    | terr =>
      rw [hfc] at he hf2 hfr
      have hs : setContent c m (some v) .terr = (.terr, c, m) := by unfold setContent; simp only; rw [he]
      rw [hs] at hf2 ⊢
      simp only at hf2 ⊢
      have hf2' : f2 = .terr := by rw [hfr]; exact hf2 (not_identity_contains h1)
      rw [hf2']; exact hs
    | nil =>
      rw [hfc] at he hf2 hfr
      have hs : setContent c m (some v) .nil = (.terr, c, m) := by unfold setContent; simp only; rw [he]
      rw [hs] at hf2 ⊢
      simp only at hf2 ⊢
      have hf2' : f2 = .nil := by rw [hfr]; exact hf2 (not_identity_contains h1)
      rw [hf2']; exact hs
    | done =>
      rw [hfc] at he hf2 hfr
      have hs : setContent c m (some v) .done = (.terr, c, m) := by unfold setContent; simp only; rw [he]
      rw [hs] at hf2 ⊢
      simp only at hf2 ⊢
      have hf2' : f2 = .done := by rw [hfr]; exact hf2 (not_identity_contains h1)
      rw [hf2']; exact hs

/-- **C31 (set_content is idempotent — for EVERY Content-Encoding value).** From any state satisfying the invariant:
    repeating `set_content(v)` reproduces the first call's outcome (completion, or the escaping TypeError) and leaves
    both messages and the cache exactly as the first call left them — identity, compressed, unknown, Python bytes-
    codecs and text codecs alike.  (`set_content_idempotent` without its `OkName` hypothesis.) -/
theorem set_content_idempotent_any_coding (C : Codecs) (s : State) (hi : Inv C s.cache) (i : Bool) (v : Bytes) :
    step C (step C s (.setContent i (some v))).1 (.setContent i (some v)) =
      ((step C s (.setContent i (some v))).1, (step C s (.setContent i (some v))).2) := by
  generalize ha : step C s (.setContent i (some v)) = a
  have hc : a.1.cache = (setContent s.cache (s.msg i) (some v) (freshOf C s (.setContent i (some v)))).2.1 := by
    rw [← ha, step_set, setMsg_cache]
  have hm : a.1.msg i = (setContent s.cache (s.msg i) (some v) (freshOf C s (.setContent i (some v)))).2.2 := by
    rw [← ha, step_set, setMsg_msg]
  have h2 : a.2 = (setContent s.cache (s.msg i) (some v) (freshOf C s (.setContent i (some v)))).1 := by
    rw [← ha, step_set]
  have key := setContent_gagain hi (s.msg i) v (freshOf C s (.setContent i (some v))) (fresh_set C s i v)
    (freshOf C a.1 (.setContent i (some v))) (by rw [← hm]; exact fresh_set C a.1 i v)
  rw [step_set, hc, hm, key, ← hc, ← hm, setMsg_self, ← h2]

/-- `get_content` yields bytes, or fails leaving the cache untouched — any header, whatever the codec returns -/
private theorem getContent_gshape (c : Cache) (m : Msg) (st : Bool) (f : Res) (raw : Bytes) (hr : m.raw = some raw) :
    (∃ d c', getContent c m st f = (.ok d, c')) ∨ (∃ r, (∀ d, r ≠ .ok d) ∧ getContent c m st f = (r, c)) := by
  unfold getContent
  simp only [hr]
  cases hce : m.ce with
  | none => left; exact ⟨raw, c, rfl⟩
  | some x =>
    simp only
    cases hx : x.isEmpty
    · simp only [Bool.false_eq_true, if_false]
      have hc := decodeStep_err_cache c raw x strictB f
      generalize decodeStep c raw x strictB f = p at hc
      obtain ⟨r, c'⟩ := p
      cases r with
      | ok d => left; exact ⟨d, c', rfl⟩
      | str =>
        have : c' = c := hc (by intro d; simp)
        subst this
        cases st
        · left; exact ⟨raw, c', rfl⟩
        · right; exact ⟨.verr, by intro d; simp, rfl⟩
      | verr =>
        have : c' = c := hc (by intro d; simp)
        subst this
        cases st
        · left; exact ⟨raw, c', rfl⟩
        · right; exact ⟨.verr, by intro d; simp, rfl⟩
      | terr => have : c' = c := hc (by intro d; simp); subst this; right; exact ⟨.terr, by intro d; simp, rfl⟩
      | nil => have : c' = c := hc (by intro d; simp); subst this; right; exact ⟨.terr, by intro d; simp, rfl⟩
      | done => have : c' = c := hc (by intro d; simp); subst this; right; exact ⟨.terr, by intro d; simp, rfl⟩
    · left; simp only [if_true]; exact ⟨raw, c, rfl⟩

private theorem msgDecode_gagain {C : Codecs} {c : Cache} (m : Msg) (st : Bool) (f : Res)
    (hi1 : ∀ raw, m.raw = some raw → raw.isEmpty = false → Inv C (getContent c m st f).2) :
    ((msgDecode c m st f).1 = .done ∧
      ∀ f2, msgDecode (msgDecode c m st f).2.1 (msgDecode c m st f).2.2 st f2 =
        (.done, (msgDecode c m st f).2.1, (msgDecode c m st f).2.2)) ∨
    (∃ r, msgDecode c m st f = (r, c, m)) := by
  cases hr : m.raw with
  | none =>
    left
    have h : ∀ f', msgDecode c m st f' = (.done, c, m) := by intro f'; unfold msgDecode; simp only [hr]
    rw [h f]; exact ⟨rfl, fun f2 => h f2⟩
  | some raw =>
    cases he : raw.isEmpty
    · rcases getContent_gshape c m st f raw hr with ⟨d, c', hg⟩ | ⟨r, hnr, hv⟩
      · left
        have hic : Inv C c' := by
          have := hi1 raw hr he
          rw [hg] at this
          exact this
        have hmd : msgDecode c m st f = (.done, c', fixLen { m with raw := some d, ce := none }) := by
          unfold msgDecode
          simp only [hr, he, Bool.false_eq_true, if_false]
          rw [hg]
          simp only
          rw [setContent_identity hic ⟨some raw, none, m.te, m.cl, m.tr, m.ver⟩ d .verr kind_eff_identityB]
        rw [hmd]
        refine ⟨rfl, fun f2 => ?_⟩
        exact msgDecode_plain hic _ d (by rw [fixLen_raw]) (by rw [fixLen_ce]) (fixLen_idem _) st f2
      · right
        refine ⟨r, ?_⟩
        unfold msgDecode
        simp only [hr, he, Bool.false_eq_true, if_false]
        rw [hv]
        cases r with
        | ok d => exact absurd rfl (hnr d)
        | _ => rfl
    · left
      have h : ∀ f', msgDecode c m st f' = (.done, c, m) := by
        intro f'; unfold msgDecode; simp only [hr, he, if_true]
      rw [h f]; exact ⟨rfl, fun f2 => h f2⟩

/-- **C31 (Message.decode is idempotent — for EVERY Content-Encoding value).** From any state satisfying the
    invariant, strict or not, whatever header the message carries and whatever the codec returns (bytes, a str, an
    error, TypeError): a second `Message.decode()` returns the same outcome as the first and leaves both messages
    and the cache exactly as the first left them.  (`decode_idempotent` without its `OkName` hypothesis.) -/
theorem decode_idempotent_any_coding (C : Codecs) (s : State) (hi : Inv C s.cache) (i st : Bool) :
    step C (step C s (.mdecode i st)).1 (.mdecode i st) = step C s (.mdecode i st) := by
  have key := @msgDecode_gagain C s.cache (s.msg i) st (freshOf C s (.mdecode i st))
    (by
      intro raw hr he
      rw [fresh_mdecode C s i st raw hr he]
      have := step_inv C s (.getContent i st) hi
      simpa [step, stepWith] using this)
  rcases key with ⟨hd, hag⟩ | ⟨r, hv⟩
  · generalize ha : step C s (.mdecode i st) = a at *
    have hc : a.1.cache = (msgDecode s.cache (s.msg i) st (freshOf C s (.mdecode i st))).2.1 := by
      rw [← ha, step_mdecode, setMsg_cache]
    have hm : a.1.msg i = (msgDecode s.cache (s.msg i) st (freshOf C s (.mdecode i st))).2.2 := by
      rw [← ha, step_mdecode, setMsg_msg]
    have h2 : a.2 = .done := by rw [← ha, step_mdecode]; exact hd
    rw [step_mdecode, hc, hm, hag, ← hc, ← hm, setMsg_self]
    exact Prod.ext rfl h2.symm
  · have hs : step C s (.mdecode i st) = (s, r) := by
      rw [step_mdecode, hv]
      simp only
      rw [setMsg_self]
    rw [hs]
    exact hs

-- non-vacuity: a text codec (TypeError both times, nothing changes) and a bytes codec (same raw both times)
example : (run toy ⟨none, ⟨some [5], some utf8N, false, some 1, .absent, .h11⟩, emptyMsg⟩
    [.setContent false (some [6]), .setContent false (some [6])]) =
    (⟨none, ⟨some [5], some utf8N, false, some 1, .absent, .h11⟩, emptyMsg⟩, [.terr, .terr]) := by decide
example : (run toy ⟨none, ⟨some [5], some utf8N, false, some 1, .absent, .h11⟩, emptyMsg⟩
    [.mdecode false true, .mdecode false true]).2 = [.verr, .verr] := by decide

/-- the driver-runnable form of `contentOf` (tied to the real code's cache-neutral read-back after every op) -/
theorem contentOf_eq_with (C : Codecs) (m : Msg) (st : Bool) :
    contentOf C m st = contentOfWith m st
      (match m.raw, m.ce with
       | some raw, some ce => C.dec (asciiLower ce) strictB raw
       | _, _ => .verr) := by
  unfold contentOf contentOfWith uncachedDec
  cases m.raw with
  | none => rfl
  | some raw =>
    cases m.ce with
    | none => rfl
    | some ce => rfl

/-! ### round-6 cross-audit: further non-vacuity witnesses (kernel-evaluated on `toy`) -/

-- the `_inv` family: `Inv` holds on a NON-EMPTY cache reached by a history (not only on `none`), and fails on a false entry
example : (run toy okState [.getContent false true]).1.cache ≠ none ∧
    Inv toy (run toy okState [.getContent false true]).1.cache ∧ ¬ Inv toy (some ⟨[5], brN, strictB, [9]⟩) := by
  refine ⟨by decide, inv_preserved toy okState _ (inv_of_empty toy _ rfl), ?_⟩
  intro h
  have := (h _ rfl).2
  revert this
  decide
-- get_content_history_independent: two DIFFERENT histories (different cache entries) leave message 0 in the same state
example : (run toy okState [.enc [9] gzipN strictB, .setContent true (some [3])]).1.msg false =
      (run toy okState [.getContent false true]).1.msg false ∧
    (run toy okState [.enc [9] gzipN strictB, .setContent true (some [3])]).1.cache ≠
      (run toy okState [.getContent false true]).1.cache := by decide
-- encode_after_encode / unknown_coding_removed / set_set_last_wins: their kind hypotheses on a reachable state
example : ((run toy okState [.mdecode false true]).1.msg false).raw = some [7, 8] ∧
    kindOf (effName (some brU)) = .cached ∧ kindOf (effName (some gzipN)) = .cached ∧
    kindOf (effName (((run toy okState [.setCe false (some fooN)]).1.msg false).ce)) = .unknown ∧
    OkName (effName (((run toy okState [.getContent false true]).1.msg false).ce)) := by
  refine ⟨by decide, by decide, by decide, by decide, Or.inr (Or.inl (by decide))⟩
-- content_length_invariant: no Transfer-Encoding after the assignment, and a tail that disturbs the cache and the trailers
example : ((step toy okState (.setContent false (some [4]))).1.msg false).te = false ∧
    (∀ o ∈ [Op.setTr false .nonEmpty, .enc [9, 9] gzipN strictB, .setVer false .h2, .getContent false true,
            .setContent true (some [9])], o.writes false = false ∨ o.setsMeta false = true) ∧
    (Op.setCl false (some 1)).writes false = true := by decide
-- NOT a theorem (the clause "no result ever depends on … earlier" is proved for encode results and stored raw bodies
-- only up to MEANING): after a decode, `encoding.encode` of the same content returns the earlier input bytes, byte-wise
-- different from what a process without history returns — see notes/audit6/C31.md
example : (step toy (run toy init [.dec [2, 7] brN strictB]).1 (.enc [7] brN strictB)).2 = .ok [2, 7] ∧
    uncachedEnc toy brN strictB [7] = .ok [1, 7] ∧
    (step toy (run toy init [.dec [2, 7] brN strictB, .dec [3] gzipN strictB, .dec [1, 9] gzipN strictB]).1
      (.enc [7] brN strictB)).2 = .ok [1, 7] := by decide
-- own_deflate_fallback / Lib: a body for which only raw inflation succeeds exists in the toy library
example : toyLib.decompress [0x64] [2, 7] = none ∧ toyLib.inflateRaw [2, 7] = some [7] ∧ ([2, 7] : Bytes) ≠ [] := by decide

/-! ## round 6 (owner fixes after the cross-audit): sentence 5 at byte level for encode results and stored raw bodies

  "No result ever depends on which bodies were encoded or decoded earlier" is proved at full strength for
  `encoding.decode` (`decode_transparent`) and `get_content` (`get_content_transparent`).  For `encoding.encode` results
  and for the raw body an assignment stores, the byte-level reading (`EncodeHistoryIndependent`,
  `StoredRawHistoryIndependent`) is FALSE — by design of the cache, which returns the peer's original bytes when the
  content is re-encoded unchanged — and is proved only UP TO MEANING (what the bytes decode to), plus byte-wise
  outside cache hits on non-canonical entries. -/

/-- **proved part of `EncodeHistoryIndependent`: equal up to what the bytes decode to.**  (This is
    `encode_semantically_transparent`, restated under the name the clause table uses: a compressed coding always
    encodes, and whatever `encoding.encode(d, coding, errors)` returns under an identity / compressed coding decodes
    (uncached) back to `d` — in every reachable state, i.e. independently of the history.) -/
theorem encode_history_independent_partial (C : Codecs) (s0 : State) (h0 : s0.cache = none) (ops : List Op)
    (d coding errors : Bytes) :
    (kindOf (asciiLower coding) = .cached →
      ∃ x, (step C (run C s0 ops).1 (.enc d coding errors)).2 = .ok x) ∧
    (kindOf (asciiLower coding) = .identity ∨ kindOf (asciiLower coding) = .cached →
      ∀ x, (step C (run C s0 ops).1 (.enc d coding errors)).2 = .ok x → uncachedDec C coding errors x = .ok d) :=
  encode_semantically_transparent C s0 h0 ops d coding errors

/-- under the invariant, outside a non-canonical hit, `encoding.encode` computes exactly the uncached result -/
private theorem encodeStep_canon {C : Codecs} {c : Cache} (hi : Inv C c) (d coding er : Bytes) (f : Res)
    (hf : identityEnc.contains (asciiLower coding) = false → f = C.enc (asciiLower coding) er d)
    (hg : nonCanonicalHit C c d (asciiLower coding) er = false) :
    (encodeStep c d coding er f).1 = uncachedEnc C coding er d := by
  unfold encodeStep uncachedEnc
  dsimp only
  cases h : encHit c d (asciiLower coding) er with
  | some x =>
    obtain ⟨e, hc, _, hn, _, _⟩ := encHit_some h
    have hk := (hi e hc).1
    rw [hn] at hk
    have hid := not_identity_contains (n := asciiLower coding) (by rw [hk]; decide)
    have hx : C.enc (asciiLower coding) er d = .ok x := by simpa [nonCanonicalHit, h] using hg
    simp only [hid, Bool.false_eq_true, if_false, hx]
  | none =>
    cases hid : identityEnc.contains (asciiLower coding)
    · simp [hf hid]
    · simp

/-- **byte-level, state guard: outside a cache hit on a non-canonical entry `encoding.encode` is history independent.**
    In every reachable state: unless the call is a cache hit whose entry does not hold the uncached encoder's bytes
    (`nonCanonicalHit`, decidable — such entries are only made by decoding a differently compressed / lenient body),
    the result is byte-for-byte what a process without history returns. -/
theorem encode_bytes_history_independent_partial_hit (C : Codecs) (s0 : State) (h0 : s0.cache = none) (ops : List Op)
    (d coding errors : Bytes)
    (hg : nonCanonicalHit C (run C s0 ops).1.cache d (asciiLower coding) errors = false) :
    (step C (run C s0 ops).1 (.enc d coding errors)).2 = uncachedEnc C coding errors d := by
  have hi := run_inv C s0 h0 ops
  generalize (run C s0 ops).1 = s at hi hg
  have := encodeStep_canon hi d coding errors (freshOf C s (.enc d coding errors))
    (by intro h; simp [freshOf, need, needEnc_of errors d h]) hg
  simpa [step, stepWith] using this

/-- every entry holds the bytes the uncached encoder produces -/
private def InvCanon (C : Codecs) (c : Cache) : Prop :=
  ∀ e, c = some e → kindOf e.coding = .cached ∧ C.enc e.coding e.errors e.decoded = .ok e.encoded

private theorem run_invCanon (C : Codecs) (ops : List Op) :
    ∀ s, InvCanon C s.cache → canonHist C s ops = true → InvCanon C (run C s ops).1.cache := by
  induction ops with
  | nil => intro s h _; exact h
  | cons op ops ih =>
    intro s h hg
    simp only [canonHist, Bool.and_eq_true] at hg
    simp only [run]
    refine ih _ ?_ hg.2
    apply step_pres C (fun e => kindOf e.coding = .cached ∧ C.enc e.coding e.errors e.decoded = .ok e.encoded) s op h
    · intro n e x d hn hdec hc
      have hk := (kind_cached_iff n).mpr hc
      refine ⟨hk, ?_⟩
      simpa [canonOp, hn, hk, hdec] using hg.1
    · intro n e d x _ henc hc
      exact ⟨(kind_cached_iff n).mpr hc, henc⟩

/-- **byte-level, history guard: histories that only ever decoded canonical bodies.**  If every successful decode of a
    compressed coding in the history was of exactly the bytes the encoder emits for that content (`canonHist`,
    decidable), `encoding.encode` returns byte-for-byte the uncached result. -/
theorem encode_bytes_history_independent_partial (C : Codecs) (s0 : State) (h0 : s0.cache = none) (ops : List Op)
    (d coding errors : Bytes) (hg : canonHist C s0 ops = true) :
    (step C (run C s0 ops).1 (.enc d coding errors)).2 = uncachedEnc C coding errors d := by
  apply encode_bytes_history_independent_partial_hit C s0 h0 ops
  have hr : InvCanon C (run C s0 ops).1.cache :=
    run_invCanon C ops s0 (by intro e he; rw [h0] at he; cases he) hg
  unfold nonCanonicalHit
  cases hh : encHit (run C s0 ops).1.cache d (asciiLower coding) errors with
  | none => rfl
  | some x =>
    obtain ⟨e, hc, hd, hn, he, hx⟩ := encHit_some hh
    obtain ⟨_, henc⟩ := hr e hc
    rw [hn, he, hd, hx] at henc
    simp [henc]

/-- **`EncodeHistoryIndependent` is FALSE (by design of the cache).**  Toy codecs: after `decode([2,7], "br")` (a
    non-canonical stream of `[7]`), `encode([7], "br")` returns `[2,7]`; a process without history returns `[1,7]`. -/
theorem encode_history_independent_counterexample : ¬ EncodeHistoryIndependent toy := by
  intro h
  have := h init [.dec [2, 7] brN strictB] [7] brN strictB rfl
  revert this
  decide

private theorem setContent_raw_of_res {c c' : Cache} (m : Msg) (v : Bytes) (f : Res)
    (h : (encodeStep c v (ceOrIdentity m.ce) strictB f).1 = (encodeStep c' v (ceOrIdentity m.ce) strictB f).1) :
    (setContent c m (some v) f).2.2.raw = (setContent c' m (some v) f).2.2.raw := by
  unfold setContent
  simp only
  generalize encodeStep c v (ceOrIdentity m.ce) strictB f = p at h
  generalize encodeStep c' v (ceOrIdentity m.ce) strictB f = q at h
  obtain ⟨r, c1⟩ := p
  obtain ⟨r', c2⟩ := q
  simp only at h
  subst h
  cases r <;> simp [fixLen_raw]

/-- **byte-level, state guard, for the raw body stored by `set_content`**: unless the assignment is a cache hit on a
    non-canonical entry, the stored raw body is byte-for-byte the one the same assignment stores on the same message
    state with an EMPTY cache. -/
theorem stored_raw_history_independent_partial_hit (C : Codecs) (s0 : State) (h0 : s0.cache = none) (ops : List Op)
    (i : Bool) (v : Bytes)
    (hg : nonCanonicalHit C (run C s0 ops).1.cache v (effName (((run C s0 ops).1.msg i).ce)) strictB = false) :
    ((step C (run C s0 ops).1 (.setContent i (some v))).1.msg i).raw =
    ((step C { (run C s0 ops).1 with cache := none } (.setContent i (some v))).1.msg i).raw := by
  have hi := run_inv C s0 h0 ops
  generalize (run C s0 ops).1 = s at hi hg
  have hfresh : freshOf C ({ s with cache := none } : State) (.setContent i (some v)) = freshOf C s (.setContent i (some v)) := by
    simp only [freshOf, need, withCache_msg]
  rw [step_set, step_set, setMsg_msg, setMsg_msg, hfresh, withCache_msg]
  apply setContent_raw_of_res
  have hf := fresh_set C s i v
  have h1 := encodeStep_canon hi v (ceOrIdentity (s.msg i).ce) strictB (freshOf C s (.setContent i (some v))) hf hg
  have h2 := encodeStep_canon (C := C) (c := none) (by intro e he; cases he) v (ceOrIdentity (s.msg i).ce) strictB
    (freshOf C s (.setContent i (some v))) hf (by simp [nonCanonicalHit, encHit])
  rw [h1, h2]

/-- **`StoredRawHistoryIndependent` is FALSE (by design of the cache; F-C31a is the subclass where the kept bytes are
    also rejected by strict decoders).**  Toy codecs: message with raw `[2,7]` under "br"; read it, assign the same
    content `[7]`: the raw body stays `[2,7]`, with an empty cache it would be `[1,7]`. -/
theorem stored_raw_history_independent_counterexample : ¬ StoredRawHistoryIndependent toy := by
  intro h
  have := (h ⟨none, ⟨some [2, 7], some brN, false, none, .absent, .h11⟩, emptyMsg⟩ [.getContent false true] false rfl).1 [7]
  revert this
  decide

-- the guards are satisfiable and discriminate
example : canonHist toy okState [.getContent false true, .enc [9] gzipN strictB] = true ∧
    canonHist toy init [.dec [2, 7] brN strictB] = false ∧
    nonCanonicalHit toy (run toy init [.dec [2, 7] brN strictB]).1.cache [7] brN strictB = true ∧
    nonCanonicalHit toy (run toy init [.dec [1, 7] brN strictB]).1.cache [7] brN strictB = false := by decide
-- a second library with `decompress [] = some []`: `Lib.decompress_empty` is not vacuous, and `ofLib` works over it
example : idLib.decompress brN [] = some [] ∧ (ofLib idLib toyPy).dec brN strictB [] = .ok [] ∧
    (ofLib idLib toyPy).dec brN strictB [4, 2] = .ok [4, 2] ∧ (ofLib idLib toyPy).ref brN [] = some [] := by decide

/-- the driver-runnable forms of the guards (tied: evaluated by the driver op `guard` in the pre-state of every
    assignment / `encoding.encode` with errors "strict" and compared with the Python classifier's facts) -/
theorem lenientHit_eq_with (C : Codecs) (c : Cache) (v n : Bytes) :
    lenientHit C c v n = lenientHitWith c v n (match encHit c v n strictB with | some x => C.ref n x | none => none) := by
  unfold lenientHit lenientHitWith
  cases encHit c v n strictB <;> rfl

theorem nonCanonicalHit_eq_with (C : Codecs) (c : Cache) (d n e : Bytes) :
    nonCanonicalHit C c d n e = nonCanonicalHitWith c d n e (C.enc n e d) := rfl

end MitmVerif.Props.C31
