/-
  C31 — property theorems.  Every theorem quantifies over ALL call histories `ops` (any interleaving of
  encoding.decode/encode on arbitrary bodies and of Message ops / header mutations on two messages) run from
  any state `s0` with an empty cache; the codec libraries are the law-carrying parameter `C : Codecs`.
  Proof method: `stepWith_cache` (what one op can do to the cache — a fact about the model alone), hence
  the invariant `Inv` (the entry is a true statement about the uncached decoder) by induction on `ops`.

  * `decode_transparent`                    decode result = uncached result, exactly (all names, all outcomes)
  * `encode_semantically_transparent`       compressed codings always encode; result decodes back to the input
  * `set_get_content`, `unknown_coding_removed`
  * `raw_decodes_to_content_lenient`        raw body decodes to the content under mitmproxy's own decoder
  * `raw_decodes_to_content_partial(_hit)`  … under the strict reference decoder, F-C31a class excluded
  * `raw_decodes_to_content_counterexample` the unguarded strict statement `RawDecodesToContent` is false
  * `content_length_eq_raw_len_without_TE`
  * `decode_encode_preserves`
-/
import MitmVerif.Model.C31
namespace MitmVerif.Props.C31
open MitmVerif MitmVerif.C31 MitmVerif.Gen.C31

/-! ### coherence of the generated tables (re-proved whenever the tables are regenerated) -/

private theorem tbl_identity : identityEnc = identityDec := by decide
private theorem tbl_cached : cachedEnc = cachedDec := by decide
private theorem tbl_cached_mem : ∀ n ∈ cachedDec,
    identityDec.contains n = false ∧ customDec.contains n = true ∧ customEnc.contains n = true := by decide

private theorem cached_facts {n : Bytes} (h : cachedDec.contains n = true) :
    identityDec.contains n = false ∧ customDec.contains n = true ∧ customEnc.contains n = true :=
  tbl_cached_mem n (List.contains_iff_mem.mp h)

private theorem kind_identity_iff (n : Bytes) : kindOf n = .identity ↔ identityDec.contains n = true := by
  unfold kindOf
  rw [tbl_identity]
  cases h : identityDec.contains n
  · simp only [Bool.and_self, Bool.false_eq_true, if_false]
    repeat' split
    all_goals simp
  · simp

private theorem kind_cached_iff (n : Bytes) : kindOf n = .cached ↔ cachedDec.contains n = true := by
  unfold kindOf
  rw [tbl_identity, tbl_cached]
  cases h : cachedDec.contains n
  · simp only [Bool.and_self, Bool.false_and, Bool.false_eq_true, if_false]
    repeat' split
    all_goals simp
  · obtain ⟨h1, h2, h3⟩ := cached_facts h
    simp only [h1, h2, h3]
    simp

private theorem lower_identityB : asciiLower identityB = identityB := by decide
private theorem kind_identityB : kindOf identityB = .identity := by decide

/-! ### cache hits -/

private theorem decHit_some {c : Cache} {x n er d : Bytes} (h : decHit c x n er = some d) :
    ∃ e, c = some e ∧ e.encoded = x ∧ e.coding = n ∧ e.errors = er ∧ e.decoded = d := by
  unfold decHit at h
  cases c with
  | none => simp at h
  | some e =>
    simp only at h
    split at h
    · rename_i hc
      exact ⟨e, rfl, hc.1, hc.2.1, hc.2.2, by simpa using h⟩
    · simp at h

private theorem encHit_some {c : Cache} {d n er x : Bytes} (h : encHit c d n er = some x) :
    ∃ e, c = some e ∧ e.decoded = d ∧ e.coding = n ∧ e.errors = er ∧ e.encoded = x := by
  unfold encHit at h
  cases c with
  | none => simp at h
  | some e =>
    simp only at h
    split at h
    · rename_i hc
      exact ⟨e, rfl, hc.1, hc.2.1, hc.2.2, by simpa using h⟩
    · simp at h

private theorem decHit_none_of_kind {C : Codecs} {c : Cache} (hi : Inv C c) {n : Bytes}
    (hk : kindOf n ≠ .cached) (x er : Bytes) : decHit c x n er = none := by
  cases h : decHit c x n er with
  | none => rfl
  | some d =>
    obtain ⟨e, hc, _, hn, _, _⟩ := decHit_some h
    have := (hi e hc).1
    rw [hn] at this
    exact absurd this hk

private theorem encHit_none_of_kind {C : Codecs} {c : Cache} (hi : Inv C c) {n : Bytes}
    (hk : kindOf n ≠ .cached) (d er : Bytes) : encHit c d n er = none := by
  cases h : encHit c d n er with
  | none => rfl
  | some x =>
    obtain ⟨e, hc, _, hn, _, _⟩ := encHit_some h
    have := (hi e hc).1
    rw [hn] at this
    exact absurd this hk

/-! ### how one op can change the cache (a fact about the model alone) -/

private theorem decodeStep_cache (c : Cache) (x coding er : Bytes) (fresh : Res) :
    (decodeStep c x coding er fresh).2 = c ∨
    (identityDec.contains (asciiLower coding) = false ∧ cachedDec.contains (asciiLower coding) = true ∧
      ∃ d, fresh = .ok d ∧ (decodeStep c x coding er fresh).2 = some ⟨x, asciiLower coding, er, d⟩) := by
  unfold decodeStep
  dsimp only
  cases decHit c x (asciiLower coding) er with
  | some d => left; rfl
  | none =>
    simp only
    cases hid : identityDec.contains (asciiLower coding)
    · simp only [Bool.false_eq_true, if_false]
      cases fresh with
      | ok d =>
        cases hc : cachedDec.contains (asciiLower coding)
        · left; simp
        · right; exact ⟨by simp, by simp, d, rfl, by simp⟩
      | _ => left; rfl
    · simp only [if_true]
      cases hc : cachedDec.contains (asciiLower coding)
      · left; simp
      · have := (cached_facts hc).1
        rw [hid] at this
        simp at this

private theorem encodeStep_cache (c : Cache) (d coding er : Bytes) (fresh : Res) :
    (encodeStep c d coding er fresh).2 = c ∨
    (identityEnc.contains (asciiLower coding) = false ∧ cachedDec.contains (asciiLower coding) = true ∧
      ∃ x, fresh = .ok x ∧ (encodeStep c d coding er fresh).2 = some ⟨x, asciiLower coding, er, d⟩) := by
  unfold encodeStep
  dsimp only
  rw [tbl_identity, tbl_cached]
  cases encHit c d (asciiLower coding) er with
  | some x => left; rfl
  | none =>
    simp only
    cases hid : identityDec.contains (asciiLower coding)
    · simp only [Bool.false_eq_true, if_false]
      cases fresh with
      | ok x =>
        cases hc : cachedDec.contains (asciiLower coding)
        · left; simp
        · right; exact ⟨by simp, by simp, x, rfl, by simp⟩
      | _ => left; rfl
    · simp only [if_true]
      cases hc : cachedDec.contains (asciiLower coding)
      · left; simp
      · have := (cached_facts hc).1
        rw [hid] at this
        simp at this

private theorem encodeStep_identity_cache (c : Cache) (d coding er : Bytes) (fresh : Res)
    (h : identityEnc.contains (asciiLower coding) = true) : (encodeStep c d coding er fresh).2 = c := by
  rcases encodeStep_cache c d coding er fresh with h1 | ⟨h1, _⟩
  · exact h1
  · rw [h] at h1; simp at h1

private theorem setContent_cache (c : Cache) (m : Msg) (v : Bytes) (fresh : Res) :
    (setContent c m (some v) fresh).2.1 = (encodeStep c v (ceOrIdentity m.ce) strictB fresh).2 := by
  unfold setContent
  simp only
  generalize encodeStep c v (ceOrIdentity m.ce) strictB fresh = p
  obtain ⟨r, c'⟩ := p
  cases r <;> rfl

private theorem getContent_cache (c : Cache) (m : Msg) (st : Bool) (fresh : Res) :
    (getContent c m st fresh).2 = c ∨
    ∃ raw ce, m.raw = some raw ∧ m.ce = some ce ∧ ce.isEmpty = false ∧
      (getContent c m st fresh).2 = (decodeStep c raw ce strictB fresh).2 := by
  unfold getContent
  cases hr : m.raw with
  | none => left; rfl
  | some raw =>
    cases hce : m.ce with
    | none => left; rfl
    | some ce =>
      cases he : ce.isEmpty
      · right
        refine ⟨raw, ce, rfl, rfl, he, ?_⟩
        simp only [he, Bool.false_eq_true, if_false]
        generalize decodeStep c raw ce strictB fresh = p
        obtain ⟨r, c'⟩ := p
        cases r <;> cases st <;> rfl
      · left; simp only [he, if_true]

private theorem setMsg_cache (s : State) (i : Bool) (m : Msg) : (s.setMsg i m).cache = s.cache := by
  unfold State.setMsg; split <;> rfl

private theorem setMsg_msg (s : State) (i : Bool) (m : Msg) : (s.setMsg i m).msg i = m := by
  cases i <;> rfl

private theorem withCache_msg (s : State) (c : Cache) (i : Bool) : ({ s with cache := c } : State).msg i = s.msg i := by
  cases i <;> rfl

private theorem needDec_of {coding : Bytes} (er x : Bytes) (h : identityDec.contains (asciiLower coding) = false) :
    needDec coding er x = .dec (asciiLower coding) er x := by
  simp only [needDec, h, Bool.false_eq_true, if_false]

private theorem needEnc_of {coding : Bytes} (er d : Bytes) (h : identityEnc.contains (asciiLower coding) = false) :
    needEnc coding er d = .enc (asciiLower coding) er d := by
  simp only [needEnc, h, Bool.false_eq_true, if_false]

/-- the cache after an op is the old one, or the entry made from the op's single uncached codec call -/
private theorem stepWith_cache (s : State) (op : Op) (fresh : Res) :
    (stepWith s op fresh).1.cache = s.cache ∨
    (∃ n e x d, need s op = .dec n e x ∧ fresh = .ok d ∧ cachedDec.contains n = true ∧
      (stepWith s op fresh).1.cache = some ⟨x, n, e, d⟩) ∨
    (∃ n e d x, need s op = .enc n e d ∧ fresh = .ok x ∧ cachedDec.contains n = true ∧
      (stepWith s op fresh).1.cache = some ⟨x, n, e, d⟩) := by
  cases op with
  | dec x c e =>
    rcases decodeStep_cache s.cache x c e fresh with h | ⟨h1, h2, d, h3, h4⟩
    · left; simpa [stepWith] using h
    · right; left
      exact ⟨_, e, x, d, needDec_of e x h1, h3, h2, by simpa [stepWith] using h4⟩
  | enc d c e =>
    rcases encodeStep_cache s.cache d c e fresh with h | ⟨h1, h2, x, h3, h4⟩
    · left; simpa [stepWith] using h
    · right; right
      exact ⟨_, e, d, x, needEnc_of e d h1, h3, h2, by simpa [stepWith] using h4⟩
  | setContent i v =>
    cases v with
    | none => left; simp [stepWith, setContent, setMsg_cache]
    | some v =>
      have hc : (stepWith s (.setContent i (some v)) fresh).1.cache =
          (encodeStep s.cache v (ceOrIdentity (s.msg i).ce) strictB fresh).2 := by
        simp only [stepWith, setMsg_cache]
        exact setContent_cache _ _ _ _
      rcases encodeStep_cache s.cache v (ceOrIdentity (s.msg i).ce) strictB fresh with h | ⟨h1, h2, x, h3, h4⟩
      · left; rw [hc, h]
      · right; right
        exact ⟨_, strictB, v, x, needEnc_of strictB v h1, h3, h2, by rw [hc, h4]⟩
  | getContent i st =>
    have hc : (stepWith s (.getContent i st) fresh).1.cache = (getContent s.cache (s.msg i) st fresh).2 := by
      simp [stepWith]
    rcases getContent_cache s.cache (s.msg i) st fresh with h | ⟨raw, ce, hr, hce, he, h⟩
    · left; rw [hc, h]
    · rcases decodeStep_cache s.cache raw ce strictB fresh with h' | ⟨h1, h2, d, h3, h4⟩
      · left; rw [hc, h, h']
      · right; left
        refine ⟨_, strictB, raw, d, ?_, h3, h2, by rw [hc, h, h4]⟩
        simp only [need, needGet, hr, hce, he, Bool.false_eq_true, if_false]
        exact needDec_of strictB raw h1
  | mdecode i st =>
    have hc : (stepWith s (.mdecode i st) fresh).1.cache = (msgDecode s.cache (s.msg i) st fresh).2.1 := by
      simp [stepWith, setMsg_cache]
    -- the cache after Message.decode is the cache after its get_content
    have hmd : (msgDecode s.cache (s.msg i) st fresh).2.1 = s.cache ∨
        (∃ raw, (s.msg i).raw = some raw ∧ raw.isEmpty = false ∧
          (msgDecode s.cache (s.msg i) st fresh).2.1 = (getContent s.cache (s.msg i) st fresh).2) := by
      unfold msgDecode
      cases hr : (s.msg i).raw with
      | none => left; rfl
      | some raw =>
        cases he : raw.isEmpty
        · right
          refine ⟨raw, rfl, he, ?_⟩
          simp only [he, Bool.false_eq_true, if_false]
          generalize getContent s.cache (s.msg i) st fresh = p
          obtain ⟨r, c'⟩ := p
          cases r with
          | ok d =>
            simp only
            rw [setContent_cache]
            exact encodeStep_identity_cache _ _ _ _ _ (by show identityEnc.contains (asciiLower identityB) = true; decide)
          | _ => rfl
        · left; simp only [he, if_true]
    rcases hmd with h | ⟨raw0, hr0, he0, h⟩
    · left; rw [hc, h]
    · rcases getContent_cache s.cache (s.msg i) st fresh with hg | ⟨raw, ce, hr, hce, he, hg⟩
      · left; rw [hc, h, hg]
      · rcases decodeStep_cache s.cache raw ce strictB fresh with h' | ⟨h1, h2, d, h3, h4⟩
        · left; rw [hc, h, hg, h']
        · right; left
          refine ⟨_, strictB, raw, d, ?_, h3, h2, by rw [hc, h, hg, h4]⟩
          have he0' : raw.isEmpty = false := by
            have := Option.some.inj (hr.symm.trans hr0)
            rw [this]; exact he0
          simp only [need, needGet, hr, hce, he, he0', Bool.false_eq_true, if_false]
          exact needDec_of strictB raw h1
  | mencode i cd =>
    have hc : (stepWith s (.mencode i cd) fresh).1.cache =
        (setContent s.cache { s.msg i with ce := some cd } (s.msg i).raw fresh).2.1 := by
      simp only [stepWith, setMsg_cache, msgEncode]
      generalize setContent s.cache { s.msg i with ce := some cd } (s.msg i).raw fresh = p
      obtain ⟨r, c', m'⟩ := p
      cases r <;> simp only <;> split <;> rfl
    cases hr : (s.msg i).raw with
    | none => left; rw [hc, hr]; rfl
    | some raw =>
      rw [hr, setContent_cache] at hc
      rcases encodeStep_cache s.cache raw (ceOrIdentity (some cd)) strictB fresh with h | ⟨h1, h2, x, h3, h4⟩
      · left; rw [hc]; exact h
      · right; right
        refine ⟨_, strictB, raw, x, ?_, h3, h2, by rw [hc]; exact h4⟩
        simp only [need, hr]
        exact needEnc_of strictB raw h1
  | setRaw i v => left; simp [stepWith, setMsg_cache]
  | setCe i v => left; simp [stepWith, setMsg_cache]
  | setTe i on => left; simp [stepWith, setMsg_cache]
  | setCl i n => left; simp [stepWith, setMsg_cache]

/-- any predicate on cache entries that holds for entries made from true codec facts is preserved -/
private theorem step_pres (C : Codecs) (P : Entry → Prop) (s : State) (op : Op)
    (hP : ∀ e, s.cache = some e → P e)
    (hd : ∀ n e x d, need s op = .dec n e x → C.dec n e x = .ok d → cachedDec.contains n = true → P ⟨x, n, e, d⟩)
    (he : ∀ n e d x, need s op = .enc n e d → C.enc n e d = .ok x → cachedDec.contains n = true → P ⟨x, n, e, d⟩) :
    ∀ e, (step C s op).1.cache = some e → P e := by
  intro ent hent
  unfold step at hent
  rcases stepWith_cache s op (freshOf C s op) with h | ⟨n, e, x, d, hn, hf, hc, h⟩ | ⟨n, e, d, x, hn, hf, hc, h⟩
  · rw [h] at hent; exact hP ent hent
  · rw [h] at hent
    cases hent
    apply hd n e x d hn _ hc
    simpa [freshOf, hn] using hf
  · rw [h] at hent
    cases hent
    apply he n e d x hn _ hc
    simpa [freshOf, hn] using hf

private theorem step_inv (C : Codecs) (s : State) (op : Op) (hi : Inv C s.cache) :
    Inv C (step C s op).1.cache := by
  apply step_pres C (fun e => kindOf e.coding = .cached ∧ C.dec e.coding e.errors e.encoded = .ok e.decoded) s op hi
  · intro n e x d _ hdec hc
    exact ⟨(kind_cached_iff n).mpr hc, hdec⟩
  · intro n e d x _ henc hc
    exact ⟨(kind_cached_iff n).mpr hc, C.roundtrip n e d x ((kind_cached_iff n).mpr hc) henc⟩

private theorem run_inv' (C : Codecs) (ops : List Op) : ∀ s, Inv C s.cache → Inv C (run C s ops).1.cache := by
  induction ops with
  | nil => intro s h; exact h
  | cons op ops ih =>
    intro s h
    simp only [run]
    exact ih _ (step_inv C s op h)

/-- every state reached by any history from an empty cache satisfies the invariant -/
private theorem run_inv (C : Codecs) (s0 : State) (h0 : s0.cache = none) (ops : List Op) :
    Inv C (run C s0 ops).1.cache :=
  run_inv' C ops s0 (by intro e he; rw [h0] at he; cases he)

/-! ### results of `encoding.decode` / `encoding.encode` under the invariant -/

private theorem decodeStep_res {C : Codecs} {c : Cache} (hi : Inv C c) (x coding er : Bytes) (fresh : Res)
    (hf : identityDec.contains (asciiLower coding) = false → fresh = C.dec (asciiLower coding) er x) :
    (decodeStep c x coding er fresh).1 = uncachedDec C coding er x := by
  unfold decodeStep uncachedDec
  dsimp only
  cases h : decHit c x (asciiLower coding) er with
  | some d =>
    obtain ⟨e, hc, hx, hn, her, hd⟩ := decHit_some h
    obtain ⟨hk, hdec⟩ := hi e hc
    rw [hn] at hk
    rw [hn, hx, her, hd] at hdec
    have hni := (cached_facts ((kind_cached_iff _).mp hk)).1
    simp only [hni, Bool.false_eq_true, if_false, hdec]
  | none =>
    cases hid : identityDec.contains (asciiLower coding)
    · simp [hf hid]
    · simp

private theorem decodeStep_hit {c : Cache} {x coding er d : Bytes} (fresh : Res)
    (h : decHit c x (asciiLower coding) er = some d) : decodeStep c x coding er fresh = (.ok d, c) := by
  unfold decodeStep
  dsimp only
  rw [h]

private theorem decodeStep_identityKind {C : Codecs} {c : Cache} (hi : Inv C c) (x coding er : Bytes) (fresh : Res)
    (hk : kindOf (asciiLower coding) = .identity) : decodeStep c x coding er fresh = (.ok x, c) := by
  have hnc : kindOf (asciiLower coding) ≠ .cached := by rw [hk]; decide
  have hcd : cachedDec.contains (asciiLower coding) = false := by
    cases h : cachedDec.contains (asciiLower coding)
    · rfl
    · exact absurd ((kind_cached_iff _).mpr h) hnc
  unfold decodeStep
  dsimp only
  rw [decHit_none_of_kind hi hnc, (kind_identity_iff _).mp hk]
  simp only [hcd, if_true, Bool.false_eq_true, if_false]

private theorem encodeStep_identityKind {C : Codecs} {c : Cache} (hi : Inv C c) (d coding er : Bytes) (fresh : Res)
    (hk : kindOf (asciiLower coding) = .identity) : encodeStep c d coding er fresh = (.ok d, c) := by
  have hnc : kindOf (asciiLower coding) ≠ .cached := by rw [hk]; decide
  have hcd : cachedDec.contains (asciiLower coding) = false := by
    cases h : cachedDec.contains (asciiLower coding)
    · rfl
    · exact absurd ((kind_cached_iff _).mpr h) hnc
  unfold encodeStep
  dsimp only
  rw [tbl_identity, tbl_cached, encHit_none_of_kind hi hnc, (kind_identity_iff _).mp hk]
  simp only [hcd, if_true, Bool.false_eq_true, if_false]

private theorem encodeStep_unknownKind {C : Codecs} {c : Cache} (hi : Inv C c) (d coding er : Bytes) (fresh : Res)
    (hk : kindOf (asciiLower coding) = .unknown) (hf : fresh = C.enc (asciiLower coding) er d) :
    encodeStep c d coding er fresh = (.verr, c) := by
  have hnc : kindOf (asciiLower coding) ≠ .cached := by rw [hk]; decide
  have hid : identityDec.contains (asciiLower coding) = false := by
    cases h : identityDec.contains (asciiLower coding)
    · rfl
    · have := (kind_identity_iff _).mpr h
      rw [hk] at this; cases this
  unfold encodeStep
  dsimp only
  rw [tbl_identity, encHit_none_of_kind hi hnc, hid, hf, C.unknown_enc _ _ _ hk]
  simp

/-- a cached-kind coding always encodes; the bytes decode back (uncached decoder) to the input, the
    following decode of these bytes is a cache hit, and the bytes are either the cache entry's or fresh -/
private theorem encodeStep_cachedKind {C : Codecs} {c : Cache} (hi : Inv C c) (d coding er : Bytes) (fresh : Res)
    (hk : kindOf (asciiLower coding) = .cached) (hf : fresh = C.enc (asciiLower coding) er d) :
    ∃ x c', encodeStep c d coding er fresh = (.ok x, c') ∧ C.dec (asciiLower coding) er x = .ok d ∧
      decHit c' x (asciiLower coding) er = some d ∧
      (encHit c d (asciiLower coding) er = some x ∨
        (encHit c d (asciiLower coding) er = none ∧ C.enc (asciiLower coding) er d = .ok x)) := by
  have hcd := (kind_cached_iff _).mp hk
  have hid := (cached_facts hcd).1
  unfold encodeStep
  dsimp only
  rw [tbl_identity, tbl_cached]
  cases h : encHit c d (asciiLower coding) er with
  | some x =>
    obtain ⟨e, hc, hd, hn, her, hx⟩ := encHit_some h
    obtain ⟨_, hdec⟩ := hi e hc
    rw [hn, hx, her, hd] at hdec
    refine ⟨x, c, rfl, hdec, ?_, Or.inl rfl⟩
    subst hc
    simp [decHit, hd, hn, her, hx]
  | none =>
    obtain ⟨x, hx⟩ := C.enc_total (asciiLower coding) er d hk
    refine ⟨x, some ⟨x, asciiLower coding, er, d⟩, ?_, C.roundtrip _ _ _ _ hk hx, by simp [decHit], Or.inr ⟨rfl, hx⟩⟩
    simp only [hid, hf, hx, hcd, Bool.false_eq_true, if_false, if_true]

/-! ### the theorems -/

/-- **C31 (the cache is transparent for decoding).** In every state reachable by any call history from an
    empty cache, `encoding.decode(x, coding, errors)` returns exactly what the uncached codec returns —
    bytes, `str`, ValueError or TypeError alike, for every coding name in any case. -/
theorem decode_transparent (C : Codecs) (s0 : State) (h0 : s0.cache = none) (ops : List Op)
    (x coding errors : Bytes) :
    (step C (run C s0 ops).1 (.dec x coding errors)).2 = uncachedDec C coding errors x := by
  have hi := run_inv C s0 h0 ops
  generalize (run C s0 ops).1 = s at hi
  have := decodeStep_res hi x coding errors (freshOf C s (.dec x coding errors))
    (by intro h; simp [freshOf, need, needDec_of errors x h])
  simpa [step, stepWith] using this

/-- **C31 (the cache is semantically transparent for encoding).** In every reachable state, a compressed
    coding always encodes, and whatever `encoding.encode(d, coding, errors)` returns for an identity or
    compressed coding decodes (uncached) back to `d`. -/
theorem encode_semantically_transparent (C : Codecs) (s0 : State) (h0 : s0.cache = none) (ops : List Op)
    (d coding errors : Bytes) :
    (kindOf (asciiLower coding) = .cached →
      ∃ x, (step C (run C s0 ops).1 (.enc d coding errors)).2 = .ok x) ∧
    (kindOf (asciiLower coding) = .identity ∨ kindOf (asciiLower coding) = .cached →
      ∀ x, (step C (run C s0 ops).1 (.enc d coding errors)).2 = .ok x → uncachedDec C coding errors x = .ok d) := by
  have hi := run_inv C s0 h0 ops
  generalize (run C s0 ops).1 = s at hi
  have hres : (step C s (.enc d coding errors)).2 =
      (encodeStep s.cache d coding errors (freshOf C s (.enc d coding errors))).1 := by
    simp [step, stepWith]
  have hcached : kindOf (asciiLower coding) = .cached →
      ∃ x, (step C s (.enc d coding errors)).2 = .ok x ∧ C.dec (asciiLower coding) errors x = .ok d ∧
        identityDec.contains (asciiLower coding) = false := by
    intro hk
    have hid := (cached_facts ((kind_cached_iff _).mp hk)).1
    obtain ⟨x, c', he, hdec, _, _⟩ := encodeStep_cachedKind hi d coding errors (freshOf C s (.enc d coding errors)) hk
      (by simp [freshOf, need, needEnc_of errors d (tbl_identity ▸ hid)])
    exact ⟨x, by rw [hres, he], hdec, hid⟩
  constructor
  · intro hk
    obtain ⟨x, hx, _⟩ := hcached hk
    exact ⟨x, hx⟩
  · rintro (hk | hk) x hx
    · rw [hres, encodeStep_identityKind hi d coding errors _ hk] at hx
      cases hx
      simp only [uncachedDec, (kind_identity_iff _).mp hk, if_true]
    · obtain ⟨x', hx', hdec, hid⟩ := hcached hk
      rw [hx'] at hx
      cases hx
      simp only [uncachedDec, hid, Bool.false_eq_true, if_false, hdec]

/-! ### `Message.set_content` / `get_content` under the invariant -/

private theorem fixLen_raw (m : Msg) : (fixLen m).raw = m.raw := by unfold fixLen; split <;> rfl
private theorem fixLen_ce (m : Msg) : (fixLen m).ce = m.ce := by unfold fixLen; split <;> rfl
private theorem fixLen_te (m : Msg) : (fixLen m).te = m.te := by unfold fixLen; split <;> rfl

private theorem getContent_fix (c : Cache) (m : Msg) (st : Bool) (f : Res) :
    getContent c (fixLen m) st f = getContent c m st f := by
  unfold getContent
  rw [fixLen_raw, fixLen_ce]

private theorem kind_eff_identityB : kindOf (asciiLower identityB) = .identity := by decide

/-- a header whose effective name is not an identity name is present and non-empty -/
private theorem hdr_of_nonidentity {ce : Option Bytes} (h : kindOf (effName ce) ≠ .identity) :
    ∃ x, ce = some x ∧ x.isEmpty = false ∧ effName ce = asciiLower x := by
  cases ce with
  | none => exact absurd kind_eff_identityB h
  | some x =>
    cases hx : x.isEmpty
    · exact ⟨x, rfl, hx, by simp [effName, ceOrIdentity, hx]⟩
    · exfalso; apply h
      simp only [effName, ceOrIdentity, hx, if_true]
      exact kind_eff_identityB

private theorem not_identity_contains {n : Bytes} (h : kindOf n ≠ .identity) : identityEnc.contains n = false := by
  rw [tbl_identity]
  cases hc : identityDec.contains n
  · rfl
  · exact absurd ((kind_identity_iff n).mpr hc) h

private theorem setContent_identity {C : Codecs} {c : Cache} (hi : Inv C c) (m : Msg) (v : Bytes) (fresh : Res)
    (hk : kindOf (effName m.ce) = .identity) :
    setContent c m (some v) fresh = (.done, c, fixLen { m with raw := some v }) := by
  unfold setContent
  simp only
  rw [encodeStep_identityKind hi v _ strictB fresh hk]

private theorem setContent_unknown {C : Codecs} {c : Cache} (hi : Inv C c) (m : Msg) (v : Bytes) (fresh : Res)
    (hk : kindOf (effName m.ce) = .unknown) (hf : fresh = C.enc (effName m.ce) strictB v) :
    setContent c m (some v) fresh = (.done, c, fixLen { m with raw := some v, ce := none }) := by
  unfold setContent
  simp only
  rw [encodeStep_unknownKind hi v _ strictB fresh hk hf]

private theorem setContent_cached {C : Codecs} {c : Cache} (hi : Inv C c) (m : Msg) (v : Bytes) (fresh : Res)
    (hk : kindOf (effName m.ce) = .cached) (hf : fresh = C.enc (effName m.ce) strictB v) :
    ∃ x c', setContent c m (some v) fresh = (.done, c', fixLen { m with raw := some x }) ∧
      C.dec (effName m.ce) strictB x = .ok v ∧ decHit c' x (effName m.ce) strictB = some v ∧
      (encHit c v (effName m.ce) strictB = some x ∨
        (encHit c v (effName m.ce) strictB = none ∧ C.enc (effName m.ce) strictB v = .ok x)) := by
  obtain ⟨x, c', he, h1, h2, h3⟩ := encodeStep_cachedKind hi v (ceOrIdentity m.ce) strictB fresh hk hf
  refine ⟨x, c', ?_, h1, h2, h3⟩
  unfold setContent
  simp only
  rw [he]

/-- assigning content under an identity / compressed / unknown coding succeeds, and the next read returns it -/
private theorem get_after_set {C : Codecs} {c : Cache} (hi : Inv C c) (m : Msg) (v : Bytes) (fresh : Res)
    (hok : OkName (effName m.ce))
    (hf : identityEnc.contains (effName m.ce) = false → fresh = C.enc (effName m.ce) strictB v) :
    (setContent c m (some v) fresh).1 = .done ∧
    ∀ st f2, (getContent (setContent c m (some v) fresh).2.1 (setContent c m (some v) fresh).2.2 st f2).1 = .ok v := by
  rcases hok with hk | hk | hk
  · rw [setContent_identity hi m v fresh hk]
    refine ⟨rfl, ?_⟩
    intro st f2
    simp only [getContent_fix]
    unfold getContent
    simp only
    cases hce : m.ce with
    | none => rfl
    | some x =>
      simp only
      cases hx : x.isEmpty
      · have hk' : kindOf (asciiLower x) = .identity := by
          have : effName m.ce = asciiLower x := by simp [effName, ceOrIdentity, hce, hx]
          rw [← this]; exact hk
        simp only [Bool.false_eq_true, if_false]
        rw [decodeStep_identityKind hi v x strictB f2 hk']
      · rfl
  · have hni : kindOf (effName m.ce) ≠ .identity := by rw [hk]; decide
    obtain ⟨y, hce, hy, hn⟩ := hdr_of_nonidentity hni
    obtain ⟨x, c', hs, _, hhit, _⟩ := setContent_cached hi m v fresh hk (hf (not_identity_contains hni))
    rw [hs]
    refine ⟨rfl, ?_⟩
    intro st f2
    simp only [getContent_fix]
    unfold getContent
    simp only [hce, hy, Bool.false_eq_true, if_false]
    rw [hn] at hhit
    rw [decodeStep_hit f2 hhit]
  · have hni : kindOf (effName m.ce) ≠ .identity := by rw [hk]; decide
    rw [setContent_unknown hi m v fresh hk (hf (not_identity_contains hni))]
    refine ⟨rfl, ?_⟩
    intro st f2
    simp only [getContent_fix]
    rfl

/-! state-level plumbing -/

private theorem step_set (C : Codecs) (s : State) (i : Bool) (v : Option Bytes) :
    step C s (.setContent i v) =
      (({ s with cache := (setContent s.cache (s.msg i) v (freshOf C s (.setContent i v))).2.1 } : State).setMsg i
          (setContent s.cache (s.msg i) v (freshOf C s (.setContent i v))).2.2,
        (setContent s.cache (s.msg i) v (freshOf C s (.setContent i v))).1) := rfl

private theorem step_get (C : Codecs) (s : State) (i st : Bool) :
    (step C s (.getContent i st)).2 = (getContent s.cache (s.msg i) st (freshOf C s (.getContent i st))).1 := rfl

private theorem fresh_set (C : Codecs) (s : State) (i : Bool) (v : Bytes)
    (h : identityEnc.contains (effName (s.msg i).ce) = false) :
    freshOf C s (.setContent i (some v)) = C.enc (effName (s.msg i).ce) strictB v := by
  simp only [freshOf, need]
  rw [needEnc_of strictB v h]
  rfl

/-- **C31 (assign, then read back).** In every state reachable by any history, for a message whose
    Content-Encoding (any letter case; absent or empty = identity) is an identity name, a compressed coding
    or an unknown name: `set_content(v)` succeeds and the next `get_content()` returns exactly `v`. -/
theorem set_get_content (C : Codecs) (s0 : State) (h0 : s0.cache = none) (ops : List Op) (i : Bool) (v : Bytes)
    (hok : OkName (effName (((run C s0 ops).1.msg i).ce))) :
    (step C (run C s0 ops).1 (.setContent i (some v))).2 = .done ∧
    (step C (step C (run C s0 ops).1 (.setContent i (some v))).1 (.getContent i true)).2 = .ok v := by
  have hi := run_inv C s0 h0 ops
  generalize (run C s0 ops).1 = s at hi hok
  obtain ⟨h1, h2⟩ := get_after_set hi (s.msg i) v (freshOf C s (.setContent i (some v))) hok (fresh_set C s i v)
  rw [step_set]
  refine ⟨h1, ?_⟩
  rw [step_get]
  simp only [setMsg_cache, setMsg_msg]
  exact h2 true _

/-- an unknown coding is removed from the message by `set_content` (the body is stored as is) -/
theorem unknown_coding_removed (C : Codecs) (s0 : State) (h0 : s0.cache = none) (ops : List Op) (i : Bool) (v : Bytes)
    (hk : kindOf (effName (((run C s0 ops).1.msg i).ce)) = .unknown) :
    ((step C (run C s0 ops).1 (.setContent i (some v))).1.msg i).ce = none ∧
    ((step C (run C s0 ops).1 (.setContent i (some v))).1.msg i).raw = some v := by
  have hi := run_inv C s0 h0 ops
  generalize (run C s0 ops).1 = s at hi hk
  have hni : kindOf (effName (s.msg i).ce) ≠ .identity := by rw [hk]; decide
  rw [step_set, setMsg_msg,
    setContent_unknown hi (s.msg i) v _ hk (fresh_set C s i v (not_identity_contains hni))]
  exact ⟨by rw [fixLen_ce], by rw [fixLen_raw]⟩

private theorem setContent_len (c : Cache) (m : Msg) (v : Bytes) (fresh : Res)
    (h : (setContent c m (some v) fresh).1 = .done) :
    (m.te = false → ∃ raw, (setContent c m (some v) fresh).2.2.raw = some raw ∧
        (setContent c m (some v) fresh).2.2.cl = some raw.length) ∧
    (m.te = true → (setContent c m (some v) fresh).2.2.cl = m.cl) ∧
    (setContent c m (some v) fresh).2.2.te = m.te := by
  unfold setContent at h ⊢
  simp only at h ⊢
  generalize encodeStep c v (ceOrIdentity m.ce) strictB fresh = p at h ⊢
  obtain ⟨r, c'⟩ := p
  cases r with
  | ok x => cases hte : m.te <;> simp [fixLen]
  | verr => cases hte : m.te <;> simp [fixLen]
  | str => simp at h
  | terr => simp at h
  | nil => simp at h
  | done => simp at h

/-- **C31 (Content-Length).** After any history, whenever `set_content(v)` completes: without a
    Transfer-Encoding header the Content-Length header equals the length of the stored raw body; with one,
    the Content-Length header is left untouched.  (Holds for every coding, whatever the codec returns.) -/
theorem content_length_eq_raw_len_without_TE (C : Codecs) (s0 : State) (ops : List Op) (i : Bool) (v : Bytes)
    (h : (step C (run C s0 ops).1 (.setContent i (some v))).2 = .done) :
    (((run C s0 ops).1.msg i).te = false →
      ∃ raw, ((step C (run C s0 ops).1 (.setContent i (some v))).1.msg i).raw = some raw ∧
        ((step C (run C s0 ops).1 (.setContent i (some v))).1.msg i).cl = some raw.length) ∧
    (((run C s0 ops).1.msg i).te = true →
      ((step C (run C s0 ops).1 (.setContent i (some v))).1.msg i).cl = ((run C s0 ops).1.msg i).cl) ∧
    ((step C (run C s0 ops).1 (.setContent i (some v))).1.msg i).te = ((run C s0 ops).1.msg i).te := by
  generalize (run C s0 ops).1 = s at h ⊢
  rw [step_set] at h ⊢
  simp only [setMsg_msg]
  exact setContent_len _ _ _ _ h

/-! ### the raw body after an assignment (sentence 2 of the property) -/

private theorem raw_after_set {C : Codecs} {s : State} (hi : Inv C s.cache) (i : Bool) (v : Bytes)
    (hk : kindOf (effName (s.msg i).ce) = .cached) :
    ∃ x, ((step C s (.setContent i (some v))).1.msg i).raw = some x ∧
      C.dec (effName (s.msg i).ce) strictB x = .ok v ∧
      (encHit s.cache v (effName (s.msg i).ce) strictB = some x ∨
        (encHit s.cache v (effName (s.msg i).ce) strictB = none ∧ C.enc (effName (s.msg i).ce) strictB v = .ok x)) := by
  have hni : kindOf (effName (s.msg i).ce) ≠ .identity := by rw [hk]; decide
  obtain ⟨x, c', hs, h1, _, h3⟩ := setContent_cached hi (s.msg i) v _ hk (fresh_set C s i v (not_identity_contains hni))
  refine ⟨x, ?_, h1, h3⟩
  rw [step_set, setMsg_msg, hs, fixLen_raw]

/-- **C31 (raw body, lenient form — holds for ALL histories).** After `set_content(v)` under a compressed
    coding the stored raw body decodes to `v` under mitmproxy's own uncached decoder. -/
theorem raw_decodes_to_content_lenient (C : Codecs) (s0 : State) (h0 : s0.cache = none) (ops : List Op)
    (i : Bool) (v : Bytes) (hk : kindOf (effName (((run C s0 ops).1.msg i).ce)) = .cached) :
    ∃ raw, ((step C (run C s0 ops).1 (.setContent i (some v))).1.msg i).raw = some raw ∧
      C.dec (effName (((run C s0 ops).1.msg i).ce)) strictB raw = .ok v := by
  obtain ⟨x, h1, h2, _⟩ := raw_after_set (run_inv C s0 h0 ops) i v hk
  exact ⟨x, h1, h2⟩

/-- **C31 (raw body, strict reference decoder) — partial: exactly the F-C31a class excluded at the moment of
    the assignment.**  For ALL histories: unless the assignment is a cache hit on an entry that the strict
    reference decoder does not map to `v` (`lenientHit`), the stored raw body is accepted by the strict
    reference decoder and decodes to `v`. -/
theorem raw_decodes_to_content_partial_hit (C : Codecs) (s0 : State) (h0 : s0.cache = none) (ops : List Op)
    (i : Bool) (v : Bytes) (hk : kindOf (effName (((run C s0 ops).1.msg i).ce)) = .cached)
    (hg : lenientHit C (run C s0 ops).1.cache v (effName (((run C s0 ops).1.msg i).ce)) = false) :
    ∃ raw, ((step C (run C s0 ops).1 (.setContent i (some v))).1.msg i).raw = some raw ∧
      C.ref (effName (((run C s0 ops).1.msg i).ce)) raw = some v := by
  obtain ⟨x, h1, _, h3⟩ := raw_after_set (run_inv C s0 h0 ops) i v hk
  refine ⟨x, h1, ?_⟩
  rcases h3 with hhit | ⟨_, henc⟩
  · simpa [lenientHit, hhit] using hg
  · exact C.ref_enc _ _ _ _ hk henc

private theorem step_invRef (C : Codecs) (s : State) (op : Op) (hi : InvRef C s.cache)
    (hg : strictOp C s op = true) : InvRef C (step C s op).1.cache := by
  apply step_pres C (fun e => kindOf e.coding = .cached ∧ C.ref e.coding e.encoded = some e.decoded) s op hi
  · intro n e x d hn hdec hc
    have hk := (kind_cached_iff n).mpr hc
    refine ⟨hk, ?_⟩
    simpa [strictOp, hn, hk, hdec] using hg
  · intro n e d x _ henc hc
    exact ⟨(kind_cached_iff n).mpr hc, C.ref_enc n e d x ((kind_cached_iff n).mpr hc) henc⟩

private theorem run_invRef (C : Codecs) (ops : List Op) :
    ∀ s, InvRef C s.cache → strictHist C s ops = true → InvRef C (run C s ops).1.cache := by
  induction ops with
  | nil => intro s h _; exact h
  | cons op ops ih =>
    intro s h hg
    simp only [strictHist, Bool.and_eq_true] at hg
    simp only [run]
    exact ih _ (step_invRef C s op h hg.1) hg.2

/-- **C31 (raw body, strict reference decoder) — partial: histories without a lenient-only decode.**  For every
    history in which each successful decode of a compressed coding was of a body the strict reference decoder
    accepts with the same result (`strictHist`, decidable), the raw body stored by `set_content(v)` is accepted
    by the strict reference decoder and decodes to `v`. -/
theorem raw_decodes_to_content_partial (C : Codecs) (s0 : State) (h0 : s0.cache = none) (ops : List Op)
    (i : Bool) (v : Bytes) (hk : kindOf (effName (((run C s0 ops).1.msg i).ce)) = .cached)
    (hg : strictHist C s0 ops = true) :
    ∃ raw, ((step C (run C s0 ops).1 (.setContent i (some v))).1.msg i).raw = some raw ∧
      C.ref (effName (((run C s0 ops).1.msg i).ce)) raw = some v := by
  apply raw_decodes_to_content_partial_hit C s0 h0 ops i v hk
  have hr : InvRef C (run C s0 ops).1.cache :=
    run_invRef C ops s0 (by intro e he; rw [h0] at he; cases he) hg
  unfold lenientHit
  cases hh : encHit (run C s0 ops).1.cache v (effName (((run C s0 ops).1.msg i).ce)) strictB with
  | none => rfl
  | some x =>
    obtain ⟨e, hc, hd, hn, _, hx⟩ := encHit_some hh
    obtain ⟨_, href⟩ := hr e hc
    rw [hn, hx, hd] at href
    simp [href]

/-- the F-C31a history on the toy codecs: message 0 has an empty raw body under "br"; read it, assign `b""` -/
private def cexState : State := ⟨none, ⟨some [], some [0x62, 0x72], false, none⟩, emptyMsg⟩

/-- **C31 (raw body) — the full statement is FALSE (F-C31a).**  With the toy codecs (which satisfy every law):
    after reading the empty body, assigning the same (empty) content is a cache hit and leaves the empty raw
    body, which the strict reference decoder rejects. -/
theorem raw_decodes_to_content_counterexample : ¬ RawDecodesToContent toy := by
  intro h
  have := h cexState [.getContent false true] false [] rfl (by decide)
  revert this
  decide

/-! ### `Message.decode` followed by `Message.encode` -/

private theorem getContent_ok {c : Cache} {m : Msg} {f : Res} {v raw x : Bytes}
    (h : (getContent c m true f).1 = .ok v) (hr : m.raw = some raw) (hce : m.ce = some x)
    (he : x.isEmpty = false) : (decodeStep c raw x strictB f).1 = .ok v := by
  unfold getContent at h
  simp only [hr, hce, he, Bool.false_eq_true, if_false] at h
  generalize decodeStep c raw x strictB f = p at h ⊢
  obtain ⟨r, c'⟩ := p
  cases r <;> simp_all

private theorem getContent_st_eq {c : Cache} {m : Msg} {f : Res} {v : Bytes} (st : Bool)
    (h : (getContent c m true f).1 = .ok v) : getContent c m st f = getContent c m true f := by
  cases st with
  | true => rfl
  | false =>
    unfold getContent at h ⊢
    cases hr : m.raw with
    | none => rfl
    | some raw =>
      cases hce : m.ce with
      | none => rfl
      | some x =>
        cases he : x.isEmpty
        · simp only [hr, hce, he, Bool.false_eq_true, if_false] at h ⊢
          generalize decodeStep c raw x strictB f = p at h ⊢
          obtain ⟨r, c'⟩ := p
          cases r <;> simp_all
        · simp only [he, if_true]

/-- reading an empty raw body under an identity / compressed / unknown coding can only yield the empty content -/
private theorem get_empty {C : Codecs} {c : Cache} (hi : Inv C c) {m : Msg} {f : Res} {v : Bytes}
    (hok : OkName (effName m.ce)) (hr : m.raw = some [])
    (hf : ∀ x, m.ce = some x → x.isEmpty = false → identityDec.contains (asciiLower x) = false →
      f = C.dec (asciiLower x) strictB [])
    (h : (getContent c m true f).1 = .ok v) : v = [] := by
  cases hce : m.ce with
  | none =>
    unfold getContent at h
    simp only [hr, hce] at h
    cases h; rfl
  | some x =>
    cases he : x.isEmpty
    · have hd := getContent_ok h hr hce he
      rw [decodeStep_res hi [] x strictB f (hf x hce he)] at hd
      have hn : effName m.ce = asciiLower x := by simp [effName, ceOrIdentity, hce, he]
      rw [hn] at hok
      unfold uncachedDec at hd
      dsimp only at hd
      rcases hok with hk | hk | hk
      · rw [(kind_identity_iff _).mp hk] at hd
        simp only [if_true] at hd
        cases hd; rfl
      · rw [(cached_facts ((kind_cached_iff _).mp hk)).1, C.dec_empty _ _ hk] at hd
        simp only [Bool.false_eq_true, if_false] at hd
        cases hd; rfl
      · have hni : kindOf (asciiLower x) ≠ .identity := by rw [hk]; decide
        have hidd : identityDec.contains (asciiLower x) = false := by
          have := not_identity_contains hni
          rwa [tbl_identity] at this
        rw [hidd, C.unknown_dec _ _ _ hk] at hd
        simp at hd
    · unfold getContent at h
      simp only [hr, hce, he, if_true] at h
      cases h; rfl

/-- `Message.decode` on a message whose content reads as `v`: finishes, and the raw body is `v` afterwards -/
private theorem msgDecode_spec {C : Codecs} {c : Cache} (hi : Inv C c) (m : Msg) (st : Bool) (f : Res) (v : Bytes)
    (hok : OkName (effName m.ce))
    (hf : ∀ raw x, m.raw = some raw → m.ce = some x → x.isEmpty = false →
      identityDec.contains (asciiLower x) = false → f = C.dec (asciiLower x) strictB raw)
    (hi1 : Inv C (getContent c m st f).2)
    (h : (getContent c m true f).1 = .ok v) :
    (msgDecode c m st f).1 = .done ∧ (msgDecode c m st f).2.2.raw = some v := by
  cases hr : m.raw with
  | none =>
    unfold getContent at h
    simp [hr] at h
  | some raw =>
    cases he : raw.isEmpty
    · have hg : getContent c m st f = (.ok v, (getContent c m st f).2) := by
        rw [getContent_st_eq st h]
        exact Prod.ext h rfl
      have hmd : msgDecode c m st f = setContent (getContent c m st f).2 { m with ce := none } (some v) .verr := by
        unfold msgDecode
        simp only [hr, he, Bool.false_eq_true, if_false]
        rw [hg]
      rw [hmd, setContent_identity hi1 { m with ce := none } v .verr kind_eff_identityB]
      exact ⟨rfl, by rw [fixLen_raw]⟩
    · have hraw : raw = [] := List.isEmpty_iff.mp he
      subst hraw
      have hv : v = [] := get_empty hi hok hr (fun x hce hx hid => hf [] x hr hce hx hid) h
      subst hv
      have hmd : msgDecode c m st f = (.done, c, m) := by
        unfold msgDecode
        simp only [hr, List.isEmpty_nil, if_true]
      rw [hmd]
      exact ⟨rfl, hr⟩

private theorem msgEncode_state (c : Cache) (m : Msg) (cd : Bytes) (f : Res)
    (h : (setContent c { m with ce := some cd } m.raw f).1 = .done) :
    (msgEncode c m cd f).2 = (setContent c { m with ce := some cd } m.raw f).2 := by
  unfold msgEncode
  generalize setContent c { m with ce := some cd } m.raw f = p at h ⊢
  obtain ⟨r, c', m'⟩ := p
  simp only at h
  subst h
  simp only
  split <;> rfl

/-- `Message.encode(cd)` on a message with raw body `v`: the content reads as `v` afterwards; the call reports
    ValueError exactly for an unknown coding -/
private theorem msgEncode_spec {C : Codecs} {c : Cache} (hi : Inv C c) (m : Msg) (v cd : Bytes) (f : Res)
    (hr : m.raw = some v) (hok : OkName (effName (some cd)))
    (hf : identityEnc.contains (effName (some cd)) = false → f = C.enc (effName (some cd)) strictB v) :
    (∀ st f2, (getContent (msgEncode c m cd f).2.1 (msgEncode c m cd f).2.2 st f2).1 = .ok v) ∧
    (kindOf (effName (some cd)) = .unknown → (msgEncode c m cd f).1 = .verr) ∧
    (kindOf (effName (some cd)) ≠ .unknown → (msgEncode c m cd f).1 = .done) := by
  obtain ⟨raw, ce, te, cl⟩ := m
  simp only at hr
  subst hr
  obtain ⟨h1, h2⟩ := get_after_set hi ⟨some v, some cd, te, cl⟩ v f hok hf
  have hst : (msgEncode c ⟨some v, ce, te, cl⟩ cd f).2 = (setContent c ⟨some v, some cd, te, cl⟩ (some v) f).2 :=
    msgEncode_state c ⟨some v, ce, te, cl⟩ cd f h1
  have hme : ∀ p, setContent c ⟨some v, some cd, te, cl⟩ (some v) f = p →
      msgEncode c ⟨some v, ce, te, cl⟩ cd f =
        (match p with
         | (.done, c', m') => if m'.ce.isNone then (.verr, c', m') else (.done, c', m')
         | (r, c', m') => (r, c', m')) := by
    intro p hp
    rw [← hp]
    rfl
  refine ⟨?_, ?_, ?_⟩
  · intro st f2
    rw [hst]
    exact h2 st f2
  · intro hk
    have hni : kindOf (effName (some cd)) ≠ .identity := by rw [hk]; decide
    rw [hme _ (setContent_unknown hi ⟨some v, some cd, te, cl⟩ v f hk (hf (not_identity_contains hni)))]
    simp [fixLen_ce]
  · intro hnu
    rcases hok with hk | hk | hk
    · rw [hme _ (setContent_identity hi ⟨some v, some cd, te, cl⟩ v f hk)]
      simp [fixLen_ce]
    · have hni : kindOf (effName (some cd)) ≠ .identity := by rw [hk]; decide
      obtain ⟨x, c', hs, _⟩ := setContent_cached hi ⟨some v, some cd, te, cl⟩ v f hk (hf (not_identity_contains hni))
      rw [hme _ hs]
      simp [fixLen_ce]
    · exact absurd hk hnu

private theorem step_mdecode (C : Codecs) (s : State) (i st : Bool) :
    step C s (.mdecode i st) =
      (({ s with cache := (msgDecode s.cache (s.msg i) st (freshOf C s (.mdecode i st))).2.1 } : State).setMsg i
          (msgDecode s.cache (s.msg i) st (freshOf C s (.mdecode i st))).2.2,
        (msgDecode s.cache (s.msg i) st (freshOf C s (.mdecode i st))).1) := rfl

private theorem step_mencode (C : Codecs) (s : State) (i : Bool) (cd : Bytes) :
    step C s (.mencode i cd) =
      (({ s with cache := (msgEncode s.cache (s.msg i) cd (freshOf C s (.mencode i cd))).2.1 } : State).setMsg i
          (msgEncode s.cache (s.msg i) cd (freshOf C s (.mencode i cd))).2.2,
        (msgEncode s.cache (s.msg i) cd (freshOf C s (.mencode i cd))).1) := rfl

/-- **C31 (decode, then re-encode).** In every state reachable by any history: if a message (header coding an
    identity name, a compressed coding or unknown, any case) reads as content `v`, then after `Message.decode()`
    followed by `Message.encode(cd)` — `cd` an identity name, a compressed coding or an unknown name — it still
    reads as `v`.  `decode` succeeds; `encode` reports ValueError exactly when `cd` is unknown (the body is
    then kept unencoded). -/
theorem decode_encode_preserves (C : Codecs) (s0 : State) (h0 : s0.cache = none) (ops : List Op)
    (i st : Bool) (v cd : Bytes)
    (hhdr : OkName (effName (((run C s0 ops).1.msg i).ce))) (hcd : OkName (effName (some cd)))
    (hget : (step C (run C s0 ops).1 (.getContent i true)).2 = .ok v) :
    (step C (run C s0 ops).1 (.mdecode i st)).2 = .done ∧
    (kindOf (effName (some cd)) = .unknown →
      (step C (step C (run C s0 ops).1 (.mdecode i st)).1 (.mencode i cd)).2 = .verr) ∧
    (kindOf (effName (some cd)) ≠ .unknown →
      (step C (step C (run C s0 ops).1 (.mdecode i st)).1 (.mencode i cd)).2 = .done) ∧
    (step C (step C (step C (run C s0 ops).1 (.mdecode i st)).1 (.mencode i cd)).1 (.getContent i true)).2 = .ok v := by
  have hi := run_inv C s0 h0 ops
  generalize (run C s0 ops).1 = s at hi hhdr hget
  -- the uncached call named for get_content / Message.decode
  have hfg : ∀ raw x, (s.msg i).raw = some raw → (s.msg i).ce = some x → x.isEmpty = false →
      identityDec.contains (asciiLower x) = false →
      freshOf C s (.getContent i true) = C.dec (asciiLower x) strictB raw := by
    intro raw x hr hce hx hid
    simp only [freshOf, need, needGet, hr, hce, hx, Bool.false_eq_true, if_false]
    rw [needDec_of strictB raw hid]
  have hsame : ∀ st', (s.msg i).raw ≠ none → (∀ raw, (s.msg i).raw = some raw → raw.isEmpty = false) →
      freshOf C s (.mdecode i st') = freshOf C s (.getContent i true) := by
    intro st' _ hne
    cases hr : (s.msg i).raw with
    | none => simp [freshOf, need, needGet, hr]
    | some raw => simp [freshOf, need, hr, hne raw hr]
  rw [step_get] at hget
  -- split on the raw body: missing is impossible, empty makes decode a no-op, otherwise decode = get + identity set
  have hdec : (msgDecode s.cache (s.msg i) st (freshOf C s (.mdecode i st))).1 = .done ∧
      (msgDecode s.cache (s.msg i) st (freshOf C s (.mdecode i st))).2.2.raw = some v := by
    cases hr : (s.msg i).raw with
    | none =>
      unfold getContent at hget
      simp [hr] at hget
    | some raw =>
      cases he : raw.isEmpty
      · have hfe : freshOf C s (.mdecode i st) = freshOf C s (.getContent i true) :=
          hsame st (by rw [hr]; simp) (by intro r hr'; rw [hr] at hr'; cases hr'; exact he)
        rw [hfe]
        apply msgDecode_spec hi (s.msg i) st _ v hhdr hfg _ hget
        have := step_inv C s (.getContent i st) hi
        have hfe2 : freshOf C s (.getContent i st) = freshOf C s (.getContent i true) := by
          simp [freshOf, need]
        simpa [step, stepWith, hfe2] using this
      · -- empty raw body: `Message.decode` returns at once, whatever `fresh` is
        have hraw : raw = [] := List.isEmpty_iff.mp he
        subst hraw
        have hv : v = [] := get_empty hi hhdr hr (fun x hce hx hid => hfg [] x hr hce hx hid) hget
        subst hv
        have hmd : msgDecode s.cache (s.msg i) st (freshOf C s (.mdecode i st)) = (.done, s.cache, s.msg i) := by
          unfold msgDecode
          simp only [hr, List.isEmpty_nil, if_true]
        rw [hmd]
        exact ⟨rfl, hr⟩
  have hi1 := step_inv C s (.mdecode i st) hi
  rw [step_mdecode] at hi1 ⊢
  simp only [setMsg_cache] at hi1
  refine ⟨hdec.1, ?_⟩
  generalize hs1 : (({ s with cache := (msgDecode s.cache (s.msg i) st (freshOf C s (.mdecode i st))).2.1 } : State).setMsg i
      (msgDecode s.cache (s.msg i) st (freshOf C s (.mdecode i st))).2.2) = s1
  have hc1 : Inv C s1.cache := by rw [← hs1, setMsg_cache]; exact hi1
  have hr1 : (s1.msg i).raw = some v := by rw [← hs1, setMsg_msg]; exact hdec.2
  have hf2 : identityEnc.contains (effName (some cd)) = false →
      freshOf C s1 (.mencode i cd) = C.enc (effName (some cd)) strictB v := by
    intro hid
    simp only [freshOf, need, hr1]
    rw [needEnc_of strictB v hid]
    rfl
  obtain ⟨hg, hu, hd⟩ := msgEncode_spec hc1 (s1.msg i) v cd (freshOf C s1 (.mencode i cd)) hr1 hcd hf2
  rw [step_mencode]
  refine ⟨hu, hd, ?_⟩
  rw [step_get]
  simp only [setMsg_cache, setMsg_msg]
  exact hg true _

/-! ### non-vacuity: the hypotheses are satisfiable, the model is not constant (kernel-evaluated on `toy`) -/

private def brN : Bytes := [0x62, 0x72]                -- "br"
private def brU : Bytes := [0x42, 0x52]                -- "BR"
private def gzipN : Bytes := [0x67, 0x7a, 0x69, 0x70]  -- "gzip"
private def fooN : Bytes := [0x66, 0x6f, 0x6f]         -- "foo"
private def utf8N : Bytes := [0x75, 0x74, 0x66, 0x38]  -- "utf8"
/-- message 0: peer body `1 :: [7, 8]` (toy-compressed `[7, 8]`) under Content-Encoding "BR" -/
private def okState : State := ⟨none, ⟨some [1, 7, 8], some brU, false, none⟩, emptyMsg⟩

-- kinds really occur, and `OkName` covers absent / empty / mixed-case / unknown headers
example : kindOf gzipN = .cached ∧ kindOf brN = .cached ∧ kindOf identityB = .identity ∧ kindOf fooN = .unknown ∧
    kindOf utf8N = .pytext := by decide
example : OkName (effName none) ∧ OkName (effName (some [])) ∧ OkName (effName (some brU)) ∧ OkName (effName (some fooN)) := by
  refine ⟨Or.inl ?_, Or.inl ?_, Or.inr (Or.inl ?_), Or.inr (Or.inr ?_)⟩ <;> decide
-- the cache is really used: reading fills it, and the following assignment is a hit that keeps the peer's bytes
example : (run toy okState [.getContent false true]).1.cache = some ⟨[1, 7, 8], brN, strictB, [7, 8]⟩ := by decide
example : (run toy okState [.getContent false true]).2 = [.ok [7, 8]] := by decide
example : (run toy ⟨none, ⟨some [2, 7], some brN, false, none⟩, emptyMsg⟩
    [.getContent false true, .setContent false (some [7]), .getContent false true]).1.m0.raw = some [2, 7] := by decide
-- … while an interleaved call on another body evicts the entry and the canonical stream is stored
example : (run toy ⟨none, ⟨some [2, 7], some brN, false, none⟩, emptyMsg⟩
    [.getContent false true, .enc [9] gzipN strictB, .setContent false (some [7]), .getContent false true]).1.m0.raw
    = some [1, 7] := by decide
-- the decoder does reject something; text codecs let TypeError through and leave the message alone
example : (step toy okState (.dec [3, 3] brN strictB)).2 = .verr := by decide
example : (step toy ⟨none, ⟨some [5], some utf8N, false, some 1⟩, emptyMsg⟩ (.setContent false (some [6]))) =
    (⟨none, ⟨some [5], some utf8N, false, some 1⟩, emptyMsg⟩, .terr) := by decide
-- hypotheses of `decode_encode_preserves` hold on a non-trivial state, and the pipeline does what it says
example : (step toy okState (.getContent false true)).2 = .ok [7, 8] := by decide
example : (run toy okState [.mdecode false true, .mencode false gzipN, .getContent false true]).2 =
    [.done, .done, .ok [7, 8]] := by decide
example : (run toy okState [.mdecode false true, .mencode false fooN, .getContent false true]) =
    (⟨some ⟨[1, 7, 8], brN, strictB, [7, 8]⟩, ⟨some [7, 8], none, false, some 2⟩, emptyMsg⟩, [.done, .verr, .ok [7, 8]]) := by decide
-- the guards are satisfiable and discriminate: strict history vs. the F-C31a history
example : strictHist toy okState [.getContent false true, .setContent false (some [7, 8])] = true := by decide
example : strictHist toy cexState [.getContent false true] = false := by decide
example : lenientHit toy (run toy cexState [.getContent false true]).1.cache [] brN = true := by decide
example : lenientHit toy (run toy okState [.getContent false true]).1.cache [7, 8] brN = false := by decide
-- Content-Length: written without Transfer-Encoding, untouched with it
example : ((step toy okState (.setContent false (some [4, 4, 4]))).1.m0.cl,
    (step toy ⟨none, ⟨none, some brN, true, some 99⟩, emptyMsg⟩ (.setContent false (some [4]))).1.m0.cl) =
    (some 4, some 99) := by decide

end MitmVerif.Props.C31
