/-
  C32 — property theorems (model: Model/C32.lean, helper lemmas: Lemmas/C32.lean).

  Full statement (`TextRoundtrips`): for every codec library satisfying the codec law for the text at hand, every message and
  every text, `get_text (set_text t) = t`.  It is FALSE for the code as it stands (three recorded findings):
  * `text_roundtrip_counterexample_bom_prefix`   (F-C32a)  Latin-1 text `ÿþab` is read back as UTF-16
  * `text_roundtrip_counterexample_body_decl`    (F-C32b)  `text/html` + `<meta charset="latin-1">é` is written as UTF-8, read as Latin-1
  * `text_roundtrip_counterexample_bom_codec`    (F-C32c)  `charset=utf-16` reads back with a leading U+FEFF
  Proved for ALL content types / texts / codec libraries:
  * `text_roundtrip_partial`            under the guard "the body-sensitive inference on the produced message names the codec
                                        that was used to write it" (`inferEncoding ct' body' = inferEncoding ct' []`)
  * `text_roundtrip_nonstrict_partial`  the same for surrogate-escaped texts read with `get_text(strict=False)`; the strict
                                        getter then returns the text or raises, never another string
  * `charset_updated_on_fallback`       a text the declared codec cannot encode rewrites the header so that it parses to
                                        `charset=utf-8` (parse ∘ assemble), and the body is its UTF-8/surrogateescape encoding
  * `header_untouched_without_fallback`
-/
import MitmVerif.Lemmas.C32
namespace MitmVerif.Props.C32
open MitmVerif MitmVerif.C32

/-- the codec that `set_text` uses for this message and text reads its own output back, and strict UTF-8 reads back the
    UTF-8 encoding of this text (true of Python's text codecs for strings of Unicode scalar values) -/
def CodecLaw {τ : Type} (L : Lib τ) (m : Msg) (t : τ) : Prop :=
  (∀ b, L.enc (inferEncoding (ctOf m) []) t = some b → L.dec (inferEncoding (ctOf m) []) b = some t) ∧
  L.dec (S "utf-8") (L.u8se t) = some t

/-- the reader picks the codec the writer used: no BOM-like prefix, no in-body declaration of another codec, no BOM-emitting codec -/
abbrev ReaderAgrees (m' : Msg) : Prop := inferEncoding (ctOf m') m'.content = inferEncoding (ctOf m') []

/-- the full statement of the property -/
def TextRoundtrips : Prop :=
  ∀ (τ : Type) (L : Lib τ) (m : Msg) (t : τ), CodecLaw L m t → getText L (setText L m t) true = some t

private theorem setText_some {τ : Type} (L : Lib τ) (m : Msg) (t : τ) (b : Bytes)
    (h : L.enc (inferEncoding (ctOf m) []) t = some b) : setText L m t = { m with content := b } := by
  unfold setText; rw [h]

private theorem setText_none {τ : Type} (L : Lib τ) (m : Msg) (t : τ)
    (h : L.enc (inferEncoding (ctOf m) []) t = none) :
    setText L m t = { ct := some (fallbackHeader (ctOf m)), content := L.u8se t } := by
  unfold setText; rw [h]

/-- **C32 (partial).** Whenever the reader's inference on the produced message agrees with the writer's, the text reads back. -/
theorem text_roundtrip_partial {τ : Type} (L : Lib τ) (m : Msg) (t : τ) (hlaw : CodecLaw L m t)
    (hguard : ReaderAgrees (setText L m t)) : getText L (setText L m t) true = some t := by
  obtain ⟨h1, h2⟩ := hlaw
  unfold ReaderAgrees at hguard
  unfold getText
  rw [hguard]
  cases he : L.enc (inferEncoding (ctOf m) []) t with
  | some b =>
    rw [setText_some L m t b he]
    have : ctOf { m with content := b } = ctOf m := rfl
    simp only [this]
    rw [h1 b he]
  | none =>
    rw [setText_none L m t he]
    simp only [ctOf, Option.getD_some]
    rw [infer_fallback, h2]

/-- **C32 (partial, surrogate-escaped texts).** `t` is the surrogateescape decoding of some bytes
    (`u8seDec (u8se t) = t`); strict UTF-8 decoding, where it succeeds, agrees with it.  Then the lenient getter returns `t`
    and the strict getter returns `t` or raises. -/
theorem text_roundtrip_nonstrict_partial {τ : Type} (L : Lib τ) (m : Msg) (t : τ)
    (hlaw : ∀ b, L.enc (inferEncoding (ctOf m) []) t = some b → L.dec (inferEncoding (ctOf m) []) b = some t)
    (hse : L.u8seDec (L.u8se t) = t)
    (hagree : ∀ x, L.dec (S "utf-8") (L.u8se t) = some x → x = t)
    (hguard : ReaderAgrees (setText L m t)) :
    getText L (setText L m t) false = some t ∧
      (getText L (setText L m t) true = some t ∨ getText L (setText L m t) true = none) := by
  unfold ReaderAgrees at hguard
  unfold getText
  rw [hguard]
  cases he : L.enc (inferEncoding (ctOf m) []) t with
  | some b =>
    rw [setText_some L m t b he]
    have : ctOf { m with content := b } = ctOf m := rfl
    simp only [this]
    rw [hlaw b he]
    exact ⟨rfl, Or.inl rfl⟩
  | none =>
    rw [setText_none L m t he]
    simp only [ctOf, Option.getD_some]
    rw [infer_fallback]
    cases hd : L.dec (S "utf-8") (L.u8se t) with
    | some x => rw [hagree x hd]; exact ⟨rfl, Or.inl rfl⟩
    | none => simp [hse]

/-- **C32 (charset update).** If the declared codec cannot encode the text, the message afterwards carries a Content-Type
    header that parses to `charset=utf-8` (so a body-less inference names utf-8) and the body is the UTF-8 encoding. -/
theorem charset_updated_on_fallback {τ : Type} (L : Lib τ) (m : Msg) (t : τ)
    (h : L.enc (inferEncoding (ctOf m) []) t = none) :
    (setText L m t).content = L.u8se t ∧
    ∃ c, (setText L m t).ct = some c ∧ headerCharset c = S "utf-8" ∧ inferEncoding c [] = S "utf-8" := by
  rw [setText_none L m t h]
  exact ⟨rfl, _, rfl, headerCharset_fallback _, infer_fallback _⟩

/-- when the declared codec can encode the text, the header is left alone -/
theorem header_untouched_without_fallback {τ : Type} (L : Lib τ) (m : Msg) (t : τ) (b : Bytes)
    (h : L.enc (inferEncoding (ctOf m) []) t = some b) :
    (setText L m t).ct = m.ct ∧ (setText L m t).content = b := by
  rw [setText_some L m t b h]
  exact ⟨rfl, rfl⟩

/-! ### a small concrete codec library for the counterexamples (texts = lists of code points) -/

private def u8enc : List Nat → Option Bytes
  | [] => some []
  | c :: r =>
    if c < 128 then (u8enc r).map (UInt8.ofNat c :: ·)
    else if c < 2048 then (u8enc r).map (fun t => UInt8.ofNat (192 + c / 64) :: UInt8.ofNat (128 + c % 64) :: t)
    else none

private def u8decF : Nat → Bytes → Option (List Nat)
  | _, [] => some []
  | 0, _ :: _ => none
  | f + 1, a :: r =>
    if a.toNat < 128 then (u8decF f r).map (a.toNat :: ·)
    else match r with
      | b :: r' =>
        if 194 ≤ a.toNat ∧ a.toNat < 224 ∧ 128 ≤ b.toNat ∧ b.toNat < 192 then
          (u8decF f r').map (((a.toNat - 192) * 64 + (b.toNat - 128)) :: ·)
        else none
      | [] => none

private def u8dec (b : Bytes) : Option (List Nat) := u8decF b.length b

private def u16leDec : Nat → Bytes → Option (List Nat)
  | _, [] => some []
  | 0, _ :: _ => none
  | f + 1, a :: b :: r => (u16leDec f r).map ((a.toNat + 256 * b.toNat) :: ·)
  | _ + 1, [_] => none

private def demoLib : Lib (List Nat) where
  enc n t :=
    if n = S "latin-1" then (if t.all (· < 256) then some (t.map UInt8.ofNat) else none)
    else if n = S "utf8" ∨ n = S "utf-8" then u8enc t
    else if n = S "utf-16" then
      (if t.all (· < 65536) then some (0xff :: 0xfe :: t.flatMap (fun c => [UInt8.ofNat (c % 256), UInt8.ofNat (c / 256)])) else none)
    else none
  dec n b :=
    if n = S "latin-1" then some (b.map (·.toNat))
    else if n = S "utf8" ∨ n = S "utf-8" then u8dec b
    else if n = S "utf-16le" then u16leDec b.length b
    else if n = S "utf-8-sig" then u8dec (b.drop 3)
    else none
  u8se t := (u8enc t).getD []
  u8seDec b := (u8dec b).getD []

private def plainMsg (ct : String) : Msg := { ct := some (S ct), content := [] }

/-- ÿþab -/
private def tBom : List Nat := [0xff, 0xfe, 0x61, 0x62]
/-- `<meta charset="latin-1">é` -/
private def tMeta : List Nat := S "<meta charset=\"latin-1\">" ++ [0xe9]
private def tHi : List Nat := [0x68, 0x69]

private theorem law_bom : CodecLaw demoLib (plainMsg "text/plain") tBom := by
  constructor
  · intro b hb
    have e : inferEncoding (ctOf (plainMsg "text/plain")) [] = S "latin-1" := by decide +kernel
    rw [e] at hb ⊢
    have : demoLib.enc (S "latin-1") tBom = some [0xff, 0xfe, 0x61, 0x62] := by decide +kernel
    rw [this] at hb; cases hb
    decide +kernel
  · decide +kernel

/-- F-C32a: Latin-1 text starting with ÿþ is written as FF FE 61 62 and read back as UTF-16LE (`﻿扡`) -/
theorem text_roundtrip_counterexample_bom_prefix : ¬ TextRoundtrips := by
  intro h
  have := h _ demoLib (plainMsg "text/plain") tBom law_bom
  revert this
  decide +kernel

private theorem law_meta : CodecLaw demoLib (plainMsg "text/html") tMeta := by
  constructor
  · intro b hb
    have e : inferEncoding (ctOf (plainMsg "text/html")) [] = S "utf8" := by decide +kernel
    rw [e] at hb ⊢
    have hb' : demoLib.enc (S "utf8") tMeta = some b := hb
    have : demoLib.enc (S "utf8") tMeta = some (B "<meta charset=\"latin-1\">" ++ [0xc3, 0xa9]) := by decide +kernel
    rw [this] at hb'; cases hb'
    decide +kernel
  · decide +kernel

/-- F-C32b: `text/html` + `<meta charset="latin-1">é` is written as UTF-8 but read back as Latin-1 (`Ã©`) -/
theorem text_roundtrip_counterexample_body_decl : ¬ TextRoundtrips := by
  intro h
  have := h _ demoLib (plainMsg "text/html") tMeta law_meta
  revert this
  decide +kernel

/-- F-C32c: under `charset=utf-16` the codec writes FF FE itself and the reader keeps it as U+FEFF.  (Here the codec law fails
    for the BOM-less reader codec, which is the point: the writer's codec `utf-16` is lawful, the reader picks `utf-16le`.) -/
theorem text_roundtrip_counterexample_bom_codec :
    (setText demoLib (plainMsg "text/plain; charset=utf-16") tHi).content = [0xff, 0xfe, 0x68, 0x00, 0x69, 0x00] ∧
    getText demoLib (setText demoLib (plainMsg "text/plain; charset=utf-16") tHi) true = some (0xfeff :: tHi) ∧
    ¬ ReaderAgrees (setText demoLib (plainMsg "text/plain; charset=utf-16") tHi) := by
  decide +kernel

/-! ### non-vacuity -/

/-- the guard and the law are satisfiable: Latin-1 `é` under text/plain, and the UTF-8 fallback for a Latin-1-unencodable text -/
example : getText demoLib (setText demoLib (plainMsg "text/plain") [0xe9, 0x61]) true = some [0xe9, 0x61] :=
  text_roundtrip_partial demoLib _ _
    ⟨by intro b hb
        have e : inferEncoding (ctOf (plainMsg "text/plain")) [] = S "latin-1" := by decide +kernel
        rw [e] at hb ⊢
        have : demoLib.enc (S "latin-1") [0xe9, 0x61] = some [0xe9, 0x61] := by decide +kernel
        rw [this] at hb; cases hb
        decide +kernel,
     by decide +kernel⟩ (by decide +kernel)

example : (setText demoLib (plainMsg "text/plain; a=b") [0x394]).ct = some (S "text/plain; a=b; charset=utf-8") ∧
    getText demoLib (setText demoLib (plainMsg "text/plain; a=b") [0x394]) true = some [0x394] := by decide +kernel

-- the inference is not constant, and the scanners do reject
example : inferEncoding (S "text/html") (B "<meta charset=\"latin-1\">") = S "latin-1" ∧
    inferEncoding (S "text/html") (B "<meta >charset=x") = S "utf8" ∧
    inferEncoding (S "text/plain; charset=GBK") [] = S "gb18030" ∧
    inferEncoding (S "application/xml") (B "<?xml version='1.0' encoding='koi8-r'?>") = S "koi8-r" ∧
    inferEncoding (S "text/css") (B "@charset \"x\" ;") = S "utf8" ∧
    inferEncoding (S "text/css; charset=ascii") [0xff, 0xfe, 0x00, 0x00] = S "utf-32le" := by decide +kernel

/-! ### audit round 6: non-vacuity witness for `text_roundtrip_nonstrict_partial` on its lenient branch -/

/-- a codec library in which no codec knows the declared charset and strict UTF-8 rejects the bytes (texts = raw bytes):
    the hypotheses of `text_roundtrip_nonstrict_partial` hold for the surrogate-escaped text `E9 61`, the lenient getter
    returns it and the strict getter raises -/
private def rawLib : Lib Bytes where
  enc _ _ := none
  dec _ _ := none
  u8se t := t
  u8seDec b := b

example : getText rawLib (setText rawLib (plainMsg "text/plain; charset=nope") [0xe9, 0x61]) false = some [0xe9, 0x61] ∧
    (getText rawLib (setText rawLib (plainMsg "text/plain; charset=nope") [0xe9, 0x61]) true = some [0xe9, 0x61] ∨
     getText rawLib (setText rawLib (plainMsg "text/plain; charset=nope") [0xe9, 0x61]) true = none) :=
  text_roundtrip_nonstrict_partial rawLib _ _ (by intro b hb; cases hb) rfl (by intro x hx; cases hx) (by decide +kernel)

/-- and the strict getter really is `none` there (the disjunction above is not always its left half) -/
example : getText rawLib (setText rawLib (plainMsg "text/plain; charset=nope") [0xe9, 0x61]) true = none := by
  decide +kernel

end MitmVerif.Props.C32
