/-
  C33 — property theorems (model: Model/C33.lean).
  * `parseDec_decDigits`                      : int("%d" % n) = n
  * `parseAuthority_hostport`                 : for every host of the stated shape (non-empty, no newline, no `]`, not starting with
                                                `[` — DNS names, IPv4 and IPv6 literals alike), every scheme and port ≤ 65535,
                                                `parse_authority(hostport(scheme, host, port))` = (host, port or None if default)
  * `host_port_edit_keeps_host_header_and_authority_pointing_to_destination` : after a host, port or (accepted) url edit of ANY request
                                                (HTTP/1 or HTTP/2), an existing Host header and a non-empty authority are still there and
                                                parse to the request's host and port
  * `edit_history_keeps_host_header_and_authority_pointing_to_destination` : the same after any sequence of edits (fold form)
  * `url_get_set_idempotent_partial`          : assigning `request.url` again leaves the request exactly as it is, provided url.parse reads
                                                the canonical URL back
  * `netloc_hostport`, `url_parse_reads_getter_url`, `url_get_set_idempotent_ascii` : that proviso PROVED for the transcription of
                                                urlsplit's scheme/netloc reading (`pySplit`) and urllib's hostname/port reading:
                                                http/https, lower-case ASCII DNS / IPv4 / bracketed IPv6 hosts, ports 1…65535 with
                                                default-port elision, ASCII paths; four named library hypotheses remain
                                                (`GetterUrlOk.bracketedOk/idnaAscii/hostValid/restStable`)
  * `normRestPy_idem`, `normRestPy_stored`, `restStable_of_setUrl`, `url_get_set_idempotent_ascii_rest` : the re-assembly of what follows
                                                the netloc (cut at # ?, ;params, urlunparse) transcribed and proved idempotent —
                                                `restStable` is no longer assumed
  * `url_get_set_idempotent_derived`          : port range, leading `/`, is_valid_host, the IDNA round trip and path stability are all
                                                derived from the setter's own success; assumed: `IdnaAsciiLaw` and, for IPv6 literals,
                                                `_check_bracketed_host`
  * `setUrl_fields`, `url_read_back_equivalent` : the fields are what url.parse made of the URL; the URL read back parses to the same
                                                scheme, host, port and path as the one assigned
  * `url_get_set_idempotent_final`            : the same with the ASCII-ness of the path derived too (`pathAscii` no longer assumed)
  * `url_get_set_idempotent_counterexample`   : F-C33b — with an IDN host the URL read back is rejected

  PARTIAL RESULTS.  The full statement of the re-assignment clause is `UrlReassignIdempotent`; it is FALSE for the code
  (`url_get_set_idempotent_counterexample`, F-C33b).  Every positive result about it is a guarded (partial) one, whatever its suffix:
  `url_get_set_idempotent_partial` (hypothesis: url.parse reads the URL back), `…_ascii`, `…_ascii_rest`, `…_derived`, `…_final`
  and `url_read_back_equivalent` (guard: http/https, a lower-case ASCII host — DNS name, IPv4 or bracketed IPv6 literal; the excluded
  class is exactly F-C33b plus upper-case hosts, which read back equivalent but not identical).  The names are kept from earlier rounds.
  `parse_authority` is modelled for every Unicode decimal digit (`\d` on a str, `int()`): table `Gen.C33.pyDigitZeros`.
-/
import MitmVerif.Model.C33
import MitmVerif.Lemmas.C33Rest
namespace MitmVerif.Props.C33
open MitmVerif MitmVerif.C33

/-! ### decimal ports -/
private theorem parseDec_append (a : Str) (d : Nat) : parseDec (a ++ [d]) = parseDec a * 10 + (d - 48) := by
  simp [parseDec, List.foldl_append]

private theorem decF (f : Nat) : ∀ n, n < f →
    parseDec (decDigitsF f n) = n ∧ (∀ c ∈ decDigitsF f n, isDigit c = true) ∧ decDigitsF f n ≠ [] := by
  induction f with
  | zero => intro n h; omega
  | succ f ih =>
    intro n h
    unfold decDigitsF
    by_cases h10 : n < 10
    · simp only [h10, if_true]
      refine ⟨by simp [parseDec], ?_, by simp⟩
      intro c hc
      simp only [List.mem_singleton] at hc
      subst hc
      simp [isDigit]; omega
    · simp only [h10, if_false]
      obtain ⟨a, b, _⟩ := ih (n / 10) (by omega)
      refine ⟨?_, ?_, by simp⟩
      · rw [parseDec_append, a]; omega
      · intro c hc
        rw [List.mem_append] at hc
        rcases hc with hc | hc
        · exact b c hc
        · simp only [List.mem_singleton] at hc
          subst hc
          simp [isDigit]; omega

/-- **decimal round trip**: `int("%d" % n) = n` -/
theorem parseDec_decDigits (n : Nat) : parseDec (decDigits n) = n := (decF (n + 1) n (by omega)).1

private theorem decDigits_digits (n : Nat) : ∀ c ∈ decDigits n, isDigit c = true := (decF (n + 1) n (by omega)).2.1
private theorem decDigits_ne (n : Nat) : decDigits n ≠ [] := (decF (n + 1) n (by omega)).2.2

/-! ### ASCII digits among the Unicode decimal digits -/
private theorem ascii_digit_decimalU (c : Nat) (h : isDigit c = true) : isDecimalU c = true ∧ digitValU c = c - 48 := by
  have hr : 48 ≤ c ∧ c ≤ 57 := by simpa [isDigit] using h
  have : c = 48 ∨ c = 49 ∨ c = 50 ∨ c = 51 ∨ c = 52 ∨ c = 53 ∨ c = 54 ∨ c = 55 ∨ c = 56 ∨ c = 57 := by omega
  rcases this with rfl | rfl | rfl | rfl | rfl | rfl | rfl | rfl | rfl | rfl <;> decide +kernel

private theorem parseDecU_eq (s : Str) (h : ∀ c ∈ s, isDigit c = true) : parseDecU s = parseDec s := by
  unfold parseDecU parseDec
  have : ∀ (a : Nat), s.foldl (fun a c => a * 10 + digitValU c) a = s.foldl (fun a c => a * 10 + (c - 48)) a := by
    induction s with
    | nil => intro a; rfl
    | cons c s ih =>
      intro a
      simp only [List.foldl_cons]
      rw [(ascii_digit_decimalU c (h c (by simp))).2]
      exact ih (fun x hx => h x (List.mem_cons_of_mem _ hx)) _
  exact this 0

/-! ### takeWhile / dropWhile -/
private theorem takeWhile_all (p : Nat → Bool) (a : Str) (h : ∀ x ∈ a, p x = true) : a.takeWhile p = a := by
  induction a with
  | nil => rfl
  | cons x a ih =>
    rw [List.takeWhile_cons_of_pos (h x (by simp)), ih (fun y hy => h y (List.mem_cons_of_mem _ hy))]

private theorem dropWhile_all (p : Nat → Bool) (a : Str) (h : ∀ x ∈ a, p x = true) : a.dropWhile p = [] := by
  induction a with
  | nil => rfl
  | cons x a ih =>
    rw [List.dropWhile_cons_of_pos (h x (by simp)), ih (fun y hy => h y (List.mem_cons_of_mem _ hy))]

private theorem takeWhile_stop (p : Nat → Bool) (a : Str) (y : Nat) (r : Str) (h : ∀ x ∈ a, p x = true) (hy : p y = false) :
    (a ++ y :: r).takeWhile p = a ∧ (a ++ y :: r).dropWhile p = y :: r := by
  induction a with
  | nil => simp [List.takeWhile, List.dropWhile, hy]
  | cons x a ih =>
    have hx := h x (by simp)
    obtain ⟨i1, i2⟩ := ih (fun z hz => h z (List.mem_cons_of_mem _ hz))
    simp only [List.cons_append]
    rw [List.takeWhile_cons_of_pos hx, List.dropWhile_cons_of_pos hx, i1, i2]
    exact ⟨rfl, rfl⟩

private theorem mem_dropWhile (p : Nat → Bool) (l : Str) (x : Nat) (hx : x ∈ l) (hp : p x = false) : x ∈ l.dropWhile p := by
  induction l with
  | nil => cases hx
  | cons y l ih =>
    by_cases h : p y = true
    · rw [List.dropWhile_cons_of_pos h]
      rcases List.mem_cons.mp hx with rfl | hx
      · rw [hp] at h; cases h
      · exact ih hx
    · rw [List.dropWhile_cons_of_neg h]; exact hx

private theorem split_at_mem (c : Nat) (l : Str) (h : c ∈ l) : ∃ a b, l = a ++ c :: b ∧ c ∉ a := by
  induction l with
  | nil => cases h
  | cons y l ih =>
    by_cases hy : y = c
    · exact ⟨[], l, by simp [hy], by simp⟩
    · rcases List.mem_cons.mp h with rfl | h
      · exact absurd rfl hy
      · obtain ⟨a, b, e, n⟩ := ih h
        refine ⟨y :: a, b, by simp [e], ?_⟩
        simp only [List.mem_cons, not_or]
        exact ⟨fun e => hy e.symm, n⟩

/-! ### parse_authority ∘ hostport -/

/-- the shape of a destination host: non-empty, one line, no `]`, not starting with `[`.
    (Every name accepted by `is_valid_host` — DNS labels, IPv4 and IPv6 literals — has it.) -/
def HostShape (h : Str) : Prop := h ≠ [] ∧ 10 ∉ h ∧ 93 ∉ h ∧ h.head? ≠ some 91

/-- the port as an authority carries it -/
def portOpt (scheme : Str) (p : Nat) : Option Nat := if defaultPort scheme = some p then none else some p

private def tailOf (scheme : Str) (p : Nat) : Str := if defaultPort scheme = some p then [] else 58 :: decDigits p

private theorem hostport_eq (s h : Str) (p : Nat) : hostport s h p = bracket h ++ tailOf s p := by
  unfold hostport tailOf; split <;> simp

private theorem tailPort_tailOf (s : Str) (p : Nat) :
    tailPort (tailOf s p) = some (if defaultPort s = some p then none else some (decDigits p)) := by
  unfold tailOf
  by_cases h : defaultPort s = some p
  · simp [h, tailPort]
  · simp only [h, if_false]
    unfold tailPort
    have h1 : ¬ ((58 :: decDigits p) = [] ∨ (58 :: decDigits p) = [10]) := by simp
    simp only [h1, if_false]
    have hdu : ∀ c ∈ decDigits p, isDecimalU c = true := fun c hc => (ascii_digit_decimalU c (decDigits_digits p c hc)).1
    rw [takeWhile_all _ _ hdu, dropWhile_all _ _ hdu]
    simp [decDigits_ne]

private theorem tailOf_clean (s : Str) (p : Nat) : 93 ∉ tailOf s p ∧ 10 ∉ tailOf s p := by
  unfold tailOf
  split
  · simp
  · constructor
    · intro hm
      have hm' : (93 : Nat) ∈ decDigits p := by simpa using hm
      have := decDigits_digits p _ hm'
      simp [isDigit] at this
    · intro hm
      have hm' : (10 : Nat) ∈ decDigits p := by simpa using hm
      have := decDigits_digits p _ hm'
      simp [isDigit] at this

private theorem scan_cons (pre cs : Str) (best : Option (Str × Option Str)) (c : Nat) (h93 : c ≠ 93) (h10 : c ≠ 10) :
    alt2Scan pre (c :: cs) best = alt2Scan (pre ++ [c]) cs best := by
  simp only [alt2Scan, h93, h10, false_and, if_false]

private theorem scan_prefix (a : Str) : ∀ (pre rest : Str) (best : Option (Str × Option Str)), 93 ∉ a → 10 ∉ a →
    alt2Scan pre (a ++ rest) best = alt2Scan (pre ++ a) rest best := by
  induction a with
  | nil => intro pre rest best _ _; simp
  | cons x a ih =>
    intro pre rest best h93 h10
    have hx93 : x ≠ 93 := fun e => h93 (by simp [e])
    have hx10 : x ≠ 10 := fun e => h10 (by simp [e])
    simp only [List.cons_append]
    rw [scan_cons pre (a ++ rest) best x hx93 hx10,
      ih _ _ _ (fun m => h93 (List.mem_cons_of_mem _ m)) (fun m => h10 (List.mem_cons_of_mem _ m))]
    simp

private theorem authorityMatch_hostport (s h : Str) (p : Nat) (hs : HostShape h) :
    authorityMatch (hostport s h p) = some (h, if defaultPort s = some p then none else some (decDigits p)) := by
  obtain ⟨hne, h10, h93, h91⟩ := hs
  rw [hostport_eq]
  have htail := tailPort_tailOf s p
  by_cases hc : 58 ∈ h
  · -- IPv6 literal: bracketed
    have hb : bracket h = 91 :: (h ++ [93]) := by
      unfold bracket
      simp [hc, h91]
    obtain ⟨h1, h2, e, hn⟩ := split_at_mem 58 h hc
    rw [hb]
    have hform : (91 :: (h ++ [93])) ++ tailOf s p = (91 :: h1) ++ 58 :: (h2 ++ 93 :: tailOf s p) := by rw [e]; simp
    have hrun := takeWhile_stop (fun c => c != 58) (91 :: h1) 58 (h2 ++ 93 :: tailOf s p)
      (by intro x hx
          rcases List.mem_cons.mp hx with rfl | hx
          · decide
          · have : x ≠ 58 := fun e => hn (e ▸ hx)
            simpa using this)
      (by decide)
    unfold authorityMatch
    simp only [hform, hrun.1, hrun.2]
    have htp : tailPort (58 :: (h2 ++ 93 :: tailOf s p)) = none := by
      unfold tailPort
      have n1 : ¬ ((58 :: (h2 ++ 93 :: tailOf s p)) = [] ∨ (58 :: (h2 ++ 93 :: tailOf s p)) = [10]) := by simp
      simp only [n1, if_false]
      have hm : 93 ∈ (h2 ++ 93 :: tailOf s p).dropWhile isDecimalU := mem_dropWhile _ _ 93 (by simp) (by decide +kernel)
      have : ¬ ((h2 ++ 93 :: tailOf s p).takeWhile isDecimalU ≠ [] ∧
          ((h2 ++ 93 :: tailOf s p).dropWhile isDecimalU = [] ∨ (h2 ++ 93 :: tailOf s p).dropWhile isDecimalU = [10])) := by
        intro ⟨_, hh⟩
        rcases hh with hh | hh
        · rw [hh] at hm; cases hm
        · rw [hh] at hm; simp at hm
      simp only [this, if_false]
    simp only [htp, Option.map_none, List.cons_ne_nil, if_false]
    -- second alternative
    have hbody : (91 :: h1) ++ 58 :: (h2 ++ 93 :: tailOf s p) = 91 :: (h ++ 93 :: tailOf s p) := by rw [e]; simp
    rw [hbody]
    simp only
    rw [scan_prefix h [] (93 :: tailOf s p) none h93 h10]
    simp only [List.nil_append]
    unfold alt2Scan
    simp only [hne, ne_eq, not_false_eq_true, and_self, if_true, htail]
    have : (93 : Nat) ≠ 10 := by decide
    simp only [this, if_false]
    have hcl := tailOf_clean s p
    have := scan_prefix (tailOf s p) (h ++ [93]) [] (some (h, if defaultPort s = some p then none else some (decDigits p))) hcl.1 hcl.2
    simp only [List.append_nil] at this
    rw [this]
    simp [alt2Scan]
  · -- no colon: DNS name or IPv4 literal
    have hb : bracket h = h := by
      unfold bracket
      simp [hc]
    rw [hb]
    have hall : ∀ x ∈ h, (fun c : Nat => c != 58) x = true := by
      intro x hx
      have : x ≠ 58 := fun e => hc (e ▸ hx)
      simpa using this
    unfold authorityMatch
    have hrun : (h ++ tailOf s p).takeWhile (fun c => c != 58) = h ∧ (h ++ tailOf s p).dropWhile (fun c => c != 58) = tailOf s p := by
      unfold tailOf
      split
      · simp only [List.append_nil]
        exact ⟨takeWhile_all _ _ hall, dropWhile_all _ _ hall⟩
      · exact takeWhile_stop _ h 58 _ hall (by decide)
    simp only [hrun.1, hrun.2, hne, if_false, htail, Option.map_some]
    have : ¬ (h.head? = some 91 ∧ h.getLast? = some 93) := fun ⟨a, _⟩ => h91 a
    simp [this]

/-- **what hostport writes, parse_authority reads back**: same host, same port (None for the scheme's default port) -/
theorem parseAuthority_hostport (valid : Str → Bool) (s h : Str) (p : Nat)
    (hs : HostShape h) (hv : valid h = true) (hp : p ≤ 65535) :
    parseAuthority valid (hostport s h p) = some (h, portOpt s p) := by
  unfold parseAuthority portOpt
  rw [authorityMatch_hostport s h p hs]
  simp only [hv, Bool.not_true, Bool.false_eq_true, if_false]
  by_cases hd : defaultPort s = some p
  · simp [hd]
  · simp [hd, parseDecU_eq _ (decDigits_digits p), parseDec_decDigits, hp]

/-! ### host / port / url edits -/

/-- `v` (a Host header or authority value) names the request's destination -/
def PointsTo (valid : Str → Bool) (r : Req) (v : Str) : Prop :=
  parseAuthority valid v = some (r.host, portOpt r.scheme r.port)

/-- an existing Host header and a non-empty authority both name the request's destination -/
def Consistent (valid : Str → Bool) (r : Req) : Prop :=
  (∀ v, r.hostHeader = some v → PointsTo valid r v) ∧ (r.authority ≠ [] → PointsTo valid r r.authority)

/-- the destination is well formed and the authority idna round trip leaves its rendering alone (ASCII / normalised IDN) -/
def DestOk (P : UrlLib) (valid : Str → Bool) (r : Req) : Prop :=
  HostShape r.host ∧ valid r.host = true ∧ r.port ≤ 65535 ∧
    P.normAuth (hostport r.scheme r.host r.port) = hostport r.scheme r.host r.port

private theorem hostport_ne (s h : Str) (p : Nat) (hne : h ≠ []) : hostport s h p ≠ [] := by
  rw [hostport_eq]
  unfold bracket
  split <;> simp [hne]

private theorem update_consistent (P : UrlLib) (valid : Str → Bool) (r : Req) (hd : DestOk P valid r) :
    Consistent valid (update P r) ∧ ((update P r).hostHeader.isSome = r.hostHeader.isSome) ∧
      ((update P r).authority = [] ↔ r.authority = []) := by
  obtain ⟨hs, hv, hp, hn⟩ := hd
  have key := parseAuthority_hostport valid r.scheme r.host r.port hs hv hp
  refine ⟨⟨?_, ?_⟩, ?_, ?_⟩
  · intro v hv'
    unfold update at hv'
    simp only at hv'
    cases hh : r.hostHeader with
    | none => rw [hh] at hv'; cases hv'
    | some _ =>
      rw [hh] at hv'
      simp only [Option.map_some, Option.some.injEq] at hv'
      unfold PointsTo
      rw [← hv']
      exact key
  · intro ha
    unfold PointsTo
    unfold update at ha ⊢
    simp only at ha ⊢
    by_cases he : r.authority = []
    · simp [he] at ha
    · simp only [he, if_false] at ha ⊢
      rw [hn]; exact key
  · unfold update; cases r.hostHeader <;> rfl
  · unfold update
    simp only
    by_cases he : r.authority = []
    · simp [he]
    · simp only [he, if_false, iff_false]
      rw [hn]; exact hostport_ne _ _ _ hs.1

private theorem update_fields (P : UrlLib) (r : Req) :
    (update P r).scheme = r.scheme ∧ (update P r).host = r.host ∧ (update P r).port = r.port := ⟨rfl, rfl, rfl⟩

/-- **C33 (edits).** Take any request (HTTP/1 or HTTP/2, with or without Host header / authority) and apply a host edit, a port
    edit, or a url edit that is accepted.  If the resulting destination is well formed, then an existing Host header is still there
    and parses to the new host and port, and a non-empty authority stays non-empty and parses to the new host and port.
    (`hne`: the authority round trip never turns a non-empty value into the empty one.) -/
theorem host_port_edit_keeps_host_header_and_authority_pointing_to_destination
    (P : UrlLib) (valid : Str → Bool) (r : Req) (e : Edit)
    (hacc : ∀ u, e = .url u → (setUrl P r u).isSome)
    (hne : ∀ x, x ≠ [] → P.normAuth x ≠ [])
    (hd : DestOk P valid (applyEdit P r e)) :
    Consistent valid (applyEdit P r e) ∧
      ((applyEdit P r e).hostHeader.isSome = r.hostHeader.isSome) ∧
      ((applyEdit P r e).authority = [] ↔ r.authority = []) := by
  cases e with
  | host h =>
    simp only [applyEdit, setHost] at hd ⊢
    have hd0 : DestOk P valid { r with host := h } := hd
    exact update_consistent P valid _ hd0
  | port p =>
    simp only [applyEdit, setPort] at hd ⊢
    have hd0 : DestOk P valid { r with port := p } := hd
    exact update_consistent P valid _ hd0
  | url u =>
    have hs := hacc u rfl
    cases hp : urlParse P u with
    | none =>
      have : setUrl P r u = none := by unfold setUrl; rw [hp]
      rw [this] at hs; cases hs
    | some q =>
      obtain ⟨s, h, p, path⟩ := q
      -- the last step is an `update` of r1; the path assignment does not touch the observed fields
      let r1 : Req := { setHost P { r with scheme := s } h with port := p }
      have e : applyEdit P r (.url u) = { update P r1 with path := path } := by
        simp only [applyEdit]; unfold setUrl; rw [hp]; rfl
      rw [e] at hd ⊢
      have hd1 : DestOk P valid r1 := hd
      obtain ⟨c, pr, au⟩ := update_consistent P valid r1 hd1
      refine ⟨c, ?_, ?_⟩
      · show (update P r1).hostHeader.isSome = r.hostHeader.isSome
        rw [pr]
        show (update P { r with scheme := s, host := h }).hostHeader.isSome = r.hostHeader.isSome
        unfold update; cases r.hostHeader <;> rfl
      · show (update P r1).authority = [] ↔ r.authority = []
        rw [au]
        show (update P { r with scheme := s, host := h }).authority = [] ↔ r.authority = []
        unfold update
        simp only
        by_cases he : r.authority = []
        · simp [he]
        · simp only [he, if_false, iff_false]
          apply hne
          exact hostport_ne _ _ _ hd1.1.1

/-! ### url getter / setter -/

private theorem update_idem (P : UrlLib) (r : Req) : update P (update P r) = update P r := by
  unfold update
  cases hh : r.hostHeader <;> by_cases ha : r.authority = [] <;> simp [hh, ha]
  all_goals
    by_cases hn : P.normAuth (hostport r.scheme r.host r.port) = [] <;> simp [hn]

/-- the full statement: assigning the URL read back changes nothing, whenever urlsplit reads the three parts of the canonical URL back -/
def UrlReassignIdempotent : Prop :=
  ∀ (P : UrlLib) (r : Req) (u : Str) (r' : Req), setUrl P r u = some r' →
    P.split (url r') = some (r'.scheme, hostport r'.scheme r'.host r'.port, r'.path) →
    setUrl P r' (url r') = some r'

private theorem update_path_fix (P : UrlLib) (r0 : Req) (π : Str) :
    update P { update P r0 with path := π } = { update P r0 with path := π } := by
  unfold update
  cases hh : r0.hostHeader <;> by_cases ha : r0.authority = [] <;> simp [ha]
  all_goals
    by_cases hn : P.normAuth (hostport r0.scheme r0.host r0.port) = [] <;> simp [hn]

private theorem reassign_fix (P : UrlLib) (r' : Req) (hfix : update P r' = r') :
    ({ setPort P (setHost P { r' with scheme := r'.scheme } r'.host) r'.port with path := r'.path } : Req) = r' := by
  have e1 : setHost P { r' with scheme := r'.scheme } r'.host = r' := by
    show update P r' = r'
    exact hfix
  rw [e1]
  have e2 : setPort P r' r'.port = r' := by
    show update P r' = r'
    exact hfix
  rw [e2]

/-- **C33 (url, partial).** If `url.parse` reads the URL that the getter returns back into the request's own fields — which it does
    for ASCII hosts — then assigning `request.url` again leaves the request exactly as it is (Host header and authority included). -/
theorem url_get_set_idempotent_partial (P : UrlLib) (r : Req) (u : Str) (r' : Req) (h1 : setUrl P r u = some r')
    (hcanon : urlParse P (url r') = some (r'.scheme, r'.host, r'.port, r'.path)) :
    setUrl P r' (url r') = some r' := by
  have hfix : update P r' = r' := by
    unfold setUrl at h1
    cases hp : urlParse P u with
    | none => rw [hp] at h1; cases h1
    | some q =>
      obtain ⟨s, h, p, path⟩ := q
      rw [hp] at h1
      simp only [Option.some.injEq, setPort] at h1
      rw [← h1]
      exact update_path_fix P _ path
  unfold setUrl
  rw [hcanon]
  simp only [Option.some.injEq]
  exact reassign_fix P r' hfix

/-! ### url.parse reads the getter's URL back (urlsplit's scheme/netloc reading and the netloc → host/port reading transcribed) -/

private theorem partition_notin (c : Nat) (a : Str) (h : c ∉ a) : partition c a = (a, false, []) := by
  induction a with
  | nil => rfl
  | cons x a ih =>
    have hx : x ≠ c := fun e => h (by simp [e])
    have := ih (fun m => h (List.mem_cons_of_mem _ m))
    simp [partition, hx, this]

private theorem partition_stop (c : Nat) (a r : Str) (h : c ∉ a) : partition c (a ++ c :: r) = (a, true, r) := by
  induction a with
  | nil => simp [partition]
  | cons x a ih =>
    have hx : x ≠ c := fun e => h (by simp [e])
    have := ih (fun m => h (List.mem_cons_of_mem _ m))
    simp [partition, hx, this]

private theorem afterLast_notin (c : Nat) (s : Str) (h : c ∉ s) : afterLast c s = s := by
  unfold afterLast
  rw [takeWhile_all _ _ (by
    intro x hx
    have : x ≠ c := fun e => h (e ▸ List.mem_reverse.mp hx)
    simpa using this), List.reverse_reverse]

/-- an ASCII destination host as the getter writes it: well shaped, lower case, and free of the characters that delimit a netloc -/
structure HostOk (h : Str) : Prop where
  shape : HostShape h
  lower : lower h = h
  ascii : ∀ c ∈ h, c < 128
  clean : ∀ c ∈ h, c ≠ 9 ∧ c ≠ 13 ∧ c ≠ 47 ∧ c ≠ 63 ∧ c ≠ 35 ∧ c ≠ 64 ∧ c ≠ 37 ∧ c ≠ 91

/-- a request whose URL the getter renders as `scheme://host[:port]/path…`; the last four fields are the named hypotheses about the
    Python library that are NOT proved here: `_check_bracketed_host` accepts the IPv6 literal, the IDNA round trip leaves the (ASCII)
    host alone, `is_valid_host` accepts it, and re-assembling the text after the netloc (`urlunparse` of `urlparse`'s path, params,
    query, fragment) gives back the request's path -/
structure GetterUrlOk (Q : PyLib) (r : Req) : Prop where
  notConnect : r.method.map upperC ≠ S "CONNECT"
  scheme : r.scheme = S "http" ∨ r.scheme = S "https"
  host : HostOk r.host
  port : 1 ≤ r.port ∧ r.port ≤ 65535
  pathSlash : r.path.head? = some 47
  pathAscii : ∀ c ∈ r.path, c < 128 ∧ c ≠ 9 ∧ c ≠ 10 ∧ c ≠ 13
  bracketedOk : 58 ∈ r.host → Q.validBracketed r.host = true
  idnaAscii : Q.idnaRt r.host = some r.host
  hostValid : Q.validHost r.host = true
  restStable : Q.normRest r.scheme r.path = r.path

/-- the port text of an authority -/
private def portStr (s : Str) (p : Nat) : Str := if defaultPort s = some p then [] else decDigits p

private theorem tailOf_chars (s : Str) (p : Nat) : ∀ c ∈ tailOf s p, c = 58 ∨ isDigit c = true := by
  unfold tailOf
  split
  · simp
  · intro c hc
    rcases List.mem_cons.mp hc with rfl | hc
    · exact Or.inl rfl
    · exact Or.inr (decDigits_digits p c hc)

private theorem digit_range (c : Nat) (h : isDigit c = true) : 48 ≤ c ∧ c ≤ 57 := by
  simpa [isDigit] using h

private theorem partition58_tail (s : Str) (p : Nat) : (partition 58 (tailOf s p)).2.2 = portStr s p := by
  unfold tailOf portStr
  split
  · rfl
  · simp [partition]

private theorem partition58_host_tail (s h : Str) (p : Nat) (hc : 58 ∉ h) :
    (partition 58 (h ++ tailOf s p)).1 = h ∧ (partition 58 (h ++ tailOf s p)).2.2 = portStr s p := by
  unfold tailOf portStr
  split
  · simp [partition_notin 58 h hc]
  · rw [partition_stop 58 h _ hc]; exact ⟨rfl, rfl⟩

/-- urllib's netloc reading inverts `hostport` -/
theorem netloc_hostport (s h : Str) (p : Nat) (hk : HostOk h) :
    hostname (hostport s h p) = some h ∧ (hostinfo (hostport s h p)).2 = portStr s p := by
  obtain ⟨⟨hne, h10, h93, h91⟩, hlow, _, hclean⟩ := hk
  have n64 : 64 ∉ h := fun m => (hclean 64 m).2.2.2.2.2.1 rfl
  have n37 : 37 ∉ h := fun m => (hclean 37 m).2.2.2.2.2.2.1 rfl
  have n91 : 91 ∉ h := fun m => (hclean 91 m).2.2.2.2.2.2.2 rfl
  have tch := tailOf_chars s p
  have t_no (c : Nat) (hc : c ≠ 58) (hd : ¬ (48 ≤ c ∧ c ≤ 57)) : c ∉ tailOf s p := by
    intro m
    rcases tch c m with e | e
    · exact hc e
    · exact hd (digit_range c e)
  rw [hostport_eq]
  have hinfo : hostinfo (bracket h ++ tailOf s p) = (h, portStr s p) := by
    by_cases hc : 58 ∈ h
    · have hb : bracket h = 91 :: (h ++ [93]) := by unfold bracket; simp [hc, h91]
      have e : bracket h ++ tailOf s p = 91 :: (h ++ 93 :: tailOf s p) := by rw [hb]; simp
      have na : 64 ∉ (91 :: (h ++ 93 :: tailOf s p)) := by
        simp only [List.mem_cons, List.mem_append, not_or]
        exact ⟨by decide, n64, by decide, t_no 64 (by decide) (by omega)⟩
      unfold hostinfo
      rw [e, afterLast_notin 64 _ na]
      have p1 : partition 91 (91 :: (h ++ 93 :: tailOf s p)) = ([], true, h ++ 93 :: tailOf s p) := by simp [partition]
      simp only [p1]
      rw [partition_stop 93 h _ h93]
      simp only [partition58_tail]
    · have hb : bracket h = h := by unfold bracket; simp [hc]
      have na : 64 ∉ h ++ tailOf s p := by
        simp only [List.mem_append, not_or]; exact ⟨n64, t_no 64 (by decide) (by omega)⟩
      have nb : 91 ∉ h ++ tailOf s p := by
        simp only [List.mem_append, not_or]; exact ⟨n91, t_no 91 (by decide) (by omega)⟩
      obtain ⟨a, b⟩ := partition58_host_tail s h p hc
      rw [hb]
      simp only [hostinfo, afterLast_notin 64 _ na, partition_notin 91 _ nb, a, b]
  refine ⟨?_, by rw [hinfo]⟩
  unfold hostname
  rw [hinfo]
  simp only [hne, if_false, partition_notin 37 h n37]
  simp [hlow]

private theorem portOf_hostport (s h : Str) (p : Nat) (hk : HostOk h) (hp : p ≤ 65535) :
    portOf (hostport s h p) = some (if defaultPort s = some p then none else some p) := by
  unfold portOf
  rw [(netloc_hostport s h p hk).2]
  unfold portStr
  by_cases hd : defaultPort s = some p
  · simp [hd]
  · simp only [hd, if_false, decDigits_ne, parseDec_decDigits, hp, if_true]
    have : (decDigits p).all isDigit = true := List.all_eq_true.mpr (decDigits_digits p)
    simp [this]

private theorem hostport_chars (s h : Str) (p : Nat) : ∀ c ∈ hostport s h p, c ∈ h ∨ c = 91 ∨ c = 93 ∨ c = 58 ∨ isDigit c = true := by
  intro c hc
  rw [hostport_eq, List.mem_append] at hc
  rcases hc with hc | hc
  · unfold bracket at hc
    split at hc
    · simp only [List.mem_cons, List.mem_append, List.mem_singleton, List.not_mem_nil, or_false] at hc
      rcases hc with rfl | hc | rfl
      · exact Or.inr (Or.inl rfl)
      · exact Or.inl hc
      · exact Or.inr (Or.inr (Or.inl rfl))
    · exact Or.inl hc
  · rcases tailOf_chars s p c hc with e | e
    · exact Or.inr (Or.inr (Or.inr (Or.inl e)))
    · exact Or.inr (Or.inr (Or.inr (Or.inr e)))

private theorem pySplit_eval (vb : Str → Bool) (U s body : Str)
    (h1 : U.dropWhile isC0OrSpace = U) (h2 : U.filter (fun c => !isUnsafe c) = U)
    (h3 : U.takeWhile (fun c => c != 58) = s)
    (h4 : U.contains 58 ∧ s ≠ [] ∧ isAsciiAlpha (U.headD 0) = true ∧ s.all isSchemeChar = true)
    (h5 : lower s = s) (h6 : U.drop (s.length + 1) = 47 :: 47 :: body)
    (netloc rest : Str) (h7 : body.takeWhile (fun c => !isNetlocEnd c) = netloc)
    (h8 : body.dropWhile (fun c => !isNetlocEnd c) = rest)
    (h9 : (netloc.contains 91 != netloc.contains 93) = false)
    (h10 : (netloc.contains 91 && !vb (partition 93 (partition 91 netloc).2.2).1) = false) :
    pySplit vb U = some (s, netloc, rest) := by
  unfold pySplit schemeSplit cleanUrl
  simp only [h1, h2, h3]
  rw [if_pos h4]
  simp only [h5, h6, List.take, List.drop, h7, h8, h9, h10]
  simp

/-- urlsplit's scheme/netloc reading on a URL rendered by the getter -/
private theorem pySplit_getter (vb : Str → Bool) (s h : Str) (p : Nat) (path : Str)
    (hs : s = S "http" ∨ s = S "https") (hk : HostOk h) (hslash : path.head? = some 47)
    (hpath : ∀ c ∈ path, c ≠ 9 ∧ c ≠ 10 ∧ c ≠ 13) (hvb : 58 ∈ h → vb h = true) :
    pySplit vb (s ++ S "://" ++ hostport s h p ++ path) = some (s, hostport s h p, path) := by
  obtain ⟨⟨hne, h10, h93, h91⟩, _, _, hclean⟩ := hk
  have hpc := hostport_chars s h p
  -- characters of the authority
  have hp_ok : ∀ c ∈ hostport s h p, isUnsafe c = false ∧ isNetlocEnd c = false := by
    intro c hc
    rcases hpc c hc with m | rfl | rfl | rfl | d
    · obtain ⟨a, b, c1, c2, c3, _⟩ := hclean c m
      have : c ≠ 10 := fun e => h10 (e ▸ m)
      simp [isUnsafe, isNetlocEnd, a, b, c1, c2, c3, this]
    · decide
    · decide
    · decide
    · have := digit_range c d
      simp [isUnsafe, isNetlocEnd]; omega
  obtain ⟨p0, hp0⟩ : ∃ p0, path = 47 :: p0 := by
    cases path with
    | nil => simp at hslash
    | cons c p0 => simp at hslash; exact ⟨p0, by rw [hslash]⟩
  -- the rest of the URL after "scheme:"
  have hclean_all : ∀ c ∈ hostport s h p ++ path, isUnsafe c = false := by
    intro c hc
    rcases List.mem_append.mp hc with m | m
    · exact (hp_ok c m).1
    · obtain ⟨a, b, d⟩ := hpath c m
      simp [isUnsafe, a, b, d]
  have hfilter : (hostport s h p ++ path).filter (fun c => !isUnsafe c) = hostport s h p ++ path := by
    rw [List.filter_eq_self]
    intro c hc
    simp [hclean_all c hc]
  have hnet := takeWhile_stop (fun c => !isNetlocEnd c) (hostport s h p) 47 p0
    (by intro c hc; simp [(hp_ok c hc).2]) (by decide)
  -- the bracket checks
  have hbr : ((hostport s h p).contains 91 != (hostport s h p).contains 93) = false ∧
      ((hostport s h p).contains 91 && !vb (partition 93 (partition 91 (hostport s h p)).2.2).1) = false := by
    have n91 : 91 ∉ h := fun m => (hclean 91 m).2.2.2.2.2.2.2 rfl
    have tch := tailOf_chars s p
    have t_no (c : Nat) (hc : c ≠ 58) (hd : ¬ (48 ≤ c ∧ c ≤ 57)) : c ∉ tailOf s p := by
      intro m
      rcases tch c m with e | e
      · exact hc e
      · exact hd (digit_range c e)
    rw [hostport_eq]
    by_cases hc : 58 ∈ h
    · have hb : bracket h = 91 :: (h ++ [93]) := by unfold bracket; simp [hc, h91]
      have e : bracket h ++ tailOf s p = 91 :: (h ++ 93 :: tailOf s p) := by rw [hb]; simp
      rw [e]
      have p1 : partition 91 (91 :: (h ++ 93 :: tailOf s p)) = ([], true, h ++ 93 :: tailOf s p) := by simp [partition]
      rw [p1]
      simp only
      rw [partition_stop 93 h _ h93]
      simp [hvb hc]
    · have hb : bracket h = h := by unfold bracket; simp [hc]
      rw [hb]
      have a : (h ++ tailOf s p).contains 91 = false := by
        have : 91 ∉ h ++ tailOf s p := by
          simp only [List.mem_append, not_or]; exact ⟨n91, t_no 91 (by decide) (by omega)⟩
        simpa using this
      have b : (h ++ tailOf s p).contains 93 = false := by
        have : 93 ∉ h ++ tailOf s p := by
          simp only [List.mem_append, not_or]; exact ⟨h93, t_no 93 (by decide) (by omega)⟩
        simpa using this
      rw [a, b]
      exact ⟨rfl, rfl⟩
  have e1 : S "http" = [104, 116, 116, 112] := by decide
  have e2 : S "https" = [104, 116, 116, 112, 115] := by decide
  have e3 : S "://" = [58, 47, 47] := by decide
  have hsafe : ∀ c ∈ hostport s h p ++ path, (!isUnsafe c) = true := by
    intro c hc; simp [hclean_all c hc]
  rcases hs with rfl | rfl
  · refine pySplit_eval vb _ (S "http") (hostport (S "http") h p ++ path) ?_ ?_ ?_ ?_ (by decide) ?_ _ _
      (hp0 ▸ hnet.1) (hp0 ▸ hnet.2) hbr.1 hbr.2
    · simp [e1, e3, isC0OrSpace]
    · rw [List.filter_eq_self]
      intro c hc
      simp only [e1, e3, List.cons_append, List.nil_append, List.append_assoc, List.mem_cons] at hc
      rcases hc with rfl | rfl | rfl | rfl | rfl | rfl | rfl | hc
      all_goals first | decide | exact hsafe c hc
    · simp [e1, e3, List.takeWhile]
    · simp [e1, e3, isAsciiAlpha, isSchemeChar]
    · simp [e1, e3]
  · refine pySplit_eval vb _ (S "https") (hostport (S "https") h p ++ path) ?_ ?_ ?_ ?_ (by decide) ?_ _ _
      (hp0 ▸ hnet.1) (hp0 ▸ hnet.2) hbr.1 hbr.2
    · simp [e2, e3, isC0OrSpace]
    · rw [List.filter_eq_self]
      intro c hc
      simp only [e2, e3, List.cons_append, List.nil_append, List.append_assoc, List.mem_cons] at hc
      rcases hc with rfl | rfl | rfl | rfl | rfl | rfl | rfl | rfl | hc
      all_goals first | decide | exact hsafe c hc
    · simp [e2, e3, List.takeWhile]
    · simp [e2, e3, isAsciiAlpha, isSchemeChar]
    · simp [e2, e3]

/-- **url.parse reads the getter's URL back.** With urlsplit's scheme/netloc reading (`pySplit`) and the netloc → hostname/port
    reading transcribed, `url.parse(request.url)` returns the request's own scheme, host, port and path — for http/https, hosts that
    are lower-case ASCII DNS names, IPv4 literals or (bracketed) IPv6 literals, every port 1…65535 (default ports elided), ASCII
    paths.  The library facts that remain hypotheses are the last four fields of `GetterUrlOk`. -/
theorem url_parse_reads_getter_url (Q : PyLib) (r : Req) (ok : GetterUrlOk Q r) :
    urlParse (pyLib Q) (url r) = some (r.scheme, r.host, r.port, r.path) := by
  obtain ⟨hm, hs, hk, ⟨hp1, hp2⟩, hslash, hpa, hvb, hidna, hvalid, hrest⟩ := ok
  have hne42 : r.path ≠ [42] := by
    intro e; rw [e] at hslash; simp at hslash
  have hurl : url r = r.scheme ++ S "://" ++ hostport r.scheme r.host r.port ++ r.path := by
    unfold url unparse; simp [hm, hne42]
  have hsplit := pySplit_getter Q.validBracketed r.scheme r.host r.port r.path hs hk hslash
    (fun c hc => ⟨(hpa c hc).2.1, (hpa c hc).2.2.1, (hpa c hc).2.2.2⟩) hvb
  obtain ⟨hhost, _⟩ := netloc_hostport r.scheme r.host r.port hk
  have hport := portOf_hostport r.scheme r.host r.port hk hp2
  -- all characters are ASCII
  have hascii : (url r).any (fun c => c ≥ 128) = false := by
    rw [List.any_eq_false]
    intro c hc
    rw [hurl] at hc
    simp only [List.mem_append] at hc
    have : c < 128 := by
      rcases hc with ((hc | hc) | hc) | hc
      · rcases hs with e | e <;> (rw [e] at hc; revert c; decide)
      · revert c; decide
      · rcases hostport_chars _ _ _ c hc with m | rfl | rfl | rfl | d
        · exact hk.ascii c m
        · decide
        · decide
        · decide
        · have := digit_range c d; omega
      · exact (hpa c hc).1
    simp; omega
  have hdflt : defaultPort r.scheme = some r.port → (if r.scheme = S "https" then 443 else 80) = r.port := by
    intro h
    rcases hs with e | e
    · rw [e] at h ⊢
      have d : defaultPort (S "http") = some 80 := by decide
      have n : ¬ (S "http" = S "https") := by decide
      rw [d] at h
      rw [if_neg n]; exact Option.some.inj h
    · rw [e] at h ⊢
      have d : defaultPort (S "https") = some 443 := by decide
      rw [d] at h
      rw [if_pos rfl]; exact Option.some.inj h
  unfold urlParse
  have hsp : (pyLib Q).split (url r) = some (r.scheme, hostport r.scheme r.host r.port, r.path) := by
    show (pySplit Q.validBracketed (url r)).map _ = _
    rw [hurl, hsplit]
    simp [hrest, hslash]
  rw [hsp]
  simp only [hhost]
  have hid : (pyLib Q).idnaRt r.host = some r.host := hidna
  have hv : (pyLib Q).validHost r.host = true := hvalid
  simp only [hid, hascii, hport, hv]
  by_cases hd : defaultPort r.scheme = some r.port
  · simp [hd, hdflt hd]
  · have : r.port ≠ 0 := by omega
    simp [hd, this]

/-- **C33 (url).** Assigning `request.url` again leaves the request exactly as it is — now without the "url.parse reads it back"
    hypothesis: it is discharged by `url_parse_reads_getter_url` for every request the setter produces whose fields satisfy
    `GetterUrlOk` (http/https, ASCII host, ASCII path). -/
theorem url_get_set_idempotent_ascii (Q : PyLib) (r : Req) (u : Str) (r' : Req) (h1 : setUrl (pyLib Q) r u = some r')
    (ok : GetterUrlOk Q r') : setUrl (pyLib Q) r' (url r') = some r' :=
  url_get_set_idempotent_partial (pyLib Q) r u r' h1 (url_parse_reads_getter_url Q r' ok)

/-! ### the `restStable` hypothesis, derived: the re-assembly after the netloc is transcribed (`normRestPy`) and idempotent -/

/-- whatever `url.parse` accepts, the path it returns is the re-assembled rest (with a `/` in front if it lacks one) under the
    scheme it returns -/
private theorem urlParse_path_form (Q : PyLib) (u s h : Str) (p : Nat) (path : Str)
    (hp : urlParse (pyLib Q) u = some (s, h, p, path)) :
    ∃ rest, path = (if (Q.normRest s rest).head? = some 47 then Q.normRest s rest else 47 :: Q.normRest s rest) := by
  unfold urlParse at hp
  cases hs : (pyLib Q).split u with
  | none => rw [hs] at hp; cases hp
  | some t =>
    obtain ⟨sc, nl, full⟩ := t
    rw [hs] at hp
    simp only at hp
    -- the split result comes from pySplit
    have hform : ∃ rest, full = (if (Q.normRest sc rest).head? = some 47 then Q.normRest sc rest else 47 :: Q.normRest sc rest) := by
      have hs' : (pySplit Q.validBracketed u).map (fun t =>
          (t.1, t.2.1, if (Q.normRest t.1 t.2.2).head? = some 47 then Q.normRest t.1 t.2.2 else 47 :: Q.normRest t.1 t.2.2)) =
          some (sc, nl, full) := hs
      cases hq : pySplit Q.validBracketed u with
      | none => rw [hq] at hs'; cases hs'
      | some t0 =>
        rw [hq] at hs'
        simp only [Option.map_some, Option.some.injEq, Prod.mk.injEq] at hs'
        obtain ⟨e1, _, e3⟩ := hs'
        exact ⟨t0.2.2, by rw [← e3, ← e1]⟩
    -- peel the remaining failure branches of url.parse
    split at hp
    · cases hp
    · split at hp
      · cases hp
      · split at hp
        · cases hp
        · split at hp
          · cases hp
          · split at hp
            · cases hp
            · simp only [Option.some.injEq, Prod.mk.injEq] at hp
              obtain ⟨e1, _, _, e4⟩ := hp
              rw [← e1, ← e4]; exact hform

/-- **`restStable` is a theorem** for the transcribed re-assembly: the path of any request produced by the URL setter is left alone
    by `urlunparse ∘ urlparse` -/
theorem restStable_of_setUrl (Q : PyLib) (r : Req) (u : Str) (r' : Req) (h : setUrl (pyLib (withRest Q)) r u = some r') :
    (withRest Q).normRest r'.scheme r'.path = r'.path := by
  unfold setUrl at h
  cases hp : urlParse (pyLib (withRest Q)) u with
  | none => rw [hp] at h; cases h
  | some q =>
    obtain ⟨s, hh, p, path⟩ := q
    rw [hp] at h
    simp only [Option.some.injEq] at h
    obtain ⟨rest, hrest⟩ := urlParse_path_form (withRest Q) u s hh p path hp
    have hs : r'.scheme = s := by rw [← h]; rfl
    have hpth : r'.path = path := by rw [← h]
    rw [hs, hpth, hrest]
    exact normRestPy_stored s rest

/-- the hypotheses of `url_get_set_idempotent_ascii` WITHOUT `restStable` -/
structure GetterUrlOk2 (Q : PyLib) (r : Req) : Prop where
  notConnect : r.method.map upperC ≠ S "CONNECT"
  scheme : r.scheme = S "http" ∨ r.scheme = S "https"
  host : HostOk r.host
  port : 1 ≤ r.port ∧ r.port ≤ 65535
  pathSlash : r.path.head? = some 47
  pathAscii : ∀ c ∈ r.path, c < 128 ∧ c ≠ 9 ∧ c ≠ 10 ∧ c ≠ 13
  bracketedOk : 58 ∈ r.host → Q.validBracketed r.host = true
  idnaAscii : Q.idnaRt r.host = some r.host
  hostValid : Q.validHost r.host = true

/-- **C33 (url), with the rest re-assembly transcribed.** Re-assigning `request.url` changes nothing; of the library hypotheses only
    `_check_bracketed_host`, the IDNA round trip of an ASCII host and `is_valid_host` remain. -/
theorem url_get_set_idempotent_ascii_rest (Q : PyLib) (r : Req) (u : Str) (r' : Req)
    (h1 : setUrl (pyLib (withRest Q)) r u = some r') (ok : GetterUrlOk2 Q r') :
    setUrl (pyLib (withRest Q)) r' (url r') = some r' :=
  url_get_set_idempotent_ascii (withRest Q) r u r' h1
    { notConnect := ok.notConnect, scheme := ok.scheme, host := ok.host, port := ok.port, pathSlash := ok.pathSlash,
      pathAscii := ok.pathAscii, bracketedOk := ok.bracketedOk, idnaAscii := ok.idnaAscii, hostValid := ok.hostValid,
      restStable := restStable_of_setUrl Q r u r' h1 }

example : normRestPy (S "http") (S "/a;b/c;?q=1?x#") = S "/a;b/c?q=1?x" ∧ normRestPy (S "http") (S "?x#f") = S "?x#f" ∧
    normRestPy (S "http") (S "/p;k=v;w?") = S "/p;k=v;w" ∧ normRestPy (S "gopher") (S "/p;k") = S "/p;k" := by decide +kernel

/-! ### more of `GetterUrlOk` derived from the setter's own success: port range, leading `/`, `is_valid_host`, the IDNA round trip -/

private theorem mem_dropWhile_sub (p : Nat → Bool) (l : Str) : ∀ x ∈ l.dropWhile p, x ∈ l := by
  induction l with
  | nil => simp
  | cons y l ih =>
    intro x hx
    by_cases h : p y = true
    · rw [List.dropWhile_cons_of_pos h] at hx; exact List.mem_cons_of_mem _ (ih x hx)
    · rw [List.dropWhile_cons_of_neg h] at hx; exact hx

private theorem mem_takeWhile_sub (p : Nat → Bool) (l : Str) : ∀ x ∈ l.takeWhile p, x ∈ l := by
  induction l with
  | nil => simp
  | cons y l ih =>
    intro x hx
    by_cases h : p y = true
    · rw [List.takeWhile_cons_of_pos h] at hx
      rcases List.mem_cons.mp hx with e | hx
      · exact e ▸ List.mem_cons_self
      · exact List.mem_cons_of_mem _ (ih x hx)
    · rw [List.takeWhile_cons_of_neg h] at hx; cases hx

private theorem schemeSplit_snd_sub (U : Str) : ∀ x ∈ (schemeSplit U).2, x ∈ U := by
  unfold schemeSplit
  split
  · intro x hx; exact List.mem_of_mem_drop hx
  · intro x hx; exact hx

/-- the netloc that urlsplit's reading returns consists of characters of the URL -/
private theorem pySplit_netloc_sub (vb : Str → Bool) (u sc nl rest : Str) (h : pySplit vb u = some (sc, nl, rest)) : ∀ x ∈ nl, x ∈ u := by
  unfold pySplit at h
  simp only at h
  split at h
  · split at h
    · cases h
    · split at h
      · cases h
      · simp only [Option.some.injEq, Prod.mk.injEq] at h
        obtain ⟨_, e, _⟩ := h
        intro x hx
        rw [← e] at hx
        have h1 := mem_takeWhile_sub _ _ x hx
        have h2 := List.mem_of_mem_drop h1
        have h3 := schemeSplit_snd_sub _ x h2
        unfold cleanUrl at h3
        exact mem_dropWhile_sub _ _ x (List.mem_filter.mp h3).1
  · simp only [Option.some.injEq, Prod.mk.injEq] at h
    obtain ⟨_, e, _⟩ := h
    intro x hx; rw [← e] at hx; cases hx

private theorem lowerC_lt (c : Nat) (h : c < 128) : lowerC c < 128 := by unfold lowerC; split <;> omega

/-- the hostname urllib reads consists of (lower-cased) characters of the netloc, or `%` -/
private theorem hostname_ascii (nl hn : Str) (h : hostname nl = some hn) (hnl : ∀ c ∈ nl, c < 128) : ∀ c ∈ hn, c < 128 := by
  -- every part of hostinfo is made of characters of the netloc
  have hi_sub : ∀ x ∈ (hostinfo nl).1, x ∈ nl := by
    unfold hostinfo
    have al : ∀ x ∈ afterLast 64 nl, x ∈ nl := by
      intro x hx
      unfold afterLast at hx
      exact List.mem_reverse.mp (mem_takeWhile_sub _ _ x (List.mem_reverse.mp hx))
    simp only
    split
    · rename_i hb
      intro x hx
      have : x ∈ (partition 91 (afterLast 64 nl)).2.2 := by rw [hb]; exact partition_fst_sub 93 _ x hx
      exact al x (partition_snd_sub 91 _ x this)
    · intro x hx
      exact al x (partition_fst_sub 58 _ x hx)
  unfold hostname at h
  simp only at h
  split at h
  · cases h
  · simp only [Option.some.injEq] at h
    intro c hc
    rw [← h] at hc
    simp only [List.mem_append] at hc
    rcases hc with (hc | hc) | hc
    · unfold lower at hc
      obtain ⟨y, hy, e⟩ := List.mem_map.mp hc
      rw [← e]
      exact lowerC_lt y (hnl y (hi_sub y (partition_fst_sub 37 _ y hy)))
    · split at hc
      · simp at hc; omega
      · cases hc
    · exact hnl c (hi_sub c (partition_snd_sub 37 _ c hc))

/-- everything `url.parse` checked on the way to a result -/
private theorem urlParse_facts (Q : PyLib) (u s h : Str) (p : Nat) (path : Str)
    (hp : urlParse (pyLib Q) u = some (s, h, p, path)) :
    ∃ hn, Q.idnaRt hn = some h ∧ Q.validHost hn = true ∧ (∀ c ∈ hn, c < 128) ∧ 1 ≤ p ∧ p ≤ 65535 := by
  unfold urlParse at hp
  cases hs : (pyLib Q).split u with
  | none => rw [hs] at hp; cases hp
  | some t =>
    obtain ⟨sc, nl, full⟩ := t
    rw [hs] at hp
    simp only at hp
    have hnl_sub : ∀ x ∈ nl, x ∈ u := by
      have hs' : (pySplit Q.validBracketed u).map (fun t =>
          (t.1, t.2.1, if (Q.normRest t.1 t.2.2).head? = some 47 then Q.normRest t.1 t.2.2 else 47 :: Q.normRest t.1 t.2.2)) =
          some (sc, nl, full) := hs
      cases hq : pySplit Q.validBracketed u with
      | none => rw [hq] at hs'; cases hs'
      | some t0 =>
        obtain ⟨a, b, c⟩ := t0
        rw [hq] at hs'
        simp only [Option.map_some, Option.some.injEq, Prod.mk.injEq] at hs'
        rw [← hs'.2.1]
        exact pySplit_netloc_sub _ u a b c hq
    cases hh : hostname nl with
    | none => rw [hh] at hp; cases hp
    | some hn =>
      rw [hh] at hp
      simp only at hp
      cases hi : (pyLib Q).idnaRt hn with
      | none => rw [hi] at hp; cases hp
      | some hd =>
        rw [hi] at hp
        simp only at hp
        by_cases hany : (u.any fun c => decide (c ≥ 128)) = true
        · rw [if_pos hany] at hp; cases hp
        · rw [if_neg hany] at hp
          have hascii : ∀ c ∈ u, c < 128 := by
            intro c hc
            have h' : ∀ x ∈ u, x < 128 := by simpa using hany
            exact h' c hc
          cases hpo : portOf nl with
          | none => rw [hpo] at hp; cases hp
          | some po =>
            rw [hpo] at hp
            simp only at hp
            by_cases hv : (pyLib Q).validHost hn = true
            · simp only [hv, Bool.not_true, Bool.false_eq_true, if_false, Option.some.injEq, Prod.mk.injEq] at hp
              obtain ⟨_, e2, e3, _⟩ := hp
              refine ⟨hn, by rw [← e2]; exact hi, hv, hostname_ascii nl hn hh (fun c hc => hascii c (hnl_sub c hc)), ?_⟩
              -- the port: what portOf returned (≤ 65535, and 0 is replaced) or the scheme's default
              have hpo_le : ∀ n, po = some n → n ≤ 65535 := by
                intro n hn'
                unfold portOf at hpo
                simp only at hpo
                split at hpo
                · rw [hn'] at hpo; cases hpo
                · split at hpo
                  · split at hpo
                    · rw [hn'] at hpo; simp only [Option.some.injEq] at hpo; omega
                    · cases hpo
                  · cases hpo
              rw [← e3]
              cases po with
              | none => simp only; split <;> omega
              | some n =>
                have := hpo_le n rfl
                simp only
                split
                · split <;> omega
                · omega
            · have : (pyLib Q).validHost hn = false := by simpa using hv
              simp [this] at hp

/-- ASCII host names pass through the IDNA codec unchanged (ToASCII and ToUnicode are the identity on ASCII labels without the ACE
    prefix; a label WITH it decodes to non-ASCII text) -/
def IdnaAsciiLaw (Q : PyLib) : Prop :=
  ∀ a b, (∀ c ∈ a, c < 128) → Q.idnaRt a = some b → (∀ c ∈ b, c < 128) → b = a

/-- what remains to be assumed about a request produced by the URL setter -/
structure GetterUrlOk3 (Q : PyLib) (r : Req) : Prop where
  notConnect : r.method.map upperC ≠ S "CONNECT"
  scheme : r.scheme = S "http" ∨ r.scheme = S "https"
  host : HostOk r.host
  pathAscii : ∀ c ∈ r.path, c < 128 ∧ c ≠ 9 ∧ c ≠ 10 ∧ c ≠ 13
  bracketedOk : 58 ∈ r.host → Q.validBracketed r.host = true

/-- **C33 (url), strongest form.** For the library with urlsplit's scheme/netloc reading, urllib's hostname/port reading and the
    re-assembly of the rest all transcribed: if the URL setter accepted `u` and produced `r'` (http/https, lower-case ASCII host,
    ASCII path), assigning `r'.url` again gives exactly `r'`.  The port range, the leading `/` of the path, `is_valid_host`, the IDNA
    round trip of the host and the stability of the path are all DERIVED from the setter's success; assumed are the IDNA law for
    ASCII names and, for IPv6 literals, `_check_bracketed_host`. -/
theorem url_get_set_idempotent_derived (Q : PyLib) (law : IdnaAsciiLaw Q) (r : Req) (u : Str) (r' : Req)
    (h1 : setUrl (pyLib (withRest Q)) r u = some r') (ok : GetterUrlOk3 Q r') :
    setUrl (pyLib (withRest Q)) r' (url r') = some r' := by
  have h1' := h1
  unfold setUrl at h1'
  cases hp : urlParse (pyLib (withRest Q)) u with
  | none => rw [hp] at h1'; cases h1'
  | some q =>
    obtain ⟨s, hh, p, path⟩ := q
    rw [hp] at h1'
    simp only [Option.some.injEq] at h1'
    have eh : r'.host = hh := by rw [← h1']; rfl
    have ep : r'.port = p := by rw [← h1']; rfl
    have epath : r'.path = path := by rw [← h1']
    obtain ⟨hn, hidn, hval, hnascii, hp1, hp2⟩ := urlParse_facts (withRest Q) u s hh p path hp
    obtain ⟨rest, hrest⟩ := urlParse_path_form (withRest Q) u s hh p path hp
    have hhn : hh = hn := law hn hh hnascii hidn (by rw [← eh]; exact ok.host.ascii)
    apply url_get_set_idempotent_ascii_rest Q r u r' h1
    refine { notConnect := ok.notConnect, scheme := ok.scheme, host := ok.host, port := by rw [ep]; exact ⟨hp1, hp2⟩,
             pathSlash := ?_, pathAscii := ok.pathAscii, bracketedOk := ok.bracketedOk, idnaAscii := ?_, hostValid := ?_ }
    · rw [epath, hrest]; split <;> simp_all
    · rw [eh, hhn]; rw [hhn] at hidn; exact hidn
    · rw [eh, hhn]; exact hval

/-! ### `pathAscii` derived as well -/

private theorem schemeSplit_snd_sub' (U : Str) : ∀ x ∈ (schemeSplit U).2, x ∈ U := schemeSplit_snd_sub U

/-- what follows the netloc in urlsplit's reading consists of characters of the cleaned URL -/
private theorem pySplit_rest_sub (vb : Str → Bool) (u sc nl rest : Str) (h : pySplit vb u = some (sc, nl, rest)) :
    ∀ x ∈ rest, x ∈ u ∧ isUnsafe x = false := by
  have hclean : ∀ x ∈ cleanUrl u, x ∈ u ∧ isUnsafe x = false := by
    intro x hx
    unfold cleanUrl at hx
    obtain ⟨h1, h2⟩ := List.mem_filter.mp hx
    exact ⟨mem_dropWhile_sub _ _ x h1, by simpa using h2⟩
  unfold pySplit at h
  simp only at h
  split at h
  · split at h
    · cases h
    · split at h
      · cases h
      · simp only [Option.some.injEq, Prod.mk.injEq] at h
        obtain ⟨_, _, e⟩ := h
        intro x hx
        rw [← e] at hx
        exact hclean x (schemeSplit_snd_sub' _ x (List.mem_of_mem_drop (mem_dropWhile_sub _ _ x hx)))
  · simp only [Option.some.injEq, Prod.mk.injEq] at h
    obtain ⟨_, _, e⟩ := h
    intro x hx
    rw [← e] at hx
    exact hclean x (schemeSplit_snd_sub' _ x hx)

/-- every character of the path `url.parse` returns is ASCII and none is TAB, LF or CR -/
private theorem urlParse_path_chars (Q : PyLib) (u s h : Str) (p : Nat) (path : Str)
    (hp : urlParse (pyLib (withRest Q)) u = some (s, h, p, path)) : ∀ c ∈ path, c < 128 ∧ c ≠ 9 ∧ c ≠ 10 ∧ c ≠ 13 := by
  have hp0 := hp
  unfold urlParse at hp
  cases hs : (pyLib (withRest Q)).split u with
  | none => rw [hs] at hp; cases hp
  | some t =>
    obtain ⟨sc, nl, full⟩ := t
    rw [hs] at hp
    simp only at hp
    -- the URL is ASCII, otherwise url.parse would have refused it
    have hascii : ∀ c ∈ u, c < 128 := by
      cases hh : hostname nl with
      | none => rw [hh] at hp; cases hp
      | some hn =>
        rw [hh] at hp
        simp only at hp
        cases hi : (pyLib (withRest Q)).idnaRt hn with
        | none => rw [hi] at hp; cases hp
        | some hd =>
          rw [hi] at hp
          simp only at hp
          by_cases hany : (u.any fun c => decide (c ≥ 128)) = true
          · rw [if_pos hany] at hp; cases hp
          · intro c hc
            have h' : ∀ x ∈ u, x < 128 := by simpa using hany
            exact h' c hc
    -- the stored path is the re-assembled rest of pySplit
    have hs' : (pySplit (withRest Q).validBracketed u).map (fun t =>
        (t.1, t.2.1, if ((withRest Q).normRest t.1 t.2.2).head? = some 47 then (withRest Q).normRest t.1 t.2.2
          else 47 :: (withRest Q).normRest t.1 t.2.2)) = some (sc, nl, full) := hs
    cases hq : pySplit (withRest Q).validBracketed u with
    | none => rw [hq] at hs'; cases hs'
    | some t0 =>
      obtain ⟨a, b, rest⟩ := t0
      rw [hq] at hs'
      simp only [Option.map_some, Option.some.injEq, Prod.mk.injEq] at hs'
      obtain ⟨_, _, e3⟩ := hs'
      have hrest := pySplit_rest_sub _ u a b rest hq
      obtain ⟨rest', hform⟩ := urlParse_path_form (withRest Q) u s h p path hp0
      -- the path component of the result is `full`
      have hpath : path = full := by
        split at hp
        · cases hp
        · split at hp
          · cases hp
          · split at hp
            · cases hp
            · split at hp
              · cases hp
              · split at hp
                · cases hp
                · simp only [Option.some.injEq, Prod.mk.injEq] at hp
                  exact hp.2.2.2.symm
      intro c hc
      rw [hpath, ← e3] at hc
      have hc' : c = 47 ∨ c ∈ normRestPy a rest := by
        show c = 47 ∨ c ∈ (withRest Q).normRest a rest
        split at hc
        · exact Or.inr hc
        · rcases List.mem_cons.mp hc with e | e
          · exact Or.inl e
          · exact Or.inr e
      rcases hc' with rfl | hc'
      · decide
      · rcases normRestPy_sub a rest c hc' with m | rfl | rfl | rfl
        · obtain ⟨mu, mun⟩ := hrest c m
          have := hascii c mu
          simp only [isUnsafe, Bool.or_eq_false_iff, decide_eq_false_iff_not] at mun
          exact ⟨this, mun.1.1, mun.1.2, mun.2⟩
        · decide
        · decide
        · decide

/-- what remains to be assumed about a request produced by the URL setter: its shape, and `_check_bracketed_host` for IPv6 literals -/
structure GetterUrlOk4 (Q : PyLib) (r : Req) : Prop where
  notConnect : r.method.map upperC ≠ S "CONNECT"
  scheme : r.scheme = S "http" ∨ r.scheme = S "https"
  host : HostOk r.host
  bracketedOk : 58 ∈ r.host → Q.validBracketed r.host = true

/-- **C33 (url), final form.** As `url_get_set_idempotent_derived`, with the ASCII-ness of the path derived too: a request produced
    by the URL setter from ANY accepted `u`, with an http/https scheme and a lower-case ASCII host, is left exactly as it is by
    assigning its own `url` again. -/
theorem url_get_set_idempotent_final (Q : PyLib) (law : IdnaAsciiLaw Q) (r : Req) (u : Str) (r' : Req)
    (h1 : setUrl (pyLib (withRest Q)) r u = some r') (ok : GetterUrlOk4 Q r') :
    setUrl (pyLib (withRest Q)) r' (url r') = some r' := by
  have h1' := h1
  unfold setUrl at h1'
  cases hp : urlParse (pyLib (withRest Q)) u with
  | none => rw [hp] at h1'; cases h1'
  | some q =>
    obtain ⟨s, hh, p, path⟩ := q
    rw [hp] at h1'
    simp only [Option.some.injEq] at h1'
    have epath : r'.path = path := by rw [← h1']
    exact url_get_set_idempotent_derived Q law r u r' h1
      { notConnect := ok.notConnect, scheme := ok.scheme, host := ok.host, bracketedOk := ok.bracketedOk,
        pathAscii := by rw [epath]; exact urlParse_path_chars Q u s hh p path hp }

/-! ### the remaining clauses of the statement: the fields read back consistently, and the URL read back is equivalent -/

/-- **"scheme, host, port and path read back consistently with it"**: after an accepted assignment the four fields are exactly what
    `url.parse` made of the URL -/
theorem setUrl_fields (P : UrlLib) (r : Req) (u : Str) (r' : Req) (h : setUrl P r u = some r') :
    urlParse P u = some (r'.scheme, r'.host, r'.port, r'.path) := by
  unfold setUrl at h
  cases hp : urlParse P u with
  | none => rw [hp] at h; cases h
  | some q =>
    obtain ⟨s, hh, p, path⟩ := q
    rw [hp] at h
    simp only [Option.some.injEq] at h
    rw [← h]
    rfl

/-- **"reading the URL back yields an equivalent URL"**: the URL the getter returns parses to the same scheme, host, port and path as
    the URL that was assigned (under the hypotheses of `url_get_set_idempotent_final`) -/
theorem url_read_back_equivalent (Q : PyLib) (law : IdnaAsciiLaw Q) (r : Req) (u : Str) (r' : Req)
    (h1 : setUrl (pyLib (withRest Q)) r u = some r') (ok : GetterUrlOk4 Q r') :
    urlParse (pyLib (withRest Q)) (url r') = urlParse (pyLib (withRest Q)) u := by
  rw [setUrl_fields _ r u r' h1]
  exact setUrl_fields _ r' (url r') r' (url_get_set_idempotent_final Q law r u r' h1 ok)

/-! ### whole edit histories -/

/-- a history of host / port / url edits applied in order -/
def applyEdits (P : UrlLib) (r : Req) (es : List Edit) : Req := es.foldl (applyEdit P) r

/-- **C33 (edit histories).** After ANY non-empty sequence of host, port and url edits on any request, provided the last edit took
    effect and the destination it leaves is well formed, an existing Host header is still there and names the final host and port,
    and so does a non-empty authority — whatever the earlier edits did. -/
theorem edit_history_keeps_host_header_and_authority_pointing_to_destination
    (P : UrlLib) (valid : Str → Bool) (r : Req) (es : List Edit) (e : Edit)
    (hacc : ∀ u, e = .url u → (setUrl P (applyEdits P r es) u).isSome)
    (hne : ∀ x, x ≠ [] → P.normAuth x ≠ [])
    (hd : DestOk P valid (applyEdits P r (es ++ [e]))) :
    Consistent valid (applyEdits P r (es ++ [e])) ∧
      ((applyEdits P r (es ++ [e])).hostHeader.isSome = (applyEdits P r es).hostHeader.isSome) ∧
      ((applyEdits P r (es ++ [e])).authority = [] ↔ (applyEdits P r es).authority = []) := by
  have e1 : applyEdits P r (es ++ [e]) = applyEdit P (applyEdits P r es) e := by simp [applyEdits, List.foldl_append]
  rw [e1] at hd ⊢
  exact host_port_edit_keeps_host_header_and_authority_pointing_to_destination P valid (applyEdits P r es) e hacc hne hd

/-! ### F-C33b: IDN hosts -/
private def uA : Str := S "http://xn--bcher-kva.example/p"
private def hA : Str := S "xn--bcher-kva.example"
private def hU : Str := S "b" ++ [0xfc] ++ S "cher.example"
private def uU : Str := S "http://" ++ hU ++ S "/p"

/-- urlsplit on the two URLs involved, IDNA decoding of the A-label, everything valid, authority untouched -/
private def idnLib : UrlLib where
  split u := if u = uA then some (S "http", hA, S "/p") else if u = uU then some (S "http", hU, S "/p") else none
  idnaRt h := if h = hA then some hU else some h
  validHost _ := true
  normAuth x := x

private def req0 : Req :=
  { h2 := false, method := S "GET", scheme := S "http", host := S "start.example", port := 81, path := S "/orig",
    hostHeader := some (S "old:1"), authority := [] }

/-- F-C33b: `http://xn--bcher-kva.example/p` is accepted and reads back as `http://bücher.example/p`, which is rejected -/
theorem url_get_set_idempotent_counterexample : ¬ UrlReassignIdempotent := by
  intro h
  have := h idnLib req0 uA ((setUrl idnLib req0 uA).getD req0) (by decide +kernel) (by decide +kernel)
  revert this
  decide +kernel

/-! ### non-vacuity -/
example : HostShape (S "::1") ∧ HostShape (S "example.com") := by
  refine ⟨⟨by decide, by decide, by decide, by decide⟩, ⟨by decide, by decide, by decide, by decide⟩⟩

example : hostport (S "http") (S "::1") 8080 = S "[::1]:8080" ∧ hostport (S "https") (S "::1") 443 = S "[::1]" ∧
    hostport (S "http") (S "example.com") 80 = S "example.com" := by decide +kernel

example : parseAuthority (fun _ => true) (S "[::1]:8080") = some (S "::1", some 8080) ∧
    parseAuthority (fun _ => true) (S "::1:8080") = none ∧
    parseAuthority (fun _ => true) (S "example.com:65536") = none ∧
    parseAuthority (fun _ => true) (S "[a]:1]:2") = some (S "a]:1", some 2) := by decide +kernel

/-- the hypothesis of the partial theorem is satisfiable: an ASCII URL is read back -/
private def asciiLib : UrlLib where
  split u := if u = S "http://[::1]:8080/a" then some (S "http", S "[::1]:8080", S "/a") else none
  idnaRt h := some h
  validHost _ := true
  normAuth x := x

example : setUrl asciiLib ((setUrl asciiLib req0 (S "http://[::1]:8080/a")).getD req0)
      (url ((setUrl asciiLib req0 (S "http://[::1]:8080/a")).getD req0)) =
    some ((setUrl asciiLib req0 (S "http://[::1]:8080/a")).getD req0) := by decide +kernel

/-- `GetterUrlOk` is satisfiable, e.g. by the request the setter makes of `http://[::1]:8080/a` (bracketed IPv6, explicit port),
    with a library whose unproved parts behave as Python's do on it -/
private def okLib : PyLib where
  validBracketed _ := true
  normRest _ r := r
  idnaRt h := some h
  validHost _ := true
  normAuth x := x

private def okReq : Req :=
  { h2 := false, method := S "GET", scheme := S "http", host := S "::1", port := 8080, path := S "/a?b=c",
    hostHeader := some (S "[::1]:8080"), authority := [] }

example : urlParse (pyLib okLib) (url okReq) = some (okReq.scheme, okReq.host, okReq.port, okReq.path) :=
  url_parse_reads_getter_url okLib okReq
    { notConnect := by decide +kernel, scheme := Or.inl rfl,
      host := ⟨⟨by decide, by decide, by decide, by decide⟩, by decide, by decide, by decide⟩,
      port := by decide, pathSlash := by decide, pathAscii := by decide,
      bracketedOk := fun _ => rfl, idnaAscii := rfl, hostValid := rfl, restStable := rfl }

/-- the hypotheses of `url_get_set_idempotent_derived` are satisfiable: assign `http://[::1]:8080/a;x?b=c#` to a request -/
example : setUrl (pyLib (withRest okLib)) ((setUrl (pyLib (withRest okLib)) req0 (S "http://[::1]:8080/a;x?b=c#")).getD req0)
      (url ((setUrl (pyLib (withRest okLib)) req0 (S "http://[::1]:8080/a;x?b=c#")).getD req0)) =
    some ((setUrl (pyLib (withRest okLib)) req0 (S "http://[::1]:8080/a;x?b=c#")).getD req0) :=
  url_get_set_idempotent_derived okLib (fun a b _ h _ => by cases h; rfl) req0 (S "http://[::1]:8080/a;x?b=c#") _ (by decide +kernel)
    { notConnect := by decide +kernel, scheme := by decide +kernel,
      host := ⟨⟨by decide +kernel, by decide +kernel, by decide +kernel, by decide +kernel⟩, by decide +kernel, by decide +kernel,
               by decide +kernel⟩,
      pathAscii := by decide +kernel, bracketedOk := fun _ => rfl }

example : pySplit (fun _ => true) (S "HTTP://User@[::1]:8080/a?b#c") = some (S "http", S "User@[::1]:8080", S "/a?b#c") ∧
    pySplit (fun _ => true) (S "http://[::1/") = none ∧
    pySplit (fun _ => true) (S " \thttp:/x") = some (S "http", [], S "/x") := by decide +kernel

/-! ### audit round 6: non-vacuity witnesses for the edit theorems and for the final url theorems -/

private def h2req : Req :=
  { h2 := true, method := S "GET", scheme := S "https", host := S "start.example", port := 443, path := S "/",
    hostHeader := some (S "start.example"), authority := S "start.example" }

/-- `host_port_edit_…`: an HTTP/2 request with Host header AND authority gets a new host; both now name `new.example` -/
example : Consistent (fun _ => true) (applyEdit asciiLib h2req (.host (S "new.example"))) ∧
    (applyEdit asciiLib h2req (.host (S "new.example"))).hostHeader = some (S "new.example") ∧
    (applyEdit asciiLib h2req (.host (S "new.example"))).authority = S "new.example" :=
  ⟨(host_port_edit_keeps_host_header_and_authority_pointing_to_destination asciiLib (fun _ => true) h2req
      (.host (S "new.example")) (by intro u h; cases h) (by intro x hx; exact hx)
      ⟨⟨by decide +kernel, by decide +kernel, by decide +kernel, by decide +kernel⟩, rfl, by decide +kernel, rfl⟩).1,
   by decide +kernel, by decide +kernel⟩

/-- a port edit to a non-default port on an IPv6 destination: the Host header becomes `[::1]:8443` and parses back -/
example : Consistent (fun _ => true) (applyEdit asciiLib { h2req with host := S "::1" } (.port 8443)) ∧
    (applyEdit asciiLib { h2req with host := S "::1" } (.port 8443)).hostHeader = some (S "[::1]:8443") :=
  ⟨(host_port_edit_keeps_host_header_and_authority_pointing_to_destination asciiLib (fun _ => true) _
      (.port 8443) (by intro u h; cases h) (by intro x hx; exact hx)
      ⟨⟨by decide +kernel, by decide +kernel, by decide +kernel, by decide +kernel⟩, rfl, by decide +kernel, rfl⟩).1,
   by decide +kernel⟩

/-- `edit_history_…` on a real history: an accepted url edit, a port edit, then a host edit -/
example : Consistent (fun _ => true)
    (applyEdits asciiLib req0 ([.url (S "http://[::1]:8080/a"), .port 9] ++ [.host (S "example.org")])) ∧
    (applyEdits asciiLib req0 ([.url (S "http://[::1]:8080/a"), .port 9] ++ [.host (S "example.org")])).hostHeader
      = some (S "example.org:9") :=
  ⟨(edit_history_keeps_host_header_and_authority_pointing_to_destination asciiLib (fun _ => true) req0
      [.url (S "http://[::1]:8080/a"), .port 9] (.host (S "example.org")) (by intro u h; cases h)
      (by intro x hx; exact hx)
      ⟨⟨by decide +kernel, by decide +kernel, by decide +kernel, by decide +kernel⟩, rfl, by decide +kernel, rfl⟩).1,
   by decide +kernel⟩

/-- `url_get_set_idempotent_final` and `url_read_back_equivalent`: hypotheses hold for `http://[::1]:8080/a;x?b=c#` -/
example : setUrl (pyLib (withRest okLib)) ((setUrl (pyLib (withRest okLib)) req0 (S "http://[::1]:8080/a;x?b=c#")).getD req0)
      (url ((setUrl (pyLib (withRest okLib)) req0 (S "http://[::1]:8080/a;x?b=c#")).getD req0)) =
    some ((setUrl (pyLib (withRest okLib)) req0 (S "http://[::1]:8080/a;x?b=c#")).getD req0) :=
  url_get_set_idempotent_final okLib (fun a b _ h _ => by cases h; rfl) req0 (S "http://[::1]:8080/a;x?b=c#") _ (by decide +kernel)
    { notConnect := by decide +kernel, scheme := by decide +kernel,
      host := ⟨⟨by decide +kernel, by decide +kernel, by decide +kernel, by decide +kernel⟩, by decide +kernel, by decide +kernel,
               by decide +kernel⟩,
      bracketedOk := fun _ => rfl }

example : urlParse (pyLib (withRest okLib)) (url ((setUrl (pyLib (withRest okLib)) req0 (S "http://[::1]:8080/a;x?b=c#")).getD req0)) =
    urlParse (pyLib (withRest okLib)) (S "http://[::1]:8080/a;x?b=c#") :=
  url_read_back_equivalent okLib (fun a b _ h _ => by cases h; rfl) req0 (S "http://[::1]:8080/a;x?b=c#") _ (by decide +kernel)
    { notConnect := by decide +kernel, scheme := by decide +kernel,
      host := ⟨⟨by decide +kernel, by decide +kernel, by decide +kernel, by decide +kernel⟩, by decide +kernel, by decide +kernel,
               by decide +kernel⟩,
      bracketedOk := fun _ => rfl }

/-- …and the URL read back is a different string from the one assigned (the theorem is about equivalence, not identity) -/
example : url ((setUrl (pyLib (withRest okLib)) req0 (S "http://[::1]:8080/a;x?b=c#")).getD req0) = S "http://[::1]:8080/a;x?b=c" := by
  decide +kernel

end MitmVerif.Props.C33
