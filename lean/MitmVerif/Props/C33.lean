/-
  C33 — property theorems (model: Model/C33.lean).
  * `parseDec_decDigits`                      : int("%d" % n) = n
  * `parseAuthority_hostport`                 : for every host of the stated shape (non-empty, no newline, no `]`, not starting with
                                                `[` — DNS names, IPv4 and IPv6 literals alike), every scheme and port ≤ 65535,
                                                `parse_authority(hostport(scheme, host, port))` = (host, port or None if default)
  * `host_port_edit_keeps_host_header_and_authority_pointing_to_destination` : after a host, port or (accepted) url edit of ANY request
                                                (HTTP/1 or HTTP/2), an existing Host header and a non-empty authority are still there and
                                                parse to the request's host and port
  * `url_get_set_idempotent_partial`          : assigning `request.url` again leaves the request exactly as it is, provided url.parse reads
                                                the canonical URL back (true for ASCII hosts; validated differentially)
  * `url_get_set_idempotent_counterexample`   : F-C33b — with an IDN host the URL read back is rejected
-/
import MitmVerif.Model.C33
namespace MitmVerif.Props.C33
open MitmVerif MitmVerif.C33

/-! ### decimal ports -/
private theorem parseDec_append (a : Str) (d : Nat) : parseDec (a ++ [d]) = parseDec a * 10 + (d - 48) := by
  simp [parseDec, List.foldl_append]

private theorem decF (f : Nat) : ∀ n, n < f →
    parseDec (decDigitsF f n) = n ∧ (∀ c ∈ decDigitsF f n, isDigit c = true) ∧ decDigitsF f n ≠ [] := by
  induction f with
  | zero => intro n h; omega
  | succ f ih =>
    intro n h
    unfold decDigitsF
    by_cases h10 : n < 10
    · simp only [h10, if_true]
      refine ⟨by simp [parseDec], ?_, by simp⟩
      intro c hc
      simp only [List.mem_singleton] at hc
      subst hc
      simp [isDigit]; omega
    · simp only [h10, if_false]
      obtain ⟨a, b, _⟩ := ih (n / 10) (by omega)
      refine ⟨?_, ?_, by simp⟩
      · rw [parseDec_append, a]; omega
      · intro c hc
        rw [List.mem_append] at hc
        rcases hc with hc | hc
        · exact b c hc
        · simp only [List.mem_singleton] at hc
          subst hc
          simp [isDigit]; omega

/-- **decimal round trip**: `int("%d" % n) = n` -/
theorem parseDec_decDigits (n : Nat) : parseDec (decDigits n) = n := (decF (n + 1) n (by omega)).1

private theorem decDigits_digits (n : Nat) : ∀ c ∈ decDigits n, isDigit c = true := (decF (n + 1) n (by omega)).2.1
private theorem decDigits_ne (n : Nat) : decDigits n ≠ [] := (decF (n + 1) n (by omega)).2.2

/-! ### takeWhile / dropWhile -/
private theorem takeWhile_all (p : Nat → Bool) (a : Str) (h : ∀ x ∈ a, p x = true) : a.takeWhile p = a := by
  induction a with
  | nil => rfl
  | cons x a ih =>
    rw [List.takeWhile_cons_of_pos (h x (by simp)), ih (fun y hy => h y (List.mem_cons_of_mem _ hy))]

private theorem dropWhile_all (p : Nat → Bool) (a : Str) (h : ∀ x ∈ a, p x = true) : a.dropWhile p = [] := by
  induction a with
  | nil => rfl
  | cons x a ih =>
    rw [List.dropWhile_cons_of_pos (h x (by simp)), ih (fun y hy => h y (List.mem_cons_of_mem _ hy))]

private theorem takeWhile_stop (p : Nat → Bool) (a : Str) (y : Nat) (r : Str) (h : ∀ x ∈ a, p x = true) (hy : p y = false) :
    (a ++ y :: r).takeWhile p = a ∧ (a ++ y :: r).dropWhile p = y :: r := by
  induction a with
  | nil => simp [List.takeWhile, List.dropWhile, hy]
  | cons x a ih =>
    have hx := h x (by simp)
    obtain ⟨i1, i2⟩ := ih (fun z hz => h z (List.mem_cons_of_mem _ hz))
    simp only [List.cons_append]
    rw [List.takeWhile_cons_of_pos hx, List.dropWhile_cons_of_pos hx, i1, i2]
    exact ⟨rfl, rfl⟩

private theorem mem_dropWhile (p : Nat → Bool) (l : Str) (x : Nat) (hx : x ∈ l) (hp : p x = false) : x ∈ l.dropWhile p := by
  induction l with
  | nil => cases hx
  | cons y l ih =>
    by_cases h : p y = true
    · rw [List.dropWhile_cons_of_pos h]
      rcases List.mem_cons.mp hx with rfl | hx
      · rw [hp] at h; cases h
      · exact ih hx
    · rw [List.dropWhile_cons_of_neg h]; exact hx

private theorem split_at_mem (c : Nat) (l : Str) (h : c ∈ l) : ∃ a b, l = a ++ c :: b ∧ c ∉ a := by
  induction l with
  | nil => cases h
  | cons y l ih =>
    by_cases hy : y = c
    · exact ⟨[], l, by simp [hy], by simp⟩
    · rcases List.mem_cons.mp h with rfl | h
      · exact absurd rfl hy
      · obtain ⟨a, b, e, n⟩ := ih h
        refine ⟨y :: a, b, by simp [e], ?_⟩
        simp only [List.mem_cons, not_or]
        exact ⟨fun e => hy e.symm, n⟩

/-! ### parse_authority ∘ hostport -/

/-- the shape of a destination host: non-empty, one line, no `]`, not starting with `[`.
    (Every name accepted by `is_valid_host` — DNS labels, IPv4 and IPv6 literals — has it.) -/
def HostShape (h : Str) : Prop := h ≠ [] ∧ 10 ∉ h ∧ 93 ∉ h ∧ h.head? ≠ some 91

/-- the port as an authority carries it -/
def portOpt (scheme : Str) (p : Nat) : Option Nat := if defaultPort scheme = some p then none else some p

private def tailOf (scheme : Str) (p : Nat) : Str := if defaultPort scheme = some p then [] else 58 :: decDigits p

private theorem hostport_eq (s h : Str) (p : Nat) : hostport s h p = bracket h ++ tailOf s p := by
  unfold hostport tailOf; split <;> simp

private theorem tailPort_tailOf (s : Str) (p : Nat) :
    tailPort (tailOf s p) = some (if defaultPort s = some p then none else some (decDigits p)) := by
  unfold tailOf
  by_cases h : defaultPort s = some p
  · simp [h, tailPort]
  · simp only [h, if_false]
    unfold tailPort
    have h1 : ¬ ((58 :: decDigits p) = [] ∨ (58 :: decDigits p) = [10]) := by simp
    simp only [h1, if_false]
    rw [takeWhile_all _ _ (decDigits_digits p), dropWhile_all _ _ (decDigits_digits p)]
    simp [decDigits_ne]

private theorem tailOf_clean (s : Str) (p : Nat) : 93 ∉ tailOf s p ∧ 10 ∉ tailOf s p := by
  unfold tailOf
  split
  · simp
  · constructor
    · intro hm
      have hm' : (93 : Nat) ∈ decDigits p := by simpa using hm
      have := decDigits_digits p _ hm'
      simp [isDigit] at this
    · intro hm
      have hm' : (10 : Nat) ∈ decDigits p := by simpa using hm
      have := decDigits_digits p _ hm'
      simp [isDigit] at this

private theorem scan_cons (pre cs : Str) (best : Option (Str × Option Str)) (c : Nat) (h93 : c ≠ 93) (h10 : c ≠ 10) :
    alt2Scan pre (c :: cs) best = alt2Scan (pre ++ [c]) cs best := by
  simp only [alt2Scan, h93, h10, false_and, if_false]

private theorem scan_prefix (a : Str) : ∀ (pre rest : Str) (best : Option (Str × Option Str)), 93 ∉ a → 10 ∉ a →
    alt2Scan pre (a ++ rest) best = alt2Scan (pre ++ a) rest best := by
  induction a with
  | nil => intro pre rest best _ _; simp
  | cons x a ih =>
    intro pre rest best h93 h10
    have hx93 : x ≠ 93 := fun e => h93 (by simp [e])
    have hx10 : x ≠ 10 := fun e => h10 (by simp [e])
    simp only [List.cons_append]
    rw [scan_cons pre (a ++ rest) best x hx93 hx10,
      ih _ _ _ (fun m => h93 (List.mem_cons_of_mem _ m)) (fun m => h10 (List.mem_cons_of_mem _ m))]
    simp

private theorem authorityMatch_hostport (s h : Str) (p : Nat) (hs : HostShape h) :
    authorityMatch (hostport s h p) = some (h, if defaultPort s = some p then none else some (decDigits p)) := by
  obtain ⟨hne, h10, h93, h91⟩ := hs
  rw [hostport_eq]
  have htail := tailPort_tailOf s p
  by_cases hc : 58 ∈ h
  · -- IPv6 literal: bracketed
    have hb : bracket h = 91 :: (h ++ [93]) := by
      unfold bracket
      simp [hc, h91]
    obtain ⟨h1, h2, e, hn⟩ := split_at_mem 58 h hc
    rw [hb]
    have hform : (91 :: (h ++ [93])) ++ tailOf s p = (91 :: h1) ++ 58 :: (h2 ++ 93 :: tailOf s p) := by rw [e]; simp
    have hrun := takeWhile_stop (fun c => c != 58) (91 :: h1) 58 (h2 ++ 93 :: tailOf s p)
      (by intro x hx
          rcases List.mem_cons.mp hx with rfl | hx
          · decide
          · have : x ≠ 58 := fun e => hn (e ▸ hx)
            simpa using this)
      (by decide)
    unfold authorityMatch
    simp only [hform, hrun.1, hrun.2]
    have htp : tailPort (58 :: (h2 ++ 93 :: tailOf s p)) = none := by
      unfold tailPort
      have n1 : ¬ ((58 :: (h2 ++ 93 :: tailOf s p)) = [] ∨ (58 :: (h2 ++ 93 :: tailOf s p)) = [10]) := by simp
      simp only [n1, if_false]
      have hm : 93 ∈ (h2 ++ 93 :: tailOf s p).dropWhile isDigit := mem_dropWhile _ _ 93 (by simp) (by decide)
      have : ¬ ((h2 ++ 93 :: tailOf s p).takeWhile isDigit ≠ [] ∧
          ((h2 ++ 93 :: tailOf s p).dropWhile isDigit = [] ∨ (h2 ++ 93 :: tailOf s p).dropWhile isDigit = [10])) := by
        intro ⟨_, hh⟩
        rcases hh with hh | hh
        · rw [hh] at hm; cases hm
        · rw [hh] at hm; simp at hm
      simp only [this, if_false]
    simp only [htp, Option.map_none, List.cons_ne_nil, if_false]
    -- second alternative
    have hbody : (91 :: h1) ++ 58 :: (h2 ++ 93 :: tailOf s p) = 91 :: (h ++ 93 :: tailOf s p) := by rw [e]; simp
    rw [hbody]
    simp only
    rw [scan_prefix h [] (93 :: tailOf s p) none h93 h10]
    simp only [List.nil_append]
    unfold alt2Scan
    simp only [hne, ne_eq, not_false_eq_true, and_self, if_true, htail]
    have : (93 : Nat) ≠ 10 := by decide
    simp only [this, if_false]
    have hcl := tailOf_clean s p
    have := scan_prefix (tailOf s p) (h ++ [93]) [] (some (h, if defaultPort s = some p then none else some (decDigits p))) hcl.1 hcl.2
    simp only [List.append_nil] at this
    rw [this]
    simp [alt2Scan]
  · -- no colon: DNS name or IPv4 literal
    have hb : bracket h = h := by
      unfold bracket
      simp [hc]
    rw [hb]
    have hall : ∀ x ∈ h, (fun c : Nat => c != 58) x = true := by
      intro x hx
      have : x ≠ 58 := fun e => hc (e ▸ hx)
      simpa using this
    unfold authorityMatch
    have hrun : (h ++ tailOf s p).takeWhile (fun c => c != 58) = h ∧ (h ++ tailOf s p).dropWhile (fun c => c != 58) = tailOf s p := by
      unfold tailOf
      split
      · simp only [List.append_nil]
        exact ⟨takeWhile_all _ _ hall, dropWhile_all _ _ hall⟩
      · exact takeWhile_stop _ h 58 _ hall (by decide)
    simp only [hrun.1, hrun.2, hne, if_false, htail, Option.map_some]
    have : ¬ (h.head? = some 91 ∧ h.getLast? = some 93) := fun ⟨a, _⟩ => h91 a
    simp [this]

/-- **what hostport writes, parse_authority reads back**: same host, same port (None for the scheme's default port) -/
theorem parseAuthority_hostport (valid : Str → Bool) (s h : Str) (p : Nat)
    (hs : HostShape h) (hv : valid h = true) (hp : p ≤ 65535) :
    parseAuthority valid (hostport s h p) = some (h, portOpt s p) := by
  unfold parseAuthority portOpt
  rw [authorityMatch_hostport s h p hs]
  simp only [hv, Bool.not_true, Bool.false_eq_true, if_false]
  by_cases hd : defaultPort s = some p
  · simp [hd]
  · simp [hd, parseDec_decDigits, hp]

/-! ### host / port / url edits -/

/-- `v` (a Host header or authority value) names the request's destination -/
def PointsTo (valid : Str → Bool) (r : Req) (v : Str) : Prop :=
  parseAuthority valid v = some (r.host, portOpt r.scheme r.port)

/-- an existing Host header and a non-empty authority both name the request's destination -/
def Consistent (valid : Str → Bool) (r : Req) : Prop :=
  (∀ v, r.hostHeader = some v → PointsTo valid r v) ∧ (r.authority ≠ [] → PointsTo valid r r.authority)

/-- the destination is well formed and the authority idna round trip leaves its rendering alone (ASCII / normalised IDN) -/
def DestOk (P : UrlLib) (valid : Str → Bool) (r : Req) : Prop :=
  HostShape r.host ∧ valid r.host = true ∧ r.port ≤ 65535 ∧
    P.normAuth (hostport r.scheme r.host r.port) = hostport r.scheme r.host r.port

private theorem hostport_ne (s h : Str) (p : Nat) (hne : h ≠ []) : hostport s h p ≠ [] := by
  rw [hostport_eq]
  unfold bracket
  split <;> simp [hne]

private theorem update_consistent (P : UrlLib) (valid : Str → Bool) (r : Req) (hd : DestOk P valid r) :
    Consistent valid (update P r) ∧ ((update P r).hostHeader.isSome = r.hostHeader.isSome) ∧
      ((update P r).authority = [] ↔ r.authority = []) := by
  obtain ⟨hs, hv, hp, hn⟩ := hd
  have key := parseAuthority_hostport valid r.scheme r.host r.port hs hv hp
  refine ⟨⟨?_, ?_⟩, ?_, ?_⟩
  · intro v hv'
    unfold update at hv'
    simp only at hv'
    cases hh : r.hostHeader with
    | none => rw [hh] at hv'; cases hv'
    | some _ =>
      rw [hh] at hv'
      simp only [Option.map_some, Option.some.injEq] at hv'
      unfold PointsTo
      rw [← hv']
      exact key
  · intro ha
    unfold PointsTo
    unfold update at ha ⊢
    simp only at ha ⊢
    by_cases he : r.authority = []
    · simp [he] at ha
    · simp only [he, if_false] at ha ⊢
      rw [hn]; exact key
  · unfold update; cases r.hostHeader <;> rfl
  · unfold update
    simp only
    by_cases he : r.authority = []
    · simp [he]
    · simp only [he, if_false, iff_false]
      rw [hn]; exact hostport_ne _ _ _ hs.1

private theorem update_fields (P : UrlLib) (r : Req) :
    (update P r).scheme = r.scheme ∧ (update P r).host = r.host ∧ (update P r).port = r.port := ⟨rfl, rfl, rfl⟩

/-- **C33 (edits).** Take any request (HTTP/1 or HTTP/2, with or without Host header / authority) and apply a host edit, a port
    edit, or a url edit that is accepted.  If the resulting destination is well formed, then an existing Host header is still there
    and parses to the new host and port, and a non-empty authority stays non-empty and parses to the new host and port.
    (`hne`: the authority round trip never turns a non-empty value into the empty one.) -/
theorem host_port_edit_keeps_host_header_and_authority_pointing_to_destination
    (P : UrlLib) (valid : Str → Bool) (r : Req) (e : Edit)
    (hacc : ∀ u, e = .url u → (setUrl P r u).isSome)
    (hne : ∀ x, x ≠ [] → P.normAuth x ≠ [])
    (hd : DestOk P valid (applyEdit P r e)) :
    Consistent valid (applyEdit P r e) ∧
      ((applyEdit P r e).hostHeader.isSome = r.hostHeader.isSome) ∧
      ((applyEdit P r e).authority = [] ↔ r.authority = []) := by
  cases e with
  | host h =>
    simp only [applyEdit, setHost] at hd ⊢
    have hd0 : DestOk P valid { r with host := h } := hd
    exact update_consistent P valid _ hd0
  | port p =>
    simp only [applyEdit, setPort] at hd ⊢
    have hd0 : DestOk P valid { r with port := p } := hd
    exact update_consistent P valid _ hd0
  | url u =>
    have hs := hacc u rfl
    cases hp : urlParse P u with
    | none =>
      have : setUrl P r u = none := by unfold setUrl; rw [hp]
      rw [this] at hs; cases hs
    | some q =>
      obtain ⟨s, h, p, path⟩ := q
      -- the last step is an `update` of r1; the path assignment does not touch the observed fields
      let r1 : Req := { setHost P { r with scheme := s } h with port := p }
      have e : applyEdit P r (.url u) = { update P r1 with path := path } := by
        simp only [applyEdit]; unfold setUrl; rw [hp]; rfl
      rw [e] at hd ⊢
      have hd1 : DestOk P valid r1 := hd
      obtain ⟨c, pr, au⟩ := update_consistent P valid r1 hd1
      refine ⟨c, ?_, ?_⟩
      · show (update P r1).hostHeader.isSome = r.hostHeader.isSome
        rw [pr]
        show (update P { r with scheme := s, host := h }).hostHeader.isSome = r.hostHeader.isSome
        unfold update; cases r.hostHeader <;> rfl
      · show (update P r1).authority = [] ↔ r.authority = []
        rw [au]
        show (update P { r with scheme := s, host := h }).authority = [] ↔ r.authority = []
        unfold update
        simp only
        by_cases he : r.authority = []
        · simp [he]
        · simp only [he, if_false, iff_false]
          apply hne
          exact hostport_ne _ _ _ hd1.1.1

/-! ### url getter / setter -/

private theorem update_idem (P : UrlLib) (r : Req) : update P (update P r) = update P r := by
  unfold update
  cases hh : r.hostHeader <;> by_cases ha : r.authority = [] <;> simp [hh, ha]
  all_goals
    by_cases hn : P.normAuth (hostport r.scheme r.host r.port) = [] <;> simp [hn]

/-- the full statement: assigning the URL read back changes nothing, whenever urlsplit reads the three parts of the canonical URL back -/
def UrlReassignIdempotent : Prop :=
  ∀ (P : UrlLib) (r : Req) (u : Str) (r' : Req), setUrl P r u = some r' →
    P.split (url r') = some (r'.scheme, hostport r'.scheme r'.host r'.port, r'.path) →
    setUrl P r' (url r') = some r'

private theorem update_path_fix (P : UrlLib) (r0 : Req) (π : Str) :
    update P { update P r0 with path := π } = { update P r0 with path := π } := by
  unfold update
  cases hh : r0.hostHeader <;> by_cases ha : r0.authority = [] <;> simp [ha]
  all_goals
    by_cases hn : P.normAuth (hostport r0.scheme r0.host r0.port) = [] <;> simp [hn]

private theorem reassign_fix (P : UrlLib) (r' : Req) (hfix : update P r' = r') :
    ({ setPort P (setHost P { r' with scheme := r'.scheme } r'.host) r'.port with path := r'.path } : Req) = r' := by
  have e1 : setHost P { r' with scheme := r'.scheme } r'.host = r' := by
    show update P r' = r'
    exact hfix
  rw [e1]
  have e2 : setPort P r' r'.port = r' := by
    show update P r' = r'
    exact hfix
  rw [e2]

/-- **C33 (url, partial).** If `url.parse` reads the URL that the getter returns back into the request's own fields — which it does
    for ASCII hosts — then assigning `request.url` again leaves the request exactly as it is (Host header and authority included). -/
theorem url_get_set_idempotent_partial (P : UrlLib) (r : Req) (u : Str) (r' : Req) (h1 : setUrl P r u = some r')
    (hcanon : urlParse P (url r') = some (r'.scheme, r'.host, r'.port, r'.path)) :
    setUrl P r' (url r') = some r' := by
  have hfix : update P r' = r' := by
    unfold setUrl at h1
    cases hp : urlParse P u with
    | none => rw [hp] at h1; cases h1
    | some q =>
      obtain ⟨s, h, p, path⟩ := q
      rw [hp] at h1
      simp only [Option.some.injEq, setPort] at h1
      rw [← h1]
      exact update_path_fix P _ path
  unfold setUrl
  rw [hcanon]
  simp only [Option.some.injEq]
  exact reassign_fix P r' hfix

/-! ### F-C33b: IDN hosts -/
private def uA : Str := S "http://xn--bcher-kva.example/p"
private def hA : Str := S "xn--bcher-kva.example"
private def hU : Str := S "b" ++ [0xfc] ++ S "cher.example"
private def uU : Str := S "http://" ++ hU ++ S "/p"

/-- urlsplit on the two URLs involved, IDNA decoding of the A-label, everything valid, authority untouched -/
private def idnLib : UrlLib where
  split u := if u = uA then some (S "http", hA, S "/p") else if u = uU then some (S "http", hU, S "/p") else none
  idnaRt h := if h = hA then some hU else some h
  validHost _ := true
  normAuth x := x

private def req0 : Req :=
  { h2 := false, method := S "GET", scheme := S "http", host := S "start.example", port := 81, path := S "/orig",
    hostHeader := some (S "old:1"), authority := [] }

/-- F-C33b: `http://xn--bcher-kva.example/p` is accepted and reads back as `http://bücher.example/p`, which is rejected -/
theorem url_get_set_idempotent_counterexample : ¬ UrlReassignIdempotent := by
  intro h
  have := h idnLib req0 uA ((setUrl idnLib req0 uA).getD req0) (by decide +kernel) (by decide +kernel)
  revert this
  decide +kernel

/-! ### non-vacuity -/
example : HostShape (S "::1") ∧ HostShape (S "example.com") := by
  refine ⟨⟨by decide, by decide, by decide, by decide⟩, ⟨by decide, by decide, by decide, by decide⟩⟩

example : hostport (S "http") (S "::1") 8080 = S "[::1]:8080" ∧ hostport (S "https") (S "::1") 443 = S "[::1]" ∧
    hostport (S "http") (S "example.com") 80 = S "example.com" := by decide +kernel

example : parseAuthority (fun _ => true) (S "[::1]:8080") = some (S "::1", some 8080) ∧
    parseAuthority (fun _ => true) (S "::1:8080") = none ∧
    parseAuthority (fun _ => true) (S "example.com:65536") = none ∧
    parseAuthority (fun _ => true) (S "[a]:1]:2") = some (S "a]:1", some 2) := by decide +kernel

/-- the hypothesis of the partial theorem is satisfiable: an ASCII URL is read back -/
private def asciiLib : UrlLib where
  split u := if u = S "http://[::1]:8080/a" then some (S "http", S "[::1]:8080", S "/a") else none
  idnaRt h := some h
  validHost _ := true
  normAuth x := x

example : setUrl asciiLib ((setUrl asciiLib req0 (S "http://[::1]:8080/a")).getD req0)
      (url ((setUrl asciiLib req0 (S "http://[::1]:8080/a")).getD req0)) =
    some ((setUrl asciiLib req0 (S "http://[::1]:8080/a")).getD req0) := by decide +kernel

end MitmVerif.Props.C33
