/-
  C34 — property theorems (model: Model/C34.lean).
  Cookie header (proved for ALL pair lists / ALL header strings):
  * `cookie_roundtrip`               : Representable ps → parseCookie (formatCookie ps) = ps
  * `parse_yields_representable`     : every pair `parse_cookie_header` returns is representable
  * `request_cookies_view_roundtrip` : assigning representable pairs to `request.cookies` and reading the view back gives the same pairs
  * `view_writeback_idempotent`      : for ANY Cookie header values, writing the view's current value back and reading again
                                       gives the same pairs
  Form view: `form_view_roundtrip` (content type reset to the bare form type, any charset dropped; urllib and the text codec as parameters).
  Set-Cookie: `set_cookie_header_roundtrip`, `set_cookie_roundtrip`.
  Path components / query on the raw request target: `path_components_roundtrip`, `query_view_roundtrip_target`.
  Query view: `query_view_roundtrip` (urllib's urlencode / parse_qsl as parameters with the law parse_qsl (urlencode ps) = ps).
  Multipart: the full statement `MultipartRoundtrips` is false for the code — `multipart_roundtrip_counterexample` (F-C34a);
  `multipart_roundtrip_partial` proves the round trip under the guards (induction over the part list); `noEarly_piece` derives its
  delimiter guard and `multipart_roundtrip` states every guard on the input (key/value/content type do not contain `--boundary`).
-/
import MitmVerif.Model.C34
import MitmVerif.Lemmas.C34Path
namespace MitmVerif.Props.C34
open MitmVerif MitmVerif.C34

/-! ### reading primitives -/
private theorem readUntil_all (term : Nat → Bool) (a : Str) (h : ∀ x ∈ a, term x = false) : readUntil term a = (a, []) := by
  induction a with
  | nil => rfl
  | cons x a ih =>
    have hx := h x (by simp)
    have := ih (fun y hy => h y (List.mem_cons_of_mem _ hy))
    simp [readUntil, hx, this]

private theorem readUntil_stop (term : Nat → Bool) (a : Str) (c : Nat) (r : Str) (h : ∀ x ∈ a, term x = false)
    (hc : term c = true) : readUntil term (a ++ c :: r) = (a, c :: r) := by
  induction a with
  | nil => simp [readUntil, hc]
  | cons x a ih =>
    have hx := h x (by simp)
    have := ih (fun y hy => h y (List.mem_cons_of_mem _ hy))
    simp [readUntil, hx, this]

private theorem readUntil_fst (term : Nat → Bool) (s : Str) : ∀ x ∈ (readUntil term s).1, term x = false := by
  induction s with
  | nil => simp [readUntil]
  | cons c r ih =>
    unfold readUntil
    by_cases hc : term c = true
    · simp [hc]
    · simp only [hc, Bool.false_eq_true, if_false, List.mem_cons]
      intro x hx
      rcases hx with rfl | hx
      · simpa using hc
      · exact ih x hx

private theorem readQuoted_escape (v r : Str) : readQuoted false (escape v ++ 34 :: r) = (v, r) := by
  induction v with
  | nil => simp [escape, readQuoted]
  | cons c v ih =>
    have hcons : escape (c :: v) = (if c = 34 ∨ c = 92 then [92, c] else [c]) ++ escape v := by simp [escape]
    rw [hcons]
    by_cases h1 : c = 34
    · subst h1
      simp only [true_or, if_true, List.cons_append, List.nil_append]
      have : escape v ++ 34 :: r = escape v ++ 34 :: r := rfl
      simp [readQuoted, ih]
    · by_cases h2 : c = 92
      · subst h2
        simp only [or_true, if_true, List.cons_append, List.nil_append]
        simp [readQuoted, ih]
      · simp only [h1, h2, or_self, if_false, List.cons_append, List.nil_append]
        simp [readQuoted, h1, h2, ih]

/-! ### representable pairs -/

/-- what a Cookie header can carry: the name has no `;` or `=`, no leading whitespace, and name and value are not both empty -/
def RepPair (e : Str × Str) : Prop := (∀ x ∈ e.1, isSemiEq x = false) ∧ lstrip e.1 = e.1 ∧ (e.2 ≠ [] ∨ e.1 ≠ [])

def Representable (ps : List (Str × Str)) : Prop := ∀ e ∈ ps, RepPair e

private def fmt (e : Str × Str) : Str := fmtPair [] e.1 (some e.2)

private theorem isSpace_32 : isSpace 32 = true := by decide

private theorem notSpecial (v : Str) (h : hasSpecial v = false) : ∀ x ∈ v, x ≠ 34 ∧ isSemi x = false := by
  intro x hx
  unfold hasSpecial at h
  have hx' := (List.any_eq_false.mp h) x hx
  have hs : specialC x = false := by simpa using hx'
  unfold specialC at hs
  simp only [Bool.or_eq_false_iff, decide_eq_false_iff_not] at hs
  obtain ⟨⟨⟨⟨⟨h34, _⟩, h59⟩, _⟩, _⟩, _⟩ := hs
  exact ⟨h34, by simp [isSemi, h59]⟩

/-- one round of the reader on `pre ++ fmt e ++ tail`, where `pre` is empty or the blank after `;` and `tail` is empty or
    starts with `;` -/
private theorem step_fmt (pre : Str) (e : Str × Str) (tail : Str) (hp : pre = [] ∨ pre = [32]) (he : RepPair e)
    (ht : tail = [] ∨ ∃ t, tail = 59 :: t) :
    cookieStep (pre ++ fmt e ++ tail) = (some e, tail.drop 1) := by
  obtain ⟨k, v⟩ := e
  obtain ⟨hk, hl, hne⟩ := he
  simp only at hk hl hne
  -- the key part
  have hA : ∀ x ∈ pre ++ k, isSemiEq x = false := by
    intro x hx
    rw [List.mem_append] at hx
    rcases hx with hx | hx
    · rcases hp with rfl | rfl
      · cases hx
      · simp at hx; subst hx; decide
    · exact hk x hx
  have hstrip : lstrip (pre ++ k) = k := by
    rcases hp with rfl | rfl
    · simpa using hl
    · show lstrip (32 :: k) = k
      unfold lstrip at hl ⊢
      rw [List.dropWhile_cons_of_pos isSpace_32]; exact hl
  -- the value part: whatever the spelling, the reader returns (v, tail)
  have hval : ∃ X, fmt (k, v) = k ++ 61 :: X ∧ readValue isSemi (X ++ tail) = (v, tail) := by
    unfold fmt fmtPair
    simp only [List.contains_nil, Bool.not_false, Bool.true_and]
    by_cases hs : hasSpecial v = true
    · refine ⟨34 :: (escape v ++ [34]), by simp [hs], ?_⟩
      have : (34 :: (escape v ++ [34])) ++ tail = 34 :: (escape v ++ 34 :: tail) := by simp
      rw [this]
      simp [readValue, readQuoted_escape]
    · have hs' : hasSpecial v = false := by simpa using hs
      refine ⟨v, by simp [hs'], ?_⟩
      have hv := notSpecial v hs'
      cases v with
      | nil =>
        rcases ht with rfl | ⟨t, rfl⟩
        · simp [readValue]
        · simp [readValue, readUntil, isSemi]
      | cons c v' =>
        have hc := (hv c (by simp)).1
        have hall : ∀ x ∈ c :: v', isSemi x = false := fun x hx => (hv x hx).2
        simp only [List.cons_append, readValue, hc, if_false]
        rcases ht with rfl | ⟨t, rfl⟩
        · simpa using readUntil_all isSemi (c :: v') hall
        · exact readUntil_stop isSemi (c :: v') 59 t hall (by decide)
  obtain ⟨X, hX, hread⟩ := hval
  have hform : pre ++ fmt (k, v) ++ tail = (pre ++ k) ++ 61 :: (X ++ tail) := by rw [hX]; simp
  unfold cookieStep
  rw [hform, readUntil_stop isSemiEq (pre ++ k) 61 (X ++ tail) hA (by decide)]
  simp only [hstrip, hread]
  simp [hne]

private theorem joinSep_cons (x : Str) (r : List Str) (h : r ≠ []) : joinSep (x :: r) = x ++ 59 :: 32 :: joinSep r := by
  cases r with
  | nil => exact absurd rfl h
  | cons y r => rfl

private theorem parseF_format (ps : List (Str × Str)) : ps ≠ [] → Representable ps →
    ∀ (pre : Str), (pre = [] ∨ pre = [32]) → ∀ f, (pre ++ formatCookie ps).length < f → parseF f (pre ++ formatCookie ps) = ps := by
  induction ps with
  | nil => intro h; exact absurd rfl h
  | cons e es ih =>
    intro _ hrep pre hp f hf
    cases f with
    | zero => omega
    | succ f =>
      have he : RepPair e := hrep e (by simp)
      by_cases hes : es = []
      · subst hes
        have hform : pre ++ formatCookie [e] = pre ++ fmt e ++ [] := by simp [formatCookie, joinSep, fmt]
        rw [hform]
        unfold parseF
        rw [step_fmt pre e [] hp he (Or.inl rfl)]
        simp
      · have hform : pre ++ formatCookie (e :: es) = pre ++ fmt e ++ (59 :: 32 :: formatCookie es) := by
          unfold formatCookie
          rw [List.map_cons, joinSep_cons _ _ (by simpa using hes)]
          simp [fmt]
        rw [hform] at hf ⊢
        unfold parseF
        rw [step_fmt pre e _ hp he (Or.inr ⟨_, rfl⟩)]
        simp only [List.drop_succ_cons, List.drop_zero]
        have hne : (32 :: formatCookie es) ≠ [] := by simp
        simp only [hne, if_false]
        have := ih hes (fun x hx => hrep x (List.mem_cons_of_mem _ hx)) [32] (Or.inr rfl) f (by
          simp only [List.length_append, List.length_cons, List.length_nil] at hf ⊢
          omega)
        simp only [List.cons_append, List.nil_append] at this
        rw [this]

/-- **C34 (cookies).** Every representable pair list survives formatting and parsing, in order. -/
theorem cookie_roundtrip (ps : List (Str × Str)) (h : Representable ps) : parseCookie (formatCookie ps) = ps := by
  by_cases hps : ps = []
  · subst hps; decide
  · have := parseF_format ps hps h [] (Or.inl rfl) ((formatCookie ps).length + 1) (by simp)
    simpa [parseCookie] using this

/-! ### the parser only produces representable pairs -/
private theorem dropWhile_idem (p : Nat → Bool) (s : Str) : (s.dropWhile p).dropWhile p = s.dropWhile p := by
  induction s with
  | nil => simp
  | cons y r ih =>
    by_cases h : p y = true
    · rw [List.dropWhile_cons_of_pos h]; exact ih
    · rw [List.dropWhile_cons_of_neg h, List.dropWhile_cons_of_neg h]

private theorem dropWhile_sub (p : Nat → Bool) (s : Str) : ∀ x ∈ s.dropWhile p, x ∈ s := by
  induction s with
  | nil => simp
  | cons y r ih =>
    intro x hx
    by_cases h : p y = true
    · rw [List.dropWhile_cons_of_pos h] at hx
      exact List.mem_cons_of_mem _ (ih x hx)
    · rw [List.dropWhile_cons_of_neg h] at hx
      exact hx

private theorem ite_some {α : Type} {c : Prop} [Decidable c] {a e : α} (h : (if c then some a else none) = some e) :
    c ∧ a = e := by
  by_cases hc : c
  · rw [if_pos hc] at h; exact ⟨hc, Option.some.inj h⟩
  · rw [if_neg hc] at h; cases h

private theorem step_rep (s : Str) : ∀ e, (cookieStep s).1 = some e → RepPair e := by
  intro e he
  unfold cookieStep at he
  simp only at he
  obtain ⟨hcond, rfl⟩ := ite_some he
  refine ⟨?_, dropWhile_idem _ _, hcond⟩
  intro x hx
  exact readUntil_fst isSemiEq s x (dropWhile_sub _ _ x hx)

theorem parse_yields_representable (s : Str) : Representable (parseCookie s) := by
  unfold parseCookie
  generalize s.length + 1 = f
  induction f generalizing s with
  | zero => intro e he; simp [parseF] at he
  | succ f ih =>
    intro e he
    unfold parseF at he
    simp only at he
    have htail : ∀ x ∈ (if (cookieStep s).2 = [] then [] else parseF f (cookieStep s).2), RepPair x := by
      intro x hx
      split at hx
      · cases hx
      · exact ih _ x hx
    cases hst : (cookieStep s).1 with
    | none => rw [hst] at he; exact htail e he
    | some p =>
      rw [hst] at he
      rcases List.mem_cons.mp he with rfl | he
      · exact step_rep s _ hst
      · exact htail e he

/-! ### the request.cookies view -/

/-- **C34 (cookies view).** Assigning representable pairs and reading the view back yields the same pairs in the same order. -/
theorem request_cookies_view_roundtrip (ps : List (Str × Str)) (h : Representable ps) : getCookies (setCookies ps) = ps := by
  simp [getCookies, setCookies, cookie_roundtrip ps h]

/-- **C34 (write-back).** For any Cookie header values whatsoever, writing the view's current value back leaves the view unchanged. -/
theorem view_writeback_idempotent (hdrs : List Str) : getCookies (setCookies (getCookies hdrs)) = getCookies hdrs := by
  apply request_cookies_view_roundtrip
  intro e he
  unfold getCookies at he
  rw [List.mem_flatMap] at he
  obtain ⟨h, _, hm⟩ := he
  exact parse_yields_representable h e hm

/-! ### query view (urllib as a parameter) -/
theorem query_view_roundtrip (U : UrlCodec) (hlaw : ∀ ps, U.parseQsl (U.urlencode ps) = ps) (t : Target) (ps : List (Str × Str)) :
    getQuery U (setQuery U t ps) = ps ∧ (setQuery U t ps).path = t.path ∧ (setQuery U t ps).params = t.params ∧
      (setQuery U t ps).fragment = t.fragment ∧ setQuery U (setQuery U t ps) (getQuery U (setQuery U t ps)) = setQuery U t ps := by
  refine ⟨hlaw ps, rfl, rfl, rfl, ?_⟩
  simp [getQuery, setQuery, hlaw]

/-! ### urlencoded form view (urllib and the text codec as parameters) -/

/-- **C34 (form view).** Laws: `parse_qsl (urlencode ps) = ps`; the bare form content type decodes the ASCII bytes of an urlencoded
    text back to that text; urlencode never writes a parameter without `=`.  Guard: the existing body, as the setter reads it, has no
    parameter without `=` (otherwise the pair ('','') is erased: F-C34e).  Then, whatever Content-Type the request carried before
    (any charset parameter included): the view reads back the assigned pairs, the header is the bare form type, and writing the
    view's current value back leaves the message as it is. -/
theorem form_view_roundtrip (L : FormLib) (m : FormMsg) (ps : List (Str × Str))
    (hlaw : ∀ qs, L.U.parseQsl (L.U.urlencode qs) = qs)
    (hdec : ∀ qs, L.getText (some formCT) (L.encodeAscii (L.U.urlencode qs)) = L.U.urlencode qs)
    (hnobare : ∀ qs, bareStyle (L.U.urlencode qs) = false)
    (hguard : bareStyle (L.getText (some formCT) m.body) = false) :
    getForm L (setForm L m ps) = ps ∧ (setForm L m ps).ct = some formCT ∧
      setForm L (setForm L m ps) (getForm L (setForm L m ps)) = setForm L m ps := by
  have hct : hasSub formCT (lower ((some formCT : Option Str).getD [])) = true := by decide +kernel
  have henc : ∀ sim, bareStyle sim = false → encodeForm L.U ps sim = L.U.urlencode ps := by
    intro sim h; simp [encodeForm, h]
  have hset : setForm L m ps = { ct := some formCT, body := L.encodeAscii (L.U.urlencode ps) } := by
    simp [setForm, henc _ hguard]
  have hget : getForm L (setForm L m ps) = ps := by
    rw [hset]; simp only [getForm, hct, if_true]; rw [hdec, hlaw]
  refine ⟨hget, by rw [hset], ?_⟩
  rw [hget, hset]
  simp [setForm, encodeForm, hdec, hnobare]

/-- the style imitation is not vacuous: with a bare parameter in the existing body the pair ('','') is erased (F-C34e) -/
example : dropTrailingEq (replEqAmp (S "a=1&=&b=&=")) = S "a=1&&b&" ∧ bareStyle (S "a&b=2") = true ∧ bareStyle (S "a=1&b=2") = false ∧
    bareStyle [] = false := by decide +kernel

/-! ### the path_components and query views on the raw request target (urlparse's reading transcribed, tied by `tparts`/`tset`) -/

/-- what is assumed of `urllib.parse.quote(c, safe="")` / `unquote`: unquote inverts quote, a quoted component contains none of
    `/ ; ? #`, and only the empty component quotes to the empty string -/
structure QuoteLaw (U : UrlCodec) : Prop where
  inv : ∀ c, U.unquote (U.quote c) = c
  clean : ∀ c x, x ∈ U.quote c → x ≠ 47 ∧ x ≠ 59 ∧ x ≠ 63 ∧ x ≠ 35
  nonempty : ∀ c, c ≠ [] → U.quote c ≠ []

/-- **C34 (path components).** For ANY request target `p` (leading `//`, `;params`, several `?`, `#`, `*`, empty …), any scheme and
    any list of non-empty components: after assigning them, the view reads back exactly these components in order, and the target's
    `;params`, query and fragment are the ones it had. -/
theorem path_components_roundtrip (U : UrlCodec) (law : QuoteLaw U) (scheme p : Str) (cs : List Str) (hcs : ∀ c ∈ cs, c ≠ []) :
    getPathComponents U scheme (setPathComponents U scheme p cs) = cs ∧
    targetParts scheme (setPathComponents U scheme p cs) =
      { targetParts scheme p with path := 47 :: joinSlash (cs.map U.quote) } := by
  have wf := targetParts_wf scheme p
  -- the new path contains none of the delimiters
  have hnp : ∀ x ∈ (47 :: joinSlash (cs.map U.quote)), x ≠ 59 ∧ x ≠ 63 ∧ x ≠ 35 := by
    intro x hx
    rcases List.mem_cons.mp hx with rfl | hx
    · decide
    · by_cases h47 : x = 47
      · subst h47; decide
      · obtain ⟨q, hq, hxq⟩ := joinSlash_mem _ x h47 hx
        obtain ⟨c, _, rfl⟩ := List.mem_map.mp hq
        exact (law.clean c x hxq).2
  let t' : Target := { targetParts scheme p with path := 47 :: joinSlash (cs.map U.quote) }
  have wf' : TargetWF scheme t' :=
    { path35 := fun m => (hnp 35 m).2.2 rfl, path63 := fun m => (hnp 63 m).2.1 rfl, params35 := wf.params35, params63 := wf.params63,
      params47 := wf.params47, query35 := wf.query35, noParams := wf.noParams }
  have hstar : unparseTarget t' ≠ [42] := by
    unfold unparseTarget; simp [t']
  have hparts : targetParts scheme (setPathComponents U scheme p cs) = t' :=
    targetParts_unparse scheme t' wf' (fun m => (hnp 59 m).1 rfl) hstar
  refine ⟨?_, hparts⟩
  unfold getPathComponents
  rw [hparts]
  unfold getComponents
  show (List.filter (fun x => decide (x ≠ [])) (splitSlash (47 :: joinSlash (cs.map U.quote)))).map U.unquote = cs
  have hsp : splitSlash (47 :: joinSlash (cs.map U.quote)) = [] :: splitSlash (joinSlash (cs.map U.quote)) := by simp [splitSlash]
  rw [hsp]
  by_cases hemp : cs = []
  · subst hemp; simp [joinSlash, splitSlash]
  · have hq47 : ∀ q ∈ cs.map U.quote, 47 ∉ q := by
      intro q hq m
      obtain ⟨c, _, rfl⟩ := List.mem_map.mp hq
      exact (law.clean c 47 m).1 rfl
    rw [splitSlash_join _ (by simpa using hemp) hq47]
    have hall : ∀ q ∈ cs.map U.quote, q ≠ [] := by
      intro q hq
      obtain ⟨c, hc, rfl⟩ := List.mem_map.mp hq
      exact law.nonempty c (hcs c hc)
    have hf : List.filter (fun x => decide (x ≠ [])) ([] :: cs.map U.quote) = cs.map U.quote := by
      rw [List.filter_cons_of_neg (by simp), List.filter_eq_self]
      intro q hq; simpa using hall q hq
    rw [hf, List.map_map]
    have : (U.unquote ∘ U.quote) = id := funext law.inv
    simp [this]

/-- **C34 (query view on the target).** With urllib's law `parse_qsl (urlencode ps) = ps` and urlencode writing no `#`: after assigning
    pairs to the query of any request target whose path is not the bare `*`, the view reads them back, and path, `;params` and fragment
    are untouched; writing the view's value back gives the same target. -/
theorem query_view_roundtrip_target (U : UrlCodec) (hlaw : ∀ ps, U.parseQsl (U.urlencode ps) = ps) (hno : ∀ ps, 35 ∉ U.urlencode ps)
    (scheme p : Str) (ps : List (Str × Str))
    (hpath : 59 ∉ (targetParts scheme p).path) (hstar : unparseTarget (setQuery U (targetParts scheme p) ps) ≠ [42]) :
    getQueryOf U scheme (setQueryOf U scheme p ps) = ps ∧
    targetParts scheme (setQueryOf U scheme p ps) = { targetParts scheme p with query := U.urlencode ps } ∧
    setQueryOf U scheme (setQueryOf U scheme p ps) (getQueryOf U scheme (setQueryOf U scheme p ps)) = setQueryOf U scheme p ps := by
  have wf := targetParts_wf scheme p
  let t' : Target := { targetParts scheme p with query := U.urlencode ps }
  have wf' : TargetWF scheme t' :=
    { path35 := wf.path35, path63 := wf.path63, params35 := wf.params35, params63 := wf.params63, params47 := wf.params47,
      query35 := hno ps, noParams := wf.noParams }
  have hparts : targetParts scheme (setQueryOf U scheme p ps) = t' := targetParts_unparse scheme t' wf' hpath hstar
  have hget : getQueryOf U scheme (setQueryOf U scheme p ps) = ps := by
    unfold getQueryOf; rw [hparts]; exact hlaw ps
  refine ⟨hget, hparts, ?_⟩
  rw [hget]
  show unparseTarget (setQuery U (targetParts scheme (setQueryOf U scheme p ps)) ps) = _
  rw [hparts]
  rfl

-- the reading of the target is not constant and handles the URL-significant shapes
example : targetParts (S "http") (S "//a/b;k?v=1?w#f#g") =
      { path := S "//a/b", params := S "k", query := S "v=1?w", fragment := S "f#g" } ∧
    (targetParts (S "http") (S "*")).path = [] ∧
    setPathComponents { urlencode := fun _ => [], parseQsl := fun _ => [], quote := id, unquote := id } (S "http") (S "//a/b;k?v=1#f")
      [S "x", S "y"] = S "/x/y;k?v=1#f" := by decide +kernel

/-! ### multipart: the full statement is false -/

/-- the full statement for multipart forms (keys non-empty; the guessed content types are arbitrary) -/
def MultipartRoundtrips : Prop :=
  ∀ (b : Bytes) (parts : List (Bytes × Bytes × Bytes)) (body : Bytes), (∀ p ∈ parts, p.1 ≠ []) →
    encodeMultipart b parts = some body → decodeMultipart b body = some (parts.map (fun p => (p.1, p.2.1)))

/-- F-C34a: the value `l1 CRLF l2` under key `k` reads back as `l1l2` -/
theorem multipart_roundtrip_counterexample : ¬ MultipartRoundtrips := by
  intro h
  have := h (B "XX") [(B "k", B "l1\r\nl2", B "text/plain; charset=utf-8")]
    ((encodeMultipart (B "XX") [(B "k", B "l1\r\nl2", B "text/plain; charset=utf-8")]).getD []) (by decide +kernel) (by decide +kernel)
  revert this
  decide +kernel

/-! ### Set-Cookie: one header per cookie -/

private def scSpecials : List Str := [S "expires", S "path"]

/-- what a Set-Cookie header can carry for one name / attribute: the key has no `;` `=` `,` and no leading whitespace; a key without
    value is non-empty; a value that the formatter leaves unquoted (because the key is `expires`/`path`) has no `;` `,` and does not
    start with a quote.  (Since e0e81be4a/8cc872297 the reader's read-on heuristic for `expires` only fires at a comma, so no
    length condition is needed any more.) -/
def RepSc (e : Str × Option Str) : Prop :=
  (∀ x ∈ e.1, isSemiEqComma x = false) ∧ lstrip e.1 = e.1 ∧
  match e.2 with
  | none => e.1 ≠ []
  | some v => scSpecials.contains (lower e.1) = true →
      ((∀ x ∈ v, isSemiComma x = false) ∧ v.head? ≠ some 34)

private def fmtSc (e : Str × Option Str) : Str := fmtPair scSpecials e.1 e.2

private theorem notSpecial' (v : Str) (h : hasSpecial v = false) : ∀ x ∈ v, x ≠ 34 ∧ isSemiComma x = false := by
  intro x hx
  unfold hasSpecial at h
  have hx' := (List.any_eq_false.mp h) x hx
  have hs : specialC x = false := by simpa using hx'
  unfold specialC at hs
  simp only [Bool.or_eq_false_iff, decide_eq_false_iff_not] at hs
  obtain ⟨⟨⟨⟨⟨h34, h44⟩, h59⟩, _⟩, _⟩, _⟩ := hs
  exact ⟨h34, by simp [isSemiComma, h59, h44]⟩

private theorem sc_step_fmt (st : ScState) (pre : Str) (e : Str × Option Str) (tail : Str) (hp : pre = [] ∨ pre = [32])
    (he : RepSc e) (ht : tail = [] ∨ ∃ t, tail = 59 :: t) :
    scStep st (pre ++ fmtSc e ++ tail) = ({ cookies := st.cookies, pairs := st.pairs ++ [e] }, tail.drop 1) := by
  obtain ⟨k, ov⟩ := e
  obtain ⟨hk, hl, hv⟩ := he
  simp only at hk hl hv
  have hA : ∀ x ∈ pre ++ k, isSemiEqComma x = false := by
    intro x hx
    rw [List.mem_append] at hx
    rcases hx with hx | hx
    · rcases hp with rfl | rfl
      · cases hx
      · simp at hx; subst hx; decide
    · exact hk x hx
  have hstrip : lstrip (pre ++ k) = k := by
    rcases hp with rfl | rfl
    · simpa using hl
    · show lstrip (32 :: k) = k
      unfold lstrip at hl ⊢
      rw [List.dropWhile_cons_of_pos isSpace_32]; exact hl
  have htail44 : ∀ (P : ScState) (Q : ScState), (match tail with | 44 :: _ => P | _ => Q) = Q := by
    intro P Q
    rcases ht with rfl | ⟨t, rfl⟩ <;> rfl
  cases ov with
  | none =>
    have hne : k ≠ [] := hv
    have hform : pre ++ fmtSc (k, none) ++ tail = (pre ++ k) ++ tail := by simp [fmtSc, fmtPair]
    have hread : readUntil isSemiEqComma ((pre ++ k) ++ tail) = (pre ++ k, tail) := by
      rcases ht with rfl | ⟨t, rfl⟩
      · simpa using readUntil_all isSemiEqComma (pre ++ k) hA
      · exact readUntil_stop isSemiEqComma (pre ++ k) 59 t hA (by decide)
    unfold scStep
    rw [hform, hread]
    simp only [hstrip]
    rcases ht with rfl | ⟨t, rfl⟩ <;> simp [hne]
  | some v =>
    have hv' : scSpecials.contains (lower k) = true →
        ((∀ x ∈ v, isSemiComma x = false) ∧ v.head? ≠ some 34) := hv
    have hfmt : fmtSc (k, some v) =
        if (!(scSpecials.contains (lower k)) && hasSpecial v) = true then k ++ 61 :: 34 :: (escape v ++ [34]) else k ++ 61 :: v := rfl
    have hunq : (∀ x ∈ v, isSemiComma x = false) → v.head? ≠ some 34 → readValue isSemiComma (v ++ tail) = (v, tail) := by
      intro hall hhead
      cases v with
      | nil =>
        rcases ht with rfl | ⟨t, rfl⟩
        · simp [readValue]
        · simp [readValue, readUntil, isSemiComma]
      | cons c v' =>
        have hc : c ≠ 34 := by simpa using hhead
        simp only [List.cons_append, readValue, hc, if_false]
        rcases ht with rfl | ⟨t, rfl⟩
        · simpa using readUntil_all isSemiComma (c :: v') hall
        · exact readUntil_stop isSemiComma (c :: v') 59 t hall (by decide)
    have hval : ∃ X, fmtSc (k, some v) = k ++ 61 :: X ∧ readValue isSemiComma (X ++ tail) = (v, tail) := by
      rw [hfmt]
      cases hsp : scSpecials.contains (lower k) <;> cases hhs : hasSpecial v
      · -- ordinary key, harmless value: unquoted
        have hh := notSpecial' v hhs
        refine ⟨v, by simp, hunq (fun x hx => (hh x hx).2) ?_⟩
        cases v with
        | nil => simp
        | cons c v' => simp only [List.head?_cons, ne_eq, Option.some.injEq]; exact (hh c (by simp)).1
      · -- ordinary key, special value: quoted
        refine ⟨34 :: (escape v ++ [34]), by simp, ?_⟩
        have : (34 :: (escape v ++ [34])) ++ tail = 34 :: (escape v ++ 34 :: tail) := by simp
        rw [this]
        simp [readValue, readQuoted_escape]
      · obtain ⟨hall, hhead⟩ := hv' hsp
        exact ⟨v, by simp, hunq hall hhead⟩
      · obtain ⟨hall, hhead⟩ := hv' hsp
        exact ⟨v, by simp, hunq hall hhead⟩
    obtain ⟨X, hX, hread⟩ := hval
    -- the value ends at `;` or at the end of the header, never at a comma: the expires read-on does not fire
    have hnocomma : ¬ (lower k = S "expires" ∧ tail.head? = some 44 ∧ isAlphaStr (strip v) = true) := by
      intro ⟨_, h44, _⟩
      rcases ht with rfl | ⟨t, rfl⟩ <;> simp at h44
    have hform : pre ++ fmtSc (k, some v) ++ tail = (pre ++ k) ++ 61 :: (X ++ tail) := by rw [hX]; simp
    unfold scStep
    rw [hform, readUntil_stop isSemiEqComma (pre ++ k) 61 (X ++ tail) hA (by decide)]
    simp only [hstrip, hread, hnocomma, if_false]
    rcases ht with rfl | ⟨t, rfl⟩ <;> simp

private theorem scLoop_format (ps : List (Str × Option Str)) : ps ≠ [] → (∀ e ∈ ps, RepSc e) →
    ∀ (st : ScState) (pre : Str), (pre = [] ∨ pre = [32]) → ∀ f, (pre ++ formatSetCookie ps).length < f →
      scLoop f st (pre ++ formatSetCookie ps) = { cookies := st.cookies, pairs := st.pairs ++ ps } := by
  induction ps with
  | nil => intro h; exact absurd rfl h
  | cons e es ih =>
    intro _ hrep st pre hp f hf
    cases f with
    | zero => omega
    | succ f =>
      have he : RepSc e := hrep e (by simp)
      by_cases hes : es = []
      · subst hes
        have hform : pre ++ formatSetCookie [e] = pre ++ fmtSc e ++ [] := by simp [formatSetCookie, joinSep, fmtSc, scSpecials]
        rw [hform]
        unfold scLoop
        rw [sc_step_fmt st pre e [] hp he (Or.inl rfl)]
        simp
      · have hform : pre ++ formatSetCookie (e :: es) = pre ++ fmtSc e ++ (59 :: 32 :: formatSetCookie es) := by
          unfold formatSetCookie
          rw [List.map_cons, joinSep_cons _ _ (by simpa using hes)]
          simp [fmtSc, scSpecials]
        rw [hform] at hf ⊢
        unfold scLoop
        rw [sc_step_fmt st pre e _ hp he (Or.inr ⟨_, rfl⟩)]
        simp only [List.drop_succ_cons, List.drop_zero]
        have hne : (32 :: formatSetCookie es) ≠ [] := by simp
        simp only [hne, if_false]
        have := ih hes (fun x hx => hrep x (List.mem_cons_of_mem _ hx))
          { cookies := st.cookies, pairs := st.pairs ++ [e] } [32] (Or.inr rfl) f (by
            simp only [List.length_append, List.length_cons, List.length_nil] at hf ⊢
            omega)
        simp only [List.cons_append, List.nil_append] at this
        rw [this]
        simp

/-- **C34 (Set-Cookie, one header).** A non-empty representable list (cookie name/value followed by its attributes) is read back
    as exactly one cookie with the same pairs in the same order. -/
theorem set_cookie_header_roundtrip (ps : List (Str × Option Str)) (hne : ps ≠ []) (h : ∀ e ∈ ps, RepSc e) :
    parseSetCookie (formatSetCookie ps) = [ps] := by
  unfold parseSetCookie
  have := scLoop_format ps hne h { cookies := [], pairs := [] } [] (Or.inl rfl) ((formatSetCookie ps).length + 1) (by simp)
  simp only [List.nil_append] at this
  rw [this]
  simp [hne]

/-- **C34 (response cookies view).** Assigning representable cookies (each with its attributes) to `response.cookies` — one
    Set-Cookie header per cookie — and reading the view back yields the same cookies, attributes and order. -/
theorem set_cookie_roundtrip (cs : List (List (Str × Option Str))) (hne : ∀ c ∈ cs, c ≠ []) (h : ∀ c ∈ cs, ∀ e ∈ c, RepSc e) :
    getSetCookies (setSetCookies cs) = cs := by
  unfold getSetCookies setSetCookies
  induction cs with
  | nil => rfl
  | cons c cs ih =>
    simp only [List.map_cons, List.flatMap_cons]
    rw [set_cookie_header_roundtrip c (hne c (by simp)) (h c (by simp)), List.filter_append]
    have hc : ([c] : List (List (Str × Option Str))).filter (· ≠ []) = [c] := by
      simp [hne c (by simp)]
    rw [hc, ih (fun x hx => hne x (List.mem_cons_of_mem _ hx)) (fun x hx => h x (List.mem_cons_of_mem _ hx))]
    rfl

example : parseSetCookie (S "sid=abc; Path=/; HttpOnly; expires=Thu, 01 Jan 2030 00:00:00 GMT") =
    [[(S "sid", some (S "abc")), (S "Path", some (S "/")), (S "HttpOnly", none), (S "expires", some (S "Thu, 01 Jan 2030 00:00:00 GMT"))]] := by
  decide +kernel
-- the repaired reader (e0e81be4a / 8cc872297): a short Expires value no longer swallows the next attribute, a long weekday stays whole
example : parseSetCookie (S "a=b; Expires=0; Path=/admin") = [[(S "a", some (S "b")), (S "Expires", some (S "0")), (S "Path", some (S "/admin"))]] ∧
    parseSetCookie (S "sid=; Expires=Thursday, 01-Jan-70 00:00:00 GMT") =
      [[(S "sid", some []), (S "Expires", some (S "Thursday, 01-Jan-70 00:00:00 GMT"))]] ∧
    parseSetCookie (S "a=b; expires=12, c=d") = [[(S "a", some (S "b")), (S "expires", some (S "12"))], [(S "c", some (S "d"))]] := by
  decide +kernel
-- the guard matters: an unquoted path value holding `;` is split (F-C34f)
example : parseSetCookie (formatSetCookie [(S "a", some (S "b")), (S "path", some (S "/x;y"))]) ≠
    [[(S "a", some (S "b")), (S "path", some (S "/x;y"))]] := by decide +kernel

/-! ### multipart: the guarded round trip -/

/-- the delimiter line -/
def delim (b : Bytes) : Bytes := B "--" ++ b
def cdLine (k : Bytes) : Bytes := B "Content-Disposition: form-data; name=\"" ++ k ++ [34]
def ctLine (c : Bytes) : Bytes := B "Content-Type: " ++ c
/-- what `encode_multipart` writes for one part after its delimiter line: six CRLF-terminated lines
    (empty, Content-Disposition, Content-Type, empty, the value, and the encoder's extra empty line) -/
def piece (k v c : Bytes) : Bytes := [[], cdLine k, ctLine c, [], v, []].flatMap (· ++ [13, 10])

/-- the delimiter does not start anywhere inside `p` when `p` is followed by the delimiter -/
def NoEarly (sep : Bytes) : Bytes → Prop
  | [] => True
  | c :: p => sep.isPrefixOf (c :: p ++ sep) = false ∧ NoEarly sep p

private theorem B_dd : B "--" = [45, 45] := by decide +kernel
private theorem B_last : B "--\r\n" = [45, 45, 13, 10] := by decide +kernel
private theorem B_name : B "name=\"" = [110, 97, 109, 101, 61, 34] := by decide +kernel
private theorem B_ct : B "Content-Type: " = [67, 111, 110, 116, 101, 110, 116, 45, 84, 121, 112, 101, 58, 32] := by decide +kernel
private theorem B_cd : B "Content-Disposition: form-data; name=\"" = [67, 111, 110, 116, 101, 110, 116, 45, 68, 105, 115, 112, 111, 115,
    105, 116, 105, 111, 110, 58, 32, 102, 111, 114, 109, 45, 100, 97, 116, 97, 59, 32, 110, 97, 109, 101, 61, 34] := by decide +kernel

private def bodyOf (b : Bytes) : List (Bytes × Bytes × Bytes) → Bytes
  | [] => delim b ++ B "--\r\n"
  | p :: ps => delim b ++ piece p.1 p.2.1 p.2.2 ++ bodyOf b ps

private theorem joinCRLF_cons (x : Bytes) (r : List Bytes) (h : r ≠ []) : joinCRLF (x :: r) = x ++ 13 :: 10 :: joinCRLF r := by
  cases r with
  | nil => exact absurd rfl h
  | cons y r => rfl

private theorem join_partLines (b : Bytes) (parts : List (Bytes × Bytes × Bytes)) (hk : ∀ p ∈ parts, p.1 ≠ []) :
    joinCRLF (partLines b parts ++ [B "--" ++ b ++ B "--\r\n"]) = bodyOf b parts := by
  induction parts with
  | nil => simp [partLines, joinCRLF, bodyOf, delim]
  | cons p ps ih =>
    obtain ⟨k, v, c⟩ := p
    have hk0 : k ≠ [] := hk (k, v, c) (by simp)
    have ih' := ih (fun q hq => hk q (List.mem_cons_of_mem _ hq))
    have hne : partLines b ps ++ [B "--" ++ b ++ B "--\r\n"] ≠ [] := by simp
    simp only [partLines, hk0, ne_eq, not_false_eq_true, if_true, List.cons_append, List.nil_append, joinCRLF]
    rw [ih']
    simp [bodyOf, piece, delim, cdLine, ctLine]

/-! #### bytes.split -/
private theorem isPrefixOf_append (sep x rest : Bytes) (h : sep.length ≤ x.length) :
    sep.isPrefixOf (x ++ rest) = sep.isPrefixOf x := by
  induction sep generalizing x with
  | nil => simp
  | cons a sep ih =>
    cases x with
    | nil => simp at h
    | cons y x =>
      simp only [List.cons_append, List.isPrefixOf]
      rw [ih x (by simpa using h)]

private theorem isPrefixOf_self_append (sep rest : Bytes) : sep.isPrefixOf (sep ++ rest) = true := by
  induction sep with
  | nil => simp
  | cons a sep ih => simp [List.isPrefixOf, ih]

private theorem splitOnF_piece (sep : Bytes) (hs : sep ≠ []) (p : Bytes) : ∀ (f : Nat) (cur rest : Bytes), NoEarly sep p →
    (p ++ sep ++ rest).length < f →
    ∃ f', rest.length < f' ∧ splitOnF f sep cur (p ++ sep ++ rest) = (cur ++ p) :: splitOnF f' sep [] rest := by
  induction p with
  | nil =>
    intro f cur rest _ hf
    cases f with
    | zero => omega
    | succ f =>
      obtain ⟨a, sep', rfl⟩ := List.exists_cons_of_ne_nil hs
      refine ⟨f, by simp at hf; omega, ?_⟩
      have hp : (a :: sep').isPrefixOf (a :: (sep' ++ rest)) = true := by
        have := isPrefixOf_self_append (a :: sep') rest
        simpa using this
      have hdrop : (a :: (sep' ++ rest)).drop (a :: sep').length = rest := by
        have := List.drop_left (l₁ := a :: sep') (l₂ := rest)
        simpa using this
      simp only [List.nil_append, List.cons_append, splitOnF, hp, if_true, List.append_nil, hdrop]
  | cons c p ih =>
    intro f cur rest hne hf
    obtain ⟨h0, hrest⟩ := hne
    cases f with
    | zero => omega
    | succ f =>
      have hpre : sep.isPrefixOf (c :: (p ++ sep ++ rest)) = false := by
        have e : c :: (p ++ sep ++ rest) = (c :: p ++ sep) ++ rest := by simp
        rw [e, isPrefixOf_append sep (c :: p ++ sep) rest (by simp; omega)]
        exact h0
      obtain ⟨f', hf', he⟩ := ih f (cur ++ [c]) rest hrest (by simp at hf ⊢; omega)
      refine ⟨f', hf', ?_⟩
      simp only [List.cons_append, splitOnF, hpre, Bool.false_eq_true, if_false]
      rw [he]; simp

private theorem splitOnF_last (b : Bytes) (hb : b ≠ [] ∧ 13 ∉ b) (f : Nat) (hf : 4 < f) :
    splitOnF f (delim b) [] (B "--\r\n") = [B "--\r\n"] := by
  obtain ⟨hne, h13⟩ := hb
  cases b with
  | nil => exact absurd rfl hne
  | cons x b' =>
    have hx : x ≠ 13 := fun e => h13 (by simp [e])
    have e1 : delim (x :: b') = 45 :: 45 :: x :: b' := by simp [delim, B_dd]
    rw [e1, B_last]
    match f, hf with
    | f + 5, _ => simp [splitOnF, List.isPrefixOf, hx]

private theorem splitOn_body (b : Bytes) (hb : b ≠ [] ∧ 13 ∉ b) (parts : List (Bytes × Bytes × Bytes))
    (hd : ∀ p ∈ parts, NoEarly (delim b) (piece p.1 p.2.1 p.2.2)) :
    ∀ f, (bodyOf b parts).length < f →
      splitOnF f (delim b) [] (bodyOf b parts) =
        [] :: (parts.map (fun p => piece p.1 p.2.1 p.2.2) ++ [B "--\r\n"]) := by
  have hsep : delim b ≠ [] := by simp [delim, B_dd]
  -- generalise over the piece collected so far: body = pre ++ delim ++ …
  have key : ∀ (parts : List (Bytes × Bytes × Bytes)), (∀ p ∈ parts, NoEarly (delim b) (piece p.1 p.2.1 p.2.2)) →
      ∀ (pre : Bytes), NoEarly (delim b) pre → ∀ f, (pre ++ bodyOf b parts).length < f →
      splitOnF f (delim b) [] (pre ++ bodyOf b parts) =
        pre :: (parts.map (fun p => piece p.1 p.2.1 p.2.2) ++ [B "--\r\n"]) := by
    intro parts
    induction parts with
    | nil =>
      intro _ pre hpre f hf
      have e : pre ++ bodyOf b [] = pre ++ delim b ++ B "--\r\n" := by simp [bodyOf]
      rw [e] at hf ⊢
      obtain ⟨f', hf', he⟩ := splitOnF_piece (delim b) hsep pre f [] (B "--\r\n") hpre hf
      rw [he, splitOnF_last b hb f' (by have : (B "--\r\n").length = 4 := by rw [B_last]; rfl
                                        omega)]
      simp
    | cons p ps ih =>
      intro hd pre hpre f hf
      have e : pre ++ bodyOf b (p :: ps) = pre ++ delim b ++ (piece p.1 p.2.1 p.2.2 ++ bodyOf b ps) := by simp [bodyOf]
      rw [e] at hf ⊢
      obtain ⟨f', hf', he⟩ := splitOnF_piece (delim b) hsep pre f [] _ hpre hf
      rw [he, ih (fun q hq => hd q (List.mem_cons_of_mem _ hq)) _ (hd p (by simp)) f' hf']
      simp
  intro f hf
  have := key parts hd [] trivial f (by simpa using hf)
  simpa using this

/-! #### bytes.splitlines -/
private theorem splitLinesF_line (a : Bytes) : ∀ (f : Nat) (cur rest : Bytes), (∀ x ∈ a, x ≠ 10 ∧ x ≠ 13) →
    (a ++ 13 :: 10 :: rest).length < f →
    ∃ f', rest.length < f' ∧ splitLinesF f cur (a ++ 13 :: 10 :: rest) = (cur ++ a) :: splitLinesF f' [] rest := by
  induction a with
  | nil =>
    intro f cur rest _ hf
    cases f with
    | zero => omega
    | succ f =>
      refine ⟨f, by simp at hf; omega, ?_⟩
      simp [splitLinesF]
  | cons x a ih =>
    intro f cur rest hx hf
    cases f with
    | zero => omega
    | succ f =>
      obtain ⟨h10, h13⟩ := hx x (by simp)
      obtain ⟨f', hf', he⟩ := ih f (cur ++ [x]) rest (fun y hy => hx y (List.mem_cons_of_mem _ hy)) (by simp at hf ⊢; omega)
      refine ⟨f', hf', ?_⟩
      simp only [List.cons_append, splitLinesF, h10, h13, if_false]
      rw [he]; simp

private theorem splitLines_lines (ls : List Bytes) (h : ∀ l ∈ ls, ∀ x ∈ l, x ≠ 10 ∧ x ≠ 13) :
    ∀ f, (ls.flatMap (· ++ [13, 10])).length < f → splitLinesF f [] (ls.flatMap (· ++ [13, 10])) = ls := by
  induction ls with
  | nil => intro f hf; cases f <;> simp [splitLinesF]
  | cons l ls ih =>
    intro f hf
    have e : (l :: ls).flatMap (· ++ [13, 10]) = l ++ 13 :: 10 :: ls.flatMap (· ++ [13, 10]) := by simp
    rw [e] at hf ⊢
    obtain ⟨f', hf', he⟩ := splitLinesF_line l f [] _ (h l (by simp)) hf
    rw [he, ih (fun m hm => h m (List.mem_cons_of_mem _ hm)) f' hf']
    simp

/-! #### the name regex -/
private theorem findName_skip (prev : Option UInt8) (c : UInt8) (r : Bytes) (h : c ≠ 110) :
    findNameGo prev (c :: r) = findNameGo (some c) r := by
  have : (B "name=\"").isPrefixOf (c :: r) = false := by
    rw [B_name]; simp [List.isPrefixOf, Ne.symm h]
  simp [findNameGo, this]

private theorem findName_skip_n (prev : Option UInt8) (d : UInt8) (r : Bytes) (h : d ≠ 97) :
    findNameGo prev (110 :: d :: r) = findNameGo (some 110) (d :: r) := by
  have : (B "name=\"").isPrefixOf (110 :: d :: r) = false := by
    rw [B_name]; simp [List.isPrefixOf, Ne.symm h]
  simp [findNameGo, this]

private theorem takeWhile_stopB (p : UInt8 → Bool) (a : Bytes) (y : UInt8) (r : Bytes) (h : ∀ x ∈ a, p x = true) (hy : p y = false) :
    (a ++ y :: r).takeWhile p = a := by
  induction a with
  | nil => simp [List.takeWhile, hy]
  | cons x a ih =>
    simp only [List.cons_append]
    rw [List.takeWhile_cons_of_pos (h x (by simp)), ih (fun z hz => h z (List.mem_cons_of_mem _ hz))]

private theorem findName_cdLine (k : Bytes) (hne : k ≠ []) (hq : 34 ∉ k) : findNameGo none (cdLine k) = some k := by
  have e : cdLine k = [67, 111, 110, 116, 101, 110, 116, 45, 68, 105, 115, 112, 111, 115, 105, 116, 105, 111, 110, 58, 32,
      102, 111, 114, 109, 45, 100, 97, 116, 97, 59, 32] ++ (110 :: 97 :: 109 :: 101 :: 61 :: 34 :: (k ++ [34])) := by
    simp [cdLine, B_cd]
  rw [e]
  simp only [List.cons_append, List.nil_append]
  -- C o
  rw [findName_skip _ 67 _ (by decide), findName_skip _ 111 _ (by decide), findName_skip_n _ 116 _ (by decide),
    findName_skip _ 116 _ (by decide), findName_skip _ 101 _ (by decide), findName_skip_n _ 116 _ (by decide),
    findName_skip _ 116 _ (by decide), findName_skip _ 45 _ (by decide), findName_skip _ 68 _ (by decide),
    findName_skip _ 105 _ (by decide), findName_skip _ 115 _ (by decide), findName_skip _ 112 _ (by decide),
    findName_skip _ 111 _ (by decide), findName_skip _ 115 _ (by decide), findName_skip _ 105 _ (by decide),
    findName_skip _ 116 _ (by decide), findName_skip _ 105 _ (by decide), findName_skip _ 111 _ (by decide),
    findName_skip_n _ 58 _ (by decide), findName_skip _ 58 _ (by decide), findName_skip _ 32 _ (by decide),
    findName_skip _ 102 _ (by decide), findName_skip _ 111 _ (by decide), findName_skip _ 114 _ (by decide),
    findName_skip _ 109 _ (by decide), findName_skip _ 45 _ (by decide), findName_skip _ 100 _ (by decide),
    findName_skip _ 97 _ (by decide), findName_skip _ 116 _ (by decide), findName_skip _ 97 _ (by decide),
    findName_skip _ 59 _ (by decide), findName_skip _ 32 _ (by decide)]
  have e6 := B_name
  have htw : (k ++ [34]).takeWhile (fun b => b != 34) = k :=
    takeWhile_stopB _ k 34 [] (by intro x hx; have : x ≠ 34 := fun e => hq (e ▸ hx); simpa using this) (by decide)
  unfold findNameGo
  simp only [e6, isWordB]
  simp [List.isPrefixOf, htw, hne]

/-! #### one part, and the whole body -/
private theorem decodePiece_piece (k v c : Bytes) (hk : k ≠ [] ∧ 34 ∉ k ∧ 10 ∉ k ∧ 13 ∉ k) (hv : 10 ∉ v ∧ 13 ∉ v)
    (hc : 10 ∉ c ∧ 13 ∉ c) : decodePiece (piece k v c) = some (some (k, v)) := by
  obtain ⟨hk0, hkq, hk10, hk13⟩ := hk
  have hlines : splitLines (piece k v c) = [[], cdLine k, ctLine c, [], v, []] := by
    unfold splitLines piece
    apply splitLines_lines _ _ _ (Nat.lt_succ_self _)
    intro l hl x hx
    simp only [List.mem_cons, List.mem_singleton, List.not_mem_nil, or_false] at hl
    have fixed1 : ∀ y ∈ B "Content-Disposition: form-data; name=\"", y ≠ 10 ∧ y ≠ 13 := by rw [B_cd]; decide
    have fixed2 : ∀ y ∈ B "Content-Type: ", y ≠ 10 ∧ y ≠ 13 := by rw [B_ct]; decide
    rcases hl with rfl | rfl | rfl | rfl | rfl | rfl
    · cases hx
    · simp only [cdLine, List.mem_append, List.mem_singleton] at hx
      rcases hx with (hx | hx) | rfl
      · exact fixed1 x hx
      · exact ⟨fun e => hk10 (e ▸ hx), fun e => hk13 (e ▸ hx)⟩
      · decide
    · simp only [ctLine, List.mem_append] at hx
      rcases hx with hx | hx
      · exact fixed2 x hx
      · exact ⟨fun e => hc.1 (e ▸ hx), fun e => hc.2 (e ▸ hx)⟩
    · cases hx
    · exact ⟨fun e => hv.1 (e ▸ hx), fun e => hv.2 (e ▸ hx)⟩
    · cases hx
  have hct : ctLine c ≠ [] := by
    simp [ctLine, B_ct]
  unfold decodePiece
  rw [hlines]
  have h2 : (([] : Bytes).take 2 ≠ B "--") := by rw [B_dd]; decide
  simp only [List.length_cons, List.length_nil, List.headD_cons, List.drop_succ_cons, List.drop_zero]
  simp only [show (0 + 1 + 1 + 1 + 1 + 1 + 1 > 1) from by omega, h2, ne_eq, not_false_eq_true, and_self, if_true,
    findName_cdLine k hk0 hkq]
  simp [indexOfEmpty, hct]

private theorem collect_pieces (ps : List (Bytes × Bytes)) (tail : List (Option (Option (Bytes × Bytes))))
    (t : List (Bytes × Bytes)) (ht : collect tail = some t) :
    collect (ps.map (fun p => some (some p)) ++ tail) = some (ps ++ t) := by
  induction ps with
  | nil => simpa using ht
  | cons p ps ih => simp [collect, ih]

/-- **C34 (multipart, partial).** For every boundary (non-empty, no CR) and every list of parts whose keys are non-empty and free of
    `"`, CR and LF, whose values (and guessed content types) are free of CR and LF, which the encoder does not refuse, and inside
    whose written form the delimiter `--boundary` does not occur: decoding the encoded body yields the same key/value pairs in the
    same order.  (F-C34a/b are exactly the excluded CR/LF/quote cases; F-C34c is the case where encoder and decoder use different
    boundaries.) -/
theorem multipart_roundtrip_partial (b : Bytes) (parts : List (Bytes × Bytes × Bytes))
    (hb : b ≠ [] ∧ 13 ∉ b)
    (hk : ∀ p ∈ parts, p.1 ≠ [] ∧ 34 ∉ p.1 ∧ 10 ∉ p.1 ∧ 13 ∉ p.1)
    (hv : ∀ p ∈ parts, 10 ∉ p.2.1 ∧ 13 ∉ p.2.1)
    (hc : ∀ p ∈ parts, 10 ∉ p.2.2 ∧ 13 ∉ p.2.2)
    (hacc : ∀ p ∈ parts, valueIsDelim b p.2.1 = false)
    (hd : ∀ p ∈ parts, NoEarly (delim b) (piece p.1 p.2.1 p.2.2)) :
    ∃ body, encodeMultipart b parts = some body ∧
      decodeMultipart b body = some (parts.map (fun p => (p.1, p.2.1))) := by
  refine ⟨bodyOf b parts, ?_, ?_⟩
  · unfold encodeMultipart
    have : parts.any (fun p => valueIsDelim b p.2.1) = false := by
      rw [List.any_eq_false]; intro p hp; simp [hacc p hp]
    simp only [this, Bool.false_eq_true, if_false]
    rw [join_partLines b parts (fun p hp => (hk p hp).1)]
  · unfold decodeMultipart splitOn
    have hsp := splitOn_body b hb parts hd ((bodyOf b parts).length + 1) (by omega)
    have hdl : B "--" ++ b = delim b := rfl
    rw [hdl, hsp]
    have h0 : decodePiece [] = some none := by decide +kernel
    have hlast : decodePiece (B "--\r\n") = some none := by decide +kernel
    simp only [List.map_cons, List.map_append, List.map_map, List.map_nil, h0, hlast, collect]
    have hmap : parts.map (decodePiece ∘ fun p => piece p.1 p.2.1 p.2.2) =
        (parts.map (fun p => (p.1, p.2.1))).map (fun p => some (some p)) := by
      rw [List.map_map]
      apply List.map_congr_left
      intro p hp
      exact decodePiece_piece p.1 p.2.1 p.2.2 (hk p hp) (hv p hp) (hc p hp)
    rw [hmap, collect_pieces _ [some none] [] (by simp [collect])]
    simp

/-! #### the delimiter guard, derived from "key, value and content type do not contain the delimiter" -/

/-- `sep` occurs nowhere in `x` (the meaning of `b"--" + boundary not in x`) -/
def NoOccur (sep : Bytes) : Bytes → Prop
  | [] => True
  | c :: x => sep.isPrefixOf (c :: x) = false ∧ NoOccur sep x

private theorem prefix_through (sep : Bytes) : ∀ (s : Bytes) (d : UInt8) (y : Bytes),
    sep.isPrefixOf (s ++ d :: y) = true → sep.isPrefixOf s = true ∨ d ∈ sep := by
  induction sep with
  | nil => intro s d y _; left; simp
  | cons a sep ih =>
    intro s d y h
    cases s with
    | nil =>
      simp only [List.nil_append, List.isPrefixOf, Bool.and_eq_true, beq_iff_eq] at h
      right; simp [h.1]
    | cons x s =>
      simp only [List.cons_append, List.isPrefixOf, Bool.and_eq_true, beq_iff_eq] at h
      rcases ih s d y h.2 with h' | h'
      · left; simp [List.isPrefixOf, h.1, h']
      · right; exact List.mem_cons_of_mem _ h'

/-- a segment free of the delimiter, followed by a character the delimiter does not contain, cannot host the start of one -/
private theorem noEarly_seg (sep x : Bytes) (d : UInt8) (y : Bytes) (hd : d ∉ sep) (hx : NoOccur sep x)
    (hr : NoEarly sep (d :: y)) : NoEarly sep (x ++ d :: y) := by
  induction x with
  | nil => simpa using hr
  | cons c x ih =>
    obtain ⟨h0, hx'⟩ := hx
    refine ⟨?_, ih hx'⟩
    show sep.isPrefixOf (c :: (x ++ d :: y) ++ sep) = false
    cases hp : sep.isPrefixOf (c :: (x ++ d :: y) ++ sep) with
    | false => rfl
    | true =>
      exfalso
      have e : c :: (x ++ d :: y) ++ sep = (c :: x) ++ d :: (y ++ sep) := by simp
      rw [e] at hp
      rcases prefix_through sep (c :: x) d (y ++ sep) hp with h | h
      · rw [h0] at h; cases h
      · exact hd h

private theorem noEarly_ne (b : Bytes) (c : UInt8) (p : Bytes) (hc : c ≠ 45) (h : NoEarly (45 :: 45 :: b) p) :
    NoEarly (45 :: 45 :: b) (c :: p) := by
  refine ⟨?_, h⟩
  simp [List.isPrefixOf, Ne.symm hc]

private theorem noEarly_dash (b : Bytes) (c : UInt8) (p : Bytes) (hc : c ≠ 45) (h : NoEarly (45 :: 45 :: b) (c :: p)) :
    NoEarly (45 :: 45 :: b) (45 :: c :: p) := by
  refine ⟨?_, h⟩
  simp [List.isPrefixOf, Ne.symm hc]

/-- **the guard of `multipart_roundtrip_partial`, derived.**  If the boundary contains no CR, no double quote and no blank, and the
    delimiter `--boundary` occurs neither in the key nor in the value nor in the guessed content type, then it does not start
    anywhere inside the written part. -/
theorem noEarly_piece (b k v c : Bytes) (hb13 : 13 ∉ b) (hb34 : 34 ∉ b)
    (hk : NoOccur (delim b) k) (hv : NoOccur (delim b) v) (hc : NoOccur (delim b) c) :
    NoEarly (delim b) (piece k v c) := by
  have hd : delim b = 45 :: 45 :: b := by simp [delim, B_dd]
  rw [hd] at hk hv hc ⊢
  have n13 : (13 : UInt8) ∉ (45 :: 45 :: b) := by
    simp only [List.mem_cons, not_or]; exact ⟨by decide, by decide, hb13⟩
  have n34 : (34 : UInt8) ∉ (45 :: 45 :: b) := by
    simp only [List.mem_cons, not_or]; exact ⟨by decide, by decide, hb34⟩
  -- the written part, with the fixed texts spelled out
  have e : piece k v c = [13, 10] ++ ([67, 111, 110, 116, 101, 110, 116, 45, 68, 105, 115, 112, 111, 115, 105, 116, 105, 111, 110, 58, 32,
      102, 111, 114, 109, 45, 100, 97, 116, 97, 59, 32, 110, 97, 109, 101, 61, 34] ++ (k ++ 34 :: ([13, 10] ++
      ([67, 111, 110, 116, 101, 110, 116, 45, 84, 121, 112, 101, 58, 32] ++ (c ++ 13 :: ([10, 13, 10] ++ (v ++ 13 :: [10, 13, 10]))))))) := by
    simp [piece, cdLine, ctLine, B_cd, B_ct]
  rw [e]
  -- from the end of the part backwards
  have t4 : NoEarly (45 :: 45 :: b) (13 :: [10, 13, 10]) :=
    noEarly_ne b 13 _ (by decide) (noEarly_ne b 10 _ (by decide) (noEarly_ne b 13 _ (by decide) (noEarly_ne b 10 _ (by decide) trivial)))
  have tv := noEarly_seg (45 :: 45 :: b) v 13 [10, 13, 10] n13 hv t4
  have t3 : NoEarly (45 :: 45 :: b) (13 :: ([10, 13, 10] ++ (v ++ 13 :: [10, 13, 10]))) :=
    noEarly_ne b 13 _ (by decide) (noEarly_ne b 10 _ (by decide) (noEarly_ne b 13 _ (by decide) (noEarly_ne b 10 _ (by decide) tv)))
  have tc := noEarly_seg (45 :: 45 :: b) c 13 _ n13 hc t3
  -- "Content-Type: "
  have tct : NoEarly (45 :: 45 :: b) ([67, 111, 110, 116, 101, 110, 116, 45, 84, 121, 112, 101, 58, 32] ++
      (c ++ 13 :: ([10, 13, 10] ++ (v ++ 13 :: [10, 13, 10])))) := by
    simp only [List.cons_append, List.nil_append]
    exact noEarly_ne b 67 _ (by decide) (noEarly_ne b 111 _ (by decide) (noEarly_ne b 110 _ (by decide) (noEarly_ne b 116 _ (by decide)
      (noEarly_ne b 101 _ (by decide) (noEarly_ne b 110 _ (by decide) (noEarly_ne b 116 _ (by decide) (noEarly_dash b 84 _ (by decide)
      (noEarly_ne b 84 _ (by decide) (noEarly_ne b 121 _ (by decide) (noEarly_ne b 112 _ (by decide) (noEarly_ne b 101 _ (by decide)
      (noEarly_ne b 58 _ (by decide) (noEarly_ne b 32 _ (by decide) tc)))))))))))))
  have t2 : NoEarly (45 :: 45 :: b) (34 :: ([13, 10] ++ ([67, 111, 110, 116, 101, 110, 116, 45, 84, 121, 112, 101, 58, 32] ++
      (c ++ 13 :: ([10, 13, 10] ++ (v ++ 13 :: [10, 13, 10])))))) := by
    simp only [List.cons_append, List.nil_append] at tct ⊢
    exact noEarly_ne b 34 _ (by decide) (noEarly_ne b 13 _ (by decide) (noEarly_ne b 10 _ (by decide) tct))
  have tk := noEarly_seg (45 :: 45 :: b) k 34 _ n34 hk t2
  simp only [List.cons_append, List.nil_append] at tk ⊢
  -- CRLF + "Content-Disposition: form-data; name=\""
  exact noEarly_ne b 13 _ (by decide) (noEarly_ne b 10 _ (by decide)
    (noEarly_ne b 67 _ (by decide) (noEarly_ne b 111 _ (by decide) (noEarly_ne b 110 _ (by decide) (noEarly_ne b 116 _ (by decide)
    (noEarly_ne b 101 _ (by decide) (noEarly_ne b 110 _ (by decide) (noEarly_ne b 116 _ (by decide) (noEarly_dash b 68 _ (by decide)
    (noEarly_ne b 68 _ (by decide) (noEarly_ne b 105 _ (by decide) (noEarly_ne b 115 _ (by decide) (noEarly_ne b 112 _ (by decide)
    (noEarly_ne b 111 _ (by decide) (noEarly_ne b 115 _ (by decide) (noEarly_ne b 105 _ (by decide) (noEarly_ne b 116 _ (by decide)
    (noEarly_ne b 105 _ (by decide) (noEarly_ne b 111 _ (by decide) (noEarly_ne b 110 _ (by decide) (noEarly_ne b 58 _ (by decide)
    (noEarly_ne b 32 _ (by decide) (noEarly_ne b 102 _ (by decide) (noEarly_ne b 111 _ (by decide) (noEarly_ne b 114 _ (by decide)
    (noEarly_ne b 109 _ (by decide) (noEarly_dash b 100 _ (by decide) (noEarly_ne b 100 _ (by decide) (noEarly_ne b 97 _ (by decide)
    (noEarly_ne b 116 _ (by decide) (noEarly_ne b 97 _ (by decide) (noEarly_ne b 59 _ (by decide) (noEarly_ne b 32 _ (by decide)
    (noEarly_ne b 110 _ (by decide) (noEarly_ne b 97 _ (by decide) (noEarly_ne b 109 _ (by decide) (noEarly_ne b 101 _ (by decide)
    (noEarly_ne b 61 _ (by decide) (noEarly_ne b 34 _ (by decide) tk)))))))))))))))))))))))))))))))))))))))

/-- **C34 (multipart).** The round trip with every guard stated on the INPUT: a boundary that is non-empty and free of CR, LF-free
    is not needed, free of double quotes; keys non-empty and free of `"`, CR, LF; values and guessed content types free of CR, LF;
    and the delimiter `--boundary` occurring in no key, value or content type.  (The encoder's refusal and the "delimiter inside
    the written part" guards of `multipart_roundtrip_partial` are derived.) -/
theorem multipart_roundtrip (b : Bytes) (parts : List (Bytes × Bytes × Bytes))
    (hb : b ≠ [] ∧ 13 ∉ b ∧ 34 ∉ b)
    (hk : ∀ p ∈ parts, p.1 ≠ [] ∧ 34 ∉ p.1 ∧ 10 ∉ p.1 ∧ 13 ∉ p.1)
    (hv : ∀ p ∈ parts, 10 ∉ p.2.1 ∧ 13 ∉ p.2.1)
    (hc : ∀ p ∈ parts, 10 ∉ p.2.2 ∧ 13 ∉ p.2.2)
    (hfree : ∀ p ∈ parts, NoOccur (delim b) p.1 ∧ NoOccur (delim b) p.2.1 ∧ NoOccur (delim b) p.2.2) :
    ∃ body, encodeMultipart b parts = some body ∧
      decodeMultipart b body = some (parts.map (fun p => (p.1, p.2.1))) := by
  apply multipart_roundtrip_partial b parts ⟨hb.1, hb.2.1⟩ hk hv hc
  · -- the encoder does not refuse: a value equal to the delimiter line would contain the delimiter
    intro p hp
    have hd : delim b = 45 :: 45 :: b := by simp [delim, B_dd]
    obtain ⟨_, hvf, _⟩ := hfree p hp
    have ne1 : ¬ p.2.1 = B "--" ++ b := by
      intro e
      have e' : p.2.1 = delim b := e
      rw [e', hd] at hvf
      have hs := isPrefixOf_self_append (45 :: 45 :: b) []
      rw [List.append_nil] at hs
      rw [hvf.1] at hs; cases hs
    have ne2 : ¬ p.2.1 = B "--" ++ b ++ [10] := by
      intro e
      have : (10 : UInt8) ∈ p.2.1 := by rw [e]; simp
      exact (hv p hp).1 this
    unfold valueIsDelim
    simp only [Bool.or_eq_false_iff, decide_eq_false_iff_not]
    exact ⟨ne1, ne2⟩
  · intro p hp
    obtain ⟨a, b', c'⟩ := hfree p hp
    exact noEarly_piece b p.1 p.2.1 p.2.2 hb.2.1 hb.2.2 a b' c'

instance instDecNoOccur (sep : Bytes) : (x : Bytes) → Decidable (NoOccur sep x)
  | [] => isTrue trivial
  | c :: x =>
    have := instDecNoOccur sep x
    inferInstanceAs (Decidable (sep.isPrefixOf (c :: x) = false ∧ NoOccur sep x))

instance instDecNoEarly (sep : Bytes) : (p : Bytes) → Decidable (NoEarly sep p)
  | [] => isTrue trivial
  | c :: p =>
    have := instDecNoEarly sep p
    inferInstanceAs (Decidable (sep.isPrefixOf (c :: p ++ sep) = false ∧ NoEarly sep p))

/-- the hypotheses of `multipart_roundtrip_partial` are satisfiable (two parts, a browser-style boundary, a value containing dashes) -/
example : ∃ body, encodeMultipart (B "----B1") [(B "a", B "x--y", B "text/plain"), (B "file", [], B "text/plain")] = some body ∧
    decodeMultipart (B "----B1") body = some [(B "a", B "x--y"), (B "file", [])] :=
  multipart_roundtrip_partial (B "----B1") [(B "a", B "x--y", B "text/plain"), (B "file", [], B "text/plain")]
    (by decide +kernel) (by decide +kernel) (by decide +kernel) (by decide +kernel) (by decide +kernel) (by decide +kernel)

/-- the input-level hypotheses of `multipart_roundtrip` are satisfiable (a value with dashes and with a shorter look-alike `--B1`) -/
example : ∃ body, encodeMultipart (B "----B1") [(B "a", B "x--B1--y", B "text/plain"), (B "file", [], B "text/plain")] = some body ∧
    decodeMultipart (B "----B1") body = some [(B "a", B "x--B1--y"), (B "file", [])] :=
  multipart_roundtrip (B "----B1") [(B "a", B "x--B1--y", B "text/plain"), (B "file", [], B "text/plain")]
    (by decide +kernel) (by decide +kernel) (by decide +kernel) (by decide +kernel) (by decide +kernel)

/-- the guards are satisfiable, with two parts and a browser-style boundary -/
example : ∃ body, encodeMultipart (B "----B1") [(B "a", B "x y", B "text/plain"), (B "file", [], B "text/plain")] = some body ∧
    decodeMultipart (B "----B1") body = some [(B "a", B "x y"), (B "file", [])] := by
  refine ⟨(encodeMultipart (B "----B1") [(B "a", B "x y", B "text/plain"), (B "file", [], B "text/plain")]).getD [],
    by decide +kernel, by decide +kernel⟩

/-! ### non-vacuity -/
example : Representable [(S "a", S "b c"), (S "", S "x\"y\\z;"), (S "k", [])] := by
  intro e he
  simp only [List.mem_cons, List.mem_singleton, List.not_mem_nil, or_false] at he
  rcases he with rfl | rfl | rfl <;> exact ⟨by decide, by decide, by decide⟩

example : formatCookie [(S "a", S "b c"), (S "", S "x\"y"), (S "k", [])] = S "a=\"b c\"; =\"x\\\"y\"; k=" := by decide +kernel
-- the parser is not the identity on junk and the guard matters: a name with `;` does not survive
example : parseCookie (formatCookie [(S "a;b", S "c")]) = [(S "a", []), (S "b", S "c")] := by decide +kernel
example : decodeMultipart (B "XX") ((encodeMultipart (B "XX") [(B "k", B "v", B "text/plain")]).getD []) = some [(B "k", B "v")] := by
  decide +kernel

/-! ### audit round 6: non-vacuity witnesses (toy codecs that satisfy the assumed urllib laws for ALL inputs) -/

/-- `quote`/`unquote` by shifting every code point out of the ASCII range: satisfies `QuoteLaw` -/
private def shQ (s : Str) : Str := s.map (· + 200)
private def ushQ (s : Str) : Str := s.map (· - 200)

private theorem ush_sh (s : Str) : ushQ (shQ s) = s := by
  induction s with
  | nil => rfl
  | cons c r ih => simp [shQ, ushQ] at ih ⊢; exact ih

/-- pair lists as length-prefixed shifted text (no code point below 200, so no `#`, `&`, `=`) -/
private def ser : List (Str × Str) → Str
  | [] => []
  | (k, v) :: r => (k.length + 200) :: (shQ k ++ (v.length + 200) :: (shQ v ++ ser r))

private def de : Nat → Str → List (Str × Str)
  | 0, _ => []
  | _ + 1, [] => []
  | f + 1, n :: rest =>
    let r2 := rest.drop (n - 200)
    if r2.isEmpty then [] else
    (ushQ (rest.take (n - 200)), ushQ (r2.tail.take (r2.headD 0 - 200))) :: de f (r2.tail.drop (r2.headD 0 - 200))

private theorem de_ser (qs : List (Str × Str)) : ∀ f, (ser qs).length ≤ f → de f (ser qs) = qs := by
  induction qs with
  | nil => intro f _; cases f <;> rfl
  | cons e r ih =>
    obtain ⟨k, v⟩ := e
    intro f hf
    cases f with
    | zero => simp [ser] at hf
    | succ f =>
      have hk : (shQ k).length = k.length := by simp [shQ]
      have hv : (shQ v).length = v.length := by simp [shQ]
      have d1 : (shQ k ++ (v.length + 200) :: (shQ v ++ ser r)).drop (k.length + 200 - 200) =
          (v.length + 200) :: (shQ v ++ ser r) := by
        rw [Nat.add_sub_cancel, ← hk, List.drop_left']; rfl
      have t1 : (shQ k ++ (v.length + 200) :: (shQ v ++ ser r)).take (k.length + 200 - 200) = shQ k := by
        rw [Nat.add_sub_cancel, ← hk, List.take_left']; rfl
      have t2 : (shQ v ++ ser r).take (v.length + 200 - 200) = shQ v := by
        rw [Nat.add_sub_cancel, ← hv, List.take_left']; rfl
      have d2 : (shQ v ++ ser r).drop (v.length + 200 - 200) = ser r := by
        rw [Nat.add_sub_cancel, ← hv, List.drop_left']; rfl
      have hlen : (ser r).length ≤ f := by
        simp only [ser, List.length_cons, List.length_append] at hf; omega
      have e : ser ((k, v) :: r) = (k.length + 200) :: (shQ k ++ (v.length + 200) :: (shQ v ++ ser r)) := rfl
      rw [e]
      simp only [de, d1, t1, List.isEmpty_cons, Bool.false_eq_true, if_false, List.tail_cons, List.headD_cons, t2, d2, ush_sh,
        ih f hlen]

private theorem ser_big : ∀ qs, ∀ x ∈ ser qs, 200 ≤ x := by
  intro qs
  induction qs with
  | nil => intro x hx; cases hx
  | cons e r ih =>
    obtain ⟨k, v⟩ := e
    intro x hx
    simp only [ser, List.mem_cons, List.mem_append, shQ, List.mem_map] at hx
    rcases hx with rfl | ⟨a, _, rfl⟩ | rfl | ⟨a, _, rfl⟩ | hx
    · omega
    · omega
    · omega
    · omega
    · exact ih x hx

private def toyCodec : UrlCodec where
  urlencode qs := ser qs
  parseQsl s := de s.length s
  quote := shQ
  unquote := ushQ

private theorem toy_law (ps : List (Str × Str)) : toyCodec.parseQsl (toyCodec.urlencode ps) = ps :=
  de_ser ps _ (Nat.le_refl _)

private theorem toy_quote : QuoteLaw toyCodec where
  inv := ush_sh
  clean := by
    intro c x hx
    simp only [toyCodec, shQ, List.mem_map] at hx
    obtain ⟨a, _, rfl⟩ := hx
    refine ⟨by omega, by omega, by omega, by omega⟩
  nonempty := by
    intro c hc h
    apply hc
    simpa [toyCodec, shQ] using h

/-- `path_components_roundtrip` is not vacuous: `QuoteLaw` has an instance, and on a target with `;params`, query and fragment
    the components `["a b", "ü/", "x"]` read back -/
example : getPathComponents toyCodec (S "http") (setPathComponents toyCodec (S "http") (S "/old;k?v=1#f") [S "a b", [252, 47], S "x"])
    = [S "a b", [252, 47], S "x"] :=
  (path_components_roundtrip toyCodec toy_quote (S "http") (S "/old;k?v=1#f") [S "a b", [252, 47], S "x"]
    (by intro c hc; simp only [List.mem_cons, List.mem_singleton, List.not_mem_nil, or_false] at hc
        rcases hc with rfl | rfl | rfl <;> decide)).1

/-- `query_view_roundtrip` is not vacuous: the urllib law has an instance; pairs with separators, `#` and empty strings read back -/
example : getQuery toyCodec (setQuery toyCodec { path := S "/p", params := [], query := S "old=1", fragment := S "f" }
    [(S "a&b", S "c=d#"), ([], []), (S "k", [])]) = [(S "a&b", S "c=d#"), ([], []), (S "k", [])] :=
  (query_view_roundtrip toyCodec toy_law _ _).1

/-- `query_view_roundtrip_target` is not vacuous either (law, no `#` written, a target with `//`, several `?` and a fragment) -/
example : getQueryOf toyCodec (S "http") (setQueryOf toyCodec (S "http") (S "//a/b?v=1?w#f#g") [(S "a&b", S "c=d#"), ([], [])])
    = [(S "a&b", S "c=d#"), ([], [])] :=
  (query_view_roundtrip_target toyCodec toy_law
    (by intro ps h; have := ser_big ps 35 h; omega) (S "http") (S "//a/b?v=1?w#f#g") [(S "a&b", S "c=d#"), ([], [])]
    (by decide +kernel) (by decide +kernel)).1

/-- `set_cookie_roundtrip` / `set_cookie_header_roundtrip`: `RepSc` holds for a realistic response (two cookies with attributes,
    a quoted value with `;`, a unary attribute, an `expires` date without comma) -/
example : getSetCookies (setSetCookies
    [[(S "sid", some (S "a;b c")), (S "Path", some (S "/admin")), (S "HttpOnly", none)],
     [(S "t", some []), (S "expires", some (S "01 Jan 2030 00:00:00 GMT")), (S "Max-Age", some (S "0"))]]) =
    [[(S "sid", some (S "a;b c")), (S "Path", some (S "/admin")), (S "HttpOnly", none)],
     [(S "t", some []), (S "expires", some (S "01 Jan 2030 00:00:00 GMT")), (S "Max-Age", some (S "0"))]] :=
  set_cookie_roundtrip _
    (by intro c hc; simp only [List.mem_cons, List.mem_singleton, List.not_mem_nil, or_false] at hc
        rcases hc with rfl | rfl <;> simp)
    (by intro c hc e he
        simp only [List.mem_cons, List.mem_singleton, List.not_mem_nil, or_false] at hc
        rcases hc with rfl | rfl <;>
          (simp only [List.mem_cons, List.mem_singleton, List.not_mem_nil, or_false] at he
           rcases he with rfl | rfl | rfl <;> exact ⟨by decide, by decide, by decide⟩))

/-! #### a witness for `form_view_roundtrip`: a toy urlencode that writes only the ASCII characters `x , = ;` (code points in
unary), so that it survives the byte round trip; all four hypotheses hold for ALL pair lists -/

/-- a code point in unary: `c` times `x`, then `,` -/
private def encC (c : Nat) : Str := List.replicate c 120 ++ [44]
private def encS (s : Str) : Str := s.flatMap encC
private def encP (e : Str × Str) : Str := encS e.1 ++ 61 :: (encS e.2 ++ [59])
private def enc (qs : List (Str × Str)) : Str := qs.flatMap encP

private def readNum (s : Str) : Nat × Str := ((s.takeWhile (· == 120)).length, (s.dropWhile (· == 120)).tail)

private theorem readNum_encC (c : Nat) (rest : Str) : readNum (encC c ++ rest) = (c, rest) := by
  unfold readNum encC
  induction c with
  | zero => simp
  | succ n ih =>
    simp only [List.replicate_succ, List.cons_append]
    simp only [List.takeWhile_cons, List.dropWhile_cons, beq_self_eq_true, if_true, List.length_cons]
    simp only [List.append_assoc] at ih ⊢
    rw [Prod.mk.injEq] at ih ⊢
    exact ⟨by rw [ih.1], ih.2⟩

/-- decode one string up to (and consuming) its terminator `=` or `;` -/
private def decS : Nat → Str → Str × Str
  | 0, s => ([], s)
  | _ + 1, [] => ([], [])
  | f + 1, c :: r =>
    if c = 61 ∨ c = 59 then ([], r)
    else ((readNum (c :: r)).1 :: (decS f (readNum (c :: r)).2).1, (decS f (readNum (c :: r)).2).2)

private theorem encC_head (c : Nat) (rest : Str) : ∃ h t, encC c ++ rest = h :: t ∧ h ≠ 61 ∧ h ≠ 59 := by
  cases c with
  | zero => exact ⟨44, rest, by simp [encC], by decide, by decide⟩
  | succ n => exact ⟨120, List.replicate n 120 ++ [44] ++ rest, by simp [encC, List.replicate_succ], by decide, by decide⟩

private theorem decS_encS (s : Str) (t : Nat) (ht : t = 61 ∨ t = 59) (rest : Str) :
    ∀ f, (encS s).length < f → decS f (encS s ++ t :: rest) = (s, rest) := by
  induction s with
  | nil =>
    intro f hf
    cases f with
    | zero => omega
    | succ f => simp [encS, decS, ht]
  | cons c s ih =>
    intro f hf
    cases f with
    | zero => omega
    | succ f =>
      have e : encS (c :: s) ++ t :: rest = encC c ++ (encS s ++ t :: rest) := by simp [encS]
      rw [e]
      obtain ⟨h, tl, ehd, h1, h2⟩ := encC_head c (encS s ++ t :: rest)
      rw [ehd]
      simp only [decS, h1, h2, or_self, if_false]
      rw [← ehd, readNum_encC]
      have hl : (encS s).length < f := by
        simp only [encS, List.flatMap_cons, List.length_append, encC, List.length_replicate, List.length_cons,
          List.length_nil] at hf ⊢
        omega
      rw [ih f hl]

private def parse : Nat → Str → List (Str × Str)
  | 0, _ => []
  | _ + 1, [] => []
  | f + 1, c :: r =>
    ((decS (c :: r).length (c :: r)).1, (decS (c :: r).length (decS (c :: r).length (c :: r)).2).1) ::
      parse f (decS (c :: r).length (decS (c :: r).length (c :: r)).2).2

private theorem enc_cons (k v : Str) (r : List (Str × Str)) :
    enc ((k, v) :: r) = encS k ++ 61 :: (encS v ++ 59 :: enc r) := by
  simp [enc, encP]

private theorem parse_enc (qs : List (Str × Str)) : ∀ f, (enc qs).length ≤ f → parse f (enc qs) = qs := by
  induction qs with
  | nil => intro f _; cases f <;> rfl
  | cons e r ih =>
    obtain ⟨k, v⟩ := e
    intro f hf
    rw [enc_cons] at hf ⊢
    have hne : ∃ h tl, encS k ++ 61 :: (encS v ++ 59 :: enc r) = h :: tl := by
      cases hk : encS k with
      | nil => exact ⟨61, _, rfl⟩
      | cons a b => exact ⟨a, _, rfl⟩
    obtain ⟨h, tl, ehd⟩ := hne
    cases f with
    | zero => simp at hf
    | succ f =>
      have hlen := hf
      rw [ehd] at hf ⊢
      simp only [parse]
      rw [← ehd]
      have l1 : (encS k).length < (encS k ++ 61 :: (encS v ++ 59 :: enc r)).length := by
        simp only [List.length_append, List.length_cons]; omega
      have l2 : (encS v).length < (encS k ++ 61 :: (encS v ++ 59 :: enc r)).length := by
        simp only [List.length_append, List.length_cons]; omega
      rw [decS_encS k 61 (Or.inl rfl) _ _ l1]
      simp only
      rw [decS_encS v 59 (Or.inr rfl) _ _ l2]
      simp only
      rw [ih f (by simp only [List.length_append, List.length_cons] at hlen; omega)]

private theorem enc_chars (qs : List (Str × Str)) : ∀ x ∈ enc qs, x = 120 ∨ x = 44 ∨ x = 61 ∨ x = 59 := by
  intro x hx
  simp only [enc, encP, encS, encC, List.mem_flatMap, List.mem_append, List.mem_cons, List.mem_replicate,
    List.mem_singleton, List.not_mem_nil, or_false] at hx
  obtain ⟨e, _, h⟩ := hx
  rcases h with ⟨c, _, h⟩ | rfl | ⟨c, _, h⟩ | rfl
  · rcases h with ⟨_, rfl⟩ | rfl <;> simp
  · simp
  · rcases h with ⟨_, rfl⟩ | rfl <;> simp
  · simp

private theorem splitAmp_noamp (s : Str) (h : 38 ∉ s) : splitAmp s = [s] := by
  induction s with
  | nil => rfl
  | cons c r ih =>
    have hc : c ≠ 38 := fun e => h (by simp [e])
    have := ih (fun m => h (List.mem_cons_of_mem _ m))
    simp [splitAmp, hc, this]

private theorem enc_notbare (qs : List (Str × Str)) : bareStyle (enc qs) = false := by
  cases qs with
  | nil => rfl
  | cons e r =>
    obtain ⟨k, v⟩ := e
    have hno : 38 ∉ enc ((k, v) :: r) := by
      intro m; rcases enc_chars _ 38 m with h | h | h | h <;> cases h
    have h61 : (enc ((k, v) :: r)).contains 61 = true := by
      rw [enc_cons]; simp
    have hm : 61 ∈ enc ((k, v) :: r) := by simpa using h61
    simp [bareStyle, splitAmp_noamp _ hno, hm]

private def toyForm : FormLib where
  U := { urlencode := enc, parseQsl := fun s => parse s.length s, quote := id, unquote := id }
  getText _ b := b.map (·.toNat)
  encodeAscii s := s.map UInt8.ofNat

private theorem toy_dec (qs : List (Str × Str)) :
    toyForm.getText (some formCT) (toyForm.encodeAscii (toyForm.U.urlencode qs)) = toyForm.U.urlencode qs := by
  show ((enc qs).map UInt8.ofNat).map (·.toNat) = enc qs
  rw [List.map_map]
  have : ∀ x ∈ enc qs, ((·.toNat) ∘ UInt8.ofNat) x = x := by
    intro x hx
    rcases enc_chars qs x hx with rfl | rfl | rfl | rfl <;> rfl
  rw [List.map_congr_left this, List.map_id']


private theorem toy_form_law (qs : List (Str × Str)) : toyForm.U.parseQsl (toyForm.U.urlencode qs) = qs :=
  parse_enc qs _ (Nat.le_refl _)

/-- `form_view_roundtrip` is not vacuous: on a request that carried `text/plain; charset=utf-16` and the body `a=1&b=2`, assigning
    pairs with separators and an empty value reads them back, the header becomes the bare form type, and write-back is idempotent -/
example : getForm toyForm (setForm toyForm { ct := some (S "text/plain; charset=utf-16"), body := B "a=1&b=2" }
      [(S "a&b", S "c=d"), (S "k", [])]) = [(S "a&b", S "c=d"), (S "k", [])] ∧
    (setForm toyForm { ct := some (S "text/plain; charset=utf-16"), body := B "a=1&b=2" } [(S "a&b", S "c=d"), (S "k", [])]).ct
      = some formCT :=
  have h := form_view_roundtrip toyForm { ct := some (S "text/plain; charset=utf-16"), body := B "a=1&b=2" }
    [(S "a&b", S "c=d"), (S "k", [])] toy_form_law toy_dec enc_notbare (by decide +kernel)
  ⟨h.1, h.2.1⟩

end MitmVerif.Props.C34

/-! ### the write-back clause ("writing a view's current value back leaves the message's meaning unchanged"), view by view:
    full statement as a `def`, and either a theorem or a `_counterexample` (owner round 6)

    * request cookies  : `view_writeback_idempotent` (above) — holds for ALL header values
    * query            : `QueryWritebackKeepsTarget` is false (`*`, F-C34g): `query_writeback_counterexample`; `query_writeback_partial`
    * urlencoded form  : `FormStyleLossless` is false (F-C34e): `form_writeback_counterexample`; the partial result is `form_view_roundtrip`
    * response cookies : `SetCookieWritebackIdempotent` is false (F-C34f): `set_cookie_writeback_counterexample`;
                         `set_cookie_writeback_partial`
    * path components  : `PathComponentsWritebackKeepsPath` is false (F-C34d): `path_components_writeback_counterexample`
    * multipart        : F-C34a (`MultipartRoundtrips`, `multipart_roundtrip_counterexample`); under the guards the decoded view equals the
                         assigned parts (`multipart_roundtrip`), so writing it back is the same assignment -/

namespace MitmVerif.Props.C34
open MitmVerif MitmVerif.C34

/-! #### query -/

/-- full statement: writing the query view back never turns a target into the asterisk form or out of it -/
def QueryWritebackKeepsTarget : Prop :=
  ∀ (U : UrlCodec), (∀ ps, U.parseQsl (U.urlencode ps) = ps) → ∀ (scheme p : Str),
    (setQueryOf U scheme p (getQueryOf U scheme p) = [42] ↔ p = [42])

/-- F-C34g: `request.query = request.query` on `OPTIONS *` leaves the empty target -/
theorem query_writeback_counterexample : ¬ QueryWritebackKeepsTarget := by
  intro h
  have := (h toyCodec toy_law (S "http") [42]).mpr rfl
  revert this
  decide +kernel

/-- **C34 (query write-back, partial).** For any request target whose path part is not the bare `*` and has no `;` (see
    `query_view_roundtrip_target`): writing the view's current value back leaves the view, the path, the `;params` and the fragment
    as they were. -/
theorem query_writeback_partial (U : UrlCodec) (hlaw : ∀ ps, U.parseQsl (U.urlencode ps) = ps) (hno : ∀ ps, 35 ∉ U.urlencode ps)
    (scheme p : Str) (hpath : 59 ∉ (targetParts scheme p).path)
    (hstar : unparseTarget (setQuery U (targetParts scheme p) (getQueryOf U scheme p)) ≠ [42]) :
    getQueryOf U scheme (setQueryOf U scheme p (getQueryOf U scheme p)) = getQueryOf U scheme p ∧
    targetParts scheme (setQueryOf U scheme p (getQueryOf U scheme p)) =
      { targetParts scheme p with query := U.urlencode (getQueryOf U scheme p) } :=
  ⟨(query_view_roundtrip_target U hlaw hno scheme p _ hpath hstar).1, (query_view_roundtrip_target U hlaw hno scheme p _ hpath hstar).2.1⟩

/-! #### urlencoded form -/

/-- full statement: whatever style the existing body has, what `url.encode(pairs, similar_to)` writes parses back to the pairs —
    given only urllib's law -/
def FormStyleLossless : Prop :=
  ∀ (U : UrlCodec), (∀ ps, U.parseQsl (U.urlencode ps) = ps) → ∀ (ps : List (Str × Str)) (similar : Str),
    U.parseQsl (encodeForm U ps similar) = ps

/-- a codec that satisfies the law and ends every non-empty encoding with `=` (as urlencode does for an empty last value) -/
private def eqCodec : UrlCodec where
  urlencode qs := if qs = [] then [] else ser qs ++ [61]
  parseQsl s := if s.getLast? = some 61 then de s.dropLast.length s.dropLast else []
  quote := id
  unquote := id

private theorem eqCodec_law (ps : List (Str × Str)) : eqCodec.parseQsl (eqCodec.urlencode ps) = ps := by
  by_cases h : ps = []
  · subst h; rfl
  · simp only [eqCodec, h, if_false, List.getLast?_append, List.getLast?_singleton, Option.or_some, if_true,
      List.dropLast_concat]
    exact de_ser ps _ (Nat.le_refl _)

/-- F-C34e: under the bare-parameter style the trailing `=` is cut off and the pairs are not read back -/
theorem form_writeback_counterexample : ¬ FormStyleLossless := by
  intro h
  have := h eqCodec eqCodec_law [(S "a", [])] (S "x&y=1")
  revert this
  decide +kernel

/-! #### response cookies -/

/-- full statement: writing the response cookies view back leaves the view unchanged, for any Set-Cookie header values -/
def SetCookieWritebackIdempotent : Prop :=
  ∀ hdrs : List Str, getSetCookies (setSetCookies (getSetCookies hdrs)) = getSetCookies hdrs

/-- F-C34f: `a=b; path="/x;y"` is written back as `path=/x;y` and then read as two attributes -/
theorem set_cookie_writeback_counterexample : ¬ SetCookieWritebackIdempotent := by
  intro h
  have := h [S "a=b; path=\"/x;y\""]
  revert this
  decide +kernel

/-- **C34 (response cookies write-back, partial).** If every pair the view holds is representable (`RepSc`: in particular no
    `expires`/`path` value with `;`, `,` or a leading quote), writing the view back leaves it unchanged. -/
theorem set_cookie_writeback_partial (hdrs : List Str) (h : ∀ c ∈ getSetCookies hdrs, ∀ e ∈ c, RepSc e) :
    getSetCookies (setSetCookies (getSetCookies hdrs)) = getSetCookies hdrs := by
  apply set_cookie_roundtrip _ _ h
  intro c hc
  unfold getSetCookies at hc
  have := (List.mem_filter.mp hc).2
  simpa using this

/-! #### path components -/

/-- full statement: writing the path components back leaves the path part of the target as it was -/
def PathComponentsWritebackKeepsPath : Prop :=
  ∀ (U : UrlCodec), QuoteLaw U → ∀ (scheme p : Str),
    (targetParts scheme (setPathComponents U scheme p (getPathComponents U scheme p))).path = (targetParts scheme p).path

/-- F-C34d: the trailing slash of `/<seg>/` is gone after `request.path_components = request.path_components`
    (`<seg>` is a component as the codec itself quotes it, so quoting is not what changes) -/
theorem path_components_writeback_counterexample : ¬ PathComponentsWritebackKeepsPath := by
  intro h
  have := h toyCodec toy_quote (S "http") (47 :: (toyCodec.quote (S "a") ++ [47]))
  revert this
  decide +kernel

-- the partial results are not vacuous: a target with `//`, several `?` and fragments written back through the query view,
-- and a two-cookie response written back through the cookies view
example : getQueryOf toyCodec (S "http") (setQueryOf toyCodec (S "http") (S "//a/b?v=1?w#f#g") (getQueryOf toyCodec (S "http") (S "//a/b?v=1?w#f#g")))
    = getQueryOf toyCodec (S "http") (S "//a/b?v=1?w#f#g") :=
  (query_writeback_partial toyCodec toy_law (by intro ps h; have := ser_big ps 35 h; omega) (S "http") (S "//a/b?v=1?w#f#g")
    (by decide +kernel) (by decide +kernel)).1

example : getSetCookies (setSetCookies (getSetCookies [S "sid=abc; Path=/; HttpOnly", S "a=\"x y\"; Max-Age=3, c=d"]))
    = getSetCookies [S "sid=abc; Path=/; HttpOnly", S "a=\"x y\"; Max-Age=3, c=d"] := by decide +kernel

end MitmVerif.Props.C34
