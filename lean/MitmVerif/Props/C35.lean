/-
  C35 — property theorems.
-/
import MitmVerif.Model.C35
import MitmVerif.Model.C35_Spec
import MitmVerif.Model.C35_Str
import MitmVerif.Lemmas.C35Str
import MitmVerif.Model.C35_Gen
import MitmVerif.Lemmas.C35Gen
import MitmVerif.Lemmas.C35Parse
import MitmVerif.Model.C35_View
import MitmVerif.Lemmas.C35CookieCodec
namespace MitmVerif.Props.C35
open MitmVerif MitmVerif.C35
open MitmVerif.C35.Spec (keq)

/-! ### key equivalence -/

private theorem keq_iff (a b : Bytes) : keq a b = true ↔ asciiLower a = asciiLower b := by
  simp [keq]

private theorem keq_refl (a : Bytes) : keq a a = true := by simp [keq]

private theorem keq_symm (a b : Bytes) : keq a b = keq b a := by
  simp only [keq]
  exact BEq.comm

private theorem keq_trans {a b c : Bytes} (h1 : keq a b = true) (h2 : keq b c = true) : keq a c = true := by
  rw [keq_iff] at *; exact h1.trans h2

/-- the comparison `_kconv(field[0]) == key_kconv` of the code is `keq` -/
private theorem kconv_beq (a b : Bytes) : (kconv a == kconv b) = keq a b := rfl

private theorem kconv_bne (a b : Bytes) : (kconv a != kconv b) = !keq b a := by
  rw [keq_symm]; rfl

/-! ### concrete operation = abstract operation -/

private theorem getAll_eq (fs : Fields) (k : Bytes) : C35.getAll fs k = Spec.getAll fs k := by
  induction fs with
  | nil => rfl
  | cons f fs ih =>
    simp only [C35.getAll, Spec.getAll, kconv_beq] at *
    by_cases h : keq f.1 k = true <;> simp [h, ih]

private theorem joinWith_cons (sep v : Bytes) (vs : List Bytes) :
    joinWith sep (v :: vs) = v ++ vs.flatMap (fun w => sep ++ w) := by
  induction vs generalizing v with
  | nil => simp [joinWith]
  | cons w vs ih => simp [joinWith, ih]

private theorem reduce_eq (vs : List Bytes) : reduceValues vs = Spec.fold vs := by
  cases vs with
  | nil => rfl
  | cons v vs => simp [reduceValues, Spec.fold, joinWith_cons]

private theorem getItem_eq (fs : Fields) (k : Bytes) : C35.getItem fs k = Spec.lookup fs k := by
  simp only [C35.getItem, Spec.lookup, getAll_eq, reduce_eq]
  cases Spec.getAll fs k <;> simp

private theorem getAll_nil_iff (fs : Fields) (k : Bytes) : Spec.getAll fs k = [] ↔ Spec.count fs k = 0 := by
  simp [Spec.getAll, Spec.count]

private theorem contains_eq (fs : Fields) (k : Bytes) : C35.contains fs k = (Spec.count fs k != 0) := by
  simp only [C35.contains, getItem_eq, Spec.lookup]
  have := getAll_nil_iff fs k
  cases h : Spec.getAll fs k with
  | nil => simp [this.mp h]
  | cons v vs =>
    have : Spec.count fs k ≠ 0 := fun e => by simp [this.mpr e] at h
    simp [this]

private theorem setAllLoop_eq (k : Bytes) (all : List Bytes) (fs : Fields) :
    ∀ (i : Nat) (vs : List Bytes), vs = all.drop i →
      (setAllLoop (kconv k) fs vs).1 = Spec.rewrite k all i fs ∧
      (setAllLoop (kconv k) fs vs).2 = all.drop (i + Spec.count fs k) := by
  induction fs with
  | nil => intro i vs h; simp [setAllLoop, Spec.rewrite, Spec.count, h]
  | cons f fs ih =>
    intro i vs h
    have hk : (kconv f.1 == kconv k) = keq f.1 k := rfl
    by_cases hf : keq f.1 k = true
    · have hc : Spec.count (f :: fs) k = Spec.count fs k + 1 := by simp [Spec.count, hf]
      have hget : all[i]? = vs[0]? := by rw [h, List.getElem?_drop]; simp
      have hdrop : all.drop (i + 1) = vs.drop 1 := by rw [h, List.drop_drop]
      cases vs with
      | nil =>
        have hnil : ([] : List Bytes) = all.drop (i + 1) := by rw [hdrop]; rfl
        have := ih (i + 1) [] hnil
        simp only [setAllLoop, hk, hf, if_true, Spec.rewrite, hget, hc]
        simp only [List.getElem?_nil]
        refine ⟨this.1, ?_⟩
        rw [this.2]; congr 1; omega
      | cons v vs' =>
        have hcons : vs' = all.drop (i + 1) := by rw [hdrop]; rfl
        have := ih (i + 1) vs' hcons
        simp only [setAllLoop, hk, hf, if_true, Spec.rewrite, hget, hc]
        simp only [List.getElem?_cons_zero]
        refine ⟨by rw [this.1], ?_⟩
        rw [this.2]; congr 1; omega
    · have hf' : keq f.1 k = false := by simpa using hf
      have hc : Spec.count (f :: fs) k = Spec.count fs k := by simp [Spec.count, hf']
      have := ih i vs h
      simp only [setAllLoop, hk, hf', Spec.rewrite, hc]
      simp [this.1, this.2]

private theorem setAll_eq (fs : Fields) (k : Bytes) (vs : List Bytes) : C35.setAll fs k vs = Spec.setAll fs k vs := by
  have := setAllLoop_eq k vs fs 0 vs (by simp)
  simp only [C35.setAll, Spec.setAll, this.1, this.2]
  simp

private theorem delItem_eq (fs : Fields) (k : Bytes) : C35.delItem fs k = Spec.del fs k := by
  simp only [C35.delItem, Spec.del, contains_eq, Spec.remove, kconv_bne]
  by_cases h : Spec.count fs k = 0 <;> simp [h]

private theorem pyIndex_eq (n : Nat) (i : Int) : pyIndex n i = Spec.pos n i := by
  simp only [pyIndex, Spec.pos]
  by_cases h : i < 0
  · have h0 : ¬ (0 ≤ i) := by omega
    simp only [h, h0, if_true, if_false]
    by_cases h2 : (n : Int) + i < 0 <;> simp only [h2, if_true, if_false] <;> omega
  · have h0 : 0 ≤ i := by omega
    simp only [h, h0, if_true, if_false]
    by_cases h2 : i.toNat ≤ n <;> simp only [h2, if_true, if_false] <;> omega

private theorem pos_le (n : Nat) (i : Int) : Spec.pos n i ≤ n := by
  simp only [Spec.pos]
  by_cases h0 : 0 ≤ i <;> simp only [h0, if_true, if_false] <;> omega

private theorem insertNth_eq (e : Field) (m : Fields) : ∀ p, p ≤ m.length →
    m.take p ++ e :: m.drop p = Spec.insertNth e p m := by
  induction m with
  | nil => intro p hp; cases p <;> simp [Spec.insertNth] at *
  | cons x m ih =>
    intro p hp
    cases p with
    | zero => simp [Spec.insertNth]
    | succ p => simp [Spec.insertNth, ih p (by simpa using hp)]

private theorem insert_eq (fs : Fields) (i : Int) (k v : Bytes) : C35.insert fs i k v = Spec.insertAt fs i (k, v) := by
  simp only [C35.insert, Spec.insertAt, pyIndex_eq]
  exact insertNth_eq _ _ _ (pos_le _ _)

private theorem add_eq (fs : Fields) (k v : Bytes) : C35.add fs k v = fs ++ [(k, v)] := by
  have h1 : ¬ ((fs.length : Int) < 0) := by omega
  have h2 : ((fs.length : Int)).toNat ≤ fs.length := by omega
  have : pyIndex fs.length (fs.length : Int) = fs.length := by
    simp only [pyIndex, h1, h2, if_true, if_false]; omega
  simp [C35.add, C35.insert, this]

private theorem firsts_cons (e : Field) (m : Fields) :
    Spec.firsts (e :: m) = e.1 :: Spec.firsts (m.filter (fun x => !keq x.1 e.1)) := by
  rw [Spec.firsts]

private theorem iterLoop_eq (fs : Fields) : ∀ seen : List Bytes,
    iterLoop seen fs = Spec.firsts (fs.filter (fun f => !seen.contains (kconv f.1))) := by
  induction fs with
  | nil => intro seen; simp [iterLoop, Spec.firsts]
  | cons f fs ih =>
    intro seen
    by_cases h : seen.contains (kconv f.1) = true
    · rw [List.filter_cons]
      simp only [iterLoop, h, if_true, ih, Bool.not_true, Bool.false_eq_true, if_false]
    · have h' : seen.contains (kconv f.1) = false := by simpa using h
      rw [List.filter_cons]
      simp only [iterLoop, h', ih, Bool.false_eq_true, if_false, Bool.not_false, if_true, firsts_cons,
        List.filter_filter]
      congr 2
      apply List.filter_congr
      intro x _
      have : (kconv x.1 == kconv f.1) = keq x.1 f.1 := rfl
      simp only [List.contains_cons, this]
      cases keq x.1 f.1 <;> simp

private theorem iter_eq (fs : Fields) : C35.iter fs = Spec.firsts fs := by
  have : fs.filter (fun _ => true) = fs := List.filter_eq_self.mpr (by simp)
  simp [C35.iter, iterLoop_eq, this]

private theorem len_loop (fs : Fields) : ∀ s : List Bytes,
    (fs.foldl (fun s f => setAdd s (kconv f.1)) s).length = s.length + (iterLoop s fs).length := by
  induction fs with
  | nil => intro s; simp [iterLoop]
  | cons f fs ih =>
    intro s
    by_cases h : s.contains (kconv f.1) = true
    · have hs : setAdd s (kconv f.1) = s := by simp only [setAdd, h, if_true]
      simp only [List.foldl_cons, iterLoop, h, if_true, hs]
      exact ih s
    · have h' : s.contains (kconv f.1) = false := by simpa using h
      have hs : setAdd s (kconv f.1) = kconv f.1 :: s := by simp only [setAdd, h', Bool.false_eq_true, if_false]
      simp only [List.foldl_cons, iterLoop, h', Bool.false_eq_true, if_false, hs]
      rw [ih]; simp only [List.length_cons]; omega

private theorem len_eq (fs : Fields) : C35.len fs = Spec.size fs := by
  simp [C35.len, Spec.size, len_loop, ← iter_eq, C35.iter]

private theorem join_flat (sep : Bytes) (xs : List Bytes) (h : xs ≠ []) :
    joinWith sep xs ++ sep = xs.flatMap (fun x => x ++ sep) := by
  induction xs with
  | nil => exact absurd rfl h
  | cons x xs ih =>
    cases xs with
    | nil => simp [joinWith]
    | cons y ys =>
      have := ih (by simp)
      simp only [joinWith, List.flatMap_cons, List.append_assoc] at *
      rw [this]

private theorem toBytes_eq (fs : Fields) : C35.toBytes fs = Spec.serialise fs := by
  cases fs with
  | nil => rfl
  | cons f fs =>
    simp only [C35.toBytes, Spec.serialise, List.isEmpty_cons, Bool.false_eq_true, if_false]
    rw [join_flat _ _ (by simp)]
    simp [List.flatMap_map, fieldLine]

private theorem mem_firsts (k : Bytes) : ∀ (n : Nat) (m : Fields), m.length ≤ n → k ∈ Spec.firsts m → ∃ v, (k, v) ∈ m := by
  intro n
  induction n with
  | zero => intro m hm; cases m <;> simp [Spec.firsts] at *
  | succ n ih =>
    intro m hm hk
    cases m with
    | nil => simp [Spec.firsts] at hk
    | cons e m =>
      rw [firsts_cons] at hk
      rcases List.mem_cons.mp hk with h | h
      · exact ⟨e.2, by simp [h]⟩
      · have hl : (m.filter (fun x => !keq x.1 e.1)).length ≤ n :=
          Nat.le_trans (List.length_filter_le _ _) (by simpa using hm)
        obtain ⟨v, hv⟩ := ih _ hl h
        exact ⟨v, List.mem_cons_of_mem _ (List.mem_filter.mp hv).1⟩

private theorem lookup_of_mem_firsts (m : Fields) (k : Bytes) (h : k ∈ Spec.firsts m) :
    Spec.lookup m k = some (Spec.fold (Spec.getAll m k)) := by
  obtain ⟨v, hv⟩ := mem_firsts k m.length m (Nat.le_refl _) h
  have : v ∈ Spec.getAll m k := by
    simp only [Spec.getAll, List.mem_map, List.mem_filter]
    exact ⟨(k, v), ⟨hv, keq_refl k⟩, rfl⟩
  simp only [Spec.lookup]
  cases hg : Spec.getAll m k with
  | nil => simp [hg] at this
  | cons a as => rfl

private theorem filterMap_total {α β : Type} (f : α → Option β) (g : α → β) (l : List α)
    (h : ∀ a ∈ l, f a = some (g a)) : l.filterMap f = l.map g := by
  induction l with
  | nil => rfl
  | cons a l ih =>
    have ha := h a (by simp)
    have := ih (fun b hb => h b (by simp [hb]))
    simp [ha, this]

private theorem items_eq (fs : Fields) : C35.items fs = Spec.items fs := by
  simp only [C35.items, Spec.items, iter_eq]
  apply filterMap_total
  intro k hk
  simp [getItem_eq, lookup_of_mem_firsts fs k hk]

private theorem pop_eq (fs : Fields) (k : Bytes) :
    C35.pop fs k = (match Spec.lookup fs k with | some v => some (Spec.remove fs k, v) | none => none) := by
  simp only [C35.pop, getItem_eq, delItem_eq, Spec.del]
  cases h : Spec.lookup fs k with
  | none => rfl
  | some v =>
    have : Spec.count fs k ≠ 0 := by
      intro e
      have := (getAll_nil_iff fs k).mpr e
      simp [Spec.lookup, this] at h
    simp [this]

private theorem popitem_eq (fs : Fields) : C35.popitem fs = Spec.popFirst fs := by
  cases fs with
  | nil => simp [C35.popitem, iter_eq, Spec.firsts, Spec.popFirst]
  | cons e m =>
    have hl := lookup_of_mem_firsts (e :: m) e.1 (by rw [firsts_cons]; simp)
    have hc : Spec.count (e :: m) e.1 ≠ 0 := by simp [Spec.count, keq_refl]
    simp only [C35.popitem, iter_eq, firsts_cons, getItem_eq, hl, delItem_eq, Spec.del, hc, if_false, Spec.popFirst]

private theorem setdefault_eq (fs : Fields) (k d : Bytes) :
    C35.setdefault fs k d = (match Spec.lookup fs k with | some v => (fs, v) | none => (Spec.setAll fs k [d], d)) := by
  simp only [C35.setdefault, getItem_eq, C35.setItem, setAll_eq]
  cases Spec.lookup fs k <;> rfl

private theorem remove_length_lt (e : Field) (m : Fields) : (Spec.remove (e :: m) e.1).length < (e :: m).length := by
  simp only [Spec.remove, List.filter_cons, keq_refl, Bool.not_true, Bool.false_eq_true, if_false, List.length_cons]
  exact Nat.lt_succ_of_le (List.length_filter_le _ _)

private theorem clearF_nil : ∀ (n : Nat) (fs : Fields), fs.length < n → clearF n fs = [] := by
  intro n
  induction n with
  | zero => intro fs h; omega
  | succ n ih =>
    intro fs h
    cases fs with
    | nil => simp [clearF, popitem_eq, Spec.popFirst]
    | cons e m =>
      simp only [clearF, popitem_eq, Spec.popFirst]
      apply ih
      have := remove_length_lt e m
      omega

private theorem update_eq (ps : Fields) : ∀ fs : Fields,
    C35.update fs ps = ps.foldl (fun s p => Spec.setAll s p.1 [p.2]) fs := by
  induction ps with
  | nil => intro fs; rfl
  | cons p ps ih =>
    intro fs
    simp only [C35.update, List.foldl_cons, C35.setItem, setAll_eq] at *

private theorem copy_id (fs : Fields) : C35.copy fs = fs := by
  induction fs with
  | nil => rfl
  | cons f fs ih => simp [copy]

private theorem apply_eq (st : Store) (fs : Fields) (op : Op) : C35.apply st fs op = Spec.apply st fs op := by
  cases op with
  | getItem t k => simp only [C35.apply, Spec.apply, getItem_eq]; rfl
  | get t k => simp only [C35.apply, Spec.apply, getItem_eq]
  | getAll t k => simp only [C35.apply, Spec.apply, getAll_eq]
  | contains t k => simp only [C35.apply, Spec.apply, contains_eq]
  | setItem t k v => simp only [C35.apply, Spec.apply, C35.setItem, setAll_eq]
  | setAll t k vs => simp only [C35.apply, Spec.apply, setAll_eq]
  | delItem t k => simp only [C35.apply, Spec.apply, delItem_eq]; rfl
  | add t k v => simp only [C35.apply, Spec.apply, add_eq]
  | insert t i k v => simp only [C35.apply, Spec.apply, insert_eq]
  | iter t => simp only [C35.apply, Spec.apply, iter_eq]
  | len t => simp only [C35.apply, Spec.apply, len_eq]
  | eq t u =>
    simp only [C35.apply, Spec.apply, C35.eq]
    cases st[u]? with
    | none => rfl
    | some g => by_cases h : fs = g <;> simp [h]
  | copy t => simp only [C35.apply, Spec.apply, copy_id]
  | itemsMulti t => simp only [C35.apply, Spec.apply, itemsMulti]
  | items t => simp only [C35.apply, Spec.apply, items_eq]
  | keys t m => cases m <;> simp [C35.apply, Spec.apply, C35.keys, items_eq, itemsMulti, Spec.items, Function.comp_def]
  | values t m => cases m <;> simp [C35.apply, Spec.apply, C35.values, items_eq, itemsMulti, Spec.items, Function.comp_def]
  | pop t k =>
    simp only [C35.apply, Spec.apply, pop_eq]
    cases Spec.lookup fs k <;> rfl
  | popitem t => simp only [C35.apply, Spec.apply, popitem_eq]; rfl
  | setdefault t k d =>
    simp only [C35.apply, Spec.apply, setdefault_eq]
    cases Spec.lookup fs k <;> rfl
  | clear t => simp only [C35.apply, Spec.apply, C35.clear, clearF_nil _ _ (Nat.lt_succ_self _)]
  | update t ps => simp only [C35.apply, Spec.apply, update_eq]
  | toBytes t => simp only [C35.apply, Spec.apply, toBytes_eq]

private theorem step_eq (st : Store) (op : Op) : C35.step st op = Spec.step st op := by
  simp only [C35.step, Spec.step, apply_eq]; rfl

/-- **Refinement.** Every operation sequence, run on any store of header objects, produces the same return values
    and the same `fields` of every object after every step as the abstract case-insensitive ordered multimap. -/
theorem run_refines (ops : List Op) : ∀ st : Store, C35.run st ops = Spec.run st ops := by
  induction ops with
  | nil => intro st; rfl
  | cons op ops ih => intro st; simp only [C35.run, Spec.run, step_eq, ih]


example : keq [0x53, 0x65, 0x74] [0x73, 0x45, 0x54] = true := by decide
example : (C35.run [[([0x61], [0x31]), ([0x41], [0x32])]] [.getItem 0 [0x41], .delItem 0 [0x61], .len 0]).map (·.1)
    = [.val [0x31, 0x2c, 0x20, 0x32], .none, .nat 0] := by decide

/-! ### the multimap laws, stated on the model of the code -/

private theorem getAll_keq (m : Fields) {k k' : Bytes} (h : keq k' k = true) : Spec.getAll m k' = Spec.getAll m k := by
  have : asciiLower k' = asciiLower k := (keq_iff _ _).mp h
  simp only [Spec.getAll, keq, this]

private theorem getAll_append (a b : Fields) (k : Bytes) : Spec.getAll (a ++ b) k = Spec.getAll a k ++ Spec.getAll b k := by
  simp [Spec.getAll]

private theorem getAll_fresh (k : Bytes) (vs : List Bytes) : Spec.getAll (vs.map (fun v => (k, v))) k = vs := by
  induction vs with
  | nil => rfl
  | cons v vs ih => simp only [Spec.getAll] at *; simp [keq_refl, ih]

private theorem loop_getAll (k : Bytes) (fs : Fields) : ∀ vs : List Bytes,
    Spec.getAll (setAllLoop (kconv k) fs vs).1 k ++ (setAllLoop (kconv k) fs vs).2 = vs := by
  induction fs with
  | nil => intro vs; simp [setAllLoop, Spec.getAll]
  | cons f fs ih =>
    intro vs
    have hk : (kconv f.1 == kconv k) = keq f.1 k := rfl
    by_cases hf : keq f.1 k = true
    · cases vs with
      | nil => simp only [setAllLoop, hk, hf, if_true]; exact ih []
      | cons v vs' =>
        have := ih vs'
        simp only [setAllLoop, hk, hf, if_true]
        simp only [Spec.getAll] at *
        simp [hf, this]
    · have hf' : keq f.1 k = false := by simpa using hf
      have := ih vs
      simp only [setAllLoop, hk, hf']
      simp only [Spec.getAll] at *
      simp [hf', this]

/-- after `set_all(k, vs)`, `get_all` under any spelling of `k` returns exactly `vs` -/
theorem getAll_setAll (fs : Fields) (k k' : Bytes) (vs : List Bytes) (h : keq k' k = true) :
    C35.getAll (C35.setAll fs k vs) k' = vs := by
  rw [getAll_eq, getAll_keq _ h]
  simp only [C35.setAll, getAll_append, getAll_fresh]
  exact loop_getAll k fs vs

example : C35.getAll (C35.setAll [([0x61], [0x31]), ([0x62], [0x32]), ([0x41], [0x33])] [0x41] [[0x37], [0x38], [0x39]]) [0x61]
    = [[0x37], [0x38], [0x39]] := by decide

private theorem loop_untouched (k : Bytes) (fs : Fields) : ∀ vs : List Bytes,
    (setAllLoop (kconv k) fs vs).1.filter (fun f => !keq f.1 k) = fs.filter (fun f => !keq f.1 k) := by
  induction fs with
  | nil => intro vs; simp [setAllLoop]
  | cons f fs ih =>
    intro vs
    have hk : (kconv f.1 == kconv k) = keq f.1 k := rfl
    by_cases hf : keq f.1 k = true
    · cases vs with
      | nil => simp only [setAllLoop, hk, hf, if_true]; rw [ih]; simp [hf]
      | cons v vs' => simp only [setAllLoop, hk, hf, if_true]; simp [hf, ih]
    · have hf' : keq f.1 k = false := by simpa using hf
      simp only [setAllLoop, hk, hf']
      simp [hf', ih]

/-- `set_all(k, vs)` (hence `h[k] = v`) leaves the fields of every other name untouched: same spelling, same value,
    same relative order -/
theorem untouched_order_and_spelling (fs : Fields) (k : Bytes) (vs : List Bytes) :
    (C35.setAll fs k vs).filter (fun f => !keq f.1 k) = fs.filter (fun f => !keq f.1 k) := by
  simp only [C35.setAll, List.filter_append, loop_untouched]
  have : ((setAllLoop (kconv k) fs vs).2.map (fun v => (k, v))).filter (fun f => !keq f.1 k) = [] := by
    simp [List.filter_eq_nil_iff, keq_refl]
  simp [this]

private theorem getAll_remove_other (m : Fields) {k k' : Bytes} (h : keq k' k = false) :
    Spec.getAll (m.filter (fun f => !keq f.1 k)) k' = Spec.getAll m k' := by
  simp only [Spec.getAll, List.filter_filter]
  congr 1
  apply List.filter_congr
  intro x _
  cases h1 : keq x.1 k' with
  | false => simp
  | true =>
    cases h2 : keq x.1 k with
    | false => simp
    | true =>
      have : keq k' k = true := keq_trans (by rw [keq_symm]; exact h1) h2
      rw [h] at this; cases this

/-- `set_all(k, …)` does not change what any other name maps to -/
theorem getAll_setAll_other (fs : Fields) (k k' : Bytes) (vs : List Bytes) (h : keq k' k = false) :
    C35.getAll (C35.setAll fs k vs) k' = C35.getAll fs k' := by
  rw [getAll_eq, getAll_eq, ← getAll_remove_other _ h, untouched_order_and_spelling, getAll_remove_other _ h]

example : keq [0x62] [0x41] = false := by decide

/-- `h[k] = v; h[k']` returns `v` for every spelling `k'` of `k` -/
theorem getItem_setItem (fs : Fields) (k k' v : Bytes) (h : keq k' k = true) :
    C35.getItem (C35.setItem fs k v) k' = some v := by
  simp [C35.getItem, C35.setItem, getAll_setAll fs k k' [v] h, reduceValues, joinWith]

/-- `del h[k]`: KeyError exactly when no field is named `k`; otherwise the result is the old field list with all
    fields named `k` (and only those) removed -/
theorem del_removes_all_only (fs : Fields) (k : Bytes) :
    (C35.delItem fs k = none ↔ C35.getAll fs k = []) ∧
    (∀ fs', C35.delItem fs k = some fs' →
        fs' = fs.filter (fun f => !keq f.1 k) ∧ C35.getAll fs' k = [] ∧
        ∀ k', keq k' k = false → C35.getAll fs' k' = C35.getAll fs k') := by
  constructor
  · rw [delItem_eq, getAll_eq, getAll_nil_iff, Spec.del]
    by_cases h : Spec.count fs k = 0 <;> simp [h]
  · intro fs' h
    rw [delItem_eq, Spec.del] at h
    by_cases hc : Spec.count fs k = 0
    · simp [hc] at h
    · simp only [hc, if_false, Option.some.injEq, Spec.remove] at h
      subst h
      refine ⟨rfl, ?_, ?_⟩
      · rw [getAll_eq]; simp [Spec.getAll, List.filter_filter]
      · intro k' hk'; rw [getAll_eq, getAll_eq, getAll_remove_other _ hk']

example : C35.delItem [([0x61], [0x31]), ([0x62], [0x32]), ([0x41], [0x33])] [0x41] = some [([0x62], [0x32])] := by decide
example : C35.delItem [([0x62], [0x32])] [0x41] = none := by decide

private theorem take_ins_drop (e : Field) (m : Fields) : ∀ p, p ≤ m.length →
    (m.take p ++ e :: m.drop p)[p]? = some e ∧ (m.take p ++ e :: m.drop p).eraseIdx p = m := by
  induction m with
  | nil => intro p hp; have : p = 0 := by simpa using hp
           subst this; simp
  | cons x m ih =>
    intro p hp
    cases p with
    | zero => simp
    | succ p =>
      have := ih p (by simpa using hp)
      simp [this.1, this.2]

/-- `insert(i, k, v)` places exactly the new field at the position Python's slicing gives to `i`
    and keeps every other field in place -/
theorem insert_at (fs : Fields) (i : Int) (k v : Bytes) :
    pyIndex fs.length i ≤ fs.length ∧
    (C35.insert fs i k v)[pyIndex fs.length i]? = some (k, v) ∧
    (C35.insert fs i k v).eraseIdx (pyIndex fs.length i) = fs ∧
    (0 ≤ i → i ≤ fs.length → (pyIndex fs.length i : Int) = i) ∧
    (i < 0 → -(fs.length : Int) ≤ i → (pyIndex fs.length i : Int) = fs.length + i) := by
  have hle : pyIndex fs.length i ≤ fs.length := by rw [pyIndex_eq]; exact pos_le _ _
  have := take_ins_drop (k, v) fs _ hle
  refine ⟨hle, this.1, this.2, ?_, ?_⟩
  · intro h0 h1
    have hn : ¬ i < 0 := by omega
    have h2 : i.toNat ≤ fs.length := by omega
    simp only [pyIndex, hn, h2, if_true, if_false]; omega
  · intro h0 h1
    have h2 : ¬ ((fs.length : Int) + i < 0) := by omega
    simp only [pyIndex, h0, h2, if_true, if_false]; omega

/-- `add(k, v)` appends -/
theorem add_at_end (fs : Fields) (k v : Bytes) : C35.add fs k v = fs ++ [(k, v)] := add_eq fs k v

/-- `insert`/`add` of a field named `k` leaves all fields of other names untouched -/
theorem untouched_order_and_spelling_insert (fs : Fields) (i : Int) (k v : Bytes) :
    (C35.insert fs i k v).filter (fun f => !keq f.1 k) = fs.filter (fun f => !keq f.1 k) := by
  simp only [C35.insert, List.filter_append, List.filter_cons, keq_refl, Bool.not_true, Bool.false_eq_true, if_false]
  rw [← List.filter_append, List.take_append_drop]

example : C35.insert [([0x61], [0x31]), ([0x62], [0x32])] (-1) [0x63] [0x33] = [([0x61], [0x31]), ([0x63], [0x33]), ([0x62], [0x32])] := by
  decide

/-! ### iteration and length -/

private theorem firsts_induction (P : Fields → Prop) (hnil : P [])
    (hcons : ∀ e m, P (m.filter (fun x => !keq x.1 e.1)) → P (e :: m)) : ∀ m, P m := by
  have : ∀ (n : Nat) (m : Fields), m.length ≤ n → P m := by
    intro n
    induction n with
    | zero => intro m hm; cases m with
      | nil => exact hnil
      | cons e m => simp at hm
    | succ n ih =>
      intro m hm
      cases m with
      | nil => exact hnil
      | cons e m =>
        apply hcons
        apply ih
        exact Nat.le_trans (List.length_filter_le _ _) (by simpa using hm)
  intro m; exact this m.length m (Nat.le_refl _)

private theorem mem_firsts' (m : Fields) (k : Bytes) (h : k ∈ Spec.firsts m) : ∃ v, (k, v) ∈ m :=
  mem_firsts k m.length m (Nat.le_refl _) h

private theorem firsts_nodup (m : Fields) : ((Spec.firsts m).map asciiLower).Nodup := by
  induction m using firsts_induction with
  | hnil => simp [Spec.firsts]
  | hcons e m ih =>
    rw [firsts_cons, List.map_cons, List.nodup_cons]
    refine ⟨?_, ih⟩
    intro hmem
    obtain ⟨k, hk, hkk⟩ := List.mem_map.mp hmem
    obtain ⟨v, hv⟩ := mem_firsts' _ k hk
    have := (List.mem_filter.mp hv).2
    have hkeq : keq k e.1 = true := (keq_iff _ _).mpr hkk
    simp [hkeq] at this

private theorem firsts_cover (m : Fields) : ∀ f ∈ m, asciiLower f.1 ∈ (Spec.firsts m).map asciiLower := by
  induction m using firsts_induction with
  | hnil => intro f hf; cases hf
  | hcons e m ih =>
    intro f hf
    rw [firsts_cons, List.map_cons]
    by_cases hk : keq f.1 e.1 = true
    · rw [(keq_iff _ _).mp hk]; exact List.mem_cons_self
    · rcases List.mem_cons.mp hf with h | h
      · subst h; exact absurd (keq_refl _) hk
      · apply List.mem_cons_of_mem
        apply ih
        exact List.mem_filter.mpr ⟨h, by simpa using hk⟩

/-- `len(h)` is the number of distinct names modulo case: it equals the number of keys yielded by iteration,
    those keys are pairwise different modulo case, every field's name is among them modulo case,
    and every yielded key is the name of some field -/
theorem len_eq_distinct (fs : Fields) :
    C35.len fs = (C35.iter fs).length ∧
    ((C35.iter fs).map asciiLower).Nodup ∧
    (∀ f ∈ fs, asciiLower f.1 ∈ (C35.iter fs).map asciiLower) ∧
    (∀ k ∈ C35.iter fs, ∃ v, (k, v) ∈ fs) := by
  rw [len_eq, iter_eq]
  exact ⟨rfl, firsts_nodup fs, firsts_cover fs, fun k hk => mem_firsts' fs k hk⟩

example : C35.len [([0x61], [0x31]), ([0x62], [0x32]), ([0x41], [0x33])] = 2 := by decide

private theorem firsts_find (m : Fields) : ∀ k ∈ Spec.firsts m, (m.find? (fun f => keq f.1 k)).map (·.1) = some k := by
  induction m using firsts_induction with
  | hnil => intro k hk; simp [Spec.firsts] at hk
  | hcons e m ih =>
    intro k hk
    rw [firsts_cons] at hk
    rcases List.mem_cons.mp hk with h | h
    · subst h; simp [keq_refl]
    · have hih := ih k h
      obtain ⟨v, hv⟩ := mem_firsts' _ k h
      have hne : keq k e.1 = false := by simpa using (List.mem_filter.mp hv).2
      have hne' : keq e.1 k = false := by rw [keq_symm]; exact hne
      rw [List.find?_cons]
      simp only [hne']
      rw [List.find?_filter] at hih
      have hp : (fun a : Field => decide ((!keq a.1 e.1) = true ∧ keq a.1 k = true)) = (fun f : Field => keq f.1 k) := by
        funext x
        cases h1 : keq x.1 k with
        | false => simp
        | true =>
          cases h2 : keq x.1 e.1 with
          | false => simp
          | true =>
            have : keq k e.1 = true := keq_trans (by rw [keq_symm]; exact h1) h2
            rw [hne] at this; cases this
      rw [hp] at hih
      exact hih

private theorem firsts_sublist (m : Fields) : List.Sublist (Spec.firsts m) (m.map (·.1)) := by
  induction m using firsts_induction with
  | hnil => simp [Spec.firsts]
  | hcons e m ih =>
    rw [firsts_cons, List.map_cons]
    exact List.Sublist.cons_cons _ (ih.trans ((List.filter_sublist).map _))

/-- iteration yields, for every distinct name, the spelling of its FIRST field, in field order -/
theorem iter_first_occurrence_spelling (fs : Fields) :
    (∀ k ∈ C35.iter fs, (fs.find? (fun f => keq f.1 k)).map (·.1) = some k) ∧
    List.Sublist (C35.iter fs) (fs.map (·.1)) := by
  rw [iter_eq]; exact ⟨firsts_find fs, firsts_sublist fs⟩

example : C35.iter [([0x61], [0x31]), ([0x62], [0x32]), ([0x41], [0x33])] = [[0x61], [0x62]] := by decide

/-- `items()` never hits the KeyError branch of `self[key]`: one pair per iterated key -/
theorem items_total (fs : Fields) : C35.items fs = (C35.iter fs).map (fun k => (k, reduceValues (C35.getAll fs k))) := by
  rw [items_eq, iter_eq]; simp [Spec.items, getAll_eq, reduce_eq]

/-- `clear()` terminates with an empty collection (the bound on `popitem` rounds in the model is never reached) -/
theorem clear_empties (fs : Fields) : C35.clear fs = [] := clearF_nil _ _ (Nat.lt_succ_self _)

/-- `__eq__` is equality of the field lists (spelling included) -/
theorem eq_iff (a b : Fields) : C35.eq a b = true ↔ a = b := by simp [C35.eq]

/-! ### copies and aliasing -/

/-- `copy()` creates a new object with equal fields and leaves every existing object as it was -/
theorem copy_creates_equal_object (st : Store) (t : Nat) (fs : Fields) (h : st[t]? = some fs) :
    C35.step st (.copy t) = (st ++ [fs], .obj st.length) := by
  have hset : st.set t fs = st := by
    apply List.ext_getElem?
    intro i
    by_cases hi : t = i
    · subst hi
      by_cases hl : t < st.length
      · simp [List.getElem?_set_self hl, h]
      · simp [List.getElem?_eq_none (Nat.le_of_not_lt hl)] at h
    · simp [List.getElem?_set_ne hi]
  simp [C35.step, Op.target, h, C35.apply, copy_id, hset]

private theorem step_length (st : Store) (op : Op) : st.length ≤ (C35.step st op).1.length := by
  simp only [C35.step]
  cases st[op.target]? with
  | none => simp
  | some fs =>
    simp only
    cases (C35.apply st fs op).2.2 <;> simp

private theorem step_frame (st : Store) (op : Op) (j : Nat) (hj : op.target ≠ j) (hlt : j < st.length) :
    (C35.step st op).1[j]? = st[j]? := by
  simp only [C35.step]
  cases st[op.target]? with
  | none => rfl
  | some fs =>
    simp only
    cases (C35.apply st fs op).2.2 with
    | none => simp [List.getElem?_set_ne hj]
    | some o =>
      simp only
      rw [List.getElem?_append_left (by simpa using hlt)]
      simp [List.getElem?_set_ne hj]

/-- operations on other objects (in particular on a copy, or on the original after copying) never change object `j`:
    its fields are the same in every store of the trace -/
theorem copy_independent (ops : List Op) : ∀ (st : Store) (j : Nat), j < st.length →
    (∀ op ∈ ops, op.target ≠ j) → ∀ r ∈ C35.run st ops, r.2[j]? = st[j]? := by
  induction ops with
  | nil => intro st j _ _ r hr; simp [C35.run] at hr
  | cons op ops ih =>
    intro st j hlt hall r hr
    have hop : op.target ≠ j := hall op (by simp)
    have hf := step_frame st op j hop hlt
    simp only [C35.run, List.mem_cons] at hr
    rcases hr with h | h
    · subst h; exact hf
    · have := ih (C35.step st op).1 j (Nat.lt_of_lt_of_le hlt (step_length st op))
        (fun o ho => hall o (by simp [ho])) r h
      rw [this, hf]

example : ((C35.run [[([0x61], [0x31])]] [.copy 0, .setItem 1 [0x41] [0x39], .delItem 0 [0x61]]).map (·.2))
    = [[[([0x61], [0x31])], [([0x61], [0x31])]], [[([0x61], [0x31])], [([0x61], [0x39])]], [[], [([0x61], [0x39])]]] := by decide


/-! ### HTTP/1 serialisation round trip -/

open MitmVerif.C35.Spec (okName okValue RoundTrippable ValidFields validName validValue headOk lastOk spht tchar fieldByte)

private theorem splitLF_line (l rest : Bytes) (h : ∀ c ∈ l, c ≠ 0x0a) :
    splitLF (l ++ 0x0a :: rest) = l :: splitLF rest := by
  induction l with
  | nil => simp [splitLF]
  | cons c l ih =>
    have hc : c ≠ 0x0a := h c (by simp)
    have := ih (fun d hd => h d (by simp [hd]))
    simp [splitLF, hc, this]

private theorem splitLF_block (ls : List Bytes) (h : ∀ l ∈ ls, ∀ c ∈ l, c ≠ 0x0a) :
    splitLF (ls.flatMap (fun l => l ++ crlf)) = ls.map (fun l => l ++ [0x0d]) ++ [[]] := by
  induction ls with
  | nil => simp [splitLF]
  | cons l ls ih =>
    have hl : ∀ c ∈ l ++ [0x0d], c ≠ 0x0a := by
      intro c hc
      rcases List.mem_append.mp hc with h1 | h1
      · exact h l (by simp) c h1
      · have : c = 0x0d := by simpa using h1
        subst this; decide
    have e : (l :: ls).flatMap (fun l => l ++ crlf) = (l ++ [0x0d]) ++ 0x0a :: ls.flatMap (fun l => l ++ crlf) := by
      simp [crlf]
    rw [e, splitLF_line _ _ hl, ih (fun l' hl' => h l' (by simp [hl']))]
    simp

private theorem stripCR_snoc (l : Bytes) : stripCR (l ++ [0x0d]) = l := by
  simp [stripCR]

private theorem splitLines_block (ls : List Bytes) (h : ∀ l ∈ ls, ∀ c ∈ l, c ≠ 0x0a) :
    splitLines (ls.flatMap (fun l => l ++ crlf)) = ls := by
  rw [splitLines, splitLF_block ls h, List.dropLast_concat, List.map_map]
  have : (stripCR ∘ fun l => l ++ [0x0d]) = id := by funext l; simp [stripCR_snoc]
  rw [this, List.map_id]

private theorem splitColon_name (n rest : Bytes) (h : ∀ c ∈ n, c ≠ 0x3a) :
    splitColon (n ++ 0x3a :: rest) = some (n, rest) := by
  induction n with
  | nil => simp [splitColon]
  | cons c n ih =>
    have hc : c ≠ 0x3a := h c (by simp)
    have := ih (fun d hd => h d (by simp [hd]))
    simp [splitColon, hc, this]

private theorem strip_value (v : Bytes) (h1 : headOk pyWs v = true) (h2 : lastOk pyWs v = true) :
    strip (0x20 :: v) = v := by
  have hsp : pyWs 0x20 = true := by decide
  cases v with
  | nil => simp [strip, hsp]
  | cons c v =>
    have hc : pyWs c = false := by simpa [headOk] using h1
    have hrev : ((c :: v).reverse).dropWhile pyWs = (c :: v).reverse := by
      cases hr : (c :: v).reverse with
      | nil => simp at hr
      | cons d r =>
        have hlast : (c :: v).getLast? = some d := by
          rw [List.getLast?_eq_head?_reverse, hr]; rfl
        have hd : pyWs d = false := by simpa [lastOk, hlast] using h2
        simp [hd]
    simp only [strip, List.dropWhile_cons, hsp, if_true, hc, Bool.false_eq_true, if_false, hrev, List.reverse_reverse]

private theorem okName_facts (n : Bytes) (h : okName n = true) :
    (∃ c n', n = c :: n' ∧ (c = 0x20 || c = 0x09) = false) ∧ (∀ c ∈ n, c ≠ 0x3a) ∧ (∀ c ∈ n, c ≠ 0x0a) := by
  simp only [okName, Bool.and_eq_true, List.all_eq_true] at h
  obtain ⟨⟨h1, h2⟩, h3⟩ := h
  refine ⟨?_, fun c hc => by have := h2 c hc; simp at this; exact this.1,
          fun c hc => by have := h2 c hc; simp at this; exact this.2⟩
  cases n with
  | nil => simp at h1
  | cons c n' =>
    refine ⟨c, n', rfl, ?_⟩
    simpa [headOk, spht] using h3

private theorem okValue_facts (v : Bytes) (h : okValue v = true) :
    (∀ c ∈ v, c ≠ 0x0a) ∧ headOk pyWs v = true ∧ lastOk pyWs v = true := by
  simp only [okValue, Bool.and_eq_true, List.all_eq_true] at h
  obtain ⟨⟨h1, h2⟩, h3⟩ := h
  exact ⟨fun c hc => by have := h1 c hc; simpa using this, h2, h3⟩

private theorem readLoop_fields (fs : Fields) (h : RoundTrippable fs) : ∀ acc : Fields,
    readLoop acc (fs.map fieldLine) = .ok (acc.reverse ++ fs) := by
  induction fs with
  | nil => intro acc; simp [readLoop]
  | cons f fs ih =>
    intro acc
    obtain ⟨hn, hv⟩ := h f (by simp)
    obtain ⟨⟨c, n', hnc, hc⟩, hcolon, _⟩ := okName_facts _ hn
    obtain ⟨_, hh, hl⟩ := okValue_facts _ hv
    have hline : fieldLine f = c :: (n' ++ 0x3a :: 0x20 :: f.2) := by
      simp [fieldLine, colonSp, hnc]
    have hsplit : splitColon (c :: (n' ++ 0x3a :: 0x20 :: f.2)) = some (f.1, 0x20 :: f.2) := by
      have := splitColon_name f.1 (0x20 :: f.2) hcolon
      rw [hnc] at this ⊢
      simpa using this
    have hne : f.1.isEmpty = false := by rw [hnc]; rfl
    have ih' := ih (fun g hg => h g (by simp [hg])) ((f.1, f.2) :: acc)
    rw [List.map_cons, hline]
    simp only [readLoop, hc, Bool.false_eq_true, if_false, hsplit, hne, strip_value _ hh hl]
    rw [ih']
    simp

private theorem fieldLine_noLF (f : Field) (hn : okName f.1 = true) (hv : okValue f.2 = true) :
    ∀ c ∈ fieldLine f, c ≠ 0x0a := by
  obtain ⟨_, _, h1⟩ := okName_facts _ hn
  obtain ⟨h2, _, _⟩ := okValue_facts _ hv
  intro c hc
  simp only [fieldLine, colonSp, List.mem_append, List.mem_cons, List.not_mem_nil, or_false] at hc
  rcases hc with (hc | hc | hc) | hc
  · exact h1 c hc
  · subst hc; decide
  · subst hc; decide
  · exact h2 c hc

/-- **Round trip (general form).** For every field list whose names are non-empty, contain neither `:` nor LF and
    do not start with SP/HTAB, and whose values contain no LF and have no leading/trailing whitespace,
    `_read_headers(lines(bytes(Headers(fs))))` returns exactly `fs`. -/
theorem http1_roundtrip_general (fs : Fields) (h : RoundTrippable fs) :
    readHeaders (splitLines (C35.toBytes fs)) = .ok fs := by
  have hb : C35.toBytes fs = (fs.map fieldLine).flatMap (fun l => l ++ crlf) := by
    rw [toBytes_eq]; simp [Spec.serialise, List.flatMap_map, fieldLine]
  have hlines : ∀ l ∈ fs.map fieldLine, ∀ c ∈ l, c ≠ 0x0a := by
    intro l hl
    obtain ⟨f, hf, rfl⟩ := List.mem_map.mp hl
    exact fieldLine_noLF f (h f hf).1 (h f hf).2
  rw [hb, splitLines_block _ hlines, readHeaders, readLoop_fields fs h]
  simp

private theorem tchar_fin : ∀ n : Fin 256, tchar (UInt8.ofNat n.val) = true →
    (UInt8.ofNat n.val != 0x3a && UInt8.ofNat n.val != 0x0a) = true ∧ spht (UInt8.ofNat n.val) = false := by
  decide +kernel

private theorem tchar_facts (c : UInt8) (h : tchar c = true) : (c != 0x3a && c != 0x0a) = true ∧ spht c = false := by
  have := tchar_fin ⟨c.toNat, UInt8.toNat_lt c⟩
  simp only [UInt8.ofNat_toNat] at this
  exact this h

private theorem fieldByte_fin : ∀ n : Fin 256, fieldByte (UInt8.ofNat n.val) = true →
    (UInt8.ofNat n.val != 0x0a) = true ∧ (spht (UInt8.ofNat n.val) = false → pyWs (UInt8.ofNat n.val) = false) := by
  decide +kernel

private theorem fieldByte_facts (c : UInt8) (h : fieldByte c = true) :
    (c != 0x0a) = true ∧ (spht c = false → pyWs c = false) := by
  have := fieldByte_fin ⟨c.toNat, UInt8.toNat_lt c⟩
  simp only [UInt8.ofNat_toNat] at this
  exact this h

private theorem head?_mem {l : Bytes} {c : UInt8} (h : l.head? = some c) : c ∈ l := by
  cases l with
  | nil => simp at h
  | cons a l => simp at h; simp [h]

private theorem getLast?_mem {l : Bytes} {c : UInt8} (h : l.getLast? = some c) : c ∈ l := by
  obtain ⟨ys, rfl⟩ := List.getLast?_eq_some_iff.mp h
  simp

/-- RFC-valid fields (token names; VCHAR/obs-text/SP/HTAB values without leading/trailing SP/HTAB) satisfy the
    hypotheses of the general round-trip theorem -/
theorem validFields_roundTrippable (fs : Fields) (h : ValidFields fs) : RoundTrippable fs := by
  intro f hf
  obtain ⟨hn, hv⟩ := h f hf
  simp only [validName, Bool.and_eq_true, List.all_eq_true] at hn
  simp only [validValue, Bool.and_eq_true, List.all_eq_true] at hv
  obtain ⟨hne, htc⟩ := hn
  obtain ⟨⟨hfb, hho⟩, hlo⟩ := hv
  constructor
  · simp only [okName, Bool.and_eq_true, List.all_eq_true]
    refine ⟨⟨hne, fun c hc => by have := (tchar_facts c (htc c hc)).1; simpa using this⟩, ?_⟩
    simp only [headOk]
    cases hh : f.1.head? with
    | none => rfl
    | some c => simp [(tchar_facts c (htc c (head?_mem hh))).2]
  · simp only [okValue, Bool.and_eq_true, List.all_eq_true]
    refine ⟨⟨fun c hc => by have := (fieldByte_facts c (hfb c hc)).1; simpa using this, ?_⟩, ?_⟩
    · simp only [headOk] at hho ⊢
      cases hh : f.2.head? with
      | none => rfl
      | some c =>
        rw [hh] at hho
        have : spht c = false := by simpa using hho
        simp [(fieldByte_facts c (hfb c (head?_mem hh))).2 this]
    · simp only [lastOk] at hlo ⊢
      cases hh : f.2.getLast? with
      | none => rfl
      | some c =>
        rw [hh] at hlo
        have : spht c = false := by simpa using hlo
        simp [(fieldByte_facts c (hfb c (getLast?_mem hh))).2 this]

/-- **Round trip.** Serialising valid header fields as HTTP/1 and parsing them back yields the same fields. -/
theorem http1_roundtrip (fs : Fields) (h : ValidFields fs) :
    readHeaders (splitLines (C35.toBytes fs)) = .ok fs :=
  http1_roundtrip_general fs (validFields_roundTrippable fs h)

-- "Host: a b" / "x-1:" (empty value): valid, and the statement is not vacuous
example : ValidFields [([0x48, 0x6f, 0x73, 0x74], [0x61, 0x20, 0x62]), ([0x78, 0x2d, 0x31], [])] := by unfold ValidFields; decide
example : readHeaders (splitLines (C35.toBytes [([0x48], [0x61, 0x20, 0x62]), ([0x78], [])]))
    = .ok [([0x48], [0x61, 0x20, 0x62]), ([0x78], [])] := by rfl
-- the parser does reject / alter things outside the hypotheses
example : readHeaders [[0x61]] = .error .value := by rfl
example : readHeaders [[]] = .error .index := by rfl
example : readHeaders [[0x20, 0x61]] = .error .value := by rfl
example : readHeaders (splitLines (C35.toBytes [([0x61], [0x20, 0x31])])) = .ok [([0x61], [0x31])] := by rfl
example : readHeaders [[0x61, 0x3a, 0x31], [0x20, 0x32]] = .ok [([0x61], [0x31, 0x0d, 0x0a, 0x20, 0x32])] := by rfl


/-! ### spelling of the fields an assignment touches

The property statement fixes spelling and order of UNTOUCHED fields only.  What the code does with the fields it
touches is nevertheless determined, and proved here: reused positions keep the spelling they had, fields that
have to be created carry exactly the caller's spelling, and no other spelling ever appears. -/

private theorem loop_touched (k : Bytes) (fs : Fields) : ∀ vs : List Bytes,
    ((setAllLoop (kconv k) fs vs).1.filter (fun f => keq f.1 k)).map (·.1)
        = ((fs.filter (fun f => keq f.1 k)).map (·.1)).take vs.length ∧
    (setAllLoop (kconv k) fs vs).2.length = vs.length - Spec.count fs k := by
  induction fs with
  | nil => intro vs; simp [setAllLoop, Spec.count]
  | cons f fs ih =>
    intro vs
    have hk : (kconv f.1 == kconv k) = keq f.1 k := rfl
    by_cases hf : keq f.1 k = true
    · have hc : Spec.count (f :: fs) k = Spec.count fs k + 1 := by simp [Spec.count, hf]
      cases vs with
      | nil =>
        have := ih []
        simp only [setAllLoop, hk, hf, if_true, hc]
        simp [this.1, this.2] at *
      | cons v vs' =>
        have := ih vs'
        simp only [setAllLoop, hk, hf, if_true, hc]
        simp only [List.filter_cons, hf, if_true, List.map_cons, List.length_cons, List.take_succ_cons, this.1, this.2]
        exact ⟨trivial, by omega⟩
    · have hf' : keq f.1 k = false := by simpa using hf
      have hc : Spec.count (f :: fs) k = Spec.count fs k := by simp [Spec.count, hf']
      have := ih vs
      simp only [setAllLoop, hk, hf', hc]
      simp [hf', this.1, this.2]

/-- after `set_all(k, vs)` the names of the fields named `k` are, in order: the old spellings of the first
    `len(vs)` such fields, followed by the caller's spelling `k` once for every value beyond the old count -/
theorem touched_spelling (fs : Fields) (k : Bytes) (vs : List Bytes) :
    ((C35.setAll fs k vs).filter (fun f => keq f.1 k)).map (·.1)
      = ((fs.filter (fun f => keq f.1 k)).map (·.1)).take vs.length
        ++ List.replicate (vs.length - Spec.count fs k) k := by
  have h := loop_touched k fs vs
  simp only [C35.setAll, List.filter_append, List.map_append, h.1]
  congr 1
  rw [← h.2]
  generalize (setAllLoop (kconv k) fs vs).2 = r
  induction r with
  | nil => rfl
  | cons v r ih => simp [List.replicate_succ, keq_refl] at *; exact ih

/-- a name that is not present yet is stored exactly as the caller spelled it, at the end -/
theorem fresh_spelling (fs : Fields) (k : Bytes) (vs : List Bytes) (h : C35.getAll fs k = []) :
    C35.setAll fs k vs = fs ++ vs.map (fun v => (k, v)) := by
  rw [getAll_eq, getAll_nil_iff] at h
  have hnone : ∀ f ∈ fs, keq f.1 k = false := by
    intro f hf
    cases hk : keq f.1 k with
    | false => rfl
    | true =>
      have : 0 < Spec.count fs k := by
        simp only [Spec.count]
        exact List.length_pos_of_mem (List.mem_filter.mpr ⟨hf, hk⟩)
      omega
  rw [setAll_eq, Spec.setAll, h]
  have hrw : ∀ (m : Fields) (i : Nat), (∀ f ∈ m, keq f.1 k = false) → Spec.rewrite k vs i m = m := by
    intro m
    induction m with
    | nil => intro i _; rfl
    | cons e m ih =>
      intro i hm
      have he := hm e (by simp)
      simp only [Spec.rewrite, he, Bool.false_eq_true, if_false]
      rw [ih i (fun f hf => hm f (by simp [hf]))]
  rw [hrw fs 0 hnone]; simp

private theorem loop_names (k : Bytes) (fs : Fields) : ∀ (vs : List Bytes),
    ∀ f ∈ (setAllLoop (kconv k) fs vs).1, ∃ g ∈ fs, g.1 = f.1 := by
  induction fs with
  | nil => intro vs f hf; simp [setAllLoop] at hf
  | cons e fs ih =>
    intro vs f hf
    have hk : (kconv e.1 == kconv k) = keq e.1 k := rfl
    by_cases he : keq e.1 k = true
    · cases vs with
      | nil =>
        simp only [setAllLoop, hk, he, if_true] at hf
        obtain ⟨g, hg, hgf⟩ := ih [] f hf
        exact ⟨g, by simp [hg], hgf⟩
      | cons v vs' =>
        simp only [setAllLoop, hk, he, if_true, List.mem_cons] at hf
        rcases hf with h | h
        · exact ⟨e, by simp, by rw [h]⟩
        · obtain ⟨g, hg, hgf⟩ := ih vs' f h
          exact ⟨g, by simp [hg], hgf⟩
    · have he' : keq e.1 k = false := by simpa using he
      simp only [setAllLoop, hk, he', Bool.false_eq_true, if_false, List.mem_cons] at hf
      rcases hf with h | h
      · exact ⟨e, by simp, by rw [h]⟩
      · obtain ⟨g, hg, hgf⟩ := ih vs f h
        exact ⟨g, by simp [hg], hgf⟩

/-- assignment never makes a spelling up: every name in the result is the caller's or was stored before -/
theorem spelling_not_invented (fs : Fields) (k : Bytes) (vs : List Bytes) :
    ∀ f ∈ C35.setAll fs k vs, f.1 = k ∨ ∃ g ∈ fs, g.1 = f.1 := by
  intro f hf
  simp only [C35.setAll, List.mem_append, List.mem_map] at hf
  rcases hf with h | ⟨v, _, hv⟩
  · exact Or.inr (loop_names k fs vs f h)
  · exact Or.inl (by rw [← hv])

-- set_all(b"X-A", [n0, n1]) on [(x-a, v0)]: the reused field keeps "x-a", the created one is spelled "X-A"
example : C35.setAll [([0x78, 0x2d, 0x61], [0x30])] [0x58, 0x2d, 0x41] [[0x31], [0x32]]
    = [([0x78, 0x2d, 0x61], [0x31]), ([0x58, 0x2d, 0x41], [0x32])] := by decide


/-! ### the validity hypothesis is not needed for headers the parser itself produced -/

/-- **Whatever `_read_headers` accepts round-trips** — no validity hypothesis: if LF-free lines (as the line splitter
    delivers them) parse to `fs`, including obs-fold continuation lines, empty values, odd bytes in names, then
    `bytes(Headers(fs))` splits and parses back to exactly `fs`. -/
theorem parsed_headers_roundtrip (ls : List Bytes) (fs : Fields)
    (hlf : ∀ l ∈ ls, ∀ c ∈ l, c ≠ 0x0a) (h : readHeaders ls = .ok fs) :
    readHeaders (splitLines (C35.toBytes fs)) = .ok fs := by
  have hser : C35.toBytes fs = (ls.map ParseLemmas.canon).flatMap (fun l => l ++ crlf) := by
    have := ParseLemmas.ser_parse ls [] fs h
    rw [toBytes_eq]
    simpa [ParseLemmas.ser, Spec.serialise, fieldLine] using this
  have hno : ∀ l ∈ ls.map ParseLemmas.canon, ∀ c ∈ l, c ≠ 0x0a := by
    intro l hl
    obtain ⟨l0, hl0, rfl⟩ := List.mem_map.mp hl
    exact ParseLemmas.canon_noLF l0 (hlf l0 hl0)
  rw [hser, splitLines_block _ hno, readHeaders, ParseLemmas.readLoop_canon]
  exact h

private theorem splitLF_noLF (b : Bytes) : ∀ l ∈ splitLF b, ∀ c ∈ l, c ≠ 0x0a := by
  induction b with
  | nil => intro l hl c hc; simp [splitLF] at hl; subst hl; cases hc
  | cons x xs ih =>
    intro l hl c hc
    by_cases hx : x = 0x0a
    · simp only [splitLF, hx, if_true, List.mem_cons] at hl
      rcases hl with e | e
      · subst e; cases hc
      · exact ih l e c hc
    · simp only [splitLF, hx, if_false] at hl
      cases hs : splitLF xs with
      | nil => simp only [hs, List.mem_singleton] at hl; subst hl; simp at hc; subst hc; exact hx
      | cons l0 ls0 =>
        simp only [hs, List.mem_cons] at hl
        rcases hl with e | e
        · subst e
          rcases List.mem_cons.mp hc with e2 | e2
          · subst e2; exact hx
          · exact ih l0 (by rw [hs]; simp) c e2
        · exact ih l (by rw [hs]; simp [e]) c hc

/-- a header block that was parsed once is a fixed point: parse ∘ serialise ∘ parse = parse -/
theorem reparse_stable (block : Bytes) (fs : Fields) (h : readHeaders (splitLines block) = .ok fs) :
    readHeaders (splitLines (C35.toBytes fs)) = .ok fs := by
  apply parsed_headers_roundtrip (splitLines block) fs _ h
  intro l hl c hc
  simp only [splitLines, List.mem_map] at hl
  obtain ⟨l0, hl0, rfl⟩ := hl
  have hmem : l0 ∈ splitLF block := (List.dropLast_sublist _).subset hl0
  have hc0 : c ∈ l0 := by
    simp only [stripCR] at hc
    split at hc
    · exact (List.dropLast_sublist _).subset hc
    · exact hc
  exact splitLF_noLF block l0 hmem c hc0

-- an obs-folded, oddly spaced block: "a:  1 \r\n\t x \r\nB:\r\n"  parses to [(a, "1\r\n x"), (B, "")] and that re-parses to itself
example : readHeaders (splitLines [0x61, 0x3a, 0x20, 0x20, 0x31, 0x20, 0x0d, 0x0a, 0x09, 0x20, 0x78, 0x20, 0x0d, 0x0a, 0x42, 0x3a, 0x0d, 0x0a])
    = .ok [([0x61], [0x31, 0x0d, 0x0a, 0x20, 0x78]), ([0x42], [])] := by rfl

/-! ### the str/bytes boundary: what the API returns -/

open MitmVerif.C35.Api (AOp ARet K1 KV)

/-- **`_always_bytes(_native(b)) = b` for every byte string** (utf-8 with surrogateescape): whatever name or value
    the API hands out as `str` denotes the stored bytes again when it is handed back -/
theorem native_roundtrip (b : Bytes) : encodeSE (native b) = some b :=
  StrLemmas.encode_decF b.length b (Nat.le_refl _)

/-- **CPython's error handling is the model's.** Decoding with CPython's control flow — error ranges of one to three
    bytes ("invalid start byte", "invalid continuation byte", "unexpected end of data"), every byte of the range escaped,
    decoding resumed after the range — yields, for every byte string, the same `str` as the byte-at-a-time decoder
    `native` that all other theorems are about. -/
theorem nativeRange_eq_native (b : Bytes) : nativeRange b = native b :=
  StrLemmas.decFR_eq_native b.length b (Nat.le_refl _)

/-- hence the round trip holds for the CPython-shaped decoder as well -/
theorem nativeRange_roundtrip (b : Bytes) : encodeSE (nativeRange b) = some b := by
  rw [nativeRange_eq_native]; exact StrLemmas.encode_decF b.length b (Nat.le_refl _)

-- truncated 4-byte sequence F0 90 80 at the end: one range of three bytes; E0 80: two ranges of one byte
example : decStepR [0xf0, 0x90, 0x80] = ([0xdcf0, 0xdc90, 0xdc80], 3) := by decide
example : decStepR [0xe0, 0x80] = ([0xdce0], 1) := by decide
example : decStepR [0xe1, 0x80, 0x41] = ([0xdce1, 0xdc80], 2) := by decide

theorem alwaysBytes_native (b : Bytes) : alwaysBytes (.s (native b)) = some b := native_roundtrip b

-- non-ASCII / malformed input: "é" decodes to U+E9, a stray 0xC3 and 0xFF are escaped; lone U+D800 cannot be encoded
example : native [0xc3, 0xa9, 0xc3, 0xff] = [0xe9, 0xdcc3, 0xdcff] := by decide
example : encodeSE [0xd800] = none := by decide
example : encodeSE [0xdcc3, 0xdca9] = some [0xc3, 0xa9] := by decide   -- so `_native ∘ _always_bytes` is NOT the identity

private theorem encode_append (a b : PyStr) :
    encodeSE (a ++ b) = (encodeSE a).bind (fun x => (encodeSE b).map (fun y => x ++ y)) := by
  induction a with
  | nil => simp [encodeSE]
  | cons c a ih =>
    simp only [List.cons_append, encodeSE, ih]
    cases enc1 c <;> cases encodeSE a <;> cases encodeSE b <;> simp

private theorem encode_commaSp : encodeSE commaSpS = some commaSp := by decide

/-- the folded `str` the API returns denotes the folded bytes of the byte-level model -/
theorem encode_fold (vs : List Bytes) : encodeSE (Api.fold vs) = some (reduceValues vs) := by
  simp only [Api.fold, reduceValues]
  induction vs with
  | nil => rfl
  | cons v vs ih =>
    cases vs with
    | nil => simp [strJoin, joinWith, native_roundtrip]
    | cons w ws =>
      simp only [List.map_cons, strJoin, joinWith] at *
      simp [encode_append, native_roundtrip, encode_commaSp, ih]

private theorem encList_native (l : List Bytes) : Api.encList (l.map native) = some l := by
  induction l with
  | nil => rfl
  | cons b l ih => simp [Api.encList, native_roundtrip, ih]

private theorem encPairs_native (l : Fields) (g : Bytes → Bytes) (f : Bytes → PyStr)
    (hf : ∀ k, encodeSE (f k) = some (g k)) :
    Api.encPairs (l.map (fun e => (native e.1, f e.2))) = some (l.map (fun e => (e.1, g e.2))) := by
  induction l with
  | nil => rfl
  | cons e l ih => simp [Api.encPairs, native_roundtrip, hf, ih]

private theorem getAll_nonempty_of_iter (fs : Fields) (k : Bytes) (h : k ∈ C35.iter fs) :
    (C35.getAll fs k).isEmpty = false := by
  rw [iter_eq] at h
  have := lookup_of_mem_firsts fs k h
  rw [getAll_eq]
  cases hg : Spec.getAll fs k with
  | nil => simp [Spec.lookup, hg] at this
  | cons a as => rfl

/-- `items()` at the API: one `(str, str)` pair per iterated key — the key survives its way back through
    `_always_bytes` and the lookup never misses -/
theorem api_items (fs : Fields) :
    Api.items fs = (C35.iter fs).map (fun k => (native k, Api.fold (C35.getAll fs k))) := by
  simp only [Api.items, List.filterMap_map]
  apply filterMap_total
  intro k hk
  simp [Function.comp, native_roundtrip, getAll_nonempty_of_iter fs k hk]

private theorem enc_api_items (fs : Fields) : Api.encPairs (Api.items fs) = some (C35.items fs) := by
  rw [api_items, items_total]
  have := encPairs_native ((C35.iter fs).map (fun k => (k, k))) (fun k => reduceValues (C35.getAll fs k))
    (fun k => Api.fold (C35.getAll fs k)) (fun k => encode_fold _)
  simpa [List.map_map, Function.comp_def] using this

private theorem lower_target (fs : Fields) (a : AOp) (op : Op) (h : Api.lower fs a = some op) : op.target = a.target := by
  cases a with
  | k1 kind t k =>
    simp only [Api.lower, Option.map_eq_some_iff] at h
    obtain ⟨kb, _, rfl⟩ := h
    cases kind <;> rfl
  | kv kind t k v =>
    simp only [Api.lower] at h
    cases hk : alwaysBytes k with
    | none => simp [hk] at h
    | some kb =>
      simp only [hk] at h
      cases kind with
      | setItem => simp only [Option.map_eq_some_iff] at h; obtain ⟨_, _, rfl⟩ := h; rfl
      | add => simp only [Option.map_eq_some_iff] at h; obtain ⟨_, _, rfl⟩ := h; rfl
      | setdefault =>
        by_cases hc : C35.contains fs kb = true
        · simp only [hc, if_true, Option.some.injEq] at h; subst h; rfl
        · simp only [hc, Bool.false_eq_true, if_false, Option.map_eq_some_iff] at h; obtain ⟨_, _, rfl⟩ := h; rfl
  | setAll t k vs =>
    simp only [Api.lower] at h
    cases hk : alwaysBytes k <;> cases hv : Api.convList vs <;> simp only [hk, hv] at h <;> first | cases h | skip
    rfl
  | insert t i k v =>
    simp only [Api.lower] at h
    cases hk : alwaysBytes k <;> cases hv : alwaysBytes v <;> simp only [hk, hv] at h <;> first | cases h | skip
    rfl
  | update t ps => simp only [Api.lower, Option.some.injEq] at h; subst h; rfl
  | plain o => simp only [Api.lower, Option.some.injEq] at h; subst h; rfl

/-- a call changes the store exactly as the byte-level operation it lowers to (any call, including a partly
    applied `update`) -/
theorem api_state (st : Store) (fs : Fields) (a : AOp) (op : Op)
    (hfs : st[a.target]? = some fs) (hl : Api.lower fs a = some op) :
    (Api.step st a).1 = (C35.step st op).1 := by
  simp only [Api.step, hfs, hl]
  cases a <;> rfl

/-- a call whose `str` arguments cannot be encoded raises before anything changes -/
theorem api_unicode_error_no_change (st : Store) (fs : Fields) (a : AOp)
    (hfs : st[a.target]? = some fs) (hl : Api.lower fs a = none) :
    Api.step st a = (st, .unicodeError) := by
  simp only [Api.step, hfs, hl]


private theorem step_ret (st : Store) (fs : Fields) (op : Op) (h : st[op.target]? = some fs) :
    (C35.step st op).2 = (C35.apply st fs op).2.1 := by
  simp only [C35.step, h]

private theorem contains_isEmpty (fs : Fields) (k : Bytes) : C35.contains fs k = !(C35.getAll fs k).isEmpty := by
  simp only [C35.contains, C35.getItem]
  cases (C35.getAll fs k).isEmpty <;> rfl

/-- **what the API returns.** For every well-formed call whose arguments can be encoded, the `str` results the caller
    sees (folded values, `get_all` lists, iterated keys, `items`/`keys`/`values`, `pop`/`popitem`/`setdefault` results)
    denote — taken back through `_always_bytes` — exactly the byte-level results of the operation the call lowers to.
    Together with `api_state` and `run_refines` the multimap laws therefore hold for what `Headers` hands out. -/
theorem api_returns (st : Store) (fs : Fields) (a : AOp) (op : Op)
    (hfs : st[a.target]? = some fs) (hl : Api.lower fs a = some op) (hwf : a.wf = true)
    (hup : ∀ t ps, a = .update t ps → (Api.convPairs ps).2 = true) :
    ARet.enc (Api.step st a).2 = some (C35.step st op).2 := by
  have htgt := lower_target fs a op hl
  rw [step_ret st fs op (by rw [htgt]; exact hfs)]
  simp only [Api.step, hfs, hl]
  cases a with
  | k1 kind t k =>
    simp only [Api.lower, Option.map_eq_some_iff] at hl
    obtain ⟨kb, _, rfl⟩ := hl
    cases kind with
    | getItem =>
      simp only [Api.ret, C35.apply, C35.getItem]
      by_cases he : (C35.getAll fs kb).isEmpty = true <;> simp [he, ARet.enc, encode_fold]
    | get =>
      simp only [Api.ret, C35.apply, C35.getItem]
      by_cases he : (C35.getAll fs kb).isEmpty = true <;> simp [he, ARet.enc, encode_fold]
    | getAll => simp [Api.ret, C35.apply, ARet.enc, encList_native]
    | contains => simp [Api.ret, C35.apply, ARet.enc, contains_isEmpty]
    | delItem =>
      simp only [Api.ret, C35.apply, C35.delItem, contains_isEmpty]
      by_cases he : (C35.getAll fs kb).isEmpty = true <;> simp [he, ARet.enc]
    | pop =>
      simp only [Api.ret, C35.apply, C35.pop, C35.getItem, C35.delItem, contains_isEmpty]
      by_cases he : (C35.getAll fs kb).isEmpty = true <;> simp [he, ARet.enc, encode_fold]
  | kv kind t k v =>
    simp only [Api.lower] at hl
    cases hk : alwaysBytes k with
    | none => simp [hk] at hl
    | some kb =>
      simp only [hk] at hl
      cases kind with
      | setItem => simp only [Option.map_eq_some_iff] at hl; obtain ⟨_, _, rfl⟩ := hl; simp [Api.ret, C35.apply, ARet.enc]
      | add => simp only [Option.map_eq_some_iff] at hl; obtain ⟨_, _, rfl⟩ := hl; simp [Api.ret, C35.apply, ARet.enc]
      | setdefault =>
        by_cases hc : C35.contains fs kb = true
        · simp only [hc, if_true, Option.some.injEq] at hl; subst hl
          have he : (C35.getAll fs kb).isEmpty = false := by rw [contains_isEmpty] at hc; simpa using hc
          simp [Api.ret, C35.apply, C35.setdefault, C35.getItem, he, ARet.enc, encode_fold]
        · simp only [hc, Bool.false_eq_true, if_false, Option.map_eq_some_iff] at hl
          obtain ⟨vb, hvb, rfl⟩ := hl
          have he : (C35.getAll fs kb).isEmpty = true := by rw [contains_isEmpty] at hc; simpa using hc
          simp [Api.ret, C35.apply, C35.setdefault, C35.getItem, he, ARet.enc, hvb]
  | setAll t k vs =>
    simp only [Api.lower] at hl
    cases hk : alwaysBytes k <;> cases hv : Api.convList vs <;> simp only [hk, hv] at hl <;> first | cases hl | skip
    simp [Api.ret, C35.apply, ARet.enc]
  | insert t i k v =>
    simp only [Api.lower] at hl
    cases hk : alwaysBytes k <;> cases hv : alwaysBytes v <;> simp only [hk, hv] at hl <;> first | cases hl | skip
    simp [Api.ret, C35.apply, ARet.enc]
  | update t ps =>
    simp only [Api.lower, Option.some.injEq] at hl; subst hl
    simp [hup t ps rfl, C35.apply, ARet.enc]
  | plain o =>
    simp only [Api.lower, Option.some.injEq] at hl; subst hl
    cases o with
    | iter t => simp [Api.POp.toOp, Api.ret, C35.apply, ARet.enc, encList_native]
    | len t => simp [Api.POp.toOp, Api.ret, C35.apply, ARet.enc]
    | eq t u => simp only [Api.POp.toOp, Api.ret, C35.apply]; cases st[u]? <;> simp [ARet.enc]
    | copy t => simp [Api.POp.toOp, Api.ret, C35.apply, ARet.enc]
    | itemsMulti t =>
      have := encPairs_native fs id native (fun k => native_roundtrip k)
      simp [Api.POp.toOp, Api.ret, C35.apply, ARet.enc, itemsMulti, this]
    | items t => simp [Api.POp.toOp, Api.ret, C35.apply, ARet.enc, enc_api_items]
    | keys t m =>
      cases m
      · have h1 : Api.encList ((Api.items fs).map (·.1)) = some ((C35.items fs).map (·.1)) := by
          rw [api_items, items_total]; simpa [List.map_map, Function.comp_def] using encList_native (C35.iter fs)
        simp [Api.POp.toOp, Api.ret, C35.apply, ARet.enc, C35.keys, h1]
      · have := encList_native (fs.map (·.1))
        simp [Api.POp.toOp, Api.ret, C35.apply, ARet.enc, C35.keys, itemsMulti, List.map_map, Function.comp_def] at *
        simpa using this
    | values t m =>
      cases m
      · have h1 : Api.encList ((Api.items fs).map (·.2)) = some ((C35.items fs).map (·.2)) := by
          rw [api_items, items_total]
          have : ∀ l : List Bytes, Api.encList (l.map (fun k => Api.fold (C35.getAll fs k)))
              = some (l.map (fun k => reduceValues (C35.getAll fs k))) := by
            intro l; induction l with
            | nil => rfl
            | cons x l ih => simp [Api.encList, encode_fold, ih]
          simpa [List.map_map, Function.comp_def] using this (C35.iter fs)
        simp [Api.POp.toOp, Api.ret, C35.apply, ARet.enc, C35.values, h1]
      · have := encList_native (fs.map (·.2))
        simp [Api.POp.toOp, Api.ret, C35.apply, ARet.enc, C35.values, itemsMulti, List.map_map, Function.comp_def] at *
        simpa using this
    | popitem t =>
      cases fs with
      | nil => simp [Api.POp.toOp, Api.ret, C35.apply, api_items, C35.popitem, C35.iter, iterLoop, ARet.enc]
      | cons e m =>
        have hit : C35.iter (e :: m) = e.1 :: C35.iter (m.filter (fun x => !keq x.1 e.1)) := by
          rw [iter_eq, firsts_cons, iter_eq]
        have hp := popitem_eq (e :: m)
        simp only [Spec.popFirst] at hp
        simp only [Api.POp.toOp, Api.ret, C35.apply, api_items, hit, List.map_cons, hp]
        simp [ARet.enc, native_roundtrip, encode_fold, reduce_eq, getAll_eq]
    | clear t => simp [Api.POp.toOp, Api.ret, C35.apply, ARet.enc]
    | toBytes t => simp [Api.POp.toOp, Api.ret, C35.apply, ARet.enc]

-- h = Headers([(b"X-\xc3\xa9", b"caf\xc3\xa9"), (b"x-\xc3\xa9", b"\xff")]); h["X-é"] == "café, \udcff"
example : (Api.step [[([0x58, 0x2d, 0xc3, 0xa9], [0x63, 0x61, 0x66, 0xc3, 0xa9]), ([0x78, 0x2d, 0xc3, 0xa9], [0xff])]]
    (.k1 .getItem 0 (.s [0x58, 0x2d, 0xe9]))).2 = .str [0x63, 0x61, 0x66, 0xe9, 0x2c, 0x20, 0xdcff] := by decide
example : (Api.step [[]] (.k1 .getItem 0 (.s [0xd800]))).2 = .unicodeError := by decide


/-- **Refinement at the API, for all call sequences.** Whenever a sequence of `Headers` calls (str or bytes
    arguments) raises no UnicodeEncodeError, its trace — every returned `str` taken back through `_always_bytes`, and
    the fields of every object after every call — is the trace of the abstract case-insensitive ordered multimap
    on the lowered operations. -/
theorem api_run_refines (as : List AOp) : ∀ (st : Store) (ops : List Op),
    Api.lowerAll st as = some ops → (∀ a ∈ as, a.ok = true) →
    Api.encTrace (Api.run st as) = some (Spec.run st ops) := by
  induction as with
  | nil =>
    intro st ops h _
    simp only [Api.lowerAll, Option.some.injEq] at h; subst h; rfl
  | cons a as ih =>
    intro st ops h hok
    simp only [Api.lowerAll] at h
    cases hfs : st[a.target]? with
    | none => simp [hfs] at h
    | some fs =>
      simp only [hfs] at h
      cases hl : Api.lower fs a with
      | none => simp [hl] at h
      | some op =>
        simp only [hl, Option.map_eq_some_iff] at h
        obtain ⟨ops', hops', rfl⟩ := h
        have haok := hok a (by simp)
        have hwf : a.wf = true := by
          cases a <;> first | exact haok | rfl
        have hup : ∀ t ps, a = .update t ps → (Api.convPairs ps).2 = true := by
          intro t ps e; subst e; exact haok
        have hs := api_state st fs a op hfs hl
        have hr := api_returns st fs a op hfs hl hwf hup
        have hih := ih (C35.step st op).1 ops' hops' (fun b hb => hok b (by simp [hb]))
        rw [← run_refines] at hih ⊢
        simp only [Api.run, C35.run, Api.encTrace, hs, hr, hih]

example : Api.lowerAll [[]] [.kv .setItem 0 (.s [0x41]) (.b [0x31]), .k1 .getItem 0 (.b [0x61])]
    = some [.setItem 0 [0x41] [0x31], .getItem 0 [0x61]] := by rfl


/-- every call is well-formed by construction (calls without text arguments are their own type `POp`) -/
theorem aop_wf (a : AOp) : a.wf = true := by
  cases a with
  | plain p => cases p <;> rfl
  | _ => rfl

/-- `api_returns` without the well-formedness hypothesis -/
theorem api_returns_total (st : Store) (fs : Fields) (a : AOp) (op : Op)
    (hfs : st[a.target]? = some fs) (hl : Api.lower fs a = some op)
    (hup : ∀ t ps, a = .update t ps → (Api.convPairs ps).2 = true) :
    ARet.enc (Api.step st a).2 = some (C35.step st op).2 :=
  api_returns st fs a op hfs hl (aop_wf a) hup

/-- an `update` that meets an unencodable pair has assigned exactly the pairs before it, then raises -/
theorem api_update_partial (st : Store) (fs : Fields) (t : Nat) (ps : List (Arg × Arg))
    (hfs : st[t]? = some fs) (hbad : (Api.convPairs ps).2 = false) :
    Api.step st (.update t ps) = ((C35.step st (.update t (Api.convPairs ps).1)).1, .unicodeError) := by
  have hfs' : st[(AOp.update t ps).target]? = some fs := hfs
  simp only [Api.step, hfs', Api.lower, hbad, Bool.false_eq_true, if_false]

/-- `api_run_refines` with the only hypothesis that is not derivable: the sequence raises no UnicodeEncodeError
    (`lowerAll` succeeds and no `update` stops half-way) -/
theorem api_run_refines_total (as : List AOp) (st : Store) (ops : List Op)
    (h : Api.lowerAll st as = some ops)
    (hup : ∀ t ps, AOp.update t ps ∈ as → (Api.convPairs ps).2 = true) :
    Api.encTrace (Api.run st as) = some (Spec.run st ops) := by
  apply api_run_refines as st ops h
  intro a ha
  cases a with
  | update t ps => exact hup t ps ha
  | plain p => show (AOp.plain p).wf = true; exact aop_wf _
  | _ => rfl

/-! ### `_MultiDict` as written (generic `_kconv`), `Headers` as its instance, and what carries over to `MultiDictView` -/

section Generic
open MitmVerif.MultiDictGen (keq)

private theorem setAllLoop_inst (c : Bytes) (fs : Fields) : ∀ vs, C35.setAllLoop c fs vs = Gen.setAllLoop asciiLower c fs vs := by
  induction fs with
  | nil => intro vs; rfl
  | cons f fs ih =>
    intro vs
    simp only [C35.setAllLoop, Gen.setAllLoop, kconv, ih]
    split <;> (try cases vs) <;> rfl

private theorem iterLoop_inst (fs : Fields) : ∀ seen, C35.iterLoop seen fs = Gen.iterLoop asciiLower seen fs := by
  induction fs with
  | nil => intro seen; rfl
  | cons f fs ih =>
    intro seen
    simp only [C35.iterLoop, Gen.iterLoop, kconv, ih]

/-- **`Headers` is the `_kconv = bytes.lower`, `_reduce_values = ", ".join` instance of the generic `_MultiDict`.**
    Every method of the tied byte-level model equals the generic method at that instance, so the model that is compared
    with the real `Headers` class is literally the shared `_MultiDict` code specialised. -/
theorem headers_is_multidict_instance (fs : Fields) (k v : Bytes) (vs : List Bytes) (i : Int) :
    C35.getAll fs k = Gen.getAll asciiLower fs k ∧
    C35.getItem fs k = Gen.getItem asciiLower reduceValues fs k ∧
    C35.contains fs k = Gen.contains asciiLower reduceValues fs k ∧
    C35.setAll fs k vs = Gen.setAll asciiLower fs k vs ∧
    C35.setItem fs k v = Gen.setItem asciiLower fs k v ∧
    C35.delItem fs k = Gen.delItem asciiLower reduceValues fs k ∧
    C35.insert fs i k v = Gen.insert fs i k v ∧
    C35.add fs k v = Gen.add fs k v ∧
    C35.iter fs = Gen.iter asciiLower fs ∧
    C35.len fs = Gen.len asciiLower fs := by
  refine ⟨rfl, rfl, rfl, ?_, ?_, rfl, rfl, rfl, ?_, rfl⟩
  · simp only [C35.setAll, Gen.setAll, kconv, setAllLoop_inst]
  · simp only [C35.setItem, Gen.setItem, C35.setAll, Gen.setAll, kconv, setAllLoop_inst]
  · simp only [C35.iter, Gen.iter, iterLoop_inst]

variable {α β γ σ : Type} [BEq γ] [LawfulBEq γ]

/-- **the multimap laws hold for `_MultiDict` with ANY `_kconv`** (so for `MultiDict` and `MultiDictView`, where it is
    the identity, exactly as for `Headers`): assignment, other names, untouched fields, deletion -/
theorem multidict_laws (kc : α → γ) (red : List β → β) (fs : List (α × β)) (k : α) (vs : List β) :
    (∀ k', keq kc k' k = true → Gen.getAll kc (Gen.setAll kc fs k vs) k' = vs) ∧
    (∀ k', keq kc k' k = false → Gen.getAll kc (Gen.setAll kc fs k vs) k' = Gen.getAll kc fs k') ∧
    (Gen.setAll kc fs k vs).filter (fun f => !keq kc f.1 k) = fs.filter (fun f => !keq kc f.1 k) ∧
    (Gen.delItem kc red fs k = none ↔ Gen.getAll kc fs k = []) ∧
    (∀ fs', Gen.delItem kc red fs k = some fs' →
        fs' = fs.filter (fun f => !keq kc f.1 k) ∧ Gen.getAll kc fs' k = [] ∧
        ∀ k', keq kc k' k = false → Gen.getAll kc fs' k' = Gen.getAll kc fs k') :=
  ⟨fun k' h => MultiDictGen.getAll_setAll kc fs k k' vs h,
   fun k' h => MultiDictGen.getAll_setAll_other kc fs k k' vs h,
   MultiDictGen.untouched kc fs k vs,
   (MultiDictGen.del_removes_all_only kc red fs k).1,
   (MultiDictGen.del_removes_all_only kc red fs k).2⟩

/-- iteration, length and insertion of the generic `_MultiDict` -/
theorem multidict_iter_len_insert (kc : α → γ) (fs : List (α × β)) (i : Int) (k : α) (v : β) :
    Gen.len kc fs = (Gen.iter kc fs).length ∧ ((Gen.iter kc fs).map kc).Nodup ∧
    (∀ f ∈ fs, kc f.1 ∈ (Gen.iter kc fs).map kc) ∧
    (∀ k ∈ Gen.iter kc fs, (fs.find? (fun f => keq kc f.1 k)).map (·.1) = some k) ∧
    List.Sublist (Gen.iter kc fs) (fs.map (·.1)) ∧
    (Gen.insert fs i k v)[pyIndex fs.length i]? = some (k, v) ∧
    (Gen.insert fs i k v).eraseIdx (pyIndex fs.length i) = fs :=
  ⟨(MultiDictGen.len_eq_distinct kc fs).1, (MultiDictGen.len_eq_distinct kc fs).2.1,
   (MultiDictGen.len_eq_distinct kc fs).2.2.1,
   (MultiDictGen.iter_first_occurrence_spelling kc fs).1, (MultiDictGen.iter_first_occurrence_spelling kc fs).2,
   (MultiDictGen.insert_at fs i k v).1, (MultiDictGen.insert_at fs i k v).2⟩

/-- **what carries over to `MultiDictView`** (request.query, cookies, urlencoded_form, …).  The view runs the same
    `_MultiDict` methods on `getter()` and stores the result with `setter()`.  PROVIDED the parent gives back what was
    stored (`getter() after setter(fs)` is `fs` — for query strings and cookies that is a codec round trip, the
    subject of C34, and it does fail for some values), a view obeys the multimap laws on the parent's fields:
    assignment is read back, other keys and untouched fields are unaffected, deletion removes all and only the key. -/
theorem view_carries_over (kc : α → γ) (red : List β → β) (L : Gen.Lens σ α β)
    (hL : ∀ p fs, L.get (L.set p fs) = fs) (p : σ) (k : α) (vs : List β) :
    (∀ k', keq kc k' k = true → Gen.View.getAll kc L (Gen.View.setAll kc L p k vs) k' = vs) ∧
    (∀ k', keq kc k' k = false →
        Gen.View.getAll kc L (Gen.View.setAll kc L p k vs) k' = Gen.View.getAll kc L p k') ∧
    (L.get (Gen.View.setAll kc L p k vs)).filter (fun f => !keq kc f.1 k) = (L.get p).filter (fun f => !keq kc f.1 k) ∧
    (∀ p', Gen.View.delItem kc red L p k = some p' →
        L.get p' = (L.get p).filter (fun f => !keq kc f.1 k)) ∧
    Gen.View.len kc L p = (Gen.View.iter kc L p).length := by
  refine ⟨?_, ?_, ?_, ?_, ?_⟩
  · intro k' h; simp only [Gen.View.getAll, Gen.View.setAll, hL]; exact MultiDictGen.getAll_setAll kc _ k k' vs h
  · intro k' h; simp only [Gen.View.getAll, Gen.View.setAll, hL]; exact MultiDictGen.getAll_setAll_other kc _ k k' vs h
  · simp only [Gen.View.setAll, hL]; exact MultiDictGen.untouched kc _ k vs
  · intro p' h
    simp only [Gen.View.delItem, Option.map_eq_some_iff] at h
    obtain ⟨fs', hfs', rfl⟩ := h
    rw [hL]; exact ((MultiDictGen.del_removes_all_only kc red _ k).2 fs' hfs').1
  · exact (MultiDictGen.len_eq_distinct kc _).1

/-- **whole histories carry over.** Under the getter/setter law, ANY sequence of method calls on a `MultiDictView`
    returns what the same sequence returns on a free-standing `MultiDict` started with the parent's fields, and the
    getter shows that MultiDict's fields after every call. -/
theorem view_run_refines (kc : α → γ) (red : List β → β) (L : Gen.Lens σ α β)
    (hL : ∀ p fs, L.get (L.set p fs) = fs) (ops : List (Gen.MOp α β)) : ∀ p : σ,
    Gen.View.runOps kc red L p ops = Gen.runOps kc red (L.get p) ops := by
  induction ops with
  | nil => intro p; rfl
  | cons op ops ih =>
    intro p
    simp only [Gen.View.runOps, Gen.runOps, Gen.View.stepOp]
    cases h : (Gen.stepOp kc red (L.get p) op).1 with
    | none => simp [ih]
    | some fs' => simp [hL, ih]

/-- reused positions keep their spelling, created fields carry the caller's — for any `_kconv` -/
theorem multidict_fresh_key (kc : α → γ) (fs : List (α × β)) (k : α) (vs : List β)
    (h : Gen.getAll kc fs k = []) : Gen.setAll kc fs k vs = fs ++ vs.map (fun v => (k, v)) := by
  have hnone : ∀ f ∈ fs, (kc f.1 == kc k) = false := by
    intro f hf
    cases hk : (kc f.1 == kc k) with
    | false => rfl
    | true =>
      have : f.2 ∈ Gen.getAll kc fs k := by
        simp only [Gen.getAll, List.mem_filterMap]
        exact ⟨f, hf, by simp [hk]⟩
      rw [h] at this; cases this
  have hloop : ∀ (m : List (α × β)) (ws : List β), (∀ f ∈ m, (kc f.1 == kc k) = false) →
      Gen.setAllLoop kc (kc k) m ws = (m, ws) := by
    intro m
    induction m with
    | nil => intro ws _; rfl
    | cons e m ih =>
      intro ws hm
      have he := hm e (by simp)
      simp only [Gen.setAllLoop, he, Bool.false_eq_true, if_false, ih ws (fun f hf => hm f (by simp [hf]))]
  simp only [Gen.setAll, hloop fs vs hnone]

/-- `view_run_refines` when the parent gives back only SOME field lists unchanged: it is enough that the getter/setter
    law holds on an invariant that the start fields satisfy and every permitted operation preserves -/
theorem view_run_refines_inv (kc : α → γ) (red : List β → β) (L : Gen.Lens σ α β)
    (Inv : List (α × β) → Prop) (OpOk : Gen.MOp α β → Prop)
    (hL : ∀ p fs, Inv fs → L.get (L.set p fs) = fs)
    (hstep : ∀ fs op fs', Inv fs → OpOk op → (Gen.stepOp kc red fs op).1 = some fs' → Inv fs')
    (ops : List (Gen.MOp α β)) : ∀ p : σ, Inv (L.get p) → (∀ op ∈ ops, OpOk op) →
    Gen.View.runOps kc red L p ops = Gen.runOps kc red (L.get p) ops := by
  induction ops with
  | nil => intro p _ _; rfl
  | cons op ops ih =>
    intro p hinv hok
    have hop := hok op (by simp)
    have hrest : ∀ o ∈ ops, OpOk o := fun o ho => hok o (by simp [ho])
    simp only [Gen.View.runOps, Gen.runOps, Gen.View.stepOp]
    cases h : (Gen.stepOp kc red (L.get p) op).1 with
    | none => simp [ih p hinv hrest]
    | some fs' =>
      have hinv' : Inv fs' := hstep _ op fs' hinv hop h
      have hget : L.get (L.set p fs') = fs' := hL p fs' hinv'
      simp only [Option.getD_some, hget]
      rw [ih (L.set p fs') (by rw [hget]; exact hinv') hrest, hget]

end Generic

-- `MultiDictView` keys are case-SENSITIVE (`_kconv = id`): "a" and "A" are different keys there, one key in `Headers`
example : Gen.getAll (id : Bytes → Bytes) [([0x61], [0x31]), ([0x41], [0x32])] [0x61] = [[0x31]] := by decide
example : C35.getAll [([0x61], [0x31]), ([0x41], [0x32])] [0x61] = [[0x31], [0x32]] := by decide
-- without the getter/setter law nothing carries over: a parent that drops what is stored
example : Gen.View.getAll (id : Bytes → Bytes) (⟨fun _ => [], fun p _ => p⟩ : Gen.Lens Unit Bytes Bytes)
    (Gen.View.setAll id ⟨fun _ => [], fun p _ => p⟩ () [0x61] [[0x31]]) [0x61] = [] := by decide


/-- `copy_independent`, also allowing object `j` itself to be COPIED in between (copying reads `j`, it does not change it):
    only operations that address another object, or `copy j`, occur — then `j` has the same fields in every store of the trace -/
theorem copy_independent_strong (ops : List Op) : ∀ (st : Store) (j : Nat), j < st.length →
    (∀ op ∈ ops, op.target ≠ j ∨ op = .copy j) → ∀ r ∈ C35.run st ops, r.2[j]? = st[j]? := by
  induction ops with
  | nil => intro st j _ _ r hr; simp [C35.run] at hr
  | cons op ops ih =>
    intro st j hlt hall r hr
    have hf : (C35.step st op).1[j]? = st[j]? := by
      rcases hall op (by simp) with h | h
      · exact step_frame st op j h hlt
      · subst h
        have hsome : st[j]? = some st[j] := List.getElem?_eq_getElem hlt
        rw [copy_creates_equal_object st j st[j] hsome]
        simp only
        rw [List.getElem?_append_left hlt]
    simp only [C35.run, List.mem_cons] at hr
    rcases hr with h | h
    · subst h; exact hf
    · have := ih (C35.step st op).1 j (Nat.lt_of_lt_of_le hlt (step_length st op))
        (fun o ho => hall o (by simp [ho])) r h
      rw [this, hf]

example : ((C35.run [[([0x61], [0x31])]] [.copy 0, .setItem 1 [0x41] [0x39], .copy 0, .clear 2]).map (fun r => r.2[0]?))
    = [some [([0x61], [0x31])], some [([0x61], [0x31])], some [([0x61], [0x31])], some [([0x61], [0x31])]] := by decide

/-! ### the constructor's type check -/

/-- `Headers(fields, …)` raises TypeError exactly when some name or value in `fields` is not `bytes`, whatever the
    keyword arguments; otherwise it behaves as `construct` on the byte fields -/
theorem ctor_typeerror_iff (tf : List (Arg × Arg)) (kw : List (PyStr × Arg)) :
    (Api.constructFull tf kw = .error .typeError ↔ ∃ p ∈ tf, ∀ k v, p ≠ (Arg.b k, Arg.b v)) ∧
    (∀ fs, Api.typedFields tf = some fs → Api.constructFull tf kw =
        (match Api.construct fs kw with | some r => .ok r | none => .error .unicodeError)) := by
  constructor
  · have key : ∀ tf : List (Arg × Arg), Api.typedFields tf = none ↔ ∃ p ∈ tf, ∀ k v, p ≠ (Arg.b k, Arg.b v) := by
      intro tf
      induction tf with
      | nil => simp [Api.typedFields]
      | cons p r ih =>
        obtain ⟨a, b⟩ := p
        cases a with
        | s x => simp [Api.typedFields]
        | b k =>
          cases b with
          | s y => simp [Api.typedFields]
          | b v =>
            simp only [Api.typedFields, Option.map_eq_none_iff, ih, List.mem_cons]
            constructor
            · rintro ⟨p, hp, h⟩; exact ⟨p, Or.inr hp, h⟩
            · rintro ⟨p, hp | hp, h⟩
              · subst hp; exact absurd rfl (h k v)
              · exact ⟨p, hp, h⟩
    rw [← key]
    simp only [Api.constructFull]
    cases h : Api.typedFields tf with
    | none => simp
    | some fs => cases hc : Api.construct fs kw <;> simp [hc]
  · intro fs h
    simp only [Api.constructFull, h]
    cases Api.construct fs kw <;> rfl

example : Api.constructFull [(.b [0x61], .s [0x31])] [] = .error .typeError := by rfl
example : Api.constructFull [(.b [0x61], .b [0x31])] [([0x78, 0x5f, 0x79], .s [0x32])] = .ok [([0x61], [0x31]), ([0x78, 0x2d, 0x79], [0x32])] := by
  rfl

/-! ### `request.cookies`: the getter/setter law comes from C34's cookie codec theorems -/

/-- C34's class of pairs the Cookie header format carries (`Props.C34.RepPair`, restated so that this file does not
    depend on another property's proof file) -/
def CookiePairOk (e : PyStr × PyStr) : Prop :=
  (∀ x ∈ e.1, C34.isSemiEq x = false) ∧ C34.lstrip e.1 = e.1 ∧ (e.2 ≠ [] ∨ e.1 ≠ [])

/-- **`request.cookies` is a MultiDict over the parsed Cookie headers, for whole histories.**  For ANY Cookie header
    values and any sequence of view calls whose new keys are cookie names (values are arbitrary), every return value
    and the view's fields after every call are those of a free-standing `MultiDict` started with the parsed cookies.
    The two hypotheses are literally C34's theorems `request_cookies_view_roundtrip` (format then parse gives the pairs
    back) and `parse_yields_representable` (whatever the parser returns is in that class); `Lemmas/C35Cookie.lean`
    discharges them with C34's proofs.  What is proved here is that every call keeps the fields inside that class. -/
theorem request_cookies_view_refines
    (hround : ∀ ps : List (PyStr × PyStr), (∀ e ∈ ps, CookiePairOk e) → C34.getCookies (C34.setCookies ps) = ps)
    (hparse : ∀ (s : C34.Str), ∀ e ∈ C34.parseCookie s, CookiePairOk e)
    (hdrs : List C34.Str) (ops : List (Gen.MOp PyStr PyStr))
    (hops : ∀ op ∈ ops, ∀ k, MultiDictGen.MOp.key? op = some k → CookieKeyOk k) :
    Gen.View.runOps (id : PyStr → PyStr) (Gen.first []) cookieLens hdrs ops
      = Gen.runOps id (Gen.first []) (C34.getCookies hdrs) ops := by
  apply view_run_refines_inv id (Gen.first []) cookieLens (fun ps => ∀ e ∈ ps, CookiePairOk e)
    (fun op => ∀ k, MultiDictGen.MOp.key? op = some k → CookieKeyOk k)
  · intro p fs hfs
    exact hround fs hfs
  · intro fs op fs' hinv hop hs e he
    rcases MultiDictGen.mem_stepOp id (Gen.first []) fs fs' op hs e he with h1 | ⟨k, hk, hkeq⟩
    · exact hinv e h1
    · have hek : e.1 = k := by simpa [MultiDictGen.keq] using hkeq
      obtain ⟨c1, c2, c3⟩ := hop k hk
      refine ⟨by rw [hek]; exact c1, by rw [hek]; exact c2, Or.inr (by rw [hek]; exact c3)⟩
  · intro e he
    unfold cookieLens C34.getCookies at he
    rw [List.mem_flatMap] at he
    obtain ⟨h, _, hm⟩ := he
    exact hparse h e hm
  · exact hops

/-- **the function the driver runs.** `viewc` executes `cookieRun`, which additionally reports the Cookie header values
    after every call; dropping that extra column gives exactly `Gen.View.runOps … cookieLens`, the function the
    theorems above and below are about. -/
theorem cookieRun_is_view_run (init : List (PyStr × PyStr)) (ops : List (Gen.MOp PyStr PyStr)) : ∀ p : List C34.Str,
    (cookieRun init ops p).map (fun r => (r.1, r.2.1)) = Gen.View.runOps (id : PyStr → PyStr) (Gen.first []) cookieLens p ops := by
  induction ops with
  | nil => intro p; rfl
  | cons op ops ih => intro p; simp only [cookieRun, Gen.View.runOps, List.map_cons, ih]

/-- **`request_cookies_view_refines` with its hypotheses discharged** (C34's cookie codec theorems, in the copy
    `Lemmas/C35CookieCodec.lean` that this check builds and audits): for ANY Cookie header values and any history of view
    calls whose new keys are cookie names, `request.cookies` returns and shows what a free-standing `MultiDict`
    started with the parsed cookies returns and holds. -/
theorem request_cookies_view_refines_closed (hdrs : List C34.Str) (ops : List (Gen.MOp PyStr PyStr))
    (hops : ∀ op ∈ ops, ∀ k, MultiDictGen.MOp.key? op = some k → CookieKeyOk k) :
    Gen.View.runOps (id : PyStr → PyStr) (Gen.first []) cookieLens hdrs ops
      = Gen.runOps id (Gen.first []) (C34.getCookies hdrs) ops :=
  request_cookies_view_refines
    (fun ps h => C35CookieCodec.request_cookies_view_roundtrip ps h)
    (fun s e he => C35CookieCodec.parse_yields_representable s e he)
    hdrs ops hops

/-- what the `viewc` tie compares, end to end: `request.cookies = init` on a request without Cookie header, then the
    calls — return values and fields are those of a `MultiDict` started with `init`, provided `init` and the new keys
    are cookie names (any values) -/
theorem viewc_is_multidict (init : List (PyStr × PyStr)) (ops : List (Gen.MOp PyStr PyStr))
    (hinit : ∀ e ∈ init, CookieKeyOk e.1)
    (hops : ∀ op ∈ ops, ∀ k, MultiDictGen.MOp.key? op = some k → CookieKeyOk k) :
    (cookieRun init ops (C34.setCookies init)).map (fun r => (r.1, r.2.1)) = Gen.runOps id (Gen.first []) init ops := by
  rw [cookieRun_is_view_run, request_cookies_view_refines_closed _ ops hops]
  have : C34.getCookies (C34.setCookies init) = init :=
    C35CookieCodec.request_cookies_view_roundtrip init (fun e he => ⟨(hinit e he).1, (hinit e he).2.1, Or.inr (hinit e he).2.2⟩)
  rw [this]

example : CookieKeyOk [0x61] := ⟨by decide, by decide, by decide⟩
example : (cookieRun [([0x61], [0x31])] [.setItem [0x61] [0x78, 0x3b, 0x79], .add [0x62] [], .getItem [0x61]]
    (C34.setCookies [([0x61], [0x31])])).map (fun r => r.2.1)
    = (Gen.runOps id (Gen.first []) [([0x61], [0x31])] [.setItem [0x61] [0x78, 0x3b, 0x79], .add [0x62] [], .getItem [0x61]]).map (·.2) := by
  decide

-- "a=1; b=2" then `cookies["a"] = "x;y"` (value needs quoting), then lookup
example : (Gen.View.runOps (id : PyStr → PyStr) (Gen.first []) cookieLens [[0x61, 0x3d, 0x31, 0x3b, 0x20, 0x62, 0x3d, 0x32]]
    [.setItem [0x61] [0x78, 0x3b, 0x79], .getItem [0x61]]).map (·.2)
    = [[([0x61], [0x78, 0x3b, 0x79]), ([0x62], [0x32])], [([0x61], [0x78, 0x3b, 0x79]), ([0x62], [0x32])]] := by decide

end MitmVerif.Props.C35

-- ------------------------------------------------------------------------------------------------
-- cross-audit (round 6): the hypotheses of the history-level theorems hold together on concrete, non-empty inputs
-- ------------------------------------------------------------------------------------------------
namespace MitmVerif.Props.C35
open MitmVerif MitmVerif.C35
open MitmVerif.C35.Spec (ValidFields)

-- api_run_refines_total: a str-keyed assignment (other spelling of an existing name) and a bytes lookup on a non-empty object
example : Api.encTrace (Api.run [[([0x61], [0x30])]] [.kv .setItem 0 (.s [0x41]) (.b [0x31]), .k1 .getItem 0 (.b [0x61])])
    = some (Spec.run [[([0x61], [0x30])]] [.setItem 0 [0x41] [0x31], .getItem 0 [0x61]]) :=
  api_run_refines_total _ _ _ rfl (by intro t ps h; simp at h)

-- http1_roundtrip on the two-field list whose validity is shown above
example : readHeaders (splitLines (C35.toBytes [([0x48, 0x6f, 0x73, 0x74], [0x61, 0x20, 0x62]), ([0x78, 0x2d, 0x31], [])]))
    = .ok [([0x48, 0x6f, 0x73, 0x74], [0x61, 0x20, 0x62]), ([0x78, 0x2d, 0x31], [])] :=
  http1_roundtrip _ (by unfold ValidFields; decide)

-- copy_independent: two objects, every operation addresses object 1, object 0 is the same in every store of the trace
example : ∀ r ∈ C35.run [[([0x61], [0x31])], [([0x61], [0x31])]] [.setItem 1 [0x41] [0x39], .delItem 1 [0x61], .add 1 [0x62] [0x32]],
    r.2[0]? = some [([0x61], [0x31])] :=
  copy_independent _ _ 0 (by decide) (by
    intro op h
    simp only [List.mem_cons, List.not_mem_nil, or_false] at h
    rcases h with rfl | rfl | rfl <;> decide)

-- view_run_refines with a lawful lens (the parent stores the field list itself), on a history that changes the fields
example : Gen.View.runOps (id : Bytes → Bytes) (Gen.first []) (⟨id, fun _ fs => fs⟩ : Gen.Lens (List (Bytes × Bytes)) Bytes Bytes)
      [([0x61], [0x31])] [.setItem [0x41] [0x32], .getItem [0x61]]
    = Gen.runOps id (Gen.first []) [([0x61], [0x31])] [.setItem [0x41] [0x32], .getItem [0x61]] :=
  view_run_refines id (Gen.first []) ⟨id, fun _ fs => fs⟩ (fun _ _ => rfl) _ _

end MitmVerif.Props.C35
