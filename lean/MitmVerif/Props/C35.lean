import MitmVerif.Model.C35
namespace MitmVerif.Props.C35
open MitmVerif MitmVerif.C35

theorem copy_eq (fs : Fields) : copy fs = fs := by
  induction fs with
  | nil => rfl
  | cons f fs ih => simp [copy]

end MitmVerif.Props.C35
