/-
  C36 — flow files round-trip every flow type; reading never fails unexpectedly.  Property theorems.

  * `dumps_eq_enc`       : the reverse-deque construction of `tnetstring.dumps` (with its size accounting) emits
                           exactly the recursive encoding `enc` (dict items in reverse iteration order)
  * `pop_dumps`          : `pop (dumps v ++ r) = (mirror v, r)` for every well-formed value and every rest
  * `load_dumps`         : the same for the file based `load`
  * `mirror_equiv`       : `mirror v ≈ v` (dicts as finite maps); `mirror_involutive`: a second cycle restores order
  * `read_roundtrip`     : a file holding n flow states reads back as the n flows, in order, and ends cleanly
  * `pop_total`, `load_total`, `stream_total` : the parsers are total — the model's fuel never runs out
  * `load_error_caught`  : whatever `load` raises is one of the classes `FlowReader.stream` catches
  * `never_other`        : `FlowReader.stream` on ANY bytes ends cleanly or with FlowReadException
-/
import MitmVerif.Lemmas.C36
import MitmVerif.Model.C36_Gate
import MitmVerif.Model.C36_Shape
import MitmVerif.Model.C36_Conv
import MitmVerif.Lemmas.C36_Read
namespace MitmVerif.Props.C36
open MitmVerif MitmVerif.C36

/-- **dumps.** `_rdumpq`'s last-chunk-first deque construction and running size computation produce the plain
    recursive encoding: every length prefix is the true payload length. -/
theorem dumps_eq_enc (v : Value) : dumps v = enc v := by
  simp [dumps, rdumpq_eq v [] 0]

/-- **C36 (codec round trip, memoryview parser).** For every well-formed value `v` (see `WF`), any following bytes
    `r` and any recursion head-room `d ≥ depth v`: `pop(dumps(v) + r)` returns `(mirror v, r)` — the value with each
    dict's items in reverse order — and leaves `r` untouched. -/
theorem pop_dumps (v : Value) (r : Bytes) (d : Nat) (hwf : WF v) (hsz : (dumps v).length < sizeLimit)
    (hd : depth v ≤ d) : popTop d (dumps v ++ r) = .ok (mirror v, r) := by
  rw [dumps_eq_enc] at hsz ⊢
  exact pop_enc v r _ d hwf hsz (by simp; omega) hd

/-- **C36 (codec round trip, file reader).** `tnetstring.load` on a file whose unread content is `dumps v ++ r`
    returns `mirror v` and leaves exactly `r` unread, provided the record is shorter than 10^12 bytes (the
    12-digit length-prefix limit of `load`), fits the allocator and the recursion head-room. -/
theorem load_dumps (v : Value) (r : Bytes) (m d : Nat) (hwf : WF v) (h12 : (dumps v).length < 10 ^ 12)
    (hm : (dumps v).length ≤ m) (hd : depth v ≤ d) : load m d (dumps v ++ r) = .ok (mirror v, r) := by
  rw [dumps_eq_enc] at h12 hm ⊢
  exact load_enc v r m d hwf h12 hm hd

private theorem equiv_list : ∀ l : List Value, (∀ v ∈ l, Equiv (mirror v) v) →
    Equiv (.list (l.map mirror)) (.list l) := by
  intro l
  induction l with
  | nil => intro _; exact Equiv.refl _
  | cons v t ih =>
    intro h
    exact Equiv.listCons (h v (by simp)) (ih (fun x hx => h x (by simp [hx])))

private theorem equiv_pairs : ∀ kvs : List (Value × Value), (∀ p ∈ kvs, Equiv (mirror p.1) p.1 ∧ Equiv (mirror p.2) p.2) →
    Equiv (.dict (kvs.map mirrorPair)) (.dict kvs) := by
  intro kvs
  induction kvs with
  | nil => intro _; exact Equiv.refl _
  | cons p t ih =>
    intro h
    obtain ⟨h1, h2⟩ := h p (by simp)
    exact Equiv.dictCons h1 h2 (ih (fun x hx => h x (by simp [hx])))

/-- **C36 (the loaded value is the saved value).** What comes back differs from what was saved only in the
    iteration order of dicts: `mirror v ≈ v` with dicts compared as finite maps. -/
theorem mirror_equiv : ∀ v : Value, Equiv (mirror v) v := by
  apply Value.ind
  · exact Equiv.refl _
  · intro b; exact Equiv.refl _
  · intro i; exact Equiv.refl _
  · intro t; exact Equiv.refl _
  · intro b; exact Equiv.refl _
  · intro b; exact Equiv.refl _
  · intro l ih
    simp only [mirror, mirrorList_eq]
    exact equiv_list l ih
  · intro kvs ih
    simp only [mirror, mirrorPairsRev_eq]
    refine Equiv.trans (Equiv.dictPerm ?_) (equiv_pairs kvs ih)
    exact (List.reverse_perm kvs).map mirrorPair

/-- a second save/load cycle restores the original item order exactly -/
theorem mirror_involutive : ∀ v : Value, mirror (mirror v) = v := by
  apply Value.ind
  · rfl
  · intro b; rfl
  · intro i; rfl
  · intro t; rfl
  · intro b; rfl
  · intro b; rfl
  · intro l ih
    simp only [mirror, mirrorList_eq, List.map_map]
    congr 1
    conv => rhs; rw [← List.map_id l]
    exact List.map_congr_left (fun v hv => by simpa using ih v hv)
  · intro kvs ih
    simp only [mirror, mirrorPairsRev_eq, List.map_reverse, List.reverse_reverse, List.map_map]
    congr 1
    conv => rhs; rw [← List.map_id kvs]
    exact List.map_congr_left (fun p hp => by
      obtain ⟨h1, h2⟩ := ih p hp
      simp [mirrorPair, h1, h2])

/-- **C36 (flow files round-trip, in order).** A file that consists of the dumped states `vs` — each a well-formed
    dict state within the reader's limits, which `from_state ∘ migrate_flow` maps (as loaded) to the flow at the same
    position of `fl` — reads back as exactly the flows `fl`, in the same order, and the reader ends cleanly. -/
theorem read_roundtrip {α : Type} (env : Env α) (vs : List Value) (fl : List α) (h : Good env 0 vs fl) :
    readAll env (encList vs) = (fl, .clean) := by
  have hs : ∀ f, vs.length + 1 ≤ f → streamLoop env f 0 (encList vs) = (fl, .clean) := by
    intro f hf
    have := stream_records env vs fl 0 f [] .clean h (fun g hg => streamLoop_nil env g _ hg) hf
    simpa using this
  have hlen : ∀ l : List Value, l.length ≤ (encList l).length := by
    intro l
    induction l with
    | nil => simp
    | cons v t ih => have := enc_length_ge v; simp [encList]; omega
  cases vs with
  | nil =>
    unfold readAll
    simp only [encList, sniff_nil, Bool.false_eq_true, if_false]
    exact hs _ (by simp)
  | cons v vt =>
    obtain ⟨c, cs, hc, hdig⟩ := enc_head_digit v
    have : encList (v :: vt) = c :: (cs ++ encList vt) := by simp [encList, hc]
    unfold readAll
    rw [this, sniff_digit c _ hdig]
    simp only [Bool.false_eq_true, if_false]
    rw [← this]
    exact hs _ (by have := hlen (v :: vt); omega)

/-- the file written for the states `vs` is the concatenation of their dumps -/
theorem encList_eq_dumps (vs : List Value) : encList vs = (vs.map dumps).flatten := by
  induction vs with
  | nil => simp [encList]
  | cons v t ih => simp [encList, ih, dumps_eq_enc]

/-- **C36 (totality, memoryview parser).** `pop` on ANY byte string, with any recursion head-room, returns a value
    or raises one of its Python exceptions; the model's fuel is never the reason for failing. -/
theorem pop_total (d : Nat) (s : Bytes) : popTop d s ≠ .error .fuel :=
  (no_fuel (s.length + 1)).1 d s (Nat.le_refl _)

/-- **C36 (what load can raise).** On ANY file content and in ANY environment, an error of `tnetstring.load` is
    the end-of-file ValueError, ValueError, TypeError, IndexError, RecursionError or MemoryError — exactly the
    classes named by the `except` clause around it in `FlowReader.stream`. -/
theorem load_error_caught (m d : Nat) (s : Bytes) (e : Err) (h : load m d s = .error e) :
    e = .emptyFile ∨ e = .value ∨ e = .type ∨ e = .index ∨ e = .recursion ∨ e = .memory := by
  have := load_err_caught m d s e h
  cases e <;> simp [caughtOuter] at this ⊢

/-- **C36 (totality, file reader).** -/
theorem load_total (m d : Nat) (s : Bytes) : load m d s ≠ .error .fuel := by
  intro h
  have := load_err_caught m d s _ h
  simp [caughtOuter] at this

/-- **C36 (reading never fails unexpectedly).** For ANY file content, ANY environment (allocation limit, recursion
    head-room), ANY behaviour of the HAR importer and ANY behaviour of `from_state ∘ migrate_flow` that raises only
    subclasses of `Exception`: `FlowReader.stream` yields some flows and then ends cleanly or raises
    FlowReadException — no other exception escapes, and the model's fuel never runs out. -/
theorem never_other {α : Type} (env : Env α) (hfs : ∀ i v, env.fromState i v ≠ .error .nonException)
    (file : Bytes) : (readAll env file).2 = .clean ∨ (readAll env file).2 = .flowRead := by
  have key : (readAll env file).2 ≠ .escapes := by
    unfold readAll
    dsimp only
    split
    · split <;> simp
    · exact streamLoop_no_escape env hfs _ 0 _ (Nat.le_refl _)
  cases h : (readAll env file).2 with
  | clean => simp
  | flowRead => simp
  | escapes => exact absurd h key

/-- **C36 (totality, reader loop).** Stated for the loop itself with any sufficient fuel: the result does not
    depend on the fuel artefact once it exceeds the input length. -/
theorem stream_total {α : Type} (env : Env α) (hfs : ∀ i v, env.fromState i v ≠ .error .nonException)
    (f i : Nat) (s : Bytes) (hf : s.length + 1 ≤ f) : (streamLoop env f i s).2 ≠ .escapes :=
  streamLoop_no_escape env hfs f i s hf

/-- **C36 (a corrupted tail never loses the flows before it).** Take ANY byte string that starts with whole, good
    records `vs` (the flows `fl`) and continues with ARBITRARY bytes — garbage, a cut record, a record of an unknown
    version, anything. Reading it yields all of `fl` first, in order; whatever the tail does comes after them. -/
theorem corrupted_tail_keeps_flows {α : Type} (env : Env α) (vs : List Value) (fl : List α)
    (hgood : Good env 0 vs fl) (tail : Bytes) :
    fl <+: (readAll env (encList vs ++ tail)).1 := by
  cases vs with
  | nil =>
    cases fl with
    | nil => exact List.nil_prefix
    | cons _ _ => simp [Good] at hgood
  | cons v vt =>
    obtain ⟨c, cs, hc, hdig⟩ := enc_head_digit v
    have hfile : encList (v :: vt) ++ tail = c :: (cs ++ encList vt ++ tail) := by simp [encList, hc]
    have hlen : (v :: vt).length ≤ (encList (v :: vt) ++ tail).length := by
      have : ∀ l : List Value, l.length ≤ (encList l).length := by
        intro l
        induction l with
        | nil => simp
        | cons v t ih => have := enc_length_ge v; simp [encList]; omega
      have := this (v :: vt)
      simp only [List.length_append]; omega
    unfold readAll
    rw [hfile, sniff_digit c _ hdig]
    simp only [Bool.false_eq_true, if_false]
    rw [← hfile]
    have hf : (encList (v :: vt) ++ tail).length + 1
        = (v :: vt).length + ((encList (v :: vt) ++ tail).length + 1 - (v :: vt).length) := by omega
    rw [hf, stream_records_tail env (v :: vt) fl 0 _ tail hgood]
    exact List.prefix_append _ _

/-- … and the read still ends cleanly or with FlowReadException (combination with `never_other`) -/
theorem corrupted_tail_ends_in_flow_read_error {α : Type} (env : Env α)
    (hfs : ∀ i v, env.fromState i v ≠ .error .nonException) (vs : List Value) (fl : List α)
    (hgood : Good env 0 vs fl) (tail : Bytes) :
    fl <+: (readAll env (encList vs ++ tail)).1 ∧
      ((readAll env (encList vs ++ tail)).2 = .clean ∨ (readAll env (encList vs ++ tail)).2 = .flowRead) :=
  ⟨corrupted_tail_keeps_flows env vs fl hgood tail, never_other env hfs _⟩

/-- the transcribed dispatch keeps the reader inside `never_other`'s hypothesis -/
theorem gated_never_other {α : Type} (env : Env α) (hfs : ∀ i v, env.fromState i v ≠ .error .nonException)
    (file : Bytes) : (readAll (gated env) file).2 = .clean ∨ (readAll (gated env) file).2 = .flowRead := by
  apply never_other
  intro i v
  simp only [gated]
  split <;> first | (intro h; cases h) | exact hfs i v

/-- a well-formed dict record that the reader's `from_state` refuses (ValueError or another Exception) ends the read
    with FlowReadException after exactly the flows of the good records before it -/
private theorem refusing_record_stops {α : Type} (env : Env α) (vs : List Value) (fl : List α)
    (hgood : Good env 0 vs fl) (v : Value) (tail : Bytes)
    (hwf : WF v) (hdict : isDict v = true) (h12 : (enc v).length < 10 ^ 12)
    (hm : (enc v).length ≤ env.memLimit) (hd : depth v ≤ env.depth)
    (hfs : ∀ i, env.fromState i (mirror v) = .error .valueError ∨ env.fromState i (mirror v) = .error .exception) :
    readAll env (encList vs ++ (enc v ++ tail)) = (fl, .flowRead) := by
  have hstep : ∀ g i, streamLoop env (g + 1) i (enc v ++ tail) = ([], .flowRead) := by
    intro g i
    simp only [streamLoop, load_enc v tail _ _ hwf h12 hm hd, isDict_mirror, hdict, Bool.not_true,
      Bool.false_eq_true, if_false]
    rcases hfs i with h | h <;> simp [h]
  have hlen : ∀ l : List Value, l.length ≤ (encList l).length := by
    intro l
    induction l with
    | nil => simp
    | cons v t ih => have := enc_length_ge v; simp [encList]; omega
  have h3 := enc_length_ge v
  have hL : vs.length + 1 ≤ (encList vs ++ (enc v ++ tail)).length := by
    have := hlen vs; simp only [List.length_append]; omega
  obtain ⟨c, cs, hc, hdig⟩ : ∃ c cs, encList vs ++ (enc v ++ tail) = c :: cs ∧ isDigit c = true := by
    cases vs with
    | nil =>
      obtain ⟨c, cs, hc, hdig⟩ := enc_head_digit v
      exact ⟨c, cs ++ tail, by simp [encList, hc], hdig⟩
    | cons v0 vt =>
      obtain ⟨c, cs, hc, hdig⟩ := enc_head_digit v0
      exact ⟨c, cs ++ encList vt ++ (enc v ++ tail), by simp [encList, hc], hdig⟩
  unfold readAll
  rw [hc, sniff_digit c cs hdig]
  simp only [Bool.false_eq_true, if_false]
  rw [← hc]
  obtain ⟨g, hg⟩ : ∃ g, (encList vs ++ (enc v ++ tail)).length + 1 = vs.length + (g + 1) :=
    ⟨(encList vs ++ (enc v ++ tail)).length - vs.length, by omega⟩
  rw [hg, stream_records_tail env vs fl 0 (g + 1) _ hgood, hstep]
  simp

/-- **C36 (which records are accepted — rejected ones).** With the reader's version check and type dispatch
    transcribed (`gate`): a well-formed dict record whose loaded form the gate rejects — no / unknown / future
    version, malformed version value, missing / unregistered / unhashable type — ends the read with
    FlowReadException; exactly the flows of the good records before it are yielded, whatever follows it. -/
theorem rejected_record_stops_reader {α : Type} (env : Env α) (vs : List Value) (fl : List α)
    (hgood : Good (gated env) 0 vs fl) (v : Value) (tail : Bytes)
    (hwf : WF v) (hdict : isDict v = true) (h12 : (enc v).length < 10 ^ 12)
    (hm : (enc v).length ≤ env.memLimit) (hd : depth v ≤ env.depth)
    (hrej : gate (mirror v) = .rejectV ∨ gate (mirror v) = .rejectX) :
    readAll (gated env) (encList vs ++ (enc v ++ tail)) = (fl, .flowRead) := by
  apply refusing_record_stops (gated env) vs fl hgood v tail hwf hdict h12 hm hd
  intro i
  rcases hrej with h | h <;> simp [gated, h]

/-- **C36 (which records are accepted — accepted ones).** A record passes the transcribed dispatch only if its
    normalised version is the current flow format version and its `type` is a registered flow type. -/
theorem gate_pass_current_and_registered (v : Value) (ty : Bytes) (h : gate v = .pass ty) :
    ∃ kvs, v = .dict kvs ∧ versionClass (rawVersion kvs) = .ver Gen.C38.current ∧
      Gen.C36.flowTypes.contains ty = true := by
  cases v with
  | dict kvs =>
    refine ⟨kvs, rfl, ?_⟩
    simp only [gate] at h
    cases hv : versionClass (rawVersion kvs) with
    | typeError => rw [hv] at h; simp at h
    | floaty => rw [hv] at h; simp at h
    | notKey => rw [hv] at h; simp at h
    | ver ver =>
      rw [hv] at h
      simp only [] at h
      by_cases hcur : ver = Gen.C38.current
      · refine ⟨by rw [hcur], ?_⟩
        simp only [hcur, if_true, typeGate] at h
        split at h <;> first | (simp at h; done) | skip
        rename_i u _
        by_cases hu : u ∈ Gen.C36.flowTypes
        · have hc : Gen.C36.flowTypes.contains u = true := by simpa using hu
          rw [if_pos hc] at h; cases h; exact hc
        · have hc : ¬ (Gen.C36.flowTypes.contains u = true) := by simpa using hu
          first | (rw [if_neg hc] at h; cases h) | (rw [if_neg hu] at h; cases h)
      · simp only [hcur, if_false] at h
        split at h <;> simp at h
  | _ => simp [gate] at h

/-- the shape requirements keep the reader inside `never_other`'s hypothesis -/
theorem shaped_never_other {α : Type} (env : Env α) (hfs : ∀ i v, env.fromState i v ≠ .error .nonException)
    (file : Bytes) : (readAll (shaped env) file).2 = .clean ∨ (readAll (shaped env) file).2 = .flowRead := by
  apply never_other
  intro i v
  cases hg : gate v with
  | rejectV => simp [shaped, hg]
  | rejectX => simp [shaped, hg]
  | defer => simpa [shaped, hg] using hfs i v
  | deferShape => simpa [shaped, hg] using hfs i v
  | pass ty =>
    cases v with
    | dict kvs =>
      simp only [shaped, hg]
      by_cases hs : shape ty kvs = .bad
      · simp only [hs, if_true]
        cases hf : env.fromState i (.dict kvs) with
        | ok _ => simp
        | error e => simpa [hf] using hfs i (.dict kvs)
      · simpa [hs] using hfs i (.dict kvs)
    | _ => simp [gate] at hg

/-- **C36 (which records become flows).** Whatever the remaining parameter (field types, certificates, mode specs …) says:
    a record is turned into a flow only if it is `Acceptable` — an older version that has a converter, or the current
    version with a registered `type` and the shape `set_state` of that flow class needs: all keys it pops, no key besides
    "backup", connection states with exactly their field names, `error` / `response` / `websocket` falsy or complete,
    `request` complete, `messages` iterable. -/
theorem accepted_record_is_wellshaped {α : Type} (env : Env α) (i : Nat) (v : Value) (x : α)
    (h : (shaped env).fromState i v = .ok x) : Acceptable v := by
  cases hg : gate v with
  | rejectV => simp [shaped, hg] at h
  | rejectX => simp [shaped, hg] at h
  | defer => exact Or.inl hg
  | deferShape => exact Or.inr (Or.inl hg)
  | pass ty =>
    cases v with
    | dict kvs =>
      by_cases hs : shape ty kvs = .bad
      · simp only [shaped, hg, hs, if_true] at h
        cases hf : env.fromState i (.dict kvs) with
        | ok _ => rw [hf] at h; cases h
        | error e => rw [hf] at h; cases h
      · exact Or.inr (Or.inr ⟨ty, kvs, rfl, hg, hs⟩)
    | _ => simp [gate] at hg

/-- **C36 (every flow of every file).** For ANY byte string: the flows the reader loop yields correspond one to one to
    loaded records (`yieldedFrom`), and every one of those records is `Acceptable`. -/
theorem yielded_flows_come_from_acceptable_records {α : Type} (env : Env α) :
    ∀ (f i : Nat) (s : Bytes),
      (yieldedFrom (shaped env) f i s).length = (streamLoop (shaped env) f i s).1.length ∧
      ∀ v ∈ yieldedFrom (shaped env) f i s, Acceptable v := by
  intro f
  induction f with
  | zero => intro i s; simp [yieldedFrom, streamLoop]
  | succ f ih =>
    intro i s
    simp only [yieldedFrom, streamLoop]
    have hml : (shaped env).memLimit = env.memLimit := rfl
    cases hl : load (shaped env).memLimit (shaped env).depth s with
    | error e =>
      simp only []
      by_cases he : e = .emptyFile
      · simp [he]
      · by_cases hc : caughtOuter e = true <;> simp [he, hc]
    | ok p =>
      obtain ⟨v, rest⟩ := p
      simp only []
      by_cases hd : isDict v = true
      · simp only [hd, Bool.not_true, Bool.false_eq_true, if_false]
        cases hf : (shaped env).fromState i v with
        | error x => cases x <;> simp
        | ok fl =>
          simp only []
          obtain ⟨h1, h2⟩ := ih (i + 1) rest
          refine ⟨by simp [h1], ?_⟩
          intro w hw
          rcases List.mem_cons.mp hw with hw | hw
          · rw [hw]; exact accepted_record_is_wellshaped env i v fl hf
          · exact h2 w hw
      · simp [hd]

/-- **C36 (which records are accepted — ill-shaped ones).** A well-formed dict record of the current version and a
    registered type whose shape `set_state` refuses (a popped key missing, a foreign key, a connection state with a field
    missing or unknown, a truthy but incomplete `error` / `response` / `websocket`, an incomplete `request`, non-iterable
    `messages`) ends the read with FlowReadException after exactly the flows before it — whatever the parameter says about it. -/
theorem illshaped_record_stops_reader {α : Type} (env : Env α) (hnx : ∀ i v, env.fromState i v ≠ .error .nonException)
    (vs : List Value) (fl : List α) (hgood : Good (shaped env) 0 vs fl) (v : Value) (tail : Bytes)
    (hwf : WF v) (hdict : isDict v = true) (h12 : (enc v).length < 10 ^ 12)
    (hm : (enc v).length ≤ env.memLimit) (hd : depth v ≤ env.depth)
    (ty : Bytes) (kvs : List (Value × Value)) (hv : mirror v = .dict kvs) (hg : gate (.dict kvs) = .pass ty)
    (hs : shape ty kvs = .bad) :
    readAll (shaped env) (encList vs ++ (enc v ++ tail)) = (fl, .flowRead) := by
  apply refusing_record_stops (shaped env) vs fl hgood v tail hwf hdict h12 hm hd
  intro i
  rw [hv]
  simp only [shaped, hg, hs, if_true]
  cases hf : env.fromState i (.dict kvs) with
  | ok _ => exact Or.inr rfl
  | error e =>
    cases e with
    | valueError => exact Or.inl rfl
    | exception => exact Or.inr rfl
    | nonException => exact absurd hf (hnx i _)

/-- what `converted` does for a record, by cases (used by the three theorems below) -/
private theorem converted_fromState {α : Type} (env : Env α) (i : Nat) (v : Value) :
    (converted env).fromState i v =
      match gate v, v with
      | .defer, .dict kvs =>
        match convert kvs with
        | .refusedV => .error .valueError
        | .refusedX => .error .exception
        | .current ty d =>
          if shape ty d = .bad then
            match env.fromState i v with
            | .ok _ => .error .exception
            | .error e => .error e
          else env.fromState i v
        | .notModelled => env.fromState i v
      | _, _ => (shaped env).fromState i v := rfl

/-- with the converter chain for formats 19 / 20 transcribed the reader still ends cleanly or with FlowReadException -/
theorem converted_never_other {α : Type} (env : Env α) (hfs : ∀ i v, env.fromState i v ≠ .error .nonException)
    (file : Bytes) : (readAll (converted env) file).2 = .clean ∨ (readAll (converted env) file).2 = .flowRead := by
  apply never_other
  intro i v
  have hsh : (shaped env).fromState i v ≠ .error .nonException := by
    cases hg : gate v with
    | rejectV => simp [shaped, hg]
    | rejectX => simp [shaped, hg]
    | defer => simpa [shaped, hg] using hfs i v
    | deferShape => simpa [shaped, hg] using hfs i v
    | pass ty =>
      cases v with
      | dict kvs =>
        simp only [shaped, hg]
        by_cases hs : shape ty kvs = .bad
        · simp only [hs, if_true]
          cases hf : env.fromState i (.dict kvs) with
          | ok _ => simp
          | error e => simpa [hf] using hfs i (.dict kvs)
        · simpa [hs] using hfs i (.dict kvs)
      | _ => simp [gate] at hg
  rw [converted_fromState]
  cases hg : gate v with
  | defer =>
    cases v with
    | dict kvs =>
      simp only []
      cases hc : convert kvs with
      | refusedV => simp
      | refusedX => simp
      | notModelled => simpa using hfs i (.dict kvs)
      | current ty d =>
        simp only []
        by_cases hs : shape ty d = .bad
        · simp only [hs, if_true]
          cases hf : env.fromState i (.dict kvs) with
          | ok _ => simp
          | error e => simpa [hf] using hfs i (.dict kvs)
        · simpa [hs] using hfs i (.dict kvs)
    | _ => simpa [hg] using hsh
  | _ => simpa [hg] using hsh

/-- **C36 (older formats 19 and 20).** A well-formed dict record of flow format 19 or 20 for which the transcribed chain
    (`convert_19_20`, `convert_20_21` of Model/C38_Conv inside `migrate_flow`'s loop, then the type dispatch) fails — a
    converter meets a missing / ill-typed connection state, the version sits under the stale bytes key, the type is missing
    or unregistered — ends the read with FlowReadException after exactly the flows before it. -/
theorem unconvertible_record_stops_reader {α : Type} (env : Env α)
    (vs : List Value) (fl : List α) (hgood : Good (converted env) 0 vs fl) (v : Value) (tail : Bytes)
    (hwf : WF v) (hdict : isDict v = true) (h12 : (enc v).length < 10 ^ 12)
    (hm : (enc v).length ≤ env.memLimit) (hd : depth v ≤ env.depth)
    (kvs : List (Value × Value)) (hv : mirror v = .dict kvs) (hg : gate (.dict kvs) = .defer)
    (hc : (match convert kvs with | .refusedV => true | .refusedX => true | _ => false) = true) :
    readAll (converted env) (encList vs ++ (enc v ++ tail)) = (fl, .flowRead) := by
  apply refusing_record_stops (converted env) vs fl hgood v tail hwf hdict h12 hm hd
  intro i
  rw [hv, converted_fromState]
  simp only [hg]
  cases hcv : convert kvs with
  | refusedV => exact Or.inl rfl
  | refusedX => exact Or.inr rfl
  | current ty d => rw [hcv] at hc; simp at hc
  | notModelled => rw [hcv] at hc; simp at hc

/-- **C36 (which older records become flows).** A format-19/20 record is turned into a flow only if the chain converts it,
    its type is registered and the CONVERTED state has the shape `set_state` needs (or the case is outside the transcription). -/
theorem converted_accept_needs_convertible {α : Type} (env : Env α) (i : Nat) (kvs : List (Value × Value)) (x : α)
    (hg : gate (.dict kvs) = .defer) (h : (converted env).fromState i (.dict kvs) = .ok x) :
    (match convert kvs with
      | .refusedV => False
      | .refusedX => False
      | .current ty d => shape ty d ≠ .bad
      | .notModelled => True) := by
  rw [converted_fromState] at h
  simp only [hg] at h
  cases hc : convert kvs with
  | refusedV => rw [hc] at h; cases h
  | refusedX => rw [hc] at h; cases h
  | notModelled => trivial
  | current ty d =>
    rw [hc] at h
    simp only [] at h ⊢
    intro hs
    simp only [hs, if_true] at h
    cases hf : env.fromState i (.dict kvs) with
    | ok _ => rw [hf] at h; cases h
    | error e => rw [hf] at h; cases h

/-- the one-to-one correspondence between yielded flows and loaded records, for ANY reader environment and ANY property
    that its `from_state` guarantees of the records it accepts -/
private theorem yielded_all {α : Type} (env : Env α) (P : Value → Prop)
    (hP : ∀ i v x, env.fromState i v = .ok x → P v) :
    ∀ (f i : Nat) (s : Bytes),
      (yieldedFrom env f i s).length = (streamLoop env f i s).1.length ∧ ∀ v ∈ yieldedFrom env f i s, P v := by
  intro f
  induction f with
  | zero => intro i s; simp [yieldedFrom, streamLoop]
  | succ f ih =>
    intro i s
    simp only [yieldedFrom, streamLoop]
    cases hl : load env.memLimit env.depth s with
    | error e =>
      simp only []
      by_cases he : e = .emptyFile
      · simp [he]
      · by_cases hc : caughtOuter e = true <;> simp [he, hc]
    | ok p =>
      obtain ⟨v, rest⟩ := p
      simp only []
      by_cases hd : isDict v = true
      · simp only [hd, Bool.not_true, Bool.false_eq_true, if_false]
        cases hf : env.fromState i v with
        | error x => cases x <;> simp
        | ok fl =>
          simp only []
          obtain ⟨h1, h2⟩ := ih (i + 1) rest
          refine ⟨by simp [h1], ?_⟩
          intro w hw
          rcases List.mem_cons.mp hw with hw | hw
          · rw [hw]; exact hP i v fl hf
          · exact h2 w hw
      · simp [hd]

/-- **C36 (every flow of every file, older formats included).** For ANY byte string, with the converter chain for the
    integer formats 5 … 20 in the reader: the yielded flows correspond one to one to loaded records, and each of these is
    of the current format with registered type and admissible shape, or of format 5 … 20 and convertible to such a
    state (or lies outside the transcription: format 4, tuple-era formats, the two branches left out). -/
theorem converted_yielded_flows_acceptable {α : Type} (env : Env α) (f i : Nat) (s : Bytes) :
    (yieldedFrom (converted env) f i s).length = (streamLoop (converted env) f i s).1.length ∧
    ∀ v ∈ yieldedFrom (converted env) f i s, AcceptableC v := by
  apply yielded_all (converted env) AcceptableC
  intro i v x h
  refine ⟨?_, ?_⟩
  · intro hnd
    apply accepted_record_is_wellshaped env i v x
    rw [converted_fromState] at h
    cases hg : gate v with
    | defer => exact absurd hg hnd
    | rejectV => simpa [hg] using h
    | rejectX => simpa [hg] using h
    | deferShape => simpa [hg] using h
    | pass ty => simpa [hg] using h
  · intro hg kvs hv
    subst hv
    exact converted_accept_needs_convertible env i kvs x hg h

/-- **C36 (reads may be chunked any way).** `BufferedReader.read(k)` over a raw stream that delivers its content in
    ANY segments returns the same bytes, and leaves the same unread content, as reading the concatenated content. -/
theorem read_chunk_independent (segs : List Bytes) (k : Nat) :
    (readN segs k).1 = (flatRd segs.flatten k).1 ∧ (readN segs k).2.flatten = (flatRd segs.flatten k).2 :=
  readN_flatten segs k

/-- **C36 (`load` does not depend on how the file delivers its bytes).** `tnetstring.load`, written against the
    `read` environment exactly as the Python uses it (`read(1)` per prefix byte, `read(n)`, `read(1)`), run on a buffered
    reader over ANY segmentation of the stream — buffer refills, short raw reads, pipe chunks falling anywhere,
    also in the middle of a length prefix — returns what `load` returns on the whole content: same value or same
    error, same unread rest. -/
theorem load_chunk_independent (m d : Nat) (segs : List Bytes) :
    (loadVia readN m d (segs.flatten.length + 2) segs).map (fun p => (p.1, p.2.flatten)) = load m d segs.flatten := by
  rw [loadVia_sim, loadVia_flat]

/-- two deliveries of the same content give the same result -/
theorem load_same_for_all_segmentations (m d : Nat) (segs segs' : List Bytes) (h : segs.flatten = segs'.flatten) :
    (loadVia readN m d (segs.flatten.length + 2) segs).map (fun p => (p.1, p.2.flatten))
      = (loadVia readN m d (segs'.flatten.length + 2) segs').map (fun p => (p.1, p.2.flatten)) := by
  rw [load_chunk_independent, load_chunk_independent, h]

-- ------------------------------------------------------------------------------------------------
-- non-vacuity and sanity (computed by the kernel)
-- ------------------------------------------------------------------------------------------------
/-- {"a": [-12, True], b"bc": None} -/
private def sample : Value :=
  .dict [(.str [0x61], .list [.int (-12), .bool true]), (.bytes [0x62, 0x63], .null)]

-- dumps emits 29:2:bc,0:~1:a;13:3:-12#4:true!]}   (second item first)
example : dumps sample =
    [0x32,0x39,0x3a, 0x32,0x3a,0x62,0x63,0x2c, 0x30,0x3a,0x7e, 0x31,0x3a,0x61,0x3b,
     0x31,0x33,0x3a, 0x33,0x3a,0x2d,0x31,0x32,0x23, 0x34,0x3a,0x74,0x72,0x75,0x65,0x21, 0x5d, 0x7d] := by
  decide +kernel
-- the hypotheses of pop_dumps / load_dumps are satisfiable by it
example : WF sample := by
  simp [sample, WF, WFPairs, WFList, hashable, utf8Valid, maxStrDigits]
  decide +kernel
example : depth sample ≤ 2 := by decide +kernel
-- and the parsers really return the mirrored value
example : popTop 5 (dumps sample ++ [0x78]) =
    .ok (.dict [(.bytes [0x62, 0x63], .null), (.str [0x61], .list [.int (-12), .bool true])], [0x78]) := by
  rfl
-- the parsers do reject things, each with its own class
example : popTop 5 [0x31, 0x3a, 0x61] = .error .value := by rfl            -- "1:a"  (no type tag)
example : load 100 5 [0x31, 0x3a, 0x61] = .error .index := by rfl          -- same bytes, file reader
example : load 100 5 [] = .error .emptyFile := by rfl
example : load 100 0 [0x33, 0x3a, 0x30, 0x3a, 0x7e, 0x5d] = .error .recursion := by rfl  -- "3:0:~]" without head-room
example : load 2 5 [0x33, 0x3a, 0x30, 0x3a, 0x7e, 0x5d] = .error .memory := by rfl
example : popTop 5 [0x36, 0x3a, 0x30, 0x3a, 0x5d, 0x30, 0x3a, 0x7e, 0x7d] = .error .type := by rfl -- {[]: None}
-- negative length prefix: Python slice semantics  ("-1:abc," -> b"abc", rest b"abc,")
example : popTop 5 [0x2d, 0x31, 0x3a, 0x61, 0x62, 0x63, 0x2c] = .ok (.bytes [0x61, 0x62, 0x63], [0x61, 0x62, 0x63, 0x2c]) := by
  rfl
-- a reader whose from_state raises a non-Exception is outside never_other's hypothesis, and does escape
example : (readAll (α := Nat) ⟨100, 5, fun _ _ => .error .nonException, fun _ => ([], true)⟩ [0x30, 0x3a, 0x7d]).2 = .escapes := by
  decide +kernel
example : (readAll (α := Nat) ⟨100, 5, fun _ _ => .error .exception, fun _ => ([], true)⟩ [0x30, 0x3a, 0x7d]).2 = .flowRead := by
  decide +kernel

-- the transcribed dispatch on concrete loaded records
private def kv (k : String) (v : Value) : Value × Value := (.str k.toUTF8.toList, v)
example : gate (.dict [kv "version" (.int 21), kv "type" (.str "http".toUTF8.toList)]) = .pass "http".toUTF8.toList := by decide +kernel
example : gate (.dict [kv "version" (.int 21)]) = .rejectX := by decide +kernel                         -- KeyError 'type'
example : gate (.dict [kv "version" (.int 21), kv "type" (.str "ftp".toUTF8.toList)]) = .rejectV := by decide +kernel
example : gate (.dict [kv "version" (.int 99)]) = .rejectV := by decide +kernel                         -- please update
example : gate (.dict [kv "version" (.int 20)]) = .defer := by decide +kernel
example : gate (.dict []) = .rejectX := by decide +kernel                                                -- tuple(None)
example : gate (.dict [(.bytes bVersion, .list [.int 3, .int 0]), kv "version" (.int 21)]) = .defer := by decide +kernel  -- b"version" wins
example : gate (.dict [kv "version" (.bytes [0, 11])]) = .defer := by decide +kernel                    -- tuple(b"\x00\x0b") == (0, 11)
example : gate (.dict [kv "version" (.list [.list [], .int 1])]) = .rejectX := by decide +kernel        -- unhashable component

-- `peek` is the primitive that is NOT independent of the segmentation: the same content "12:", delivered in one piece
-- or with the buffer running out after the first digit, peeks differently — a length prefix fetched with one peek()
-- breaks exactly there, while the read-based load above cannot
example : peekSeg [[0x31, 0x32, 0x3a]] 13 = [0x31, 0x32, 0x3a] ∧ peekSeg [[0x31], [0x32, 0x3a]] 13 = [0x31] := by decide +kernel
example : (loadVia readN 100 5 20 [[0x33], [0x3a, 0x61], [0x62, 0x63, 0x2c, 0x78]]).map (fun p => (p.1, p.2.flatten))
    = .ok (.bytes [0x61, 0x62, 0x63], [0x78]) := by rfl

-- the shape requirements on concrete records (current version, type tcp)
private def tcpKeys : List (Value × Value) :=
  (Gen.C36.typeKeys.find? (·.1 == sb "tcp")).map (fun p => p.2.map (fun k => (Value.str k, Value.null))) |>.getD []
example : exactKeys tcpKeys ((Gen.C36.typeKeys.find? (·.1 == sb "tcp")).map (·.2) |>.getD []) [bBackup] = true := by decide +kernel
example : shape (sb "tcp") tcpKeys = .bad := by decide +kernel                       -- client_conn is None, not a connection state
example : shape (sb "tcp") (tcpKeys.drop 1) = .bad := by decide +kernel              -- a popped key missing
example : optSub (some (.dict [])) Gen.C36.responseKeys = .good ∧ optSub (some (.int 5)) Gen.C36.responseKeys = .bad
    ∧ optSub (some (.float [0x30, 0x2e, 0x30])) Gen.C36.responseKeys = .unknown := by decide +kernel

-- formats 19 / 20 on concrete records: a bare {"version": 20} dies inside convert_20_21 (KeyError 'client_conn');
-- the version under the stale bytes key is refused after one conversion ("conflicting version information")
private def conn : Value := .dict [kv "tls_version" (.str "QUIC".toUTF8.toList)]
example : (match convert [kv "version" (.int 20)] with | .refusedX => true | _ => false) = true := by decide +kernel
example : (match convert [(.bytes bVersion, .int 20), kv "client_conn" conn, kv "server_conn" conn] with
    | .refusedV => true | _ => false) = true := by decide +kernel
example : (match convert [kv "version" (.int 20), kv "type" (.str "tcp".toUTF8.toList), kv "client_conn" conn, kv "server_conn" conn] with
    | .current ty d => ty == sb "tcp" && (match C38Conv.dget d (sb "version") with | some (Value.int n) => n == 21 | _ => false)
    | _ => false) = true := by decide +kernel

end MitmVerif.Props.C36

-- ------------------------------------------------------------------------------------------------
-- cross-audit (round 6): the hypotheses of the reader theorems hold together on concrete files
-- ------------------------------------------------------------------------------------------------
namespace MitmVerif.Props.C36
open MitmVerif MitmVerif.C36

private def envA : Env Nat := ⟨1000, 10, fun i _ => .ok i, fun _ => ([], true)⟩
private def recHttp : Value := .dict [kv "version" (.int 21), kv "type" (.str "http".toUTF8.toList)]
private def recFuture : Value := .dict [kv "version" (.int 99)]
private def recTcpBare : Value := .dict [kv "type" (.str "tcp".toUTF8.toList), kv "version" (.int 21)]
private def recOld : Value := .dict [kv "version" (.int 20)]

-- `Good` for a two-record file (a nested record and the empty dict); read_roundtrip and corrupted_tail_keeps_flows on it
example : readAll envA (encList [sample, .dict []]) = ([0, 1], .clean) ∧
    [0, 1] <+: (readAll envA (encList [sample, .dict []] ++ [0x39, 0x39, 0x3a, 0x78])).1 := by
  have hg : Good envA 0 [sample, .dict []] [0, 1] := by
    simp only [Good, envA, isDict, sample, and_true]
    refine ⟨⟨?_, ?_, ?_, ?_⟩, ?_, ?_, ?_⟩
    · simp [WF, WFPairs, WFList, hashable, utf8Valid, maxStrDigits]; decide +kernel
    · decide +kernel
    · decide +kernel
    · decide +kernel
    · simp [WF, WFPairs]
    · decide +kernel
    · decide +kernel
  exact ⟨read_roundtrip envA _ _ hg, corrupted_tail_keeps_flows envA _ _ hg _⟩

-- rejected_record_stops_reader with a NON-EMPTY good prefix: a current-version http record passes the gate, a version-99 record stops the read
example : readAll (gated envA) (encList [recHttp] ++ (enc recFuture ++ [0x78])) = ([0], .flowRead) := by
  have hg : Good (gated envA) 0 [recHttp] [0] := by
    simp only [Good, and_true]
    refine ⟨?_, ?_, ?_, ?_, ?_, ?_⟩
    · simp [recHttp, kv, WF, WFPairs, hashable, utf8Valid, maxStrDigits]; decide +kernel
    · decide +kernel
    · decide +kernel
    · decide +kernel
    · decide +kernel
    · have hgate : gate (mirror recHttp) = .pass "http".toUTF8.toList := by decide +kernel
      simp [gated, hgate, envA]
  refine rejected_record_stops_reader envA [recHttp] [0] hg recFuture [0x78] ?_ (by decide +kernel) (by decide +kernel)
    (by decide +kernel) (by decide +kernel) (Or.inl (by decide +kernel))
  simp [recFuture, kv, WF, WFPairs, hashable, utf8Valid, maxStrDigits]; decide +kernel

-- illshaped_record_stops_reader / unconvertible_record_stops_reader (good prefix empty: a shape-good record needs a whole flow state)
example : readAll (shaped envA) (encList [] ++ (enc recTcpBare ++ [0x78])) = ([], .flowRead) := by
  refine illshaped_record_stops_reader envA (by intro i v h; cases h) [] [] trivial recTcpBare [0x78] ?_ (by decide +kernel)
    (by decide +kernel) (by decide +kernel) (by decide +kernel) (sb "tcp")
    [kv "version" (.int 21), kv "type" (.str "tcp".toUTF8.toList)] rfl (by decide +kernel) (by decide +kernel)
  simp [recTcpBare, kv, WF, WFPairs, hashable, utf8Valid, maxStrDigits]; decide +kernel

example : readAll (converted envA) (encList [] ++ (enc recOld ++ [0x78])) = ([], .flowRead) := by
  refine unconvertible_record_stops_reader envA [] [] trivial recOld [0x78] ?_ (by decide +kernel) (by decide +kernel)
    (by decide +kernel) (by decide +kernel) [kv "version" (.int 20)] rfl (by decide +kernel) (by decide +kernel)
  simp [recOld, kv, WF, WFPairs, hashable, utf8Valid, maxStrDigits]; decide +kernel

end MitmVerif.Props.C36

-- a COMPLETE current-version tcp record (every key `set_state` pops, connection states with exactly their field names,
-- no error, no messages): it passes the gate with a good shape, so `accepted_record_is_wellshaped` is met in its main
-- branch, and it serves as a NON-EMPTY good prefix for `illshaped_record_stops_reader`
namespace MitmVerif.Props.C36
open MitmVerif MitmVerif.C36

private def nullDict (keys : List Bytes) : Value := .dict (keys.map (fun k => (Value.str k, Value.null)))
private def tcpFull : List (Value × Value) :=
  ((Gen.C36.typeKeys.find? (·.1 == sb "tcp")).map (·.2) |>.getD []).map (fun k =>
    (Value.str k,
      if k == sb "version" then Value.int 21
      else if k == sb "type" then Value.str (sb "tcp")
      else if k == sb "client_conn" then nullDict Gen.C36.clientKeys
      else if k == sb "server_conn" then nullDict Gen.C36.serverKeys
      else if k == sb "messages" then Value.list []
      else Value.null))

example : gate (.dict tcpFull) = .pass (sb "tcp") ∧ shape (sb "tcp") tcpFull = .good := by decide +kernel

example : Acceptable (.dict tcpFull) := by
  have hg : gate (.dict tcpFull) = .pass (sb "tcp") := by decide +kernel
  have hs : shape (sb "tcp") tcpFull = .good := by decide +kernel
  have hne : ¬ (shape (sb "tcp") tcpFull = .bad) := by rw [hs]; decide
  exact accepted_record_is_wellshaped envA 0 (.dict tcpFull) 0 (by simp [shaped, hg, hne, envA])

end MitmVerif.Props.C36

-- owner round 6 (audit item N2): the remaining main-branch witnesses
namespace MitmVerif.Props.C36
open MitmVerif MitmVerif.C36

/-- the complete tcp state of the audit, written in flow format 20 -/
private def tcpFull20 : List (Value × Value) :=
  tcpFull.map (fun p => match p.1 with
    | .str u => if u == sb "version" then (p.1, Value.int 20) else p
    | _ => p)

-- `converted_accept_needs_convertible` in its `.current` branch: the format-20 record is converted (version 21 written),
-- dispatched to `tcp`, and the CONVERTED state has a good shape
example : gate (.dict tcpFull20) = .defer ∧
    (match convert tcpFull20 with
      | .current ty d => ty == sb "tcp" && decide (shape ty d = .good) &&
          (match C38Conv.dget d (sb "version") with | some (Value.int n) => n == 21 | _ => false)
      | _ => false) = true := by decide +kernel

example : (match convert tcpFull20 with
      | .refusedV => False
      | .refusedX => False
      | .current ty d => shape ty d ≠ .bad
      | .notModelled => True) := by
  have hg : gate (.dict tcpFull20) = .defer := by decide +kernel
  refine converted_accept_needs_convertible envA 0 tcpFull20 0 hg ?_
  have hc : (match convert tcpFull20 with | .current ty d => decide (shape ty d ≠ .bad) | _ => false) = true := by decide +kernel
  rw [converted_fromState]
  simp only [hg]
  cases hcv : convert tcpFull20 with
  | refusedV => rw [hcv] at hc; simp at hc
  | refusedX => rw [hcv] at hc; simp at hc
  | notModelled => rw [hcv] at hc; simp at hc
  | current ty d =>
    rw [hcv] at hc
    have hs : ¬ (shape ty d = .bad) := by simpa using hc
    simp [hs, envA]

-- `illshaped_record_stops_reader` with a NON-EMPTY good prefix: the complete tcp record becomes flow 0, the bare one ends the read
example : readAll (shaped envA) (encList [.dict tcpFull] ++ (enc recTcpBare ++ [0x78])) = ([0], .flowRead) := by
  have hgate : gate (mirror (.dict tcpFull)) = .pass (sb "tcp") := by decide +kernel
  have hshape : (match mirror (.dict tcpFull) with | .dict kvs => decide (shape (sb "tcp") kvs = .good) | _ => false) = true := by
    decide +kernel
  have hg : Good (shaped envA) 0 [.dict tcpFull] [0] := by
    simp only [Good, and_true]
    refine ⟨?_, ?_, ?_, ?_, ?_, ?_⟩
    · have : (tcpFull.all (fun p => hashable p.1)) = true := by decide +kernel
      simp only [WF]
      rw [WFPairs_iff]
      intro p hp
      have hall : ∀ q ∈ tcpFull, WF q.1 ∧ hashable q.1 = true ∧ WF q.2 := by
        have hk : tcpFull.all (fun q => (match q.1 with | .str u => utf8Valid u | _ => false) &&
            (match q.2 with
              | .null => true | .int i => decide ((natDec i.natAbs).length ≤ maxStrDigits) | .str u => utf8Valid u
              | .list [] => true
              | .dict kvs => kvs.all (fun r => (match r.1 with | .str u => utf8Valid u | _ => false) && (match r.2 with | .null => true | _ => false))
              | _ => false)) = true := by decide +kernel
        intro q hq
        have hq' := List.all_eq_true.mp hk q hq
        obtain ⟨k, v⟩ := q
        simp only [Bool.and_eq_true] at hq'
        obtain ⟨hk1, hv1⟩ := hq'
        cases k with
        | str u =>
          refine ⟨by simpa [WF] using hk1, by simp [hashable], ?_⟩
          cases v with
          | null => simp [WF]
          | bool b => simp at hv1
          | int i => simpa [WF] using hv1
          | float t => simp at hv1
          | bytes b => simp at hv1
          | str w => simpa [WF] using hv1
          | list l =>
            cases l with
            | nil => simp [WF, WFList]
            | cons _ _ => simp at hv1
          | dict kvs =>
            simp only [WF]
            rw [WFPairs_iff]
            intro r hr
            have hr' := List.all_eq_true.mp hv1 r hr
            simp only [Bool.and_eq_true] at hr'
            obtain ⟨rk, rv⟩ := r
            cases rk with
            | str w =>
              cases rv with
              | null => exact ⟨by simpa [WF] using hr'.1, by simp [hashable], by simp [WF]⟩
              | _ => simp at hr'
            | _ => simp at hr'
        | _ => simp at hk1
      exact hall p hp
    · rfl
    · decide +kernel
    · decide +kernel
    · decide +kernel
    · cases hm : mirror (.dict tcpFull) with
      | dict kvs =>
        rw [hm] at hgate hshape
        have hs : shape (sb "tcp") kvs = .good := by simpa using hshape
        simp [shaped, hgate, hs, envA]
      | _ => rw [hm] at hshape; simp at hshape
  refine illshaped_record_stops_reader envA (by intro i v h; cases h) [.dict tcpFull] [0] hg recTcpBare [0x78] ?_ (by decide +kernel)
    (by decide +kernel) (by decide +kernel) (by decide +kernel) (sb "tcp")
    [kv "version" (.int 21), kv "type" (.str "tcp".toUTF8.toList)] rfl (by decide +kernel) (by decide +kernel)
  simp [recTcpBare, kv, WF, WFPairs, hashable, utf8Valid, maxStrDigits]; decide +kernel

end MitmVerif.Props.C36
