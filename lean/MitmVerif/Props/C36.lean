/-
  C36 — flow files round-trip every flow type; reading never fails unexpectedly.  Property theorems.

  * `dumps_eq_enc`       : the reverse-deque construction of `tnetstring.dumps` (with its size accounting) emits
                           exactly the recursive encoding `enc` (dict items in reverse iteration order)
  * `pop_dumps`          : `pop (dumps v ++ r) = (mirror v, r)` for every well-formed value and every rest
  * `load_dumps`         : the same for the file based `load`
  * `mirror_equiv`       : `mirror v ≈ v` (dicts as finite maps); `mirror_involutive`: a second cycle restores order
  * `read_roundtrip`     : a file holding n flow states reads back as the n flows, in order, and ends cleanly
  * `pop_total`, `load_total`, `stream_total` : the parsers are total — the model's fuel never runs out
  * `load_error_caught`  : whatever `load` raises is one of the classes `FlowReader.stream` catches
  * `never_other`        : `FlowReader.stream` on ANY bytes ends cleanly or with FlowReadException
-/
import MitmVerif.Lemmas.C36
namespace MitmVerif.Props.C36
open MitmVerif MitmVerif.C36

/-- **dumps.** `_rdumpq`'s last-chunk-first deque construction and running size computation produce the plain
    recursive encoding: every length prefix is the true payload length. -/
theorem dumps_eq_enc (v : Value) : dumps v = enc v := by
  simp [dumps, rdumpq_eq v [] 0]

/-- **C36 (codec round trip, memoryview parser).** For every well-formed value `v` (see `WF`), any following bytes
    `r` and any recursion head-room `d ≥ depth v`: `pop(dumps(v) + r)` returns `(mirror v, r)` — the value with each
    dict's items in reverse order — and leaves `r` untouched. -/
theorem pop_dumps (v : Value) (r : Bytes) (d : Nat) (hwf : WF v) (hsz : (dumps v).length < sizeLimit)
    (hd : depth v ≤ d) : popTop d (dumps v ++ r) = .ok (mirror v, r) := by
  rw [dumps_eq_enc] at hsz ⊢
  exact pop_enc v r _ d hwf hsz (by simp; omega) hd

/-- **C36 (codec round trip, file reader).** `tnetstring.load` on a file whose unread content is `dumps v ++ r`
    returns `mirror v` and leaves exactly `r` unread, provided the record is shorter than 10^12 bytes (the
    12-digit length-prefix limit of `load`), fits the allocator and the recursion head-room. -/
theorem load_dumps (v : Value) (r : Bytes) (m d : Nat) (hwf : WF v) (h12 : (dumps v).length < 10 ^ 12)
    (hm : (dumps v).length ≤ m) (hd : depth v ≤ d) : load m d (dumps v ++ r) = .ok (mirror v, r) := by
  rw [dumps_eq_enc] at h12 hm ⊢
  exact load_enc v r m d hwf h12 hm hd

private theorem equiv_list : ∀ l : List Value, (∀ v ∈ l, Equiv (mirror v) v) →
    Equiv (.list (l.map mirror)) (.list l) := by
  intro l
  induction l with
  | nil => intro _; exact Equiv.refl _
  | cons v t ih =>
    intro h
    exact Equiv.listCons (h v (by simp)) (ih (fun x hx => h x (by simp [hx])))

private theorem equiv_pairs : ∀ kvs : List (Value × Value), (∀ p ∈ kvs, Equiv (mirror p.1) p.1 ∧ Equiv (mirror p.2) p.2) →
    Equiv (.dict (kvs.map mirrorPair)) (.dict kvs) := by
  intro kvs
  induction kvs with
  | nil => intro _; exact Equiv.refl _
  | cons p t ih =>
    intro h
    obtain ⟨h1, h2⟩ := h p (by simp)
    exact Equiv.dictCons h1 h2 (ih (fun x hx => h x (by simp [hx])))

/-- **C36 (the loaded value is the saved value).** What comes back differs from what was saved only in the
    iteration order of dicts: `mirror v ≈ v` with dicts compared as finite maps. -/
theorem mirror_equiv : ∀ v : Value, Equiv (mirror v) v := by
  apply Value.ind
  · exact Equiv.refl _
  · intro b; exact Equiv.refl _
  · intro i; exact Equiv.refl _
  · intro t; exact Equiv.refl _
  · intro b; exact Equiv.refl _
  · intro b; exact Equiv.refl _
  · intro l ih
    simp only [mirror, mirrorList_eq]
    exact equiv_list l ih
  · intro kvs ih
    simp only [mirror, mirrorPairsRev_eq]
    refine Equiv.trans (Equiv.dictPerm ?_) (equiv_pairs kvs ih)
    exact (List.reverse_perm kvs).map mirrorPair

/-- a second save/load cycle restores the original item order exactly -/
theorem mirror_involutive : ∀ v : Value, mirror (mirror v) = v := by
  apply Value.ind
  · rfl
  · intro b; rfl
  · intro i; rfl
  · intro t; rfl
  · intro b; rfl
  · intro b; rfl
  · intro l ih
    simp only [mirror, mirrorList_eq, List.map_map]
    congr 1
    conv => rhs; rw [← List.map_id l]
    exact List.map_congr_left (fun v hv => by simpa using ih v hv)
  · intro kvs ih
    simp only [mirror, mirrorPairsRev_eq, List.map_reverse, List.reverse_reverse, List.map_map]
    congr 1
    conv => rhs; rw [← List.map_id kvs]
    exact List.map_congr_left (fun p hp => by
      obtain ⟨h1, h2⟩ := ih p hp
      simp [mirrorPair, h1, h2])

/-- **C36 (flow files round-trip, in order).** A file that consists of the dumped states `vs` — each a well-formed
    dict state within the reader's limits, which `from_state ∘ migrate_flow` maps (as loaded) to the flow at the same
    position of `fl` — reads back as exactly the flows `fl`, in the same order, and the reader ends cleanly. -/
theorem read_roundtrip {α : Type} (env : Env α) (vs : List Value) (fl : List α) (h : Good env 0 vs fl) :
    readAll env (encList vs) = (fl, .clean) := by
  have hs : ∀ f, vs.length + 1 ≤ f → streamLoop env f 0 (encList vs) = (fl, .clean) := by
    intro f hf
    have := stream_records env vs fl 0 f [] .clean h (fun g hg => streamLoop_nil env g _ hg) hf
    simpa using this
  have hlen : ∀ l : List Value, l.length ≤ (encList l).length := by
    intro l
    induction l with
    | nil => simp
    | cons v t ih => have := enc_length_ge v; simp [encList]; omega
  cases vs with
  | nil =>
    unfold readAll
    simp only [encList, sniff_nil, Bool.false_eq_true, if_false]
    exact hs _ (by simp)
  | cons v vt =>
    obtain ⟨c, cs, hc, hdig⟩ := enc_head_digit v
    have : encList (v :: vt) = c :: (cs ++ encList vt) := by simp [encList, hc]
    unfold readAll
    rw [this, sniff_digit c _ hdig]
    simp only [Bool.false_eq_true, if_false]
    rw [← this]
    exact hs _ (by have := hlen (v :: vt); omega)

/-- the file written for the states `vs` is the concatenation of their dumps -/
theorem encList_eq_dumps (vs : List Value) : encList vs = (vs.map dumps).flatten := by
  induction vs with
  | nil => simp [encList]
  | cons v t ih => simp [encList, ih, dumps_eq_enc]

/-- **C36 (totality, memoryview parser).** `pop` on ANY byte string, with any recursion head-room, returns a value
    or raises one of its Python exceptions; the model's fuel is never the reason for failing. -/
theorem pop_total (d : Nat) (s : Bytes) : popTop d s ≠ .error .fuel :=
  (no_fuel (s.length + 1)).1 d s (Nat.le_refl _)

/-- **C36 (what load can raise).** On ANY file content and in ANY environment, an error of `tnetstring.load` is
    the end-of-file ValueError, ValueError, TypeError, IndexError, RecursionError or MemoryError — exactly the
    classes named by the `except` clause around it in `FlowReader.stream`. -/
theorem load_error_caught (m d : Nat) (s : Bytes) (e : Err) (h : load m d s = .error e) :
    e = .emptyFile ∨ e = .value ∨ e = .type ∨ e = .index ∨ e = .recursion ∨ e = .memory := by
  have := load_err_caught m d s e h
  cases e <;> simp [caughtOuter] at this ⊢

/-- **C36 (totality, file reader).** -/
theorem load_total (m d : Nat) (s : Bytes) : load m d s ≠ .error .fuel := by
  intro h
  have := load_err_caught m d s _ h
  simp [caughtOuter] at this

/-- **C36 (reading never fails unexpectedly).** For ANY file content, ANY environment (allocation limit, recursion
    head-room), ANY behaviour of the HAR importer and ANY behaviour of `from_state ∘ migrate_flow` that raises only
    subclasses of `Exception`: `FlowReader.stream` yields some flows and then ends cleanly or raises
    FlowReadException — no other exception escapes, and the model's fuel never runs out. -/
theorem never_other {α : Type} (env : Env α) (hfs : ∀ i v, env.fromState i v ≠ .error .nonException)
    (file : Bytes) : (readAll env file).2 = .clean ∨ (readAll env file).2 = .flowRead := by
  have key : (readAll env file).2 ≠ .escapes := by
    unfold readAll
    dsimp only
    split
    · split <;> simp
    · exact streamLoop_no_escape env hfs _ 0 _ (Nat.le_refl _)
  cases h : (readAll env file).2 with
  | clean => simp
  | flowRead => simp
  | escapes => exact absurd h key

/-- **C36 (totality, reader loop).** Stated for the loop itself with any sufficient fuel: the result does not
    depend on the fuel artefact once it exceeds the input length. -/
theorem stream_total {α : Type} (env : Env α) (hfs : ∀ i v, env.fromState i v ≠ .error .nonException)
    (f i : Nat) (s : Bytes) (hf : s.length + 1 ≤ f) : (streamLoop env f i s).2 ≠ .escapes :=
  streamLoop_no_escape env hfs f i s hf

/-- **C36 (a corrupted tail never loses the flows before it).** Take ANY byte string that starts with whole, good
    records `vs` (the flows `fl`) and continues with ARBITRARY bytes — garbage, a cut record, a record of an unknown
    version, anything. Reading it yields all of `fl` first, in order; whatever the tail does comes after them. -/
theorem corrupted_tail_keeps_flows {α : Type} (env : Env α) (vs : List Value) (fl : List α)
    (hgood : Good env 0 vs fl) (tail : Bytes) :
    fl <+: (readAll env (encList vs ++ tail)).1 := by
  cases vs with
  | nil =>
    cases fl with
    | nil => exact List.nil_prefix
    | cons _ _ => simp [Good] at hgood
  | cons v vt =>
    obtain ⟨c, cs, hc, hdig⟩ := enc_head_digit v
    have hfile : encList (v :: vt) ++ tail = c :: (cs ++ encList vt ++ tail) := by simp [encList, hc]
    have hlen : (v :: vt).length ≤ (encList (v :: vt) ++ tail).length := by
      have : ∀ l : List Value, l.length ≤ (encList l).length := by
        intro l
        induction l with
        | nil => simp
        | cons v t ih => have := enc_length_ge v; simp [encList]; omega
      have := this (v :: vt)
      simp only [List.length_append]; omega
    unfold readAll
    rw [hfile, sniff_digit c _ hdig]
    simp only [Bool.false_eq_true, if_false]
    rw [← hfile]
    have hf : (encList (v :: vt) ++ tail).length + 1
        = (v :: vt).length + ((encList (v :: vt) ++ tail).length + 1 - (v :: vt).length) := by omega
    rw [hf, stream_records_tail env (v :: vt) fl 0 _ tail hgood]
    exact List.prefix_append _ _

/-- … and the read still ends cleanly or with FlowReadException (combination with `never_other`) -/
theorem corrupted_tail_ends_in_flow_read_error {α : Type} (env : Env α)
    (hfs : ∀ i v, env.fromState i v ≠ .error .nonException) (vs : List Value) (fl : List α)
    (hgood : Good env 0 vs fl) (tail : Bytes) :
    fl <+: (readAll env (encList vs ++ tail)).1 ∧
      ((readAll env (encList vs ++ tail)).2 = .clean ∨ (readAll env (encList vs ++ tail)).2 = .flowRead) :=
  ⟨corrupted_tail_keeps_flows env vs fl hgood tail, never_other env hfs _⟩

-- ------------------------------------------------------------------------------------------------
-- non-vacuity and sanity (computed by the kernel)
-- ------------------------------------------------------------------------------------------------
/-- {"a": [-12, True], b"bc": None} -/
private def sample : Value :=
  .dict [(.str [0x61], .list [.int (-12), .bool true]), (.bytes [0x62, 0x63], .null)]

-- dumps emits 29:2:bc,0:~1:a;13:3:-12#4:true!]}   (second item first)
example : dumps sample =
    [0x32,0x39,0x3a, 0x32,0x3a,0x62,0x63,0x2c, 0x30,0x3a,0x7e, 0x31,0x3a,0x61,0x3b,
     0x31,0x33,0x3a, 0x33,0x3a,0x2d,0x31,0x32,0x23, 0x34,0x3a,0x74,0x72,0x75,0x65,0x21, 0x5d, 0x7d] := by
  decide +kernel
-- the hypotheses of pop_dumps / load_dumps are satisfiable by it
example : WF sample := by
  simp [sample, WF, WFPairs, WFList, hashable, utf8Valid, maxStrDigits]
  decide +kernel
example : depth sample ≤ 2 := by decide +kernel
-- and the parsers really return the mirrored value
example : popTop 5 (dumps sample ++ [0x78]) =
    .ok (.dict [(.bytes [0x62, 0x63], .null), (.str [0x61], .list [.int (-12), .bool true])], [0x78]) := by
  rfl
-- the parsers do reject things, each with its own class
example : popTop 5 [0x31, 0x3a, 0x61] = .error .value := by rfl            -- "1:a"  (no type tag)
example : load 100 5 [0x31, 0x3a, 0x61] = .error .index := by rfl          -- same bytes, file reader
example : load 100 5 [] = .error .emptyFile := by rfl
example : load 100 0 [0x33, 0x3a, 0x30, 0x3a, 0x7e, 0x5d] = .error .recursion := by rfl  -- "3:0:~]" without head-room
example : load 2 5 [0x33, 0x3a, 0x30, 0x3a, 0x7e, 0x5d] = .error .memory := by rfl
example : popTop 5 [0x36, 0x3a, 0x30, 0x3a, 0x5d, 0x30, 0x3a, 0x7e, 0x7d] = .error .type := by rfl -- {[]: None}
-- negative length prefix: Python slice semantics  ("-1:abc," -> b"abc", rest b"abc,")
example : popTop 5 [0x2d, 0x31, 0x3a, 0x61, 0x62, 0x63, 0x2c] = .ok (.bytes [0x61, 0x62, 0x63], [0x61, 0x62, 0x63, 0x2c]) := by
  rfl
-- a reader whose from_state raises a non-Exception is outside never_other's hypothesis, and does escape
example : (readAll (α := Nat) ⟨100, 5, fun _ _ => .error .nonException, fun _ => ([], true)⟩ [0x30, 0x3a, 0x7d]).2 = .escapes := by
  decide +kernel
example : (readAll (α := Nat) ⟨100, 5, fun _ _ => .error .exception, fun _ => ([], true)⟩ [0x30, 0x3a, 0x7d]).2 = .flowRead := by
  decide +kernel

end MitmVerif.Props.C36
